(* C16/Props.v -- property theorems only; each is closed by [exact] of a lemma
   from C16/P*.v and followed by Print Assumptions.  The model [resize1]
   (C16/Model.v) is the 1-d resize_array; its slice arithmetic and legality
   guards are REGENERATED from odl/util/numerics.py into Gen/Padding.v.
   [offset_ok n n_out off]  : 0 <= off and off + min <= max (the block fits);
   [pad_legal m n n_out off]: the padding lengths the docstring allows for mode m. *)
From Coq Require Import ZArith QArith Qreals Reals Lia Lra List Bool.
From Verif Require Import Base.Num Base.Vec Base.VecR Lib.Axis C16.Syntax Gen.Padding Gen.ResizeDiscr C16.Model C16.ModelNd C16.ModelOp C16.Proofs C16.Transfer.
Import ListNotations.
Local Open Scope R_scope.

(* T1: the forward direction computes exactly the named rule.  [resize_ref]
   (C16/Model.v) is the index formula: entry i of the result is position i - off of
   the extension of x -- x itself inside, and outside: the constant; periodic
   x[(j) mod n]; symmetric x[-j] / x[2(n-1)-j] (reflection WITHOUT repeating the
   edge); order0 the edge value; order1 the edge value plus (distance) * edge slope --
   and entry i + off of x when shrinking.  All lengths, all admissible offsets
   (padding up to the array length for periodic, up to length-1 for symmetric),
   all contents and constants. *)
Theorem resize_forward_rule : forall (m : pmode) (c : R) (x : list R) (n_out : nat) (off : Z),
  offset_ok (length x) n_out off = true ->
  pad_legal m (length x) n_out off = true ->
  resize1 m Forward c true x n_out off = Ok (resize_ref m c x n_out off).
Proof. exact forward_is_ref. Qed.
Print Assumptions resize_forward_rule.

(* T1: extending (any mode m, constant c) and then cropping with the matching
   offset (any mode) is the identity. *)
Theorem crop_after_extend : forall (m m' : pmode) (c c' : R) (cast' : bool) (x : list R) (n_out : nat) (off : Z),
  (length x <= n_out)%nat ->
  offset_ok (length x) n_out off = true ->
  pad_legal m (length x) n_out off = true ->
  exists fx, resize1 m Forward c true x n_out off = Ok fx /\
             resize1 m' Forward c' cast' fx (length x) off = Ok x.
Proof. exact crop_extend. Qed.
Print Assumptions crop_after_extend.

(* T1: padding lengths outside the documented limits are rejected (ValueError)
   in both directions, whatever the contents. *)
Theorem illegal_padding_rejected : forall (m : pmode) (c : R) (cast : bool) (x y : list R) (off : Z),
  (length x < length y)%nat ->
  offset_ok (length x) (length y) off = true ->
  pad_legal m (length x) (length y) off = false ->
  resize1 m Forward c cast x (length y) off = ValueErr /\
  resize1 m Adjoint c cast y (length x) off = ValueErr.
Proof. exact illegal_rejected. Qed.
Print Assumptions illegal_padding_rejected.

(* T1: the size guard of a pad mode (order0: n >= 1, order1: n >= 2, and the pad-length
   limits of periodic / symmetric) is consulted ONLY for axes that are extended
   (n_new > n_old, in the adjoint direction: n_old > n_new).  Axes that are kept or
   cropped pass [_apply_padding] unchanged whatever their length (0, 1, 2, ...), mode and
   offset -- per axis of the N-d loop ([ap_axis]) and for the 1-d body.  The position of
   the guards relative to `if n_lhs <= n_rhs: continue` is regenerated from the source
   ([size_guard_before_skip]); hoisting them breaks these proofs. *)
Theorem padding_guard_only_on_extended_axes :
  (forall (m : pmode) (d : direction) (lhs : list R) (n_rhs : nat) (off : Z),
     (length lhs <= n_rhs)%nat -> apply_padding1 m d lhs n_rhs off = Ok lhs) /\
  (forall (m : pmode) (d : direction) (shape : list nat) (W : list (list nat)) (ax n_rhs : nat) (off : Z) (lhs : list R),
     (nth ax shape 0 <= n_rhs)%nat -> ap_axis m d shape W ax n_rhs off lhs = Ok lhs).
Proof. split; [intros; now apply ap1_skipped | intros; now apply ap_axis_skipped]. Qed.
Print Assumptions padding_guard_only_on_extended_axes.

(* T1: a resize that does not extend (crop or keep, any length incl. 0 and 1, every mode,
   admissible offset) never raises, in either direction. *)
Theorem non_extended_resize_never_raises :
  forall (m : pmode) (c : R) (x : list R) (n_out : nat) (off : Z),
  (n_out <= length x)%nat -> offset_ok (length x) n_out off = true ->
  (exists r, resize1 m Forward c true x n_out off = Ok r /\ length r = n_out) /\
  (forall y : list R, length y = n_out ->
     exists ay, resize1 m Adjoint 0 true y (length x) off = Ok ay /\ length ay = length x).
Proof. exact nonextended_never_rejected. Qed.
Print Assumptions non_extended_resize_never_raises.

(* T1: an axis of unchanged size is copied as it is, whatever offset entry is given for it
   (e.g. a scalar offset broadcast to all axes while only some are resized): every mode,
   both directions, any offset.  ([intersection_slices] is regenerated; indexing an
   unchanged axis with slice(offset, offset + n) instead of the full slice breaks this.) *)
Theorem unchanged_size_ignores_offset :
  forall (m : pmode) (d : direction) (c : R) (cast : bool) (x : list R) (off : Z),
  (d = Adjoint -> m = PConstant -> c = 0) ->
  resize1 m d c cast x (length x) off = Ok x.
Proof. exact resize1_same. Qed.
Print Assumptions unchanged_size_ignores_offset.

(* T1: forward and adjoint directions are transposes of each other.  For every
   mode, every input length, every output length (growing, shrinking, equal),
   every admissible offset and all contents x, y: both directions succeed and
   <R x, y> = <x, R^T y>.  (pad_const = 0: the operator is linear.) *)
Theorem resize_adjoint : forall (m : pmode) (x y : list R) (off : Z),
  offset_ok (length x) (length y) off = true ->
  pad_legal m (length x) (length y) off = true ->
  exists fx ay,
    resize1 m Forward 0 true x (length y) off = Ok fx /\
    resize1 m Adjoint 0 true y (length x) off = Ok ay /\
    length fx = length y /\ length ay = length x /\
    dot fx y = dot x ay.
Proof. exact adjoint_all. Qed.
Print Assumptions resize_adjoint.

(* T1: the adjoint identity in the weighted inner products.  A uniformly discretized
   domain and the range built from it carry the constant weighting w = cell volume
   (equal on both sides by [range_covers_enlarged_domain] below), inner = w * <.,.>. *)
Theorem resize_adjoint_weighted : forall (w : R) (m : pmode) (x y : list R) (off : Z),
  offset_ok (length x) (length y) off = true ->
  pad_legal m (length x) (length y) off = true ->
  exists fx ay,
    resize1 m Forward 0 true x (length y) off = Ok fx /\
    resize1 m Adjoint 0 true y (length x) off = Ok ay /\
    cdot w fx y = cdot w x ay.
Proof. exact adjoint_weighted. Qed.
Print Assumptions resize_adjoint_weighted.

(* T1: every resizing variant except constant padding with pad_const <> 0 is linear
   ([vlin a x b y] is the entry-wise a*x + b*y): R(a x + b y) = a R x + b R y. *)
Theorem resize_is_linear : forall (m : pmode) (a b : R) (x y : list R) (n_out : nat) (off : Z),
  length x = length y ->
  offset_ok (length x) n_out off = true -> pad_legal m (length x) n_out off = true ->
  exists rx ry, resize1 m Forward 0 true x n_out off = Ok rx /\
                resize1 m Forward 0 true y n_out off = Ok ry /\
                resize1 m Forward 0 true (vlin a x b y) n_out off = Ok (vlin a rx b ry).
Proof. exact resize_linear. Qed.
Print Assumptions resize_is_linear.

(* T1: constant padding with pad_const <> 0 is affine and its linear part (the
   operator's derivative) is zero padding:  R_c(x + h) - R_c(x) = R_0(h). *)
Theorem constant_padding_affine : forall (c : R) (x h : list R) (n_out : nat) (off : Z),
  length x = length h ->
  vsub (resize_ref PConstant c (vadd x h) n_out off) (resize_ref PConstant c x n_out off)
  = resize_ref PConstant 0 h n_out off.
Proof. exact const_affine. Qed.
Print Assumptions constant_padding_affine.

(* T1: an offset outside 0 .. |n_out - n| is rejected (ValueError) for every mode,
   direction and contents.  (Was finding offset-out-of-range-accepted, repaired by
   675e308; the validation condition is regenerated into Gen.Padding.offset_invalid.) *)
Theorem offset_out_of_range_is_rejected :
  forall (m : pmode) (d : direction) (c : R) (cast : bool) (arr : list R) (n_out : nat) (off : Z),
  length arr <> n_out -> offset_ok (length arr) n_out off = false ->
  resize1 m d c cast arr n_out off = ValueErr.
Proof. exact offset_out_of_range_rejected. Qed.
Print Assumptions offset_out_of_range_is_rejected.

(* T1 (transfer): the model executed at Q by the correspondence shards is the rational
   restriction of the model the theorems above are about: Q2R commutes with resize1
   (outputs and error outcomes), every mode, direction, length and offset. *)
Theorem resize1_Q_is_restriction_of_R :
  forall (m : pmode) (d : direction) (c : Q) (cast : bool) (arr : list Q) (n_out : nat) (off : Z),
  omap (resize1 m d c cast arr n_out off) = resize1 m d (Q2R c) cast (map Q2R arr) n_out off.
Proof. exact resize1_transfer. Qed.
Print Assumptions resize1_Q_is_restriction_of_R.

(* ---- N-d (flat C-order arrays).  [sep_loop m d c cast outer src dst offs] applies the
   1-d resize along axis 0, then 1, ... ([Lib.Axis.along]) -- the code's own axis order,
   in both directions.  It is compared with resize_array on every N-d correspondence
   case, together with the in-place model [resizeN] (working-slice bookkeeping).
   [config_ok m ishape oshape offs]: every axis has an admissible offset and legal
   padding -- any number of axes, growing in some while shrinking in others. ---- *)

(* T1 (N-d): forward and adjoint directions of the separable model are transposes, with
   the code's axis order (axis 0 first) in BOTH directions, any number of resized axes. *)
Theorem resize_adjoint_nd :
  forall (m : pmode) (outer : nat) (ishape oshape : list nat) (offs : list Z) (x y : list R),
  config_ok m ishape oshape offs = true ->
  length x = (outer * prodn ishape)%nat -> length y = (outer * prodn oshape)%nat ->
  dot (sep_loop m Forward 0 true outer ishape oshape offs x) y
  = dot x (sep_loop m Adjoint 0 true outer oshape ishape offs y).
Proof. exact sep_adjoint_code_order. Qed.
Print Assumptions resize_adjoint_nd.

(* T1 (N-d): extending in every axis (mode m) and then cropping with the same offsets
   (any mode m') is the identity; both in the code's axis order. *)
Theorem crop_after_extend_nd :
  forall (m m' : pmode) (outer : nat) (ishape oshape : list nat) (offs : list Z) (x : list R),
  config_ok m ishape oshape offs = true -> all_grow ishape oshape = true ->
  length x = (outer * prodn ishape)%nat ->
  sep_loop m' Forward 0 true outer oshape ishape offs
    (sep_loop m Forward 0 true outer ishape oshape offs x) = x.
Proof. exact sep_crop_extend_code_order. Qed.
Print Assumptions crop_after_extend_nd.

(* T1 (N-d): the axis order is immaterial.  Whenever every 1-d line map is linear
   ([lines_lin]: true for every admissible configuration, [lines_lin_fwd] /
   [lines_lin_adj]), applying the maps last axis first ([sep_rev_loop]) gives the same
   array as applying them in the code's order.  (Proof: every linear map on lists is a
   matrix; acting along one axis commutes with a linear map applied to the inner blocks.) *)
Theorem axis_order_immaterial :
  forall (m : pmode) (d : direction) (ishape oshape : list nat) (offs : list Z) (outer : nat) (y : list R),
  lines_lin m d oshape ishape offs -> length y = (outer * prodn oshape)%nat ->
  sep_rev_loop m d 0 true outer ishape oshape offs y = sep_loop m d 0 true outer oshape ishape offs y.
Proof. exact sep_rev_eq_sep. Qed.
Print Assumptions axis_order_immaterial.
Theorem admissible_configurations_are_linear :
  forall (m : pmode) (ishape oshape : list nat) (offs : list Z),
  config_ok m ishape oshape offs = true ->
  lines_lin m Forward ishape oshape offs /\ lines_lin m Adjoint oshape ishape offs.
Proof. intros m i o f H; split; [exact (lines_lin_fwd m i o f H) | exact (lines_lin_adj m i o f H)]. Qed.

(* T1: resize_array always returns an array of the requested length (any mode,
   direction, offset -- legal or not -- whenever it does not raise). *)
Theorem resize_result_length :
  forall (m : pmode) (d : direction) (c : R) (cast : bool) (arr : list R) (n_out : nat) (off : Z) (r : list R),
  resize1 m d c cast arr n_out off = Ok r -> length r = n_out.
Proof. exact resize1_length. Qed.
Print Assumptions resize_result_length.

(* T1 (operator range, per axis).  [resize_axis a n_new off bl br] is the
   range axis built by _resize_discr from the domain axis a (interval, cells,
   nodes_on_bdry flags); [num_lr] the numbers of cells added left/right;
   [axis_valid]: n >= 1, and n >= 2 when a node lies on the boundary.
   With the same boundary convention the range has the SAME cell side and its
   interval is the domain interval enlarged by exactly nl cells on the left and
   nr on the right, nl + nr = n_new - n.  ([num_lr], [new_minpt], [new_maxpt] are
   regenerated from _resize_discr into Gen/ResizeDiscr.v; for an extension
   nl = offset, nr = n_new - n - offset.) *)
Theorem range_covers_enlarged_domain :
  forall (a : @axis R) (n_new : Z) (off : option Z),
  axis_valid a -> (1 <= n_new)%Z ->
  (a_bl a = true -> (2 <= n_new)%Z) -> (a_br a = true -> (2 <= n_new)%Z) ->
  let r := resize_axis a n_new off (a_bl a) (a_br a) in
  let nl := fst (num_lr (a_n a) n_new off) in
  let nr := snd (num_lr (a_n a) n_new off) in
  cell_side r = cell_side a /\
  a_min r = a_min a - IZR nl * cell_side a /\
  a_max r = a_max a + IZR nr * cell_side a /\
  (nl + nr = n_new - a_n a)%Z.
Proof. exact resize_axis_covers. Qed.
Print Assumptions range_covers_enlarged_domain.

(* T1: any boundary convention for the range (discr_kwargs): same cell side, and
   the range GRID is the domain grid continued by nl / nr points. *)
Theorem range_grid_continues_domain_grid :
  forall (a : @axis R) (n_new : Z) (off : option Z) (bl br : bool),
  axis_valid a -> (1 <= n_new)%Z -> (bl = true -> (2 <= n_new)%Z) -> (br = true -> (2 <= n_new)%Z) ->
  let r := resize_axis a n_new off bl br in
  let nl := fst (num_lr (a_n a) n_new off) in
  let nr := snd (num_lr (a_n a) n_new off) in
  cell_side r = cell_side a /\
  gmin r = gmin a - IZR nl * cell_side a /\
  gmax r = gmax a + IZR nr * cell_side a.
Proof. exact resize_axis_grid. Qed.
Print Assumptions range_grid_continues_domain_grid.

(* T1: dtype, exponent and weighting of the range inferred from ran_shp are those of the
   domain unless given in discr_kwargs ([range_attr] is regenerated from the four
   `discr_kwargs.pop(attr, discr.attr)` statements of _resize_discr; the translator fails
   closed when one of them no longer defaults to the domain's attribute).  With the
   inherited constant weighting, [resize_adjoint_weighted] is the adjoint identity in the
   weighted inner products also for a user-chosen weighting of the domain. *)
Theorem inferred_range_inherits_domain_attributes :
  forall (A : Type) (d : A), range_attr None d = d /\ forall v : A, range_attr (Some v) d = v.
Proof. intros A d; split; reflexivity. Qed.

(* T1: an axis whose size is unchanged keeps its interval and cell side whatever offset is
   given for it (scalar offset, or a per-axis offset for an axis that is not resized);
   the `if affected[axis]` guard is part of the regenerated [num_lr]. *)
Theorem unaffected_axis_keeps_interval : forall (a : @axis R) (off : option Z),
  axis_valid a ->
  let r := resize_axis a (a_n a) off (a_bl a) (a_br a) in
  cell_side r = cell_side a /\ a_min r = a_min a /\ a_max r = a_max a /\
  num_lr (a_n a) (a_n a) off = (0, 0)%Z.
Proof. exact unaffected_axis. Qed.
Print Assumptions unaffected_axis_keeps_interval.

(* T1: without an explicit offset the size change is distributed evenly, with preference
   for the left in case of ambiguity (docstring of ResizingOperator). *)
Theorem default_offset_even_prefers_left : forall n n_new : Z,
  let '(nl, nr) := num_lr n n_new None in ((nl + nr = n_new - n) /\ (0 <= nl - nr <= 1))%Z.
Proof. exact default_split. Qed.

(* T1: _offset_from_spaces (regenerated [offset_float]: signed shift, negated when the
   range is larger) recovers the cells added on the left of an extension resp. removed
   on the left of a restriction. *)
Theorem offset_from_spaces_recovers :
  forall (a : @axis R) (n_new : Z) (off : option Z) (bl br : bool),
  axis_valid a -> (1 <= n_new)%Z -> (bl = true -> (2 <= n_new)%Z) -> (br = true -> (2 <= n_new)%Z) ->
  0 < cell_side a ->
  offset_float_ax a (resize_axis a n_new off bl br)
  = IZR (let nl := fst (num_lr (a_n a) n_new off) in if (a_n a <? n_new)%Z then nl else (- nl)%Z).
Proof. exact offset_float_resize. Qed.
Print Assumptions offset_from_spaces_recovers.

(* T1: a restricting operator built with ran_shp and an explicit offset o has the
   sub-interval starting o cells inside the domain as its range, same cell side.
   (Was finding range-restrict-explicit-offset: the code used num_l = +o also when
   shrinking; repaired by 62efc7f.  The decision tree is regenerated from the source,
   so re-introducing the old convention breaks this proof.) *)
Theorem range_restrict_explicit_offset :
  forall (a : @axis R) (n_new o : Z),
  axis_valid a -> (1 <= n_new < a_n a)%Z ->
  (a_bl a = true -> (2 <= n_new)%Z) -> (a_br a = true -> (2 <= n_new)%Z) ->
  let r := resize_axis a n_new (Some o) (a_bl a) (a_br a) in
  cell_side r = cell_side a /\
  a_min r = a_min a + IZR o * cell_side a /\
  a_max r = a_max a - IZR (a_n a - n_new - o) * cell_side a.
Proof. exact range_restrict_offset. Qed.
Print Assumptions range_restrict_explicit_offset.

(* non-vacuity: the side conditions hold e.g. for 3 -> 7 with offset 2 in every mode,
   5 -> 2 with offset 3, and periodic padding as long as the array itself *)
Example side_conditions_satisfiable :
  forallb (fun m => offset_ok 3 7 2 && pad_legal m 3 7 2 && offset_ok 5 2 3 && pad_legal m 5 2 3) all_pmodes = true
  /\ (offset_ok 3 9 3 && pad_legal PPeriodic 3 9 3 = true).
Proof. split; vm_compute; reflexivity. Qed.
Example illegal_exists :
  offset_ok 3 7 3 && negb (pad_legal PSymmetric 3 7 3) && negb (pad_legal PPeriodic 3 8 4)
  && negb (pad_legal POrder1 1 3 1) && negb (pad_legal POrder0 0 2 1) = true.
Proof. vm_compute; reflexivity. Qed.
Example axis_valid_example : axis_valid unit10 /\ 0 < cell_side unit10.
Proof.
  split; [unfold axis_valid; cbn; repeat split; try lia; discriminate|].
  unfold cell_side, gmin, gmax, unit10; cbn [a_min a_max a_n a_bl a_br].
  change (10 =? 1)%Z with false; cbv iota; numR.
  change (2 * 10)%Z with 20%Z; change (10 - 1)%Z with 9%Z. lra.
Qed.
Example config_ok_example :
  config_ok PSymmetric [3; 4; 2]%nat [5; 2; 2]%nat [1; 1; 0]%Z = true
  /\ config_ok POrder1 [2; 3]%nat [6; 3]%nat [3; 0]%Z && all_grow [2; 3]%nat [6; 3]%nat = true.
Proof. split; vm_compute; reflexivity. Qed.
