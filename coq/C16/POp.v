(* C16/POp.v -- the range of ResizingOperator: cell sides, covered interval, offset (R). *)
From Coq Require Import ZArith QArith Reals Lia Lra List Bool.
From Verif Require Import Base.Num Gen.ResizeDiscr C16.ModelOp.
Import ListNotations.
Local Open Scope R_scope.

Definition axis_valid (a : @axis R) : Prop :=
  (1 <= a_n a)%Z /\ (a_bl a = true -> (2 <= a_n a)%Z) /\ (a_br a = true -> (2 <= a_n a)%Z).

(* the defining relation of a uniform grid: gmax - gmin = (n - 1) * cell side *)
Lemma grid_span (a : @axis R) : axis_valid a ->
  gmax a - gmin a = IZR (a_n a - 1) * cell_side a.
Proof.
  intros [Hn [Hb Hb']]. unfold cell_side, gmax, gmin. numR.
  destruct (Z.eqb_spec (a_n a) 1) as [E|E].
  - rewrite E. replace (2 * 1 - 1)%Z with 1%Z by lia. replace (2 * 1)%Z with 2%Z by lia.
    replace (1 - 1)%Z with 0%Z by lia.
    destruct (a_bl a), (a_br a); try (specialize (Hb eq_refl); lia); try (specialize (Hb' eq_refl); lia); field.
  - assert (IZR (a_n a - 1) <> 0) by (apply not_0_IZR; lia).
    field. assumption.
Qed.

Lemma num_lr_sum n n_new off : let '(nl, nr) := num_lr n n_new off in (nl + nr = n_new - n)%Z.
Proof.
  unfold num_lr. destruct (Z.eqb_spec n_new n); cbn [negb]; [lia|].
  destruct off as [o|]; [rewrite Z.geb_leb; destruct (0 <=? n_new - n)%Z|]; cbv zeta; lia.
Qed.

(* T1: the range built by _resize_discr has the same cell side, and its grid is
   the domain grid continued by nl cells to the left and nr cells to the right *)
Lemma resize_axis_grid (a : @axis R) n_new off bl br :
  axis_valid a -> (1 <= n_new)%Z -> (bl = true -> (2 <= n_new)%Z) -> (br = true -> (2 <= n_new)%Z) ->
  let r := resize_axis a n_new off bl br in
  let nl := fst (num_lr (a_n a) n_new off) in
  let nr := snd (num_lr (a_n a) n_new off) in
  cell_side r = cell_side a /\
  gmin r = gmin a - IZR nl * cell_side a /\
  gmax r = gmax a + IZR nr * cell_side a.
Proof.
  intros Hv Hn Hb Hb' r nl nr. subst r nl nr.
  pose proof (grid_span a Hv) as Hs. pose proof (num_lr_sum (a_n a) n_new off) as Hsum.
  unfold resize_axis. destruct (num_lr (a_n a) n_new off) as [nl nr]. cbn [fst snd].
  unfold new_minpt, new_maxpt, of_Q. cbn [Qnum Qden].
  set (cs := cell_side a) in *. set (g0 := gmin a) in *. set (g1 := gmax a) in *.
  assert (Hnr : IZR nr = IZR n_new - IZR (a_n a) - IZR nl).
  { rewrite <- !minus_IZR. f_equal. lia. }
  rewrite minus_IZR in Hs.
  unfold cell_side, gmin, gmax. cbn [a_min a_max a_n a_bl a_br]. numR.
  assert (N1 : 1 <= IZR n_new) by (apply IZR_le; lia).
  rewrite !minus_IZR, !mult_IZR.
  assert (Hg1 : g1 = g0 + (IZR (a_n a) - 1) * cs) by lra. clearbody g1. subst g1.
  rewrite Hnr. clear Hs Hnr Hsum.
  change (IZR 2) with 2. change (IZR 1) with 1.
  destruct (Z.eqb_spec n_new 1) as [E1|E1].
  - subst n_new. change (IZR 1) with 1 in *.
    destruct bl, br; try (specialize (Hb eq_refl); lia); try (specialize (Hb' eq_refl); lia).
    repeat split; field.
  - assert (N2 : 2 <= IZR n_new) by (apply IZR_le; lia).
    destruct bl, br; repeat split; field; lra.
Qed.

(* grid points sit half a cell inside the interval unless the node is on the boundary *)
Lemma half_cell (a : @axis R) : axis_valid a ->
  gmin a = a_min a + (if a_bl a then 0 else cell_side a / 2) /\
  gmax a = a_max a - (if a_br a then 0 else cell_side a / 2).
Proof.
  intros [Hn [Hb Hb']]. unfold cell_side, gmax, gmin. numR.
  destruct (Z.eqb_spec (a_n a) 1) as [E|E].
  - rewrite E. replace (2 * 1)%Z with 2%Z by lia.
    destruct (a_bl a), (a_br a); try (specialize (Hb eq_refl); lia); try (specialize (Hb' eq_refl); lia).
    split; field.
  - assert (N2 : 2 <= IZR (a_n a)) by (apply IZR_le; lia).
    rewrite !minus_IZR, !mult_IZR. change (IZR 2) with 2. change (IZR 1) with 1.
    destruct (a_bl a), (a_br a); split; field; lra.
Qed.

(* T1: with the same boundary convention, the range interval is the domain
   interval enlarged by exactly nl cells on the left and nr cells on the right,
   nl + nr = n_new - n, and the cell side is unchanged *)
Lemma resize_axis_covers (a : @axis R) n_new off :
  axis_valid a -> (1 <= n_new)%Z ->
  (a_bl a = true -> (2 <= n_new)%Z) -> (a_br a = true -> (2 <= n_new)%Z) ->
  let r := resize_axis a n_new off (a_bl a) (a_br a) in
  let nl := fst (num_lr (a_n a) n_new off) in
  let nr := snd (num_lr (a_n a) n_new off) in
  cell_side r = cell_side a /\
  a_min r = a_min a - IZR nl * cell_side a /\
  a_max r = a_max a + IZR nr * cell_side a /\
  (nl + nr = n_new - a_n a)%Z.
Proof.
  intros Hv Hn Hb Hb' r nl nr.
  destruct (resize_axis_grid a n_new off (a_bl a) (a_br a) Hv Hn Hb Hb') as [Hc _].
  fold r in Hc. split; [exact Hc|].
  destruct (half_cell a Hv) as [H0 H1].
  pose proof (num_lr_sum (a_n a) n_new off) as Hsum.
  subst r nl nr. unfold resize_axis in *.
  destruct (num_lr (a_n a) n_new off) as [nl nr]. cbn [fst snd a_min a_max].
  unfold new_minpt, new_maxpt, of_Q. cbn [Qnum Qden]. numR. rewrite H0, H1.
  destruct (a_bl a), (a_br a); repeat split; try field; exact Hsum.
Qed.

(* _offset_from_spaces recovers the number of cells added on the left (extension) resp.
   removed on the left (restriction) from the two grids, with the sign convention of the code *)
Lemma offset_float_resize (a : @axis R) n_new off bl br :
  axis_valid a -> (1 <= n_new)%Z -> (bl = true -> (2 <= n_new)%Z) -> (br = true -> (2 <= n_new)%Z) ->
  0 < cell_side a ->
  offset_float_ax a (resize_axis a n_new off bl br)
  = IZR (let nl := fst (num_lr (a_n a) n_new off) in if (a_n a <? n_new)%Z then nl else (- nl)%Z).
Proof.
  intros Hv Hn Hb Hb' Hcs.
  destruct (resize_axis_grid a n_new off bl br Hv Hn Hb Hb') as [_ [Hg _]].
  unfold offset_float_ax, offset_float. rewrite Hg.
  replace (a_n (resize_axis a n_new off bl br)) with n_new
    by (unfold resize_axis; destruct (num_lr (a_n a) n_new off); reflexivity).
  cbv zeta. destruct (a_n a <? n_new)%Z; numR; rewrite ?opp_IZR; field; lra.
Qed.

Definition unit10 : @axis R := {| a_min := 0; a_max := 1; a_n := 10; a_bl := false; a_br := false |}.

(* a restriction with explicit offset o: the range is the sub-interval starting o cells inside
   the domain (was finding range-restrict-explicit-offset, repaired in /repo by 62efc7f; the
   num_l / num_r tree is regenerated from the source, so the old sign convention
   num_l = +o would make this proof fail) *)
Lemma range_restrict_offset (a : @axis R) n_new o :
  axis_valid a -> (1 <= n_new < a_n a)%Z ->
  (a_bl a = true -> (2 <= n_new)%Z) -> (a_br a = true -> (2 <= n_new)%Z) ->
  let r := resize_axis a n_new (Some o) (a_bl a) (a_br a) in
  cell_side r = cell_side a /\
  a_min r = a_min a + IZR o * cell_side a /\
  a_max r = a_max a - IZR (a_n a - n_new - o) * cell_side a.
Proof.
  intros Hv Hn Hb Hb' r.
  destruct (resize_axis_covers a n_new (Some o) Hv ltac:(lia) Hb Hb') as (Hc & H0 & H1 & _).
  fold r in Hc, H0, H1. split; [exact Hc|].
  unfold num_lr in H0, H1. destruct (Z.eqb_spec n_new (a_n a)); [lia|]. cbn [negb] in H0, H1.
  cbv zeta in H0, H1. rewrite Z.geb_leb in H0, H1.
  destruct (Z.leb_spec 0 (n_new - a_n a)); [lia|]. cbn [fst snd] in H0, H1.
  rewrite H0, H1. rewrite opp_IZR. split; [ring|].
  replace (n_new - a_n a + o)%Z with (- (a_n a - n_new - o))%Z by lia. rewrite opp_IZR. ring.
Qed.

(* default offset: the size change is split evenly, the odd cell goes to the left *)
Lemma default_split n n_new :
  let '(nl, nr) := num_lr n n_new None in ((nl + nr = n_new - n) /\ (0 <= nl - nr <= 1))%Z.
Proof.
  unfold num_lr. destruct (Z.eqb_spec n_new n); cbn [negb]; cbv zeta; [lia|].
  pose proof (Z.div_mod (n_new - n) 2 ltac:(lia)). pose proof (Z.mod_pos_bound (n_new - n) 2 ltac:(lia)). lia.
Qed.

(* an axis whose size does not change keeps its interval and cell side, whatever offset is given for it *)
Lemma unaffected_axis (a : @axis R) off : axis_valid a ->
  let r := resize_axis a (a_n a) off (a_bl a) (a_br a) in
  cell_side r = cell_side a /\ a_min r = a_min a /\ a_max r = a_max a /\ num_lr (a_n a) (a_n a) off = (0, 0)%Z.
Proof.
  intros Hv r. destruct Hv as (Hn & Hb & Hb').
  assert (E : num_lr (a_n a) (a_n a) off = (0, 0)%Z) by (unfold num_lr; now rewrite Z.eqb_refl).
  destruct (resize_axis_covers a (a_n a) off (conj Hn (conj Hb Hb')) Hn Hb Hb') as (Hc & H0 & H1 & _).
  fold r in Hc, H0, H1. rewrite E in H0, H1. cbn [fst snd] in H0, H1.
  repeat split; [exact Hc | rewrite H0; lra | rewrite H1; lra | exact E].
Qed.
