(* C19/Proofs.v -- lemmas about the geometry model at R. *)
From Coq Require Import ZArith QArith Reals Lra Lia Psatz List Bool.
From Verif Require Import Base.Num C19.Model.
Import ListNotations.
Local Open Scope R_scope.

Lemma euler2_orthonormal_l (c s : R) : c * c + s * s = 1 ->
  mm2 (tr2 (euler2 (c, s))) (euler2 (c, s)) = id2 /\ det2 (euler2 (c, s)) = 1.
Proof.
  intros Hc. unfold mm2, tr2, euler2, id2, det2, dot2. numR.
  split; [repeat f_equal|]; nra.
Qed.
