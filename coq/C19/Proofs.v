(* C19/Proofs.v -- lemmas about the geometry model at R (rt := sqrt). *)
From Coq Require Import ZArith QArith Reals Lra Lia Psatz Nsatz List Bool.
From Verif Require Import Base.Num C19.Model Gen.GeometryFormulas.
Import ListNotations.
Local Open Scope R_scope.

Notation V2 := (R * R)%type.
Notation V3 := (R * R * R)%type.
Notation M2 := ((R * R) * (R * R))%type.
Notation M3 := ((R * R * R) * (R * R * R) * (R * R * R))%type.

Ltac unf :=
  unfold mm2, tr2, euler2, id2, det2, mv2, dot2, add2, sub2, scal2, sdiv2, neg2,
         mm3, tr3, euler3, id3, det3, mv3, dot3, add3, sub3, scal3, sdiv3, neg3, cross3, axis_rot in *;
  numR.
Ltac d2 v := let a := fresh v "0" in let b := fresh v "1" in destruct v as [a b].
Ltac d3 v := let a := fresh v "0" in let b := fresh v "1" in let c := fresh v "2" in destruct v as [[a b] c].
Ltac pair_eq := repeat match goal with |- (_, _) = (_, _) => apply f_equal2 end; try reflexivity.

Definition is_rot2 (m : M2) : Prop := mm2 (tr2 m) m = id2 /\ det2 m = 1.
Definition is_rot3 (m : M3) : Prop := mm3 (tr3 m) m = id3 /\ det3 m = 1.
Definition on_circle (a : R * R) : Prop := fst a * fst a + snd a * snd a = 1.

(* ------------------------------------------------------------ rotations *)
Lemma euler2_rot (a : R * R) : on_circle a -> is_rot2 (euler2 a).
Proof.
  destruct a as [c s]; unfold on_circle, is_rot2; cbn [fst snd]; intros Hc. unf.
  split; [pair_eq|]; nra.
Qed.

Lemma euler3_rot (phi theta psi : R * R) :
  on_circle phi -> on_circle theta -> on_circle psi -> is_rot3 (euler3 phi theta psi).
Proof.
  destruct phi as [c1 s1], theta as [c2 s2], psi as [c3 s3]; unfold on_circle, is_rot3; cbn [fst snd].
  intros H1 H2 H3. unf. split; [pair_eq|]; nsatz.
Qed.

Lemma axis_rot_rot (ax : V3) (a : R * R) : dot3 ax ax = 1 -> on_circle a -> is_rot3 (axis_rot ax a).
Proof.
  d3 ax; destruct a as [c s]; unfold on_circle, is_rot3; cbn [fst snd]. unf.
  intros Ha Hc. split; [pair_eq|]; nsatz.
Qed.

Lemma axis_rot_fixes_axis (ax : V3) (a : R * R) : dot3 ax ax = 1 -> mv3 (axis_rot ax a) ax = ax.
Proof.
  d3 ax; destruct a as [c s]. unf. intros Ha. pair_eq; nsatz.
Qed.

(* a rotation preserves inner products, hence lengths, distances and angles *)
Lemma rot2_isometry (m : M2) (v w : V2) : mm2 (tr2 m) m = id2 -> dot2 (mv2 m v) (mv2 m w) = dot2 v w.
Proof.
  destruct m as [[a b] [c d]]; d2 v; d2 w. unf. intros Hm.
  injection Hm as H1 H2 H3 H4. nsatz.
Qed.
Lemma rot3_isometry (m : M3) (v w : V3) : mm3 (tr3 m) m = id3 -> dot3 (mv3 m v) (mv3 m w) = dot3 v w.
Proof.
  destruct m as [[[[a b] c] [[d e] f]] [[g h] i]]; d3 v; d3 w. unf. intros Hm.
  injection Hm as H1 H2 H3 H4 H5 H6 H7 H8 H9. nsatz.
Qed.

(* ------------------------------------------------------ normalisation (sqrt) *)
Lemma dot3_nonneg (v : V3) : 0 <= dot3 v v.
Proof. d3 v. unf. nra. Qed.
Lemma dot2_nonneg (v : V2) : 0 <= dot2 v v.
Proof. d2 v. unf. nra. Qed.
Lemma norm3_sq (v : V3) : norm3 sqrt v * norm3 sqrt v = dot3 v v.
Proof. unfold norm3. numR. apply sqrt_sqrt, dot3_nonneg. Qed.
Lemma norm2_sq (v : V2) : norm2 sqrt v * norm2 sqrt v = dot2 v v.
Proof. unfold norm2. numR. apply sqrt_sqrt, dot2_nonneg. Qed.
Lemma norm3_nonneg (v : V3) : 0 <= norm3 sqrt v.
Proof. unfold norm3. apply sqrt_pos. Qed.
Lemma norm2_nonneg (v : V2) : 0 <= norm2 sqrt v.
Proof. unfold norm2. apply sqrt_pos. Qed.

Lemma normalize3_unit (v : V3) : norm3 sqrt v <> 0 ->
  dot3 (sdiv3 v (norm3 sqrt v)) (sdiv3 v (norm3 sqrt v)) = 1.
Proof.
  intros Hn. pose proof (norm3_sq v) as Hs. set (n := norm3 sqrt v) in *.
  d3 v. unf. field_simplify_eq; [|exact Hn]. nra.
Qed.
Lemma normalize2_unit (v : V2) : norm2 sqrt v <> 0 ->
  dot2 (sdiv2 v (norm2 sqrt v)) (sdiv2 v (norm2 sqrt v)) = 1.
Proof.
  intros Hn. pose proof (norm2_sq v) as Hs. set (n := norm2 sqrt v) in *.
  d2 v. unf. field_simplify_eq; [|exact Hn]. nra.
Qed.
Lemma norm3_zero_iff (v : V3) : norm3 sqrt v = 0 <-> v = (0, 0, 0).
Proof.
  split.
  - intros Hn. pose proof (norm3_sq v) as Hs. rewrite Hn in Hs. d3 v. unf.
    assert (v0 = 0) by nra. assert (v1 = 0) by nra. assert (v2 = 0) by nra. subst. reflexivity.
  - intros ->. unfold norm3. unf. replace (0 * 0 + 0 * 0 + 0 * 0) with 0 by ring. apply sqrt_0.
Qed.
Lemma norm2_zero_iff (v : V2) : norm2 sqrt v = 0 <-> v = (0, 0).
Proof.
  split.
  - intros Hn. pose proof (norm2_sq v) as Hs. rewrite Hn in Hs. d2 v. unf.
    assert (v0 = 0) by nra. assert (v1 = 0) by nra. subst. reflexivity.
  - intros ->. unfold norm2. unf. replace (0 * 0 + 0 * 0) with 0 by ring. apply sqrt_0.
Qed.

(* AxisOrientedGeometry.__init__: every nonzero axis is accepted and stored with unit length *)
Lemma unit_axis_spec (axis : V3) :
  (axis = (0, 0, 0) -> unit_axis sqrt axis = None) /\
  (axis <> (0, 0, 0) -> exists u, unit_axis sqrt axis = Some u /\ dot3 u u = 1).
Proof.
  unfold unit_axis. numR. split.
  - intros Hz. apply norm3_zero_iff in Hz. destruct (Reqb_spec (norm3 sqrt axis) 0); congruence.
  - intros Hnz. destruct (Reqb_spec (norm3 sqrt axis) 0) as [Hn|Hn].
    + apply norm3_zero_iff in Hn. contradiction.
    + eexists; split; [reflexivity|]. apply normalize3_unit, Hn.
Qed.
Lemma unit_axis_some (axis u : V3) : unit_axis sqrt axis = Some u -> dot3 u u = 1.
Proof.
  unfold unit_axis. numR. destruct (Reqb_spec (norm3 sqrt axis) 0) as [Hn|Hn]; [discriminate|].
  intros [= <-]. apply normalize3_unit, Hn.
Qed.

(* ---------------------------------------------------- detectors: normals *)
Lemma perp2_spec (v : V2) : v <> (0, 0) ->
  dot2 (perp2 sqrt v) v = 0 /\ dot2 (perp2 sqrt v) (perp2 sqrt v) = 1.
Proof.
  intros Hv. d2 v. unfold perp2. numR.
  destruct (Reqb_spec v0 0) as [H0|H0]; destruct (Reqb_spec v1 0) as [H1|H1]; cbn [negb orb];
    try (subst; exfalso; apply Hv; reflexivity).
  all: assert (Hn : norm2 sqrt (- v1, v0) <> 0)
         by (intros Hn; apply norm2_zero_iff in Hn; injection Hn as Ha Hb; lra).
  all: split; [|apply normalize2_unit, Hn].
  all: set (n := norm2 sqrt (- v1, v0)) in *; unf; field; exact Hn.
Qed.

Lemma cross3_orth_l (a b : V3) : dot3 (cross3 a b) a = 0.
Proof. d3 a; d3 b. unf. ring. Qed.
Lemma cross3_orth_r (a b : V3) : dot3 (cross3 a b) b = 0.
Proof. d3 a; d3 b. unf. ring. Qed.
Lemma dot3_sdiv_l (a b : V3) (k : R) : k <> 0 -> dot3 (sdiv3 a k) b = dot3 a b / k.
Proof. intros Hk. d3 a; d3 b. unf. field. exact Hk. Qed.
Lemma dot2_neg_l (a b : V2) : dot2 (neg2 a) b = - dot2 a b.
Proof. d2 a; d2 b. unf. ring. Qed.
Lemma dot2_neg_neg (a : V2) : dot2 (neg2 a) (neg2 a) = dot2 a a.
Proof. d2 a. unf. ring. Qed.

(* surface normal of any 1-d detector in the plane: unit, orthogonal to the surface tangent *)
Lemma normal2_spec (d : det2d) (p : dpar2) : deriv2 d p <> (0, 0) ->
  dot2 (normal2 sqrt d p) (deriv2 d p) = 0 /\ dot2 (normal2 sqrt d p) (normal2 sqrt d p) = 1.
Proof.
  intros Hd. unfold normal2. destruct (perp2_spec _ Hd) as [Ho Hu].
  rewrite dot2_neg_l, dot2_neg_neg, Ho, Hu. split; ring.
Qed.
(* surface normal of any 2-d detector in space: unit, orthogonal to both surface tangents *)
Lemma normal3_spec (d : det3d) (p : dpar3) :
  cross3 (fst (deriv3 d p)) (snd (deriv3 d p)) <> (0, 0, 0) ->
  dot3 (normal3 sqrt d p) (fst (deriv3 d p)) = 0 /\ dot3 (normal3 sqrt d p) (snd (deriv3 d p)) = 0 /\
  dot3 (normal3 sqrt d p) (normal3 sqrt d p) = 1.
Proof.
  unfold normal3. destruct (deriv3 d p) as [d0 d1]. cbn [fst snd]. intros Hc.
  assert (Hn : norm3 sqrt (cross3 d0 d1) <> 0) by (intros Hn; apply norm3_zero_iff in Hn; contradiction).
  split; [|split]; [| |apply normalize3_unit, Hn].
  all: rewrite dot3_sdiv_l by exact Hn; rewrite ?cross3_orth_l, ?cross3_orth_r; unfold Rdiv; ring.
Qed.

(* well-formed detectors (what the constructors establish) *)
Definition wf_det2 (d : det2d) : Prop :=
  match d with Flat1 ax => dot2 ax ax = 1 | Circ ax r => dot2 ax ax = 1 /\ 0 < r end.
Definition wf_det3 (d : det3d) : Prop :=
  match d with
  | Flat2 a0 a1 => dot3 a0 a0 = 1 /\ dot3 a1 a1 = 1 /\ cross3 a0 a1 <> (0, 0, 0)
  | Cyl a0 a1 r m | Sph a0 a1 r m => dot3 a0 a0 = 1 /\ dot3 a1 a1 = 1 /\ 0 < r /\ is_rot3 m
  end.

Lemma mk_flat1_wf (axis : V2) (d : det2d) : mk_flat1 sqrt axis = Some d -> wf_det2 d.
Proof.
  unfold mk_flat1. numR. destruct (Reqb_spec (norm2 sqrt axis) 0) as [Hn|Hn]; [discriminate|].
  intros [= <-]. cbn. apply normalize2_unit, Hn.
Qed.
Lemma mk_circ_wf (axis : V2) (r : R) (d : det2d) : mk_circ sqrt axis r = Some d -> wf_det2 d.
Proof.
  unfold mk_circ. numR. destruct (Reqb_spec (norm2 sqrt axis) 0) as [Hn|Hn]; [discriminate|].
  destruct (Rleb_spec r 0) as [Hr|Hr]; [discriminate|].
  intros [= <-]. cbn. split; [apply normalize2_unit, Hn | lra].
Qed.

Lemma cross3_sdiv (a b : V3) (k l : R) : k <> 0 -> l <> 0 ->
  cross3 (sdiv3 a k) (sdiv3 b l) = sdiv3 (cross3 a b) (k * l).
Proof. intros Hk Hl. d3 a; d3 b. unf. pair_eq; field; split; assumption. Qed.
Lemma cross3_zero_l (b : V3) : cross3 (0, 0, 0) b = (0, 0, 0).
Proof. d3 b. unf. pair_eq; ring. Qed.
Lemma cross3_zero_r (a : V3) : cross3 a (0, 0, 0) = (0, 0, 0).
Proof. d3 a. unf. pair_eq; ring. Qed.
Lemma sdiv3_zero_inv (v : V3) (k : R) : k <> 0 -> sdiv3 v k = (0, 0, 0) -> v = (0, 0, 0).
Proof.
  intros Hk. d3 v. unf. intros [= H0 H1 H2].
  pair_eq; [apply (Rmult_eq_reg_r (/ k)) | apply (Rmult_eq_reg_r (/ k)) | apply (Rmult_eq_reg_r (/ k))];
    try (apply Rinv_neq_0_compat; exact Hk); unfold Rdiv in *; lra.
Qed.

Lemma mk_flat2_wf (a0 a1 : V3) (d : det3d) : mk_flat2 sqrt a0 a1 = Some d -> wf_det3 d.
Proof.
  unfold mk_flat2. numR. destruct (Reqb_spec (norm3 sqrt (cross3 a0 a1)) 0) as [Hn|Hn]; [discriminate|].
  intros [= <-]. cbn.
  assert (Hc : cross3 a0 a1 <> (0, 0, 0)) by (intros Hc; apply Hn, norm3_zero_iff, Hc).
  assert (H0 : norm3 sqrt a0 <> 0).
  { intros H0. apply norm3_zero_iff in H0. subst a0. apply Hc, cross3_zero_l. }
  assert (H1 : norm3 sqrt a1 <> 0).
  { intros H1. apply norm3_zero_iff in H1. subst a1. apply Hc, cross3_zero_r. }
  repeat split; try (apply normalize3_unit; assumption).
  rewrite cross3_sdiv by assumption. intros Hz. apply Hc.
  eapply sdiv3_zero_inv; [|exact Hz]. apply Rmult_integral_contrapositive_currified; assumption.
Qed.

(* -------------------------------------------------------- parallel beams *)
Lemma euler2_id : euler2 (1, 0) = id2.
Proof. unf. pair_eq; ring. Qed.
Lemma axis_rot_id (ax : V3) : axis_rot ax (1, 0) = id3.
Proof. d3 ax. unf. pair_eq; ring. Qed.
Lemma mv2_id (v : V2) : mv2 id2 v = v.
Proof. d2 v. unf. pair_eq; ring. Qed.
Lemma mv3_id (v : V3) : mv3 id3 v = v.
Proof. d3 v. unf. pair_eq; ring. Qed.
Lemma mv2_add (m : M2) (v w : V2) : mv2 m (add2 v w) = add2 (mv2 m v) (mv2 m w).
Proof. destruct m as [[a b] [c d]]; d2 v; d2 w. unf. pair_eq; ring. Qed.
Lemma mv3_add (m : M3) (v w : V3) : mv3 m (add3 v w) = add3 (mv3 m v) (mv3 m w).
Proof. destruct m as [[[[a b] c] [[d e] f]] [[g h] i]]; d3 v; d3 w. unf. pair_eq; ring. Qed.
Lemma mv2_sub (m : M2) (v w : V2) : mv2 m (sub2 v w) = sub2 (mv2 m v) (mv2 m w).
Proof. destruct m as [[a b] [c d]]; d2 v; d2 w. unf. pair_eq; ring. Qed.
Lemma mv3_sub (m : M3) (v w : V3) : mv3 m (sub3 v w) = sub3 (mv3 m v) (mv3 m w).
Proof. destruct m as [[[[a b] c] [[d e] f]] [[g h] i]]; d3 v; d3 w. unf. pair_eq; ring. Qed.
Lemma mv2_scal (m : M2) (k : R) (v : V2) : mv2 m (scal2 k v) = scal2 k (mv2 m v).
Proof. destruct m as [[a b] [c d]]; d2 v. unf. pair_eq; ring. Qed.
Lemma mv3_scal (m : M3) (k : R) (v : V3) : mv3 m (scal3 k v) = scal3 k (mv3 m v).
Proof. destruct m as [[[[a b] c] [[d e] f]] [[g h] i]]; d3 v. unf. pair_eq; ring. Qed.

(* rigid motion: the detector point at angle a is the translation point plus the rotation of the
   angle-independent vector (det_pos_init - translation) + surface(u) *)
Lemma par2d_rigid (g : par2d) (a : R * R) (p : dpar2) :
  par2d_detpoint g a p =
  add2 (p2_tr g) (mv2 (euler2 a) (add2 (sub2 (p2_pos g) (p2_tr g)) (surf2 (p2_det g) p))).
Proof.
  unfold par2d_detpoint, par2d_refpoint, par_refpoint2, par2d_rot. rewrite mv2_add.
  destruct (p2_tr g) as [t0 t1], (mv2 (euler2 a) (sub2 (p2_pos g) (t0, t1))) as [x0 x1],
    (mv2 (euler2 a) (surf2 (p2_det g) p)) as [y0 y1]. unf. pair_eq; ring.
Qed.
Lemma par3a_rigid (g : par3a) (a : R * R) (p : dpar3) :
  par3a_detpoint g a p =
  add3 (pa_tr g) (mv3 (axis_rot (pa_axis g) a) (add3 (sub3 (pa_pos g) (pa_tr g)) (surf3 (pa_det g) p))).
Proof.
  unfold par3a_detpoint, par3a_refpoint, par_refpoint3, par3a_rot. rewrite mv3_add.
  destruct (pa_tr g) as [[t0 t1] t2], (mv3 (axis_rot (pa_axis g) a) (sub3 (pa_pos g) (t0, t1, t2))) as [[x0 x1] x2],
    (mv3 (axis_rot (pa_axis g) a) (surf3 (pa_det g) p)) as [[y0 y1] y2]. unf. pair_eq; ring.
Qed.
Lemma par3d_rigid (g : par3d) (ph th ps : R * R) (p : dpar3) :
  par3d_detpoint g ph th ps p =
  add3 (p3_tr g) (mv3 (euler3 ph th ps) (add3 (sub3 (p3_pos g) (p3_tr g)) (surf3 (p3_det g) p))).
Proof.
  unfold par3d_detpoint, par3d_refpoint, par_refpoint3. rewrite mv3_add.
  destruct (p3_tr g) as [[t0 t1] t2], (mv3 (euler3 ph th ps) (sub3 (p3_pos g) (t0, t1, t2))) as [[x0 x1] x2],
    (mv3 (euler3 ph th ps) (surf3 (p3_det g) p)) as [[y0 y1] y2]. unf. pair_eq; ring.
Qed.

(* distances on the detector are those of the intrinsic surface, for every angle *)
Lemma sub2_add_cancel (t x y : V2) : sub2 (add2 t x) (add2 t y) = sub2 x y.
Proof. d2 t; d2 x; d2 y. unf. pair_eq; ring. Qed.
Lemma sub3_add_cancel (t x y : V3) : sub3 (add3 t x) (add3 t y) = sub3 x y.
Proof. d3 t; d3 x; d3 y. unf. pair_eq; ring. Qed.
Lemma sub2_add_cancel_l (t x y : V2) : sub2 (add2 t x) (add2 t y) = sub2 x y.
Proof. apply sub2_add_cancel. Qed.

Lemma par2d_distance (g : par2d) (a : R * R) (p q : dpar2) : on_circle a ->
  let d := sub2 (par2d_detpoint g a p) (par2d_detpoint g a q) in
  let s := sub2 (surf2 (p2_det g) p) (surf2 (p2_det g) q) in
  dot2 d d = dot2 s s.
Proof.
  intros Ha. cbn zeta. rewrite !par2d_rigid, sub2_add_cancel, <- mv2_sub, sub2_add_cancel.
  apply rot2_isometry, (euler2_rot a Ha).
Qed.
Lemma par3a_distance (g : par3a) (a : R * R) (p q : dpar3) :
  dot3 (pa_axis g) (pa_axis g) = 1 -> on_circle a ->
  let d := sub3 (par3a_detpoint g a p) (par3a_detpoint g a q) in
  let s := sub3 (surf3 (pa_det g) p) (surf3 (pa_det g) q) in
  dot3 d d = dot3 s s.
Proof.
  intros Hu Ha. cbn zeta. rewrite !par3a_rigid, sub3_add_cancel, <- mv3_sub, sub3_add_cancel.
  apply rot3_isometry, (axis_rot_rot _ a Hu Ha).
Qed.
Lemma par3d_distance (g : par3d) (ph th ps : R * R) (p q : dpar3) :
  on_circle ph -> on_circle th -> on_circle ps ->
  let d := sub3 (par3d_detpoint g ph th ps p) (par3d_detpoint g ph th ps q) in
  let s := sub3 (surf3 (p3_det g) p) (surf3 (p3_det g) q) in
  dot3 d d = dot3 s s.
Proof.
  intros H1 H2 H3. cbn zeta. rewrite !par3d_rigid, sub3_add_cancel, <- mv3_sub, sub3_add_cancel.
  apply rot3_isometry, (euler3_rot _ _ _ H1 H2 H3).
Qed.

(* parallel rays: unit direction, the same for all detector points (flat detectors),
   orthogonal to the rotated detector axes *)
Lemma unit2_nonzero (v : V2) : dot2 v v = 1 -> v <> (0, 0).
Proof. intros Hu ->. unf. lra. Qed.

Lemma par2d_ray (g : par2d) (a : R * R) (p q : dpar2) (ax : V2) :
  p2_det g = Flat1 ax -> dot2 ax ax = 1 -> on_circle a ->
  par2d_det_to_src sqrt g a p = par2d_det_to_src sqrt g a q /\
  dot2 (par2d_det_to_src sqrt g a p) (par2d_det_to_src sqrt g a p) = 1 /\
  dot2 (par2d_det_to_src sqrt g a p) (par2d_det_axis g a) = 0.
Proof.
  intros Hd Hu Ha. unfold par2d_det_to_src, par2d_det_axis, par2d_rot. rewrite Hd.
  destruct p as [u [cu su]], q as [u' [cu' su']].
  pose proof (euler2_rot a Ha) as [Hr _].
  split; [reflexivity|]. rewrite !rot2_isometry by exact Hr.
  destruct (normal2_spec (Flat1 ax) (u, (cu, su))) as [Ho Hn]; [cbn; apply unit2_nonzero, Hu|].
  cbn [deriv2 det2_axis] in *. split; assumption.
Qed.

Lemma par3_ray_generic (m : M3) (a0 a1 : V3) (p q : dpar3) :
  mm3 (tr3 m) m = id3 -> cross3 a0 a1 <> (0, 0, 0) ->
  let n := fun p => mv3 m (normal3 sqrt (Flat2 a0 a1) p) in
  n p = n q /\ dot3 (n p) (n p) = 1 /\ dot3 (n p) (mv3 m a0) = 0 /\ dot3 (n p) (mv3 m a1) = 0.
Proof.
  intros Hr Hc. cbn zeta.
  destruct p as [[[u v] [cu su]] [cv sv]], q as [[[u' v'] [cu' su']] [cv' sv']].
  split; [reflexivity|]. rewrite !rot3_isometry by exact Hr.
  destruct (normal3_spec (Flat2 a0 a1) (u, v, (cu, su), (cv, sv))) as [H0 [H1 Hn]]; [cbn; exact Hc|].
  cbn [deriv3 fst snd] in *. repeat split; assumption.
Qed.

(* ------------------------------------------------------- divergent beams *)
Lemma fan_rigid (g : fan) (a : R * R) (dsh : V2) (p : dpar2) :
  fan_detpoint g a dsh p =
  add2 (f_tr g) (mv2 (euler2 a) (sub2 (fan_detpoint g (1, 0) dsh p) (f_tr g))).
Proof.
  unfold fan_detpoint, fan_refpoint, fan_rot. rewrite euler2_id.
  destruct (f_s2d g) as [d0 d1], dsh as [s0 s1].
  set (c2d := add2 (scal2 (f_rd g) _) _). set (sf := surf2 _ _). set (m := euler2 a).
  rewrite ?mv2_id.
  assert (E : sub2 (add2 (add2 (f_tr g) c2d) sf) (f_tr g) = add2 c2d sf).
  { destruct (f_tr g) as [t0 t1], c2d as [x0 x1], sf as [y0 y1]. unf. pair_eq; ring. }
  rewrite E, mv2_add.
  destruct (f_tr g) as [t0 t1], (mv2 m c2d) as [x0 x1], (mv2 m sf) as [y0 y1]. unf. pair_eq; ring.
Qed.
Lemma fan_src_rigid (g : fan) (a : R * R) (ssh : V2) :
  fan_src g a ssh = add2 (f_tr g) (mv2 (euler2 a) (sub2 (fan_src g (1, 0) ssh) (f_tr g))).
Proof.
  unfold fan_src, fan_rot. rewrite euler2_id.
  destruct (f_s2d g) as [d0 d1], ssh as [s0 s1].
  numR. set (c2s := add2 (scal2 (- f_rs g) _) _). rewrite ?mv2_id. f_equal. f_equal.
  destruct (f_tr g) as [t0 t1], c2s as [x0 x1]. unf. pair_eq; ring.
Qed.

(* det_to_src (not normalised) is src_position - det_point_position: adding it to the detector
   point gives the source position *)
Lemma fan_det_to_src_consistent (g : fan) (a : R * R) (ssh dsh : V2) (p : dpar2) :
  add2 (fan_detpoint g a dsh p) (fan_det_to_src sqrt g a ssh dsh p false) = fan_src g a ssh.
Proof.
  unfold fan_det_to_src. destruct (fan_src g a ssh) as [x0 x1], (fan_detpoint g a dsh p) as [y0 y1].
  unf. pair_eq; ring.
Qed.
Lemma cone_det_to_src_consistent (g : cone) (a : R * R) (ang twopi : R) (ssh dsh : V3) (p : dpar3) :
  add3 (cone_detpoint sqrt g a ang twopi dsh p) (cone_det_to_src sqrt g a ang twopi ssh dsh p false)
  = cone_src sqrt g a ang twopi ssh.
Proof.
  unfold cone_det_to_src. destruct (cone_src sqrt g a ang twopi ssh) as [[x0 x1] x2],
    (cone_detpoint sqrt g a ang twopi dsh p) as [[y0 y1] y2].
  unf. pair_eq; ring.
Qed.
(* normalised: unit length, and norm * direction = src - det point *)
Lemma normalized2 (v : V2) : v <> (0, 0) ->
  dot2 (sdiv2 v (norm2 sqrt v)) (sdiv2 v (norm2 sqrt v)) = 1 /\
  scal2 (norm2 sqrt v) (sdiv2 v (norm2 sqrt v)) = v.
Proof.
  intros Hv. assert (Hn : norm2 sqrt v <> 0) by (intros Hn; apply norm2_zero_iff in Hn; contradiction).
  split; [apply normalize2_unit, Hn|]. set (n := norm2 sqrt v) in *. d2 v. unf. pair_eq; field; exact Hn.
Qed.
Lemma normalized3 (v : V3) : v <> (0, 0, 0) ->
  dot3 (sdiv3 v (norm3 sqrt v)) (sdiv3 v (norm3 sqrt v)) = 1 /\
  scal3 (norm3 sqrt v) (sdiv3 v (norm3 sqrt v)) = v.
Proof.
  intros Hv. assert (Hn : norm3 sqrt v <> 0) by (intros Hn; apply norm3_zero_iff in Hn; contradiction).
  split; [apply normalize3_unit, Hn|]. set (n := norm3 sqrt v) in *. d3 v. unf. pair_eq; field; exact Hn.
Qed.
Lemma fan_det_to_src_normalized (g : fan) (a : R * R) (ssh dsh : V2) (p : dpar2) :
  fan_src g a ssh <> fan_detpoint g a dsh p ->
  let n := fan_det_to_src sqrt g a ssh dsh p true in
  let v := fan_det_to_src sqrt g a ssh dsh p false in
  dot2 n n = 1 /\ scal2 (norm2 sqrt v) n = v /\
  add2 (fan_detpoint g a dsh p) (scal2 (norm2 sqrt v) n) = fan_src g a ssh.
Proof.
  intros Hne. cbn zeta. pose proof (fan_det_to_src_consistent g a ssh dsh p) as Hc.
  unfold fan_det_to_src in *. set (v := sub2 _ _) in *.
  assert (Hv : v <> (0, 0)).
  { intros Hv. apply Hne. rewrite <- Hc, Hv. destruct (fan_detpoint g a dsh p) as [y0 y1]. unf. pair_eq; ring. }
  destruct (normalized2 v Hv) as [Hu Hs]. rewrite Hs. repeat split; assumption.
Qed.
Lemma cone_det_to_src_normalized (g : cone) (a : R * R) (ang twopi : R) (ssh dsh : V3) (p : dpar3) :
  cone_src sqrt g a ang twopi ssh <> cone_detpoint sqrt g a ang twopi dsh p ->
  let n := cone_det_to_src sqrt g a ang twopi ssh dsh p true in
  let v := cone_det_to_src sqrt g a ang twopi ssh dsh p false in
  dot3 n n = 1 /\ scal3 (norm3 sqrt v) n = v /\
  add3 (cone_detpoint sqrt g a ang twopi dsh p) (scal3 (norm3 sqrt v) n) = cone_src sqrt g a ang twopi ssh.
Proof.
  intros Hne. cbn zeta. pose proof (cone_det_to_src_consistent g a ang twopi ssh dsh p) as Hc.
  unfold cone_det_to_src in *. set (v := sub3 _ _) in *.
  assert (Hv : v <> (0, 0, 0)).
  { intros Hv. apply Hne. rewrite <- Hc, Hv. destruct (cone_detpoint sqrt g a ang twopi dsh p) as [[y0 y1] y2].
    unf. pair_eq; ring. }
  destruct (normalized3 v Hv) as [Hu Hs]. rewrite Hs. repeat split; assumption.
Qed.

(* fan beam without shifts: source on the circle of radius src_radius, detector reference point on
   the circle of radius det_radius about the translation point, opposite each other *)
Lemma fan_circles (g : fan) (a : R * R) :
  dot2 (f_s2d g) (f_s2d g) = 1 -> on_circle a ->
  let s := sub2 (fan_src g a (0, 0)) (f_tr g) in
  let r := sub2 (fan_refpoint g a (0, 0)) (f_tr g) in
  dot2 s s = f_rs g * f_rs g /\ dot2 r r = f_rd g * f_rd g /\
  scal2 (f_rs g) r = scal2 (- f_rd g) s /\
  dot2 (sub2 r s) (sub2 r s) = (f_rs g + f_rd g) * (f_rs g + f_rd g).
Proof.
  destruct a as [c s]; unfold on_circle; cbn [fst snd]. intros Hd Ha. cbn zeta.
  unfold fan_src, fan_refpoint, fan_rot.
  destruct (f_s2d g) as [d0 d1], (f_tr g) as [t0 t1]. set (rs := f_rs g). set (rd := f_rd g). unf.
  repeat split; try (pair_eq; ring); nsatz.
Qed.

(* cone beam: the motion is a rotation about the axis through the translation point plus a
   displacement along the axis *)
Lemma cone_rigid (g : cone) (a : R * R) (ang twopi : R) (dsh : V3) (p : dpar3) :
  cone_detpoint sqrt g a ang twopi dsh p =
  add3 (add3 (c_tr g) (scal3 (cone_along g ang twopi (snd dsh)) (c_axis g)))
       (mv3 (axis_rot (c_axis g) a)
            (sub3 (cone_detpoint sqrt g (1, 0) ang twopi dsh p)
                  (add3 (c_tr g) (scal3 (cone_along g ang twopi (snd dsh)) (c_axis g))))).
Proof.
  unfold cone_detpoint, cone_refpoint, cone_rot. rewrite axis_rot_id.
  destruct dsh as [[s0 s1] s2]. cbn [snd].
  set (c2d := add3 (scal3 (c_rd g) _) _). set (sf := surf3 _ _). set (al := cone_along _ _ _ _).
  set (m := axis_rot _ _).
  rewrite ?mv3_id.
  assert (E : sub3 (add3 (add3 (add3 (c_tr g) c2d) (scal3 al (c_axis g))) sf)
                   (add3 (c_tr g) (scal3 al (c_axis g))) = add3 c2d sf).
  { destruct (c_tr g) as [[t0 t1] t2], c2d as [[x0 x1] x2], sf as [[y0 y1] y2], (c_axis g) as [[z0 z1] z2].
    unf. pair_eq; ring. }
  rewrite E, mv3_add.
  destruct (c_tr g) as [[t0 t1] t2], (mv3 m c2d) as [[x0 x1] x2], (mv3 m sf) as [[y0 y1] y2],
    (c_axis g) as [[z0 z1] z2]. unf. pair_eq; ring.
Qed.
(* helical motion: changing only the angle VALUE moves the source along the axis by pitch * delta / 2 pi *)
Lemma cone_src_pitch (g : cone) (a : R * R) (ang ang' twopi : R) (ssh : V3) : twopi <> 0 ->
  sub3 (cone_src sqrt g a ang' twopi ssh) (cone_src sqrt g a ang twopi ssh)
  = scal3 (c_pitch g * (ang' - ang) / twopi) (c_axis g).
Proof.
  intros Ht. unfold cone_src, cone_along. destruct ssh as [[s0 s1] s2].
  set (x := add3 (c_tr g) _). destruct x as [[x0 x1] x2], (c_axis g) as [[z0 z1] z2].
  unf. pair_eq; field; exact Ht.
Qed.
(* height of the source above the translation point, measured along the axis *)
Lemma cone_src_height (g : cone) (a : R * R) (ang twopi : R) :
  dot3 (c_axis g) (c_axis g) = 1 -> on_circle a -> dot3 (c_s2d g) (c_axis g) = 0 ->
  dot3 (sub3 (cone_src sqrt g a ang twopi (0, 0, 0)) (c_tr g)) (c_axis g) = cone_along g ang twopi 0.
Proof.
  intros Hu Ha Ho. unfold cone_src, cone_rot.
  set (t := sdiv3 _ _). generalize (cone_along g ang twopi 0). intros al.
  assert (E : add3 (scal3 (- c_rs g) (c_s2d g)) (add3 (scal3 0 (neg3 (c_s2d g))) (scal3 0 t))
              = scal3 (- c_rs g) (c_s2d g)).
  { destruct (c_s2d g) as [[d0 d1] d2], t as [[t0 t1] t2]. unf. pair_eq; ring. }
  numR. rewrite E.
  pose proof (axis_rot_rot _ a Hu Ha) as [Hr _].
  pose proof (rot3_isometry _ (scal3 (- c_rs g) (c_s2d g)) (c_axis g) Hr) as Hi.
  rewrite (axis_rot_fixes_axis _ a Hu) in Hi.
  set (w := mv3 _ _) in *.
  destruct (c_tr g) as [[t0 t1] t2], w as [[w0 w1] w2], (c_axis g) as [[z0 z1] z2], (c_s2d g) as [[d0 d1] d2].
  unf. clear Hr.
  transitivity ((w0 * z0 + w1 * z1 + w2 * z2) + al * (z0 * z0 + z1 * z1 + z2 * z2)); [ring|].
  rewrite Hi, Hu.
  replace (- c_rs g * d0 * z0 + - c_rs g * d1 * z1 + - c_rs g * d2 * z2)
    with (- c_rs g * (d0 * z0 + d1 * z1 + d2 * z2)) by ring.
  rewrite Ho. ring.
Qed.

(* ------------------------------------------------ factories: detector coverage *)
Lemma sq_le_max (a b x : R) : a <= x <= b -> x * x <= Rmax (a * a) (b * b).
Proof.
  intros [Ha Hb]. destruct (Rle_dec 0 x) as [Hx|Hx].
  - apply Rle_trans with (b * b); [nra | apply Rmax_r].
  - apply Rle_trans with (a * a); [nra | apply Rmax_l].
Qed.
Lemma rect_in_rho (ax bx ay by_ x y : R) : ax <= x <= bx -> ay <= y <= by_ ->
  x * x + y * y <= rho_sq ax bx ay by_.
Proof.
  intros Hx Hy. unfold rho_sq. rewrite !nmax_R. numR.
  pose proof (sq_le_max _ _ _ Hx) as H1. pose proof (sq_le_max _ _ _ Hy) as H2.
  unfold Rmax in *.
  repeat match goal with |- context [Rle_dec ?a ?b] => destruct (Rle_dec a b) end;
  repeat match goal with H : context [Rle_dec ?a ?b] |- _ => destruct (Rle_dec a b) end; nra.
Qed.
Lemma rho_sq_nonneg (ax bx ay by_ : R) : 0 <= rho_sq ax bx ay by_.
Proof.
  unfold rho_sq. rewrite !nmax_R. numR.
  apply Rle_trans with (ax * ax + ay * ay); [nra|].
  eapply Rle_trans; [apply Rmax_l|]. apply Rmax_l.
Qed.
Lemma abs_le_sqrt (u m : R) : 0 <= m -> u * u <= m -> - sqrt m <= u <= sqrt m.
Proof.
  intros Hm Hu. pose proof (sqrt_pos m) as Hp. pose proof (sqrt_sqrt m Hm) as Hs.
  split; nra.
Qed.

(* the default Parallel2dGeometry that parallel_beam_geometry returns *)
Definition par2d_default : @par2d R := {| p2_pos := (0, 1); p2_tr := (0, 0); p2_det := Flat1 (1, 0) |}.
(* detector coordinate of the orthogonal projection of the point X at angle a *)
Definition par2d_coord (g : @par2d R) (a : R * R) (X : V2) : R :=
  dot2 (sub2 X (par2d_refpoint g a)) (par2d_det_axis g a).
Lemma par2d_factory_covers (ax bx ay by_ x y : R) (a : R * R) :
  ax <= x <= bx -> ay <= y <= by_ -> on_circle a ->
  let '(lo, hi) := par_factory_det_range sqrt ax bx ay by_ in
  lo <= par2d_coord par2d_default a (x, y) <= hi.
Proof.
  intros Hx Hy Ha. unfold par_factory_det_range, rho_of. numR.
  apply abs_le_sqrt; [apply rho_sq_nonneg|].
  eapply Rle_trans; [|apply (rect_in_rho _ _ _ _ _ _ Hx Hy)].
  destruct a as [c s]. unfold on_circle in Ha. cbn [fst snd] in Ha.
  unfold par2d_coord, par2d_refpoint, par2d_det_axis, par_refpoint2, par2d_rot, par2d_default.
  cbn [p2_pos p2_tr p2_det det2_axis]. unf.
  set (u := (x - (0 + (c * (0 - 0) + - s * (1 - 0)))) * (c * 1 + - s * 0) +
            (y - (0 + (s * (0 - 0) + c * (1 - 0)))) * (s * 1 + c * 0)).
  assert (E : u = x * c + y * s) by (unfold u; ring). rewrite E.
  pose proof (Rle_0_sqr (x * s - y * c)) as Hsq. unfold Rsqr in Hsq.
  assert (E2 : (x * c + y * s) * (x * c + y * s) + (x * s - y * c) * (x * s - y * c)
               = (x * x + y * y) * (c * c + s * s)) by ring.
  rewrite Ha in E2. lra.
Qed.

(* the default FanBeamGeometry that cone_beam_geometry returns for a 2-d space *)
Definition fan_default (rs rd : R) : @fan R :=
  {| f_rs := rs; f_rd := rd; f_s2d := (0, 1); f_tr := (0, 0); f_det := Flat1 (1, 0) |}.
Definition cross2 (a b : V2) : R := fst a * snd b - snd a * fst b.
(* [fan_hit] is where the ray source -> X meets the flat detector: the detector point with
   that coordinate is collinear with the source and X *)
Lemma fan_hit_on_ray (rs rd : R) (a : R * R) (X : V2) : on_circle a ->
  let g := fan_default rs rd in
  let xt := dot2 X (fan_det_axis g a) in
  let xn := dot2 X (mv2 (euler2 a) (f_s2d g)) in
  rs + xn <> 0 ->
  let u := fan_hit rs rd xn xt in
  cross2 (sub2 (fan_detpoint g a (0, 0) (u, (1, 0))) (fan_src g a (0, 0)))
         (sub2 X (fan_src g a (0, 0))) = 0.
Proof.
  destruct a as [c s]; unfold on_circle; cbn [fst snd]. intros Ha. cbn zeta. d2 X.
  unfold fan_hit, fan_detpoint, fan_refpoint, fan_src, fan_det_axis, fan_rot, fan_default, cross2.
  cbn [f_rs f_rd f_s2d f_tr f_det det2_axis surf2]. unf. cbn [fst snd].
  intros Hd. field_simplify_eq; [|intros E; apply Hd; etransitivity; [|exact E]; ring].
  transitivity ((c * c + s * s - 1) * (c * rd * rs * X0 + c * rs ^ 2 * X0 + s * rd * rs * X1 + s * rs ^ 2 * X1));
    [ring | rewrite Ha; ring].
Qed.

(* cone_beam_geometry's half width rho (rs + rd) / rs does NOT cover the disc of radius rho *)
Lemma cone_factory_coverage_refuted_l :
  exists rho rs rd xn xt : R,
    0 < rho < rs /\ 0 <= rd /\ xn * xn + xt * xt <= rho * rho /\
    cone_factory_halfwidth rho rs rd < fan_hit rs rd xn xt.
Proof.
  exists 3, 5, 5, (-9/5), (12/5). unfold cone_factory_halfwidth, fan_hit. numR.
  repeat split; lra.
Qed.
(* ... it covers the half of the disc that lies beyond the rotation centre ... *)
Lemma cone_factory_coverage_partial_l (rho rs rd xn xt : R) :
  0 < rho < rs -> 0 <= rd -> xn * xn + xt * xt <= rho * rho -> 0 <= xn ->
  - cone_factory_halfwidth rho rs rd <= fan_hit rs rd xn xt <= cone_factory_halfwidth rho rs rd.
Proof.
  intros [Hr Hrs] Hrd Hx Hn. unfold cone_factory_halfwidth, fan_hit. numR.
  assert (Hxt : - rho <= xt <= rho) by (split; nra).
  assert (Hpos : 0 < rs + xn) by lra.
  assert (H1 : xt / (rs + xn) <= rho / rs).
  { apply Rmult_le_reg_r with (rs + xn); [lra|]. unfold Rdiv. rewrite Rmult_assoc, Rinv_l by lra.
    rewrite Rmult_1_r. apply Rmult_le_reg_r with rs; [lra|].
    replace (rho * / rs * (rs + xn) * rs) with (rho * (rs + xn)) by (field; lra). nra. }
  assert (H2 : - (rho / rs) <= xt / (rs + xn)).
  { apply Rmult_le_reg_r with (rs + xn); [lra|]. unfold Rdiv. rewrite Rmult_assoc, Rinv_l by lra.
    rewrite Rmult_1_r. apply Rmult_le_reg_r with rs; [lra|].
    replace (- (rho * / rs) * (rs + xn) * rs) with (- rho * (rs + xn)) by (field; lra). nra. }
  replace (2 * rho * (rs + rd) / rs / 2) with (rho / rs * (rs + rd)) by (field; lra).
  replace ((rs + rd) * xt / (rs + xn)) with ((rs + rd) * (xt / (rs + xn))) by (field; lra).
  set (k := rho / rs) in *. set (q := xt / (rs + xn)) in *.
  assert (0 <= rs + rd) by lra. split; nra.
Qed.
(* ... and the half width W with W^2 (rs^2 - rho^2) = (rs + rd)^2 rho^2 covers all of it *)
Lemma cone_factory_coverage_repaired_l (rho rs rd xn xt : R) :
  0 < rho < rs -> 0 <= rd -> xn * xn + xt * xt <= rho * rho ->
  let u := fan_hit rs rd xn xt in
  u * u * (rs * rs - rho * rho) <= (rs + rd) * (rs + rd) * (rho * rho).
Proof.
  intros [Hr Hrs] Hrd Hx. cbn zeta. unfold fan_hit. numR.
  assert (Hn : - rho <= xn <= rho) by (split; nra).
  assert (Hpos : 0 < rs + xn) by lra.
  assert (Hkey : xt * xt * (rs * rs - rho * rho) <= rho * rho * ((rs + xn) * (rs + xn))).
  { pose proof (Rle_0_sqr (rho * rho + rs * xn)) as Hs. unfold Rsqr in Hs.
    assert (xt * xt <= rho * rho - xn * xn) by lra.
    assert (0 <= rs * rs - rho * rho) by nra. nra. }
  replace ((rs + rd) * xt / (rs + xn) * ((rs + rd) * xt / (rs + xn)) * (rs * rs - rho * rho))
    with ((rs + rd) * (rs + rd) * (xt * xt * (rs * rs - rho * rho)) / ((rs + xn) * (rs + xn)))
    by (field; lra).
  apply Rmult_le_reg_r with ((rs + xn) * (rs + xn)); [nra|].
  unfold Rdiv. rewrite Rmult_assoc, Rinv_l by nra. rewrite Rmult_1_r.
  assert (0 <= (rs + rd) * (rs + rd)) by nra. nra.
Qed.

(* ------------------------------------------------------------- slicing *)
Lemma mk_par2d_fields (pos : V2) (ax : option V2) (tr : V2) (g : par2d) :
  mk_par2d sqrt pos ax tr = Some g -> p2_pos g = add2 pos tr /\ p2_tr g = tr.
Proof.
  unfold mk_par2d, obind. destruct (tsys2 sqrt pos _) as [m|]; [|intros Hx; discriminate Hx].
  destruct (mk_flat1 sqrt _) as [d|]; [|intros Hx; discriminate Hx]. intros [= <-]. split; reflexivity.
Qed.
Lemma add2_sub2_cancel (p t : V2) : sub2 (add2 p t) t = p.
Proof. d2 p; d2 t. unf. pair_eq; ring. Qed.
(* __getitem__ (un-translated position passed on): the slice IS the same geometry *)
Lemma par2d_getitem_same_l (pos : V2) (ax : option V2) (tr : V2) (g : par2d) :
  mk_par2d sqrt pos ax tr = Some g -> par2d_getitem sqrt g ax = Some g.
Proof.
  intros Hg. destruct (mk_par2d_fields _ _ _ _ Hg) as [Hp Ht].
  unfold par2d_getitem. rewrite Hp, Ht, add2_sub2_cancel. exact Hg.
Qed.
(* the defect repaired by 388a3ff, as a statement about the explicit old call: passing the translated
   position together with the translation moves det_pos_init by exactly the translation *)
Lemma par2d_getitem_old_l (pos : V2) (ax : option V2) (tr : V2) (g g' : par2d) :
  mk_par2d sqrt pos ax tr = Some g -> mk_par2d sqrt (p2_pos g) ax (p2_tr g) = Some g' ->
  p2_pos g' = add2 (p2_pos g) tr /\ (tr <> (0, 0) -> p2_pos g' <> p2_pos g).
Proof.
  intros Hg Hs. destruct (mk_par2d_fields _ _ _ _ Hg) as [Hp Ht].
  destruct (mk_par2d_fields _ _ _ _ Hs) as [Hp' Ht'].
  rewrite Ht in Hp'. split; [exact Hp'|].
  intros Hne He. apply Hne. rewrite Hp' in He. destruct (p2_pos g) as [x0 x1]. d2 tr. unf.
  injection He as E0 E1. pair_eq; lra.
Qed.

(* ================= widened model: curved detectors, from_to, constructors ================= *)

(* ---------------------------------------------- curved detector surfaces *)
Lemma circ_detector_spec (ax : V2) (r : R) (u : R) (cs : R * R) :
  dot2 ax ax = 1 -> on_circle cs ->
  let d := Circ ax r in let p := (u, cs) in
  let c := circ_transl ax r in
  surf2 d (u, (1, 0)) = (0, 0) /\
  dot2 (sub2 (surf2 d p) c) (sub2 (surf2 d p) c) = r * r /\
  dot2 (deriv2 d p) (sub2 (surf2 d p) c) = 0 /\
  dot2 (deriv2 d p) (deriv2 d p) = r * r /\
  deriv2 d (u, (1, 0)) = scal2 r ax.
Proof.
  d2 ax; destruct cs as [cu su]; unfold on_circle; cbn [fst snd]. intros Ha Hc. cbn zeta.
  unfold surf2, deriv2, circ_transl, circ_rot. unf.
  repeat split; try (pair_eq; ring); nsatz.
Qed.

Lemma cyl_detector_spec (a0 a1 : V3) (r : R) (m : M3) (u v : R) (cu cv : R * R) :
  mm3 (tr3 m) m = id3 -> on_circle cu ->
  let d := Cyl a0 a1 r m in let p := (u, v, cu, cv) in
  let c := curved_transl r m in
  let w := sub3 (surf3 d p) c in
  let zax := mv3 m (0, 0, 1) in
  surf3 d (u, 0, (1, 0), cv) = (0, 0, 0) /\
  dot3 w zax = v /\
  dot3 w w = r * r + v * v /\
  dot3 (fst (deriv3 d p)) w = 0 /\
  dot3 (fst (deriv3 d p)) (snd (deriv3 d p)) = 0 /\
  dot3 (snd (deriv3 d p)) (snd (deriv3 d p)) = 1 /\
  dot3 (fst (deriv3 d p)) (fst (deriv3 d p)) = r * r.
Proof.
  destruct cu as [c s], cv as [c2 s2]; unfold on_circle; cbn [fst snd]. intros Hm Hc. cbn zeta.
  unfold surf3, deriv3, curved_transl. cbn [fst snd].
  assert (Hw : sub3 (add3 (mv3 m (r * c, r * - s, v)) (scal3 (- r) (mv3 m (1, 0, 0)))) (scal3 (- r) (mv3 m (1, 0, 0)))
               = mv3 m (r * c, r * - s, v)).
  { destruct (mv3 m (r * c, r * - s, v)) as [[x0 x1] x2], (mv3 m (1, 0, 0)) as [[y0 y1] y2]. unf. pair_eq; ring. }
  numR. rewrite Hw. rewrite !(rot3_isometry m _ _ Hm).
  split.
  - rewrite <- (mv3_scal m). rewrite <- mv3_add.
    assert (E : add3 (r * 1, r * - 0, 0) (scal3 (- r) (1, 0, 0)) = (0, 0, 0)) by (unf; pair_eq; ring).
    rewrite E. destruct m as [[[[a b] c'] [[d e] f]] [[g h] i]]. unf. pair_eq; ring.
  - clear Hm Hw. unf. repeat split; try ring; nsatz.
Qed.

Lemma sph_detector_spec (a0 a1 : V3) (r : R) (m : M3) (u v : R) (cu cv : R * R) :
  mm3 (tr3 m) m = id3 -> on_circle cu -> on_circle cv ->
  let d := Sph a0 a1 r m in let p := (u, v, cu, cv) in
  let c := curved_transl r m in
  let w := sub3 (surf3 d p) c in
  surf3 d (u, v, (1, 0), (1, 0)) = (0, 0, 0) /\
  dot3 w w = r * r /\
  dot3 (fst (deriv3 d p)) w = 0 /\ dot3 (snd (deriv3 d p)) w = 0 /\
  dot3 (fst (deriv3 d p)) (snd (deriv3 d p)) = 0 /\
  dot3 (snd (deriv3 d p)) (snd (deriv3 d p)) = r * r /\
  dot3 (fst (deriv3 d p)) (fst (deriv3 d p)) = r * r * (fst cv * fst cv).
Proof.
  destruct cu as [c s], cv as [c2 s2]; unfold on_circle; cbn [fst snd]. intros Hm Hc Hc2. cbn zeta.
  unfold surf3, deriv3, curved_transl. cbn [fst snd]. numR.
  set (q := scal3 r (c * c2, - s * c2, s2)).
  assert (Hw : sub3 (add3 (mv3 m q) (scal3 (- r) (mv3 m (1, 0, 0)))) (scal3 (- r) (mv3 m (1, 0, 0))) = mv3 m q).
  { destruct (mv3 m q) as [[x0 x1] x2], (mv3 m (1, 0, 0)) as [[y0 y1] y2]. unf. pair_eq; ring. }
  numR. rewrite Hw. rewrite !(rot3_isometry m _ _ Hm).
  split.
  - rewrite <- (mv3_scal m). rewrite <- mv3_add.
    assert (E : add3 (scal3 r (1 * 1, - 0 * 1, 0)) (scal3 (- r) (1, 0, 0)) = (0, 0, 0)) by (unf; pair_eq; ring).
    rewrite E. destruct m as [[[[a b] c'] [[d e] f]] [[g h] i]]. unf. pair_eq; ring.
  - clear Hm Hw. unfold q. unf.
    assert (K : forall L Rr A B : R, L - Rr = A * (c * c + s * s - 1) + B * (c2 * c2 + s2 * s2 - 1) -> L = Rr).
    { intros L Rr A B HK. rewrite Hc, Hc2 in HK. lra. }
    split; [apply (K _ _ (r * r * (c2 * c2)) (r * r)); ring|].
    split; [ring|].
    split; [apply (K _ _ (- (r * r * c2 * s2)) 0); ring|].
    split; [ring|].
    split; [apply (K _ _ (r * r * (s2 * s2)) (r * r)); ring|].
    apply (K _ _ (r * r * (c2 * c2)) 0); ring.
Qed.

(* ---------------------------------------- rotation_matrix_from_to, transform_system *)

Lemma sgn_cases (x : R) : (sgn x = 1 /\ 0 < x) \/ (sgn x = -1 /\ x < 0) \/ (sgn x = 0 /\ x = 0).
Proof.
  unfold sgn. numR. destruct (Rltb_spec 0 x); [left; split; [reflexivity|assumption]|].
  destruct (Rltb_spec x 0); [right; left; split; [reflexivity|assumption]|].
  right; right; split; [reflexivity|lra].
Qed.

Lemma signed_acos_on_circle (sg c : R) : c * c <= 1 -> on_circle (signed_acos sqrt sg c).
Proof.
  intros Hc. unfold signed_acos, on_circle. numR.
  destruct (Reqb_spec (sgn sg) 0) as [H0|H0]; cbn [fst snd]; [ring|].
  assert (Hs : sqrt (1 - c * c) * sqrt (1 - c * c) = 1 - c * c) by (apply sqrt_sqrt; lra).
  destruct (sgn_cases sg) as [[E _]|[[E _]|[E _]]]; rewrite E in *; try contradiction; nra.
Qed.

Lemma unit2_dot_le (f t : V2) : dot2 f f = 1 -> dot2 t t = 1 -> dot2 f t * dot2 f t <= 1.
Proof.
  d2 f; d2 t. unf. intros Hf Ht.
  assert (E : (f0 * t0 + f1 * t1) * (f0 * t0 + f1 * t1) + (f0 * t1 - f1 * t0) * (f0 * t1 - f1 * t0)
              = (f0 * f0 + f1 * f1) * (t0 * t0 + t1 * t1)) by ring.
  rewrite Hf, Ht in E. pose proof (Rle_0_sqr (f0 * t1 - f1 * t0)) as Hs. unfold Rsqr in Hs. lra.
Qed.

(* rotation_matrix_from_to in the plane returns a rotation matrix whenever it returns *)
Lemma from_to2_rot (fv tv : V2) (m : M2) : from_to2 sqrt fv tv = Some m -> is_rot2 m.
Proof.
  unfold from_to2. numR.
  destruct (Rltb_spec (norm2 sqrt fv) (tiny)) as [Hf|Hf]; [intros Hx; discriminate Hx|].
  destruct (Rltb_spec (norm2 sqrt tv) (tiny)) as [Ht|Ht]; [intros Hx; discriminate Hx|].
  cbn [orb]. intros [= <-]. apply euler2_rot.
  assert (Htiny : 0 < @tiny R _) by (unfold tiny, of_Q; cbn [Qnum Qden]; numR; lra).
  assert (Hnf : norm2 sqrt fv <> 0) by lra. assert (Hnt : norm2 sqrt tv <> 0) by lra.
  pose proof (normalize2_unit fv Hnf) as Uf. pose proof (normalize2_unit tv Hnt) as Ut.
  set (f := sdiv2 fv (norm2 sqrt fv)) in *. set (t := sdiv2 tv (norm2 sqrt tv)) in *.
  destruct (Reqb_spec (dot2 f t) 0).
  - destruct (Rltb_spec 0 (dot2 (let '(f0, f1) := f in (- f1, f0)) t)); unfold on_circle; cbn [fst snd]; ring.
  - destruct (eq2 t (neg2 f)); [unfold on_circle; cbn [fst snd]; ring|].
    apply signed_acos_on_circle, unit2_dot_le; assumption.
Qed.

Lemma perp3_unit (v : V3) : dot3 (perp3 sqrt v) (perp3 sqrt v) = 1.
Proof.
  d3 v. unfold perp3. numR.
  destruct (Reqb_spec v0 0) as [H0|H0]; destruct (Reqb_spec v1 0) as [H1|H1]; cbn [negb orb];
    apply normalize3_unit; intros Hn; apply norm3_zero_iff in Hn; inversion Hn; lra.
Qed.

Lemma unit3_dot_le (f t : V3) : dot3 f f = 1 -> dot3 t t = 1 -> dot3 f t * dot3 f t <= 1.
Proof.
  intros Hf Ht.
  assert (E : dot3 f t * dot3 f t + dot3 (cross3 f t) (cross3 f t) = dot3 f f * dot3 t t)
    by (d3 f; d3 t; unf; ring).
  rewrite Hf, Ht in E. pose proof (dot3_nonneg (cross3 f t)). lra.
Qed.

(* rotation_matrix_from_to in space returns a rotation matrix whenever it returns *)
Lemma from_to3_rot (fv tv : V3) (m : M3) : from_to3 sqrt fv tv = Some m -> is_rot3 m.
Proof.
  unfold from_to3. numR.
  destruct (Rltb_spec (norm3 sqrt fv) (tiny)) as [Hf|Hf]; [intros Hx; discriminate Hx|].
  destruct (Rltb_spec (norm3 sqrt tv) (tiny)) as [Ht|Ht]; [intros Hx; discriminate Hx|].
  cbn [orb].
  assert (Htiny : 0 < @tiny R _) by (unfold tiny, of_Q; cbn [Qnum Qden]; numR; lra).
  assert (Hnf : norm3 sqrt fv <> 0) by lra. assert (Hnt : norm3 sqrt tv <> 0) by lra.
  pose proof (normalize3_unit fv Hnf) as Uf. pose proof (normalize3_unit tv Hnt) as Ut.
  set (f := sdiv3 fv (norm3 sqrt fv)) in *. set (t := sdiv3 tv (norm3 sqrt tv)) in *.
  destruct (Rltb_spec (norm3 sqrt (cross3 f t)) tiny) as [Hn|Hn].
  - intros [= <-]. apply axis_rot_rot; [apply perp3_unit|].
    destruct (Rltb_spec 0 (dot3 f t)); unfold on_circle; cbn [fst snd]; ring.
  - intros [= <-]. apply axis_rot_rot.
    + apply normalize3_unit. lra.
    + apply signed_acos_on_circle, unit3_dot_le; assumption.
Qed.

(* transform_system's matrix (no explicit matrix given) is a rotation *)
Lemma id2_rot : is_rot2 id2.
Proof. unfold is_rot2. unf. split; [pair_eq; ring | ring]. Qed.
Lemma id3_rot : is_rot3 id3.
Proof. unfold is_rot3. unf. split; [pair_eq; ring | ring]. Qed.
Lemma tsys2_rot (pv pd : V2) (m : M2) : tsys2 sqrt pv pd = Some m -> is_rot2 m.
Proof.
  unfold tsys2.
  destruct (_ && _); [intros Hx; discriminate Hx|].
  destruct (_ && _); [intros Hx; discriminate Hx|].
  destruct (allclose2 _ _); [intros [= <-]; apply id2_rot | apply from_to2_rot].
Qed.
Lemma tsys3_rot (pv pd : V3) (m : M3) : tsys3 sqrt pv pd = Some m -> is_rot3 m.
Proof.
  unfold tsys3.
  destruct (_ && _); [intros Hx; discriminate Hx|].
  destruct (_ && _); [intros Hx; discriminate Hx|].
  destruct (allclose3 _ _); [intros [= <-]; apply id3_rot | apply from_to3_rot].
Qed.

(* ------------------------------------------------------ constructors *)

Definition orth3 (m : M3) : Prop := mm3 (tr3 m) m = id3.
Lemma orth3_mm (a b : M3) : orth3 a -> orth3 b -> orth3 (mm3 a b).
Proof.
  unfold orth3. intros Ha Hb.
  assert (E : mm3 (tr3 (mm3 a b)) (mm3 a b) = mm3 (tr3 b) (mm3 (mm3 (tr3 a) a) b)).
  { destruct a as [[[[a1 a2] a3] [[a4 a5] a6]] [[a7 a8] a9]], b as [[[[b1 b2] b3] [[b4 b5] b6]] [[b7 b8] b9]].
    unf. pair_eq; ring. }
  rewrite E, Ha.
  assert (E2 : mm3 id3 b = b).
  { destruct b as [[[[b1 b2] b3] [[b4 b5] b6]] [[b7 b8] b9]]. unf. pair_eq; ring. }
  rewrite E2. exact Hb.
Qed.

Lemma curved_rot_orth (a0 a1 : V3) (m : M3) : curved_rot sqrt a0 a1 = Some m -> orth3 m.
Proof.
  unfold curved_rot. destruct (from_to3 sqrt _ a0) as [r1|] eqn:E1; [|intros Hx; discriminate Hx].
  destruct (from_to3 sqrt _ a1) as [r2|] eqn:E2; [|intros Hx; discriminate Hx].
  intros [= <-]. apply orth3_mm; [apply (from_to3_rot _ _ _ E2) | apply (from_to3_rot _ _ _ E1)].
Qed.

(* what the geometry constructors establish *)
Definition wf_det3' (d : det3d) : Prop :=
  match d with
  | Flat2 a0 a1 => dot3 a0 a0 = 1 /\ dot3 a1 a1 = 1 /\ cross3 a0 a1 <> (0, 0, 0)
  | Cyl a0 a1 r m | Sph a0 a1 r m => dot3 a0 a0 = 1 /\ dot3 a1 a1 = 1 /\ 0 < r /\ mm3 (tr3 m) m = id3
  end.

Lemma mk_flat2_wf' (a0 a1 : V3) (d : det3d) : mk_flat2 sqrt a0 a1 = Some d -> wf_det3' d.
Proof.
  intros Hd. pose proof (mk_flat2_wf _ _ _ Hd) as Hw. unfold mk_flat2 in Hd.
  destruct (_ =? _)%num; [discriminate Hd|]. injection Hd as <-. exact Hw.
Qed.

(* the repaired alignment matrix is orthogonal and maps -e_y -> a0/|a0|, e_z -> a1/|a1| *)
Lemma frame_of_orthonormal (b0 b1 : V3) : dot3 b0 b0 = 1 -> dot3 b1 b1 = 1 -> dot3 b0 b1 = 0 ->
  let m := tr3 (neg3 (cross3 b0 b1), neg3 b0, b1) in
  mm3 (tr3 m) m = id3 /\ mv3 m (0, - (1), 0) = b0 /\ mv3 m (0, 0, 1) = b1 /\ mv3 m (1, 0, 0) = neg3 (cross3 b0 b1).
Proof.
  d3 b0; d3 b1. unf. intros H0 H1 H01. repeat split; pair_eq; try ring; nsatz.
Qed.
Lemma dot3_sdiv_both (a b : V3) (k l : R) : k <> 0 -> l <> 0 -> dot3 (sdiv3 a k) (sdiv3 b l) = dot3 a b / (k * l).
Proof. intros Hk Hl. d3 a; d3 b. unf. field. split; assumption. Qed.
Lemma curved_frame_spec (a0 a1 : V3) : norm3 sqrt a0 <> 0 -> norm3 sqrt a1 <> 0 -> dot3 a0 a1 = 0 ->
  let m := curved_frame sqrt a0 a1 in
  mm3 (tr3 m) m = id3 /\ mv3 m (0, - (1), 0) = sdiv3 a0 (norm3 sqrt a0) /\ mv3 m (0, 0, 1) = sdiv3 a1 (norm3 sqrt a1).
Proof.
  intros H0 H1 Hp. unfold curved_frame.
  pose proof (frame_of_orthonormal _ _ (normalize3_unit a0 H0) (normalize3_unit a1 H1)) as Hf.
  rewrite dot3_sdiv_both in Hf by assumption. rewrite Hp in Hf. unfold Rdiv in Hf. rewrite Rmult_0_l in Hf.
  destruct (Hf eq_refl) as [Ho [Ha [Hb _]]]. repeat split; assumption.
Qed.

Lemma mk_curved_nonzero (fixed sph : bool) (a0 a1 : V3) (r : R) (d : det3d) :
  mk_curved sqrt fixed sph a0 a1 r = Some d ->
  norm3 sqrt a0 <> 0 /\ norm3 sqrt a1 <> 0 /\ 0 < r /\
  exists m, (if fixed then Some (curved_frame sqrt a0 a1) else curved_rot sqrt a0 a1) = Some m /\
            d = (if sph then Sph (sdiv3 a0 (norm3 sqrt a0)) (sdiv3 a1 (norm3 sqrt a1)) r m
                 else Cyl (sdiv3 a0 (norm3 sqrt a0)) (sdiv3 a1 (norm3 sqrt a1)) r m).
Proof.
  unfold mk_curved. numR.
  destruct (Reqb_spec (norm3 sqrt (cross3 a0 a1)) 0) as [Hn|Hn]; [intros Hx; discriminate Hx|].
  destruct (Rltb _ _); [intros Hx; discriminate Hx|].
  destruct (Rleb_spec r 0) as [Hr|Hr]; [intros Hx; discriminate Hx|].
  assert (Hc : cross3 a0 a1 <> (0, 0, 0)) by (intros Hc; apply Hn, norm3_zero_iff, Hc).
  assert (H0 : norm3 sqrt a0 <> 0).
  { intros H0. apply norm3_zero_iff in H0. subst a0. apply Hc, cross3_zero_l. }
  assert (H1 : norm3 sqrt a1 <> 0).
  { intros H1. apply norm3_zero_iff in H1. subst a1. apply Hc, cross3_zero_r. }
  destruct (if fixed then _ else _) as [m|]; [|intros Hx; discriminate Hx].
  intros [= <-]. repeat split; try assumption; try lra. exists m. split; [reflexivity|]. destruct sph; reflexivity.
Qed.

(* the code as it is ([fixed = false]): the alignment matrix is a product of two rotations *)
Lemma mk_curved_wf (sph : bool) (a0 a1 : V3) (r : R) (d : det3d) :
  mk_curved sqrt false sph a0 a1 r = Some d -> wf_det3' d.
Proof.
  intros Hd. destruct (mk_curved_nonzero _ _ _ _ _ _ Hd) as [H0 [H1 [Hr [m [Em ->]]]]].
  destruct sph; cbn; repeat split; try (apply normalize3_unit; assumption); try lra;
    apply (curved_rot_orth _ _ _ Em).
Qed.
(* the repaired alignment ([fixed = true]) for exactly perpendicular axes *)
Lemma mk_curved_fixed_wf (sph : bool) (a0 a1 : V3) (r : R) (d : det3d) :
  dot3 a0 a1 = 0 -> mk_curved sqrt true sph a0 a1 r = Some d -> wf_det3' d.
Proof.
  intros Hp Hd. destruct (mk_curved_nonzero _ _ _ _ _ _ Hd) as [H0 [H1 [Hr [m [Em ->]]]]].
  injection Em as <-. destruct (curved_frame_spec a0 a1 H0 H1 Hp) as [Ho _].
  destruct sph; cbn; repeat split; try (apply normalize3_unit; assumption); try lra; exact Ho.
Qed.

(* with the repaired alignment, surface_deriv(0, 0) = radius * axes (cylinder: height axis itself) *)
Lemma mk_curved_fixed_deriv (sph : bool) (a0 a1 : V3) (r u v : R) (d : det3d) :
  dot3 a0 a1 = 0 -> mk_curved sqrt true sph a0 a1 r = Some d ->
  deriv3 d (u, v, (1, 0), (1, 0)) =
  (scal3 r (fst (det3_axes d)), if sph then scal3 r (snd (det3_axes d)) else snd (det3_axes d)).
Proof.
  intros Hp Hd. destruct (mk_curved_nonzero _ _ _ _ _ _ Hd) as [H0 [H1 [Hr [m [Em ->]]]]].
  injection Em as <-. destruct (curved_frame_spec a0 a1 H0 H1 Hp) as [_ [Ha Hb]].
  set (m := curved_frame sqrt a0 a1) in *.
  destruct sph; cbn [deriv3 det3_axes fst snd]; numR; rewrite !mv3_scal.
  - f_equal; f_equal.
    + etransitivity; [|exact Ha]. f_equal. unf. pair_eq; ring.
    + etransitivity; [|exact Hb]. f_equal. unf. pair_eq; ring.
  - f_equal; [f_equal|].
    + etransitivity; [|exact Ha]. f_equal. unf. pair_eq; ring.
    + exact Hb.
Qed.

Lemma mk_par2d_wf (pos : V2) (ax : option V2) (tr : V2) (g : par2d) :
  mk_par2d sqrt pos ax tr = Some g -> wf_det2 (p2_det g) /\ exists a, p2_det g = Flat1 a.
Proof.
  unfold mk_par2d, obind. destruct (tsys2 sqrt pos _) as [m|]; [|intros Hx; discriminate Hx].
  destruct (mk_flat1 sqrt _) as [d|] eqn:Ed; [|intros Hx; discriminate Hx]. intros [= <-]. cbn.
  split; [apply (mk_flat1_wf _ _ Ed)|]. unfold mk_flat1 in Ed. destruct (_ =? _)%num; [discriminate Ed|].
  injection Ed as <-. eexists; reflexivity.
Qed.

Lemma mk_par3a_wf (axis : V3) (pos : option V3) (axes : option (V3 * V3)) (tr : V3) (g : par3a) :
  mk_par3a sqrt axis pos axes tr = Some g ->
  dot3 (pa_axis g) (pa_axis g) = 1 /\ wf_det3' (pa_det g) /\ pa_tr g = tr.
Proof.
  unfold mk_par3a, obind. destruct (tsys3 sqrt axis _) as [m|]; [|intros Hx; discriminate Hx].
  destruct (match axes with Some a => a | None => _ end) as [a0 a1].
  destruct (unit_axis sqrt axis) as [ua|] eqn:Eu; [|intros Hx; discriminate Hx].
  destruct (mk_flat2 sqrt a0 a1) as [d|] eqn:Ed; [|intros Hx; discriminate Hx].
  intros [= <-]. cbn. repeat split; [apply (unit_axis_some _ _ Eu) | apply (mk_flat2_wf' _ _ _ Ed)].
Qed.

Lemma mk_par3d_wf (pos : V3) (axes : option (V3 * V3)) (tr : V3) (g : par3d) :
  mk_par3d sqrt pos axes tr = Some g -> wf_det3' (p3_det g) /\ p3_tr g = tr /\ p3_pos g = add3 pos tr.
Proof.
  unfold mk_par3d, obind. destruct (tsys3 sqrt pos _) as [m|]; [|intros Hx; discriminate Hx].
  destruct (match axes with Some a => a | None => _ end) as [a0 a1].
  destruct (mk_flat2 sqrt a0 a1) as [d|] eqn:Ed; [|intros Hx; discriminate Hx].
  intros [= <-]. cbn. repeat split. apply (mk_flat2_wf' _ _ _ Ed).
Qed.

Lemma mk_fan_wf (rs rd : R) (curv : option R) (s2d : V2) (axis : option V2) (tr : V2) (g : fan) :
  mk_fan sqrt rs rd curv s2d axis tr = Some g ->
  dot2 (f_s2d g) (f_s2d g) = 1 /\ wf_det2 (f_det g) /\ 0 <= f_rs g /\ 0 <= f_rd g /\
  ~ (f_rs g = 0 /\ f_rd g = 0) /\ f_tr g = tr.
Proof.
  unfold mk_fan, obind. destruct (tsys2 sqrt s2d _) as [m|]; [|intros Hx; discriminate Hx].
  destruct (iszero2 s2d) eqn:Ez; [intros Hx; discriminate Hx|].
  destruct (match curv with None => _ | Some r => _ end) as [d|] eqn:Ed; [|intros Hx; discriminate Hx].
  numR. destruct (Rltb_spec rs 0) as [H1|H1]; [intros Hx; discriminate Hx|].
  destruct (Rltb_spec rd 0) as [H2|H2]; [intros Hx; discriminate Hx|].
  destruct (Reqb_spec rs 0) as [H3|H3]; destruct (Reqb_spec rd 0) as [H4|H4]; cbn [andb];
    try (intros Hx; discriminate Hx).
  all: intros [= <-]; cbn.
  all: assert (Hn : norm2 sqrt s2d <> 0)
    by (intros Hn; apply norm2_zero_iff in Hn; subst s2d; unfold iszero2, eq2 in Ez; numR;
        destruct (Reqb_spec 0 0); [discriminate Ez | lra]).
  all: repeat split; try lra; try (apply normalize2_unit, Hn); try (intros [A B]; lra).
  all: destruct curv; [apply (mk_circ_wf _ _ _ Ed) | apply (mk_flat1_wf _ _ Ed)].
Qed.

Lemma mk_cone_wf (rs rd : R) (curv : curv3) (pitch off : R) (axis : V3) (s2d : option V3)
    (axes : option (V3 * V3)) (tr : V3) (g : cone) :
  mk_cone sqrt false rs rd curv pitch off axis s2d axes tr = Some g ->
  dot3 (c_axis g) (c_axis g) = 1 /\ dot3 (c_s2d g) (c_s2d g) = 1 /\ wf_det3' (c_det g) /\
  0 <= c_rs g /\ 0 <= c_rd g /\ ~ (c_rs g = 0 /\ c_rd g = 0) /\
  c_tr g = tr /\ c_pitch g = pitch /\ c_off g = off.
Proof.
  unfold mk_cone, obind. destruct (tsys3 sqrt axis _) as [m|]; [|intros Hx; discriminate Hx].
  destruct (match axes with Some a => a | None => _ end) as [a0 a1].
  set (sd := match s2d with Some p => p | None => _ end).
  numR. destruct (Reqb_spec (norm3 sqrt sd) 0) as [Hn|Hn]; [intros Hx; discriminate Hx|].
  destruct (unit_axis sqrt axis) as [ua|] eqn:Eu; [|intros Hx; discriminate Hx].
  destruct (match curv with CFlat => _ | CCyl r => _ | CSph r => _ end) as [d|] eqn:Ed; [|intros Hx; discriminate Hx].
  destruct (Rltb_spec rs 0) as [H1|H1]; [intros Hx; discriminate Hx|].
  destruct (Rltb_spec rd 0) as [H2|H2]; [intros Hx; discriminate Hx|].
  destruct (Reqb_spec rs 0) as [H3|H3]; destruct (Reqb_spec rd 0) as [H4|H4]; cbn [andb];
    try (intros Hx; discriminate Hx).
  all: intros [= <-]; cbn.
  all: repeat split; try lra; try (apply (unit_axis_some _ _ Eu)); try (apply normalize3_unit, Hn);
    try (intros [A B]; lra).
  all: destruct curv; [apply (mk_flat2_wf' _ _ _ Ed) | apply (mk_curved_wf _ _ _ _ _ Ed) | apply (mk_curved_wf _ _ _ _ _ Ed)].
Qed.

(* the alignment /repo uses since fix 5d26109 ([fixed = true]): explicit detector axes exactly perpendicular, or
   defaulted (then they are the images of e_x, e_z under transform_system's rotation, hence perpendicular) *)
Lemma mk_cone_wf_current (rs rd : R) (curv : curv3) (pitch off : R) (axis : V3) (s2d : option V3)
    (axes : option (V3 * V3)) (tr : V3) (g : cone) :
  match axes with Some (a0, a1) => dot3 a0 a1 = 0 | None => True end ->
  mk_cone sqrt true rs rd curv pitch off axis s2d axes tr = Some g ->
  dot3 (c_axis g) (c_axis g) = 1 /\ dot3 (c_s2d g) (c_s2d g) = 1 /\ wf_det3' (c_det g) /\
  0 <= c_rs g /\ 0 <= c_rd g /\ ~ (c_rs g = 0 /\ c_rd g = 0) /\
  c_tr g = tr /\ c_pitch g = pitch /\ c_off g = off.
Proof.
  intros Hax. unfold mk_cone, obind. destruct (tsys3 sqrt axis _) as [m|] eqn:Em; [|intros Hx; discriminate Hx].
  assert (Hperp : let '(a0, a1) := match axes with Some a => a | None => (mv3 m (1, 0, 0), mv3 m (0, 0, 1)) end in
                  dot3 a0 a1 = 0).
  { destruct axes as [[a0 a1]|]; [exact Hax|]. numR.
    rewrite (rot3_isometry m _ _ (proj1 (tsys3_rot _ _ _ Em))). unf. ring. }
  numR. destruct (match axes with Some a => a | None => _ end) as [a0 a1].
  set (sd := match s2d with Some p => p | None => _ end).
  destruct (Reqb_spec (norm3 sqrt sd) 0) as [Hn|Hn]; [intros Hx; discriminate Hx|].
  destruct (unit_axis sqrt axis) as [ua|] eqn:Eu; [|intros Hx; discriminate Hx].
  destruct (match curv with CFlat => _ | CCyl r => _ | CSph r => _ end) as [d|] eqn:Ed; [|intros Hx; discriminate Hx].
  destruct (Rltb_spec rs 0) as [H1|H1]; [intros Hx; discriminate Hx|].
  destruct (Rltb_spec rd 0) as [H2|H2]; [intros Hx; discriminate Hx|].
  destruct (Reqb_spec rs 0) as [H3|H3]; destruct (Reqb_spec rd 0) as [H4|H4]; cbn [andb];
    try (intros Hx; discriminate Hx).
  all: intros [= <-]; cbn.
  all: repeat split; try lra; try (apply (unit_axis_some _ _ Eu)); try (apply normalize3_unit, Hn);
    try (intros [A B]; lra).
  all: destruct curv; [apply (mk_flat2_wf' _ _ _ Ed) | apply (mk_curved_fixed_wf _ _ _ _ _ Hperp Ed)
                       | apply (mk_curved_fixed_wf _ _ _ _ _ Hperp Ed)].
Qed.

(* ------------------------------------------------------------ frommatrix *)

(* a 2-d rotation matrix has the form ((a, -c), (c, a)) *)
Lemma rot2_form (m : M2) : is_rot2 m -> exists a c, m = ((a, - c), (c, a)) /\ a * a + c * c = 1.
Proof.
  destruct m as [[a b] [c d]]. unfold is_rot2. unf. intros [Ho Hd].
  injection Ho as H1 H2 H3 H4.
  assert (Ead : a = d) by nsatz. assert (Ebc : b = - c) by nsatz.
  exists a, c. subst d b. split; [reflexivity | nsatz].
Qed.

Lemma sqrt_1_div (v : V2) : dot2 v v = 1 -> sdiv2 v (norm2 sqrt v) = v.
Proof.
  intros Hu. unfold norm2. numR. rewrite Hu, sqrt_1. d2 v. unf. pair_eq; field.
Qed.

(* Parallel2dGeometry.frommatrix with a rotation matrix m and translation t: whenever it succeeds,
   every detector point is  t + m (detector point of the default geometry), every ray direction is
   m (default ray direction) *)
Lemma par2d_frommatrix_spec (m : M2) (tr : V2) (g : par2d) (a : R * R) (u : R) (cs : R * R) :
  is_rot2 m -> par2d_frommatrix sqrt m tr = Some g ->
  par2d_detpoint g a (u, cs) = add2 tr (mv2 m (par2d_detpoint par2d_default a (u, cs))) /\
  par2d_det_axis g a = mv2 m (par2d_det_axis par2d_default a) /\
  p2_tr g = tr.
Proof.
  intros Hm Hg. destruct (rot2_form m Hm) as [p [q [-> Hc]]].
  unfold par2d_frommatrix, mk_par2d, obind in Hg.
  destruct (tsys2 sqrt _ _) as [m0|]; [|discriminate Hg].
  unfold mk_flat1 in Hg. numR.
  assert (Hu : dot2 (mv2 (p, - q, (q, p)) (1, 0)) (mv2 (p, - q, (q, p)) (1, 0)) = 1) by (unf; nsatz).
  destruct (Reqb_spec (norm2 sqrt (mv2 (p, - q, (q, p)) (1, 0))) 0) as [Hn|Hn].
  { apply norm2_zero_iff in Hn. rewrite Hn in Hu. unf. lra. }
  rewrite (sqrt_1_div _ Hu) in Hg. injection Hg as <-.
  unfold par2d_detpoint, par2d_refpoint, par_refpoint2, par2d_det_axis, par2d_rot, par2d_default.
  destruct cs as [cu su]. cbn [p2_pos p2_tr p2_det det2_axis surf2]. destruct a as [c s]. d2 tr. unf.
  repeat split; pair_eq; ring.
Qed.

(* FanBeamGeometry.frommatrix (flat detector) with a rotation matrix: source, detector point and
   detector axis are t + m (default), for all radii, angles, shifts and detector parameters *)
Lemma fan_frommatrix_spec (rs rd : R) (m : M2) (tr : V2) (g : fan) (a : R * R) (ssh dsh : V2) (u : R) (cs : R * R) :
  is_rot2 m -> fan_frommatrix sqrt rs rd None m tr = Some g ->
  fan_detpoint g a dsh (u, cs) = add2 tr (mv2 m (fan_detpoint (fan_default rs rd) a dsh (u, cs))) /\
  fan_src g a ssh = add2 tr (mv2 m (fan_src (fan_default rs rd) a ssh)) /\
  fan_det_axis g a = mv2 m (fan_det_axis (fan_default rs rd) a).
Proof.
  intros Hm Hg. destruct (rot2_form m Hm) as [p [q [-> Hc]]].
  unfold fan_frommatrix, mk_fan, obind in Hg.
  destruct (tsys2 sqrt _ _) as [m0|]; [|discriminate Hg].
  destruct (iszero2 _); [discriminate Hg|].
  unfold mk_flat1 in Hg. numR.
  assert (Hu : dot2 (mv2 (p, - q, (q, p)) (1, 0)) (mv2 (p, - q, (q, p)) (1, 0)) = 1) by (unf; nsatz).
  assert (Hv : dot2 (mv2 (p, - q, (q, p)) (0, 1)) (mv2 (p, - q, (q, p)) (0, 1)) = 1) by (unf; nsatz).
  destruct (Reqb_spec (norm2 sqrt (mv2 (p, - q, (q, p)) (1, 0))) 0) as [Hn|Hn].
  { apply norm2_zero_iff in Hn. rewrite Hn in Hu. unf. lra. }
  rewrite (sqrt_1_div _ Hu), (sqrt_1_div _ Hv) in Hg.
  destruct (Rltb rs 0); [discriminate Hg|]. destruct (Rltb rd 0); [discriminate Hg|].
  destruct (Reqb rs 0 && Reqb rd 0); [discriminate Hg|]. injection Hg as <-.
  unfold fan_detpoint, fan_refpoint, fan_src, fan_det_axis, fan_rot, fan_default.
  destruct cs as [cu su]. cbn [f_rs f_rd f_s2d f_tr f_det det2_axis surf2]. destruct a as [c s]. d2 tr. d2 ssh. d2 dsh. unf.
  repeat split; pair_eq; ring.
Qed.


(* a rotation maps cross products to cross products *)
Lemma rot3_cross (m : M3) (x y : V3) : is_rot3 m -> mv3 m (cross3 x y) = cross3 (mv3 m x) (mv3 m y).
Proof.
  destruct m as [[[[a b] c] [[d e] f]] [[g h] i]]; d3 x; d3 y. unfold is_rot3. unf. intros [Ho Hd].
  injection Ho as H1 H2 H3 H4 H5 H6 H7 H8 H9.
  pair_eq; nsatz.
Qed.

(* Rodrigues' formula in vector form *)
Lemma axis_rot_apply (ax : V3) (c s : R) (v : V3) :
  mv3 (axis_rot ax (c, s)) v =
  add3 (scal3 c v) (add3 (scal3 ((1 - c) * dot3 ax v) ax) (scal3 s (cross3 ax v))).
Proof. d3 ax; d3 v. unf. pair_eq; ring. Qed.

(* conjugation: rotating about the image axis m ax after applying m = applying m after rotating about ax *)
Lemma axis_rot_conj (m : M3) (ax : V3) (a : R * R) (v : V3) : is_rot3 m ->
  mv3 (axis_rot (mv3 m ax) a) (mv3 m v) = mv3 m (mv3 (axis_rot ax a) v).
Proof.
  intros Hm. destruct a as [c s]. rewrite !axis_rot_apply.
  rewrite (rot3_isometry m ax v (proj1 Hm)), <- (rot3_cross m ax v Hm).
  rewrite !mv3_add, !mv3_scal. reflexivity.
Qed.

Lemma sqrt_1_div3 (v : V3) : dot3 v v = 1 -> sdiv3 v (norm3 sqrt v) = v.
Proof. intros Hu. unfold norm3. numR. rewrite Hu, sqrt_1. d3 v. unf. pair_eq; field. Qed.
Lemma rot3_unit (m : M3) (v : V3) : is_rot3 m -> dot3 v v = 1 -> dot3 (mv3 m v) (mv3 m v) = 1.
Proof. intros Hm Hv. rewrite (rot3_isometry m v v (proj1 Hm)). exact Hv. Qed.

(* the default Parallel3dAxisGeometry *)
Definition par3a_default : @par3a R :=
  {| pa_axis := (0, 0, 1); pa_pos := (0, 1, 0); pa_tr := (0, 0, 0); pa_det := Flat2 (1, 0, 0) (0, 0, 1);
     pa_pos_arg := None; pa_axes_arg := None |}.

(* Parallel3dAxisGeometry.frommatrix with a rotation matrix m and translation t: whenever it succeeds,
   every detector point is t + m (default detector point); the rotation is conjugated by m *)
Lemma par3a_frommatrix_spec (m : M3) (tr : V3) (g : par3a) (a : R * R) (p : dpar3) :
  is_rot3 m -> par3a_frommatrix sqrt m tr = Some g ->
  par3a_detpoint g a p = add3 tr (mv3 m (par3a_detpoint par3a_default a p)) /\
  pa_axis g = mv3 m (0, 0, 1) /\ pa_tr g = tr.
Proof.
  intros Hm Hg. unfold par3a_frommatrix, mk_par3a, obind in Hg.
  destruct (tsys3 sqrt _ _) as [m0|]; [|discriminate Hg].
  assert (U1 : dot3 (mv3 m (0, 0, 1)) (mv3 m (0, 0, 1)) = 1) by (apply rot3_unit; [exact Hm | unf; ring]).
  assert (U2 : dot3 (mv3 m (1, 0, 0)) (mv3 m (1, 0, 0)) = 1) by (apply rot3_unit; [exact Hm | unf; ring]).
  unfold unit_axis, mk_flat2 in Hg. numR.
  destruct (Reqb_spec (norm3 sqrt (mv3 m (0, 0, 1))) 0) as [Hn|Hn].
  { apply norm3_zero_iff in Hn. rewrite Hn in U1. unf. lra. }
  destruct (Reqb_spec (norm3 sqrt (cross3 (mv3 m (1, 0, 0)) (mv3 m (0, 0, 1)))) 0) as [Hn2|Hn2]; [discriminate Hg|].
  rewrite !(sqrt_1_div3 _ U1), !(sqrt_1_div3 _ U2) in Hg. injection Hg as <-.
  split; [|split; reflexivity].
  rewrite !par3a_rigid. cbn [pa_axis pa_pos pa_tr pa_det par3a_default].
  destruct p as [[[u v] [cu su]] [cv sv]]. cbn [surf3].
  assert (E : add3 (sub3 (add3 (mv3 m (0, 1, 0)) tr) tr) (add3 (scal3 u (mv3 m (1, 0, 0))) (scal3 v (mv3 m (0, 0, 1))))
              = mv3 m (add3 (sub3 (0, 1, 0) (0, 0, 0)) (add3 (scal3 u (1, 0, 0)) (scal3 v (0, 0, 1))))).
  { rewrite !mv3_add, !mv3_scal, mv3_sub.
    destruct (mv3 m (0, 1, 0)) as [[x0 x1] x2], (mv3 m (1, 0, 0)) as [[y0 y1] y2], (mv3 m (0, 0, 1)) as [[z0 z1] z2],
      (mv3 m (0, 0, 0)) as [[w0 w1] w2] eqn:Ew. d3 tr.
    assert (Hz : mv3 m (0, 0, 0) = (0, 0, 0)) by (destruct m as [[[[a1 a2] a3] [[a4 a5] a6]] [[a7 a8] a9]]; unf; pair_eq; ring).
    rewrite Hz in Ew. injection Ew as <- <- <-. unf. apply f_equal2; [apply f_equal2|]; ring. }
  numR. rewrite E, (axis_rot_conj m _ a _ Hm).
  assert (Z : forall w : V3, add3 (0, 0, 0) w = w) by (intros [[w0 w1] w2]; unf; pair_eq; ring).
  rewrite Z. reflexivity.
Qed.


(* the default ConeBeamGeometry (flat detector) *)
Definition cone_default (rs rd pitch off : R) : @cone R :=
  {| c_rs := rs; c_rd := rd; c_s2d := (0, 1, 0); c_axis := (0, 0, 1); c_tr := (0, 0, 0);
     c_pitch := pitch; c_off := off; c_det := Flat2 (1, 0, 0) (0, 0, 1);
     c_s2d_arg := None; c_axes_arg := None |}.

Lemma neg3_mv3 (m : M3) (v : V3) : neg3 (mv3 m v) = mv3 m (neg3 v).
Proof. destruct m as [[[[a b] c] [[d e] f]] [[g h] i]]; d3 v. unf. pair_eq; ring. Qed.
Lemma sdiv3_mv3 (m : M3) (v : V3) (k : R) : sdiv3 (mv3 m v) k = mv3 m (sdiv3 v k).
Proof. destruct m as [[[[a b] c] [[d e] f]] [[g h] i]]; d3 v. unf. pair_eq; unfold Rdiv; ring. Qed.
Lemma norm3_rot (m : M3) (v : V3) : is_rot3 m -> norm3 sqrt (mv3 m v) = norm3 sqrt v.
Proof. intros Hm. unfold norm3. rewrite (rot3_isometry m v v (proj1 Hm)). reflexivity. Qed.

(* ConeBeamGeometry.frommatrix (flat detector) with a rotation matrix m and translation t: source and
   detector points are t + m (default geometry's), for all radii, pitch, offset, shifts, angles *)
Lemma cone_frommatrix_spec (fixed : bool) (rs rd pitch off : R) (m : M3) (tr : V3) (g : cone)
    (a : R * R) (ang twopi : R) (ssh dsh : V3) (p : dpar3) :
  is_rot3 m -> cone_frommatrix sqrt fixed rs rd CFlat pitch off m tr = Some g ->
  cone_src sqrt g a ang twopi ssh = add3 tr (mv3 m (cone_src sqrt (cone_default rs rd pitch off) a ang twopi ssh)) /\
  cone_detpoint sqrt g a ang twopi dsh p =
    add3 tr (mv3 m (cone_detpoint sqrt (cone_default rs rd pitch off) a ang twopi dsh p)) /\
  c_axis g = mv3 m (0, 0, 1).
Proof.
  intros Hm Hg. unfold cone_frommatrix, mk_cone, obind in Hg.
  destruct (tsys3 sqrt _ _) as [m0|]; [|discriminate Hg].
  assert (U1 : dot3 (mv3 m (0, 0, 1)) (mv3 m (0, 0, 1)) = 1) by (apply rot3_unit; [exact Hm | unf; ring]).
  assert (U2 : dot3 (mv3 m (1, 0, 0)) (mv3 m (1, 0, 0)) = 1) by (apply rot3_unit; [exact Hm | unf; ring]).
  assert (U3 : dot3 (mv3 m (0, 1, 0)) (mv3 m (0, 1, 0)) = 1) by (apply rot3_unit; [exact Hm | unf; ring]).
  unfold unit_axis, mk_flat2 in Hg. numR.
  destruct (Reqb_spec (norm3 sqrt (mv3 m (0, 1, 0))) 0) as [Hn0|Hn0].
  { apply norm3_zero_iff in Hn0. rewrite Hn0 in U3. unf. lra. }
  destruct (Reqb_spec (norm3 sqrt (mv3 m (0, 0, 1))) 0) as [Hn|Hn].
  { apply norm3_zero_iff in Hn. rewrite Hn in U1. unf. lra. }
  destruct (Reqb_spec (norm3 sqrt (cross3 (mv3 m (1, 0, 0)) (mv3 m (0, 0, 1)))) 0) as [Hn2|Hn2]; [discriminate Hg|].
  rewrite !(sqrt_1_div3 _ U1), !(sqrt_1_div3 _ U2), !(sqrt_1_div3 _ U3) in Hg.
  destruct (Rltb rs 0); [discriminate Hg|]. destruct (Rltb rd 0); [discriminate Hg|].
  destruct (Reqb rs 0 && Reqb rd 0); [discriminate Hg|]. injection Hg as <-.
  split; [|split; [|reflexivity]].
  - unfold cone_src, cone_rot, cone_along, cone_default.
    cbn [c_rs c_rd c_s2d c_axis c_tr c_pitch c_off c_det]. destruct ssh as [[s0 s1] s2].
    rewrite neg3_mv3, <- (rot3_cross m _ _ Hm), neg3_mv3, sdiv3_mv3, (norm3_rot m _ Hm).
    set (tg := sdiv3 _ _). numR. set (k := off + pitch * ang / twopi + s2).
    rewrite !(mv3_add m), <- (axis_rot_conj m _ a _ Hm), !(mv3_add m), !(mv3_scal m).
    assert (Hz : mv3 m (0, 0, 0) = (0, 0, 0)) by (destruct m as [[[[a1 a2] a3] [[a4 a5] a6]] [[a7 a8] a9]]; unf; pair_eq; ring).
    rewrite Hz.
    set (R1 := axis_rot (mv3 m (0, 0, 1)) a).
    destruct (mv3 R1 _) as [[x0 x1] x2]. destruct (mv3 m (0, 0, 1)) as [[z0 z1] z2]. d3 tr. unf. pair_eq; ring.
  - unfold cone_detpoint, cone_refpoint, cone_rot, cone_along, cone_default.
    cbn [c_rs c_rd c_s2d c_axis c_tr c_pitch c_off c_det]. destruct dsh as [[s0 s1] s2].
    destruct p as [[[u v] [cu su]] [cv sv]]. cbn [surf3].
    rewrite <- (rot3_cross m _ _ Hm), neg3_mv3, sdiv3_mv3, (norm3_rot m _ Hm).
    set (tg := sdiv3 _ _). numR. set (k := off + pitch * ang / twopi + s2).
    rewrite !(mv3_add m), <- !(axis_rot_conj m _ a _ Hm), !(mv3_add m), !(mv3_scal m).
    assert (Hz : mv3 m (0, 0, 0) = (0, 0, 0)) by (destruct m as [[[[a1 a2] a3] [[a4 a5] a6]] [[a7 a8] a9]]; unf; pair_eq; ring).
    rewrite Hz.
    set (R1 := axis_rot (mv3 m (0, 0, 1)) a).
    set (X := mv3 R1 (add3 _ _)). set (Y := mv3 R1 (add3 _ _)).
    destruct X as [[x0 x1] x2], Y as [[y0 y1] y2]. destruct (mv3 m (0, 0, 1)) as [[z0 z1] z2]. d3 tr. unf. pair_eq; ring.
Qed.


(* cone beam without shift functions: source and detector reference point lie on circles of radii
   src_radius / det_radius about the point  translation + along * axis  of the axis, on opposite sides *)
Lemma cone_circles (g : cone) (a : R * R) (ang twopi : R) :
  dot3 (c_axis g) (c_axis g) = 1 -> dot3 (c_s2d g) (c_s2d g) = 1 -> on_circle a ->
  let o := add3 (c_tr g) (scal3 (cone_along g ang twopi 0) (c_axis g)) in
  let s := sub3 (cone_src sqrt g a ang twopi (0, 0, 0)) o in
  let r := sub3 (cone_refpoint sqrt g a ang twopi (0, 0, 0)) o in
  dot3 s s = c_rs g * c_rs g /\ dot3 r r = c_rd g * c_rd g /\
  scal3 (c_rs g) r = scal3 (- c_rd g) s /\
  dot3 (sub3 r s) (sub3 r s) = (c_rs g + c_rd g) * (c_rs g + c_rd g).
Proof.
  intros Hu Hd Ha. cbn zeta. unfold cone_src, cone_refpoint, cone_rot.
  set (t1 := sdiv3 _ _). set (t2 := sdiv3 _ _). generalize (cone_along g ang twopi 0). intros al.
  pose proof (axis_rot_rot _ a Hu Ha) as [Hr _]. set (m := axis_rot (c_axis g) a) in *.
  assert (E1 : add3 (scal3 (- c_rs g) (c_s2d g)) (add3 (scal3 0 (neg3 (c_s2d g))) (scal3 0 t1))
               = scal3 (- c_rs g) (c_s2d g)).
  { destruct (c_s2d g) as [[d0 d1] d2], t1 as [[x0 x1] x2]. unf. pair_eq; ring. }
  assert (E2 : add3 (scal3 (c_rd g) (c_s2d g)) (add3 (scal3 0 (c_s2d g)) (scal3 0 t2))
               = scal3 (c_rd g) (c_s2d g)).
  { destruct (c_s2d g) as [[d0 d1] d2], t2 as [[x0 x1] x2]. unf. pair_eq; ring. }
  numR. rewrite E1, E2, !(mv3_scal m).
  pose proof (rot3_isometry m (c_s2d g) (c_s2d g) Hr) as Hi. rewrite Hd in Hi.
  destruct (mv3 m (c_s2d g)) as [[w0 w1] w2], (c_tr g) as [[t0 t1'] t2'], (c_axis g) as [[z0 z1] z2].
  clear Hr E1 E2. set (rs := c_rs g). set (rd := c_rd g). unf.
  repeat split; try (pair_eq; ring); nsatz.
Qed.

(* parallel_beam_geometry in 3-d (Parallel3dAxisGeometry, default axes): the detector coordinates of the
   projection of (x, y, z) at angle a are (x cos + y sin, z) -- inside [-rho, rho] x [min_z, max_z] *)
Definition par3a_coords (g : @par3a R) (a : R * R) (X : V3) : R * R :=
  let '(a0, a1) := par3a_det_axes g a in
  (dot3 (sub3 X (par3a_refpoint g a)) a0, dot3 (sub3 X (par3a_refpoint g a)) a1).
Lemma par3a_factory_covers (ax bx ay by_ az bz x y z : R) (a : R * R) :
  ax <= x <= bx -> ay <= y <= by_ -> az <= z <= bz -> on_circle a ->
  let '(lo, hi) := par_factory_det_range sqrt ax bx ay by_ in
  let '(u, v) := par3a_coords par3a_default a (x, y, z) in
  lo <= u <= hi /\ az <= v <= bz.
Proof.
  intros Hx Hy Hz Ha. unfold par_factory_det_range, rho_of. numR.
  destruct a as [c s]. unfold on_circle in Ha. cbn [fst snd] in Ha.
  unfold par3a_coords, par3a_det_axes, par3a_refpoint, par_refpoint3, par3a_rot, par3a_default.
  cbn [pa_axis pa_pos pa_tr pa_det det3_axes]. unf.
  split.
  - apply abs_le_sqrt; [apply rho_sq_nonneg|].
    eapply Rle_trans; [|apply (rect_in_rho _ _ _ _ _ _ Hx Hy)].
    match goal with |- ?u * ?u <= _ => assert (E : u = x * c + y * s) by ring; rewrite E end.
    pose proof (Rle_0_sqr (x * s - y * c)) as Hsq. unfold Rsqr in Hsq.
    assert (E2 : (x * c + y * s) * (x * c + y * s) + (x * s - y * c) * (x * s - y * c)
                 = (x * x + y * y) * (c * c + s * s)) by ring.
    rewrite Ha in E2. lra.
  - match goal with |- _ <= ?v <= _ => assert (E : v = z) by ring; rewrite E end. exact Hz.
Qed.


(* core of all cone-beam frommatrix statements: if axis, src_to_det_init, translation and the detector
   surface of g are the images under (m, tr) of those of g0, so is every detector point *)
Lemma cone_detpoint_image (m : M3) (tr : V3) (g g0 : cone) (a : R * R) (ang twopi : R) (dsh : V3) (p : dpar3) :
  is_rot3 m -> c_axis g = mv3 m (0, 0, 1) -> c_s2d g = mv3 m (0, 1, 0) -> c_tr g = tr ->
  c_axis g0 = (0, 0, 1) -> c_s2d g0 = (0, 1, 0) -> c_tr g0 = (0, 0, 0) ->
  c_rd g = c_rd g0 -> c_pitch g = c_pitch g0 -> c_off g = c_off g0 ->
  surf3 (c_det g) p = mv3 m (surf3 (c_det g0) p) ->
  cone_detpoint sqrt g a ang twopi dsh p = add3 tr (mv3 m (cone_detpoint sqrt g0 a ang twopi dsh p)).
Proof.
  intros Hm Ha Hs Ht Ha0 Hs0 Ht0 Hrd Hp Ho Hsf.
  unfold cone_detpoint, cone_refpoint, cone_rot, cone_along.
  rewrite Ha, Hs, Ht, Ha0, Hs0, Ht0, Hrd, Hp, Ho, Hsf. destruct dsh as [[s0 s1] s2].
  set (sf := surf3 (c_det g0) p).
  rewrite <- (rot3_cross m _ _ Hm), neg3_mv3, sdiv3_mv3, (norm3_rot m _ Hm).
  set (tg := sdiv3 _ _). numR. set (k := c_off g0 + c_pitch g0 * ang / twopi + s2).
  rewrite !(mv3_add m), <- !(axis_rot_conj m _ a _ Hm), !(mv3_add m), !(mv3_scal m).
  assert (Hz : mv3 m (0, 0, 0) = (0, 0, 0)) by (destruct m as [[[[a1 a2] a3] [[a4 a5] a6]] [[a7 a8] a9]]; unf; pair_eq; ring).
  rewrite Hz.
  set (R1 := axis_rot (mv3 m (0, 0, 1)) a).
  set (X := mv3 R1 (add3 _ _)). set (Y := mv3 R1 (mv3 m sf)).
  destruct X as [[x0 x1] x2], Y as [[y0 y1] y2]. destruct (mv3 m (0, 0, 1)) as [[z0 z1] z2]. d3 tr. unf. pair_eq; ring.
Qed.

(* a matrix given by its columns, applied to a vector *)
Lemma cols_apply (c0 c1 c2 w : V3) :
  mv3 (tr3 (c0, c1, c2)) w =
  add3 (scal3 (fst (fst w)) c0) (add3 (scal3 (snd (fst w)) c1) (scal3 (snd w) c2)).
Proof. d3 c0; d3 c1; d3 c2; d3 w. unf. cbn [fst snd]. pair_eq; ring. Qed.

(* the repaired alignment matrix of the rotated axes is m times the alignment matrix of the axes *)
Lemma curved_frame_image (m : M3) (a0 a1 w : V3) : is_rot3 m -> dot3 a0 a0 = 1 -> dot3 a1 a1 = 1 ->
  mv3 (curved_frame sqrt (mv3 m a0) (mv3 m a1)) w = mv3 m (mv3 (curved_frame sqrt a0 a1) w).
Proof.
  intros Hm H0 H1. unfold curved_frame.
  rewrite !(sqrt_1_div3 _ (rot3_unit m _ Hm H0)), !(sqrt_1_div3 _ (rot3_unit m _ Hm H1)),
    !(sqrt_1_div3 _ H0), !(sqrt_1_div3 _ H1).
  rewrite !cols_apply, <- (rot3_cross m _ _ Hm), !neg3_mv3, !(mv3_add m), !(mv3_scal m). reflexivity.
Qed.

(* the default cone beam geometries with curved detectors (repaired alignment) *)
Definition frame0 : M3 := curved_frame sqrt (1, 0, 0) (0, 0, 1).
Definition cone_default_curved (sph : bool) (rs rd r pitch off : R) : @cone R :=
  {| c_rs := rs; c_rd := rd; c_s2d := (0, 1, 0); c_axis := (0, 0, 1); c_tr := (0, 0, 0);
     c_pitch := pitch; c_off := off;
     c_det := if sph then Sph (1, 0, 0) (0, 0, 1) r frame0 else Cyl (1, 0, 0) (0, 0, 1) r frame0;
     c_s2d_arg := None; c_axes_arg := None |}.

(* ConeBeamGeometry.frommatrix with a CURVED detector and the repaired alignment: rigid-motion image of the
   default geometry, for every rotation matrix, radius, pitch, offset, shift, angle, detector parameter *)
Lemma cone_frommatrix_curved_spec (sph : bool) (rs rd r pitch off : R) (m : M3) (tr : V3) (g : cone)
    (a : R * R) (ang twopi : R) (dsh : V3) (p : dpar3) :
  is_rot3 m ->
  cone_frommatrix sqrt true rs rd (if sph then CSph r else CCyl r) pitch off m tr = Some g ->
  cone_detpoint sqrt g a ang twopi dsh p =
    add3 tr (mv3 m (cone_detpoint sqrt (cone_default_curved sph rs rd r pitch off) a ang twopi dsh p)).
Proof.
  intros Hm Hg. unfold cone_frommatrix, mk_cone, obind in Hg.
  destruct (tsys3 sqrt _ _) as [m0|]; [|discriminate Hg].
  assert (E1 : dot3 (1, 0, 0) (1, 0, 0) = 1) by (unf; ring).
  assert (E2 : dot3 (0, 1, 0) (0, 1, 0) = 1) by (unf; ring).
  assert (E3 : dot3 (0, 0, 1) (0, 0, 1) = 1) by (unf; ring).
  pose proof (rot3_unit m _ Hm E1) as U1. pose proof (rot3_unit m _ Hm E2) as U2. pose proof (rot3_unit m _ Hm E3) as U3.
  unfold unit_axis in Hg. numR.
  destruct (Reqb_spec (norm3 sqrt (mv3 m (0, 1, 0))) 0) as [Hn0|Hn0].
  { apply norm3_zero_iff in Hn0. rewrite Hn0 in U2. unf. lra. }
  destruct (Reqb_spec (norm3 sqrt (mv3 m (0, 0, 1))) 0) as [Hn|Hn].
  { apply norm3_zero_iff in Hn. rewrite Hn in U3. unf. lra. }
  rewrite !(sqrt_1_div3 _ U2), !(sqrt_1_div3 _ U3) in Hg.
  assert (Hdet : exists d, (if sph then mk_curved sqrt true true (mv3 m (1, 0, 0)) (mv3 m (0, 0, 1)) r
                            else mk_curved sqrt true false (mv3 m (1, 0, 0)) (mv3 m (0, 0, 1)) r) = Some d /\
                 Some g = (if (rs <? 0)%num then None else if (rd <? 0)%num then None
                           else if ((rs =? 0)%num && (rd =? 0)%num)%bool then None
                           else Some {| c_rs := rs; c_rd := rd; c_s2d := mv3 m (0, 1, 0); c_axis := mv3 m (0, 0, 1);
                                        c_tr := tr; c_pitch := pitch; c_off := off; c_det := d;
                                        c_s2d_arg := Some (mv3 m (0, 1, 0));
                                        c_axes_arg := Some (mv3 m (1, 0, 0), mv3 m (0, 0, 1)) |})).
  { destruct sph; numR; destruct (mk_curved sqrt true _ _ _ r) as [d|]; try discriminate Hg; exists d; split; auto. }
  destruct Hdet as [d [Hd Hg']]. clear Hg. numR.
  destruct (Rltb rs 0); [discriminate Hg'|]. destruct (Rltb rd 0); [discriminate Hg'|].
  destruct (Reqb rs 0 && Reqb rd 0); [discriminate Hg'|]. injection Hg' as ->.
  assert (Hd' : d = (if sph then Sph (mv3 m (1, 0, 0)) (mv3 m (0, 0, 1)) r (curved_frame sqrt (mv3 m (1, 0, 0)) (mv3 m (0, 0, 1)))
                     else Cyl (mv3 m (1, 0, 0)) (mv3 m (0, 0, 1)) r (curved_frame sqrt (mv3 m (1, 0, 0)) (mv3 m (0, 0, 1))))).
  { destruct sph; destruct (mk_curved_nonzero _ _ _ _ _ _ Hd) as [_ [_ [_ [m' [Em ->]]]]]; injection Em as <-;
      rewrite !(sqrt_1_div3 _ U1), !(sqrt_1_div3 _ U3); reflexivity. }
  subst d.
  apply cone_detpoint_image; try reflexivity; try exact Hm.
  cbn [c_det cone_default_curved]. destruct p as [[[u v] [cu su]] [cv sv]].
  destruct sph; cbn [surf3]; unfold curved_transl, frame0; numR;
    rewrite !(curved_frame_image m _ _ _ Hm E1 E3), !(mv3_add m), !(mv3_scal m); reflexivity.
Qed.

(* ================= round 3: slicing of the other classes, Euler frommatrix, factories ================= *)

Lemma tiny_small : 0 < @tiny R _ < 1.
Proof. unfold tiny, of_Q; cbn [Qnum Qden]; numR. lra. Qed.
Lemma norm3_unit (v : V3) : dot3 v v = 1 -> norm3 sqrt v = 1.
Proof. intros Hu. unfold norm3. numR. rewrite Hu. apply sqrt_1. Qed.
Lemma norm2_unit (v : V2) : dot2 v v = 1 -> norm2 sqrt v = 1.
Proof. intros Hu. unfold norm2. numR. rewrite Hu. apply sqrt_1. Qed.

(* transform_system never fails on unit vectors *)
Lemma from_to3_some (f t : V3) : dot3 f f = 1 -> dot3 t t = 1 -> exists m, from_to3 sqrt f t = Some m.
Proof.
  intros Hf Ht. unfold from_to3. rewrite (norm3_unit _ Hf), (norm3_unit _ Ht). numR.
  pose proof tiny_small as [T0 T1].
  destruct (Rltb_spec 1 tiny) as [H|H]; [lra|]. cbn [orb].
  destruct (Rltb _ tiny); eexists; reflexivity.
Qed.
Lemma from_to2_some (f t : V2) : dot2 f f = 1 -> dot2 t t = 1 -> exists m, from_to2 sqrt f t = Some m.
Proof.
  intros Hf Ht. unfold from_to2. rewrite (norm2_unit _ Hf), (norm2_unit _ Ht). numR.
  pose proof tiny_small as [T0 T1].
  destruct (Rltb_spec 1 tiny) as [H|H]; [lra|]. cbn [orb]. eexists; reflexivity.
Qed.
Lemma tsys3_some (v d : V3) : dot3 v v = 1 -> dot3 d d = 1 -> exists m, tsys3 sqrt v d = Some m.
Proof.
  intros Hv Hd. unfold tsys3. rewrite (norm3_unit _ Hv), (norm3_unit _ Hd). numR.
  destruct (Reqb_spec 1 0) as [H|H]; [lra|]. cbn [andb negb].
  destruct (allclose3 _ _); [eexists; reflexivity | apply from_to3_some; assumption].
Qed.
Lemma tsys2_some (v d : V2) : dot2 v v = 1 -> dot2 d d = 1 -> exists m, tsys2 sqrt v d = Some m.
Proof.
  intros Hv Hd. unfold tsys2. rewrite (norm2_unit _ Hv), (norm2_unit _ Hd). numR.
  destruct (Reqb_spec 1 0) as [H|H]; [lra|]. cbn [andb negb].
  destruct (allclose2 _ _); [eexists; reflexivity | apply from_to2_some; assumption].
Qed.
Lemma e3_unit : dot3 (0, 0, 1) (0, 0, 1) = 1. Proof. unf. ring. Qed.
Lemma e2_unit2 : dot2 (0, 1) (0, 1) = 1. Proof. unf. ring. Qed.

(* ---- slicing: geometries built with explicit initial vectors are rebuilt identically ---- *)
(* Parallel3dAxisGeometry.__getitem__ passes the normalised axis and the original det_pos_init / det_axes_init *)
Lemma par3a_getitem_same (axis pos : V3) (axes : V3 * V3) (tr : V3) (g : par3a) :
  mk_par3a sqrt axis (Some pos) (Some axes) tr = Some g -> par3a_getitem sqrt g = Some g.
Proof.
  intros Hg. unfold par3a_getitem. unfold mk_par3a, obind in Hg.
  destruct (tsys3 sqrt axis _) as [m|]; [|discriminate Hg]. destruct axes as [a0 a1].
  destruct (unit_axis sqrt axis) as [ua|] eqn:Eu; [|discriminate Hg].
  destruct (mk_flat2 sqrt a0 a1) as [d|] eqn:Ed; [|discriminate Hg]. injection Hg as <-.
  cbn [pa_axis pa_pos_arg pa_axes_arg pa_tr]. unfold mk_par3a, obind.
  pose proof (unit_axis_some _ _ Eu) as Hu.
  destruct (tsys3_some ua (0, 0, 1) Hu e3_unit) as [m' Em]. numR. rewrite Em, Ed.
  unfold unit_axis. numR.
  destruct (Reqb_spec (norm3 sqrt ua) 0) as [H|H]; [rewrite (norm3_unit _ Hu) in H; lra|].
  rewrite (sqrt_1_div3 _ Hu). reflexivity.
Qed.

(* FanBeamGeometry.__getitem__ passes the normalised src_to_det_init and the original det_axis_init *)
Lemma fan_getitem_same (rs rd : R) (curv : option R) (s2d ax : V2) (tr : V2) (g : fan) :
  mk_fan sqrt rs rd curv s2d (Some ax) tr = Some g -> fan_getitem sqrt g (Some ax) = Some g.
Proof.
  intros Hg. unfold fan_getitem. pose proof (mk_fan_wf _ _ _ _ _ _ _ Hg) as [Hu _].
  unfold mk_fan, obind in Hg.
  destruct (tsys2 sqrt s2d _) as [m|]; [|discriminate Hg]. cbv zeta in Hg.
  destruct (iszero2 s2d) eqn:Ez; [discriminate Hg|].
  destruct (match curv with None => _ | Some r => _ end) as [d|] eqn:Ed; [|discriminate Hg].
  numR. destruct (Rltb rs 0) eqn:E1; [discriminate Hg|]. destruct (Rltb rd 0) eqn:E2; [discriminate Hg|].
  destruct (Reqb rs 0 && Reqb rd 0)%bool eqn:E3; [discriminate Hg|]. injection Hg as <-.
  cbn [f_rs f_rd f_s2d f_tr f_det] in *. unfold mk_fan, obind.
  destruct (tsys2_some _ (0, 1) Hu e2_unit2) as [m' Em]. numR. rewrite Em.
  assert (Hnz : iszero2 (sdiv2 s2d (norm2 sqrt s2d)) = false).
  { unfold iszero2, eq2. destruct (sdiv2 s2d (norm2 sqrt s2d)) as [x y] eqn:Es. numR.
    destruct (Reqb_spec x 0) as [Hx|Hx]; destruct (Reqb_spec y 0) as [Hy|Hy]; try reflexivity.
    subst. unf. lra. }
  rewrite Hnz, (sqrt_1_div _ Hu).
  assert (Hdet : match (match d with Flat1 _ => None | Circ _ r => Some r end) with
                 | None => mk_flat1 sqrt ax | Some r => mk_circ sqrt ax r end = Some d).
  { destruct curv as [r|].
    - unfold mk_circ in Ed |- *. destruct (_ =? _)%num; [discriminate Ed|]. destruct (_ <=? _)%num eqn:Er; [discriminate Ed|].
      injection Ed as <-. rewrite Er. reflexivity.
    - unfold mk_flat1 in Ed |- *. destruct (_ =? _)%num; [discriminate Ed|]. injection Ed as <-. reflexivity. }
  rewrite Hdet, E1, E2, E3. reflexivity.
Qed.

(* ConeBeamGeometry.__getitem__ passes the normalised axis, the original src_to_det_init / det_axes_init, and
   (since fix 23e139e) the curvature radii as a 2-tuple again -- all detector types *)
Lemma cone_getitem_same (fixed : bool) (rs rd : R) (curv : curv3) (pitch off : R) (axis sd : V3) (axes : V3 * V3)
    (tr : V3) (g : cone) :
  mk_cone sqrt fixed rs rd curv pitch off axis (Some sd) (Some axes) tr = Some g -> cone_getitem sqrt fixed g = Some g.
Proof.
  intros Hg. unfold cone_getitem. unfold mk_cone, obind in Hg.
  destruct (tsys3 sqrt axis _) as [m|]; [|discriminate Hg]. destruct axes as [a0 a1]. cbv zeta in Hg. numR.
  destruct (Reqb (norm3 sqrt sd) 0) eqn:En; [discriminate Hg|].
  destruct (unit_axis sqrt axis) as [ua|] eqn:Eu; [|discriminate Hg].
  destruct (match curv with CFlat => _ | CCyl r => _ | CSph r => _ end) as [d|] eqn:Ed; [|discriminate Hg].
  destruct (Rltb rs 0) eqn:E1; [discriminate Hg|]. destruct (Rltb rd 0) eqn:E2; [discriminate Hg|].
  destruct (Reqb rs 0 && Reqb rd 0)%bool eqn:E3; [discriminate Hg|]. injection Hg as <-.
  cbn [c_rs c_rd c_s2d c_axis c_tr c_pitch c_off c_det c_s2d_arg c_axes_arg]. unfold mk_cone, obind.
  pose proof (unit_axis_some _ _ Eu) as Hu.
  destruct (tsys3_some ua (0, 0, 1) Hu e3_unit) as [m' Em]. numR. rewrite Em, En.
  unfold unit_axis. numR.
  destruct (Reqb_spec (norm3 sqrt ua) 0) as [H|H]; [rewrite (norm3_unit _ Hu) in H; lra|].
  rewrite (sqrt_1_div3 _ Hu).
  assert (Hdet : match (match d with Flat2 _ _ => CFlat | Cyl _ _ r _ => CCyl r | Sph _ _ r _ => CSph r end) with
                 | CFlat => mk_flat2 sqrt a0 a1 | CCyl r => mk_curved sqrt fixed false a0 a1 r
                 | CSph r => mk_curved sqrt fixed true a0 a1 r end = Some d).
  { destruct curv as [|r|r].
    - unfold mk_flat2 in Ed |- *. destruct (_ =? _)%num; [discriminate Ed|]. injection Ed as <-. reflexivity.
    - destruct (mk_curved_nonzero _ _ _ _ _ _ Ed) as [_ [_ [_ [mm [_ ->]]]]]. exact Ed.
    - destruct (mk_curved_nonzero _ _ _ _ _ _ Ed) as [_ [_ [_ [mm [_ ->]]]]]. exact Ed. }
  rewrite Hdet, E1, E2, E3. reflexivity.
Qed.


(* the default Parallel3dEulerGeometry *)
Definition par3d_default : @par3d R :=
  {| p3_pos := (0, 1, 0); p3_tr := (0, 0, 0); p3_det := Flat2 (1, 0, 0) (0, 0, 1) |}.

(* Parallel3dEulerGeometry.frommatrix with a rotation matrix m and translation t: the INITIAL configuration is
   t + m (default initial configuration), and the Euler rotation acts on it about the translation point *)
Lemma par3d_frommatrix_spec (m : M3) (tr : V3) (g : par3d) (ph th ps : R * R) (p : dpar3) :
  is_rot3 m -> par3d_frommatrix sqrt m tr = Some g ->
  par3d_detpoint g ph th ps p =
    add3 tr (mv3 (euler3 ph th ps) (mv3 m (par3d_detpoint par3d_default (1, 0) (1, 0) (1, 0) p))) /\
  p3_tr g = tr.
Proof.
  intros Hm Hg. unfold par3d_frommatrix, mk_par3d, obind in Hg.
  destruct (tsys3 sqrt _ _) as [m0|]; [|discriminate Hg].
  assert (E1 : dot3 (1, 0, 0) (1, 0, 0) = 1) by (unf; ring).
  assert (E3 : dot3 (0, 0, 1) (0, 0, 1) = 1) by (unf; ring).
  pose proof (rot3_unit m _ Hm E1) as U1. pose proof (rot3_unit m _ Hm E3) as U3.
  unfold mk_flat2 in Hg. numR.
  destruct (Reqb (norm3 sqrt (cross3 (mv3 m (1, 0, 0)) (mv3 m (0, 0, 1)))) 0); [discriminate Hg|].
  rewrite !(sqrt_1_div3 _ U1), !(sqrt_1_div3 _ U3) in Hg. injection Hg as <-.
  split; [|reflexivity].
  rewrite !par3d_rigid. cbn [p3_pos p3_tr p3_det par3d_default].
  destruct p as [[[u v] [cu su]] [cv sv]]. cbn [surf3].
  assert (Ei : euler3 (1, 0) (1, 0) (1, 0) = id3) by (unf; pair_eq; ring).
  rewrite Ei, mv3_id.
  assert (Z : forall w : V3, add3 (0, 0, 0) w = w) by (intros [[w0 w1] w2]; unf; pair_eq; ring).
  rewrite Z. f_equal. f_equal.
  rewrite !(mv3_add m), !(mv3_scal m), (mv3_sub m).
  assert (Hz : mv3 m (0, 0, 0) = (0, 0, 0)) by (destruct m as [[[[a1 a2] a3] [[a4 a5] a6]] [[a7 a8] a9]]; unf; pair_eq; ring).
  rewrite Hz.
  destruct (mv3 m (0, 1, 0)) as [[x0 x1] x2], (mv3 m (1, 0, 0)) as [[y0 y1] y2], (mv3 m (0, 0, 1)) as [[z0 z1] z2].
  d3 tr. unf. pair_eq; ring.
Qed.

(* ---- helical_geometry: offset_along_axis = min_z, pitch = (max_z - min_z) / num_turns: the source runs from
   the bottom to the top of the volume over the angle range [0, 2 pi num_turns] ---- *)
Lemma helical_span (g : cone) (zmin zmax turns twopi : R) :
  turns <> 0 -> twopi <> 0 ->
  c_off g = fst (helical_params zmin zmax turns) -> c_pitch g = snd (helical_params zmin zmax turns) ->
  cone_along g 0 twopi 0 = zmin /\ cone_along g (twopi * turns) twopi 0 = zmax.
Proof.
  intros Ht Hp Ho Hpi. unfold cone_along, helical_params in *. cbn [fst snd] in *. numR. rewrite Ho, Hpi.
  split; field; try split; assumption.
Qed.

(* ---- cone_beam_geometry (3-d): detector half height  sin(arctan t) (rs + rd),  t = |z| / (rs - rho).
   sin(arctan t) = t / sqrt(1 + t^2); full coverage needs tan(arctan t) = t.  Before the pixel round-up the
   chosen height is strictly too small for every t > 0 (recorded finding cone-beam-geometry-vertical-coverage) *)
Lemma cone_vertical_refuted (t rs rd : R) : 0 < t -> 0 < rs + rd ->
  cone_factory_halfheight sqrt t rs rd < t * (rs + rd).
Proof.
  intros Ht Hr. unfold cone_factory_halfheight. numR.
  assert (H1 : 1 < sqrt (1 + t * t)).
  { rewrite <- sqrt_1 at 1. apply sqrt_lt_1; nra. }
  assert (Hq : t / sqrt (1 + t * t) < t).
  { apply Rmult_lt_reg_r with (sqrt (1 + t * t)); [lra|]. unfold Rdiv. rewrite Rmult_assoc, Rinv_l by lra. nra. }
  nra.
Qed.


(* sin(arctan(zm / d)) = zm / sqrt(d^2 + zm^2) *)
Lemma halfheight_closed (zm d rs rd : R) : 0 < d ->
  cone_factory_halfheight sqrt (zm / d) rs rd = zm / sqrt (d * d + zm * zm) * (rs + rd).
Proof.
  intros Hd. unfold cone_factory_halfheight. numR. f_equal.
  assert (Hpos : 0 < d * d + zm * zm) by nra.
  assert (E : 1 + zm / d * (zm / d) = (d * d + zm * zm) / (d * d)) by (field; lra).
  rewrite E, sqrt_div_alt by nra. rewrite sqrt_square by lra.
  assert (Hs : 0 < sqrt (d * d + zm * zm)) by (apply sqrt_lt_R0; exact Hpos).
  field. split; lra.
Qed.

(* cone_beam_geometry, 3-d: what the chosen detector height does cover: every point whose distance from the source along
   the central ray is at least sqrt((rs - rho)^2 + zm^2) projects inside vertically (v = (rs + rd) z / (rs + xn)) *)
Lemma cone_vertical_partial (zm d z xn rs rd : R) :
  0 < d -> Rabs z <= zm -> sqrt (d * d + zm * zm) <= rs + xn -> 0 <= rs + rd ->
  Rabs ((rs + rd) * z / (rs + xn)) <= cone_factory_halfheight sqrt (zm / d) rs rd.
Proof.
  intros Hd Hz Hx Hr. rewrite (halfheight_closed zm d rs rd Hd).
  assert (Hzm : 0 <= zm) by (pose proof (Rabs_pos z); lra).
  assert (Hpos : 0 < d * d + zm * zm) by nra.
  assert (Hs : 0 < sqrt (d * d + zm * zm)) by (apply sqrt_lt_R0; exact Hpos).
  set (L := sqrt (d * d + zm * zm)) in *. assert (Hp : 0 < rs + xn) by lra.
  unfold Rdiv. rewrite !Rabs_mult, (Rabs_pos_eq (rs + rd)) by lra. rewrite (Rabs_pos_eq (/ (rs + xn))) by (left; apply Rinv_0_lt_compat; lra).
  assert (H1 : Rabs z * / (rs + xn) <= zm * / L).
  { apply Rle_trans with (zm * / (rs + xn)).
    - apply Rmult_le_compat_r; [left; apply Rinv_0_lt_compat; lra | exact Hz].
    - apply Rmult_le_compat_l; [exact Hzm|]. apply Rinv_le_contravar; lra. }
  nra.
Qed.

(* ============ the hand-written model uses the formulas REGENERATED from the source ============ *)
(* Gen/GeometryFormulas.v is re-emitted from odl/tomo/util/utility.py and odl/tomo/geometry/detector.py on every
   run; a changed entry of a matrix literal or of a surface formula breaks these proofs. *)
Lemma model_is_generated_rotations :
  (forall c s : R, euler2 (c, s) = gen_euler2 c s) /\
  (forall c1 s1 c2 s2 c3 s3 : R, euler3 (c1, s1) (c2, s2) (c3, s3) = gen_euler3 c1 s1 c2 s2 c3 s3) /\
  (forall x y z c s : R, axis_rot (x, y, z) (c, s) = gen_axis_rot x y z c s).
Proof.
  repeat split; intros; unfold gen_euler2, gen_euler3, gen_axis_rot; unf; pair_eq; ring.
Qed.
Lemma generated_rotations_are_rotations :
  (forall c s : R, c * c + s * s = 1 -> is_rot2 (gen_euler2 c s)) /\
  (forall c1 s1 c2 s2 c3 s3 : R, c1 * c1 + s1 * s1 = 1 -> c2 * c2 + s2 * s2 = 1 -> c3 * c3 + s3 * s3 = 1 ->
     is_rot3 (gen_euler3 c1 s1 c2 s2 c3 s3)) /\
  (forall x y z c s : R, x * x + y * y + z * z = 1 -> c * c + s * s = 1 -> is_rot3 (gen_axis_rot x y z c s)).
Proof.
  destruct model_is_generated_rotations as [E2 [E3 EA]]. repeat split; intros.
  - rewrite <- E2. apply (proj1 (euler2_rot (c, s) H)).
  - rewrite <- E2. apply (proj2 (euler2_rot (c, s) H)).
  - rewrite <- E3. apply (proj1 (euler3_rot (c1, s1) (c2, s2) (c3, s3) H H0 H1)).
  - rewrite <- E3. apply (proj2 (euler3_rot (c1, s1) (c2, s2) (c3, s3) H H0 H1)).
  - rewrite <- EA. apply (proj1 (axis_rot_rot (x, y, z) (c, s) H H0)).
  - rewrite <- EA. apply (proj2 (axis_rot_rot (x, y, z) (c, s) H H0)).
Qed.
Lemma model_is_generated_surfaces :
  (forall (ax : V2) (r u cu su : R),
     surf2 (Circ ax r) (u, (cu, su)) = add2 (mv2 (circ_rot ax) (gen_circ_surf cu su r)) (circ_transl ax r) /\
     deriv2 (Circ ax r) (u, (cu, su)) = mv2 (circ_rot ax) (gen_circ_deriv cu su r)) /\
  (forall (a0 a1 : V3) (r : R) (m : M3) (u v cu su cv sv : R),
     surf3 (Cyl a0 a1 r m) (u, v, (cu, su), (cv, sv)) = add3 (mv3 m (gen_cyl_surf cu su v r)) (curved_transl r m) /\
     deriv3 (Cyl a0 a1 r m) (u, v, (cu, su), (cv, sv)) = (mv3 m (gen_cyl_dphi cu su r), mv3 m (0, 0, 1))) /\
  (forall (a0 a1 : V3) (r : R) (m : M3) (u v cu su cv sv : R),
     surf3 (Sph a0 a1 r m) (u, v, (cu, su), (cv, sv)) = add3 (mv3 m (gen_sph_surf cu su cv sv r)) (curved_transl r m) /\
     deriv3 (Sph a0 a1 r m) (u, v, (cu, su), (cv, sv)) =
       (mv3 m (gen_sph_dphi cu su cv sv r), mv3 m (gen_sph_dtheta cu su cv sv r))).
Proof.
  repeat split; intros; unfold surf2, deriv2, surf3, deriv3, gen_circ_surf, gen_circ_deriv, gen_cyl_surf, gen_cyl_dphi,
    gen_sph_surf, gen_sph_dphi, gen_sph_dtheta; repeat f_equal; unf; pair_eq; ring.
Qed.

(* ---- statements assembled for Props.v ---- *)
Lemma axis_rotation_is_rotation_l : forall (ax : R * R * R) (a : R * R),
  dot3 ax ax = 1 -> on_circle a ->
  (mm3 (tr3 (axis_rot ax a)) (axis_rot ax a) = id3 /\ det3 (axis_rot ax a) = 1) /\
  mv3 (axis_rot ax a) ax = ax.
Proof. intros ax a Hu Ha. split; [exact (axis_rot_rot ax a Hu Ha) | exact (axis_rot_fixes_axis ax a Hu)]. Qed.

Lemma rotation_preserves_inner_products_l :
  (forall (m : (R * R) * (R * R)) v w, mm2 (tr2 m) m = id2 -> dot2 (mv2 m v) (mv2 m w) = dot2 v w) /\
  (forall (m : (R * R * R) * (R * R * R) * (R * R * R)) v w,
     mm3 (tr3 m) m = id3 -> dot3 (mv3 m v) (mv3 m w) = dot3 v w).
Proof. split; [exact rot2_isometry | exact rot3_isometry]. Qed.

Lemma parallel2d_rigid_motion_l : forall (g : par2d) (a : R * R) (p q : dpar2),
  par2d_detpoint g a p = add2 (par2d_refpoint g a) (mv2 (par2d_rot g a) (surf2 (p2_det g) p)) /\
  par2d_detpoint g a p =
    add2 (p2_tr g) (mv2 (euler2 a) (add2 (sub2 (p2_pos g) (p2_tr g)) (surf2 (p2_det g) p))) /\
  (on_circle a ->
   dot2 (sub2 (par2d_detpoint g a p) (par2d_detpoint g a q)) (sub2 (par2d_detpoint g a p) (par2d_detpoint g a q))
   = dot2 (sub2 (surf2 (p2_det g) p) (surf2 (p2_det g) q)) (sub2 (surf2 (p2_det g) p) (surf2 (p2_det g) q))).
Proof.
  intros g a p q. split; [reflexivity|]. split; [exact (par2d_rigid g a p)|]. exact (par2d_distance g a p q).
Qed.

Lemma parallel3d_axis_rigid_motion_l : forall (g : par3a) (a : R * R) (p q : dpar3),
  par3a_detpoint g a p = add3 (par3a_refpoint g a) (mv3 (par3a_rot g a) (surf3 (pa_det g) p)) /\
  par3a_detpoint g a p =
    add3 (pa_tr g) (mv3 (axis_rot (pa_axis g) a) (add3 (sub3 (pa_pos g) (pa_tr g)) (surf3 (pa_det g) p))) /\
  (dot3 (pa_axis g) (pa_axis g) = 1 -> on_circle a ->
   dot3 (sub3 (par3a_detpoint g a p) (par3a_detpoint g a q)) (sub3 (par3a_detpoint g a p) (par3a_detpoint g a q))
   = dot3 (sub3 (surf3 (pa_det g) p) (surf3 (pa_det g) q)) (sub3 (surf3 (pa_det g) p) (surf3 (pa_det g) q))).
Proof.
  intros g a p q. split; [reflexivity|]. split; [exact (par3a_rigid g a p)|]. exact (par3a_distance g a p q).
Qed.

Lemma parallel3d_euler_rigid_motion_l : forall (g : par3d) (ph th ps : R * R) (p q : dpar3),
  par3d_detpoint g ph th ps p =
    add3 (par3d_refpoint g ph th ps) (mv3 (par3d_rot g ph th ps) (surf3 (p3_det g) p)) /\
  par3d_detpoint g ph th ps p =
    add3 (p3_tr g) (mv3 (euler3 ph th ps) (add3 (sub3 (p3_pos g) (p3_tr g)) (surf3 (p3_det g) p))) /\
  (on_circle ph -> on_circle th -> on_circle ps ->
   dot3 (sub3 (par3d_detpoint g ph th ps p) (par3d_detpoint g ph th ps q))
        (sub3 (par3d_detpoint g ph th ps p) (par3d_detpoint g ph th ps q))
   = dot3 (sub3 (surf3 (p3_det g) p) (surf3 (p3_det g) q)) (sub3 (surf3 (p3_det g) p) (surf3 (p3_det g) q))).
Proof.
  intros g ph th ps p q. split; [reflexivity|]. split; [exact (par3d_rigid g ph th ps p)|].
  exact (par3d_distance g ph th ps p q).
Qed.

Lemma fanbeam_rigid_motion_l : forall (g : fan) (a : R * R) (ssh dsh : R * R) (p : dpar2),
  fan_detpoint g a dsh p = add2 (fan_refpoint g a dsh) (mv2 (fan_rot g a) (surf2 (f_det g) p)) /\
  fan_detpoint g a dsh p = add2 (f_tr g) (mv2 (euler2 a) (sub2 (fan_detpoint g (1, 0) dsh p) (f_tr g))) /\
  fan_src g a ssh = add2 (f_tr g) (mv2 (euler2 a) (sub2 (fan_src g (1, 0) ssh) (f_tr g))).
Proof.
  intros g a ssh dsh p. split; [reflexivity|]. split; [exact (fan_rigid g a dsh p) | exact (fan_src_rigid g a ssh)].
Qed.

Lemma conebeam_rigid_motion_l : forall (g : cone) (a : R * R) (ang twopi : R) (dsh : R * R * R) (p : dpar3),
  cone_detpoint sqrt g a ang twopi dsh p =
    add3 (cone_refpoint sqrt g a ang twopi dsh) (mv3 (cone_rot g a) (surf3 (c_det g) p)) /\
  cone_detpoint sqrt g a ang twopi dsh p =
    add3 (add3 (c_tr g) (scal3 (cone_along g ang twopi (snd dsh)) (c_axis g)))
         (mv3 (axis_rot (c_axis g) a)
              (sub3 (cone_detpoint sqrt g (1, 0) ang twopi dsh p)
                    (add3 (c_tr g) (scal3 (cone_along g ang twopi (snd dsh)) (c_axis g))))).
Proof. intros g a ang twopi dsh p. split; [reflexivity | exact (cone_rigid g a ang twopi dsh p)]. Qed.

Lemma fanbeam_det_to_src_l : forall (g : fan) (a : R * R) (ssh dsh : R * R) (p : dpar2),
  add2 (fan_detpoint g a dsh p) (fan_det_to_src sqrt g a ssh dsh p false) = fan_src g a ssh /\
  (fan_src g a ssh <> fan_detpoint g a dsh p ->
   let n := fan_det_to_src sqrt g a ssh dsh p true in
   let v := fan_det_to_src sqrt g a ssh dsh p false in
   dot2 n n = 1 /\ scal2 (norm2 sqrt v) n = v /\
   add2 (fan_detpoint g a dsh p) (scal2 (norm2 sqrt v) n) = fan_src g a ssh).
Proof.
  intros g a ssh dsh p. split; [exact (fan_det_to_src_consistent g a ssh dsh p)|].
  exact (fan_det_to_src_normalized g a ssh dsh p).
Qed.

Lemma conebeam_det_to_src_l : forall (g : cone) (a : R * R) (ang twopi : R) (ssh dsh : R * R * R) (p : dpar3),
  add3 (cone_detpoint sqrt g a ang twopi dsh p) (cone_det_to_src sqrt g a ang twopi ssh dsh p false)
    = cone_src sqrt g a ang twopi ssh /\
  (cone_src sqrt g a ang twopi ssh <> cone_detpoint sqrt g a ang twopi dsh p ->
   let n := cone_det_to_src sqrt g a ang twopi ssh dsh p true in
   let v := cone_det_to_src sqrt g a ang twopi ssh dsh p false in
   dot3 n n = 1 /\ scal3 (norm3 sqrt v) n = v /\
   add3 (cone_detpoint sqrt g a ang twopi dsh p) (scal3 (norm3 sqrt v) n) = cone_src sqrt g a ang twopi ssh).
Proof.
  intros g a ang twopi ssh dsh p. split; [exact (cone_det_to_src_consistent g a ang twopi ssh dsh p)|].
  exact (cone_det_to_src_normalized g a ang twopi ssh dsh p).
Qed.

Lemma detector_normals_l :
  (forall (d : det2d) (p : dpar2), deriv2 d p <> (0, 0) ->
     dot2 (normal2 sqrt d p) (deriv2 d p) = 0 /\ dot2 (normal2 sqrt d p) (normal2 sqrt d p) = 1) /\
  (forall (d : det3d) (p : dpar3), cross3 (fst (deriv3 d p)) (snd (deriv3 d p)) <> (0, 0, 0) ->
     dot3 (normal3 sqrt d p) (fst (deriv3 d p)) = 0 /\ dot3 (normal3 sqrt d p) (snd (deriv3 d p)) = 0 /\
     dot3 (normal3 sqrt d p) (normal3 sqrt d p) = 1).
Proof. split; [exact normal2_spec | exact normal3_spec]. Qed.

Lemma detector_constructors_wellformed_l :
  (forall axis d, mk_flat1 sqrt axis = Some d -> wf_det2 d) /\
  (forall axis r d, mk_circ sqrt axis r = Some d -> wf_det2 d) /\
  (forall a0 a1 d, mk_flat2 sqrt a0 a1 = Some d -> wf_det3 d).
Proof. repeat split; [exact mk_flat1_wf | exact mk_circ_wf | exact mk_flat2_wf]. Qed.

Lemma from_to_is_rotation_l :
  (forall fv tv m, from_to2 sqrt fv tv = Some m -> mm2 (tr2 m) m = id2 /\ det2 m = 1) /\
  (forall fv tv m, from_to3 sqrt fv tv = Some m -> mm3 (tr3 m) m = id3 /\ det3 m = 1) /\
  (forall pv pd m, tsys2 sqrt pv pd = Some m -> mm2 (tr2 m) m = id2 /\ det2 m = 1) /\
  (forall pv pd m, tsys3 sqrt pv pd = Some m -> mm3 (tr3 m) m = id3 /\ det3 m = 1).
Proof.
  split; [exact from_to2_rot|]. split; [exact from_to3_rot|]. split; [exact tsys2_rot | exact tsys3_rot].
Qed.

Lemma constructed_wf_l :
  (forall pos ax tr g, mk_par2d sqrt pos ax tr = Some g ->
     wf_det2 (p2_det g) /\ exists a, p2_det g = Flat1 a) /\
  (forall pos axes tr g, mk_par3d sqrt pos axes tr = Some g ->
     wf_det3' (p3_det g) /\ p3_tr g = tr /\ p3_pos g = add3 pos tr) /\
  (forall axis pos axes tr g, mk_par3a sqrt axis pos axes tr = Some g ->
     dot3 (pa_axis g) (pa_axis g) = 1 /\ wf_det3' (pa_det g) /\ pa_tr g = tr) /\
  (forall rs rd curv s2d axis tr g, mk_fan sqrt rs rd curv s2d axis tr = Some g ->
     dot2 (f_s2d g) (f_s2d g) = 1 /\ wf_det2 (f_det g) /\ 0 <= f_rs g /\ 0 <= f_rd g /\
     ~ (f_rs g = 0 /\ f_rd g = 0) /\ f_tr g = tr) /\
  (forall rs rd curv pitch off axis s2d axes tr g,
     mk_cone sqrt false rs rd curv pitch off axis s2d axes tr = Some g ->
     dot3 (c_axis g) (c_axis g) = 1 /\ dot3 (c_s2d g) (c_s2d g) = 1 /\ wf_det3' (c_det g) /\
     0 <= c_rs g /\ 0 <= c_rd g /\ ~ (c_rs g = 0 /\ c_rd g = 0) /\
     c_tr g = tr /\ c_pitch g = pitch /\ c_off g = off).
Proof.
  split; [exact mk_par2d_wf|]. split; [exact mk_par3d_wf|]. split; [exact mk_par3a_wf|].
  split; [exact mk_fan_wf | exact mk_cone_wf].
Qed.
