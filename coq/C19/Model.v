(* C19/Model.v -- acquisition geometries of odl.tomo (executable definitions only).

   Carrier: any [Num T]; executed at Q, proved at R.  Angles enter as pairs
   (cos a, sin a); the value of the angle itself is a separate argument where
   the code uses it (helical pitch).  Square roots are the function [rt]
   (sqrt at R, exact rational root of perfect squares at Q).

   Transcribed from
     odl/tomo/util/utility.py    euler_matrix, axis_rotation_matrix, perpendicular_vector,
                                 rotation_matrix_from_to, transform_system
     odl/tomo/geometry/detector.py  Flat1d/Flat2d/Circular/Cylindrical/SphericalDetector
     odl/tomo/geometry/geometry.py  Geometry.det_point_position, DivergentBeamGeometry.det_to_src,
                                    AxisOrientedGeometry
     odl/tomo/geometry/parallel.py  ParallelBeamGeometry, Parallel2d/3dEuler/3dAxis (+frommatrix, __getitem__)
     odl/tomo/geometry/conebeam.py  FanBeamGeometry, ConeBeamGeometry (+frommatrix, __getitem__)
   Vectors are tuples, matrices tuples of rows. *)
From Coq Require Import ZArith QArith List Bool.
From Verif Require Import Base.Num.
Import ListNotations.
Local Open Scope num_scope.

Section Model.
Context {T : Type} `{Num T}.
Variable rt : T -> T.

Notation V2 := (T * T)%type.
Notation V3 := (T * T * T)%type.
Notation M2 := ((T * T) * (T * T))%type.
Notation M3 := ((T * T * T) * (T * T * T) * (T * T * T))%type.
Notation "0" := nzero : num_scope.
Notation "1" := none_ : num_scope.

(* ------------------------------------------------------------ 2-d algebra *)
Definition add2 (a b : V2) : V2 := let '(a0, a1) := a in let '(b0, b1) := b in (a0 + b0, a1 + b1).
Definition sub2 (a b : V2) : V2 := let '(a0, a1) := a in let '(b0, b1) := b in (a0 - b0, a1 - b1).
Definition scal2 (k : T) (a : V2) : V2 := let '(a0, a1) := a in (k * a0, k * a1).
Definition sdiv2 (a : V2) (k : T) : V2 := let '(a0, a1) := a in (a0 / k, a1 / k).
Definition neg2 (a : V2) : V2 := let '(a0, a1) := a in (- a0, - a1).
Definition dot2 (a b : V2) : T := let '(a0, a1) := a in let '(b0, b1) := b in a0 * b0 + a1 * b1.
Definition norm2 (a : V2) : T := rt (dot2 a a).
Definition mv2 (m : M2) (v : V2) : V2 := let '(r0, r1) := m in (dot2 r0 v, dot2 r1 v).
Definition id2 : M2 := ((1, 0), (0, 1)).
Definition tr2 (m : M2) : M2 := let '((a, b), (c, d)) := m in ((a, c), (b, d)).
Definition mm2 (m n : M2) : M2 :=
  let '(c0, c1) := tr2 n in let '(r0, r1) := m in
  ((dot2 r0 c0, dot2 r0 c1), (dot2 r1 c0, dot2 r1 c1)).
Definition det2 (m : M2) : T := let '((a, b), (c, d)) := m in a * d - b * c.
Definition eq2 (a b : V2) : bool := let '(a0, a1) := a in let '(b0, b1) := b in (a0 =? b0) && (a1 =? b1).
Definition iszero2 (a : V2) : bool := eq2 a (0, 0).

(* ------------------------------------------------------------ 3-d algebra *)
Definition add3 (a b : V3) : V3 :=
  let '(a0, a1, a2) := a in let '(b0, b1, b2) := b in (a0 + b0, a1 + b1, a2 + b2).
Definition sub3 (a b : V3) : V3 :=
  let '(a0, a1, a2) := a in let '(b0, b1, b2) := b in (a0 - b0, a1 - b1, a2 - b2).
Definition scal3 (k : T) (a : V3) : V3 := let '(a0, a1, a2) := a in (k * a0, k * a1, k * a2).
Definition sdiv3 (a : V3) (k : T) : V3 := let '(a0, a1, a2) := a in (a0 / k, a1 / k, a2 / k).
Definition neg3 (a : V3) : V3 := let '(a0, a1, a2) := a in (- a0, - a1, - a2).
Definition dot3 (a b : V3) : T :=
  let '(a0, a1, a2) := a in let '(b0, b1, b2) := b in a0 * b0 + a1 * b1 + a2 * b2.
Definition cross3 (a b : V3) : V3 :=
  let '(a0, a1, a2) := a in let '(b0, b1, b2) := b in
  (a1 * b2 - a2 * b1, a2 * b0 - a0 * b2, a0 * b1 - a1 * b0).
Definition norm3 (a : V3) : T := rt (dot3 a a).
Definition mv3 (m : M3) (v : V3) : V3 := let '(r0, r1, r2) := m in (dot3 r0 v, dot3 r1 v, dot3 r2 v).
Definition id3 : M3 := ((1, 0, 0), (0, 1, 0), (0, 0, 1)).
Definition tr3 (m : M3) : M3 :=
  let '((a, b, c), (d, e, f), (g, h, i)) := m in ((a, d, g), (b, e, h), (c, f, i)).
Definition mm3 (m n : M3) : M3 :=
  let '(c0, c1, c2) := tr3 n in let '(r0, r1, r2) := m in
  ((dot3 r0 c0, dot3 r0 c1, dot3 r0 c2),
   (dot3 r1 c0, dot3 r1 c1, dot3 r1 c2),
   (dot3 r2 c0, dot3 r2 c1, dot3 r2 c2)).
Definition det3 (m : M3) : T := let '(r0, r1, r2) := m in dot3 r0 (cross3 r1 r2).
Definition eq3 (a b : V3) : bool :=
  let '(a0, a1, a2) := a in let '(b0, b1, b2) := b in (a0 =? b0) && (a1 =? b1) && (a2 =? b2).
Definition iszero3 (a : V3) : bool := eq3 a (0, 0, 0).

(* np.sign *)
Definition sgn (x : T) : T := if 0 <? x then 1 else if x <? 0 then - (1) else 0.
(* np.allclose(a, b): |a - b| <= atol + rtol * |b| entrywise, atol = 1e-8, rtol = 1e-5 *)
Definition close1 (a b : T) : bool :=
  nabs (a - b) <=? of_Q (1 # 100000000) + of_Q (1 # 100000) * nabs b.
Definition allclose2 (a b : V2) : bool :=
  let '(a0, a1) := a in let '(b0, b1) := b in close1 a0 b0 && close1 a1 b1.
Definition allclose3 (a b : V3) : bool :=
  let '(a0, a1, a2) := a in let '(b0, b1, b2) := b in close1 a0 b0 && close1 a1 b1 && close1 a2 b2.
Definition tiny : T := of_Q (1 # 10000000000).     (* 1e-10 *)

(* ------------------------------------------------------- rotation matrices *)
(* euler_matrix(phi): an angle is the pair (cos, sin) *)
Definition euler2 (a : T * T) : M2 := let '(c, s) := a in ((c, - s), (s, c)).
(* euler_matrix(phi, theta, psi), ZXZ; the code's "+ 0 * cph" broadcasting terms are dropped *)
Definition euler3 (phi theta psi : T * T) : M3 :=
  let '(cph, sph) := phi in let '(cth, sth) := theta in let '(cps, sps) := psi in
  ((cph * cps - sph * cth * sps, - cph * sps - sph * cth * cps, sph * sth),
   (sph * cps + cph * cth * sps, - sph * sps + cph * cth * cps, - cph * sth),
   (sth * sps, sth * cps, cth)).
(* axis_rotation_matrix(axis, angle) = cos*I + (1 - cos)*axis axis^T + sin*[axis]_x  (axis NOT normalised here) *)
Definition axis_rot (ax : V3) (a : T * T) : M3 :=
  let '(x, y, z) := ax in let '(c, s) := a in
  let k := 1 - c in
  ((c + k * (x * x), k * (x * y) + s * (- z), k * (x * z) + s * y),
   (k * (y * x) + s * z, c + k * (y * y), k * (y * z) + s * (- x)),
   (k * (z * x) + s * (- y), k * (z * y) + s * x, c + k * (z * z))).

(* perpendicular_vector for a single nonzero vector *)
Definition perp2 (v : V2) : V2 :=
  let '(v0, v1) := v in
  let r : V2 := if negb (v0 =? 0) || negb (v1 =? 0) then (- v1, v0) else (1, 0) in
  sdiv2 r (norm2 r).
Definition perp3 (v : V3) : V3 :=
  let '(v0, v1, v2) := v in
  let r : V3 := if negb (v0 =? 0) || negb (v1 =? 0) then (- v1, v0, 0) else (1, 0, 0) in
  sdiv3 r (norm3 r).

(* the (cos, sin) of  sign(sg) * arccos(c) *)
Definition signed_acos (sg c : T) : T * T :=
  if sgn sg =? 0 then (1, 0) else (c, sgn sg * rt (1 - c * c)).

(* rotation_matrix_from_to; None = ValueError (a vector shorter than 1e-10) *)
Definition from_to2 (fv tv : V2) : option M2 :=
  let nf := norm2 fv in let nt := norm2 tv in
  if (nf <? tiny) || (nt <? tiny) then None else
  let f := sdiv2 fv nf in let t := sdiv2 tv nt in
  let d := dot2 f t in
  let frot : V2 := let '(f0, f1) := f in (- f1, f0) in
  let a : T * T :=
    if d =? 0 then (if 0 <? dot2 frot t then (0, 1) else (0, - (1)))
    else if eq2 t (neg2 f) then (- (1), 0)
    else signed_acos (dot2 frot t) d in
  Some (euler2 a).
Definition from_to3 (fv tv : V3) : option M3 :=
  let nf := norm3 fv in let nt := norm3 tv in
  if (nf <? tiny) || (nt <? tiny) then None else
  let f := sdiv3 fv nf in let t := sdiv3 tv nt in
  let n := cross3 f t in
  let nn := norm3 n in
  if nn <? tiny then
    Some (axis_rot (perp3 f) (if 0 <? dot3 f t then (1, 0) else (- (1), 0)))
  else
    let n' := sdiv3 n nn in
    let binormal := cross3 n' f in
    Some (axis_rot n' (signed_acos (dot3 binormal t) (dot3 f t))).

(* transform_system(principal_vec, principal_default, other_vecs, matrix=None):
   returns the matrix used; the transformed principal vector is principal_vec itself. *)
Definition tsys2 (pv pd : V2) : option M2 :=
  let npv := norm2 pv in let npd := norm2 pd in
  if (npd =? 0) && negb (npv =? 0) then None
  else if (npv =? 0) && negb (npd =? 0) then None
  else
    let dil := if (npv =? 0) && (npd =? 0) then 1 else npv / npd in
    if allclose2 pv (scal2 dil pd) then Some id2 else from_to2 pd pv.
Definition tsys3 (pv pd : V3) : option M3 :=
  let npv := norm3 pv in let npd := norm3 pd in
  if (npd =? 0) && negb (npv =? 0) then None
  else if (npv =? 0) && negb (npd =? 0) then None
  else
    let dil := if (npv =? 0) && (npd =? 0) then 1 else npv / npd in
    if allclose3 pv (scal3 dil pd) then Some id3 else from_to3 pd pv.

(* -------------------------------------------------------------- detectors *)
(* 2-d space.  A detector parameter is (u, (cos u, sin u)). *)
Inductive det2d :=
| Flat1 (ax : V2)                 (* normalised axis *)
| Circ (ax : V2) (r : T).         (* normalised axis, curvature radius *)
Definition dpar2 := (T * (T * T))%type.

Definition mk_flat1 (axis : V2) : option det2d :=
  if norm2 axis =? 0 then None else Some (Flat1 (sdiv2 axis (norm2 axis))).
Definition mk_circ (axis : V2) (r : T) : option det2d :=
  if norm2 axis =? 0 then None else if r <=? 0 then None
  else Some (Circ (sdiv2 axis (norm2 axis)) r).
Definition det2_axis (d : det2d) : V2 := match d with Flat1 ax => ax | Circ ax _ => ax end.
(* CircularDetector: sin = axis[0], cos = -axis[1] *)
Definition circ_rot (ax : V2) : M2 := let '(a0, a1) := ax in ((- a1, - a0), (a0, - a1)).
Definition circ_transl (ax : V2) (r : T) : V2 := scal2 (- r) (mv2 (circ_rot ax) (1, 0)).
Definition surf2 (d : det2d) (p : dpar2) : V2 :=
  let '(u, (cu, su)) := p in
  match d with
  | Flat1 ax => scal2 u ax
  | Circ ax r => add2 (mv2 (circ_rot ax) (scal2 r (cu, - su))) (circ_transl ax r)
  end.
Definition deriv2 (d : det2d) (p : dpar2) : V2 :=
  let '(u, (cu, su)) := p in
  match d with
  | Flat1 ax => ax
  | Circ ax r => mv2 (circ_rot ax) (scal2 r (- su, - cu))
  end.
(* Detector.surface_normal, ndim 1: -perpendicular_vector(deriv) *)
Definition normal2 (d : det2d) (p : dpar2) : V2 := neg2 (perp2 (deriv2 d p)).
Definition measure2 (d : det2d) (p : dpar2) : T :=
  match d with Flat1 _ => norm2 (deriv2 d p) | Circ _ r => r end.

(* 3-d space.  A detector parameter is (u, v, (cos u, sin u), (cos v, sin v)). *)
Inductive det3d :=
| Flat2 (a0 a1 : V3)                           (* normalised axes *)
| Cyl (a0 a1 : V3) (r : T) (rot : M3)          (* + rotation matrix computed by the constructor *)
| Sph (a0 a1 : V3) (r : T) (rot : M3).
Definition dpar3 := (T * T * (T * T) * (T * T))%type.

Definition mk_flat2 (a0 a1 : V3) : option det3d :=
  if norm3 (cross3 a0 a1) =? 0 then None
  else Some (Flat2 (sdiv3 a0 (norm3 a0)) (sdiv3 a1 (norm3 a1))).
(* Cylindrical/SphericalDetector.__init__: r1 = from_to((0,-1,0), a0); r2 = from_to(r1 (0,0,1), a1) *)
Definition curved_rot (a0 a1 : V3) : option M3 :=
  match from_to3 (0, - (1), 0) a0 with
  | None => None
  | Some r1 => match from_to3 (mv3 r1 (0, 0, 1)) a1 with
               | None => None
               | Some r2 => Some (mm3 r2 r1)
               end
  end.
(* alignment since fix 5d26109 (r1 as before, r2 = rotation about axes[0] taking r1 e_z to axes[1]), in closed form:
   for perpendicular axes r2 r1 is the matrix whose columns are the images of the native frame,
   -e_y -> axes[0], e_z -> axes[1], e_x -> -(axes[0] x axes[1]) *)
Definition curved_frame (a0 a1 : V3) : M3 :=
  let b0 := sdiv3 a0 (norm3 a0) in let b1 := sdiv3 a1 (norm3 a1) in
  tr3 (neg3 (cross3 b0 b1), neg3 b0, b1).
(* [fixed = false]: the alignment before 5d26109 (two successive rotation_matrix_from_to); [fixed = true]: the
   current one.  The harness measures which one /repo shows. *)
Definition mk_curved (fixed sph : bool) (a0 a1 : V3) (r : T) : option det3d :=
  if norm3 (cross3 a0 a1) =? 0 then None
  else if tiny * norm3 a0 * norm3 a1 <? nabs (dot3 a0 a1) then None     (* axes not perpendicular (rel. 1e-10) *)
  else if r <=? 0 then None
  else match (if fixed then Some (curved_frame a0 a1) else curved_rot a0 a1) with
       | None => None
       | Some m => let b0 := sdiv3 a0 (norm3 a0) in let b1 := sdiv3 a1 (norm3 a1) in
                   Some (if sph then Sph b0 b1 r m else Cyl b0 b1 r m)
       end.
Definition det3_axes (d : det3d) : V3 * V3 :=
  match d with Flat2 a0 a1 => (a0, a1) | Cyl a0 a1 _ _ => (a0, a1) | Sph a0 a1 _ _ => (a0, a1) end.
Definition curved_transl (r : T) (m : M3) : V3 := scal3 (- r) (mv3 m (1, 0, 0)).
Definition surf3 (d : det3d) (p : dpar3) : V3 :=
  let '(u, v, (cu, su), (cv, sv)) := p in
  match d with
  | Flat2 a0 a1 => add3 (scal3 u a0) (scal3 v a1)
  | Cyl _ _ r m => add3 (mv3 m (r * cu, r * (- su), v)) (curved_transl r m)
  | Sph _ _ r m => add3 (mv3 m (scal3 r (cu * cv, - su * cv, sv))) (curved_transl r m)
  end.
Definition deriv3 (d : det3d) (p : dpar3) : V3 * V3 :=
  let '(u, v, (cu, su), (cv, sv)) := p in
  match d with
  | Flat2 a0 a1 => (a0, a1)
  | Cyl _ _ r m => (mv3 m (scal3 r (- su, - cu, 0)), mv3 m (0, 0, 1))
  | Sph _ _ r m => (mv3 m (scal3 r (- su * cv, - cu * cv, 0)),
                    mv3 m (scal3 r (- cu * sv, su * sv, cv)))
  end.
(* Detector.surface_normal, ndim 2: cross(deriv0, deriv1) normalised *)
Definition normal3 (d : det3d) (p : dpar3) : V3 :=
  let '(d0, d1) := deriv3 d p in let n := cross3 d0 d1 in sdiv3 n (norm3 n).
Definition measure3 (d : det3d) (p : dpar3) : T :=
  let '(d0, d1) := deriv3 d p in norm3 (cross3 d0 d1).

(* ------------------------------------------------- parallel beam geometries *)
(* stored state after __init__: det_pos_init already contains the translation *)
Record par2d := { p2_pos : V2; p2_tr : V2; p2_det : det2d }.
Record par3d := { p3_pos : V3; p3_tr : V3; p3_det : det3d }.   (* Euler *)
Record par3a := { pa_axis : V3; pa_pos : V3; pa_tr : V3; pa_det : det3d;
                  (* the constructor arguments that __getitem__ passes on (None = defaulted) *)
                  pa_pos_arg : option V3; pa_axes_arg : option (V3 * V3) }.

(* ParallelBeamGeometry.det_refpoint:  translation + R (det_pos_init - translation) *)
Definition par_refpoint2 (rot : M2) (pos tr : V2) : V2 := add2 tr (mv2 rot (sub2 pos tr)).
Definition par_refpoint3 (rot : M3) (pos tr : V3) : V3 := add3 tr (mv3 rot (sub3 pos tr)).

Definition par2d_rot (g : par2d) (a : T * T) : M2 := euler2 a.
Definition par2d_refpoint (g : par2d) (a : T * T) : V2 := par_refpoint2 (par2d_rot g a) (p2_pos g) (p2_tr g).
(* Geometry.det_point_position:  det_refpoint + R surface(dparam) *)
Definition par2d_detpoint (g : par2d) (a : T * T) (p : dpar2) : V2 :=
  add2 (par2d_refpoint g a) (mv2 (par2d_rot g a) (surf2 (p2_det g) p)).
(* ParallelBeamGeometry.det_to_src:  R surface_normal(dparam) *)
Definition par2d_det_to_src (g : par2d) (a : T * T) (p : dpar2) : V2 :=
  mv2 (par2d_rot g a) (normal2 (p2_det g) p).
Definition par2d_det_axis (g : par2d) (a : T * T) : V2 := mv2 (par2d_rot g a) (det2_axis (p2_det g)).

Definition par3d_rot (g : par3d) (phi theta psi : T * T) : M3 := euler3 phi theta psi.
Definition par3d_refpoint (g : par3d) (phi theta psi : T * T) : V3 :=
  par_refpoint3 (euler3 phi theta psi) (p3_pos g) (p3_tr g).
Definition par3d_detpoint (g : par3d) (phi theta psi : T * T) (p : dpar3) : V3 :=
  add3 (par3d_refpoint g phi theta psi) (mv3 (euler3 phi theta psi) (surf3 (p3_det g) p)).
Definition par3d_det_to_src (g : par3d) (phi theta psi : T * T) (p : dpar3) : V3 :=
  mv3 (euler3 phi theta psi) (normal3 (p3_det g) p).
Definition par3d_det_axes (g : par3d) (phi theta psi : T * T) : V3 * V3 :=
  let '(a0, a1) := det3_axes (p3_det g) in
  (mv3 (euler3 phi theta psi) a0, mv3 (euler3 phi theta psi) a1).

Definition par3a_rot (g : par3a) (a : T * T) : M3 := axis_rot (pa_axis g) a.
Definition par3a_refpoint (g : par3a) (a : T * T) : V3 := par_refpoint3 (par3a_rot g a) (pa_pos g) (pa_tr g).
Definition par3a_detpoint (g : par3a) (a : T * T) (p : dpar3) : V3 :=
  add3 (par3a_refpoint g a) (mv3 (par3a_rot g a) (surf3 (pa_det g) p)).
Definition par3a_det_to_src (g : par3a) (a : T * T) (p : dpar3) : V3 :=
  mv3 (par3a_rot g a) (normal3 (pa_det g) p).
Definition par3a_det_axes (g : par3a) (a : T * T) : V3 * V3 :=
  let '(a0, a1) := det3_axes (pa_det g) in (mv3 (par3a_rot g a) a0, mv3 (par3a_rot g a) a1).

(* ---- constructors (None = ValueError) ---- *)
Definition obind {A B} (o : option A) (f : A -> option B) : option B :=
  match o with Some a => f a | None => None end.

(* Parallel2dGeometry(apart, dpart, det_pos_init, det_axis_init=None, translation) *)
Definition mk_par2d (pos : V2) (axis : option V2) (tr : V2) : option par2d :=
  obind (tsys2 pos (0, 1)) (fun m =>
  let ax := match axis with Some a => a | None => mv2 m (1, 0) end in
  obind (mk_flat1 ax) (fun d =>
  Some {| p2_pos := add2 pos tr; p2_tr := tr; p2_det := d |})).
(* Parallel3dEulerGeometry(apart, dpart, det_pos_init, det_axes_init=None, translation) *)
Definition mk_par3d (pos : V3) (axes : option (V3 * V3)) (tr : V3) : option par3d :=
  obind (tsys3 pos (0, 1, 0)) (fun m =>
  let '(a0, a1) := match axes with Some a => a | None => (mv3 m (1, 0, 0), mv3 m (0, 0, 1)) end in
  obind (mk_flat2 a0 a1) (fun d =>
  Some {| p3_pos := add3 pos tr; p3_tr := tr; p3_det := d |})).
(* AxisOrientedGeometry.__init__ *)
Definition unit_axis (axis : V3) : option V3 :=
  if norm3 axis =? 0 then None else Some (sdiv3 axis (norm3 axis)).
(* Parallel3dAxisGeometry(apart, dpart, axis, det_pos_init=None, det_axes_init=None, translation) *)
Definition mk_par3a (axis : V3) (pos : option V3) (axes : option (V3 * V3)) (tr : V3) : option par3a :=
  obind (tsys3 axis (0, 0, 1)) (fun m =>
  let p := match pos with Some p => p | None => mv3 m (0, 1, 0) end in
  let '(a0, a1) := match axes with Some a => a | None => (mv3 m (1, 0, 0), mv3 m (0, 0, 1)) end in
  obind (unit_axis axis) (fun ua =>
  obind (mk_flat2 a0 a1) (fun d =>
  Some {| pa_axis := ua; pa_pos := add3 p tr; pa_tr := tr; pa_det := d;
          pa_pos_arg := pos; pa_axes_arg := axes |}))).

(* frommatrix: transform_system(default, None, vecs, matrix) = plain matrix products;
   the 2x3 / 3x4 form carries the translation in the last column. *)
Definition par2d_frommatrix (m : M2) (tr : V2) : option par2d :=
  mk_par2d (mv2 m (0, 1)) (Some (mv2 m (1, 0))) tr.
Definition par3d_frommatrix (m : M3) (tr : V3) : option par3d :=
  mk_par3d (mv3 m (0, 1, 0)) (Some (mv3 m (1, 0, 0), mv3 m (0, 0, 1))) tr.
Definition par3a_frommatrix (m : M3) (tr : V3) : option par3a :=
  mk_par3a (mv3 m (0, 0, 1)) (Some (mv3 m (0, 1, 0))) (Some (mv3 m (1, 0, 0), mv3 m (0, 0, 1))) tr.

(* __getitem__ rebuilds the geometry from stored attributes.  Parallel2dGeometry passes
   det_pos_init=self._det_pos_init_arg, the un-translated position the geometry was built with, which is
   det_pos_init - translation (fix 388a3ff; before it the translated position was passed and translated again). *)
Definition par2d_getitem (g : par2d) (axis_arg : option V2) : option par2d :=
  mk_par2d (sub2 (p2_pos g) (p2_tr g)) axis_arg (p2_tr g).
Definition par3a_getitem (g : par3a) : option par3a :=
  mk_par3a (pa_axis g) (pa_pos_arg g) (pa_axes_arg g) (pa_tr g).

(* ----------------------------------------------- divergent beam geometries *)
Record fan := { f_rs : T; f_rd : T; f_s2d : V2; f_tr : V2; f_det : det2d }.
Record cone := { c_rs : T; c_rd : T; c_s2d : V3; c_axis : V3; c_tr : V3;
                 c_pitch : T; c_off : T; c_det : det3d;
                 c_s2d_arg : option V3; c_axes_arg : option (V3 * V3) }.

Definition fan_rot (g : fan) (a : T * T) : M2 := euler2 a.
(* FanBeamGeometry.src_position; sh = src_shift_func(angle) *)
Definition fan_src (g : fan) (a : T * T) (sh : V2) : V2 :=
  let d := f_s2d g in let '(d0, d1) := d in let '(s0, s1) := sh in
  let tangent : V2 := (d1, - d0) in
  let c2s := add2 (scal2 (- f_rs g) d) (add2 (scal2 s0 (neg2 d)) (scal2 s1 tangent)) in
  add2 (f_tr g) (mv2 (fan_rot g a) c2s).
(* FanBeamGeometry.det_refpoint; sh = det_shift_func(angle) *)
Definition fan_refpoint (g : fan) (a : T * T) (sh : V2) : V2 :=
  let d := f_s2d g in let '(d0, d1) := d in let '(s0, s1) := sh in
  let tangent : V2 := (- d1, d0) in
  let c2d := add2 (scal2 (f_rd g) d) (add2 (scal2 s0 d) (scal2 s1 tangent)) in
  add2 (f_tr g) (mv2 (fan_rot g a) c2d).
Definition fan_detpoint (g : fan) (a : T * T) (dsh : V2) (p : dpar2) : V2 :=
  add2 (fan_refpoint g a dsh) (mv2 (fan_rot g a) (surf2 (f_det g) p)).
(* DivergentBeamGeometry.det_to_src *)
Definition fan_det_to_src (g : fan) (a : T * T) (ssh dsh : V2) (p : dpar2) (normalized : bool) : V2 :=
  let v := sub2 (fan_src g a ssh) (fan_detpoint g a dsh p) in
  if normalized then sdiv2 v (norm2 v) else v.
Definition fan_det_axis (g : fan) (a : T * T) : V2 := mv2 (fan_rot g a) (det2_axis (f_det g)).

Definition cone_rot (g : cone) (a : T * T) : M3 := axis_rot (c_axis g) a.
(* along-axis displacement: offset_along_axis + pitch * angle / (2 pi) + shift[2] *)
Definition cone_along (g : cone) (ang twopi sh2 : T) : T := c_off g + c_pitch g * ang / twopi + sh2.
Definition cone_refpoint (g : cone) (a : T * T) (ang twopi : T) (sh : V3) : V3 :=
  let d := c_s2d g in let '(s0, s1, s2) := sh in
  let t0 := neg3 (cross3 d (c_axis g)) in let tangent := sdiv3 t0 (norm3 t0) in
  let c2d := add3 (scal3 (c_rd g) d) (add3 (scal3 s0 d) (scal3 s1 tangent)) in
  add3 (add3 (c_tr g) (mv3 (cone_rot g a) c2d)) (scal3 (cone_along g ang twopi s2) (c_axis g)).
Definition cone_src (g : cone) (a : T * T) (ang twopi : T) (sh : V3) : V3 :=
  let d := c_s2d g in let '(s0, s1, s2) := sh in
  let t0 := neg3 (cross3 (neg3 d) (c_axis g)) in let tangent := sdiv3 t0 (norm3 t0) in
  let c2s := add3 (scal3 (- c_rs g) d) (add3 (scal3 s0 (neg3 d)) (scal3 s1 tangent)) in
  add3 (add3 (c_tr g) (mv3 (cone_rot g a) c2s)) (scal3 (cone_along g ang twopi s2) (c_axis g)).
Definition cone_detpoint (g : cone) (a : T * T) (ang twopi : T) (dsh : V3) (p : dpar3) : V3 :=
  add3 (cone_refpoint g a ang twopi dsh) (mv3 (cone_rot g a) (surf3 (c_det g) p)).
Definition cone_det_to_src (g : cone) (a : T * T) (ang twopi : T) (ssh dsh : V3) (p : dpar3)
    (normalized : bool) : V3 :=
  let v := sub3 (cone_src g a ang twopi ssh) (cone_detpoint g a ang twopi dsh p) in
  if normalized then sdiv3 v (norm3 v) else v.
Definition cone_det_axes (g : cone) (a : T * T) : V3 * V3 :=
  let '(a0, a1) := det3_axes (c_det g) in (mv3 (cone_rot g a) a0, mv3 (cone_rot g a) a1).

(* FanBeamGeometry(apart, dpart, src_radius, det_radius, det_curvature_radius=None,
                   src_to_det_init, det_axis_init=None, translation) *)
Definition mk_fan (rs rd : T) (curv : option T) (s2d : V2) (axis : option V2) (tr : V2) : option fan :=
  obind (tsys2 s2d (0, 1)) (fun m =>
  let ax := match axis with Some a => a | None => mv2 m (1, 0) end in
  if iszero2 s2d then None else
  let s := sdiv2 s2d (norm2 s2d) in
  obind (match curv with None => mk_flat1 ax | Some r => mk_circ ax r end) (fun d =>
  if rs <? 0 then None else if rd <? 0 then None
  else if (rs =? 0) && (rd =? 0) then None
  else Some {| f_rs := rs; f_rd := rd; f_s2d := s; f_tr := tr; f_det := d |})).
Definition fan_frommatrix (rs rd : T) (curv : option T) (m : M2) (tr : V2) : option fan :=
  mk_fan rs rd curv (mv2 m (0, 1)) (Some (mv2 m (1, 0))) tr.
(* FanBeamGeometry.__getitem__ passes src_to_det_init=self.src_to_det_init (normalised) and
   det_axis_init=self._det_axis_init_arg *)
Definition fan_getitem (g : fan) (axis_arg : option V2) : option fan :=
  mk_fan (f_rs g) (f_rd g) (match f_det g with Flat1 _ => None | Circ _ r => Some r end)
         (f_s2d g) axis_arg (f_tr g).

(* det_curvature_radius: None | (r, r) spherical | (r, None/inf) cylindrical *)
Inductive curv3 := CFlat | CCyl (r : T) | CSph (r : T).
(* ConeBeamGeometry(apart, dpart, src_radius, det_radius, det_curvature_radius, pitch, axis,
                    offset_along_axis, src_to_det_init=None, det_axes_init=None, translation) *)
Definition mk_cone (fixed : bool) (rs rd : T) (curv : curv3) (pitch off : T) (axis : V3)
    (s2d : option V3) (axes : option (V3 * V3)) (tr : V3) : option cone :=
  obind (tsys3 axis (0, 0, 1)) (fun m =>
  let sd := match s2d with Some p => p | None => mv3 m (0, 1, 0) end in
  let '(a0, a1) := match axes with Some a => a | None => (mv3 m (1, 0, 0), mv3 m (0, 0, 1)) end in
  if norm3 sd =? 0 then None else
  let s := sdiv3 sd (norm3 sd) in
  obind (unit_axis axis) (fun ua =>
  obind (match curv with
         | CFlat => mk_flat2 a0 a1
         | CCyl r => mk_curved fixed false a0 a1 r
         | CSph r => mk_curved fixed true a0 a1 r end) (fun d =>
  if rs <? 0 then None else if rd <? 0 then None
  else if (rs =? 0) && (rd =? 0) then None
  else Some {| c_rs := rs; c_rd := rd; c_s2d := s; c_axis := ua; c_tr := tr;
               c_pitch := pitch; c_off := off; c_det := d;
               c_s2d_arg := s2d; c_axes_arg := axes |}))).
Definition cone_frommatrix (fixed : bool) (rs rd : T) (curv : curv3) (pitch off : T) (m : M3) (tr : V3) : option cone :=
  mk_cone fixed rs rd curv pitch off (mv3 m (0, 0, 1)) (Some (mv3 m (0, 1, 0)))
          (Some (mv3 m (1, 0, 0), mv3 m (0, 0, 1))) tr.
Definition cone_getitem (fixed : bool) (g : cone) : option cone :=
  mk_cone fixed (c_rs g) (c_rd g)
          (match c_det g with Flat2 _ _ => CFlat | Cyl _ _ r _ => CCyl r | Sph _ _ r _ => CSph r end)
          (c_pitch g) (c_off g) (c_axis g) (c_s2d_arg g) (c_axes_arg g) (c_tr g).

(* ------------------------------------------------ factories from a volume *)
(* rho = max over the corners of the xy-rectangle [ax,bx] x [ay,by] of the Euclidean norm,
   carried as rho^2 (= max of the four squared norms) and rho = rt rho^2 *)
Definition rho_sq (ax bx ay by_ : T) : T :=
  nmax (nmax (ax * ax + ay * ay) (ax * ax + by_ * by_)) (nmax (bx * bx + ay * ay) (bx * bx + by_ * by_)).
Definition rho_of (ax bx ay by_ : T) : T := rt (rho_sq ax bx ay by_).
(* parallel_beam_geometry: detector partition [-rho, rho] (x [min_z, max_z] in 3-d) *)
Definition par_factory_det_range (ax bx ay by_ : T) : T * T :=
  let rho := rho_of ax bx ay by_ in (- rho, rho).
(* cone_beam_geometry / helical_geometry: w = 2 rho (rs + rd) / rs, detector [-w/2, w/2] *)
Definition cone_factory_halfwidth (rho rs rd : T) : T := of_Z 2 * rho * (rs + rd) / rs / of_Z 2.
(* signed detector coordinate at which the ray from the source (at distance rs on the
   negative side of the central ray) through the point with coordinates (xn along the
   central ray, xt along the detector axis) meets a flat detector at distance rd *)
Definition fan_hit (rs rd xn xt : T) : T := (rs + rd) * xt / (rs + xn).
(* helical_geometry: offset_along_axis = space.partition.min_pt[2], pitch = space.partition.extent[2] / num_turns *)
Definition helical_params (zmin zmax turns : T) : T * T := (zmin, (zmax - zmin) / turns).
(* cone_beam_geometry, 3-d: h = 2 sin(half_cone_angle) (rs + rd) with half_cone_angle = arctan(t),
   t = max(|min_z|, |max_z|) / (rs - rho); sin(arctan t) = t / sqrt(1 + t^2).  Half height before the pixel round-up: *)
Definition cone_factory_halfheight (t rs rd : T) : T := t / rt (1 + t * t) * (rs + rd).
End Model.
