(* C19/Corr.v -- correspondence checkers (executed at Q by the shards).
   A case holds the model's observation list (an unevaluated Gallina term built
   from the case inputs, evaluated here by vm_compute) and the implementation's
   observation list as exact rationals; None = ValueError on either side. *)
From Coq Require Import ZArith QArith Qabs List Bool.
From Verif Require Import Base.Num Base.Check C19.Model.
Import ListNotations.

(* Execution carrier of the shards: rationals, exact while denominators stay below 10^36,
   rounded down to 30 decimal digits beyond that (generic axes produce nested irrational
   roots; without rounding the gcd cost of exact arithmetic explodes).  All inputs with
   rational lengths (Pythagorean axes, rational circle points) are computed exactly. *)
Definition rbound : positive := Z.to_pos (10 ^ 36).
Definition rscale : Z := (10 ^ 30)%Z.
Definition rsmall : positive := Z.to_pos (10 ^ 18).
Definition rnd (q : Q) : Q :=
  if (Qden q <=? rsmall)%positive then Qred q
  else if (Qden q <=? rbound)%positive then q
  else (Qnum q * rscale / Zpos (Qden q)) # Z.to_pos rscale.
Definition NQ : Num Q := {|
  nzero := 0%Q; none_ := 1%Q;
  nadd := fun a b => rnd (Qplus a b); nsub := fun a b => rnd (Qminus a b);
  nmul := fun a b => rnd (Qmult a b); ndiv := fun a b => rnd (Qdiv a b);
  nopp := Qopp; nabs := Qabs;
  nltb := fun a b => negb (Qle_bool b a); nleb := Qle_bool; neqb := Qeq_bool;
  of_Z := inject_Z |}.
#[local] Existing Instance NQ | 0.

(* exact root of perfect squares; otherwise the root rounded down to 30 decimal digits *)
Definition Qsqrt (q : Q) : Q :=
  let r := Qred q in
  match Qnum r with
  | Zpos n =>
      let d := Qden r in
      let sn := Pos.sqrt n in let sd := Pos.sqrt d in
      if (Pos.eqb (sn * sn) n && Pos.eqb (sd * sd) d)%bool then Zpos sn # sd
      else Qred (Z.sqrt (Zpos n * rscale * rscale / Zpos d) # Z.to_pos rscale)
  | _ => 0
  end.

Definition V2q := (Q * Q)%type.
Definition V3q := (Q * Q * Q)%type.
Definition f2 (v : V2q) : list Q := let '(a, b) := v in [a; b].
Definition f3 (v : V3q) : list Q := let '(a, b, c) := v in [a; b; c].
Definition fm2 (m : V2q * V2q) : list Q := let '(r0, r1) := m in f2 r0 ++ f2 r1.
Definition fm3 (m : V3q * V3q * V3q) : list Q := let '(r0, r1, r2) := m in f3 r0 ++ f3 r1 ++ f3 r2.
Definition f33 (p : V3q * V3q) : list Q := let '(a, b) := p in f3 a ++ f3 b.

Definition rt := Qsqrt.

(* ---- detectors ---- *)
Definition obs_det2 (d : det2d) (p : dpar2) : list Q :=
  f2 (surf2 d p) ++ f2 (deriv2 d p) ++ f2 (normal2 rt d p) ++ [measure2 rt d p].
Definition obs_det3 (d : det3d) (p : dpar3) : list Q :=
  f3 (surf3 d p) ++ f33 (deriv3 d p) ++ f3 (normal3 rt d p) ++ [measure3 rt d p].
Definition det3_stored (d : det3d) : list Q :=
  f33 (det3_axes d) ++
  match d with Flat2 _ _ => [] | Cyl _ _ r m => r :: fm3 m ++ f3 (curved_transl r m)
             | Sph _ _ r m => r :: fm3 m ++ f3 (curved_transl r m) end.
Definition det2_stored (d : det2d) : list Q :=
  f2 (det2_axis d) ++
  match d with Flat1 _ => [] | Circ ax r => r :: fm2 (circ_rot ax) ++ f2 (circ_transl ax r) end.

(* ---- Parallel2dGeometry ---- *)
Definition obs_par2d (g : option par2d) (pts : list ((Q * Q) * dpar2)) : option (list Q) :=
  match g with None => None | Some g =>
  Some (f2 (p2_pos g) ++ f2 (p2_tr g) ++ det2_stored (p2_det g) ++
        flat_map (fun '(a, p) =>
          fm2 (par2d_rot g a) ++ f2 (par2d_refpoint g a) ++ f2 (par2d_detpoint g a p) ++
          f2 (par2d_det_to_src rt g a p) ++ f2 (par2d_det_axis g a) ++ obs_det2 (p2_det g) p) pts)
  end.

(* ---- Parallel3dEulerGeometry ---- *)
Definition obs_par3d (g : option par3d) (pts : list ((Q * Q) * (Q * Q) * (Q * Q) * dpar3)) : option (list Q) :=
  match g with None => None | Some g =>
  Some (f3 (p3_pos g) ++ f3 (p3_tr g) ++ det3_stored (p3_det g) ++
        flat_map (fun '(ph, th, ps, p) =>
          fm3 (par3d_rot g ph th ps) ++ f3 (par3d_refpoint g ph th ps) ++
          f3 (par3d_detpoint g ph th ps p) ++ f3 (par3d_det_to_src rt g ph th ps p) ++
          f33 (par3d_det_axes g ph th ps) ++ obs_det3 (p3_det g) p) pts)
  end.

(* ---- Parallel3dAxisGeometry ---- *)
Definition obs_par3a (g : option par3a) (pts : list ((Q * Q) * dpar3)) : option (list Q) :=
  match g with None => None | Some g =>
  Some (f3 (pa_axis g) ++ f3 (pa_pos g) ++ f3 (pa_tr g) ++ det3_stored (pa_det g) ++
        flat_map (fun '(a, p) =>
          fm3 (par3a_rot g a) ++ f3 (par3a_refpoint g a) ++ f3 (par3a_detpoint g a p) ++
          f3 (par3a_det_to_src rt g a p) ++ f33 (par3a_det_axes g a) ++ obs_det3 (pa_det g) p) pts)
  end.

(* ---- FanBeamGeometry: point = (angle, src shift, det shift, dparam) ---- *)
Definition obs_fan (g : option fan) (pts : list ((Q * Q) * V2q * V2q * dpar2)) : option (list Q) :=
  match g with None => None | Some g =>
  Some ([f_rs g; f_rd g] ++ f2 (f_s2d g) ++ f2 (f_tr g) ++ det2_stored (f_det g) ++
        flat_map (fun '(a, ssh, dsh, p) =>
          fm2 (fan_rot g a) ++ f2 (fan_src g a ssh) ++ f2 (fan_refpoint g a dsh) ++
          f2 (fan_detpoint g a dsh p) ++ f2 (fan_det_to_src rt g a ssh dsh p true) ++
          f2 (fan_det_to_src rt g a ssh dsh p false) ++ f2 (fan_det_axis g a) ++
          obs_det2 (f_det g) p) pts)
  end.

(* ---- ConeBeamGeometry: point = (angle pair, angle value, src shift, det shift, dparam) ---- *)
Definition obs_cone (g : option cone) (twopi : Q)
    (pts : list ((Q * Q) * Q * V3q * V3q * dpar3)) : option (list Q) :=
  match g with None => None | Some g =>
  Some ([c_rs g; c_rd g; c_pitch g; c_off g] ++ f3 (c_s2d g) ++ f3 (c_axis g) ++ f3 (c_tr g) ++
        det3_stored (c_det g) ++
        flat_map (fun '(a, ang, ssh, dsh, p) =>
          fm3 (cone_rot g a) ++ f3 (cone_src rt g a ang twopi ssh) ++
          f3 (cone_refpoint rt g a ang twopi dsh) ++ f3 (cone_detpoint rt g a ang twopi dsh p) ++
          f3 (cone_det_to_src rt g a ang twopi ssh dsh p true) ++
          f3 (cone_det_to_src rt g a ang twopi ssh dsh p false) ++ f33 (cone_det_axes g a) ++
          obs_det3 (c_det g) p) pts)
  end.

(* ---- utility functions on their own ---- *)
Definition obs_from_to2 (f t : V2q) : option (list Q) := option_map fm2 (from_to2 rt f t).
Definition obs_from_to3 (f t : V3q) : option (list Q) := option_map fm3 (from_to3 rt f t).
Definition obs_perp3 (v : V3q) : option (list Q) := Some (f3 (perp3 rt v)).
Definition obs_perp2 (v : V2q) : option (list Q) := Some (f2 (perp2 rt v)).
Definition obs_euler2 (a : Q * Q) : option (list Q) := Some (fm2 (euler2 a)).
Definition obs_euler3 (a b c : Q * Q) : option (list Q) := Some (fm3 (euler3 a b c)).
Definition obs_axis_rot (ax : V3q) (a : Q * Q) : option (list Q) := Some (fm3 (axis_rot ax a)).

(* constructors at the execution carrier (shard terms use only these) *)
Definition q_mk_par2d := mk_par2d rt.
Definition q_mk_par3d := mk_par3d rt.
Definition q_mk_par3a := mk_par3a rt.
Definition q_mk_fan := mk_fan rt.
Definition q_mk_cone := mk_cone rt.
Definition q_par2d_frommatrix := par2d_frommatrix rt.
Definition q_par3d_frommatrix := par3d_frommatrix rt.
Definition q_par3a_frommatrix := par3a_frommatrix rt.
Definition q_fan_frommatrix := fan_frommatrix rt.
Definition q_cone_frommatrix := cone_frommatrix rt.
Definition q_par2d_getitem := par2d_getitem rt.
Definition q_par3a_getitem := par3a_getitem rt.
Definition q_fan_getitem := fan_getitem rt.
Definition q_cone_getitem := cone_getitem rt.
Definition q_CCyl : Q -> curv3 := CCyl.
Definition q_CSph : Q -> curv3 := CSph.
Definition q_CFlat : @curv3 Q := CFlat.

(* factories: rho, cone/helical half width, helical offset and pitch *)
Definition obs_factory (ax bx ay by_ zmin zmax rs rd turns : Q) : option (list Q) :=
  let rho := rho_of rt ax bx ay by_ in
  Some [rho; cone_factory_halfwidth rho rs rd; fst (helical_params zmin zmax turns); snd (helical_params zmin zmax turns);
        (* the radii the returned fan / cone / helical geometry carries are the requested ones *)
        rs; rd; rs; rd; rs; rd].

Definition bindg {A B} (o : option A) (f : A -> option B) : option B :=
  match o with Some a => f a | None => None end.

(* implementation outcome: values, ValueError, TypeError, anything else *)
Inductive impl_out := IOk (l : list Q) | IValueErr | ITypeErr | IOtherErr.
Record case := { k_model : option (list Q); k_impl : impl_out }.

Definition atol : Q := 1 # 1000000000.
Definition rtol : Q := 1 # 1000000000.
Definition check (k : case) : bool :=
  match k_model k, k_impl k with
  | Some m, IOk i => Qsclose atol rtol i m
  | None, IValueErr => true
  | _, _ => false
  end.

(* the wrappers really use the rounding carrier *)
Example carrier_is_NQ : q_mk_par2d = @mk_par2d Q NQ Qsqrt /\ obs_cone = obs_cone /\
  (fun g => @cone_rot Q NQ g) = cone_rot.
Proof. repeat split. Qed.
