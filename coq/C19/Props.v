(* C19/Props.v -- property theorems only; each is closed by [exact] of a lemma from
   C19/Proofs.v and followed by Print Assumptions.

   The model (C19/Model.v) is a transcription of odl/tomo/util/utility.py and
   odl/tomo/geometry/{detector,geometry,parallel,conebeam}.py, tied to /repo by the
   correspondence (harness/c19.py).  Reading guide: an angle is the pair (cos, sin);
   [on_circle a] says cos^2 + sin^2 = 1; [rt] is instantiated with the real [sqrt];
   vectors are tuples, matrices tuples of rows; [is_rot m] = "m^T m = I and det m = 1". *)
From Coq Require Import Reals List Bool.
From Verif Require Import Base.Num C19.Model Gen.GeometryFormulas C19.Proofs.
Import ListNotations.
Local Open Scope R_scope.

(* ================= 1. rotation matrices: orthonormal, determinant one ================= *)
(* euler_matrix(phi) -- Parallel2dGeometry, FanBeamGeometry *)
Theorem euler2_is_rotation : forall a : R * R, on_circle a ->
  mm2 (tr2 (euler2 a)) (euler2 a) = id2 /\ det2 (euler2 a) = 1.
Proof. exact euler2_rot. Qed.
Print Assumptions euler2_is_rotation.

(* euler_matrix(phi, theta, psi), ZXZ -- Parallel3dEulerGeometry *)
Theorem euler3_is_rotation : forall phi theta psi : R * R,
  on_circle phi -> on_circle theta -> on_circle psi ->
  mm3 (tr3 (euler3 phi theta psi)) (euler3 phi theta psi) = id3 /\ det3 (euler3 phi theta psi) = 1.
Proof. exact euler3_rot. Qed.
Print Assumptions euler3_is_rotation.

(* axis_rotation_matrix (Rodrigues) for a unit axis -- AxisOrientedGeometry.rotation_matrix;
   the axis itself is fixed *)
Theorem axis_rotation_is_rotation : forall (ax : R * R * R) (a : R * R),
  dot3 ax ax = 1 -> on_circle a ->
  (mm3 (tr3 (axis_rot ax a)) (axis_rot ax a) = id3 /\ det3 (axis_rot ax a) = 1) /\
  mv3 (axis_rot ax a) ax = ax.
Proof. exact axis_rotation_is_rotation_l. Qed.
Print Assumptions axis_rotation_is_rotation.

(* AxisOrientedGeometry.__init__ rejects exactly the zero axis and stores a unit axis, so the
   previous theorem applies to every Parallel3dAxisGeometry / ConeBeamGeometry that exists *)
Theorem stored_axis_is_unit : forall axis : R * R * R,
  (axis = (0, 0, 0) -> unit_axis sqrt axis = None) /\
  (axis <> (0, 0, 0) -> exists u, unit_axis sqrt axis = Some u /\ dot3 u u = 1).
Proof. exact unit_axis_spec. Qed.
Print Assumptions stored_axis_is_unit.

(* a rotation preserves inner products (hence lengths, distances, angles) *)
Theorem rotation_preserves_inner_products :
  (forall (m : (R * R) * (R * R)) v w, mm2 (tr2 m) m = id2 -> dot2 (mv2 m v) (mv2 m w) = dot2 v w) /\
  (forall (m : (R * R * R) * (R * R * R) * (R * R * R)) v w,
     mm3 (tr3 m) m = id3 -> dot3 (mv3 m v) (mv3 m w) = dot3 v w).
Proof. exact rotation_preserves_inner_products_l. Qed.
Print Assumptions rotation_preserves_inner_products.

(* ---- tie to the source by REGENERATION: Gen/GeometryFormulas.v holds the matrix literals of euler_matrix, the
   entries of axis_rotation_matrix (cos*I + (1-cos)*outer + sin*cross, re-assembled from the source expression)
   and the native surface / surface_deriv vectors of the curved detectors, re-emitted from /repo on every run by
   translate/geometry_formulas.py (fail closed).  The hand-written model IS these formulas, and the generated
   matrices are rotations -- a changed sign in one source entry breaks these proofs. *)
Theorem model_uses_generated_rotation_formulas :
  (forall c s : R, euler2 (c, s) = gen_euler2 c s) /\
  (forall c1 s1 c2 s2 c3 s3 : R, euler3 (c1, s1) (c2, s2) (c3, s3) = gen_euler3 c1 s1 c2 s2 c3 s3) /\
  (forall x y z c s : R, axis_rot (x, y, z) (c, s) = gen_axis_rot x y z c s).
Proof. exact model_is_generated_rotations. Qed.
Print Assumptions model_uses_generated_rotation_formulas.

Theorem generated_rotation_matrices_are_rotations :
  (forall c s : R, c * c + s * s = 1 -> is_rot2 (gen_euler2 c s)) /\
  (forall c1 s1 c2 s2 c3 s3 : R, c1 * c1 + s1 * s1 = 1 -> c2 * c2 + s2 * s2 = 1 -> c3 * c3 + s3 * s3 = 1 ->
     is_rot3 (gen_euler3 c1 s1 c2 s2 c3 s3)) /\
  (forall x y z c s : R, x * x + y * y + z * z = 1 -> c * c + s * s = 1 -> is_rot3 (gen_axis_rot x y z c s)).
Proof. exact generated_rotations_are_rotations. Qed.
Print Assumptions generated_rotation_matrices_are_rotations.

Theorem model_uses_generated_surface_formulas :
  (forall (ax : R * R) (r u cu su : R),
     surf2 (Circ ax r) (u, (cu, su)) = add2 (mv2 (circ_rot ax) (gen_circ_surf cu su r)) (circ_transl ax r) /\
     deriv2 (Circ ax r) (u, (cu, su)) = mv2 (circ_rot ax) (gen_circ_deriv cu su r)) /\
  (forall (a0 a1 : R * R * R) (r : R) m (u v cu su cv sv : R),
     surf3 (Cyl a0 a1 r m) (u, v, (cu, su), (cv, sv)) = add3 (mv3 m (gen_cyl_surf cu su v r)) (curved_transl r m) /\
     deriv3 (Cyl a0 a1 r m) (u, v, (cu, su), (cv, sv)) = (mv3 m (gen_cyl_dphi cu su r), mv3 m (0, 0, 1))) /\
  (forall (a0 a1 : R * R * R) (r : R) m (u v cu su cv sv : R),
     surf3 (Sph a0 a1 r m) (u, v, (cu, su), (cv, sv)) = add3 (mv3 m (gen_sph_surf cu su cv sv r)) (curved_transl r m) /\
     deriv3 (Sph a0 a1 r m) (u, v, (cu, su), (cv, sv)) =
       (mv3 m (gen_sph_dphi cu su cv sv r), mv3 m (gen_sph_dtheta cu su cv sv r))).
Proof. exact model_is_generated_surfaces. Qed.
Print Assumptions model_uses_generated_surface_formulas.

(* ====== 2. detector point = reference point + rotated surface point; rigid motion ====== *)
(* All statements of sections 2-4 are PER POINT: one angle (triple) and one detector parameter.  The vectorised entry
   points are documented to return broadcast(mparam, dparam).shape + (ndim,), squeezed only when every parameter is a
   scalar, with entry [i] equal to the scalar call at the i-th broadcast parameters; that lifting is NumPy shape
   mechanics and is validated by the probe family shape-<class>-<method> (harness/c19.py:_probe_shapes: argument kinds
   {python scalar, 0-d, (1,), (n,), (n,1), (1,n), tuples incl. mixed scalar/array} x the same, shape AND values). *)
(* By definition of the model (Geometry.det_point_position) the detector point IS
   det_refpoint + R surface(u).  The theorems below say more: the whole detector at angle a is the
   rotation about the translation point of an angle-independent configuration, and distances on
   the detector are those of the intrinsic surface -- for every stored state, angle and parameter. *)
Theorem parallel2d_rigid_motion : forall (g : par2d) (a : R * R) (p q : dpar2),
  par2d_detpoint g a p = add2 (par2d_refpoint g a) (mv2 (par2d_rot g a) (surf2 (p2_det g) p)) /\
  par2d_detpoint g a p =
    add2 (p2_tr g) (mv2 (euler2 a) (add2 (sub2 (p2_pos g) (p2_tr g)) (surf2 (p2_det g) p))) /\
  (on_circle a ->
   dot2 (sub2 (par2d_detpoint g a p) (par2d_detpoint g a q)) (sub2 (par2d_detpoint g a p) (par2d_detpoint g a q))
   = dot2 (sub2 (surf2 (p2_det g) p) (surf2 (p2_det g) q)) (sub2 (surf2 (p2_det g) p) (surf2 (p2_det g) q))).
Proof. exact parallel2d_rigid_motion_l. Qed.
Print Assumptions parallel2d_rigid_motion.

Theorem parallel3d_axis_rigid_motion : forall (g : par3a) (a : R * R) (p q : dpar3),
  par3a_detpoint g a p = add3 (par3a_refpoint g a) (mv3 (par3a_rot g a) (surf3 (pa_det g) p)) /\
  par3a_detpoint g a p =
    add3 (pa_tr g) (mv3 (axis_rot (pa_axis g) a) (add3 (sub3 (pa_pos g) (pa_tr g)) (surf3 (pa_det g) p))) /\
  (dot3 (pa_axis g) (pa_axis g) = 1 -> on_circle a ->
   dot3 (sub3 (par3a_detpoint g a p) (par3a_detpoint g a q)) (sub3 (par3a_detpoint g a p) (par3a_detpoint g a q))
   = dot3 (sub3 (surf3 (pa_det g) p) (surf3 (pa_det g) q)) (sub3 (surf3 (pa_det g) p) (surf3 (pa_det g) q))).
Proof. exact parallel3d_axis_rigid_motion_l. Qed.
Print Assumptions parallel3d_axis_rigid_motion.

Theorem parallel3d_euler_rigid_motion : forall (g : par3d) (ph th ps : R * R) (p q : dpar3),
  par3d_detpoint g ph th ps p =
    add3 (par3d_refpoint g ph th ps) (mv3 (par3d_rot g ph th ps) (surf3 (p3_det g) p)) /\
  par3d_detpoint g ph th ps p =
    add3 (p3_tr g) (mv3 (euler3 ph th ps) (add3 (sub3 (p3_pos g) (p3_tr g)) (surf3 (p3_det g) p))) /\
  (on_circle ph -> on_circle th -> on_circle ps ->
   dot3 (sub3 (par3d_detpoint g ph th ps p) (par3d_detpoint g ph th ps q))
        (sub3 (par3d_detpoint g ph th ps p) (par3d_detpoint g ph th ps q))
   = dot3 (sub3 (surf3 (p3_det g) p) (surf3 (p3_det g) q)) (sub3 (surf3 (p3_det g) p) (surf3 (p3_det g) q))).
Proof. exact parallel3d_euler_rigid_motion_l. Qed.
Print Assumptions parallel3d_euler_rigid_motion.

(* fan beam, incl. detector shift: detector point and source at angle a are the rotation about the
   translation point of their positions at angle 0 (same shift values) *)
Theorem fanbeam_rigid_motion : forall (g : fan) (a : R * R) (ssh dsh : R * R) (p : dpar2),
  fan_detpoint g a dsh p = add2 (fan_refpoint g a dsh) (mv2 (fan_rot g a) (surf2 (f_det g) p)) /\
  fan_detpoint g a dsh p = add2 (f_tr g) (mv2 (euler2 a) (sub2 (fan_detpoint g (1, 0) dsh p) (f_tr g))) /\
  fan_src g a ssh = add2 (f_tr g) (mv2 (euler2 a) (sub2 (fan_src g (1, 0) ssh) (f_tr g))).
Proof. exact fanbeam_rigid_motion_l. Qed.
Print Assumptions fanbeam_rigid_motion.

(* cone beam incl. helical pitch, offset and shifts: rotation about the axis through the translation
   point, plus the displacement  offset + pitch * angle / 2 pi + shift_z  along the axis *)
Theorem conebeam_rigid_motion : forall (g : cone) (a : R * R) (ang twopi : R) (dsh : R * R * R) (p : dpar3),
  cone_detpoint sqrt g a ang twopi dsh p =
    add3 (cone_refpoint sqrt g a ang twopi dsh) (mv3 (cone_rot g a) (surf3 (c_det g) p)) /\
  cone_detpoint sqrt g a ang twopi dsh p =
    add3 (add3 (c_tr g) (scal3 (cone_along g ang twopi (snd dsh)) (c_axis g)))
         (mv3 (axis_rot (c_axis g) a)
              (sub3 (cone_detpoint sqrt g (1, 0) ang twopi dsh p)
                    (add3 (c_tr g) (scal3 (cone_along g ang twopi (snd dsh)) (c_axis g))))).
Proof. exact conebeam_rigid_motion_l. Qed.
Print Assumptions conebeam_rigid_motion.

Theorem conebeam_helical_pitch : forall (g : cone) (a : R * R) (ang ang' twopi : R) (ssh : R * R * R),
  twopi <> 0 ->
  sub3 (cone_src sqrt g a ang' twopi ssh) (cone_src sqrt g a ang twopi ssh)
  = scal3 (c_pitch g * (ang' - ang) / twopi) (c_axis g).
Proof. exact cone_src_pitch. Qed.
Print Assumptions conebeam_helical_pitch.

Theorem conebeam_source_height : forall (g : cone) (a : R * R) (ang twopi : R),
  dot3 (c_axis g) (c_axis g) = 1 -> on_circle a -> dot3 (c_s2d g) (c_axis g) = 0 ->
  dot3 (sub3 (cone_src sqrt g a ang twopi (0, 0, 0)) (c_tr g)) (c_axis g) = cone_along g ang twopi 0.
Proof. exact cone_src_height. Qed.
Print Assumptions conebeam_source_height.

(* ============== 3. source-to-detector / detector-to-source consistency ============== *)
(* DivergentBeamGeometry.det_to_src: det point + det_to_src(normalized=False) = source position;
   the normalised vector has unit length and  |v| * direction = v  -- every angle, shift, parameter *)
Theorem fanbeam_det_to_src : forall (g : fan) (a : R * R) (ssh dsh : R * R) (p : dpar2),
  add2 (fan_detpoint g a dsh p) (fan_det_to_src sqrt g a ssh dsh p false) = fan_src g a ssh /\
  (fan_src g a ssh <> fan_detpoint g a dsh p ->
   let n := fan_det_to_src sqrt g a ssh dsh p true in
   let v := fan_det_to_src sqrt g a ssh dsh p false in
   dot2 n n = 1 /\ scal2 (norm2 sqrt v) n = v /\
   add2 (fan_detpoint g a dsh p) (scal2 (norm2 sqrt v) n) = fan_src g a ssh).
Proof. exact fanbeam_det_to_src_l. Qed.
Print Assumptions fanbeam_det_to_src.

Theorem conebeam_det_to_src : forall (g : cone) (a : R * R) (ang twopi : R) (ssh dsh : R * R * R) (p : dpar3),
  add3 (cone_detpoint sqrt g a ang twopi dsh p) (cone_det_to_src sqrt g a ang twopi ssh dsh p false)
    = cone_src sqrt g a ang twopi ssh /\
  (cone_src sqrt g a ang twopi ssh <> cone_detpoint sqrt g a ang twopi dsh p ->
   let n := cone_det_to_src sqrt g a ang twopi ssh dsh p true in
   let v := cone_det_to_src sqrt g a ang twopi ssh dsh p false in
   dot3 n n = 1 /\ scal3 (norm3 sqrt v) n = v /\
   add3 (cone_detpoint sqrt g a ang twopi dsh p) (scal3 (norm3 sqrt v) n) = cone_src sqrt g a ang twopi ssh).
Proof. exact conebeam_det_to_src_l. Qed.
Print Assumptions conebeam_det_to_src.

(* fan beam without shift functions: source on the circle of radius src_radius, detector reference
   point on the circle of radius det_radius about the translation point, on opposite sides, at
   distance src_radius + det_radius *)
Theorem fanbeam_circles : forall (g : fan) (a : R * R),
  dot2 (f_s2d g) (f_s2d g) = 1 -> on_circle a ->
  let s := sub2 (fan_src g a (0, 0)) (f_tr g) in
  let r := sub2 (fan_refpoint g a (0, 0)) (f_tr g) in
  dot2 s s = f_rs g * f_rs g /\ dot2 r r = f_rd g * f_rd g /\
  scal2 (f_rs g) r = scal2 (- f_rd g) s /\
  dot2 (sub2 r s) (sub2 r s) = (f_rs g + f_rd g) * (f_rs g + f_rd g).
Proof. exact fan_circles. Qed.
Print Assumptions fanbeam_circles.

(* cone beam without shift functions: the same about the point  translation + along * axis  of the
   rotation axis (along = offset + pitch * angle / 2 pi), for every unit axis and unit src_to_det_init *)
Theorem conebeam_circles : forall (g : cone) (a : R * R) (ang twopi : R),
  dot3 (c_axis g) (c_axis g) = 1 -> dot3 (c_s2d g) (c_s2d g) = 1 -> on_circle a ->
  let o := add3 (c_tr g) (scal3 (cone_along g ang twopi 0) (c_axis g)) in
  let s := sub3 (cone_src sqrt g a ang twopi (0, 0, 0)) o in
  let r := sub3 (cone_refpoint sqrt g a ang twopi (0, 0, 0)) o in
  dot3 s s = c_rs g * c_rs g /\ dot3 r r = c_rd g * c_rd g /\
  scal3 (c_rs g) r = scal3 (- c_rd g) s /\
  dot3 (sub3 r s) (sub3 r s) = (c_rs g + c_rd g) * (c_rs g + c_rd g).
Proof. exact cone_circles. Qed.
Print Assumptions conebeam_circles.

(* ===================== 4. parallel beams: one ray direction ===================== *)
(* surface normals are unit vectors orthogonal to the surface tangent(s) -- all five detector classes *)
Theorem detector_normals :
  (forall (d : det2d) (p : dpar2), deriv2 d p <> (0, 0) ->
     dot2 (normal2 sqrt d p) (deriv2 d p) = 0 /\ dot2 (normal2 sqrt d p) (normal2 sqrt d p) = 1) /\
  (forall (d : det3d) (p : dpar3), cross3 (fst (deriv3 d p)) (snd (deriv3 d p)) <> (0, 0, 0) ->
     dot3 (normal3 sqrt d p) (fst (deriv3 d p)) = 0 /\ dot3 (normal3 sqrt d p) (snd (deriv3 d p)) = 0 /\
     dot3 (normal3 sqrt d p) (normal3 sqrt d p) = 1).
Proof. exact detector_normals_l. Qed.
Print Assumptions detector_normals.

(* Parallel2dGeometry: det_to_src is the same for all detector points, of unit length, and
   orthogonal to the rotated detector axis *)
Theorem parallel2d_ray_direction : forall (g : par2d) (a : R * R) (p q : dpar2) (ax : R * R),
  p2_det g = Flat1 ax -> dot2 ax ax = 1 -> on_circle a ->
  par2d_det_to_src sqrt g a p = par2d_det_to_src sqrt g a q /\
  dot2 (par2d_det_to_src sqrt g a p) (par2d_det_to_src sqrt g a p) = 1 /\
  dot2 (par2d_det_to_src sqrt g a p) (par2d_det_axis g a) = 0.
Proof. exact par2d_ray. Qed.
Print Assumptions parallel2d_ray_direction.

(* Parallel3dAxis/EulerGeometry: for ANY rotation matrix m (sections 1) and independent detector
   axes: the direction m n is the same for all detector points, unit, orthogonal to both rotated axes *)
Theorem parallel3d_ray_direction : forall (m : (R * R * R) * (R * R * R) * (R * R * R)) (a0 a1 : R * R * R) (p q : dpar3),
  mm3 (tr3 m) m = id3 -> cross3 a0 a1 <> (0, 0, 0) ->
  let n := fun p => mv3 m (normal3 sqrt (Flat2 a0 a1) p) in
  n p = n q /\ dot3 (n p) (n p) = 1 /\ dot3 (n p) (mv3 m a0) = 0 /\ dot3 (n p) (mv3 m a1) = 0.
Proof. exact par3_ray_generic. Qed.
Print Assumptions parallel3d_ray_direction.

(* the detector constructors establish the hypotheses used above (unit axes, independence) *)
Theorem detector_constructors_wellformed :
  (forall axis d, mk_flat1 sqrt axis = Some d -> wf_det2 d) /\
  (forall axis r d, mk_circ sqrt axis r = Some d -> wf_det2 d) /\
  (forall a0 a1 d, mk_flat2 sqrt a0 a1 = Some d -> wf_det3 d).
Proof. exact detector_constructors_wellformed_l. Qed.
Print Assumptions detector_constructors_wellformed.


(* ============ 5. factories: the detector covers the volume (parallel_beam_geometry) ============ *)
(* every point of the rectangle [ax,bx] x [ay,by] projects, at every angle, inside the detector range
   [-rho, rho] that parallel_beam_geometry chooses (rho = largest corner distance); in 3-d the second
   detector coordinate is z itself and the range is [min_z, max_z] *)
Theorem parallel_factory_covers_volume : forall (ax bx ay by_ x y : R) (a : R * R),
  ax <= x <= bx -> ay <= y <= by_ -> on_circle a ->
  let '(lo, hi) := par_factory_det_range sqrt ax bx ay by_ in
  lo <= par2d_coord par2d_default a (x, y) <= hi.
Proof. exact par2d_factory_covers. Qed.
Print Assumptions parallel_factory_covers_volume.

(* 3-d volume, Parallel3dAxisGeometry with the default axes: detector coordinates (x cos + y sin, z) *)
Theorem parallel_factory_covers_volume_3d : forall (ax bx ay by_ az bz x y z : R) (a : R * R),
  ax <= x <= bx -> ay <= y <= by_ -> az <= z <= bz -> on_circle a ->
  let '(lo, hi) := par_factory_det_range sqrt ax bx ay by_ in
  let '(u, v) := par3a_coords par3a_default a (x, y, z) in
  lo <= u <= hi /\ az <= v <= bz.
Proof. exact par3a_factory_covers. Qed.
Print Assumptions parallel_factory_covers_volume_3d.

(* ---- cone_beam_geometry / helical_geometry: "its size is chosen such that the whole space is
   covered with lines" -- FALSE for the flat detector the factory builds.  Full statement:
     forall rho rs rd xn xt, 0 < rho < rs -> 0 <= rd -> xn^2 + xt^2 <= rho^2 ->
       |fan_hit rs rd xn xt| <= cone_factory_halfwidth rho rs rd
   ([fan_hit] = detector coordinate of the ray through the point, proved correct below).
   Recorded finding C19/cone-beam-geometry-flat-coverage. *)
Theorem fan_hit_is_the_ray_intersection : forall (rs rd : R) (a : R * R) (X : R * R), on_circle a ->
  let g := fan_default rs rd in
  let xt := dot2 X (fan_det_axis g a) in
  let xn := dot2 X (mv2 (euler2 a) (f_s2d g)) in
  rs + xn <> 0 ->
  let u := fan_hit rs rd xn xt in
  cross2 (sub2 (fan_detpoint g a (0, 0) (u, (1, 0))) (fan_src g a (0, 0)))
         (sub2 X (fan_src g a (0, 0))) = 0.
Proof. exact fan_hit_on_ray. Qed.
Print Assumptions fan_hit_is_the_ray_intersection.

Theorem cone_factory_coverage_refuted :
  exists rho rs rd xn xt : R,
    0 < rho < rs /\ 0 <= rd /\ xn * xn + xt * xt <= rho * rho /\
    cone_factory_halfwidth rho rs rd < fan_hit rs rd xn xt.
Proof. exact cone_factory_coverage_refuted_l. Qed.
Print Assumptions cone_factory_coverage_refuted.

(* what does hold: the far half of the disc is covered ... *)
Theorem cone_factory_coverage_partial : forall rho rs rd xn xt : R,
  0 < rho < rs -> 0 <= rd -> xn * xn + xt * xt <= rho * rho -> 0 <= xn ->
  - cone_factory_halfwidth rho rs rd <= fan_hit rs rd xn xt <= cone_factory_halfwidth rho rs rd.
Proof. exact cone_factory_coverage_partial_l. Qed.
Print Assumptions cone_factory_coverage_partial.

(* ... and the half width W = (rs + rd) rho / sqrt(rs^2 - rho^2) (stated with squares) covers all of it
   (this is the repair in proposed_fixes/C19_cone-beam-geometry-flat-coverage.diff) *)
Theorem cone_factory_coverage_repaired : forall rho rs rd xn xt : R,
  0 < rho < rs -> 0 <= rd -> xn * xn + xt * xt <= rho * rho ->
  let u := fan_hit rs rd xn xt in
  u * u * (rs * rs - rho * rho) <= (rs + rd) * (rs + rd) * (rho * rho).
Proof. exact cone_factory_coverage_repaired_l. Qed.
Print Assumptions cone_factory_coverage_repaired.

(* helical_geometry: offset_along_axis = min_z and pitch = (max_z - min_z) / num_turns make the source travel exactly
   from the bottom to the top of the volume over the angle range [0, 2 pi num_turns] *)
Theorem helical_factory_spans_volume : forall (g : cone) (zmin zmax turns twopi : R),
  turns <> 0 -> twopi <> 0 ->
  c_off g = fst (helical_params zmin zmax turns) -> c_pitch g = snd (helical_params zmin zmax turns) ->
  cone_along g 0 twopi 0 = zmin /\ cone_along g (twopi * turns) twopi 0 = zmax.
Proof. exact helical_span. Qed.
Print Assumptions helical_factory_spans_volume.

(* cone_beam_geometry, 3-d: the detector half height sin(arctan t) (rs + rd) = t / sqrt(1 + t^2) (rs + rd) chosen before
   the pixel round-up is strictly smaller than the t (rs + rd) that full vertical coverage needs -- for EVERY t > 0
   (recorded finding C19/cone-beam-geometry-vertical-coverage; the round-up hides it only sometimes) *)
Theorem cone_factory_vertical_coverage_refuted : forall t rs rd : R, 0 < t -> 0 < rs + rd ->
  cone_factory_halfheight sqrt t rs rd < t * (rs + rd).
Proof. exact cone_vertical_refuted. Qed.
Print Assumptions cone_factory_vertical_coverage_refuted.

(* ... and what the chosen height DOES cover (the instance probed on the z-min and z-max faces of shifted volumes):
   with d = rs - rho and zm = max(|z_min|, |z_max|), every point at height |z| <= zm whose distance from the source along
   the central ray, rs + xn, is at least sqrt(d^2 + zm^2) projects inside the detector vertically *)
Theorem cone_factory_vertical_coverage_partial : forall zm d z xn rs rd : R,
  0 < d -> Rabs z <= zm -> sqrt (d * d + zm * zm) <= rs + xn -> 0 <= rs + rd ->
  Rabs ((rs + rd) * z / (rs + xn)) <= cone_factory_halfheight sqrt (zm / d) rs rd.
Proof. exact cone_vertical_partial. Qed.
Print Assumptions cone_factory_vertical_coverage_partial.

(* ===================== 6. slicing by angle index (__getitem__) ===================== *)
(* Parallel2dGeometry: geom[i:j] is rebuilt from the un-translated det_pos_init, the detector axis argument and the
   translation, and IS the same geometry (same det_pos_init, translation, detector) -- all arguments *)
Theorem parallel2d_slice : forall (pos : R * R) (ax : option (R * R)) (tr : R * R) (g : par2d),
  mk_par2d sqrt pos ax tr = Some g -> par2d_getitem sqrt g ax = Some g.
Proof. exact par2d_getitem_same_l. Qed.
Print Assumptions parallel2d_slice.

(* the defect repaired by fix 388a3ff (finding C19/parallel2d-getitem-translation-twice), kept as a statement about the
   explicit old call: rebuilding from the TRANSLATED position plus the translation moves det_pos_init *)
Theorem parallel2d_slice_old_call_refuted : forall (pos : R * R) (ax : option (R * R)) (tr : R * R) (g g' : par2d),
  mk_par2d sqrt pos ax tr = Some g -> mk_par2d sqrt (p2_pos g) ax (p2_tr g) = Some g' ->
  p2_pos g' = add2 (p2_pos g) tr /\ (tr <> (0, 0) -> p2_pos g' <> p2_pos g).
Proof. exact par2d_getitem_old_l. Qed.
Print Assumptions parallel2d_slice_old_call_refuted.

(* The other classes: __getitem__ passes the NORMALISED axis / src_to_det_init and the ORIGINAL optional arguments.
   For geometries built with explicit initial vectors the rebuilt geometry is identical (all detector types, radii,
   pitch, offset, translation).  When an initial vector is defaulted it is re-derived by transform_system from the
   normalised principal vector; its allclose test is not scale invariant, so exact identity is only validated there
   (correspondence + probes), not proved. *)
Theorem parallel3d_axis_slice : forall (axis pos : R * R * R) (axes : (R * R * R) * (R * R * R)) (tr : R * R * R) (g : par3a),
  mk_par3a sqrt axis (Some pos) (Some axes) tr = Some g -> par3a_getitem sqrt g = Some g.
Proof. exact par3a_getitem_same. Qed.
Print Assumptions parallel3d_axis_slice.

Theorem fanbeam_slice : forall (rs rd : R) (curv : option R) (s2d ax : R * R) (tr : R * R) (g : fan),
  mk_fan sqrt rs rd curv s2d (Some ax) tr = Some g -> fan_getitem sqrt g (Some ax) = Some g.
Proof. exact fan_getitem_same. Qed.
Print Assumptions fanbeam_slice.

Theorem conebeam_slice : forall (fixed : bool) (rs rd : R) (curv : curv3) (pitch off : R) (axis sd : R * R * R)
    (axes : (R * R * R) * (R * R * R)) (tr : R * R * R) (g : cone),
  mk_cone sqrt fixed rs rd curv pitch off axis (Some sd) (Some axes) tr = Some g -> cone_getitem sqrt fixed g = Some g.
Proof. exact cone_getitem_same. Qed.
Print Assumptions conebeam_slice.

(* ============ 7. detector surface parametrisations and their derivatives ============ *)
(* CircularDetector: surface(0) = 0; the surface is the circle of radius r about [circ_transl];
   the derivative is tangent to it, has length r (= surface_measure) and equals r * axis at 0 *)
Theorem circular_detector_surface : forall (ax : R * R) (r u : R) (cs : R * R),
  dot2 ax ax = 1 -> on_circle cs ->
  let d := Circ ax r in let p := (u, cs) in
  let c := circ_transl ax r in
  surf2 d (u, (1, 0)) = (0, 0) /\
  dot2 (sub2 (surf2 d p) c) (sub2 (surf2 d p) c) = r * r /\
  dot2 (deriv2 d p) (sub2 (surf2 d p) c) = 0 /\
  dot2 (deriv2 d p) (deriv2 d p) = r * r /\
  deriv2 d (u, (1, 0)) = scal2 r ax.
Proof. exact circ_detector_spec. Qed.
Print Assumptions circular_detector_surface.

(* CylindricalDetector (rotation matrix m orthogonal, as the constructor establishes): surface(0,0) = 0;
   height v along m e_z; distance r from the cylinder axis; the two derivatives are orthogonal,
   of lengths r and 1, the angular one tangent to the cylinder *)
Theorem cylindrical_detector_surface : forall (a0 a1 : R * R * R) (r : R) m (u v : R) (cu cv : R * R),
  mm3 (tr3 m) m = id3 -> on_circle cu ->
  let d := Cyl a0 a1 r m in let p := (u, v, cu, cv) in
  let c := curved_transl r m in
  let w := sub3 (surf3 d p) c in
  let zax := mv3 m (0, 0, 1) in
  surf3 d (u, 0, (1, 0), cv) = (0, 0, 0) /\
  dot3 w zax = v /\
  dot3 w w = r * r + v * v /\
  dot3 (fst (deriv3 d p)) w = 0 /\
  dot3 (fst (deriv3 d p)) (snd (deriv3 d p)) = 0 /\
  dot3 (snd (deriv3 d p)) (snd (deriv3 d p)) = 1 /\
  dot3 (fst (deriv3 d p)) (fst (deriv3 d p)) = r * r.
Proof. exact cyl_detector_spec. Qed.
Print Assumptions cylindrical_detector_surface.

(* SphericalDetector: surface(0,0) = 0; sphere of radius r about [curved_transl]; both derivatives
   tangent, mutually orthogonal, of lengths r cos(v) and r *)
Theorem spherical_detector_surface : forall (a0 a1 : R * R * R) (r : R) m (u v : R) (cu cv : R * R),
  mm3 (tr3 m) m = id3 -> on_circle cu -> on_circle cv ->
  let d := Sph a0 a1 r m in let p := (u, v, cu, cv) in
  let c := curved_transl r m in
  let w := sub3 (surf3 d p) c in
  surf3 d (u, v, (1, 0), (1, 0)) = (0, 0, 0) /\
  dot3 w w = r * r /\
  dot3 (fst (deriv3 d p)) w = 0 /\ dot3 (snd (deriv3 d p)) w = 0 /\
  dot3 (fst (deriv3 d p)) (snd (deriv3 d p)) = 0 /\
  dot3 (snd (deriv3 d p)) (snd (deriv3 d p)) = r * r /\
  dot3 (fst (deriv3 d p)) (fst (deriv3 d p)) = r * r * (fst cv * fst cv).
Proof. exact sph_detector_spec. Qed.
Print Assumptions spherical_detector_surface.

(* ====== 8. rotation_matrix_from_to / transform_system always produce rotation matrices ====== *)
(* (all branches: parallel / antiparallel / perpendicular / generic, 2-d and 3-d; the allclose window
   of transform_system gives the identity) -- so the default detector axes and positions of every
   geometry are a rotated copy of the class defaults *)
Theorem from_to_is_rotation :
  (forall fv tv m, from_to2 sqrt fv tv = Some m -> mm2 (tr2 m) m = id2 /\ det2 m = 1) /\
  (forall fv tv m, from_to3 sqrt fv tv = Some m -> mm3 (tr3 m) m = id3 /\ det3 m = 1) /\
  (forall pv pd m, tsys2 sqrt pv pd = Some m -> mm2 (tr2 m) m = id2 /\ det2 m = 1) /\
  (forall pv pd m, tsys3 sqrt pv pd = Some m -> mm3 (tr3 m) m = id3 /\ det3 m = 1).
Proof. exact from_to_is_rotation_l. Qed.
Print Assumptions from_to_is_rotation.

(* ====== 9. every geometry the constructors return satisfies the hypotheses used above ====== *)
(* unit rotation axis, unit src_to_det_init, unit and independent detector axes, orthogonal curved-
   detector matrix, admissible radii -- for ALL constructor arguments that are accepted *)
Theorem constructed_geometries_wellformed :
  (forall pos ax tr g, mk_par2d sqrt pos ax tr = Some g ->
     wf_det2 (p2_det g) /\ exists a, p2_det g = Flat1 a) /\
  (forall pos axes tr g, mk_par3d sqrt pos axes tr = Some g ->
     wf_det3' (p3_det g) /\ p3_tr g = tr /\ p3_pos g = add3 pos tr) /\
  (forall axis pos axes tr g, mk_par3a sqrt axis pos axes tr = Some g ->
     dot3 (pa_axis g) (pa_axis g) = 1 /\ wf_det3' (pa_det g) /\ pa_tr g = tr) /\
  (forall rs rd curv s2d axis tr g, mk_fan sqrt rs rd curv s2d axis tr = Some g ->
     dot2 (f_s2d g) (f_s2d g) = 1 /\ wf_det2 (f_det g) /\ 0 <= f_rs g /\ 0 <= f_rd g /\
     ~ (f_rs g = 0 /\ f_rd g = 0) /\ f_tr g = tr) /\
  (forall rs rd curv pitch off axis s2d axes tr g,
     mk_cone sqrt false rs rd curv pitch off axis s2d axes tr = Some g ->
     dot3 (c_axis g) (c_axis g) = 1 /\ dot3 (c_s2d g) (c_s2d g) = 1 /\ wf_det3' (c_det g) /\
     0 <= c_rs g /\ 0 <= c_rd g /\ ~ (c_rs g = 0 /\ c_rd g = 0) /\
     c_tr g = tr /\ c_pitch g = pitch /\ c_off g = off).
Proof. exact constructed_wf_l. Qed.
Print Assumptions constructed_geometries_wellformed.

(* the same for the alignment of curved detectors that /repo uses since 5d26109 ([true]): detector axes given
   explicitly and perpendicular, or defaulted *)
Theorem constructed_conebeam_wellformed_current : forall rs rd curv pitch off axis s2d axes tr (g : cone),
  match axes with Some (a0, a1) => dot3 a0 a1 = 0 | None => True end ->
  mk_cone sqrt true rs rd curv pitch off axis s2d axes tr = Some g ->
  dot3 (c_axis g) (c_axis g) = 1 /\ dot3 (c_s2d g) (c_s2d g) = 1 /\ wf_det3' (c_det g) /\
  0 <= c_rs g /\ 0 <= c_rd g /\ ~ (c_rs g = 0 /\ c_rd g = 0) /\
  c_tr g = tr /\ c_pitch g = pitch /\ c_off g = off.
Proof. exact mk_cone_wf_current. Qed.
Print Assumptions constructed_conebeam_wellformed_current.

(* ============ 10. building a geometry from a transformation matrix (frommatrix) ============ *)
(* For a rotation matrix m and a translation t, whenever frommatrix succeeds, every absolute vector of
   the new geometry is  t + m (vector of the class-default geometry)  -- for all angles, shifts and
   detector parameters.  2-d classes: rotations commute; axis-oriented 3-d class: the rotation about
   the image axis is the conjugate  R_{m ax}(a) m = m R_ax(a)  (proved for every rotation m). *)
Theorem parallel2d_frommatrix : forall m (tr : R * R) (g : par2d) (a : R * R) (u : R) (cs : R * R),
  is_rot2 m -> par2d_frommatrix sqrt m tr = Some g ->
  par2d_detpoint g a (u, cs) = add2 tr (mv2 m (par2d_detpoint par2d_default a (u, cs))) /\
  par2d_det_axis g a = mv2 m (par2d_det_axis par2d_default a) /\
  p2_tr g = tr.
Proof. exact par2d_frommatrix_spec. Qed.
Print Assumptions parallel2d_frommatrix.

Theorem fanbeam_frommatrix : forall (rs rd : R) m (tr : R * R) (g : fan) (a : R * R) (ssh dsh : R * R) (u : R) (cs : R * R),
  is_rot2 m -> fan_frommatrix sqrt rs rd None m tr = Some g ->
  fan_detpoint g a dsh (u, cs) = add2 tr (mv2 m (fan_detpoint (fan_default rs rd) a dsh (u, cs))) /\
  fan_src g a ssh = add2 tr (mv2 m (fan_src (fan_default rs rd) a ssh)) /\
  fan_det_axis g a = mv2 m (fan_det_axis (fan_default rs rd) a).
Proof. exact fan_frommatrix_spec. Qed.
Print Assumptions fanbeam_frommatrix.

Theorem rodrigues_conjugation : forall m (ax : R * R * R) (a : R * R) (v : R * R * R), is_rot3 m ->
  mv3 (axis_rot (mv3 m ax) a) (mv3 m v) = mv3 m (mv3 (axis_rot ax a) v).
Proof. exact axis_rot_conj. Qed.
Print Assumptions rodrigues_conjugation.

Theorem parallel3d_axis_frommatrix : forall m (tr : R * R * R) (g : par3a) (a : R * R) (p : dpar3),
  is_rot3 m -> par3a_frommatrix sqrt m tr = Some g ->
  par3a_detpoint g a p = add3 tr (mv3 m (par3a_detpoint par3a_default a p)) /\
  pa_axis g = mv3 m (0, 0, 1) /\ pa_tr g = tr.
Proof. exact par3a_frommatrix_spec. Qed.
Print Assumptions parallel3d_axis_frommatrix.

(* ConeBeamGeometry.frommatrix (flat detector), incl. helical pitch, offset and shift functions *)
Theorem conebeam_frommatrix : forall (fixed : bool) (rs rd pitch off : R) m (tr : R * R * R) (g : cone)
    (a : R * R) (ang twopi : R) (ssh dsh : R * R * R) (p : dpar3),
  is_rot3 m -> cone_frommatrix sqrt fixed rs rd CFlat pitch off m tr = Some g ->
  cone_src sqrt g a ang twopi ssh = add3 tr (mv3 m (cone_src sqrt (cone_default rs rd pitch off) a ang twopi ssh)) /\
  cone_detpoint sqrt g a ang twopi dsh p =
    add3 tr (mv3 m (cone_detpoint sqrt (cone_default rs rd pitch off) a ang twopi dsh p)) /\
  c_axis g = mv3 m (0, 0, 1).
Proof. exact cone_frommatrix_spec. Qed.
Print Assumptions conebeam_frommatrix.

(* Parallel3dEulerGeometry.frommatrix: the Euler rotation does not commute with m, so the statement is about the
   initial configuration: it is t + m (default initial configuration), Euler-rotated about the translation point *)
Theorem parallel3d_euler_frommatrix : forall m (tr : R * R * R) (g : par3d) (ph th ps : R * R) (p : dpar3),
  is_rot3 m -> par3d_frommatrix sqrt m tr = Some g ->
  par3d_detpoint g ph th ps p =
    add3 tr (mv3 (euler3 ph th ps) (mv3 m (par3d_detpoint par3d_default (1, 0) (1, 0) (1, 0) p))) /\
  p3_tr g = tr.
Proof. exact par3d_frommatrix_spec. Qed.
Print Assumptions parallel3d_euler_frommatrix.

(* ---- curved detectors with non-default axes.  Until fix 5d26109 Cylindrical/SphericalDetector aligned themselves by
   two successive rotation_matrix_from_to calls; when the first rotation took e_z to -axes[1] the second one was a half
   turn about an ARBITRARY perpendicular axis and axes[0] was lost (finding C19/curved-detector-antiparallel-axes, now
   fixed; the old alignment [mk_curved false] is still refuted by execution in [curved_alignment_refuted] below).
   Since the fix the second rotation is about axes[0]; for perpendicular axes that is the rotation with columns
   -(a0 x a1), -a0, a1, which is what [mk_curved true] uses (closed form of the repaired code, compared with it by the
   correspondence on every curved case; the harness measures which alignment /repo shows).  For the current alignment: *)
Theorem curved_detector_deriv_at_zero_repaired : forall (sph : bool) (a0 a1 : R * R * R) (r u v : R) (d : det3d),
  dot3 a0 a1 = 0 -> mk_curved sqrt true sph a0 a1 r = Some d ->
  deriv3 d (u, v, (1, 0), (1, 0)) =
  (scal3 r (fst (det3_axes d)), if sph then scal3 r (snd (det3_axes d)) else snd (det3_axes d)).
Proof. exact mk_curved_fixed_deriv. Qed.
Print Assumptions curved_detector_deriv_at_zero_repaired.

Theorem conebeam_frommatrix_curved_repaired : forall (sph : bool) (rs rd r pitch off : R) m (tr : R * R * R) (g : cone)
    (a : R * R) (ang twopi : R) (dsh : R * R * R) (p : dpar3),
  is_rot3 m ->
  cone_frommatrix sqrt true rs rd (if sph then CSph r else CCyl r) pitch off m tr = Some g ->
  cone_detpoint sqrt g a ang twopi dsh p =
    add3 tr (mv3 m (cone_detpoint sqrt (cone_default_curved sph rs rd r pitch off) a ang twopi dsh p)).
Proof. exact cone_frommatrix_curved_spec. Qed.
Print Assumptions conebeam_frommatrix_curved_repaired.

(* =========== non-vacuity: the hypotheses above are met by objects the code builds =========== *)
From Coq Require Import QArith.
From Verif Require Import Base.Check C19.Corr.
(* the factory's default geometries are what the constructors return (executed at Q) *)
Example default_geometries_are_constructed :
  (match mk_par2d Qsqrt (0, 1)%Q None (0, 0)%Q with
   | Some g => Qeq_bool (fst (p2_pos g)) 0 && Qeq_bool (snd (p2_pos g)) 1 &&
               match p2_det g with Flat1 (a0, a1) => Qeq_bool a0 1 && Qeq_bool a1 0 | _ => false end
   | None => false end) = true /\
  (match mk_fan Qsqrt 5 5 None (0, 1)%Q None (0, 0)%Q with
   | Some g => Qeq_bool (fst (f_s2d g)) 0 && Qeq_bool (snd (f_s2d g)) 1 &&
               match f_det g with Flat1 (a0, a1) => Qeq_bool a0 1 && Qeq_bool a1 0 | _ => false end
   | None => false end) = true.
Proof. split; vm_compute; reflexivity. Qed.
(* slicing a translated Parallel2dGeometry succeeds and keeps det_pos_init; the old call moved it *)
Example slice_instance :
  (match mk_par2d Qsqrt (3, 4)%Q None (1, 2)%Q with
   | Some g => match par2d_getitem Qsqrt g None, mk_par2d Qsqrt (p2_pos g) None (p2_tr g) with
               | Some g2, Some g1 => Qeq_bool (fst (p2_pos g1)) 5 && Qeq_bool (snd (p2_pos g1)) 8 &&
                                     Qeq_bool (fst (p2_pos g2)) 4 && Qeq_bool (snd (p2_pos g2)) 6
               | _, _ => false end
   | None => false end) = true.
Proof. vm_compute. reflexivity. Qed.
(* a generic unit axis and circle point: the rotation is orthonormal (executed) *)
Example rodrigues_instance :
  let m := axis_rot ((3 # 13), (4 # 13), (12 # 13))%Q ((3 # 5), (4 # 5))%Q in
  (fm3 (mm3 (tr3 m) m)) = [1; 0; 0; 0; 1; 0; 0; 0; 1]%Q /\ det3 m = 1%Q.
Proof. vm_compute. split; reflexivity. Qed.
(* frommatrix succeeds for a rational rotation matrix (executed) *)
Example frommatrix_instance :
  (match par2d_frommatrix Qsqrt (((3 # 5), (-4 # 5)), ((4 # 5), (3 # 5)))%Q (1, 2)%Q with Some _ => true | None => false end) = true /\
  (match par3a_frommatrix Qsqrt ((1, 0, 0), (0, (3 # 5), (-4 # 5)), (0, (4 # 5), (3 # 5)))%Q (1, 2, 3)%Q with
   Some _ => true | None => false end) = true.
Proof. split; vm_compute; reflexivity. Qed.
(* the 3-d defaults used in the statements are what the constructors return (executed) *)
Example default_geometries_3d_are_constructed :
  (match mk_par3a Qsqrt (0, 0, 1)%Q None None (0, 0, 0)%Q with
   | Some g => Qsclose 0 0 (f3 (pa_axis g) ++ f3 (pa_pos g) ++ f33 (det3_axes (pa_det g))) [0; 0; 1; 0; 1; 0; 1; 0; 0; 0; 0; 1]
   | None => false end) = true /\
  (match mk_cone Qsqrt false 5 3 CFlat 2 1 (0, 0, 1)%Q None None (0, 0, 0)%Q with
   | Some g => Qsclose 0 0 (f3 (c_axis g) ++ f3 (c_s2d g) ++ f33 (det3_axes (c_det g)) ++ [c_pitch g; c_off g])
                           [0; 0; 1; 0; 1; 0; 1; 0; 0; 0; 0; 1; 2; 1]
   | None => false end) = true.
Proof. split; vm_compute; reflexivity. Qed.
(* the alignment before fix 5d26109 ([false]): for axes ((0,1,0),(0,0,1)) the alignment matrix sends -e_y to -axes[0], and
   frommatrix with the quarter turn about z is not the rotated default geometry; the current alignment ([true])
   is right on the same inputs (executed) *)
Example curved_alignment_refuted :
  let z90 : (Q * Q * Q) * (Q * Q * Q) * (Q * Q * Q) := ((0, -1, 0), (1, 0, 0), (0, 0, 1))%Q in
  let p : dpar3 := (0, 1 # 2, (3 # 5, 4 # 5), (1, 0))%Q in
  let pos (fixed : bool) (m : option ((Q * Q * Q) * (Q * Q * Q) * (Q * Q * Q))) :=
    match (match m with Some m => cone_frommatrix Qsqrt fixed 3 2 (CCyl (5 # 2)) 0 0 m (0, 0, 0)%Q
                      | None => mk_cone Qsqrt fixed 3 2 (CCyl (5 # 2)) 0 0 (0, 0, 1)%Q None None (0, 0, 0)%Q end) with
    | Some g => f3 (cone_detpoint Qsqrt g (1, 0)%Q 0 1 (0, 0, 0)%Q p) | None => [] end in
  (match mk_curved Qsqrt false false (0, 1, 0)%Q (0, 0, 1)%Q 2, mk_curved Qsqrt true false (0, 1, 0)%Q (0, 0, 1)%Q 2 with
   | Some (Cyl _ _ _ m0), Some (Cyl _ _ _ m1) =>
       Qsclose 0 0 (f3 (mv3 m0 (0, -1, 0)%Q)) [0; -1; 0] && Qsclose 0 0 (f3 (mv3 m1 (0, -1, 0)%Q)) [0; 1; 0]
   | _, _ => false end) = true /\
  Qsclose 0 0 (pos true (Some z90)) (f3 (mv3 z90 (match pos true None with [x; y; z] => (x, y, z) | _ => (0, 0, 0)%Q end))) = true /\
  Qsclose 0 0 (pos false (Some z90)) (f3 (mv3 z90 (match pos false None with [x; y; z] => (x, y, z) | _ => (0, 0, 0)%Q end))) = false.
Proof. vm_compute. repeat split; reflexivity. Qed.
