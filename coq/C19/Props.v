(* C19/Props.v -- property theorems only. *)
From Coq Require Import Reals List Bool.
From Verif Require Import Base.Num C19.Model C19.Proofs.
Import ListNotations.
Local Open Scope R_scope.

Theorem euler2_orthonormal : forall c s : R, c * c + s * s = 1 ->
  mm2 (tr2 (euler2 (c, s))) (euler2 (c, s)) = id2 /\ det2 (euler2 (c, s)) = 1.
Proof. exact euler2_orthonormal_l. Qed.
Print Assumptions euler2_orthonormal.
