(* C07/Model.v -- executable value-level model of
     odl/solvers/nonsmooth/proximal_operators.py      (closed-form factories + calculus rules)
     odl/solvers/functional/default_functionals.py    (the .proximal bindings and _call values)
     odl/solvers/functional/functional.py             (Functional*.proximal bindings)
   Definitions only.  Polymorphic over the carrier (executed at Q, proved at R).

   Spaces.  Every space that occurs (rn, weighted rn, uniform_discr, product /
   power spaces of those) is modelled FLAT: an element is the list of its
   entries (product spaces: concatenation of the parts) and the space is its
   list of weights [w]:  <x,y> = sum_i w_i x_i y_i   (rn: all 1; constant
   weighting / uniform_discr: all c = cell volume; array weighting: the array).
   Extended values: [option T], [None] = +infinity.                           *)
From Coq Require Import ZArith QArith Qabs Reals List Bool.
From Verif Require Import Base.Num Base.Vec.
Import ListNotations.
Local Open Scope num_scope.

(* ---- the carrier needs a square root (L2 norm, pointwise norms, KL, and
   the constant 1/sqrt(2 sigma a + 1) of proximal_quadratic_perturbation) ---- *)
Class NumS (T : Type) `{Num T} := { nsqrt : T -> T }.

(* rational square root: exact on squares of rationals, otherwise the floor
   approximation with relative error < 2^-64 *)
Definition Qsqrt (q : Q) : Q :=
  let q' := Qred q in
  let a := Qnum q' in let b := Zpos (Qden q') in
  if (a <=? 0)%Z then 0%Q
  else let S := (2 ^ 64)%Z in
       Qred (Qmake (Z.sqrt (a * b * S * S)) (Z.to_pos (b * S))).

Global Instance NumS_Q : NumS Q := {| nsqrt := Qsqrt |}.
Global Instance NumS_R : NumS R := {| nsqrt := sqrt |}.

Inductive err := EValue | EType | EAttr | EOther.
Inductive res (A : Type) := Ok (a : A) | Err (e : err).
Arguments Ok {A} a.
Arguments Err {A} e.

Definition rbind {A B} (r : res A) (k : A -> res B) : res B :=
  match r with Ok a => k a | Err e => Err e end.
Definition rmap {A B} (f : A -> B) (r : res A) : res B :=
  match r with Ok a => Ok (f a) | Err e => Err e end.

Section M.
Context {T : Type} `{NS : NumS T}.

(* ------------------------------------------------------------ extended values *)
Definition ext := option T.
Definition eadd (a b : ext) : ext :=
  match a, b with Some a, Some b => Some (a + b) | _, _ => None end.
Definition escal (s : T) (a : ext) : ext :=
  match a with Some a => Some (s * a) | None => None end.

(* ------------------------------------------------------------ step sizes *)
(* scalar, per point (a space element), or per component of a separable sum *)
Inductive sig := SScal (s : T) | SVec (v : list T) | SPair (a b : sig).

(* the per-point step vector a (scalar or element) step denotes on n entries *)
Definition sigv (n : nat) (s : sig) : list T :=
  match s with SScal s => repeat s n | SVec v => v | SPair _ _ => [] end.

Fixpoint sig_scale (c : T) (s : sig) : sig :=
  match s with
  | SScal s => SScal (s * c)
  | SVec v => SVec (map (fun a => a * c) v)
  | SPair a b => SPair (sig_scale c a) (sig_scale c b)
  end.

(* ------------------------------------------------------------ norms, weighted *)
Definition winner (w x y : list T) : T := wdot w x y.
Definition wnormsq (w x : list T) : T := wdot w x x.
Definition wnorm (w x : list T) : T := nsqrt (wnormsq w x).
Definition wsum1 (w x : list T) : T := sumf (vmul w (map nabs x)).   (* |x|.inner(one) *)

(* ============================================================================
   Closed-form factories (proximal_operators.py).  [g : option (list T)] is the
   optional translation / prior argument.
   ========================================================================== *)
Definition gsub (x : list T) (g : option (list T)) : list T :=
  match g with Some g => vsub x g | None => x end.

(* proximal_l1(space, lam, g)(sigma):  diff = x - g; denom = max(|diff|/(sigma*lam), 1);
   out = x - diff/denom.   sigma scalar or space element. *)
Definition prox_l1 (lam : T) (g : option (list T)) (s : list T) (x : list T) : list T :=
  let diff := gsub x g in
  let denom := vmap2 (fun d si => nmax (nabs d / (si * lam)) none_) diff s in
  vsub x (vdiv diff denom).

(* proximal_convex_conj_l1(space, lam, g)(sigma): diff = x - sigma*g;
   out = diff / (max(|diff|, lam)/lam).   (the code shrinks lam by 1-1e-14; the model does not) *)
Definition prox_cc_l1 (lam : T) (g : option (list T)) (s : T) (x : list T) : list T :=
  let diff := match g with Some g => vlin none_ x (- s) g | None => x end in
  map (fun d => d / (nmax (nabs d) lam / lam)) diff.

(* proximal_l2(space, lam, g)(sigma): block soft threshold in the space norm *)
Definition prox_l2 (w : list T) (lam : T) (g : option (list T)) (s : T) (x : list T) : list T :=
  let xn := wnorm w (gsub x g) in
  let shrink := if nltb nzero xn then nltb (s * lam / xn) none_ else false in
  if shrink then
    let step := s * lam / xn in
    match g with
    | None => vscal (none_ - step) x
    | Some g => vlin (none_ - step) x step g
    end
  else match g with None => map (fun _ => nzero) x | Some g => g end.

Fixpoint vmap3 (f : T -> T -> T -> T) (x y z : list T) : list T :=
  match x, y, z with
  | a :: x', b :: y', c :: z' => f a b c :: vmap3 f x' y' z'
  | _, _, _ => []
  end.

(* proximal_l2_squared(space, lam, g)(sigma); sigma scalar or element.
   scalar: x/(1+2 s lam) + (2 s lam/(1+2 s lam)) g ; element: (x + s*2*lam*g)/(1+2 s lam) *)
Definition prox_l2sq (lam : T) (g : option (list T)) (s : list T) (x : list T) : list T :=
  let two := of_Z 2 in
  match g with
  | None => vmap2 (fun a si => a / (none_ + two * si * lam)) x s
  | Some g => vmap3 (fun a gi si => (a + si * (two * lam * gi)) / (none_ + two * si * lam)) x g s
  end.

(* proximal_convex_conj_l2_squared(space, lam, g)(sigma):  (x - s g)/(1 + s/(2 lam)) *)
Definition prox_cc_l2sq (lam : T) (g : option (list T)) (s : list T) (x : list T) : list T :=
  let half := nhalf in
  match g with
  | None => vmap2 (fun a si => a / (none_ + half / lam * si)) x s
  | Some g => vmap3 (fun a gi si => (a - si * gi) / (none_ + half / lam * si)) x g s
  end.

(* proximal_box_constraint(space, lower, upper)(sigma): maximum then minimum *)
Inductive bound := BNone | BScal (c : T) | BVec (v : list T).
Definition bvec (n : nat) (b : bound) : option (list T) :=
  match b with BNone => None | BScal c => Some (repeat c n) | BVec v => Some v end.
Definition prox_box (lo hi : bound) (x : list T) : list T :=
  let n := length x in
  let y := match bvec n lo with Some l => vmap2 nmax x l | None => x end in
  match bvec n hi with Some h => vmap2 nmin y h | None => y end.

(* proximal_huber(space, gamma)(sigma) on a non-product space *)
Definition prox_huber (gamma : T) (s : T) (x : list T) : list T :=
  map (fun a => if nleb (nabs a) (gamma + s) then gamma / (gamma + s) * a
                else a - s * nsign a) x.

(* proj_simplex(x, diameter): sort descending, running averages, last index
   with x_sor[j] - avg[j] >= 0, then max(x - avg[i], 0) *)
Fixpoint insert_desc (a : T) (l : list T) : list T :=
  match l with
  | [] => [a]
  | b :: l' => if nleb b a then a :: l else b :: insert_desc a l'
  end.
Definition sort_desc (l : list T) : list T := fold_right insert_desc [] l.
(* walk the sorted list with running sum and 1-based index; keep the last avg with crit >= 0 *)
Fixpoint simplex_tau (d : T) (xs : list T) (j : Z) (csum : T) (best : option T) : option T :=
  match xs with
  | [] => best
  | a :: xs' =>
      let csum' := csum + a in
      let avg := (csum' - d) / of_Z j in
      simplex_tau d xs' (j + 1)%Z csum' (if nleb nzero (a - avg) then Some avg else best)
  end.
Definition proj_simplex (d : T) (x : list T) : res (list T) :=
  match simplex_tau d (sort_desc x) 1%Z nzero None with
  | Some tau => Ok (map (fun a => nmax (a - tau) nzero) x)
  | None => Err EValue          (* np.argwhere(...).max() of an empty array *)
  end.

(* proj_l1(x, radius) *)
Definition proj_l1 (r : T) (x : list T) : res (list T) :=
  let u := map nabs x in
  if nleb (sumf u) r then Ok x
  else rmap (fun p => vmul p (map nsign x)) (proj_simplex r u).

(* proximal_linfty(space)(sigma): x - proj_l1(x, sigma) *)
Definition prox_linf (s : T) (x : list T) : res (list T) :=
  rmap (fun p => vsub x p) (proj_l1 s x).

(* proximal_convex_conj_kl(space, lam, g)(sigma): (x + lam - sqrt((x-lam)^2 + 4 lam sigma g))/2 *)
Definition prox_cc_kl (lam : T) (g : option (list T)) (s : T) (x : list T) : list T :=
  let four := of_Z 4 in
  let gg := match g with Some g => g | None => map (fun _ => none_) x end in
  vmap2 (fun a gi => (a - nsqrt ((a - lam) * (a - lam) + four * lam * s * gi) + lam) / of_Z 2) x gg.

(* power spaces X^d, flat layout = d consecutive blocks of m entries.
   pointwise 2-norm over the d components at each of the m points *)
Fixpoint chunks (m : nat) (d : nat) (x : list T) : list (list T) :=
  match d with O => [] | S d' => firstn m x :: chunks m d' (skipn m x) end.
Definition pw_normsq (m d : nat) (x : list T) : list T :=
  fold_right (fun c acc => vmap2 (fun a b => a * a + b) c acc) (repeat nzero m) (chunks m d x).
Definition pw_norm (m d : nat) (x : list T) : list T := map nsqrt (pw_normsq m d x).

(* proximal_l1_l2(space, lam, g)(sigma) *)
Definition prox_l1_l2 (m d : nat) (lam : T) (g : option (list T)) (s : T) (x : list T) : list T :=
  let diff := gsub x g in
  let denom := map (fun a => nmax (a / (s * lam)) none_) (pw_norm m d diff) in
  vsub x (concat (map (fun c => vdiv c denom) (chunks m d diff))).

(* proximal_convex_conj_l1_l2(space, lam, g)(sigma) *)
Definition prox_cc_l1_l2 (m d : nat) (lam : T) (g : option (list T)) (s : T) (x : list T) : list T :=
  let diff := match g with Some g => vlin none_ x (- s) g | None => x end in
  let denom := map (fun a => nmax a lam / lam) (pw_norm m d diff) in
  concat (map (fun c => vdiv c denom) (chunks m d diff)).

(* ============================================================================
   Calculus rules on prox factories (factory = step -> point -> result)
   ========================================================================== *)
Definition factory := sig -> list T -> res (list T).

(* proximal_translation(prox, y)(sigma) = y + prox(sigma)(x - y) *)
Definition prox_translation (pf : factory) (y : list T) : factory :=
  fun s x => rmap (fun q => vadd y q) (pf s (vsub x y)).

(* proximal_arg_scaling(prox, scaling)(sigma) = (1/scaling) * prox(sigma*scaling^2)(scaling * x);
   scaling == 0 -> proximal_const_func *)
Definition prox_arg_scaling (pf : factory) (c : T) : factory :=
  fun s x =>
    if neqb c nzero then Ok x
    else rmap (vscal (none_ / c)) (pf (sig_scale (c * c) s) (vscal c x)).

(* proximal_quadratic_perturbation(prox, a, u)(sigma), scalar sigma:
   const = 1/sqrt(2 sigma a + 1);
   const * proximal_arg_scaling(prox, const)(sigma) (const * x - sigma*const*u) *)
Definition prox_quad_pert (pf : factory) (a : T) (u : option (list T)) : factory :=
  fun s x =>
    if nltb a nzero then Err EValue else
    match s with
    | SScal sg =>
        let c := none_ / nsqrt (sg * of_Z 2 * a + none_) in
        let inner := match u with
                     | Some u => vlin c x (- (sg * c)) u
                     | None => vscal c x end in
        rmap (vscal c) (prox_arg_scaling pf c s inner)
    | _ => Err EOther
    end.

(* proximal_convex_conj(prox)(sigma) = I - sigma * prox(1/sigma)(x/sigma), scalar sigma *)
Definition prox_convex_conj (pf : factory) : factory :=
  fun s x =>
    match s with
    | SScal sg => rmap (fun q => vsub x (vscal sg q)) (pf (SScal (none_ / sg)) (vscal (none_ / sg) x))
    | _ => Err EOther
    end.

(* combine_proximals(f1, f2)(sigma): scalar -> same step for all; sequence -> zip *)
Definition prox_combine (n1 : nat) (p1 p2 : factory) : factory :=
  fun s x =>
    let '(s1, s2) := match s with
                     | SScal _ => (s, s)
                     | SVec v => (SVec (firstn n1 v), SVec (skipn n1 v))
                     | SPair a b => (a, b) end in
    rbind (p1 s1 (firstn n1 x)) (fun q1 => rmap (fun q2 => q1 ++ q2) (p2 s2 (skipn n1 x))).

(* proximal_composition(prox, A, mu)(sigma) = x + (1/mu) A^T (prox(mu sigma)(A x) - A x),
   A a matrix between unweighted spaces *)
Definition prox_composition (pf : factory) (ncols : nat) (A : list (list T)) (mu : T) : factory :=
  fun s x =>
    let ax := mvec A x in
    rmap (fun q => vadd x (vscal (none_ / mu) (mvec (transpose ncols A) (vsub q ax))))
         (pf (sig_scale mu s) ax).

(* ============================================================================
   Functionals: leaves (default_functionals.py) and derived (functional.py)
   ========================================================================== *)
Inductive leaf :=
| FL1                         (* L1Norm / LpNorm(1) *)
| FL2                         (* L2Norm / LpNorm(2) *)
| FL2Sq                       (* L2NormSquared *)
| FLInf                       (* LpNorm(inf) *)
| FConst (c : T)              (* ConstantFunctional, ZeroFunctional *)
| FBox (lo hi : bound)        (* IndicatorBox, IndicatorNonnegativity *)
| FIndZero (c : T)            (* IndicatorZero(constant) *)
| FBallInf | FBall2 | FBall1  (* IndicatorLpUnitBall(inf | 2 | 1) *)
| FHuber (gamma : T)          (* Huber on a non-product space *)
| FSimplex (diam : T)         (* IndicatorSimplex *)
| FGroupL1 (m d : nat) (two : bool)      (* GroupL1Norm(X^d, exponent 2 | 1) *)
| FGroupBall (m d : nat) (two : bool).   (* IndicatorGroupL1UnitBall(X^d, exponent 2 | inf) *)

Definition needs_scalar (s : sig) (k : T -> res (list T)) : res (list T) :=
  match s with SScal sg => k sg | _ => Err EType end.

(* value f(x) on the space with weights w (the _call methods) *)
Definition vmaxabs0 (x : list T) : T := vmaxabs x.
Definition all_leb (x y : list T) : bool :=
  forallb (fun ab => nleb (fst ab) (snd ab)) (combine x y).
Definition veqb (x y : list T) : bool :=
  forallb (fun ab => neqb (fst ab) (snd ab)) (combine x y).
Definition ind (b : bool) : ext := if b then Some nzero else None.
Definition huber1 (gamma a : T) : T :=
  if nltb nzero gamma then
    (if nleb gamma (nabs a) then nabs a - gamma / of_Z 2 else a * a * (none_ / (of_Z 2 * gamma)))
  else nabs a.

Definition leaf_val (k : leaf) (w x : list T) : ext :=
  match k with
  | FL1 => Some (wsum1 w x)
  | FL2 => Some (wnorm w x)
  | FL2Sq => Some (wnormsq w x)
  | FLInf => Some (vmaxabs x)
  | FConst c => Some c
  | FBox lo hi => ind (veqb (prox_box lo hi x) x)
  | FIndZero c => if veqb x (map (fun _ => nzero) x) then Some c else None
  | FBallInf => ind (nleb (vmaxabs x) none_)
  | FBall2 => ind (nleb (wnormsq w x) none_)
  | FBall1 => ind (nleb (wsum1 w x) none_)
  | FHuber gamma => Some (sumf (vmul w (map (huber1 gamma) x)))
  | FSimplex d => ind (neqb (sumf x) d && forallb (nleb nzero) x)
  | FGroupL1 m d two =>
      Some (if two then sumf (vmul (firstn m w) (pw_norm m d x)) else wsum1 w x)
  | FGroupBall m d two =>
      ind (if two then forallb (fun a => nleb a none_) (pw_normsq m d x) else nleb (vmaxabs x) none_)
  end.

(* f.proximal(sigma)(x): the binding of each functional class to its factory *)
Definition leaf_prox (k : leaf) (w : list T) (s : sig) (x : list T) : res (list T) :=
  let n := length x in
  match k with
  | FL1 => match s with SPair _ _ => Err EType | _ => Ok (prox_l1 none_ None (sigv n s) x) end
  | FL2 => needs_scalar s (fun sg => Ok (prox_l2 w none_ None sg x))
  | FL2Sq => match s with SPair _ _ => Err EType | _ => Ok (prox_l2sq none_ None (sigv n s) x) end
  | FLInf => needs_scalar s (fun sg => prox_linf sg x)
  | FConst _ => Ok x
  | FBox lo hi => Ok (prox_box lo hi x)
  | FIndZero _ => Ok (map (fun _ => nzero) x)
  | FBallInf => needs_scalar s (fun sg => Ok (prox_cc_l1 none_ None sg x))
  | FBall2 => (* proximal_convex_conj_l2 = proximal_convex_conj(proximal_l2) *)
      prox_convex_conj (fun s' y => needs_scalar s' (fun sg => Ok (prox_l2 w none_ None sg y))) s x
  | FBall1 => proj_l1 none_ x
  | FHuber gamma => needs_scalar s (fun sg => Ok (prox_huber gamma sg x))
  | FSimplex d => proj_simplex d x
  | FGroupL1 m d two =>
      if two then needs_scalar s (fun sg => Ok (prox_l1_l2 m d none_ None sg x))
      else match s with SPair _ _ => Err EType | _ => Ok (prox_l1 none_ None (sigv n s) x) end
  | FGroupBall m d two =>
      needs_scalar s (fun sg => Ok (if two then prox_cc_l1_l2 m d none_ None sg x
                                    else prox_cc_l1 none_ None sg x))
  end.

(* functional expression trees (functional.py + SeparableSum) *)
Inductive fexpr :=
| Leaf (k : leaf) (w : list T)                       (* a default functional on the space with weights w *)
| LScal (s : T) (e : fexpr)                          (* s * f            FunctionalLeftScalarMult *)
| RScal (s : T) (e : fexpr)                          (* f * s = f(s .)   FunctionalRightScalarMult *)
| SSum (c : T) (e : fexpr)                           (* f + c            FunctionalScalarSum *)
| Transl (t : list T) (e : fexpr)                    (* f.translated(t)  FunctionalTranslation *)
| QPert (a : T) (u : option (list T)) (c : T) (e : fexpr)   (* FunctionalQuadraticPerturb / BregmanDistance *)
| Sep (e1 e2 : fexpr).                               (* SeparableSum(e1, e2) on the product space *)

Fixpoint fweights (e : fexpr) : list T :=
  match e with
  | Leaf _ w => w
  | LScal _ e | RScal _ e | SSum _ e | Transl _ e | QPert _ _ _ e => fweights e
  | Sep e1 e2 => fweights e1 ++ fweights e2
  end.
Definition fdim (e : fexpr) : nat := length (fweights e).

Fixpoint fval (e : fexpr) (x : list T) : ext :=
  match e with
  | Leaf k w => leaf_val k w x
  | LScal s e => escal s (fval e x)
  | RScal s e => fval e (vscal s x)
  | SSum c e => eadd (fval e x) (Some c)
  | Transl t e => fval e (vsub x t)
  | QPert a u c e =>
      let w := fweights e in
      let lin := match u with Some u => winner w x u | None => nzero end in
      eadd (fval e x) (Some (a * wnormsq w x + lin + c))
  | Sep e1 e2 => eadd (fval e1 (firstn (fdim e1) x)) (fval e2 (skipn (fdim e1) x))
  end.

(* f.proximal -- may raise at property access (LeftScalarMult with s < 0, QuadraticPerturb with a < 0) *)
Fixpoint fprox (e : fexpr) : factory :=
  match e with
  | Leaf k w => leaf_prox k w
  | LScal s e =>
      if nltb s nzero then (fun _ _ => Err EValue)
      else if neqb s nzero then (fun _ x => Ok x)
      else (fun sg x => fprox e (sig_scale s sg) x)
  | RScal s e => prox_arg_scaling (fprox e) s
  | SSum _ e => fprox e
  | Transl t e => prox_translation (fprox e) t
  | QPert a u _ e =>
      if nltb a nzero then (fun _ _ => Err EType)
      else prox_quad_pert (fprox e) a (Some (match u with Some u => u
                                                   | None => map (fun _ => nzero) (fweights e) end))
  | Sep e1 e2 => prox_combine (fdim e1) (fprox e1) (fprox e2)
  end.

(* the objective the proximal point must minimise, with the step as a per-entry
   metric:  f(z) + sum_i (w_i / sigma_i) (z_i - x_i)^2 / 2 *)
Definition metric (w sv : list T) : list T := vdiv w sv.
Definition prox_obj (f : list T -> ext) (m : list T) (x z : list T) : ext :=
  eadd (f z) (Some (wnormsq m (vsub z x) / of_Z 2)).

(* per-entry step vector a step specification denotes on the space of [e] *)
Fixpoint sig_flat (e : fexpr) (s : sig) {struct e} : list T :=
  match e with
  | Leaf _ w => sigv (length w) s
  | LScal _ e' | RScal _ e' | SSum _ e' | Transl _ e' | QPert _ _ _ e' => sig_flat e' s
  | Sep e1 e2 =>
      match s with
      | SScal _ => sig_flat e1 s ++ sig_flat e2 s
      | SVec v => v
      | SPair a b => sig_flat e1 a ++ sig_flat e2 b
      end
  end.

End M.
