(* C07/PerPoint.v -- element-valued (per-point) steps through proximal_convex_conj and
   proximal_quadratic_perturbation: the Moreau rule and the quadratic-perturbation rule hold entry-wise. *)
From Coq Require Import ZArith QArith Reals Lra Lia List Bool Psatz.
From Verif Require Import Base.Num Base.Vec Base.VecR C07.Model C07.Convex C07.Leaves C07.LeafThms C07.Rules C07.L2.
Import ListNotations.
Local Open Scope R_scope.

Definition vinv (v : Rvec) : Rvec := map (fun s => 1 / s) v.

Lemma allpos_inv (v : Rvec) : allpos v -> allpos (vinv v).
Proof. intros H; induction H; cbn; constructor; auto. apply Rdiv_lt_0_compat; lra. Qed.

(* per-point Moreau identities *)
Lemma moreau_id1 n : forall w v z q x : Rvec, allpos v ->
  length w = n -> length v = n -> length z = n -> length q = n -> length x = n ->
  wdot (metric w (vinv v)) (vsub z q) (vsub (vmul (vinv v) x) q) = wdot w (vsub z q) (vsub x (vmul v q)).
Proof.
  induction n as [|n IHn]; intros [|w0 w] [|v0 v] [|z0 z] [|q0 q] [|x0 x] Pv Hw Hv Hz Hq Hx; cbn [length] in *; try lia.
  - reflexivity.
  - inversion Pv; subst. unfold metric, vinv in *. unfv. cbn [map vmap2]. rewrite !wdot_cons'.
    unfold vsub, vmul, vdiv in IHn. rewrite (IHn w v z q x) by (auto; lia). numR. field. lra.
Qed.
Lemma moreau_id2 n : forall w v y q x : Rvec, allpos v ->
  length w = n -> length v = n -> length y = n -> length q = n -> length x = n ->
  wdot (metric w v) (vsub y (vsub x (vmul v q))) (vsub x (vsub x (vmul v q))) = wdot w (vsub y (vsub x (vmul v q))) q.
Proof.
  induction n as [|n IHn]; intros [|w0 w] [|v0 v] [|y0 y] [|q0 q] [|x0 x] Pv Hw Hv Hy Hq Hx; cbn [length] in *; try lia.
  - reflexivity.
  - inversion Pv; subst. unfold metric in *. unfv. cbn [map vmap2]. rewrite !wdot_cons'.
    unfold vsub, vmul, vdiv in IHn. rewrite (IHn w v y q x) by (auto; lia). numR. field. lra.
Qed.

(* Moreau rule with an element-valued step:  x - sigma .* prox_{f, 1/sigma}(x ./ sigma) *)
Theorem rule_moreau_vec n f fs w v x q :
  allpos w -> allpos v -> length w = n -> length v = n -> length x = n ->
  is_conj n w f fs ->
  is_proxs n f (metric w (vinv v)) (vmul (vinv v) x) q ->
  is_proxs n fs (metric w v) x (vsub x (vmul v q)).
Proof.
  intros Pw Pv Hw Hv Hx Hc (Hq & vq & Hvq & Ho).
  set (p := vsub x (vmul v q)). assert (Lp : length p = n) by (unfold p; auto with vlen).
  assert (Hsub : forall z, length z = n -> ele (Some (vq + wdot w (vsub z q) p)) (f z)).
  { intros z Hz. specialize (Ho z Hz). rewrite (moreau_id1 n) in Ho by assumption. exact Ho. }
  destruct (Hc p Lp) as [Ub Lub].
  assert (Hfsp : fs p = Some (wdot w p q - vq)).
  { pose proof (Ub q vq Hq Hvq) as U1.
    assert (L1 : ele (fs p) (Some (wdot w p q - vq))).
    { apply Lub. intros z v0 Hz Hfz. specialize (Hsub z Hz). rewrite Hfz in Hsub. cbn [ele] in Hsub.
      rewrite (wdot_vsub_l n) in Hsub by auto with vlen.
      rewrite (wdot_sym w z p), (wdot_sym w q p) in Hsub. lra. }
    destruct (fs p) as [a|]; cbn [ele] in *; [|contradiction]. f_equal. lra. }
  split; [assumption|]. exists (wdot w p q - vq). split; [assumption|].
  intros y Hy. destruct (Hc y Hy) as [Uy _]. specialize (Uy q vq Hq Hvq).
  unfold p. rewrite (moreau_id2 n) by assumption. fold p.
  rewrite (wdot_vsub_l n) by auto with vlen.
  destruct (fs y) as [a|]; cbn [ele] in *; [|exact I]. lra.
Qed.

(* quadratic perturbation with an element-valued step *)
Definition qc (a : R) (v : Rvec) : Rvec := map (fun sg => 1 / sqrt (sg * 2 * a + 1)) v.

Lemma quad_id n a : 0 <= a -> forall w v z q x u : Rvec, allpos v ->
  length w = n -> length v = n -> length z = n -> length q = n -> length x = n -> length u = n ->
  let c := qc a v in
  wdot (metric w (vmul v (vmul c c))) (vsub z q) (vsub (vmul c (vsub (vmul c x) (vmul (vmul v c) u))) q)
  = wdot (metric w v) (vsub z q) (vsub x q) - wdot w (vsub z q) u - 2 * a * wdot w (vsub z q) q.
Proof.
  intros Ha. induction n as [|n IHn]; intros [|w0 w] [|v0 v] [|z0 z] [|q0 q] [|x0 x] [|u0 u] Pv Hw Hv Hz Hq Hx Hu c;
    cbn [length] in *; try lia.
  - cbv. lra.
  - inversion Pv as [|? ? Hv0 Pv']; subst. specialize (IHn w v z q x u Pv' ltac:(lia) ltac:(lia) ltac:(lia) ltac:(lia) ltac:(lia) ltac:(lia)).
    cbv zeta in IHn. unfold c, qc, metric in *. unfv. cbn [map vmap2]. rewrite !wdot_cons'.
    unfold vsub, vmul, vdiv in IHn. rewrite IHn. numR.
    assert (HD : 0 < v0 * 2 * a + 1) by nra.
    set (r := sqrt (v0 * 2 * a + 1)). assert (Hr : 0 < r) by (apply sqrt_lt_R0; assumption).
    assert (Hrr : r * r = v0 * 2 * a + 1) by (apply sqrt_sqrt; lra).
    assert (Ea : a = (r * r - 1) / (2 * v0)) by (rewrite Hrr; field; lra).
    clearbody r. rewrite Ea. field. repeat split; lra.
Qed.

Theorem rule_quadratic_perturbation_vec n f w v a u k x q :
  0 <= a -> allpos w -> allpos v -> length w = n -> length v = n -> length u = n -> length x = n ->
  let c := qc a v in
  is_proxs n f (metric w (vmul v (vmul c c))) (vmul c (vsub (vmul c x) (vmul (vmul v c) u))) q ->
  is_proxs n (fun z => eadd (f z) (Some (a * wnormsq w z + wdot w z u + k))) (metric w v) x q.
Proof.
  intros Ha Pw Pv Hw Hv Hu Hx c (Hq & vq & Hvq & Ho).
  split; [assumption|]. exists (vq + (a * wnormsq w q + wdot w q u + k)). split; [rewrite Hvq; reflexivity|].
  intros z Hz. specialize (Ho z Hz). unfold c in Ho. rewrite (quad_id n a Ha) in Ho by assumption.
  destruct (f z) as [vz|]; cbn [eadd ele] in *; [|exact I]. numR.
  rewrite (wdot_vsub_l n w z q u), (wdot_vsub_l n w z q q) in Ho by assumption.
  assert (Hsq : 0 <= wnormsq w z - 2 * wdot w z q + wnormsq w q).
  { rewrite <- (wnormsq_mid n) by assumption. apply wnormsq_nonneg; assumption. }
  unfold wnormsq in *.
  assert (0 <= a * (wdot w z z - 2 * wdot w z q + wdot w q q)) by (apply Rmult_le_pos; assumption).
  lra.
Qed.


(* the model combinators with an element-valued step *)
Lemma vmul_inv_cancel n : forall c q : Rvec, Forall (fun a => a <> 0) c -> length c = n -> length q = n ->
  vmul c (vmul (map (fun ci => 1 / ci) c) q) = q.
Proof.
  induction n as [|n IHn]; intros [|c0 c] [|q0 q] Hc Lc Lq; cbn [length] in *; try lia; [reflexivity|].
  inversion Hc; subst. unfv. cbn [map vmap2]. f_equal; [numR; field; assumption | apply IHn; auto; lia].
Qed.
Lemma qc_nonzero a v : 0 <= a -> allpos v -> Forall (fun c => c <> 0) (qc a v) /\ allpos (vmul v (vmul (qc a v) (qc a v))).
Proof.
  intros Ha Pv. induction Pv as [|s v Hs Pv [IH1 IH2]]; cbn [qc map]; [split; constructor|].
  assert (HD : 0 < s * 2 * a + 1) by nra. assert (Hr : 0 < sqrt (s * 2 * a + 1)) by (apply sqrt_lt_R0; assumption).
  assert (Hc : 0 < 1 / sqrt (s * 2 * a + 1)) by (apply Rdiv_lt_0_compat; lra).
  split; [constructor; [lra|exact IH1]|]. unfv. cbn [vmap2]. constructor; [numR; apply Rmult_lt_0_compat; [assumption|apply Rmult_lt_0_compat; assumption]|exact IH2].
Qed.

Theorem model_convex_conj_vec n f fs w pf v x q : allpos w -> allpos v -> length w = n -> length v = n -> length x = n ->
  is_conj n w f fs ->
  pf (SVec (vinv v)) (vmul (vinv v) x) = Ok q -> is_proxs n f (metric w (vinv v)) (vmul (vinv v) x) q ->
  exists p, @prox_convex_conj R _ pf (SVec v) x = Ok p /\ is_proxs n fs (metric w v) x p.
Proof.
  intros Pw Pv Hw Hv Hx Hc Eq Pq. exists (vsub x (vmul v q)). split.
  - cbn [prox_convex_conj]. numR. fold (vinv v). rewrite Eq. reflexivity.
  - apply (rule_moreau_vec n f); assumption.
Qed.

Theorem model_quad_pert_vec n f w pf a u k v x q : 0 <= a -> allpos w -> allpos v ->
  length w = n -> length v = n -> length u = n -> length x = n ->
  let c := qc a v in
  pf (SVec (vmul v (vmul c c))) (vmul c (vsub (vmul c x) (vmul (vmul v c) u))) = Ok q ->
  is_proxs n f (metric w (vmul v (vmul c c))) (vmul c (vsub (vmul c x) (vmul (vmul v c) u))) q ->
  exists p, @prox_quad_pert R _ _ pf a (Some u) (SVec v) x = Ok p /\
            is_proxs n (fun z => eadd (f z) (Some (a * wnormsq w z + wdot w z u + k))) (metric w v) x p.
Proof.
  intros Ha Pw Pv Hw Hv Hu Hx c Eq Pq. exists q. split.
  - unfold prox_quad_pert. numS. destruct (Rltb_spec a 0); [lra|]. fold (qc a v). fold c. rewrite Eq. cbn [rmap].
    f_equal. destruct (qc_nonzero a v Ha Pv) as [Hnz _]. destruct Pq as [Lq _].
    apply (vmul_inv_cancel n); auto. unfold c, qc. rewrite map_length. assumption.
  - apply rule_quadratic_perturbation_vec; assumption.
Qed.
