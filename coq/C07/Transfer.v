(* C07/Transfer.v -- the model executed at Q by the correspondence shards is the rational restriction of the
   model the theorems are about: Q2R commutes with every sqrt-free factory, with the calculus rules and with
   fval / fprox of every functional tree without square roots (no L2 norm / 2-ball / pointwise 2-norm leaves,
   no quadratic perturbation, whose constant is 1/sqrt(..)). *)
From Coq Require Import ZArith QArith Qabs Qreals Reals Lra Lia List Bool.
From Verif Require Import Base.Num Base.Vec Base.Transfer C07.Model.
Import ListNotations.

Notation QR := (map Q2R).

(* division is total on both sides: x / 0 = 0 at Q (Qinv 0 = 0) and at R (Rinv_0) *)
Lemma Q2R_ndiv_total (a b : Q) : Q2R (ndiv a b) = ndiv (Q2R a) (Q2R b).
Proof.
  destruct (Qeq_dec b 0) as [Hb|Hb]; [|apply Q2R_ndiv; assumption].
  cbn [ndiv Num_Q Num_R]. unfold Qdiv'. rewrite Q2R_red.
  assert (E : (a / b == 0)%Q).
  { unfold Qdiv. assert (Hi : (/ b == 0)%Q).
    { destruct b as [n d]. unfold Qeq in Hb. cbn in Hb. rewrite Z.mul_1_r in Hb. subst n. reflexivity. }
    rewrite Hi. ring. }
  rewrite (Qeq_eqR _ _ E). assert (Q2R b = 0%R) by (rewrite (Qeq_eqR _ _ Hb); apply Q2R_0).
  rewrite H, Q2R_0. unfold Rdiv. rewrite Rinv_0. ring.
Qed.

Lemma Q2R_nmax (a b : Q) : Q2R (nmax a b) = nmax (Q2R a) (Q2R b).
Proof. unfold nmax. rewrite <- Q2R_nleb. destruct (nleb a b); reflexivity. Qed.
Lemma Q2R_nmin (a b : Q) : Q2R (nmin a b) = nmin (Q2R a) (Q2R b).
Proof. unfold nmin. rewrite <- Q2R_nleb. destruct (nleb a b); reflexivity. Qed.
Lemma Q2R_nsign (a : Q) : Q2R (nsign a) = nsign (Q2R a).
Proof.
  unfold nsign. rewrite <- Q2R_nzero, <- !Q2R_nltb. destruct (nltb nzero a); [apply Q2R_none|].
  destruct (nltb a nzero); [rewrite Q2R_nopp, Q2R_none; reflexivity|reflexivity].
Qed.

Ltac q2r := repeat first [rewrite Q2R_nadd | rewrite Q2R_nsub | rewrite Q2R_nmul | rewrite Q2R_ndiv_total
                          | rewrite Q2R_nopp | rewrite Q2R_nabs | rewrite Q2R_nmax | rewrite Q2R_nmin
                          | rewrite Q2R_nsign | rewrite Q2R_of_Z | rewrite Q2R_nzero | rewrite Q2R_none ].

(* ---- lists ---- *)
Lemma QR_vmap2 (f : Q -> Q -> Q) (g : R -> R -> R) : (forall a b, Q2R (f a b) = g (Q2R a) (Q2R b)) ->
  forall x y, QR (vmap2 f x y) = vmap2 g (QR x) (QR y).
Proof. intros Hf. induction x as [|a x IH]; intros [|b y]; cbn [vmap2 map]; try reflexivity. rewrite Hf, IH. reflexivity. Qed.
Lemma QR_vmap3 (f : Q -> Q -> Q -> Q) (g : R -> R -> R -> R) : (forall a b c, Q2R (f a b c) = g (Q2R a) (Q2R b) (Q2R c)) ->
  forall x y z, QR (vmap3 f x y z) = vmap3 g (QR x) (QR y) (QR z).
Proof. intros Hf. induction x as [|a x IH]; intros [|b y] [|c z]; cbn [vmap3 map]; try reflexivity. rewrite Hf, IH. reflexivity. Qed.
Lemma QR_map (f : Q -> Q) (g : R -> R) : (forall a, Q2R (f a) = g (Q2R a)) -> forall x, QR (map f x) = map g (QR x).
Proof. intros Hf. induction x as [|a x IH]; cbn [map]; [reflexivity|]. rewrite Hf, IH. reflexivity. Qed.
Lemma Q2R_sumf (x : list Q) : Q2R (sumf x) = sumf (QR x).
Proof. induction x as [|a x IH]; cbn [sumf map]; [apply Q2R_nzero|]. rewrite Q2R_nadd, IH. reflexivity. Qed.
Lemma QR_repeat (c : Q) n : QR (repeat c n) = repeat (Q2R c) n.
Proof. induction n; cbn; congruence. Qed.
Lemma QR_firstn n (x : list Q) : QR (firstn n x) = firstn n (QR x).
Proof. symmetry; apply firstn_map. Qed.
Lemma QR_skipn n (x : list Q) : QR (skipn n x) = skipn n (QR x).
Proof. symmetry; apply skipn_map. Qed.
Lemma QR_vsub x y : QR (vsub x y) = vsub (QR x) (QR y).
Proof. apply QR_vmap2. intros; apply Q2R_nsub. Qed.
Lemma QR_vadd x y : QR (vadd x y) = vadd (QR x) (QR y).
Proof. apply QR_vmap2. intros; apply Q2R_nadd. Qed.
Lemma QR_vmul x y : QR (vmul x y) = vmul (QR x) (QR y).
Proof. apply QR_vmap2. intros; apply Q2R_nmul. Qed.
Lemma QR_vdiv x y : QR (vdiv x y) = vdiv (QR x) (QR y).
Proof. apply QR_vmap2. intros; apply Q2R_ndiv_total. Qed.
Lemma QR_vscal c x : QR (vscal c x) = vscal (Q2R c) (QR x).
Proof. apply QR_map. intros; apply Q2R_nmul. Qed.
Lemma Q2R_vmaxabs (x : list Q) : Q2R (vmaxabs x) = vmaxabs (QR x).
Proof. induction x as [|a x IH]; cbn [vmaxabs fold_right map]; [apply Q2R_nzero|]. fold (vmaxabs x) (vmaxabs (QR x)). q2r. rewrite IH. reflexivity. Qed.
Lemma Q2R_wdot w x y : Q2R (wdot w x y) = wdot (QR w) (QR x) (QR y).
Proof. unfold wdot. rewrite Q2R_sumf, !QR_vmul. reflexivity. Qed.

Definition optQR (g : option (list Q)) : option (list R) := match g with Some g => Some (QR g) | None => None end.
Definition resQR (r : res (list Q)) : res (list R) := rmap QR r.
Definition extQR (a : option Q) : option R := match a with Some a => Some (Q2R a) | None => None end.

Lemma QR_gsub x g : QR (gsub x g) = gsub (QR x) (optQR g).
Proof. destruct g; cbn [gsub optQR]; [apply QR_vsub|reflexivity]. Qed.

(* ---- closed-form factories without square roots ---- *)
Lemma prox_l1_transfer lam g s x : QR (prox_l1 lam g s x) = prox_l1 (Q2R lam) (optQR g) (QR s) (QR x).
Proof.
  unfold prox_l1. rewrite QR_vsub, QR_vdiv, <- QR_gsub. f_equal. f_equal.
  apply QR_vmap2. intros a b. q2r. reflexivity.
Qed.
Lemma prox_cc_l1_transfer lam g s x : QR (prox_cc_l1 lam g s x) = prox_cc_l1 (Q2R lam) (optQR g) (Q2R s) (QR x).
Proof.
  unfold prox_cc_l1. rewrite (QR_map _ (fun d => ndiv d (ndiv (nmax (nabs d) (Q2R lam)) (Q2R lam)))) by (intros a; q2r; reflexivity).
  f_equal. destruct g as [g|]; cbn [optQR]; [|reflexivity].
  unfold vlin. apply QR_vmap2. intros a b. q2r. reflexivity.
Qed.
Lemma prox_cc_l1v_transfer lam g s x : QR (prox_cc_l1v lam g s x) = prox_cc_l1v (Q2R lam) (QR g) (QR s) (QR x).
Proof.
  unfold prox_cc_l1v. rewrite (QR_map _ (fun d => ndiv d (ndiv (nmax (nabs d) (Q2R lam)) (Q2R lam)))) by (intros a; q2r; reflexivity).
  f_equal. apply QR_vmap3. intros a b c. q2r. reflexivity.
Qed.
Lemma prox_l2sq_transfer lam g s x : QR (prox_l2sq lam g s x) = prox_l2sq (Q2R lam) (optQR g) (QR s) (QR x).
Proof.
  unfold prox_l2sq. destruct g as [g|]; cbn [optQR].
  - apply QR_vmap3. intros a b c. q2r. reflexivity.
  - apply QR_vmap2. intros a b. q2r. reflexivity.
Qed.
Lemma prox_cc_l2sq_transfer lam g s x : QR (prox_cc_l2sq lam g s x) = prox_cc_l2sq (Q2R lam) (optQR g) (QR s) (QR x).
Proof.
  unfold prox_cc_l2sq, nhalf. destruct g as [g|]; cbn [optQR].
  - apply QR_vmap3. intros a b c. q2r. reflexivity.
  - apply QR_vmap2. intros a b. q2r. reflexivity.
Qed.

Definition boundQR (b : @bound Q) : @bound R :=
  match b with BNone => BNone | BScal c => BScal (Q2R c) | BVec v => BVec (QR v) end.
Lemma prox_box_transfer lo hi x : QR (prox_box lo hi x) = prox_box (boundQR lo) (boundQR hi) (QR x).
Proof.
  unfold prox_box. rewrite map_length.
  assert (Hb : forall b n, match bvec n b with Some l => Some (QR l) | None => None end = bvec n (boundQR b)).
  { intros [|c|v] n; cbn [bvec boundQR]; try reflexivity. rewrite QR_repeat. reflexivity. }
  rewrite <- !Hb. destruct (bvec (length x) lo) as [l|], (bvec (length x) hi) as [h|];
    rewrite ?(QR_vmap2 nmin nmin Q2R_nmin), ?(QR_vmap2 nmax nmax Q2R_nmax); reflexivity.
Qed.

Lemma huber_factor_transfer gamma s n : Q2R (huber_factor gamma s n) = huber_factor (Q2R gamma) (Q2R s) (Q2R n).
Proof. unfold huber_factor. rewrite <- Q2R_nadd, <- Q2R_nleb. destruct (nleb n (nadd gamma s)); q2r; reflexivity. Qed.
Lemma prox_huber_transfer gamma s x : QR (prox_huber gamma s x) = prox_huber (Q2R gamma) (Q2R s) (QR x).
Proof. unfold prox_huber. apply QR_map. intros a. rewrite Q2R_nmul, huber_factor_transfer, Q2R_nabs. reflexivity. Qed.

Lemma prox_sumc_transfer c x : QR (prox_sumc c x) = prox_sumc (Q2R c) (QR x).
Proof.
  unfold prox_sumc. rewrite map_length.
  apply QR_map. intros a. q2r. rewrite Q2R_sumf. reflexivity.
Qed.

(* sorting and the simplex scan: the comparisons commute with Q2R *)
Lemma insert_desc_transfer a l : QR (insert_desc a l) = insert_desc (Q2R a) (QR l).
Proof.
  induction l as [|b l IH]; cbn [insert_desc map]; [reflexivity|]. rewrite <- Q2R_nleb.
  destruct (nleb b a); cbn [map]; [reflexivity|]. rewrite IH. reflexivity.
Qed.
Lemma sort_desc_transfer l : QR (sort_desc l) = sort_desc (QR l).
Proof. induction l as [|a l IH]; cbn [sort_desc fold_right map]; [reflexivity|]. fold (sort_desc l) (sort_desc (QR l)). rewrite insert_desc_transfer, IH. reflexivity. Qed.
Lemma simplex_tau_transfer d : forall xs j csum best,
  extQR (simplex_tau d xs j csum best) = simplex_tau (Q2R d) (QR xs) j (Q2R csum) (extQR best).
Proof.
  induction xs as [|a xs IH]; intros j csum best; cbn [simplex_tau map]; [reflexivity|].
  rewrite IH. f_equal; [q2r; reflexivity|].
  replace (nleb nzero (nsub (Q2R a) (ndiv (nsub (nadd (Q2R csum) (Q2R a)) (Q2R d)) (of_Z j))))
    with (nleb nzero (nsub a (ndiv (nsub (nadd csum a) d) (of_Z j)))).
  - destruct (nleb nzero _); cbn [extQR]; [q2r; reflexivity|reflexivity].
  - rewrite Q2R_nleb. q2r. reflexivity.
Qed.
Lemma proj_simplex_transfer d x : resQR (proj_simplex d x) = proj_simplex (Q2R d) (QR x).
Proof.
  unfold proj_simplex. pose proof (simplex_tau_transfer d (sort_desc x) 1%Z nzero None) as E.
  rewrite sort_desc_transfer, Q2R_nzero in E. cbn [extQR] in E. rewrite <- E.
  destruct (simplex_tau d (sort_desc x) 1 nzero None) as [tau|]; cbn [extQR resQR rmap]; [|reflexivity].
  f_equal. apply QR_map. intros a. q2r. reflexivity.
Qed.
Lemma proj_l1_transfer r x : resQR (proj_l1 r x) = proj_l1 (Q2R r) (QR x).
Proof.
  unfold proj_l1. rewrite Q2R_nleb, Q2R_sumf, (QR_map nabs nabs Q2R_nabs).
  destruct (nleb _ (Q2R r)); [reflexivity|].
  rewrite <- (QR_map nabs nabs Q2R_nabs), <- proj_simplex_transfer.
  destruct (proj_simplex r (map nabs x)); cbn [resQR rmap]; [|reflexivity].
  rewrite QR_vmul, (QR_map nsign nsign Q2R_nsign). reflexivity.
Qed.
Lemma prox_linf_transfer s x : resQR (prox_linf s x) = prox_linf (Q2R s) (QR x).
Proof.
  unfold prox_linf. rewrite <- proj_l1_transfer. destruct (proj_l1 s x); cbn [resQR rmap]; [|reflexivity].
  rewrite QR_vsub. reflexivity.
Qed.

(* ---- steps ---- *)
Fixpoint sigQR (s : @sig Q) : @sig R :=
  match s with SScal c => SScal (Q2R c) | SVec v => SVec (QR v) | SPair a b => SPair (sigQR a) (sigQR b) end.
Lemma sigv_transfer n s : QR (sigv n s) = sigv n (sigQR s).
Proof. destruct s; cbn [sigv sigQR map]; [apply QR_repeat|reflexivity|reflexivity]. Qed.
Lemma sig_scale_transfer c s : sigQR (sig_scale c s) = sig_scale (Q2R c) (sigQR s).
Proof.
  induction s as [a|v|a IHa b IHb]; cbn [sig_scale sigQR]; [rewrite Q2R_nmul; reflexivity| |rewrite IHa, IHb; reflexivity].
  f_equal. apply QR_map. intros; apply Q2R_nmul.
Qed.

(* ---- calculus rules: if the inner factory commutes with Q2R, so does the rule's ---- *)
Definition fac_transfer (pq : @factory Q) (pr : @factory R) : Prop :=
  forall s x, resQR (pq s x) = pr (sigQR s) (QR x).

Lemma translation_transfer pq pr y : fac_transfer pq pr -> fac_transfer (prox_translation pq y) (prox_translation pr (QR y)).
Proof.
  intros H s x. unfold prox_translation. rewrite <- QR_vsub, <- H. destruct (pq s (vsub x y)); cbn [resQR rmap]; [|reflexivity].
  rewrite QR_vadd. reflexivity.
Qed.
Lemma arg_scaling_transfer pq pr c : fac_transfer pq pr -> fac_transfer (prox_arg_scaling pq c) (prox_arg_scaling pr (Q2R c)).
Proof.
  intros H s x. unfold prox_arg_scaling. rewrite <- Q2R_nzero, <- Q2R_neqb. destruct (neqb c nzero); [reflexivity|].
  rewrite <- Q2R_nmul, <- sig_scale_transfer, <- QR_vscal, <- H.
  destruct (pq _ _); cbn [resQR rmap]; [|reflexivity]. rewrite QR_vscal. q2r. reflexivity.
Qed.
Lemma convex_conj_transfer pq pr : fac_transfer pq pr -> fac_transfer (prox_convex_conj pq) (prox_convex_conj pr).
Proof.
  intros H s x. unfold prox_convex_conj. destruct s as [sg|v|a b]; cbn [sigQR]; try reflexivity.
  - replace (SScal (ndiv none_ (Q2R sg))) with (sigQR (SScal (ndiv none_ sg))) by (cbn [sigQR]; q2r; reflexivity).
    replace (vscal (ndiv none_ (Q2R sg)) (QR x)) with (QR (vscal (ndiv none_ sg) x)) by (rewrite QR_vscal; q2r; reflexivity).
    rewrite <- H. destruct (pq _ _); cbn [resQR rmap]; [|reflexivity]. rewrite QR_vsub, QR_vscal. reflexivity.
  - assert (Ei : map (fun sg => ndiv none_ sg) (QR v) = QR (map (fun sg => ndiv none_ sg) v)).
    { symmetry. apply QR_map. intros a. q2r. reflexivity. }
    rewrite Ei. change (SVec (QR (map (fun sg => ndiv none_ sg) v))) with (sigQR (SVec (map (fun sg => ndiv none_ sg) v))).
    rewrite <- QR_vmul, <- H. destruct (pq _ _); cbn [resQR rmap]; [|reflexivity]. rewrite QR_vsub, QR_vmul. reflexivity.
Qed.
Lemma combine_transfer n1 p1 p2 r1 r2 : fac_transfer p1 r1 -> fac_transfer p2 r2 ->
  fac_transfer (prox_combine n1 p1 p2) (prox_combine n1 r1 r2).
Proof.
  intros H1 H2 s x. unfold prox_combine.
  assert (E : (let '(s1, s2) := match sigQR s with
                     | SScal _ => (sigQR s, sigQR s)
                     | SVec v => (SVec (firstn n1 v), SVec (skipn n1 v))
                     | SPair a b => (a, b) end in (s1, s2))
              = (let '(s1, s2) := match s with
                     | SScal _ => (s, s)
                     | SVec v => (SVec (firstn n1 v), SVec (skipn n1 v))
                     | SPair a b => (a, b) end in (sigQR s1, sigQR s2))).
  { destruct s as [c|v|a b]; cbn [sigQR]; try reflexivity. rewrite QR_firstn, QR_skipn. reflexivity. }
  destruct s as [c|v|a b]; cbn [sigQR] in *.
  - rewrite <- QR_firstn, <- QR_skipn. change (SScal (Q2R c)) with (sigQR (SScal c)). rewrite <- H1, <- H2.
    destruct (p1 _ _); [destruct (p2 _ _)|]; cbn [resQR rmap rbind]; rewrite ?map_app; reflexivity.
  - rewrite <- !QR_firstn, <- !QR_skipn.
    change (SVec (QR (firstn n1 v))) with (sigQR (SVec (firstn n1 v))). change (SVec (QR (skipn n1 v))) with (sigQR (SVec (skipn n1 v))).
    rewrite <- H1, <- H2.
    destruct (p1 _ _); [destruct (p2 _ _)|]; cbn [resQR rmap rbind]; rewrite ?map_app; reflexivity.
  - rewrite <- QR_firstn, <- QR_skipn, <- H1, <- H2.
    destruct (p1 _ _); [destruct (p2 _ _)|]; cbn [resQR rmap rbind]; rewrite ?map_app; reflexivity.
Qed.

(* ---- leaves and trees ---- *)
Definition leafQR (k : @leaf Q) : @leaf R :=
  match k with
  | FL1 => FL1 | FL2 => FL2 | FL2Sq => FL2Sq | FLInf => FLInf
  | FConst c => FConst (Q2R c) | FBox lo hi => FBox (boundQR lo) (boundQR hi) | FIndZero c => FIndZero (Q2R c)
  | FBallInf => FBallInf | FBall2 => FBall2 | FBall1 => FBall1
  | FHuber g => FHuber (Q2R g) | FSimplex d => FSimplex (Q2R d)
  | FGroupL1 m d two => FGroupL1 m d two | FGroupBall m d two => FGroupBall m d two
  | FHuberG m d g => FHuberG m d (Q2R g) | FSumC c => FSumC (Q2R c)
  end.
Definition sqrt_free_leaf (k : @leaf Q) : bool :=
  match k with
  | FL2 | FBall2 | FHuberG _ _ _ => false
  | FGroupL1 _ _ two | FGroupBall _ _ two => negb two
  | _ => true
  end.
Fixpoint fexprQR (e : @fexpr Q) : @fexpr R :=
  match e with
  | Leaf k w => Leaf (leafQR k) (QR w)
  | LScal s e => LScal (Q2R s) (fexprQR e)
  | RScal s e => RScal (Q2R s) (fexprQR e)
  | SSum c e => SSum (Q2R c) (fexprQR e)
  | Transl t e => Transl (QR t) (fexprQR e)
  | QPert a u c e => QPert (Q2R a) (optQR u) (Q2R c) (fexprQR e)
  | Sep e1 e2 => Sep (fexprQR e1) (fexprQR e2)
  end.
Fixpoint sqrt_free (e : @fexpr Q) : bool :=
  match e with
  | Leaf k _ => sqrt_free_leaf k
  | LScal _ e | RScal _ e | SSum _ e | Transl _ e => sqrt_free e
  | QPert _ _ _ _ => false
  | Sep e1 e2 => sqrt_free e1 && sqrt_free e2
  end.

Lemma veqb_transfer x y : veqb x y = veqb (QR x) (QR y).
Proof.
  unfold veqb. revert y. induction x as [|a x IH]; intros [|b y]; cbn [combine map forallb fst snd]; try reflexivity.
  rewrite <- Q2R_neqb, IH. reflexivity.
Qed.
Lemma forallb_nleb_l_transfer (x : list Q) : forallb (nleb nzero) x = forallb (nleb nzero) (QR x).
Proof. induction x as [|a x IH]; cbn [forallb map]; [reflexivity|]. rewrite Q2R_nleb, Q2R_nzero, IH. reflexivity. Qed.
Lemma Q2R_wsum1 w x : Q2R (wsum1 w x) = wsum1 (QR w) (QR x).
Proof. unfold wsum1. rewrite Q2R_sumf, QR_vmul, (QR_map nabs nabs Q2R_nabs). reflexivity. Qed.
Lemma huber1_transfer g a : Q2R (huber1 g a) = huber1 (Q2R g) (Q2R a).
Proof.
  unfold huber1. rewrite <- Q2R_nzero, <- Q2R_nltb. destruct (nltb nzero g); [|apply Q2R_nabs].
  rewrite <- Q2R_nabs, <- Q2R_nleb. destruct (nleb g (nabs a)); q2r; reflexivity.
Qed.
Lemma ind_transfer b : extQR (ind b) = ind b.
Proof. destruct b; cbn [ind extQR]; [rewrite Q2R_nzero|]; reflexivity. Qed.

Lemma leaf_val_transfer k w x : sqrt_free_leaf k = true ->
  extQR (leaf_val k w x) = leaf_val (leafQR k) (QR w) (QR x).
Proof.
  destruct k; cbn [sqrt_free_leaf]; intros Hk; try discriminate; cbn [leaf_val leafQR extQR].
  - rewrite Q2R_wsum1. reflexivity.
  - unfold wnormsq. rewrite Q2R_wdot. reflexivity.
  - rewrite Q2R_vmaxabs. reflexivity.
  - reflexivity.
  - rewrite ind_transfer, veqb_transfer, prox_box_transfer. reflexivity.
  - rewrite veqb_transfer, (QR_map (fun _ => nzero) (fun _ => nzero)) by (intros; apply Q2R_nzero).
    destruct (veqb _ _); reflexivity.
  - rewrite ind_transfer, Q2R_nleb, Q2R_vmaxabs, Q2R_none. reflexivity.
  - rewrite ind_transfer, Q2R_nleb, Q2R_wsum1, Q2R_none. reflexivity.
  - rewrite Q2R_sumf, QR_vmul, (QR_map _ _ (huber1_transfer gamma)). reflexivity.
  - rewrite ind_transfer, Q2R_neqb, Q2R_sumf, forallb_nleb_l_transfer. reflexivity.
  - destruct two; [discriminate|]. rewrite Q2R_wsum1. reflexivity.
  - destruct two; [discriminate|]. rewrite ind_transfer, Q2R_nleb, Q2R_vmaxabs, Q2R_none. reflexivity.
  - rewrite ind_transfer, Q2R_neqb, Q2R_sumf. reflexivity.
Qed.

Lemma leaf_prox_transfer k w : sqrt_free_leaf k = true -> fac_transfer (leaf_prox k w) (leaf_prox (leafQR k) (QR w)).
Proof.
  intros Hk s x. destruct k; cbn [sqrt_free_leaf] in Hk; try discriminate; cbn [leaf_prox leafQR]; rewrite ?map_length.
  - destruct s; cbn [sigQR resQR rmap]; try reflexivity; rewrite prox_l1_transfer, Q2R_none, sigv_transfer; reflexivity.
  - destruct s; cbn [sigQR resQR rmap]; try reflexivity; rewrite prox_l2sq_transfer, Q2R_none, sigv_transfer; reflexivity.
  - destruct s; cbn [sigQR needs_scalar resQR]; try reflexivity. apply prox_linf_transfer.
  - reflexivity.
  - cbn [resQR rmap]. rewrite prox_box_transfer. reflexivity.
  - cbn [resQR rmap]. rewrite (QR_map (fun _ => nzero) (fun _ => nzero)) by (intros; apply Q2R_nzero). reflexivity.
  - destruct s; cbn [sigQR needs_scalar resQR rmap]; try reflexivity. rewrite prox_cc_l1_transfer, Q2R_none. reflexivity.
  - rewrite <- Q2R_none. apply proj_l1_transfer.
  - destruct s; cbn [sigQR needs_scalar resQR rmap]; try reflexivity. rewrite prox_huber_transfer. reflexivity.
  - apply proj_simplex_transfer.
  - destruct two; [discriminate|].
    destruct s; cbn [sigQR resQR rmap]; try reflexivity; rewrite prox_l1_transfer, Q2R_none, sigv_transfer; reflexivity.
  - destruct two; [discriminate|].
    destruct s; cbn [sigQR needs_scalar resQR rmap]; try reflexivity. rewrite prox_cc_l1_transfer, Q2R_none. reflexivity.
  - cbn [resQR rmap]. rewrite prox_sumc_transfer. reflexivity.
Qed.

Lemma fweights_transfer e : QR (fweights e) = fweights (fexprQR e).
Proof. induction e; cbn [fweights fexprQR]; auto. rewrite map_app, IHe1, IHe2. reflexivity. Qed.
Lemma fdim_transfer e : fdim (fexprQR e) = fdim e.
Proof. unfold fdim. rewrite <- fweights_transfer, map_length. reflexivity. Qed.

Lemma eadd_transfer a b : extQR (eadd a b) = eadd (extQR a) (extQR b).
Proof. destruct a, b; cbn [eadd extQR]; try reflexivity. rewrite Q2R_nadd. reflexivity. Qed.
Lemma escal_transfer s a : extQR (escal s a) = escal (Q2R s) (extQR a).
Proof. destruct a; cbn [escal extQR]; try reflexivity. rewrite Q2R_nmul. reflexivity. Qed.

Theorem fval_transfer e : sqrt_free e = true -> forall x, extQR (fval e x) = fval (fexprQR e) (QR x).
Proof.
  induction e; cbn [sqrt_free]; intros Hf x; try discriminate; cbn [fval fexprQR].
  - apply leaf_val_transfer; assumption.
  - rewrite escal_transfer, IHe by assumption. reflexivity.
  - rewrite IHe, QR_vscal by assumption. reflexivity.
  - rewrite eadd_transfer, IHe by assumption. reflexivity.
  - rewrite IHe, QR_vsub by assumption. reflexivity.
  - apply andb_prop in Hf as [H1 H2]. rewrite eadd_transfer, IHe1, IHe2, QR_firstn, QR_skipn, fdim_transfer by assumption.
    reflexivity.
Qed.

Theorem fprox_transfer e : sqrt_free e = true -> fac_transfer (fprox e) (fprox (fexprQR e)).
Proof.
  induction e; cbn [sqrt_free]; intros Hf; try discriminate; cbn [fprox fexprQR].
  - apply leaf_prox_transfer; assumption.
  - rewrite <- Q2R_nzero, <- Q2R_nltb, <- Q2R_neqb. destruct (nltb s nzero); [intros ? ?; reflexivity|].
    destruct (neqb s nzero); [intros ? ?; reflexivity|]. intros sg x. rewrite <- sig_scale_transfer. apply IHe; assumption.
  - apply arg_scaling_transfer, IHe; assumption.
  - apply IHe; assumption.
  - apply translation_transfer, IHe; assumption.
  - apply andb_prop in Hf as [H1 H2]. rewrite fdim_transfer. apply combine_transfer; auto.
Qed.
