(* C07/Props.v -- property theorems (stub, being filled). *)
From Coq Require Import Reals List Bool.
From Verif Require Import Base.Num Base.Vec Base.VecR C07.Model C07.Proofs.
Import ListNotations.
Local Open Scope R_scope.
