(* C07/Props.v -- property theorems only; each is closed by [exact] of a lemma from the
   C07 development and followed by Print Assumptions.

   Model (C07/Model.v, tied to /repo by the correspondence of harness/c07.py):
     fexpr      functional expression trees: Leaf (default functional on the space with weights w),
                LScal (s*f), RScal (f(s.)), SSum (f+c), Transl, QPert (quadratic perturbation /
                Bregman distance), Sep (SeparableSum)
     fval e x   the value f(x)  (option R, None = +infinity)       -- the _call methods
     fprox e s x  f.proximal(s)(x)                                  -- the .proximal bindings + factories
     fweights e   the weights w of the functional's own space: <x,y> = sum w_i x_i y_i
   wf e: weights positive; LScal scalar > 0; RScal scalar <> 0; QPert coefficient >= 0; translation /
   linear term of the right length; leaves among L1Norm, L2Norm, L2NormSquared, ConstantFunctional,
   IndicatorBox/Nonnegativity, IndicatorZero, IndicatorLpUnitBall(inf), IndicatorLpUnitBall(2),
   Huber(gamma >= 0), GroupL1Norm(exponent 1), IndicatorGroupL1UnitBall(exponent inf) on ANY positively
   weighted space; IndicatorSimplex(diameter >= 0) on a uniformly weighted space; LpNorm(inf) and
   IndicatorLpUnitBall(1) on an unweighted space (their proximals are NOT minimisers on other weightings:
   recorded findings, see C07/Refuted.v); GroupL1Norm(exponent 2) on a power space X^d whose weights are those
   of X repeated d times, and IndicatorGroupL1UnitBall(exponent 2) likewise.  The KL family has its own
   theorems below (its values involve ln).                                                              *)
From Coq Require Import Reals Lra Lia List Bool.
From Verif Require Import Base.Num Base.Vec Base.VecR C07.Model C07.Convex C07.Leaves C07.LeafThms C07.Rules C07.L2 C07.Compose C07.Sorting C07.KL C07.Group C07.Proofs C07.Sound C07.Refuted.
Import ListNotations.
Local Open Scope R_scope.

(* T1 (the property, scalar step): for EVERY well-formed functional tree (any depth), every size,
   every sigma > 0 and every x, f.proximal(sigma)(x) returns a point p with f(p) finite such that
   no z gives a smaller value of f(z) + ||z-x||^2/(2 sigma), the norm being that of the tree's own
   weighted space. *)
Theorem prox_tree_minimises : forall (e : @fexpr R) (sigma : R) (x : list R),
  wf e -> 0 < sigma -> length x = fdim e ->
  exists p, fprox e (SScal sigma) x = Ok p /\
    length p = fdim e /\ (exists v, fval e p = Some v) /\
    forall z, length z = fdim e ->
      ele (eadd (fval e p) (Some (wnormsq (fweights e) (vsub p x) / (2 * sigma))))
          (eadd (fval e z) (Some (wnormsq (fweights e) (vsub z x) / (2 * sigma)))).
Proof. exact fprox_optimal_scalar. Qed.
Print Assumptions prox_tree_minimises.

(* T1 (per-point and per-component steps): the same for every admissible step specification s
   (sig_ok: scalar > 0 anywhere; a positive space element where the leaf documents it: L1, L2^2,
   constant, box, {0}; a list of steps at a SeparableSum), with the step entering as the metric
   (1/2) sum_i (w_i / sigma_i) (z_i - x_i)^2. *)
Theorem prox_tree_minimises_general_step : forall (e : @fexpr R), wf e -> forall (s : @sig R) (x : list R),
  sig_ok e s -> length x = fdim e ->
  exists p, fprox e s x = Ok p /\
    length p = fdim e /\ (exists v, fval e p = Some v) /\
    forall z, length z = fdim e ->
      ele (prox_obj (fval e) (metric (fweights e) (sig_flat e s)) x p)
          (prox_obj (fval e) (metric (fweights e) (sig_flat e s)) x z).
Proof. exact fprox_optimal_all. Qed.
Print Assumptions prox_tree_minimises_general_step.

(* T1 (stronger, variational form -- no convexity assumption is needed anywhere): the point p returned
   for the tree satisfies  f(z) >= f(p) + <x - p, z - p>_m  for ALL z (m_i = w_i / sigma_i). *)
Theorem prox_tree_variational : forall (e : @fexpr R), wf e -> forall (s : @sig R) (x : list R),
  sig_ok e s -> length x = fdim e ->
  exists p, fprox e s x = Ok p /\ length p = fdim e /\
    exists vp, fval e p = Some vp /\
      forall z, length z = fdim e ->
        ele (Some (vp + wdot (metric (fweights e) (sig_flat e s)) (vsub z p) (vsub x p))) (fval e z).
Proof. exact fprox_proxs_all. Qed.
Print Assumptions prox_tree_variational.

(* "no OTHER point gives a smaller value", strictly: every z differs from p in objective value by at
   least half its squared distance to p; hence the minimiser is unique. *)
Theorem prox_strictly_minimal : forall n (f : list R -> option R) (m x p : list R),
  length m = n -> length x = n -> is_proxs n f m x p ->
  forall z, length z = n ->
    ele (match f p with
         | Some vp => Some (vp + wnormsq m (vsub p x) / 2 + wnormsq m (vsub z p) / 2)
         | None => None end)
        (prox_obj f m x z).
Proof. exact proxs_strict. Qed.
Print Assumptions prox_strictly_minimal.

Theorem prox_minimiser_is_unique : forall n (f : list R -> option R) (m x p z : list R),
  length m = n -> length x = n -> allpos m -> is_proxs n f m x p -> length z = n ->
  ele (prox_obj f m x z) (prox_obj f m x p) -> z = p.
Proof. exact prox_minimiser_unique. Qed.
Print Assumptions prox_minimiser_is_unique.

(* Consequence 1: firm non-expansiveness,  ||p1 - p2||^2 <= <p1 - p2, x1 - x2>  in the norm of the
   functional's own weighted space, for every well-formed tree and every sigma > 0. *)
Theorem prox_tree_firmly_nonexpansive : forall (e : @fexpr R) (sigma : R) (x1 x2 p1 p2 : list R),
  wf e -> 0 < sigma -> length x1 = fdim e -> length x2 = fdim e ->
  fprox e (SScal sigma) x1 = Ok p1 -> fprox e (SScal sigma) x2 = Ok p2 ->
  wnormsq (fweights e) (vsub p1 p2) <= wdot (fweights e) (vsub p1 p2) (vsub x1 x2).
Proof. exact fprox_firmly_nonexpansive_scalar. Qed.
Print Assumptions prox_tree_firmly_nonexpansive.

(* hence the proximal map is non-expansive (1-Lipschitz) in the norm of the functional's own space *)
Theorem prox_tree_nonexpansive : forall (e : @fexpr R) (sigma : R) (x1 x2 p1 p2 : list R),
  wf e -> 0 < sigma -> length x1 = fdim e -> length x2 = fdim e ->
  fprox e (SScal sigma) x1 = Ok p1 -> fprox e (SScal sigma) x2 = Ok p2 ->
  wnormsq (fweights e) (vsub p1 p2) <= wnormsq (fweights e) (vsub x1 x2).
Proof. exact fprox_nonexpansive_scalar. Qed.
Print Assumptions prox_tree_nonexpansive.

(* ... and for per-point / per-component steps in the step-weighted metric *)
Theorem prox_tree_firmly_nonexpansive_general_step : forall (e : @fexpr R) (s : @sig R) (x1 x2 p1 p2 : list R),
  wf e -> sig_ok e s -> length x1 = fdim e -> length x2 = fdim e ->
  fprox e s x1 = Ok p1 -> fprox e s x2 = Ok p2 ->
  let m := metric (fweights e) (sig_flat e s) in
  wnormsq m (vsub p1 p2) <= wdot m (vsub p1 p2) (vsub x1 x2).
Proof. exact fprox_firmly_nonexpansive. Qed.
Print Assumptions prox_tree_firmly_nonexpansive_general_step.

(* Consequence 2: if the tree denotes an indicator (its value is c on a set and +infinity elsewhere), the
   proximal point lies in the set and the proximal is idempotent. *)
Theorem prox_tree_indicator_lands_and_idempotent : forall (e : @fexpr R) (s : @sig R) (c : R) (x p : list R),
  wf e -> sig_ok e s -> length x = fdim e ->
  (forall z, length z = fdim e -> fval e z = None \/ fval e z = Some c) ->
  fprox e s x = Ok p ->
  fval e p = Some c /\ fprox e s p = Ok p.
Proof. exact fprox_indicator. Qed.
Print Assumptions prox_tree_indicator_lands_and_idempotent.

(* The calculus rules, for an ARBITRARY functional f (not only the modelled leaves): if the inner proximal
   returns the proximal point of f (variational form) then the rule's output is the proximal point of the
   derived functional.  These are what proximal_translation / FunctionalLeftScalarMult.proximal /
   proximal_arg_scaling / proximal_quadratic_perturbation / combine_proximals compute. *)
Theorem rule_translation_sound : forall n (f : list R -> option R) (m t x q : list R),
  length m = n -> length t = n -> length x = n ->
  is_proxs n f m (vsub x t) q -> is_proxs n (fun z => f (vsub z t)) m x (vadd t q).
Proof. exact rule_translation. Qed.
Print Assumptions rule_translation_sound.
Theorem rule_left_scaling_sound : forall n (f : list R -> option R) (m : list R) (s : R) (x q : list R),
  0 < s -> length m = n -> length x = n ->
  is_proxs n f (map (fun a => a * / s) m) x q -> is_proxs n (fun z => escal s (f z)) m x q.
Proof. exact rule_left_scaling. Qed.
Print Assumptions rule_left_scaling_sound.
Theorem rule_arg_scaling_sound : forall n (f : list R -> option R) (m : list R) (c : R) (x q : list R),
  c <> 0 -> length m = n -> length x = n ->
  is_proxs n f (map (fun a => a * / (c * c)) m) (vscal c x) q ->
  is_proxs n (fun z => f (vscal c z)) m x (vscal (1 / c) q).
Proof. exact rule_arg_scaling. Qed.
Print Assumptions rule_arg_scaling_sound.
Theorem rule_quadratic_perturbation_sound : forall n (f : list R -> option R) (w : list R) (sigma a : R) (u : list R) (k : R) (x q : list R),
  0 < sigma -> 0 <= a -> allpos w -> length w = n -> length u = n -> length x = n ->
  is_proxs n f (metric w (repeat (sigma * / (2 * sigma * a + 1)) n))
           (vscal (/ (2 * sigma * a + 1)) (vsub x (vscal sigma u))) q ->
  is_proxs n (fun z => eadd (f z) (Some (a * wnormsq w z + wdot w z u + k))) (metric w (repeat sigma n)) x q.
Proof. exact rule_quadratic_perturbation. Qed.
Print Assumptions rule_quadratic_perturbation_sound.
Theorem rule_separable_sum_sound : forall n1 n2 (f1 f2 : list R -> option R) (m1 m2 x1 x2 p1 p2 : list R),
  length m1 = n1 -> length x1 = n1 -> length m2 = n2 -> length x2 = n2 ->
  is_proxs n1 f1 m1 x1 p1 -> is_proxs n2 f2 m2 x2 p2 ->
  is_proxs (n1 + n2) (fun z => eadd (f1 (firstn n1 z)) (f2 (skipn n1 z))) (m1 ++ m2) (x1 ++ x2) (p1 ++ p2).
Proof. exact rule_separable. Qed.
Print Assumptions rule_separable_sum_sound.
Theorem variational_form_implies_minimiser : forall n (f : list R -> option R) (m x p : list R),
  length m = n -> length x = n -> allpos m -> is_proxs n f m x p -> is_proxm n f m x p.
Proof. exact is_proxs_proxm. Qed.
Print Assumptions variational_form_implies_minimiser.
Print Assumptions rule_quadratic_perturbation_sound.

(* Closure of SOUND proximal factories under the model's own combinators (= the code's calculus rules), for
   arbitrary functionals; scalar steps.
     sound n w f pf :=  forall sigma x, 0 < sigma -> length x = n ->
        exists p, pf (SScal sigma) x = Ok p /\ is_proxs n f (metric w (repeat sigma n)) x p
   Every finite composition of the rules applied to sound leaves is therefore sound -- convex conjugation
   (FunctionalDefaultConvexConjugate / proximal_convex_conj) at ANY position of an expression included. *)
Theorem sound_every_wellformed_tree : forall e : @fexpr R, wf e -> sound (fdim e) (fweights e) (fval e) (fprox e).
Proof. exact sound_tree. Qed.
Print Assumptions sound_every_wellformed_tree.
Theorem sound_closed_translation : forall n w f pf t, length w = n -> length t = n ->
  sound n w f pf -> sound n w (fun z => f (vsub z t)) (prox_translation pf t).
Proof. exact sound_translation. Qed.
Print Assumptions sound_closed_translation.
Theorem sound_closed_left_scaling : forall n w f pf s, 0 < s -> length w = n ->
  sound n w f pf -> sound n w (fun z => escal s (f z)) (fun sg x => pf (sig_scale s sg) x).
Proof. exact sound_left_scaling. Qed.
Print Assumptions sound_closed_left_scaling.
Theorem sound_closed_arg_scaling : forall n w f pf c, c <> 0 -> length w = n ->
  sound n w f pf -> sound n w (fun z => f (vscal c z)) (prox_arg_scaling pf c).
Proof. exact sound_arg_scaling. Qed.
Print Assumptions sound_closed_arg_scaling.
Theorem sound_closed_quadratic_perturbation : forall n w f pf a u k, 0 <= a -> allpos w -> length w = n -> length u = n ->
  sound n w f pf ->
  sound n w (fun z => eadd (f z) (Some (a * wnormsq w z + wdot w z u + k))) (prox_quad_pert pf a (Some u)).
Proof. exact sound_quadratic_perturbation. Qed.
Print Assumptions sound_closed_quadratic_perturbation.
Theorem sound_closed_convex_conj : forall n w f fs pf, allpos w -> length w = n ->
  is_conj n w f fs -> sound n w f pf -> sound n w fs (prox_convex_conj pf).
Proof. exact sound_convex_conj. Qed.
Print Assumptions sound_closed_convex_conj.
Theorem sound_closed_separable_sum : forall n1 n2 w1 w2 f1 f2 p1 p2, length w1 = n1 -> length w2 = n2 ->
  sound n1 w1 f1 p1 -> sound n2 w2 f2 p2 ->
  sound (n1 + n2) (w1 ++ w2) (fun z => eadd (f1 (firstn n1 z)) (f2 (skipn n1 z))) (prox_combine n1 p1 p2).
Proof. exact sound_combine. Qed.
Print Assumptions sound_closed_separable_sum.
Theorem sound_closed_composition : forall k n f pf A mu, rows_ok k n A -> 0 < mu ->
  (forall u, length u = k -> mvec A (mvec (transpose n A) u) = vscal mu u) ->
  sound k (repeat 1 k) f pf -> sound n (repeat 1 n) (fun z => f (mvec A z)) (prox_composition pf n A mu).
Proof. exact sound_composition. Qed.
Print Assumptions sound_closed_composition.
Print Assumptions sound_closed_quadratic_perturbation.

(* Moreau rule = proximal_convex_conj:  x - sigma * prox_{f, 1/sigma}(x / sigma)  is the proximal point of the
   convex conjugate fs of f (conjugate w.r.t. the weighted inner product, as a least upper bound in the
   extended reals), for an ARBITRARY f -- no convexity or lower semicontinuity assumption is needed in the
   variational form. *)
Theorem rule_convex_conj_sound : forall n (f fs : list R -> option R) (w : list R) (sigma : R) (x q : list R),
  0 < sigma -> allpos w -> length w = n -> length x = n ->
  (forall y, length y = n ->
     (forall z v, length z = n -> f z = Some v -> ele (Some (wdot w y z - v)) (fs y)) /\
     (forall M, (forall z v, length z = n -> f z = Some v -> wdot w y z - v <= M) -> ele (fs y) (Some M))) ->
  is_proxs n f (metric w (repeat (1 / sigma) n)) (vscal (1 / sigma) x) q ->
  is_proxs n fs (metric w (repeat sigma n)) x (vsub x (vscal sigma q)).
Proof. exact rule_moreau. Qed.
Print Assumptions rule_convex_conj_sound.

(* ... hence FunctionalDefaultConvexConjugate(f).proximal is right for EVERY well-formed tree f: *)
Theorem prox_tree_default_convex_conj : forall (e : @fexpr R) (fs : list R -> option R) (sigma : R) (x : list R),
  wf e -> 0 < sigma -> length x = fdim e ->
  is_conj (fdim e) (fweights e) (fval e) fs ->
  exists p, prox_convex_conj (fprox e) (SScal sigma) x = Ok p /\
            is_proxs (fdim e) fs (metric (fweights e) (repeat sigma (fdim e))) x p.
Proof. exact fprox_default_convex_conj. Qed.
Print Assumptions prox_tree_default_convex_conj.

(* the pair used by IndicatorLpUnitBall(2).proximal = proximal_convex_conj(proximal_l2): the conjugate of the
   norm of the weighted space is the indicator of its unit ball (weighted Cauchy-Schwarz) *)
Theorem norm_ball_conjugate_pair : forall n (w : list R), allpos w -> length w = n ->
  is_conj n w (leaf_val FL2 w) (leaf_val FBall2 w).
Proof. exact l2_ball_conj. Qed.
Print Assumptions norm_ball_conjugate_pair.
Theorem weighted_cauchy_schwarz : forall n (w a b : list R), allpos w -> length w = n -> length a = n -> length b = n ->
  wdot w a b <= sqrt (wnormsq w a) * sqrt (wnormsq w b).
Proof. exact cauchy_schwarz. Qed.
Print Assumptions weighted_cauchy_schwarz.

(* proximal_convex_conj_l2(space, lam, g) = proximal_convex_conj(proximal_l2(space, lam, g)): the conjugate of
   lam*||. - g||_w is the indicator of the lam-ball of the space norm plus <., g>_w, and the factory is sound for it *)
Theorem norm_conjugate_pair_lam_g : forall lam n (g w : list R), 0 < lam -> allpos w -> length w = n -> length g = n ->
  is_conj n w (F_l2 lam g w) (fun y => if Rleb (wnormsq w y) (lam * lam) then Some (wdot w y g) else None).
Proof. exact l2_conj_pair. Qed.
Print Assumptions norm_conjugate_pair_lam_g.
Theorem factory_convex_conj_l2 : forall lam n (g w : list R), 0 < lam -> allpos w -> length w = n -> length g = n ->
  sound n w (fun y => if Rleb (wnormsq w y) (lam * lam) then Some (wdot w y g) else None)
        (prox_convex_conj (fun s x => needs_scalar s (fun sg => Ok (prox_l2 w lam (Some g) sg x)))).
Proof. exact ccl2_factory_sound. Qed.
Print Assumptions factory_convex_conj_l2.

(* proximal_l2(space, lam, g): block soft threshold in the norm of the weighted space *)
Theorem factory_l2 : forall lam n (g w : list R) (s : R) (x : list R), 0 < lam -> 0 < s ->
  length g = n -> length w = n -> length x = n -> allpos w ->
  is_proxs n (F_l2 lam g w) (metric w (repeat s n)) x (prox_l2 w lam (Some g) s x).
Proof. exact l2_factory_prox. Qed.
Print Assumptions factory_l2.

(* proximal_composition(prox_f, A, mu):  x + (1/mu) A^T (prox_{f, mu sigma}(A x) - A x)  is the proximal point of
   f o A whenever A A^T = mu I (A a matrix between unweighted spaces; any functional f). *)
Theorem rule_composition_sound : forall k n (f : list R -> option R) (A : list (list R)) (mu sigma : R) (x q : list R),
  rows_ok k n A -> 0 < mu -> 0 < sigma -> length x = n ->
  (forall u, length u = k -> mvec A (mvec (transpose n A) u) = vscal mu u) ->
  is_proxs k f (repeat (/ (mu * sigma)) k) (mvec A x) q ->
  is_proxs n (fun z => f (mvec A z)) (repeat (/ sigma) n) x
           (vadd x (vscal (1 / mu) (mvec (transpose n A) (vsub q (mvec A x))))).
Proof. exact rule_composition. Qed.
Print Assumptions rule_composition_sound.
Example composition_hypothesis_satisfiable :
  rows_ok 2 2 [[1; 1]; [-1; 1]] /\
  forall u : list R, length u = 2%nat -> mvec [[1; 1]; [-1; 1]] (mvec (transpose 2 [[1; 1]; [-1; 1]]) u) = vscal 2 u.
Proof.
  split; [split; [reflexivity | repeat constructor]|].
  intros [|a [|b [|c u]]] H; try discriminate.
  cbv [mvec transpose zipcons map dot vmul vmap2 sumf vscal repeat]. numR.
  f_equal; [ring|]. f_equal. ring.
Qed.

(* The factories called directly with lam and g (weighted space, per-point steps where documented):
   proximal_l1(space, lam, g) is the proximal of lam*||. - g||_1, proximal_l2_squared of lam*||. - g||^2,
   proximal_convex_conj_l2_squared of ||.||^2/(4 lam) + <., g>, proximal_convex_conj_l1 of the indicator of
   the lam-box plus <., g>. *)
Theorem factory_l1 : forall lam n (g w sv x : list R), 0 < lam ->
  length g = n -> length w = n -> length sv = n -> length x = n -> allpos w -> allpos sv ->
  is_proxs n (F_l1 lam g w) (metric w sv) x (prox_l1 lam (Some g) sv x).
Proof. exact l1_factory_prox. Qed.
Print Assumptions factory_l1.
Theorem factory_l2_squared : forall lam n (g w sv x : list R), 0 < lam ->
  length g = n -> length w = n -> length sv = n -> length x = n -> allpos w -> allpos sv ->
  is_proxs n (F_l2sq lam g w) (metric w sv) x (prox_l2sq lam (Some g) sv x).
Proof. exact l2sq_factory_prox. Qed.
Print Assumptions factory_l2_squared.
Theorem factory_convex_conj_l2_squared : forall lam n (g w sv x : list R), 0 < lam ->
  length g = n -> length w = n -> length sv = n -> length x = n -> allpos w -> allpos sv ->
  is_proxs n (F_ccl2sq lam g w) (metric w sv) x (prox_cc_l2sq lam (Some g) sv x).
Proof. exact ccl2sq_factory_prox. Qed.
Print Assumptions factory_convex_conj_l2_squared.
Theorem factory_convex_conj_l1 : forall lam n (g w : list R) (s : R) (x : list R), 0 < lam -> 0 < s ->
  length g = n -> length w = n -> length x = n -> allpos w ->
  is_proxs n (F_ccl1 lam g w) (metric w (repeat s n)) x (prox_cc_l1 lam (Some g) s x).
Proof. exact ccl1_factory_prox. Qed.
Print Assumptions factory_convex_conj_l1.

(* The sort-based projections, all sizes: proj_simplex (insertion sort, running averages, last index with
   x_sor[j] - avg[j] >= 0) returns max(x - tau, 0) with sum max(x_i - tau, 0) = diameter; it is the proximal
   point of IndicatorSimplex on a uniformly weighted space. *)
Theorem proj_simplex_threshold : forall (d : R) (x : list R), 0 <= d -> x <> [] ->
  exists tau, proj_simplex d x = Ok (map (fun a => Rmax (a - tau) 0) x) /\
              sumf (map (fun a => Rmax (a - tau) 0) x) = d.
Proof. exact proj_simplex_spec. Qed.
Print Assumptions proj_simplex_threshold.
Theorem indicator_simplex_prox : forall n (d k : R) (w x : list R), 0 <= d -> 0 < k -> length x = n -> (1 <= n)%nat ->
  exists p, proj_simplex d x = Ok p /\ is_proxs n (leaf_val (FSimplex d) w) (repeat k n) x p.
Proof. exact simplex_leaf_prox. Qed.
Print Assumptions indicator_simplex_prox.
(* proj_l1 / IndicatorLpUnitBall(1) and the L-infinity proximal x - proj_l1(x, sigma), unweighted space *)
Theorem indicator_l1_ball_prox : forall n (k : R) (x : list R), 0 < k -> length x = n -> (1 <= n)%nat ->
  exists p, leaf_prox FBall1 (repeat 1 n) (SScal 1) x = Ok p /\
            is_proxs n (leaf_val FBall1 (repeat 1 n)) (repeat k n) x p.
Proof. exact ball1_leaf_prox. Qed.
Print Assumptions indicator_l1_ball_prox.
Theorem linfty_prox : forall n (sigma : R) (x : list R), 0 < sigma -> length x = n -> (1 <= n)%nat ->
  exists p, leaf_prox FLInf (repeat 1 n) (SScal sigma) x = Ok p /\
            is_proxs n (leaf_val FLInf (repeat 1 n)) (repeat (/ sigma) n) x p.
Proof. exact linf_leaf_prox. Qed.
Print Assumptions linfty_prox.

(* GroupL1Norm(X^d, exponent 2) / proximal_l1_l2: block soft threshold at every point of a vector field, flat
   layout of d blocks of m entries, weights wb of X repeated d times; all d >= 1, all m. *)
Theorem group_l1_l2_prox : forall m d (wb x : list R) (s : R), 0 < s -> (1 <= d)%nat -> allpos wb -> length wb = m ->
  length x = (d * m)%nat ->
  let w := concat (repeat wb d) in
  is_proxs (d * m) (leaf_val (FGroupL1 m d true) w) (metric w (repeat s (d * m))) x (prox_l1_l2 m d 1 None s x).
Proof. exact groupl1_leaf_prox. Qed.
Print Assumptions group_l1_l2_prox.
(* IndicatorGroupL1UnitBall(X^d, exponent 2) / proximal_convex_conj_l1_l2: projection of every point onto the unit
   ball of R^d *)
Theorem group_unit_ball_prox : forall m d (wb x : list R) (s : R), 0 < s -> (1 <= d)%nat -> allpos wb -> length wb = m ->
  length x = (d * m)%nat ->
  let w := concat (repeat wb d) in
  is_proxs (d * m) (leaf_val (FGroupBall m d true) w) (metric w (repeat s (d * m))) x (prox_cc_l1_l2 m d 1 None s x).
Proof. exact groupball_leaf_prox. Qed.
Print Assumptions group_unit_ball_prox.

(* proximal_l1_l2(space, lam, g): as a composition of the proved rules -- it equals
   g + prox_{GroupL1Norm, sigma*lam}(x - g) and is a sound factory of lam * GroupL1Norm(. - g) *)
Theorem factory_l1_l2 : forall m d lam (g wb : list R), 0 < lam -> (1 <= d)%nat -> allpos wb -> length wb = m ->
  length g = (d * m)%nat ->
  let w := concat (repeat wb d) in
  sound (d * m) w (fun z => escal lam (leaf_val (FGroupL1 m d true) w (vsub z g)))
        (fun s x => needs_scalar s (fun sg => Ok (prox_l1_l2 m d lam (Some g) sg x))).
Proof. exact l1_l2_factory_sound. Qed.
Print Assumptions factory_l1_l2.

(* Kullback-Leibler (values involve ln, so these leaves are outside the executable tree model; the proximal
   formulas are the model's, tied by the correspondence):
   proximal_convex_conj_kl(space, lam, g)(sigma)(x) = (x + lam - sqrt((x-lam)^2 + 4 lam sigma g))/2 is the proximal
   point of  sum_i w_i (- lam g_i ln(1 - y_i/lam))  (+infinity unless y < lam), i.e. of KullbackLeibler(prior=g)
   .convex_conj for lam = 1;  and KullbackLeibler(prior=g).proximal = proximal_convex_conj(...) is the proximal point
   of  sum_i w_i (z_i - g_i + g_i ln(g_i / z_i))  (+infinity unless z > 0).   Prior g > 0. *)
Theorem kl_convex_conj_prox : forall lam n (g w x : list R) (s : R), 0 < lam -> 0 < s -> allpos g ->
  length g = n -> length w = n -> length x = n -> allpos w ->
  is_proxs n (sepsum (map (fun gi t => if Rltb t lam then Some (- lam * gi * ln (1 - t / lam)) else None) g) w)
           (metric w (repeat s n)) x (prox_cc_kl lam (Some g) s x).
Proof. exact klcc_factory_prox. Qed.
Print Assumptions kl_convex_conj_prox.
Theorem kl_prox : forall n (g w x : list R) (s : R), 0 < s -> allpos g ->
  length g = n -> length w = n -> length x = n -> allpos w ->
  exists p, prox_convex_conj (fun s' y => needs_scalar s' (fun sg => Ok (prox_cc_kl 1 (Some g) sg y))) (SScal s) x = Ok p /\
    is_proxs n (sepsum (map (fun gi t => if Rltb 0 t then Some (t - gi + gi * ln (gi / t)) else None) g) w)
             (metric w (repeat s n)) x p.
Proof. exact kl_binding_prox. Qed.
Print Assumptions kl_prox.

(* The FULL statement -- the tree theorem for every leaf on every positively weighted space, i.e.
       forall e, (weights positive, scalars admissible) -> fprox e (SScal sigma) x minimises ...
   without the "uniformly weighted / unweighted" side conditions of wf for IndicatorSimplex, LpNorm(inf) and
   IndicatorLpUnitBall(1) -- is FALSE of the faithful model, hence of the code (recorded findings
   indicator-simplex-nonuniform-weights, linfty-weighted-space, indicator-l1-ball-weighted-space).
   prox_tree_minimises above is the _partial statement with the exact precondition. *)
Theorem linfty_prox_weighted_space_refuted :
  exists (w x p z : list R) (sigma : R), allpos w /\ 0 < sigma /\ length x = length w /\ length z = length w /\
    leaf_prox FLInf w (SScal sigma) x = Ok p /\
    ~ ele (prox_obj (leaf_val FLInf w) (metric w (repeat sigma (length w))) x p)
          (prox_obj (leaf_val FLInf w) (metric w (repeat sigma (length w))) x z).
Proof. exact linfty_weighted_refuted. Qed.
Print Assumptions linfty_prox_weighted_space_refuted.
Theorem indicator_l1_ball_weighted_space_refuted :
  exists (w x p z : list R) (sigma : R), allpos w /\ 0 < sigma /\ length x = length w /\ length z = length w /\
    leaf_prox FBall1 w (SScal sigma) x = Ok p /\
    ~ ele (prox_obj (leaf_val FBall1 w) (metric w (repeat sigma (length w))) x p)
          (prox_obj (leaf_val FBall1 w) (metric w (repeat sigma (length w))) x z).
Proof. exact l1_ball_weighted_refuted. Qed.
Print Assumptions indicator_l1_ball_weighted_space_refuted.
Theorem indicator_simplex_nonuniform_weights_refuted :
  exists (w x p z : list R) (sigma d : R), allpos w /\ 0 < sigma /\ length x = length w /\ length z = length w /\
    leaf_prox (FSimplex d) w (SScal sigma) x = Ok p /\
    ~ ele (prox_obj (leaf_val (FSimplex d) w) (metric w (repeat sigma (length w))) x p)
          (prox_obj (leaf_val (FSimplex d) w) (metric w (repeat sigma (length w))) x z).
Proof. exact simplex_nonuniform_weights_refuted. Qed.
Print Assumptions indicator_simplex_nonuniform_weights_refuted.

(* non-vacuity: a weighted, translated, scaled, perturbed separable tree is well-formed *)
Example wf_example :
  wf (Sep (Transl [1; 2] (LScal 2 (Leaf FL1 [1; 3])))
          (QPert (1/2) (Some [1]) 3 (RScal (-2) (Leaf (FHuber 1) [1/4])))).
Proof. cbn; repeat split; try lra; repeat constructor; lra. Qed.

Example wf_example_sorting_and_groups :
  wf (Sep (LScal 3 (Leaf (FSimplex 1) [2; 2; 2]))
          (Sep (Transl [1; 0; 0; 2] (Leaf (FGroupL1 2 2 true) [1; 3; 1; 3]))
               (Sep (Leaf FLInf [1; 1]) (Leaf (FGroupBall 1 2 true) [5; 5])))).
Proof.
  cbn [wf leaf_ok length]. repeat split; try lra; try lia; repeat constructor; try lra.
  - exists 2. reflexivity.
  - exists [1; 3]. repeat split; try reflexivity; repeat constructor; lra.
  - exists [5]. repeat split; try reflexivity; repeat constructor; lra.
Qed.
