(* C07/Props.v -- property theorems only; each is closed by [exact] of a lemma from the
   C07 development and followed by Print Assumptions.

   Model (C07/Model.v, tied to /repo by the correspondence of harness/c07.py):
     fexpr      functional expression trees: Leaf (default functional on the space with weights w),
                LScal (s*f), RScal (f(s.)), SSum (f+c), Transl, QPert (quadratic perturbation /
                Bregman distance), Sep (SeparableSum)
     fval e x   the value f(x)  (option R, None = +infinity)       -- the _call methods
     fprox e s x  f.proximal(s)(x)                                  -- the .proximal bindings + factories
     fweights e   the weights w of the functional's own space: <x,y> = sum w_i x_i y_i
   wf e: weights positive; LScal scalar > 0; RScal scalar <> 0; QPert coefficient >= 0; translation /
   linear term of the right length; leaves among L1Norm, L2NormSquared, ConstantFunctional,
   IndicatorBox/Nonnegativity, IndicatorZero, IndicatorLpUnitBall(inf), Huber(gamma >= 0).          *)
From Coq Require Import Reals Lra List Bool.
From Verif Require Import Base.Num Base.Vec Base.VecR C07.Model C07.Convex C07.Leaves C07.LeafThms C07.Rules C07.Proofs.
Import ListNotations.
Local Open Scope R_scope.

(* T1 (the property, scalar step): for EVERY well-formed functional tree (any depth), every size,
   every sigma > 0 and every x, f.proximal(sigma)(x) returns a point p with f(p) finite such that
   no z gives a smaller value of f(z) + ||z-x||^2/(2 sigma), the norm being that of the tree's own
   weighted space. *)
Theorem prox_tree_minimises : forall (e : @fexpr R) (sigma : R) (x : list R),
  wf e -> 0 < sigma -> length x = fdim e ->
  exists p, fprox e (SScal sigma) x = Ok p /\
    length p = fdim e /\ (exists v, fval e p = Some v) /\
    forall z, length z = fdim e ->
      ele (eadd (fval e p) (Some (wnormsq (fweights e) (vsub p x) / (2 * sigma))))
          (eadd (fval e z) (Some (wnormsq (fweights e) (vsub z x) / (2 * sigma)))).
Proof. exact fprox_optimal_scalar. Qed.
Print Assumptions prox_tree_minimises.

(* T1 (per-point and per-component steps): the same for every admissible step specification s
   (sig_ok: scalar > 0 anywhere; a positive space element where the leaf documents it: L1, L2^2,
   constant, box, {0}; a list of steps at a SeparableSum), with the step entering as the metric
   (1/2) sum_i (w_i / sigma_i) (z_i - x_i)^2. *)
Theorem prox_tree_minimises_general_step : forall (e : @fexpr R), wf e -> forall (s : @sig R) (x : list R),
  sig_ok e s -> length x = fdim e ->
  exists p, fprox e s x = Ok p /\
    length p = fdim e /\ (exists v, fval e p = Some v) /\
    forall z, length z = fdim e ->
      ele (prox_obj (fval e) (metric (fweights e) (sig_flat e s)) x p)
          (prox_obj (fval e) (metric (fweights e) (sig_flat e s)) x z).
Proof. exact fprox_optimal_all. Qed.
Print Assumptions prox_tree_minimises_general_step.

(* non-vacuity: a weighted, translated, scaled, perturbed separable tree is well-formed *)
Example wf_example :
  wf (Sep (Transl [1; 2] (LScal 2 (Leaf FL1 [1; 3])))
          (QPert (1/2) (Some [1]) 3 (RScal (-2) (Leaf (FHuber 1) [1/4])))).
Proof. cbn; repeat split; try lra; repeat constructor; lra. Qed.
