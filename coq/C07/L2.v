(* C07/L2.v -- non-separable leaves: the norm of the weighted space (block soft threshold),
   weighted Cauchy-Schwarz, convex conjugates and the Moreau rule, the unit ball of the space norm. *)
From Coq Require Import ZArith QArith Reals Lra Lia List Bool Psatz.
From Verif Require Import Base.Num Base.Vec Base.VecR C07.Model C07.Convex C07.Leaves C07.LeafThms C07.Rules.
Import ListNotations.
Local Open Scope R_scope.

(* ---------------- weighted Cauchy-Schwarz ---------------- *)
Lemma cs_sq n (w a b : Rvec) : allpos w -> length w = n -> length a = n -> length b = n ->
  wdot w a b * wdot w a b <= wnormsq w a * wnormsq w b.
Proof.
  intros Pw Hw Ha Hb.
  set (A := wnormsq w a). set (B := wnormsq w b). set (C := wdot w a b).
  assert (HA : 0 <= A) by (apply wnormsq_nonneg; assumption).
  assert (HB : 0 <= B) by (apply wnormsq_nonneg; assumption).
  assert (Hq : forall t, 0 <= A - 2 * t * C + t * t * B).
  { intros t. pose proof (wnormsq_nonneg w (vsub a (vscal t b)) Pw) as Q.
    rewrite (wnormsq_mid n) in Q by auto with vlen.
    rewrite (wdot_vscal_r' n), (wnormsq_vscal n) in Q by auto with vlen. fold A B C in Q. lra. }
  destruct (Req_dec B 0) as [E|E].
  - rewrite E in *. assert (C = 0).
    { destruct (Req_dec C 0) as [|N]; [assumption|]. exfalso.
      pose proof (Hq ((A + 1) / (2 * C))) as Q.
      replace (A - 2 * ((A + 1) / (2 * C)) * C + (A + 1) / (2 * C) * ((A + 1) / (2 * C)) * 0) with (-1) in Q by (field; assumption).
      lra. }
    rewrite H. lra.
  - assert (HBp : 0 < B) by lra.
    pose proof (Hq (C / B)) as Q.
    replace (A - 2 * (C / B) * C + C / B * (C / B) * B) with (A - C * C / B) in Q by (field; assumption).
    assert (C * C / B <= A) by lra.
    apply (Rmult_le_compat_r B) in H; [|lra]. unfold Rdiv in H. rewrite Rmult_assoc, Rinv_l, Rmult_1_r in H by assumption. lra.
Qed.

Lemma cauchy_schwarz n (w a b : Rvec) : allpos w -> length w = n -> length a = n -> length b = n ->
  wdot w a b <= sqrt (wnormsq w a) * sqrt (wnormsq w b).
Proof.
  intros Pw Hw Ha Hb. pose proof (cs_sq n w a b Pw Hw Ha Hb) as Q.
  assert (HA : 0 <= wnormsq w a) by (apply wnormsq_nonneg; assumption).
  assert (HB : 0 <= wnormsq w b) by (apply wnormsq_nonneg; assumption).
  rewrite <- sqrt_mult by assumption.
  apply Rle_trans with (Rabs (wdot w a b)); [apply Rle_abs|].
  rewrite <- sqrt_Rsqr_abs. apply sqrt_le_1_alt. unfold Rsqr. exact Q.
Qed.

Lemma sqrt_wnormsq_vscal n c (w v : Rvec) : 0 <= c -> allpos w -> length w = n -> length v = n ->
  sqrt (wnormsq w (vscal c v)) = c * sqrt (wnormsq w v).
Proof.
  intros Hc Pw Hw Hv. rewrite (wnormsq_vscal n) by assumption.
  rewrite sqrt_mult; [|nra|apply wnormsq_nonneg; assumption].
  replace (c * c) with (Rsqr c) by reflexivity. rewrite sqrt_Rsqr by assumption. reflexivity.
Qed.

(* ---------------- L2 norm: block soft threshold ---------------- *)
Definition F_l2 (lam : R) (g w z : Rvec) : option R := Some (lam * sqrt (wnormsq w (vsub z g))).

Lemma vsub_vlin_l n : forall st (x g : Rvec), length x = n -> length g = n ->
  vsub x (vlin (1 - st) x st g) = vscal st (vsub x g).
Proof. vind n. unfv; cbn [map vmap2]; f_equal; [numR; ring | apply IHn; lia]. Qed.
Lemma vlin_sub_g n : forall st (x g : Rvec), length x = n -> length g = n ->
  vsub (vlin (1 - st) x st g) g = vscal (1 - st) (vsub x g).
Proof. vind n. unfv; cbn [map vmap2]; f_equal; [numR; ring | apply IHn; lia]. Qed.
Lemma vsub_split n : forall z p g : Rvec, length z = n -> length p = n -> length g = n ->
  vsub z p = vsub (vsub z g) (vsub p g).
Proof. vind n. unfv; cbn [vmap2]; f_equal; [numR; ring | apply IHn; lia]. Qed.

Theorem l2_shrink n w lam sigma (g x : Rvec) :
  allpos w -> 0 < lam -> 0 < sigma -> length w = n -> length g = n -> length x = n ->
  let nd := sqrt (wnormsq w (vsub x g)) in
  0 < nd -> sigma * lam / nd < 1 ->
  is_proxs n (F_l2 lam g w) (metric w (repeat sigma n)) x
           (vlin (1 - sigma * lam / nd) x (sigma * lam / nd) g).
Proof.
  intros Pw Hl Hs Hw Hg Hx nd Hnd Hst. set (st := sigma * lam / nd) in *.
  set (d := vsub x g) in *. assert (Ld : length d = n) by (unfold d; auto with vlen).
  assert (Hnd2 : nd * nd = wnormsq w d) by (apply sqrt_sqrt, wnormsq_nonneg; assumption).
  assert (Hst0 : 0 < st) by (unfold st; apply Rdiv_lt_0_compat; nra).
  split; [auto with vlen|]. exists (lam * ((1 - st) * nd)). split.
  - unfold F_l2. rewrite (vlin_sub_g n) by assumption. fold d.
    rewrite (sqrt_wnormsq_vscal n) by (auto; lra). reflexivity.
  - intros z Hz. unfold F_l2. cbn [ele].
    rewrite (metric_scalar_dot n) by (auto with vlen; lra).
    rewrite (vsub_vlin_l n) by assumption. fold d.
    rewrite (vsub_split n z _ g) by auto with vlen. rewrite (vlin_sub_g n) by assumption. fold d.
    set (e := vsub z g). assert (Le : length e = n) by (unfold e; auto with vlen).
    rewrite (wdot_vsub_l n), !(wdot_vscal_r' n), (wdot_vscal_l n) by auto with vlen.
    fold (wnormsq w d). rewrite <- Hnd2.
    pose proof (cauchy_schwarz n w e d Pw Hw Le Ld) as CS. fold nd in CS.
    set (ne := sqrt (wnormsq w e)) in *. set (C := wdot w e d) in *.
    (* goal: lam (1-st) nd + (st (C - (1-st) nd nd)) / sigma <= lam ne,  st/sigma = lam/nd *)
    assert (Hs2 : st / sigma = lam / nd) by (unfold st; field; split; lra).
    replace ((st * C - st * ((1 - st) * (nd * nd))) / sigma) with (st / sigma * (C - (1 - st) * (nd * nd))) by (field; lra).
    rewrite Hs2.
    replace (lam / nd * (C - (1 - st) * (nd * nd))) with (lam * (C / nd) - lam * ((1 - st) * nd)) by (field; lra).
    assert (C / nd <= ne).
    { apply (Rmult_le_reg_r nd); [assumption|]. unfold Rdiv. rewrite Rmult_assoc, Rinv_l by lra. lra. }
    nra.
Qed.

Theorem l2_noshrink n w lam sigma (g x : Rvec) :
  allpos w -> 0 < lam -> 0 < sigma -> length w = n -> length g = n -> length x = n ->
  let nd := sqrt (wnormsq w (vsub x g)) in
  ~ (0 < nd /\ sigma * lam / nd < 1) ->
  is_proxs n (F_l2 lam g w) (metric w (repeat sigma n)) x g.
Proof.
  intros Pw Hl Hs Hw Hg Hx nd Hno.
  set (d := vsub x g) in *. assert (Ld : length d = n) by (unfold d; auto with vlen).
  assert (Hnd0 : 0 <= nd) by apply sqrt_pos.
  assert (Hle : nd <= sigma * lam).
  { destruct (Rle_dec nd (sigma * lam)) as [|N]; [assumption|]. exfalso. apply Hno.
    assert (0 < sigma * lam) by nra. split; [lra|].
    apply (Rmult_lt_reg_r nd); [lra|]. unfold Rdiv. rewrite Rmult_assoc, Rinv_l by lra. lra. }
  split; [assumption|]. exists 0. split.
  - unfold F_l2. rewrite (vsub_self n) by assumption.
    rewrite (wnormsq_zero_vec n) by assumption. rewrite sqrt_0. f_equal. ring.
  - intros z Hz. unfold F_l2. cbn [ele].
    rewrite (metric_scalar_dot n) by (auto with vlen; lra). fold d.
    set (e := vsub z g). assert (Le : length e = n) by (unfold e; auto with vlen).
    pose proof (cauchy_schwarz n w e d Pw Hw Le Ld) as CS. fold nd in CS.
    set (ne := sqrt (wnormsq w e)) in *. assert (0 <= ne) by apply sqrt_pos.
    assert (wdot w e d / sigma <= lam * ne).
    { apply (Rmult_le_reg_r sigma); [assumption|]. unfold Rdiv. rewrite Rmult_assoc, Rinv_l by lra. nra. }
    lra.
Qed.

(* ---------------- the model's prox_l2 ---------------- *)
Theorem l2_factory_prox lam n g w s x : 0 < lam -> 0 < s ->
  length g = n -> length w = n -> length x = n -> allpos w ->
  is_proxs n (F_l2 lam g w) (metric w (repeat s n)) x (@prox_l2 R _ _ w lam (Some g) s x).
Proof.
  intros Hl Hs Hg Hw Hx Pw. unfold prox_l2, gsub, wnorm. numS.
  destruct (Rltb_spec 0 (sqrt (wnormsq w (vsub x g)))) as [H0|H0].
  - destruct (Rltb_spec (s * lam / sqrt (wnormsq w (vsub x g))) 1) as [H1|H1].
    + apply l2_shrink; assumption.
    + apply l2_noshrink; try assumption. intros [_ C]. contradiction.
  - apply l2_noshrink; try assumption. intros [C _]. contradiction.
Qed.

Lemma vsub_zero_r n : forall z : Rvec, length z = n -> vsub z (repeat 0 n) = z.
Proof. vind n. unfv; cbn [repeat vmap2]; f_equal; [numR; ring | apply IHn; lia]. Qed.
Lemma vlin_zero_r n : forall a b (x : Rvec), length x = n -> vlin a x b (repeat 0 n) = vscal a x.
Proof. vind n. unfv; cbn [repeat map vmap2]; f_equal; [numR; ring | apply IHn; lia]. Qed.
Lemma map_zero_repeat n : forall x : Rvec, length x = n -> map (fun _ => 0) x = repeat 0 n.
Proof. vind n. cbn [map repeat]. f_equal. apply IHn; lia. Qed.

Lemma prox_l2_none_eq lam n w s x : length x = n ->
  @prox_l2 R _ _ w lam None s x = @prox_l2 R _ _ w lam (Some (repeat 0 n)) s x.
Proof.
  intros Hx. unfold prox_l2, gsub. rewrite (vsub_zero_r n) by assumption.
  match goal with |- (if ?b then _ else _) = _ => destruct b end.
  - rewrite (vlin_zero_r n) by assumption. reflexivity.
  - apply map_zero_repeat; assumption.
Qed.

Theorem l2_leaf_prox n w s x : 0 < s -> length w = n -> length x = n -> allpos w ->
  is_proxs n (@leaf_val R _ _ FL2 w) (metric w (repeat s n)) x (@prox_l2 R _ _ w 1 None s x).
Proof.
  intros Hs Hw Hx Pw. rewrite (prox_l2_none_eq 1 n) by assumption.
  apply (is_proxs_ext n (F_l2 1 (repeat 0 n) w)).
  - intros z Hz. cbn [leaf_val]. unfold F_l2, wnorm. numS. rewrite (vsub_zero_r n) by assumption.
    f_equal. ring.
  - apply l2_factory_prox; auto using repeat_length. lra.
Qed.

(* ---------------- convex conjugate and the Moreau rule (variational form, no convexity needed) ----------------
   fs is the conjugate of f w.r.t. <.,.>_w :  fs(y) = sup_z ( <y,z>_w - f(z) )  as a least upper bound in
   the extended reals *)
Definition is_conj (n : nat) (w : Rvec) (f fs : Rvec -> option R) : Prop :=
  forall y, length y = n ->
    (forall z v, length z = n -> f z = Some v -> ele (Some (wdot w y z - v)) (fs y)) /\
    (forall M, (forall z v, length z = n -> f z = Some v -> wdot w y z - v <= M) -> ele (fs y) (Some M)).

Lemma vsub_x_sq n : forall s (x q : Rvec), s <> 0 -> length x = n -> length q = n ->
  vsub (vscal (1 / s) x) q = vscal (1 / s) (vsub x (vscal s q)).
Proof.
  induction n as [|n IHn]; intros s [|a x] [|b q] Hs Hx Hq; cbn [length] in *; try lia; [reflexivity|].
  unfv. cbn [map vmap2]. f_equal; [numR; field; assumption | apply IHn; auto; lia].
Qed.
Lemma vsub_vsub_self n : forall (x p : Rvec), length x = n -> length p = n -> vsub x (vsub x p) = p.
Proof. vind n. unfv; cbn [vmap2]; f_equal; [numR; ring | apply IHn; lia]. Qed.

Theorem rule_moreau n f fs w sigma x q :
  0 < sigma -> allpos w -> length w = n -> length x = n ->
  is_conj n w f fs ->
  is_proxs n f (metric w (repeat (1 / sigma) n)) (vscal (1 / sigma) x) q ->
  is_proxs n fs (metric w (repeat sigma n)) x (vsub x (vscal sigma q)).
Proof.
  intros Hs Pw Hw Hx Hc (Hq & vq & Hv & Ho).
  set (p := vsub x (vscal sigma q)). assert (Lp : length p = n) by (unfold p; auto with vlen).
  assert (Hi : 1 / sigma <> 0) by (unfold Rdiv; rewrite Rmult_1_l; apply Rinv_neq_0_compat; lra).
  (* p is a w-subgradient of f at q *)
  assert (Hsub : forall z, length z = n -> ele (Some (vq + wdot w (vsub z q) p)) (f z)).
  { intros z Hz. specialize (Ho z Hz). rewrite (metric_scalar_dot n) in Ho by auto with vlen.
    rewrite (vsub_x_sq n) in Ho by (auto; lra). fold p in Ho.
    rewrite (wdot_vscal_r' n) in Ho by auto with vlen.
    replace (1 / sigma * wdot w (vsub z q) p / (1 / sigma)) with (wdot w (vsub z q) p) in Ho by (field; lra).
    exact Ho. }
  destruct (Hc p Lp) as [Ub Lub].
  (* fs p = <p,q> - f q *)
  assert (Hfsp : fs p = Some (wdot w p q - vq)).
  { pose proof (Ub q vq Hq Hv) as U1.
    assert (L1 : ele (fs p) (Some (wdot w p q - vq))).
    { apply Lub. intros z v Hz Hfz. specialize (Hsub z Hz). rewrite Hfz in Hsub. cbn [ele] in Hsub.
      rewrite (wdot_vsub_l n) in Hsub by auto with vlen.
      rewrite (wdot_sym w z p), (wdot_sym w q p) in Hsub. lra. }
    destruct (fs p) as [a|]; cbn [ele] in *; [|contradiction]. f_equal. lra. }
  split; [assumption|]. exists (wdot w p q - vq). split; [assumption|].
  intros y Hy. destruct (Hc y Hy) as [Uy _]. specialize (Uy q vq Hq Hv).
  rewrite (metric_scalar_dot n) by (auto with vlen; lra).
  unfold p at 3. rewrite (vsub_vsub_self n) by auto with vlen.
  rewrite (wdot_vscal_r' n), (wdot_vsub_l n) by auto with vlen.
  destruct (fs y) as [a|]; cbn [ele] in *; [|exact I].
  replace (sigma * (wdot w y q - wdot w p q) / sigma) with (wdot w y q - wdot w p q) by (field; lra). lra.
Qed.

Lemma sqrt_le_one a : 0 <= a -> a <= 1 -> sqrt a <= 1.
Proof. intros H0 H1. rewrite <- sqrt_1. apply sqrt_le_1_alt. assumption. Qed.

(* the conjugate of the norm of the weighted space is the indicator of its unit ball *)
Theorem l2_ball_conj n w : allpos w -> length w = n ->
  is_conj n w (@leaf_val R _ _ FL2 w) (@leaf_val R _ _ FBall2 w).
Proof.
  intros Pw Hw y Hy. cbn [leaf_val]. unfold wnorm, ind. numS.
  assert (HN : 0 <= wnormsq w y) by (apply wnormsq_nonneg; assumption).
  split.
  - intros z v Hz [= <-]. destruct (Rleb_spec (wnormsq w y) 1) as [H1|H1]; cbn [ele]; [|exact I].
    pose proof (cauchy_schwarz n w y z Pw Hw Hy Hz) as CS.
    pose proof (sqrt_le_one _ HN H1) as S1. pose proof (sqrt_pos (wnormsq w z)) as S2.
    pose proof (sqrt_pos (wnormsq w y)) as S3. nra.
  - intros M HM.
    assert (M0 : 0 <= M).
    { specialize (HM (repeat 0 n) _ (repeat_length _ _) eq_refl).
      rewrite (wdot_zero_vec_r n), (wnormsq_zero_vec n), sqrt_0 in HM by assumption. lra. }
    destruct (Rleb_spec (wnormsq w y) 1) as [H1|H1]; cbn [ele]; [assumption|].
    apply Rnot_le_lt in H1.
    set (N := sqrt (wnormsq w y)).
    assert (HNN : N * N = wnormsq w y) by (apply sqrt_sqrt; assumption).
    assert (HN1 : 1 < N).
    { destruct (Rlt_dec 1 N) as [|C]; [assumption|]. exfalso. apply Rnot_lt_le in C.
      assert (0 <= N) by apply sqrt_pos. nra. }
    set (t := (M + 1) / (N * (N - 1))).
    assert (Ht : 0 < t) by (unfold t; apply Rdiv_lt_0_compat; nra).
    specialize (HM (vscal t y) _ ltac:(auto with vlen) eq_refl).
    rewrite (wdot_vscal_r' n) in HM by assumption.
    rewrite (sqrt_wnormsq_vscal n) in HM by (auto; lra).
    fold (wnormsq w y) in HM. fold N in HM. rewrite <- HNN in HM.
    assert (t * (N * N) - t * N = M + 1) by (unfold t; field; split; lra).
    lra.
Qed.

Theorem ball2_leaf_prox n w s x : 0 < s -> length w = n -> length x = n -> allpos w ->
  exists p, @leaf_prox R _ _ FBall2 w (SScal s) x = Ok p /\
            is_proxs n (@leaf_val R _ _ FBall2 w) (metric w (repeat s n)) x p.
Proof.
  intros Hs Hw Hx Pw. eexists. split.
  - cbn [leaf_prox prox_convex_conj needs_scalar rmap]. reflexivity.
  - numR. apply (rule_moreau n (@leaf_val R _ _ FL2 w)); auto.
    + apply l2_ball_conj; assumption.
    + apply l2_leaf_prox; auto with vlen. apply Rdiv_lt_0_compat; lra.
Qed.

