(* C07/BindSyntax.v -- syntax of the source fragments regenerated into Gen/ProxBindings.v by
   translate/prox_bindings.py (the `proximal` properties and the rule factories). *)
From Coq Require Import ZArith String List.
Import ListNotations.

Inductive pnum := NInt (z : Z) | NFrac (n : Z) (d : positive) | NInf.

Inductive pexp :=
| PNum (n : pnum)
| PName (x : string)
| PAttr (path : string)                       (* self.a.b  as "self.a.b" *)
| PBin (op : string) (a b : pexp)
| PNeg (a : pexp)
| PGet (e : pexp) (attr : string)
| PCall (f : string) (args : list pexp)
| PApp (f : pexp) (args : list pexp)          (* curried call f(..)(..) *)
| PKw (k : string) (v : pexp)
| PStar (x : string)
| PStarE (e : pexp)
| PComp (elt : pexp) (var : string) (iter : pexp)
| PList (es : list pexp).

Inductive pcond :=
| CCmp (attr : string) (op : string) (k : pnum)
| CCmpE (op : string) (a b : pexp)
| CNotIn (attr : string) (ks : list pnum)
| CIsScalar (e : pexp)
| CIsInstance (e : pexp) (cls : string)
| CAnd (cs : list pcond)
| CNot (c : pcond)
| CIs (op : string) (a b : pexp).

Inductive pbody :=
| BEnd
| BLet (x : string) (e : pexp) (k : pbody)
| BDef (f : string) (args : list string) (body k : pbody)
| BClass (c : string) (calls : list string) (k : pbody)
| BIf (c : pcond) (t e : pbody)
| BIfSeq (c : pcond) (t e k : pbody)
| BRet (e : pexp)
| BRaise (exc : string).
