(* C07/Corr.v -- correspondence checkers (executed at Q by the shards). *)
From Coq Require Import ZArith QArith List Bool.
From Verif Require Import Base.Num Base.Vec Base.Check C07.Model.
Import ListNotations.

Inductive impl_out := IOk (r : list Q) | IErr (e : err).

Definition atol : Q := 1 # 1000000000.
Definition rtol : Q := 1 # 1000000000.

Definition err_eqb (a b : err) : bool :=
  match a, b with
  | EValue, EValue | EType, EType | EAttr, EAttr | EOther, EOther => true
  | _, _ => false
  end.

Definition out_close (m : res (list Q)) (i : impl_out) : bool :=
  match m, i with
  | Ok r, IOk r' => Qsclose atol rtol r' r
  | Err e, IErr e' => err_eqb e e'
  | _, _ => false
  end.

(* impl value: IVNone = not evaluated, IVal (Some v) finite, IVal None = +inf *)
Inductive impl_val := IVSkip | IVal (v : option Q).
Definition val_close (m : option Q) (i : impl_val) : bool :=
  match i with
  | IVSkip => true
  | IVal v => opt_close atol rtol v m
  end.

(* ---- functional trees built through the Functional API ---- *)
Record tcase := { t_e : @fexpr Q; t_s : @sig Q; t_x : list Q;
                  t_conj : bool;               (* true: the functional is FunctionalDefaultConvexConjugate(e) *)
                  t_val : impl_val;            (* f(x) *)
                  t_prox : impl_out }.         (* f.proximal(sigma)(x) *)

Definition check_tree (k : tcase) : bool :=
  if t_conj k then out_close (prox_convex_conj (fprox (t_e k)) (t_s k) (t_x k)) (t_prox k)
  else val_close (fval (t_e k) (t_x k)) (t_val k)
       && out_close (fprox (t_e k) (t_s k) (t_x k)) (t_prox k).

(* ---- factories called directly (lam, g, step kinds, calculus rules) ---- *)
Inductive fac :=
| KL1 (lam : Q) (g : option (list Q))
| KCCL1 (lam : Q) (g : option (list Q))
| KL2 (w : list Q) (lam : Q) (g : option (list Q))
| KCCL2 (w : list Q) (lam : Q) (g : option (list Q))
| KL2Sq (lam : Q) (g : option (list Q))
| KCCL2Sq (lam : Q) (g : option (list Q))
| KLinf | KCCLinf
| KProjSimplex (d : Q) | KProjL1 (r : Q)
| KBox (lo hi : @bound Q)
| KConstF
| KHuber (gamma : Q)
| KL1L2 (m d : nat) (lam : Q) (g : option (list Q))
| KCCL1L2 (m d : nat) (lam : Q) (g : option (list Q))
| KCCKL (lam : Q) (g : option (list Q))
| KTransl (y : list Q) (f : fac)
| KArgScal (c : Q) (f : fac)
| KQuad (a : Q) (u : option (list Q)) (f : fac)
| KConj (f : fac)
| KCombine (n1 : nat) (f1 f2 : fac)
| KCompose (ncols : nat) (A : list (list Q)) (mu : Q) (f : fac).

Definition scalar_only (s : @sig Q) (k : Q -> res (list Q)) : res (list Q) := needs_scalar s k.
Definition vec_ok (n : nat) (s : @sig Q) (k : list Q -> res (list Q)) : res (list Q) :=
  match s with SPair _ _ => Err EType | _ => k (sigv n s) end.

Fixpoint fac_prox (f : fac) : @factory Q :=
  match f with
  | KL1 lam g => fun s x => vec_ok (length x) s (fun sv => Ok (prox_l1 lam g sv x))
  | KCCL1 lam g => fun s x =>
      match s, g with
      | SVec v, None => (* element-valued step without g: the step is unused *) Ok (prox_cc_l1 lam None 0 x)
      | SVec v, Some _ => Err EType
      | _, _ => scalar_only s (fun sg => Ok (prox_cc_l1 lam g sg x))
      end
  | KL2 w lam g => fun s x => scalar_only s (fun sg => Ok (prox_l2 w lam g sg x))
  | KCCL2 w lam g => prox_convex_conj (fun s x => scalar_only s (fun sg => Ok (prox_l2 w lam g sg x)))
  | KL2Sq lam g => fun s x => vec_ok (length x) s (fun sv => Ok (prox_l2sq lam g sv x))
  | KCCL2Sq lam g => fun s x => vec_ok (length x) s (fun sv => Ok (prox_cc_l2sq lam g sv x))
  | KLinf => fun s x => scalar_only s (fun sg => prox_linf sg x)
  | KCCLinf => fun s x => proj_l1 1 x
  | KProjSimplex d => fun s x => proj_simplex d x
  | KProjL1 r => fun s x => proj_l1 r x
  | KBox lo hi => fun s x =>
      match lo, hi with
      | BScal l, BScal h => if Qle_bool l h then Ok (prox_box lo hi x) else Err EValue   (* raised at construction *)
      | _, _ => Ok (prox_box lo hi x)
      end
  | KConstF => fun s x => Ok x
  | KHuber gamma => fun s x => scalar_only s (fun sg => Ok (prox_huber gamma sg x))
  | KL1L2 m d lam g => fun s x => scalar_only s (fun sg => Ok (prox_l1_l2 m d lam g sg x))
  | KCCL1L2 m d lam g => fun s x => scalar_only s (fun sg => Ok (prox_cc_l1_l2 m d lam g sg x))
  | KCCKL lam g => fun s x => scalar_only s (fun sg => Ok (prox_cc_kl lam g sg x))
  | KTransl y f => prox_translation (fac_prox f) y
  | KArgScal c f => prox_arg_scaling (fac_prox f) c
  | KQuad a u f => prox_quad_pert (fac_prox f) a u
  | KConj f => prox_convex_conj (fac_prox f)
  | KCombine n1 f1 f2 => prox_combine n1 (fac_prox f1) (fac_prox f2)
  | KCompose nc A mu f => prox_composition (fac_prox f) nc A mu
  end.

Record fcase := { f_f : fac; f_s : @sig Q; f_x : list Q; f_out : impl_out }.
Definition check_fac (k : fcase) : bool :=
  out_close (fac_prox (f_f k) (f_s k) (f_x k)) (f_out k).
