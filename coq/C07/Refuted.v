(* C07/Refuted.v -- the full statement "every functional with a proximal on every weighted space" is FALSE of
   the faithful model (= of the code) for the three sort-based leaves outside uniformly weighted / unweighted
   spaces.  Witnesses are evaluated by hand at R (the sort and the comparisons are decided by lra).
   Recorded findings: linfty-weighted-space, indicator-l1-ball-weighted-space,
   indicator-simplex-nonuniform-weights. *)
From Coq Require Import ZArith QArith Reals Lra Lia List Bool Psatz.
From Verif Require Import Base.Num Base.Vec Base.VecR C07.Model C07.Convex C07.Leaves C07.LeafThms C07.Rules C07.L2 C07.Compose C07.Sorting C07.Proofs.
Import ListNotations.
Local Open Scope R_scope.

Ltac dec_R := repeat match goal with
  | |- context [Rleb ?a ?b] => destruct (Rleb_spec a b); [|try (exfalso; lra)]; try (exfalso; lra)
  | |- context [Rltb ?a ?b] => destruct (Rltb_spec a b); [|try (exfalso; lra)]; try (exfalso; lra)
  end.

(* what the model (= the code) returns on the one-point space with weight 1/2, x = 3 *)
Lemma proj_l1_one_point : @proj_l1 R _ 1 [3] = Ok [1].
Proof.
  unfold proj_l1, proj_simplex, sort_desc. cbn [map sumf fold_right insert_desc simplex_tau]. numR.
  rewrite (Rabs_right 3) by lra.
  destruct (Rleb_spec (3 + 0) 1); [exfalso; lra|].
  destruct (Rleb_spec 0 (3 - (0 + 3 - 1) / 1)) as [_|N]; [|exfalso; apply N; lra].
  cbn [rmap map]. unfv. cbn [vmap2]. unfold nsign. numR. rewrite nmax_R.
  destruct (Rltb_spec 0 3); [|exfalso; lra]. f_equal. f_equal.
  rewrite Rmax_left by lra. lra.
Qed.

(* LpNorm(inf) on the one-point space with weight 1/2 (e.g. uniform_discr(0, 0.5, 1)), sigma = 1, x = 3:
   the code returns 2, but z = 1 has a smaller value of |z| + (1/2)(z-3)^2/2 *)
Theorem linfty_weighted_refuted :
  exists (w x p z : Rvec) (sigma : R), allpos w /\ 0 < sigma /\ length x = length w /\ length z = length w /\
    @leaf_prox R _ _ FLInf w (SScal sigma) x = Ok p /\
    ~ ele (prox_obj (@leaf_val R _ _ FLInf w) (metric w (repeat sigma (length w))) x p)
          (prox_obj (@leaf_val R _ _ FLInf w) (metric w (repeat sigma (length w))) x z).
Proof.
  exists [1/2], [3], [2], [1], 1. repeat split; try reflexivity; try lra.
  - repeat constructor. lra.
  - cbn [leaf_prox needs_scalar]. unfold prox_linf. rewrite proj_l1_one_point. cbn [rmap]. unfv. cbn [vmap2]. numR.
    f_equal. f_equal. lra.
  - rewrite !prox_obj_R. cbn [leaf_val length repeat]. unfold metric. unfv. cbn [vmap2 vmaxabs fold_right].
    rewrite !wnormsq_cons, !wnormsq_nil, !nmax_R. numR. cbn [ele].
    rewrite (Rabs_right 2), (Rabs_right 1) by lra. rewrite !Rmax_left by lra. lra.
Qed.

(* IndicatorLpUnitBall(1) on the same space: the functional is the indicator of (1/2)|z| <= 1, the code
   projects onto |z| <= 1 and returns 1, but z = 2 is feasible and closer to x = 3 *)
Theorem l1_ball_weighted_refuted :
  exists (w x p z : Rvec) (sigma : R), allpos w /\ 0 < sigma /\ length x = length w /\ length z = length w /\
    @leaf_prox R _ _ FBall1 w (SScal sigma) x = Ok p /\
    ~ ele (prox_obj (@leaf_val R _ _ FBall1 w) (metric w (repeat sigma (length w))) x p)
          (prox_obj (@leaf_val R _ _ FBall1 w) (metric w (repeat sigma (length w))) x z).
Proof.
  exists [1/2], [3], [1], [2], 1. repeat split; try reflexivity; try lra.
  - repeat constructor. lra.
  - cbn [leaf_prox]. apply proj_l1_one_point.
  - rewrite !prox_obj_R. cbn [leaf_val length repeat]. unfold metric, wsum1, ind. unfv. cbn [vmap2 map sumf].
    rewrite !wnormsq_cons, !wnormsq_nil. numR.
    rewrite (Rabs_right 2), (Rabs_right 1) by lra.
    destruct (Rleb_spec (1 / 2 * 1 + 0) 1); [|exfalso; lra].
    destruct (Rleb_spec (1 / 2 * 2 + 0) 1); [|exfalso; lra]. cbn [ele]. lra.
Qed.

(* IndicatorSimplex on rn(2, weighting=[4, 1/4]), x = (1, 1): the code returns the unweighted projection
   (1/2, 1/2); the feasible point (1, 0) is closer in the weighted norm *)
Lemma proj_simplex_two : @proj_simplex R _ 1 [1; 1] = Ok [1/2; 1/2].
Proof.
  unfold proj_simplex, sort_desc. cbn [fold_right insert_desc]. numR.
  destruct (Rleb_spec 1 1); [|exfalso; lra].
  cbn [simplex_tau]. numR.
  change (IZR (1 + 1)) with 2.
  destruct (Rleb_spec 0 (1 - (0 + 1 + 1 - 1) / 2)) as [_|N]; [|exfalso; apply N; lra].
  cbn [map]. rewrite !nmax_R. rewrite Rmax_left by lra. replace (1 - (0 + 1 + 1 - 1) / 2) with (1 / 2) by lra. reflexivity.
Qed.
Theorem simplex_nonuniform_weights_refuted :
  exists (w x p z : Rvec) (sigma d : R), allpos w /\ 0 < sigma /\ length x = length w /\ length z = length w /\
    @leaf_prox R _ _ (FSimplex d) w (SScal sigma) x = Ok p /\
    ~ ele (prox_obj (@leaf_val R _ _ (FSimplex d) w) (metric w (repeat sigma (length w))) x p)
          (prox_obj (@leaf_val R _ _ (FSimplex d) w) (metric w (repeat sigma (length w))) x z).
Proof.
  exists [4; 1/4], [1; 1], [1/2; 1/2], [1; 0], 1, 1. repeat split; try reflexivity; try lra.
  - repeat constructor; lra.
  - cbn [leaf_prox]. apply proj_simplex_two.
  - rewrite !prox_obj_R. cbn [leaf_val length repeat]. unfold metric, ind. unfv. cbn [vmap2 sumf forallb].
    rewrite !wnormsq_cons, !wnormsq_nil. numR.
    destruct (Reqb_spec (1 / 2 + (1 / 2 + 0)) 1); [|exfalso; lra].
    destruct (Reqb_spec (1 + (0 + 0)) 1); [|exfalso; lra].
    destruct (Rleb_spec 0 (1 / 2)); [|exfalso; lra]. destruct (Rleb_spec 0 1); [|exfalso; lra].
    destruct (Rleb_spec 0 0); [|exfalso; lra]. cbn [andb ele]. lra.
Qed.

