(* C07/Convex.v -- foundations at R: vectors with a weighted inner product,
   extended-real functionals, "p is THE proximal point" (is_proxm), the
   subgradient criterion, separable functionals.                              *)
From Coq Require Import ZArith QArith Reals Lra Lia List Bool Psatz.
From Verif Require Import Base.Num Base.Vec Base.VecR C07.Model.
Import ListNotations.
Local Open Scope R_scope.

Ltac numS := cbn [nsqrt NumS_R] in *; numR.
Ltac unfv := unfold vsub, vadd, vmul, vdiv, vscal, vopp, vlin in *.

(* ---- pointwise list identities: induction on the common length ---- *)
Ltac vind n :=
  induction n as [|n IHn]; intros;
  repeat match goal with
         | H : length ?x = _ |- _ => is_var x; destruct x; cbn [length] in H; try discriminate H
         end;
  [ try reflexivity | ].

Lemma vmap2_len (f : R -> R -> R) n (x y : Rvec) :
  length x = n -> length y = n -> length (vmap2 f x y) = n.
Proof. intros; subst n; apply vmap2_length; congruence. Qed.
Lemma map_len {A B} (f : A -> B) n (x : list A) : length x = n -> length (map f x) = n.
Proof. intros; rewrite map_length; assumption. Qed.
Lemma repeat_len {A} (a : A) n : length (repeat a n) = n.
Proof. apply repeat_length. Qed.

Lemma vsub_len n (x y : Rvec) : length x = n -> length y = n -> length (vsub x y) = n.
Proof. apply vmap2_len. Qed.
Lemma vadd_len n (x y : Rvec) : length x = n -> length y = n -> length (vadd x y) = n.
Proof. apply vmap2_len. Qed.
Lemma vdiv_len n (x y : Rvec) : length x = n -> length y = n -> length (vdiv x y) = n.
Proof. apply vmap2_len. Qed.
Lemma vmul_len n (x y : Rvec) : length x = n -> length y = n -> length (vmul x y) = n.
Proof. apply vmap2_len. Qed.
Lemma vscal_len n c (x : Rvec) : length x = n -> length (vscal c x) = n.
Proof. apply map_len. Qed.
Lemma vlin_len n a b (x y : Rvec) : length x = n -> length y = n -> length (vlin a x b y) = n.
Proof. apply vmap2_len. Qed.
Global Hint Resolve vsub_len vadd_len vdiv_len vmul_len vscal_len vlin_len map_len repeat_len vmap2_len : vlen.

Lemma nth_vmap2 (f : R -> R -> R) (x y : Rvec) i d :
  (i < length x)%nat -> (i < length y)%nat ->
  nth i (vmap2 f x y) d = f (nth i x 0) (nth i y 0).
Proof.
  revert y i; induction x as [|a x IH]; intros [|b y] [|i] Hx Hy; cbn in *; try lia; auto.
  apply IH; lia.
Qed.

(* ---- vector identities ---- *)
Lemma vsub_vadd_cancel n : forall t q : Rvec, length t = n -> length q = n -> vsub (vadd t q) t = q.
Proof. vind n. unfv; cbn [vmap2]; f_equal; [numR; ring | apply IHn; lia]. Qed.
Lemma vadd_vsub_cancel n : forall t z : Rvec, length t = n -> length z = n -> vadd t (vsub z t) = z.
Proof. vind n. unfv; cbn [vmap2]; f_equal; [numR; ring | apply IHn; lia]. Qed.
Lemma vsub_vsub_cancel n : forall z x t : Rvec, length z = n -> length x = n -> length t = n ->
  vsub (vsub z t) (vsub x t) = vsub z x.
Proof. vind n. unfv; cbn [vmap2]; f_equal; [numR; ring | apply IHn; lia]. Qed.
Lemma vsub_vadd_l n : forall t q x : Rvec, length t = n -> length q = n -> length x = n ->
  vsub (vadd t q) x = vsub q (vsub x t).
Proof. vind n. unfv; cbn [vmap2]; f_equal; [numR; ring | apply IHn; lia]. Qed.
Lemma vscal_vscal n : forall a b (x : Rvec), length x = n -> vscal a (vscal b x) = vscal (a * b) x.
Proof. vind n. unfv; cbn [map]; f_equal; [numR; ring | apply IHn; lia]. Qed.
Lemma vscal_one n : forall x : Rvec, length x = n -> vscal 1 x = x.
Proof. vind n. unfv; cbn [map]; f_equal; [numR; ring | apply IHn; lia]. Qed.
Lemma vsub_vscal n : forall c (z x : Rvec), length z = n -> length x = n ->
  vsub (vscal c z) (vscal c x) = vscal c (vsub z x).
Proof. vind n. unfv; cbn [map vmap2]; f_equal; [numR; ring | apply IHn; lia]. Qed.
Lemma vlin_as_sub n : forall c s (x u : Rvec), length x = n -> length u = n ->
  vlin c x (- (s * c)) u = vscal c (vsub x (vscal s u)).
Proof. vind n. unfv; cbn [map vmap2]; f_equal; [numR; ring | apply IHn; lia]. Qed.

(* ---- weighted inner product ---- *)
Lemma wdot_nil_l (x y : Rvec) : wdot [] x y = 0.
Proof. reflexivity. Qed.
Lemma wdot_cons' w a b (ws x y : Rvec) :
  wdot (w :: ws) (a :: x) (b :: y) = w * (a * b) + wdot ws x y.
Proof. reflexivity. Qed.

Lemma wnormsq_cons w a (ws x : Rvec) : wnormsq (w :: ws) (a :: x) = w * (a * a) + wnormsq ws x.
Proof. reflexivity. Qed.
Lemma wnormsq_nil (x : Rvec) : wnormsq [] x = 0.
Proof. reflexivity. Qed.

Definition allpos (w : Rvec) : Prop := Forall (fun a => 0 < a) w.

Lemma wnormsq_nonneg (w x : Rvec) : allpos w -> 0 <= wnormsq w x.
Proof.
  intros Hw; revert x; induction Hw as [|a w Ha Hw IH]; intros [|b x];
    try (cbv [wnormsq wdot vmul vmap2 sumf]; numR; lra).
  rewrite wnormsq_cons. specialize (IH x). nra.
Qed.

Lemma wdot_vsub_l n : forall w x y z : Rvec, length w = n -> length x = n -> length y = n -> length z = n ->
  wdot w (vsub x y) z = wdot w x z - wdot w y z.
Proof.
  vind n. - cbv; lra.
  - unfv; cbn [vmap2]; rewrite !wdot_cons', IHn by lia; numR; ring.
Qed.
Lemma wdot_vadd_l n : forall w x y z : Rvec, length w = n -> length x = n -> length y = n -> length z = n ->
  wdot w (vadd x y) z = wdot w x z + wdot w y z.
Proof.
  vind n. - cbv; lra.
  - unfv; cbn [vmap2]; rewrite !wdot_cons', IHn by lia; numR; ring.
Qed.
Lemma wdot_vscal_l n : forall c (w x z : Rvec), length w = n -> length x = n -> length z = n ->
  wdot w (vscal c x) z = c * wdot w x z.
Proof.
  vind n. - cbv; lra.
  - unfv; cbn [map]; rewrite !wdot_cons', IHn by lia; numR; ring.
Qed.
Lemma wdot_sym (w x y : Rvec) : wdot w x y = wdot w y x.
Proof. apply wdot_comm. Qed.
Lemma wdot_vsub_r' n (w z x y : Rvec) : length w = n -> length z = n -> length x = n -> length y = n ->
  wdot w z (vsub x y) = wdot w z x - wdot w z y.
Proof. intros. rewrite wdot_sym, (wdot_vsub_l n) by assumption. rewrite (wdot_sym w x), (wdot_sym w y). reflexivity. Qed.
Lemma wdot_vscal_r' n c (w z x : Rvec) : length w = n -> length z = n -> length x = n ->
  wdot w z (vscal c x) = c * wdot w z x.
Proof. intros. rewrite wdot_sym, (wdot_vscal_l n), wdot_sym by assumption. reflexivity. Qed.

(* ||z - x||^2 - ||p - x||^2 = ||z - p||^2 + 2 <z - p, p - x> *)
Lemma wnormsq_three_point n : forall m z p x : Rvec,
  length m = n -> length z = n -> length p = n -> length x = n ->
  wnormsq m (vsub z x) = wnormsq m (vsub p x) + wnormsq m (vsub z p) + 2 * wdot m (vsub z p) (vsub p x).
Proof.
  vind n. - cbv; lra.
  - unfold wnormsq in *; unfv; cbn [vmap2]; rewrite !wdot_cons'.
    rewrite (IHn m z p x) by lia. numR; ring.
Qed.

Lemma wnormsq_vscal n : forall c (m v : Rvec), length m = n -> length v = n ->
  wnormsq m (vscal c v) = c * c * wnormsq m v.
Proof.
  vind n. - cbv; lra.
  - unfold wnormsq in *; unfv; cbn [map]; rewrite !wdot_cons', IHn by lia; numR; ring.
Qed.

(* scaling the metric *)
Lemma wnormsq_metric_scale n : forall c (m v : Rvec), length m = n -> length v = n ->
  wnormsq (map (fun a => a * c) m) v = c * wnormsq m v.
Proof.
  vind n. - cbv; lra.
  - unfold wnormsq in *; cbn [map]; rewrite !wdot_cons', IHn by lia; ring.
Qed.
Lemma wdot_metric_scale n : forall c (m u v : Rvec), length m = n -> length u = n -> length v = n ->
  wdot (map (fun a => a * c) m) u v = c * wdot m u v.
Proof.
  vind n. - cbv; lra.
  - cbn [map]; rewrite !wdot_cons', IHn by lia; ring.
Qed.

Lemma wdot_app n : forall w1 x1 y1 w2 x2 y2 : Rvec, length w1 = n -> length x1 = n -> length y1 = n ->
  wdot (w1 ++ w2) (x1 ++ x2) (y1 ++ y2) = wdot w1 x1 y1 + wdot w2 x2 y2.
Proof.
  induction n as [|n IHn]; intros [|a w1] [|b x1] [|c y1] w2 x2 y2 H1 H2 H3; cbn [length] in *; try lia.
  - cbn [app]. rewrite wdot_nil_l. lra.
  - cbn [app]. rewrite !wdot_cons', (IHn w1 x1 y1) by lia. lra.
Qed.
Lemma vsub_app n : forall x1 y1 x2 y2 : Rvec, length x1 = n -> length y1 = n ->
  vsub (x1 ++ x2) (y1 ++ y2) = vsub x1 y1 ++ vsub x2 y2.
Proof.
  induction n as [|n IHn]; intros [|a x1] [|b y1] x2 y2 H1 H2; cbn [length] in *; try lia.
  - reflexivity.
  - unfv. cbn [app vmap2]. f_equal. apply IHn; lia.
Qed.
Lemma vdiv_app n : forall x1 y1 x2 y2 : Rvec, length x1 = n -> length y1 = n ->
  vdiv (x1 ++ x2) (y1 ++ y2) = vdiv x1 y1 ++ vdiv x2 y2.
Proof.
  induction n as [|n IHn]; intros [|a x1] [|b y1] x2 y2 H1 H2; cbn [length] in *; try lia.
  - reflexivity.
  - unfv. cbn [app vmap2]. f_equal. apply IHn; lia.
Qed.

(* a positive-definite weighted norm vanishes only at 0 *)
Lemma wnormsq_zero n : forall m v : Rvec, length m = n -> length v = n -> allpos m ->
  wnormsq m v <= 0 -> v = repeat 0 n.
Proof.
  induction n as [|n IHn]; intros [|a m] [|b v] Hm Hv Hp Hz; cbn [length] in *; try lia; try reflexivity.
  inversion Hp as [|? ? Ha Hp']; subst.
  rewrite wnormsq_cons in Hz. pose proof (wnormsq_nonneg m v Hp').
  assert (Hab : a * (b * b) <= 0) by lra.
  assert (Hb : b = 0).
  { destruct (Req_dec b 0) as [E|E]; [exact E|]. exfalso.
    assert (0 < b * b) by (destruct (Rtotal_order b 0) as [?|[?|?]]; nra). nra. }
  subst b.
  cbn [repeat]. f_equal. apply (IHn m); auto; try lia. lra.
Qed.
Lemma vsub_eq_zero n : forall p x : Rvec, length p = n -> length x = n -> vsub p x = repeat 0 n -> p = x.
Proof.
  vind n. unfv; cbn [vmap2 repeat] in *. injection H1 as Ha Ht. numR. f_equal; [lra | apply IHn; auto; lia].
Qed.

(* ---- extended reals: None = +infinity ---- *)
Definition ele (a b : option R) : Prop :=
  match a, b with
  | _, None => True
  | Some a, Some b => a <= b
  | None, Some _ => False
  end.
Definition finite (a : option R) : Prop := exists v, a = Some v.

Lemma ele_refl a : ele a a.
Proof. destruct a; cbn; lra. Qed.
Lemma ele_trans a b c : ele a b -> ele b c -> ele a c.
Proof. destruct a, b, c; cbn; try tauto; lra. Qed.

(* ---- the proximal point: p minimises  f(z) + (1/2) sum m_i (z_i - x_i)^2  over all z of length n
        and f(p) is finite.  With m = w/sigma this is f(z) + ||z-x||_w^2 / (2 sigma). ---- *)
Definition is_proxm (n : nat) (f : Rvec -> option R) (m x p : Rvec) : Prop :=
  length p = n /\ finite (f p) /\
  forall z, length z = n -> ele (prox_obj f m x p) (prox_obj f m x z).

Lemma prox_obj_R f m x z :
  prox_obj f m x z = match f z with Some v => Some (v + wnormsq m (vsub z x) / 2) | None => None end.
Proof. unfold prox_obj, eadd; destruct (f z); numR; reflexivity. Qed.

(* metric of a scalar step: (1/2) sum (w_i/sigma) v_i^2 = ||v||_w^2 / (2 sigma) *)
Lemma metric_scalar n : forall (w v : Rvec) sigma, length w = n -> length v = n -> sigma <> 0 ->
  wnormsq (metric w (repeat sigma n)) v / 2 = wnormsq w v / (2 * sigma).
Proof.
  induction n as [|n IHn]; intros [|a w] [|b v] sigma Hw Hv Hs; cbn [length] in *; try lia.
  - cbv. lra.
  - unfold metric in *; unfv; cbn [repeat vmap2]. rewrite !wnormsq_cons.
    specialize (IHn w v sigma ltac:(lia) ltac:(lia) Hs). unfold metric, vdiv in IHn.
    set (W := wnormsq (vmap2 ndiv w (repeat sigma n)) v) in *. set (W0 := wnormsq w v) in *.
    numR.
    assert (E : W = W0 / sigma).
    { replace (W0 / sigma) with (2 * (W0 / (2 * sigma))) by (field; assumption). lra. }
    rewrite E. field. assumption.
Qed.

Lemma metric_len n (w sv : Rvec) : length w = n -> length sv = n -> length (metric w sv) = n.
Proof. apply vdiv_len. Qed.
Global Hint Resolve metric_len : vlen.

Lemma metric_allpos n : forall w sv : Rvec, length w = n -> length sv = n -> allpos w -> allpos sv ->
  allpos (metric w sv).
Proof.
  induction n as [|n IHn]; intros [|a w] [|b sv] Hw Hs Pw Ps; cbn [length] in *; try lia.
  - constructor.
  - inversion Pw; inversion Ps; subst. unfold metric; unfv; cbn [vmap2]. constructor.
    + numR. apply Rdiv_lt_0_compat; assumption.
    + apply IHn; auto; lia.
Qed.

(* ---- functionals agreeing on the space have the same proximal points; constants do not matter ---- *)
Lemma is_proxm_ext n f f' m x p :
  (forall z, length z = n -> f' z = f z) -> is_proxm n f m x p -> is_proxm n f' m x p.
Proof.
  intros He (Hl & Hf & Ho). split; [assumption|]. split.
  - rewrite He by assumption. assumption.
  - intros z Hz. unfold prox_obj. rewrite !He by assumption. apply Ho; assumption.
Qed.

Lemma is_proxm_add_const n f c m x p :
  is_proxm n f m x p -> is_proxm n (fun z => eadd (f z) (Some c)) m x p.
Proof.
  intros (Hl & (v & Hv) & Ho). split; [assumption|]. split.
  - exists (v + c). rewrite Hv. reflexivity.
  - intros z Hz. specialize (Ho z Hz). rewrite !prox_obj_R in *. rewrite Hv in *.
    destruct (f z) as [vz|]; cbn [eadd ele] in *; numR; [lra | exact I].
Qed.

(* ---- subgradient criterion (no convexity needed for this direction):
   if  f(z) >= f(p) + <x - p, z - p>_m  for all z, then p is the proximal point ---- *)
Lemma is_proxm_of_subgrad n f m x p vp :
  length m = n -> length x = n -> length p = n -> allpos m ->
  f p = Some vp ->
  (forall z, length z = n -> ele (Some (vp + wdot m (vsub z p) (vsub x p))) (f z)) ->
  is_proxm n f m x p.
Proof.
  intros Hm Hx Hp Pm Hv Hs. split; [assumption|]. split; [eexists; eassumption|].
  intros z Hz. rewrite !prox_obj_R, Hv. specialize (Hs z Hz).
  destruct (f z) as [vz|]; cbn [ele] in *; [|exact I].
  rewrite (wnormsq_three_point n m z p x) by assumption.
  assert (H0 : 0 <= wnormsq m (vsub z p)) by (apply wnormsq_nonneg; assumption).
  assert (Hneg : wdot m (vsub z p) (vsub x p) = - wdot m (vsub z p) (vsub p x)).
  { rewrite (wdot_sym m (vsub z p) (vsub x p)), (wdot_sym m (vsub z p) (vsub p x)).
    rewrite !(wdot_vsub_l n) by auto with vlen. lra. }
  lra.
Qed.

(* ---- the proximal point is unique ---- *)
Lemma wnormsq_mid n : forall m a b : Rvec, length m = n -> length a = n -> length b = n ->
  wnormsq m (vsub a b) = wnormsq m a - 2 * wdot m a b + wnormsq m b.
Proof.
  vind n. - cbv; lra.
  - unfold wnormsq in *; unfv; cbn [vmap2]; rewrite !wdot_cons'. rewrite (IHn m a b) by lia. numR; ring.
Qed.

(* ---- separable functionals  f(z) = sum_i w_i phi_i(z_i)  ---- *)
Fixpoint sepsum (phis : list (R -> option R)) (w z : Rvec) : option R :=
  match phis, w, z with
  | phi :: phis', wi :: w', zi :: z' => eadd (escal wi (phi zi)) (sepsum phis' w' z')
  | _, _, _ => Some 0
  end.

(* one-dimensional optimality: p minimises phi(t) + (t - x)^2/(2 sigma) and phi(p) is finite *)
Definition opt1 (phi : R -> option R) (sigma x p : R) : Prop :=
  finite (phi p) /\
  forall t, ele (eadd (phi p) (Some ((p - x) * (p - x) / (2 * sigma))))
                (eadd (phi t) (Some ((t - x) * (t - x) / (2 * sigma)))).

Inductive sep_opt : list (R -> option R) -> Rvec -> Rvec -> Rvec -> Rvec -> Prop :=
| so_nil : sep_opt [] [] [] [] []
| so_cons phi w s x p phis ws ss xs ps :
    0 < w -> 0 < s -> opt1 phi s x p -> sep_opt phis ws ss xs ps ->
    sep_opt (phi :: phis) (w :: ws) (s :: ss) (x :: xs) (p :: ps).

Lemma sep_opt_len phis w s x p : sep_opt phis w s x p ->
  length phis = length w /\ length s = length w /\ length x = length w /\ length p = length w.
Proof. induction 1; cbn; intuition lia. Qed.

Theorem sep_prox phis w sv x p :
  sep_opt phis w sv x p -> is_proxm (length w) (sepsum phis w) (metric w sv) x p.
Proof.
  intros H. pose proof (sep_opt_len _ _ _ _ _ H) as (L1 & L2 & L3 & L4).
  split; [assumption|].
  assert (K : exists vp, sepsum phis w p = Some vp /\
            forall z, length z = length w ->
              ele (Some (vp + wnormsq (metric w sv) (vsub p x) / 2))
                  (match sepsum phis w z with
                   | Some vz => Some (vz + wnormsq (metric w sv) (vsub z x) / 2) | None => None end)).
  { clear L1 L2 L3 L4. induction H as [|phi w s x p phis ws ss xs ps Hw Hs [[v1 Hv1] Ho] Hrest IH].
    - exists 0. split; [reflexivity|]. intros [|? ?] Hz; cbn in Hz; try lia. cbn. lra.
    - destruct IH as (vr & Hvr & IH).
      exists (w * v1 + vr). split.
      { cbn [sepsum]. rewrite Hv1, Hvr. reflexivity. }
      intros [|t z] Hz; cbn [length] in Hz; try lia.
      specialize (IH z ltac:(lia)). specialize (Ho t). rewrite Hv1 in Ho.
      cbn [sepsum]. unfold metric in *; unfv; cbn [vmap2]. rewrite !wnormsq_cons.
      destruct (phi t) as [vt|]; cbn [escal eadd ele] in *; [|exact I].
      destruct (sepsum phis ws z) as [vz|]; cbn [ele] in *; [|exact I].
      numR.
      assert (E1 : w / s * ((p - x) * (p - x)) / 2 = w * ((p - x) * (p - x) / (2 * s))) by (field; lra).
      assert (E2 : w / s * ((t - x) * (t - x)) / 2 = w * ((t - x) * (t - x) / (2 * s))) by (field; lra).
      assert (Hm : w * (v1 + (p - x) * (p - x) / (2 * s)) <= w * (vt + (t - x) * (t - x) / (2 * s)))
        by (apply Rmult_le_compat_l; lra).
      lra. }
  destruct K as (vp & Hvp & K). split; [eexists; eassumption|].
  intros z Hz. rewrite !prox_obj_R, Hvp. apply K; assumption.
Qed.

(* =====================================================================================
   The variational-inequality (subgradient) form of "p is the proximal point":
       f(z) >= f(p) + <x - p, z - p>_m      for all z.
   It implies minimality (is_proxm_of_subgrad) WITHOUT any convexity assumption, is
   preserved by every calculus rule, and yields uniqueness and firm non-expansiveness.
   ===================================================================================== *)
Definition is_proxs (n : nat) (f : Rvec -> option R) (m x p : Rvec) : Prop :=
  length p = n /\
  exists vp, f p = Some vp /\
    forall z, length z = n -> ele (Some (vp + wdot m (vsub z p) (vsub x p))) (f z).

Lemma is_proxs_proxm n f m x p :
  length m = n -> length x = n -> allpos m -> is_proxs n f m x p -> is_proxm n f m x p.
Proof.
  intros Hm Hx Pm (Hp & vp & Hv & Hs). eapply is_proxm_of_subgrad; eauto.
Qed.

Lemma is_proxs_ext n f f' m x p :
  (forall z, length z = n -> f' z = f z) -> is_proxs n f m x p -> is_proxs n f' m x p.
Proof.
  intros He (Hl & vp & Hv & Ho). split; [assumption|]. exists vp. split.
  - rewrite He by assumption. assumption.
  - intros z Hz. rewrite He by assumption. apply Ho; assumption.
Qed.

Lemma is_proxs_add_const n f c m x p :
  is_proxs n f m x p -> is_proxs n (fun z => eadd (f z) (Some c)) m x p.
Proof.
  intros (Hl & vp & Hv & Ho). split; [assumption|]. exists (vp + c). split.
  - rewrite Hv. reflexivity.
  - intros z Hz. specialize (Ho z Hz). destruct (f z) as [vz|]; cbn [eadd ele] in *; numR; [lra | exact I].
Qed.

(* one-dimensional form *)
Definition sub1 (phi : R -> option R) (sigma x p : R) : Prop :=
  exists vp, phi p = Some vp /\ forall t, ele (Some (vp + (x - p) / sigma * (t - p))) (phi t).

Lemma sub1_ext phi psi s x p : (forall t, psi t = phi t) -> sub1 phi s x p -> sub1 psi s x p.
Proof. intros E (vp & Hv & Hs). exists vp. split; [rewrite E; exact Hv|]. intros t. rewrite E. apply Hs. Qed.

Inductive sep_sub : list (R -> option R) -> Rvec -> Rvec -> Rvec -> Rvec -> Prop :=
| ss_nil : sep_sub [] [] [] [] []
| ss_cons phi w s x p phis ws ss xs ps :
    0 < w -> 0 < s -> sub1 phi s x p -> sep_sub phis ws ss xs ps ->
    sep_sub (phi :: phis) (w :: ws) (s :: ss) (x :: xs) (p :: ps).

Lemma sep_sub_len phis w s x p : sep_sub phis w s x p ->
  length phis = length w /\ length s = length w /\ length x = length w /\ length p = length w.
Proof. induction 1; cbn; intuition lia. Qed.

Theorem sep_proxs phis w sv x p :
  sep_sub phis w sv x p -> is_proxs (length w) (sepsum phis w) (metric w sv) x p.
Proof.
  intros H. pose proof (sep_sub_len _ _ _ _ _ H) as (L1 & L2 & L3 & L4).
  split; [assumption|]. clear L1 L2 L3 L4.
  induction H as [|phi w s x p phis ws ss xs ps Hw Hs (v1 & Hv1 & Ho) Hrest (vr & Hvr & IH)].
  - exists 0. split; [reflexivity|]. intros [|? ?] Hz; cbn in Hz; try lia. cbn. lra.
  - exists (w * v1 + vr). split.
    { cbn [sepsum]. rewrite Hv1, Hvr. reflexivity. }
    intros [|t z] Hz; cbn [length] in Hz; try lia.
    specialize (IH z ltac:(lia)). specialize (Ho t).
    cbn [sepsum]. unfold metric in *; unfv; cbn [vmap2]. rewrite wdot_cons'.
    destruct (phi t) as [vt|]; cbn [escal eadd ele] in *; [|exact I].
    destruct (sepsum phis ws z) as [vz|]; cbn [ele] in *; [|exact I].
    numR.
    assert (E1 : w / s * ((t - p) * (x - p)) = w * ((x - p) / s * (t - p))) by (field; lra).
    assert (Hm : w * (v1 + (x - p) / s * (t - p)) <= w * vt) by (apply Rmult_le_compat_l; lra).
    lra.
Qed.

(* firm non-expansiveness and uniqueness *)
Theorem proxs_firmly_nonexpansive n f m x1 x2 p1 p2 :
  length m = n -> length x1 = n -> length x2 = n ->
  is_proxs n f m x1 p1 -> is_proxs n f m x2 p2 ->
  wnormsq m (vsub p1 p2) <= wdot m (vsub p1 p2) (vsub x1 x2).
Proof.
  intros Hm H1 H2 (L1 & v1 & E1 & S1) (L2 & v2 & E2 & S2).
  specialize (S1 p2 L2). specialize (S2 p1 L1). rewrite E2 in S1. rewrite E1 in S2. cbn [ele] in *.
  unfold wnormsq.
  rewrite !(wdot_vsub_l n), !(wdot_vsub_r' n) in * by auto with vlen.
  lra.
Qed.
