(* C07/LeafThms.v -- the separable leaves and factories of the model are proximal points
   (vector level, weighted space, scalar / per-point steps). *)
From Coq Require Import ZArith QArith Reals Lra Lia List Bool Psatz.
From Verif Require Import Base.Num Base.Vec Base.VecR C07.Model C07.Convex C07.Leaves.
Import ListNotations.
Local Open Scope R_scope.

Ltac inv_allpos := repeat match goal with
  | H : allpos (_ :: _) |- _ => inversion H; subst; clear H
  | H : Forall _ (_ :: _) |- _ => inversion H; subst; clear H
  end.

(* destruct every list that has a length hypothesis (once), by induction on the common length *)
Ltac vind2 n :=
  induction n as [|n IHn]; intros;
  repeat match goal with
         | H : length ?x = _ |- _ => is_var x; destruct x; cbn [length] in H; try discriminate H
         end.

(* ---------------- L1 : sum w |z| ---------------- *)
Lemma l1_val n : forall w z : Rvec, length w = n -> length z = n ->
  Some (@wsum1 R _ w z) = sepsum (repeat (fun t => Some (Rabs t)) n) w z.
Proof.
  vind2 n. - reflexivity.
  - cbn [repeat sepsum escal]. rewrite <- (IHn w z) by lia. unfold wsum1, vmul. cbn [map vmap2 sumf eadd]. numR. reflexivity.
Qed.

Lemma l1_sep n : forall w sv x : Rvec, length w = n -> length sv = n -> length x = n ->
  allpos w -> allpos sv ->
  sep_sub (repeat (fun t => Some (Rabs t)) n) w sv x (@prox_l1 R _ 1 None sv x).
Proof.
  vind2 n. - constructor.
  - inv_allpos. unfold prox_l1, gsub in *. unfv. cbn [vmap2 repeat]. constructor; try assumption.
    + rewrite nmax_R. numR.
      apply (sub1_ext (fun t => Some (1 * Rabs (t - 0)))).
      { intros t. rewrite Rminus_0_r, Rmult_1_l. reflexivity. }
      lazymatch goal with |- sub1 _ ?s ?a _ =>
        pose proof (soft1_opt 1 0 s a ltac:(lra) ltac:(assumption)) as Q end.
      unfold soft1 in Q. rewrite Rminus_0_r in Q. exact Q.
    + apply IHn; auto; lia.
Qed.

(* generic: conclude is_proxs from the two per-leaf facts *)
Lemma sep_conclude n (f : Rvec -> option R) phis w sv x p c :
  length w = n ->
  (forall z, length z = n -> f z = eadd (sepsum phis w z) (Some c)) ->
  sep_sub phis w sv x p ->
  is_proxs n f (metric w sv) x p.
Proof.
  intros Hw Hv Hs. subst n. eapply is_proxs_ext; [exact Hv|].
  apply is_proxs_add_const. apply sep_proxs. assumption.
Qed.
Lemma eadd_0_r (a : option R) : (forall v, a = Some v -> True) -> eadd a (Some 0) = match a with Some v => Some (v + 0) | None => None end.
Proof. destruct a; reflexivity. Qed.
Lemma sep_conclude0 n (f : Rvec -> option R) phis w sv x p :
  length w = n ->
  (forall z, length z = n -> f z = sepsum phis w z) ->
  sep_sub phis w sv x p ->
  is_proxs n f (metric w sv) x p.
Proof.
  intros Hw Hv Hs. subst n. eapply is_proxs_ext; [exact Hv|]. apply sep_proxs. assumption.
Qed.

Theorem l1_leaf_prox n w sv x : length w = n -> length sv = n -> length x = n -> allpos w -> allpos sv ->
  is_proxs n (@leaf_val R _ _ FL1 w) (metric w sv) x (@prox_l1 R _ 1 None sv x).
Proof.
  intros. apply sep_conclude0 with (phis := repeat (fun t => Some (Rabs t)) n); [assumption| |apply l1_sep; assumption].
  intros z Hz. cbn [leaf_val]. apply l1_val; assumption.
Qed.

(* ---------------- L1 factory: lam * sum w |z - g| ---------------- *)
Definition F_l1 (lam : R) (g w z : Rvec) : option R := Some (lam * @wsum1 R _ w (vsub z g)).
Definition phis_l1 (lam : R) (g : Rvec) := map (fun gi t => Some (lam * Rabs (t - gi))) g.
Lemma l1g_val lam n : forall g w z : Rvec, length g = n -> length w = n -> length z = n ->
  F_l1 lam g w z = sepsum (phis_l1 lam g) w z.
Proof.
  unfold F_l1, phis_l1. vind2 n. - cbn. f_equal. unfold wsum1. cbn. numR. ring.
  - cbn [map sepsum escal]. rewrite <- (IHn g w z) by lia. unfold wsum1. unfv. cbn [map vmap2 sumf eadd]. numR.
    f_equal. ring.
Qed.
Lemma l1g_sep lam n : forall g w sv x : Rvec, 0 < lam -> length g = n -> length w = n -> length sv = n -> length x = n ->
  allpos w -> allpos sv ->
  sep_sub (phis_l1 lam g) w sv x (@prox_l1 R _ lam (Some g) sv x).
Proof.
  unfold phis_l1. vind2 n. - constructor.
  - inv_allpos. unfold prox_l1, gsub in *. unfv. cbn [vmap2 map]. constructor; try assumption.
    + rewrite nmax_R. numR. apply soft1_opt; assumption.
    + apply IHn; auto; lia.
Qed.
Theorem l1_factory_prox lam n g w sv x : 0 < lam ->
  length g = n -> length w = n -> length sv = n -> length x = n -> allpos w -> allpos sv ->
  is_proxs n (F_l1 lam g w) (metric w sv) x (@prox_l1 R _ lam (Some g) sv x).
Proof.
  intros. apply sep_conclude0 with (phis := phis_l1 lam g); [assumption| |apply (l1g_sep lam n); assumption].
  intros z Hz. apply (l1g_val lam n); assumption.
Qed.

(* ---------------- L2 squared ---------------- *)
Lemma l2sq_val n : forall w z : Rvec, length w = n -> length z = n ->
  Some (@wnormsq R _ w z) = sepsum (repeat (fun t => Some (t * t)) n) w z.
Proof.
  vind2 n. - reflexivity.
  - cbn [repeat sepsum escal]. rewrite <- (IHn w z) by lia. rewrite wnormsq_cons. cbn [eadd]. numR. reflexivity.
Qed.
Lemma l2sq_sep n : forall w sv x : Rvec, length w = n -> length sv = n -> length x = n ->
  allpos w -> allpos sv ->
  sep_sub (repeat (fun t => Some (t * t)) n) w sv x (@prox_l2sq R _ 1 None sv x).
Proof.
  vind2 n. - constructor.
  - inv_allpos. unfold prox_l2sq in *. cbn [vmap2 repeat]. constructor; try assumption.
    + numR. apply (sub1_ext (fun t => Some (1 * (t * t)))).
      { intros t. rewrite Rmult_1_l. reflexivity. }
      apply l2sq0_opt; [lra|assumption].
    + apply IHn; auto; lia.
Qed.
Theorem l2sq_leaf_prox n w sv x : length w = n -> length sv = n -> length x = n -> allpos w -> allpos sv ->
  is_proxs n (@leaf_val R _ _ FL2Sq w) (metric w sv) x (@prox_l2sq R _ 1 None sv x).
Proof.
  intros. apply sep_conclude0 with (phis := repeat (fun t => Some (t * t)) n); [assumption| |apply l2sq_sep; assumption].
  intros z Hz. cbn [leaf_val]. apply l2sq_val; assumption.
Qed.

Definition F_l2sq (lam : R) (g w z : Rvec) : option R := Some (lam * @wnormsq R _ w (vsub z g)).
Definition phis_l2sq (lam : R) (g : Rvec) := map (fun gi t => Some (lam * ((t - gi) * (t - gi)))) g.
Lemma l2sqg_val lam n : forall g w z : Rvec, length g = n -> length w = n -> length z = n ->
  F_l2sq lam g w z = sepsum (phis_l2sq lam g) w z.
Proof.
  unfold F_l2sq, phis_l2sq. vind2 n. - cbn. f_equal. numR. ring.
  - cbn [map sepsum escal]. rewrite <- (IHn g w z) by lia. unfv. cbn [vmap2]. rewrite wnormsq_cons. cbn [eadd]. numR.
    f_equal. ring.
Qed.
Lemma l2sqg_sep lam n : forall g w sv x : Rvec, 0 < lam -> length g = n -> length w = n -> length sv = n -> length x = n ->
  allpos w -> allpos sv ->
  sep_sub (phis_l2sq lam g) w sv x (@prox_l2sq R _ lam (Some g) sv x).
Proof.
  unfold phis_l2sq. vind2 n. - constructor.
  - inv_allpos. unfold prox_l2sq in *. cbn [vmap3 map]. constructor; try assumption.
    + numR. apply l2sq_opt; assumption.
    + apply IHn; auto; lia.
Qed.
Theorem l2sq_factory_prox lam n g w sv x : 0 < lam ->
  length g = n -> length w = n -> length sv = n -> length x = n -> allpos w -> allpos sv ->
  is_proxs n (F_l2sq lam g w) (metric w sv) x (@prox_l2sq R _ lam (Some g) sv x).
Proof.
  intros. apply sep_conclude0 with (phis := phis_l2sq lam g); [assumption| |apply (l2sqg_sep lam n); assumption].
  intros z Hz. apply (l2sqg_val lam n); assumption.
Qed.

(* conjugate of lam ||. - g||_w^2 in the weighted space:  ||y||_w^2/(4 lam) + <y, g>_w *)
Definition F_ccl2sq (lam : R) (g w z : Rvec) : option R := Some (@wnormsq R _ w z / (4 * lam) + wdot w z g).
Definition phis_ccl2sq (lam : R) (g : Rvec) := map (fun gi t => Some (t * t / (4 * lam) + t * gi)) g.
Lemma ccl2sq_val lam n : forall g w z : Rvec, length g = n -> length w = n -> length z = n ->
  F_ccl2sq lam g w z = sepsum (phis_ccl2sq lam g) w z.
Proof.
  unfold F_ccl2sq, phis_ccl2sq. vind2 n. - cbn. f_equal. numR. unfold Rdiv. ring.
  - cbn [map sepsum escal]. rewrite <- (IHn g w z) by lia. rewrite wnormsq_cons, wdot_cons'. cbn [eadd]. numR.
    f_equal. unfold Rdiv. ring.
Qed.
Lemma ccl2sq_sep lam n : forall g w sv x : Rvec, 0 < lam -> length g = n -> length w = n -> length sv = n -> length x = n ->
  allpos w -> allpos sv ->
  sep_sub (phis_ccl2sq lam g) w sv x (@prox_cc_l2sq R _ lam (Some g) sv x).
Proof.
  unfold phis_ccl2sq. vind2 n. - constructor.
  - inv_allpos. unfold prox_cc_l2sq in *. cbn [vmap3 map]. constructor; try assumption.
    + unfold nhalf. numR. replace (1 / 2 / lam) with (/ 2 / lam) by (unfold Rdiv; ring). apply ccl2sq_opt; assumption.
    + apply IHn; auto; lia.
Qed.
Theorem ccl2sq_factory_prox lam n g w sv x : 0 < lam ->
  length g = n -> length w = n -> length sv = n -> length x = n -> allpos w -> allpos sv ->
  is_proxs n (F_ccl2sq lam g w) (metric w sv) x (@prox_cc_l2sq R _ lam (Some g) sv x).
Proof.
  intros. apply sep_conclude0 with (phis := phis_ccl2sq lam g); [assumption| |apply (ccl2sq_sep lam n); assumption].
  intros z Hz. apply (ccl2sq_val lam n); assumption.
Qed.

(* ---------------- constant functional ---------------- *)
Lemma vsub_self n : forall x : Rvec, length x = n -> vsub x x = repeat 0 n.
Proof. vind2 n. - reflexivity. - unfv. cbn [vmap2 repeat]. f_equal; [numR; ring | apply IHn; lia]. Qed.
Lemma wnormsq_zero_vec n : forall m : Rvec, length m = n -> wnormsq m (repeat 0 n) = 0.
Proof. vind2 n. - reflexivity. - cbn [repeat]. rewrite wnormsq_cons, IHn by lia. ring. Qed.

Lemma wdot_zero_vec_r n : forall m v : Rvec, length m = n -> length v = n -> wdot m v (repeat 0 n) = 0.
Proof. vind2 n. - reflexivity. - cbn [repeat]. rewrite wdot_cons', IHn by lia. ring. Qed.

Theorem const_leaf_prox n c m x : length m = n -> length x = n -> allpos m ->
  is_proxs n (fun _ => Some c) m x x.
Proof.
  intros Hm Hx Pm. split; [assumption|]. exists c. split; [reflexivity|].
  intros z Hz. cbn [ele]. rewrite (vsub_self n) by assumption.
  rewrite (wdot_zero_vec_r n) by auto with vlen. lra.
Qed.

(* ---------------- box ---------------- *)
Definition ohd (b : option Rvec) : option R := match b with Some (a :: _) => Some a | _ => None end.
Definition otl (b : option Rvec) : option Rvec := match b with Some (_ :: l) => Some l | _ => None end.
Definition olen (n : nat) (b : option Rvec) : Prop := match b with Some l => length l = n | None => True end.
Fixpoint box_phis (lo hi : option Rvec) (n : nat) : list (R -> option R) :=
  match n with
  | O => []
  | S n' => (fun t => if Reqb (clamp1 (ohd lo) (ohd hi) t) t then Some 0 else None) :: box_phis (otl lo) (otl hi) n'
  end.
Definition pbox (L H : option Rvec) (x : Rvec) : Rvec :=
  let y := match L with Some l => vmap2 (@nmax R _) x l | None => x end in
  match H with Some h => vmap2 (@nmin R _) y h | None => y end.

Lemma prox_box_pbox lo hi (x : Rvec) : @prox_box R _ lo hi x = pbox (bvec (length x) lo) (bvec (length x) hi) x.
Proof. reflexivity. Qed.

Lemma pbox_cons L H a x : olen (S (length x)) L -> olen (S (length x)) H ->
  pbox L H (a :: x) = clamp1 (ohd L) (ohd H) a :: pbox (otl L) (otl H) x.
Proof.
  intros HL HH. unfold pbox, clamp1.
  destruct L as [[|l L]|], H as [[|h H]|]; cbn [olen length] in *; try discriminate;
    cbn [ohd otl vmap2]; rewrite ?nmax_R, ?nmin_R; reflexivity.
Qed.
Lemma olen_tl n b : olen (S n) b -> olen n (otl b).
Proof. destruct b as [[|a l]|]; cbn; auto; try discriminate. Qed.

Lemma box_val' n : forall (L H : option Rvec) (w z : Rvec), olen n L -> olen n H -> length w = n -> length z = n ->
  @ind R _ (@veqb R _ (pbox L H z) z) = sepsum (box_phis L H n) w z.
Proof.
  induction n as [|n IHn]; intros L H [|w0 w] [|a z] HL HH Hw Hz; cbn [length] in *; try lia.
  - unfold pbox. destruct L as [[|? ?]|], H as [[|? ?]|]; reflexivity.
  - injection Hz as Hz. injection Hw as Hw.
    rewrite pbox_cons by (rewrite Hz; assumption).
    cbn [box_phis sepsum]. rewrite <- (IHn (otl L) (otl H) w z) by (auto using olen_tl; lia).
    assert (Ev : forall c (p' : Rvec), @veqb R _ (c :: p') (a :: z) = Reqb c a && veqb p' z) by reflexivity.
    rewrite Ev.
    destruct (Reqb (clamp1 (ohd L) (ohd H) a) a); cbn [andb escal eadd ind].
    + destruct (veqb (pbox (otl L) (otl H) z) z); cbn [ind eadd]; [|reflexivity].
      numR. f_equal. ring.
    + reflexivity.
Qed.

Lemma box_sep n : forall (L H : option Rvec) (w sv x : Rvec), olen n L -> olen n H ->
  length w = n -> length sv = n -> length x = n -> allpos w -> allpos sv ->
  sep_sub (box_phis L H n) w sv x (pbox L H x).
Proof.
  induction n as [|n IHn]; intros L H [|w0 w] [|s0 sv] [|a x] HL HH Hw Hs Hx Pw Ps; cbn [length] in *; try lia.
  - unfold pbox. destruct L as [[|? ?]|], H as [[|? ?]|]; constructor.
  - injection Hx as Hx. injection Hw as Hw. injection Hs as Hs. inv_allpos.
    rewrite pbox_cons by (rewrite Hx; assumption).
    cbn [box_phis]. constructor; try assumption.
    + apply clamp1_opt; assumption.
    + apply IHn; auto using olen_tl.
Qed.

Lemma olen_bvec n (b : @bound R) : match b with BVec v => length v = n | _ => True end -> olen n (bvec n b).
Proof. destruct b; cbn; auto using repeat_length. Qed.

Definition bound_ok (n : nat) (b : @bound R) : Prop := match b with BVec v => length v = n | _ => True end.

Theorem box_leaf_prox n lo hi w sv x : bound_ok n lo -> bound_ok n hi ->
  length w = n -> length sv = n -> length x = n -> allpos w -> allpos sv ->
  is_proxs n (@leaf_val R _ _ (FBox lo hi) w) (metric w sv) x (@prox_box R _ lo hi x).
Proof.
  intros Hlo Hhi Hw Hs Hx Pw Ps.
  rewrite prox_box_pbox, Hx.
  apply sep_conclude0 with (phis := box_phis (bvec n lo) (bvec n hi) n); [assumption| |].
  - intros z Hz. cbn [leaf_val]. rewrite prox_box_pbox, Hz. apply box_val'; auto using olen_bvec.
  - apply box_sep; auto using olen_bvec.
Qed.

(* ---------------- indicator of {0} with constant c ---------------- *)
Definition phi_zero : R -> option R := fun t => if Reqb t 0 then Some 0 else None.
Lemma indzero_val c n : forall w z : Rvec, length w = n -> length z = n ->
  @leaf_val R _ _ (FIndZero c) w z = eadd (sepsum (repeat phi_zero n) w z) (Some c).
Proof.
  cbn [leaf_val]. vind2 n.
  - cbn. numR. f_equal. ring.
  - cbn [repeat sepsum map].
    assert (Ev : forall c (p' : Rvec) q, @veqb R _ (c :: p') (0 :: q) = Reqb c 0 && veqb p' q) by reflexivity.
    numR. rewrite Ev. specialize (IHn w z ltac:(lia) ltac:(lia)). numR.
    unfold phi_zero at 1.
    match goal with |- context [Reqb ?a 0] => destruct (Reqb a 0) end; cbn [andb escal eadd].
    + destruct (veqb z (map (fun _ => 0) z)); destruct (sepsum (repeat phi_zero n) w z); cbn [eadd] in *; try discriminate; try reflexivity.
      injection IHn as IHn. numR. f_equal. lra.
    + destruct (sepsum (repeat phi_zero n) w z); reflexivity.
Qed.
Lemma indzero_sep n : forall w sv x : Rvec, length w = n -> length sv = n -> length x = n -> allpos w -> allpos sv ->
  sep_sub (repeat phi_zero n) w sv x (map (fun _ => 0) x).
Proof.
  vind2 n. - constructor.
  - inv_allpos. cbn [repeat map]. constructor; try assumption; [apply zero_opt; assumption | apply IHn; auto; lia].
Qed.
Theorem indzero_leaf_prox c n w sv x : length w = n -> length sv = n -> length x = n -> allpos w -> allpos sv ->
  is_proxs n (@leaf_val R _ _ (FIndZero c) w) (metric w sv) x (map (fun _ => 0) x).
Proof.
  intros. apply sep_conclude with (phis := repeat phi_zero n) (c := c); [assumption| |apply indzero_sep; assumption].
  intros z Hz. apply indzero_val; assumption.
Qed.

(* ---------------- unit ball of the max norm ---------------- *)
Definition phi_ball (lam : R) : R -> option R := fun t => if Rleb (Rabs t) lam then Some 0 else None.
Lemma vmaxabs_nonneg (z : Rvec) : 0 <= @vmaxabs R _ z.
Proof.
  induction z as [|a z IH]; cbn [vmaxabs fold_right]; numR; [lra|].
  fold (@vmaxabs R _ z). rewrite nmax_R. apply Rle_trans with (Rabs a); [apply Rabs_pos|apply Rmax_l].
Qed.
Lemma Rleb_max a b c : Rleb (Rmax a b) c = Rleb a c && Rleb b c.
Proof.
  destruct (Rleb_spec (Rmax a b) c) as [H|H], (Rleb_spec a c) as [Ha|Ha], (Rleb_spec b c) as [Hb|Hb];
    cbn [andb]; try reflexivity; exfalso; unfold Rmax in *; destruct (Rle_dec a b); lra.
Qed.
Lemma ballinf_val n : forall w z : Rvec, length w = n -> length z = n ->
  @ind R _ (Rleb (@vmaxabs R _ z) 1) = sepsum (repeat (phi_ball 1) n) w z.
Proof.
  vind2 n.
  - cbn. numR. destruct (Rleb_spec 0 1); [reflexivity|lra].
  - cbn [repeat sepsum]. rewrite <- (IHn w z) by lia.
    unfold vmaxabs. cbn [fold_right]. fold (@vmaxabs R _ z). rewrite nmax_R. numR. rewrite Rleb_max.
    unfold phi_ball at 1.
    match goal with |- context [Rleb (Rabs ?a) 1] => destruct (Rleb (Rabs a) 1) end; cbn [andb escal eadd ind]; [|reflexivity].
    destruct (Rleb (vmaxabs z) 1); cbn [ind eadd]; [|reflexivity]. numR. f_equal. ring.
Qed.
Lemma ccl1_0_opt lam s x : 0 < lam -> 0 < s -> sub1 (phi_ball lam) s x (ccl1_1 lam x).
Proof.
  intros Hl Hs. pose proof (ccl1_opt lam 0 s x Hl Hs) as Q.
  replace (x - s * 0) with x in Q by ring.
  revert Q. apply sub1_ext. intros t. unfold phi_ball. destruct (Rleb (Rabs t) lam); [f_equal; ring|reflexivity].
Qed.
Lemma ballinf_sep n : forall (w x : Rvec) s, 0 < s -> length w = n -> length x = n -> allpos w ->
  sep_sub (repeat (phi_ball 1) n) w (repeat s n) x (@prox_cc_l1 R _ 1 None s x).
Proof.
  vind2 n. - constructor.
  - inv_allpos. unfold prox_cc_l1 in *. cbn [repeat map]. constructor; try assumption.
    + rewrite nmax_R. numR. apply (ccl1_0_opt 1); [lra|assumption].
    + apply IHn; auto; lia.
Qed.
Theorem ballinf_leaf_prox n w s x : 0 < s -> length w = n -> length x = n -> allpos w ->
  is_proxs n (@leaf_val R _ _ FBallInf w) (metric w (repeat s n)) x (@prox_cc_l1 R _ 1 None s x).
Proof.
  intros. apply sep_conclude0 with (phis := repeat (phi_ball 1) n); [assumption| |apply ballinf_sep; assumption].
  intros z Hz. cbn [leaf_val]. numR. apply ballinf_val; assumption.
Qed.

(* ---------------- Huber ---------------- *)
Lemma huber_val gamma n : forall w z : Rvec, length w = n -> length z = n ->
  @leaf_val R _ _ (FHuber gamma) w z = sepsum (repeat (fun t => Some (hub gamma t)) n) w z.
Proof.
  cbn [leaf_val]. vind2 n. - reflexivity.
  - cbn [repeat sepsum escal]. rewrite <- (IHn w z) by lia. unfv. cbn [map vmap2 sumf eadd]. numR. reflexivity.
Qed.
Lemma huber_sep gamma n : forall (w x : Rvec) s, 0 <= gamma -> 0 < s -> length w = n -> length x = n -> allpos w ->
  sep_sub (repeat (fun t => Some (hub gamma t)) n) w (repeat s n) x (@prox_huber R _ gamma s x).
Proof.
  vind2 n. - constructor.
  - inv_allpos. unfold prox_huber in *. cbn [repeat map]. constructor; try assumption.
    + numR. apply huber_opt; assumption.
    + apply IHn; auto; lia.
Qed.
Theorem huber_leaf_prox gamma n w s x : 0 <= gamma -> 0 < s -> length w = n -> length x = n -> allpos w ->
  is_proxs n (@leaf_val R _ _ (FHuber gamma) w) (metric w (repeat s n)) x (@prox_huber R _ gamma s x).
Proof.
  intros. apply sep_conclude0 with (phis := repeat (fun t => Some (hub gamma t)) n);
    [assumption| |apply huber_sep; assumption].
  intros z Hz. apply huber_val; assumption.
Qed.

(* ---------------- conjugate-L1 factory: indicator of the lam-box plus <., g>_w ---------------- *)
Definition F_ccl1 (lam : R) (g w z : Rvec) : option R :=
  if Rleb (@vmaxabs R _ z) lam then Some (wdot w z g) else None.
Definition phis_ccl1 (lam : R) (g : Rvec) := map (fun gi t => if Rleb (Rabs t) lam then Some (t * gi) else None) g.
Lemma ccl1_val lam n : forall g w z : Rvec, 0 <= lam -> length g = n -> length w = n -> length z = n ->
  F_ccl1 lam g w z = sepsum (phis_ccl1 lam g) w z.
Proof.
  unfold F_ccl1, phis_ccl1. vind2 n.
  - cbn. numR. destruct (Rleb_spec 0 lam); [reflexivity|lra].
  - cbn [map sepsum]. rewrite <- (IHn g w z) by (auto; lia).
    unfold vmaxabs. cbn [fold_right]. fold (@vmaxabs R _ z). rewrite nmax_R. numR. rewrite Rleb_max.
    match goal with |- context [Rleb (Rabs ?a) lam] => destruct (Rleb (Rabs a) lam) end; cbn [andb escal eadd]; [|reflexivity].
    destruct (Rleb (vmaxabs z) lam); cbn [eadd]; [|reflexivity]. rewrite wdot_cons'. numR. reflexivity.
Qed.
Lemma ccl1_sep lam n : forall (g w x : Rvec) s, 0 < lam -> 0 < s -> length g = n -> length w = n -> length x = n -> allpos w ->
  sep_sub (phis_ccl1 lam g) w (repeat s n) x (@prox_cc_l1 R _ lam (Some g) s x).
Proof.
  unfold phis_ccl1. vind2 n. - constructor.
  - inv_allpos. unfold prox_cc_l1 in *. unfv. cbn [repeat map vmap2]. constructor; try assumption.
    + rewrite nmax_R. numR.
      lazymatch goal with |- sub1 (fun t => if _ then Some (t * ?gi) else None) ?s ?a (?d / _) =>
        replace d with (a - s * gi) by ring end.
      apply ccl1_opt; assumption.
    + apply IHn; auto; lia.
Qed.
Theorem ccl1_factory_prox lam n g w s x : 0 < lam -> 0 < s ->
  length g = n -> length w = n -> length x = n -> allpos w ->
  is_proxs n (F_ccl1 lam g w) (metric w (repeat s n)) x (@prox_cc_l1 R _ lam (Some g) s x).
Proof.
  intros. apply sep_conclude0 with (phis := phis_ccl1 lam g); [assumption| |apply (ccl1_sep lam n); assumption].
  intros z Hz. apply (ccl1_val lam n); auto; lra.
Qed.

