(* C07/Group.v -- vector fields X^d (flat layout: d blocks of m entries): GroupL1Norm with pointwise 2-norm and
   proximal_l1_l2 (block soft threshold at every point), by induction over the points on the matrix view. *)
From Coq Require Import ZArith QArith Reals Lra Lia List Bool Psatz.
From Verif Require Import Base.Num Base.Vec Base.VecR C07.Model C07.Convex C07.Leaves C07.LeafThms C07.Rules C07.L2 C07.Compose.
Import ListNotations.
Local Open Scope R_scope.

(* ---------------- one point of a vector field: block soft threshold in R^d, unweighted ---------------- *)
Definition bst (s : R) (xh : Rvec) : Rvec :=
  let delta := Rmax (sqrt (dot xh xh) / (s * 1)) 1 in map (fun a => a - a / delta) xh.

Lemma allpos_ones d : allpos (repeat 1 d).
Proof. induction d; cbn; constructor; auto; lra. Qed.
Lemma wnormsq_ones d : forall v : Rvec, length v = d -> wnormsq (repeat 1 d) v = dot v v.
Proof. intros v Hv. unfold wnormsq. rewrite (wdot_repeat d) by assumption. ring. Qed.

Lemma bst_vi d s (xh zh : Rvec) : 0 < s -> length xh = d -> length zh = d ->
  sqrt (dot (bst s xh) (bst s xh)) + / s * dot (vsub zh (bst s xh)) (vsub xh (bst s xh)) <= sqrt (dot zh zh).
Proof.
  intros Hs Hx Hz.
  pose proof (l2_factory_prox 1 d (repeat 0 d) (repeat 1 d) s xh ltac:(lra) Hs
                (repeat_length _ _) (repeat_length _ _) Hx (allpos_ones d)) as (Lp & vp & Hv & Ho).
  (* the model's prox_l2 with g = 0, w = 1 is bst *)
  assert (E : @prox_l2 R _ _ (repeat 1 d) 1 (Some (repeat 0 d)) s xh = bst s xh).
  { unfold prox_l2, gsub, wnorm, bst. numS. rewrite (vsub_zero_r d) by assumption.
    rewrite (wnormsq_ones d) by assumption. set (nx := sqrt (dot xh xh)).
    assert (Hn0 : 0 <= nx) by apply sqrt_pos.
    destruct (Rltb_spec 0 nx) as [H0|H0].
    - destruct (Rltb_spec (s * 1 / nx) 1) as [H1|H1].
      + (* shrink: delta = nx / s > 1 *)
        assert (Hd : Rmax (nx / (s * 1)) 1 = nx / (s * 1)).
        { apply Rmax_left. apply (Rmult_le_reg_r (s * 1 / nx)); [apply Rdiv_lt_0_compat; lra|].
          replace (nx / (s * 1) * (s * 1 / nx)) with 1 by (field; lra). lra. }
        rewrite Hd, (vlin_zero_r d) by assumption. unfold vscal. apply map_ext. intros a. numR. field. lra.
      + assert (Hd : Rmax (nx / (s * 1)) 1 = 1).
        { apply Rmax_right. apply (Rmult_le_reg_r (s * 1)); [lra|]. unfold Rdiv. rewrite Rmult_assoc, Rinv_l by lra.
          apply Rnot_lt_le in H1. apply (Rmult_le_compat_r nx) in H1; [|lra]. unfold Rdiv in H1.
          rewrite Rmult_assoc, Rinv_l in H1 by lra. lra. }
        rewrite Hd. rewrite <- (map_zero_repeat d xh Hx). apply map_ext. intros a. field.
    - assert (nx = 0) by lra. rewrite H. unfold Rdiv. rewrite Rmult_0_l, Rmax_right by lra.
      rewrite <- (map_zero_repeat d xh Hx). apply map_ext. intros a. field. }
  rewrite E in *. specialize (Ho zh Hz). unfold F_l2 in *. injection Hv as <-.
  cbn [ele] in Ho. rewrite !(vsub_zero_r d) in Ho by assumption.
  rewrite !(wnormsq_ones d) in Ho by assumption.
  rewrite (metric_scalar_dot d) in Ho by (auto using repeat_length with vlen; lra).
  rewrite (wdot_repeat d) in Ho by auto with vlen. unfold Rdiv in Ho. lra.
Qed.

(* ---------------- vector fields as matrices: d rows (components), m columns (points) ---------------- *)
Definition heads (M : list Rvec) : Rvec := map (fun r => hd 0 r) M.
Definition tails (M : list Rvec) : list Rvec := map (@tl R) M.
Definition cn (m : nat) (M : list Rvec) : Rvec :=
  fold_right (fun c acc => vmap2 (fun a b => a * a + b) c acc) (repeat 0 m) M.
Fixpoint mdot (wb : Rvec) (U V : list Rvec) : R :=
  match U, V with
  | u :: U', v :: V' => wdot wb u v + mdot wb U' V'
  | _, _ => 0
  end.
Fixpoint msub (U V : list Rvec) : list Rvec :=
  match U, V with
  | u :: U', v :: V' => vsub u v :: msub U' V'
  | _, _ => []
  end.
Definition prows (delta : Rvec) (X : list Rvec) : list Rvec := map (fun c => vsub c (vdiv c delta)) X.
Definition gval (m : nat) (wb : Rvec) (M : list Rvec) : R := sumf (vmul wb (map sqrt (cn m M))).
Definition gdelta (m : nat) (s : R) (X : list Rvec) : Rvec :=
  map (fun a => Rmax (a / (s * 1)) 1) (map sqrt (cn m X)).

Lemma rows_tails d m M : rows_ok d (S m) M -> rows_ok d m (tails M).
Proof.
  intros [Hl Hr]. split; [unfold tails; rewrite map_length; assumption|].
  unfold tails. clear Hl. induction Hr as [|r M Hr HM IH]; cbn [map]; constructor; auto.
  destruct r; cbn [length tl] in *; lia.
Qed.
Lemma heads_len d m M : rows_ok d m M -> length (heads M) = d.
Proof. intros [Hl _]. unfold heads. rewrite map_length. assumption. Qed.

Lemma cn_peel d m M : rows_ok d (S m) M -> cn (S m) M = dot (heads M) (heads M) :: cn m (tails M).
Proof.
  intros [Hl Hr]. clear Hl. induction Hr as [|r M Hr HM IH]; cbn [cn fold_right heads tails map].
  - cbn [repeat]. f_equal.
  - fold (cn (S m) M) (cn m (tails M)) (heads M). rewrite IH. destruct r as [|c0 c']; [cbn in Hr; lia|].
    cbn [vmap2 hd tl]. rewrite dot_cons. reflexivity.
Qed.

Lemma mdot_peel d m w0 wb : forall U V, rows_ok d (S m) U -> rows_ok d (S m) V ->
  mdot (w0 :: wb) U V = w0 * dot (heads U) (heads V) + mdot wb (tails U) (tails V).
Proof.
  induction d as [|d IHd]; intros [|u U] [|v V] [LU RU] [LV RV]; cbn [length] in *; try lia.
  - cbn. lra.
  - inversion RU as [|? ? Hu RU']; inversion RV as [|? ? Hv RV']; subst.
    cbn [mdot heads tails map]. fold (heads U) (heads V) (tails U) (tails V).
    rewrite (IHd U V) by (split; auto; lia).
    destruct u as [|a u]; [cbn in Hu; lia|]. destruct v as [|b v]; [cbn in Hv; lia|].
    cbn [hd tl]. rewrite wdot_cons', dot_cons. ring.
Qed.
Lemma mdot_nil_w : forall U V, mdot [] U V = 0.
Proof. induction U as [|u U IH]; intros [|v V]; cbn [mdot]; try reflexivity. rewrite IH, wdot_nil_l. ring. Qed.

Lemma msub_rows d m : forall U V, rows_ok d m U -> rows_ok d m V -> rows_ok d m (msub U V).
Proof.
  induction d as [|d IHd]; intros [|u U] [|v V] [LU RU] [LV RV]; cbn [length] in *; try lia.
  - split; [reflexivity|constructor].
  - inversion RU; inversion RV; subst. destruct (IHd U V) as [L R]; try (split; auto; lia).
    split; [cbn [msub length]; lia|]. cbn [msub]. constructor; auto with vlen.
Qed.
Lemma msub_heads d m : forall U V, rows_ok d (S m) U -> rows_ok d (S m) V ->
  heads (msub U V) = vsub (heads U) (heads V) /\ tails (msub U V) = msub (tails U) (tails V).
Proof.
  induction d as [|d IHd]; intros [|u U] [|v V] [LU RU] [LV RV]; cbn [length] in *; try lia.
  - split; reflexivity.
  - inversion RU as [|? ? Hu RU']; inversion RV as [|? ? Hv RV']; subst.
    destruct (IHd U V) as [E1 E2]; try (split; auto; lia).
    destruct u as [|a u]; [cbn in Hu; lia|]. destruct v as [|b v]; [cbn in Hv; lia|].
    cbn [msub heads tails map hd tl]. fold (heads (msub U V)) (tails (msub U V)) (heads U) (heads V) (tails U) (tails V).
    rewrite E1, E2. unfv. cbn [vmap2]. split; reflexivity.
Qed.

Lemma prows_rows d m delta X : rows_ok d m X -> length delta = m -> rows_ok d m (prows delta X).
Proof.
  intros [L R] Hd. split; [unfold prows; rewrite map_length; assumption|].
  unfold prows. clear L. induction R; cbn [map]; constructor; auto.
  apply vsub_len; [assumption|apply vdiv_len; assumption].
Qed.
Lemma prows_peel d m d0 delta X : rows_ok d (S m) X ->
  heads (prows (d0 :: delta) X) = map (fun a => a - a / d0) (heads X) /\
  tails (prows (d0 :: delta) X) = prows delta (tails X).
Proof.
  intros [L R]. clear L. induction R as [|r X Hr HX IH]; [split; reflexivity|].
  destruct IH as [E1 E2]. destruct r as [|a r]; [cbn in Hr; lia|].
  unfold prows, heads, tails in *. cbn [map]. rewrite E1, E2. unfv. cbn [vmap2 hd tl]. split; reflexivity.
Qed.

Lemma cn_len d m M : rows_ok d m M -> length (cn m M) = m.
Proof.
  intros [L R]. clear L. induction R as [|r M Hr HM IH]; cbn [cn fold_right].
  - apply repeat_length.
  - fold (cn m M). apply vmap2_len; assumption.
Qed.

(* the variational inequality for the whole field, by induction over the points *)
Theorem group_vi s d : 0 < s -> forall m (wb : Rvec) (X Z : list Rvec), allpos wb -> length wb = m ->
  rows_ok d m X -> rows_ok d m Z ->
  let P := prows (gdelta m s X) X in
  gval m wb P + / s * mdot wb (msub Z P) (msub X P) <= gval m wb Z.
Proof.
  intros Hs. induction m as [|m IHm]; intros wb X Z Pw Lw RX RZ P.
  - destruct wb; [|discriminate]. unfold gval. cbn [vmul vmap2 sumf]. rewrite mdot_nil_w. numR. lra.
  - destruct wb as [|w0 wb]; [discriminate|]. inversion Pw as [|? ? Hw0 Pw']; subst. cbn [length] in Lw.
    assert (Ld : length (gdelta (S m) s X) = S m) by (unfold gdelta; rewrite !map_length; apply (cn_len d); assumption).
    assert (RP : rows_ok d (S m) P) by (apply prows_rows; assumption).
    (* peel the first point *)
    assert (Ed : gdelta (S m) s X = Rmax (sqrt (dot (heads X) (heads X)) / (s * 1)) 1 :: gdelta m s (tails X)).
    { unfold gdelta. rewrite (cn_peel d) by assumption. reflexivity. }
    unfold P in *. rewrite Ed in *.
    destruct (prows_peel d m (Rmax (sqrt (dot (heads X) (heads X)) / (s * 1)) 1) (gdelta m s (tails X)) X RX) as [HP TP].
    set (P' := prows (Rmax (sqrt (dot (heads X) (heads X)) / (s * 1)) 1 :: gdelta m s (tails X)) X) in *.
    assert (HPb : heads P' = bst s (heads X)) by (rewrite HP; reflexivity).
    pose proof (rows_tails d m X RX) as RtX. pose proof (rows_tails d m Z RZ) as RtZ.
    specialize (IHm wb (tails X) (tails Z) Pw' ltac:(lia) RtX RtZ). cbv zeta in IHm. rewrite <- TP in IHm.
    unfold gval in *. rewrite (cn_peel d m P'), (cn_peel d m Z) by assumption.
    cbn [map]. unfv. cbn [vmap2 sumf].
    rewrite (mdot_peel d m) by (apply msub_rows; assumption).
    destruct (msub_heads d m Z P' RZ RP) as [E1 E2]. destruct (msub_heads d m X P' RX RP) as [E3 E4].
    rewrite E1, E2, E3, E4, HPb.
    pose proof (bst_vi d s (heads X) (heads Z) Hs (heads_len d _ X RX) (heads_len d _ Z RZ)) as B.
    numR.
    assert (w0 * (sqrt (dot (bst s (heads X)) (bst s (heads X))) +
                  / s * dot (vsub (heads Z) (bst s (heads X))) (vsub (heads X) (bst s (heads X))))
            <= w0 * sqrt (dot (heads Z) (heads Z))) by (apply Rmult_le_compat_l; lra).
    lra.
Qed.

(* ---------------- flat layout <-> matrix ---------------- *)
Lemma chunks_rows m : forall d (x : Rvec), length x = (d * m)%nat ->
  rows_ok d m (@chunks R m d x) /\ concat (@chunks R m d x) = x.
Proof.
  induction d as [|d IHd]; intros x Hx; cbn [chunks].
  - destruct x; [|cbn in Hx; lia]. split; [split; [reflexivity|constructor]|reflexivity].
  - destruct (IHd (skipn m x)) as [[L R] C]. { rewrite skipn_length. lia. }
    split; [split|].
    + cbn [length]. lia.
    + constructor; [rewrite firstn_length; lia|assumption].
    + cbn [concat]. rewrite C. apply firstn_skipn.
Qed.
Lemma chunks_concat m : forall d (M : list Rvec), rows_ok d m M -> @chunks R m d (concat M) = M.
Proof.
  induction d as [|d IHd]; intros [|r M] [L R]; cbn [length] in *; try lia; [reflexivity|].
  pose proof (Forall_inv R) as Hr. pose proof (Forall_inv_tail R) as R'. cbn beta in Hr. cbn [concat chunks].
  rewrite firstn_app, Hr, Nat.sub_diag, firstn_all2 by lia. cbn [firstn]. rewrite app_nil_r.
  rewrite skipn_app, Hr, Nat.sub_diag, skipn_all2 by lia. cbn [skipn app].
  f_equal. apply IHd. split; auto; lia.
Qed.
Lemma concat_len d m (M : list Rvec) : rows_ok d m M -> length (concat M) = (d * m)%nat.
Proof.
  revert M. induction d as [|d IHd]; intros [|r M] [L R]; cbn [length] in *; try lia; [reflexivity|].
  pose proof (Forall_inv R) as Hr. pose proof (Forall_inv_tail R) as R'. cbn beta in Hr.
  cbn [concat]. rewrite app_length, (IHd M) by (split; auto; lia). lia.
Qed.
Lemma vsub_concat d m : forall U V, rows_ok d m U -> rows_ok d m V ->
  vsub (concat U) (concat V) = concat (msub U V).
Proof.
  induction d as [|d IHd]; intros [|u U] [|v V] [LU RU] [LV RV]; cbn [length] in *; try lia; [reflexivity|].
  pose proof (Forall_inv RU) as Hu. pose proof (Forall_inv_tail RU) as RU'. pose proof (Forall_inv RV) as Hv. pose proof (Forall_inv_tail RV) as RV'. cbn beta in Hu, Hv.
  cbn [concat msub]. rewrite (vsub_app m) by assumption.
  f_equal. apply IHd; split; auto; lia.
Qed.
Lemma wdot_concat d m wb : length wb = m -> forall U V, rows_ok d m U -> rows_ok d m V ->
  wdot (concat (repeat wb d)) (concat U) (concat V) = mdot wb U V.
Proof.
  intros Hw. induction d as [|d IHd]; intros [|u U] [|v V] [LU RU] [LV RV]; cbn [length] in *; try lia; [reflexivity|].
  pose proof (Forall_inv RU) as Hu. pose proof (Forall_inv_tail RU) as RU'. pose proof (Forall_inv RV) as Hv. pose proof (Forall_inv_tail RV) as RV'. cbn beta in Hu, Hv.
  cbn [repeat concat mdot]. rewrite (wdot_app m) by auto.
  f_equal. apply IHd; split; auto; lia.
Qed.
Lemma prows_concat d m delta : forall X, rows_ok d m X -> length delta = m ->
  vsub (concat X) (concat (map (fun c => vdiv c delta) X)) = concat (prows delta X).
Proof.
  intros X [L R] Hd. clear L. induction R as [|r X Hr HX IH]; [reflexivity|].
  cbn [map concat prows]. rewrite (vsub_app m) by auto with vlen. f_equal. exact IH.
Qed.

(* ---------------- GroupL1Norm(X^d, exponent 2): proximal_l1_l2 ---------------- *)
Theorem groupl1_leaf_prox m d (wb x : Rvec) s : 0 < s -> (1 <= d)%nat -> allpos wb -> length wb = m ->
  length x = (d * m)%nat ->
  let w := concat (repeat wb d) in
  is_proxs (d * m) (@leaf_val R _ _ (FGroupL1 m d true) w) (metric w (repeat s (d * m))) x
           (@prox_l1_l2 R _ _ m d 1 None s x).
Proof.
  intros Hs Hd Pw Lw Hx w.
  assert (Lww : length w = (d * m)%nat).
  { unfold w. clear -Lw. induction d; cbn [repeat concat]; [reflexivity|]. rewrite app_length, IHd. lia. }
  assert (Hfw : firstn m w = wb).
  { unfold w. destruct d; [lia|]. cbn [repeat concat]. rewrite firstn_app, Lw, Nat.sub_diag, firstn_all2 by lia.
    cbn [firstn]. apply app_nil_r. }
  assert (Hval : forall M, rows_ok d m M -> @leaf_val R _ _ (FGroupL1 m d true) w (concat M) = Some (gval m wb M)).
  { intros M RM. cbn [leaf_val]. unfold pw_norm, pw_normsq. rewrite (chunks_concat m d M RM), Hfw. reflexivity. }
  destruct (chunks_rows m d x Hx) as [RX CX]. set (X := chunks m d x) in *.
  assert (Ldl : length (gdelta m s X) = m) by (unfold gdelta; rewrite !map_length; apply (cn_len d); assumption).
  assert (RP : rows_ok d m (prows (gdelta m s X) X)) by (apply prows_rows; assumption).
  assert (Ep : @prox_l1_l2 R _ _ m d 1 None s x = concat (prows (gdelta m s X) X)).
  { unfold prox_l1_l2, gsub, pw_norm, pw_normsq. fold X. fold (cn m X). numS.
    rewrite <- (prows_concat d m) by assumption. rewrite CX. f_equal. f_equal.
    apply map_ext_in. intros c _. f_equal. unfold gdelta. rewrite !map_map. apply map_ext. intros a.
    rewrite nmax_R. reflexivity. }
  rewrite Ep. split; [apply (concat_len d m); assumption|].
  exists (gval m wb (prows (gdelta m s X) X)). split; [apply Hval; assumption|].
  intros z Hz. destruct (chunks_rows m d z Hz) as [RZ CZ]. set (Z := chunks m d z) in *.
  rewrite <- CZ, Hval by assumption. cbn [ele].
  rewrite (metric_scalar_dot (d * m)) by (auto using concat_len, repeat_length with vlen; try lra;
                                        rewrite ?(vsub_concat d m) by assumption; apply (concat_len d m), msub_rows; assumption).
  rewrite <- CX at 1. rewrite !(vsub_concat d m) by assumption. unfold w.
  rewrite (wdot_concat d m wb Lw) by (apply msub_rows; assumption).
  pose proof (group_vi s d Hs m wb X Z Pw Lw RX RZ) as V. cbv zeta in V. unfold Rdiv. lra.
Qed.


(* ================= IndicatorGroupL1UnitBall(X^d, exponent 2): proximal_convex_conj_l1_l2 ================= *)
(* ---------------- one point: projection onto the unit ball of R^d ---------------- *)
Definition bproj (xh : Rvec) : Rvec := map (fun a => a / (Rmax (sqrt (dot xh xh)) 1 / 1)) xh.

Lemma dot_cs d (a b : Rvec) : length a = d -> length b = d -> dot a b <= sqrt (dot a a) * sqrt (dot b b).
Proof.
  intros Ha Hb. pose proof (cauchy_schwarz d (repeat 1 d) a b (allpos_ones d) (repeat_length _ _) Ha Hb) as C.
  rewrite !(wnormsq_ones d) in C by assumption. rewrite (wdot_repeat d) in C by assumption. lra.
Qed.
Lemma dot_self_map_div c (x : Rvec) : dot (map (fun a => a / c) x) (map (fun a => a / c) x) = dot x x / (c * c).
Proof.
  destruct (Req_dec c 0) as [->|Hc].
  - induction x as [|a x IH]; cbn [map]; [unfold dot; cbn; numR; unfold Rdiv; ring|].
    rewrite !dot_cons, IH. unfold Rdiv. rewrite Rmult_0_l, !Rinv_0. ring.
  - induction x as [|a x IH]; cbn [map]; [unfold dot; cbn; numR; unfold Rdiv; ring|].
    rewrite !dot_cons, IH. field. assumption.
Qed.
Lemma vsub_map_div d c : forall x : Rvec, c <> 0 -> length x = d ->
  vsub x (map (fun a => a / c) x) = vscal (c - 1) (map (fun a => a / c) x).
Proof.
  induction d as [|d IHd]; intros [|a x] Hc Hx; cbn [length] in *; try lia; [reflexivity|].
  unfv. cbn [map vmap2]. f_equal; [numR; field; assumption | apply IHd; auto; lia].
Qed.

Lemma bproj_vi d (xh zh : Rvec) : length xh = d -> length zh = d ->
  dot (bproj xh) (bproj xh) <= 1 /\
  (dot zh zh <= 1 -> dot (vsub zh (bproj xh)) (vsub xh (bproj xh)) <= 0).
Proof.
  intros Hx Hz. unfold bproj. set (N := sqrt (dot xh xh)).
  assert (HN0 : 0 <= N) by apply sqrt_pos.
  assert (HNN : N * N = dot xh xh) by (apply sqrt_sqrt, dot_self_nonneg).
  destruct (Rle_dec N 1) as [H1|H1].
  - rewrite Rmax_right by assumption. replace (1 / 1) with 1 by field.
    assert (E : map (fun a => a / 1) xh = xh).
    { rewrite <- (map_id xh) at 2. apply map_ext. intros a. field. }
    rewrite E. split; [nra|]. intros _. rewrite (vsub_self d) by assumption. rewrite (dot_zero_r d) by auto with vlen. lra.
  - apply Rnot_le_lt in H1. rewrite Rmax_left by lra. replace (N / 1) with N by field.
    set (ph := map (fun a => a / N) xh).
    assert (Lp : length ph = d) by (unfold ph; rewrite map_length; assumption).
    assert (Hpp : dot ph ph = 1) by (unfold ph; rewrite dot_self_map_div, <- HNN; field; lra).
    split; [lra|]. intros Hzz. unfold ph at 2. rewrite (vsub_map_div d) by (auto; lra). fold ph.
    rewrite dot_vscal_r, (dot_vsub_l d) by assumption. rewrite Hpp.
    pose proof (dot_cs d zh ph Hz Lp) as C. rewrite Hpp, sqrt_1 in C.
    assert (sqrt (dot zh zh) <= 1) by (rewrite <- sqrt_1; apply sqrt_le_1_alt; assumption).
    assert (dot zh ph - 1 <= 0) by lra. nra.
Qed.

(* ---------------- the field ---------------- *)
Definition crows (delta : Rvec) (X : list Rvec) : list Rvec := map (fun c => vdiv c delta) X.
Definition cdelta (m : nat) (X : list Rvec) : Rvec := map (fun a => Rmax a 1 / 1) (map sqrt (cn m X)).
Definition feasible (m : nat) (M : list Rvec) : Prop := Forall (fun a => a <= 1) (cn m M).

Lemma crows_rows d m delta X : rows_ok d m X -> length delta = m -> rows_ok d m (crows delta X).
Proof.
  intros [L R] Hd. split; [unfold crows; rewrite map_length; assumption|].
  unfold crows. clear L. induction R; cbn [map]; constructor; auto. apply vdiv_len; assumption.
Qed.
Lemma crows_peel d m d0 delta X : rows_ok d (S m) X ->
  heads (crows (d0 :: delta) X) = map (fun a => a / d0) (heads X) /\
  tails (crows (d0 :: delta) X) = crows delta (tails X).
Proof.
  intros [L R]. clear L. induction R as [|r X Hr HX IH]; [split; reflexivity|].
  destruct IH as [E1 E2]. destruct r as [|a r]; [cbn in Hr; lia|].
  unfold crows, heads, tails in *. cbn [map]. rewrite E1, E2. unfv. cbn [vmap2 hd tl]. split; reflexivity.
Qed.

Lemma cn_zero (M : list Rvec) : cn 0 M = [].
Proof.
  induction M as [|c M IH]; [reflexivity|].
  change (cn 0 (c :: M)) with (vmap2 (fun a b => a * a + b) c (cn 0 M)). rewrite IH. destruct c; reflexivity.
Qed.

Theorem groupball_vi d : forall m (wb : Rvec) (X : list Rvec), allpos wb -> length wb = m -> rows_ok d m X ->
  let P := crows (cdelta m X) X in
  feasible m P /\
  forall Z, rows_ok d m Z -> feasible m Z -> mdot wb (msub Z P) (msub X P) <= 0.
Proof.
  induction m as [|m IHm]; intros wb X Pw Lw RX P.
  - destruct wb; [|discriminate]. split.
    + unfold feasible. rewrite cn_zero. constructor.
    + intros Z _ _. rewrite mdot_nil_w. lra.
  - destruct wb as [|w0 wb]; [discriminate|]. inversion Pw as [|? ? Hw0 Pw']; subst. cbn [length] in Lw.
    assert (Ed : cdelta (S m) X = Rmax (sqrt (dot (heads X) (heads X))) 1 / 1 :: cdelta m (tails X)).
    { unfold cdelta. rewrite (cn_peel d) by assumption. reflexivity. }
    assert (Ld : length (cdelta (S m) X) = S m) by (unfold cdelta; rewrite !map_length; apply (cn_len d); assumption).
    assert (RP : rows_ok d (S m) P) by (apply crows_rows; assumption).
    unfold P in *. rewrite Ed in *.
    destruct (crows_peel d m (Rmax (sqrt (dot (heads X) (heads X))) 1 / 1) (cdelta m (tails X)) X RX) as [HP TP].
    set (P' := crows (Rmax (sqrt (dot (heads X) (heads X))) 1 / 1 :: cdelta m (tails X)) X) in *.
    assert (HPb : heads P' = bproj (heads X)) by (rewrite HP; reflexivity).
    pose proof (rows_tails d m X RX) as RtX.
    destruct (IHm wb (tails X) Pw' ltac:(lia) RtX) as [F' V']. rewrite <- TP in F', V'.
    destruct (bproj_vi d (heads X) (heads X) (heads_len d _ X RX) (heads_len d _ X RX)) as [B1 _].
    split.
    + unfold feasible. rewrite (cn_peel d m P') by assumption. constructor; [rewrite HPb; exact B1|exact F'].
    + intros Z RZ FZ. unfold feasible in FZ. rewrite (cn_peel d m Z) in FZ by assumption.
      pose proof (Forall_inv FZ) as FZ0. pose proof (Forall_inv_tail FZ) as FZt. cbn beta in FZ0.
      rewrite (mdot_peel d m) by (apply msub_rows; assumption).
      destruct (msub_heads d m Z P' RZ RP) as [E1 E2]. destruct (msub_heads d m X P' RX RP) as [E3 E4].
      rewrite E1, E2, E3, E4, HPb.
      destruct (bproj_vi d (heads X) (heads Z) (heads_len d _ X RX) (heads_len d _ Z RZ)) as [_ B2].
      specialize (B2 FZ0). specialize (V' (tails Z) (rows_tails d m Z RZ) FZt). nra.
Qed.

Lemma forallb_le1 (l : Rvec) : forallb (fun a => Rleb a 1) l = true <-> Forall (fun a => a <= 1) l.
Proof.
  induction l as [|a l IH]; cbn [forallb]; split; intros H; try constructor; try reflexivity.
  - destruct (Rleb_spec a 1); [assumption|discriminate].
  - apply IH. destruct (Rleb a 1); [assumption|discriminate].
  - inversion H; subst. destruct (Rleb_spec a 1); [apply IH; assumption|contradiction].
Qed.

Theorem groupball_leaf_prox m d (wb x : Rvec) s : 0 < s -> (1 <= d)%nat -> allpos wb -> length wb = m ->
  length x = (d * m)%nat ->
  let w := concat (repeat wb d) in
  is_proxs (d * m) (@leaf_val R _ _ (FGroupBall m d true) w) (metric w (repeat s (d * m))) x
           (@prox_cc_l1_l2 R _ _ m d 1 None s x).
Proof.
  intros Hs Hd Pw Lw Hx w.
  assert (Lww : length w = (d * m)%nat).
  { unfold w. clear -Lw. induction d; cbn [repeat concat]; [reflexivity|]. rewrite app_length, IHd. lia. }
  assert (Hval : forall M, rows_ok d m M ->
            @leaf_val R _ _ (FGroupBall m d true) w (concat M) = if forallb (fun a => Rleb a 1) (cn m M) then Some 0 else None).
  { intros M RM. cbn [leaf_val]. unfold pw_normsq. rewrite (chunks_concat m d M RM). reflexivity. }
  destruct (chunks_rows m d x Hx) as [RX CX]. set (X := chunks m d x) in *.
  assert (Ldl : length (cdelta m X) = m) by (unfold cdelta; rewrite !map_length; apply (cn_len d); assumption).
  assert (RP : rows_ok d m (crows (cdelta m X) X)) by (apply crows_rows; assumption).
  assert (Ep : @prox_cc_l1_l2 R _ _ m d 1 None s x = concat (crows (cdelta m X) X)).
  { unfold prox_cc_l1_l2, pw_norm, pw_normsq. fold X. fold (cn m X). numS. unfold crows. f_equal.
    apply map_ext_in. intros c _. f_equal. unfold cdelta. rewrite !map_map. apply map_ext. intros a.
    rewrite nmax_R. reflexivity. }
  destruct (groupball_vi d m wb X Pw Lw RX) as [FP VP].
  rewrite Ep. split; [apply (concat_len d m); assumption|].
  exists 0. split.
  - rewrite Hval by assumption. apply forallb_le1 in FP. rewrite FP. reflexivity.
  - intros z Hz. destruct (chunks_rows m d z Hz) as [RZ CZ]. set (Z := chunks m d z) in *.
    rewrite <- CZ, Hval by assumption.
    destruct (forallb (fun a => Rleb a 1) (cn m Z)) eqn:EZ; cbn [ele]; [|exact I].
    apply forallb_le1 in EZ.
    rewrite (metric_scalar_dot (d * m)) by (auto using concat_len, repeat_length with vlen; try lra;
                                          rewrite ?(vsub_concat d m) by assumption; apply (concat_len d m), msub_rows; assumption).
    rewrite <- CX at 1. rewrite !(vsub_concat d m) by assumption. unfold w.
    rewrite (wdot_concat d m wb Lw) by (apply msub_rows; assumption).
    specialize (VP Z RZ EZ). assert (Hi : 0 < / s) by (apply Rinv_0_lt_compat; assumption). unfold Rdiv. nra.
Qed.

