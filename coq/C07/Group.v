(* C07/Group.v -- vector fields X^d (flat layout: d blocks of m entries): GroupL1Norm with pointwise 2-norm and
   proximal_l1_l2 (block soft threshold at every point), by induction over the points on the matrix view. *)
From Coq Require Import ZArith QArith Reals Lra Lia List Bool Psatz.
From Verif Require Import Base.Num Base.Vec Base.VecR C07.Model C07.Convex C07.Leaves C07.LeafThms C07.Rules C07.L2 C07.Compose.
Import ListNotations.
Local Open Scope R_scope.

(* ---------------- one point of a vector field: block soft threshold in R^d, unweighted ---------------- *)
Definition bst (s : R) (xh : Rvec) : Rvec :=
  let delta := Rmax (sqrt (dot xh xh) / (s * 1)) 1 in map (fun a => a - a / delta) xh.

Lemma allpos_ones d : allpos (repeat 1 d).
Proof. induction d; cbn; constructor; auto; lra. Qed.
Lemma wnormsq_ones d : forall v : Rvec, length v = d -> wnormsq (repeat 1 d) v = dot v v.
Proof. intros v Hv. unfold wnormsq. rewrite (wdot_repeat d) by assumption. ring. Qed.

Lemma bst_vi d s (xh zh : Rvec) : 0 < s -> length xh = d -> length zh = d ->
  sqrt (dot (bst s xh) (bst s xh)) + / s * dot (vsub zh (bst s xh)) (vsub xh (bst s xh)) <= sqrt (dot zh zh).
Proof.
  intros Hs Hx Hz.
  pose proof (l2_factory_prox 1 d (repeat 0 d) (repeat 1 d) s xh ltac:(lra) Hs
                (repeat_length _ _) (repeat_length _ _) Hx (allpos_ones d)) as (Lp & vp & Hv & Ho).
  (* the model's prox_l2 with g = 0, w = 1 is bst *)
  assert (E : @prox_l2 R _ _ (repeat 1 d) 1 (Some (repeat 0 d)) s xh = bst s xh).
  { unfold prox_l2, gsub, wnorm, bst. numS. rewrite (vsub_zero_r d) by assumption.
    rewrite (wnormsq_ones d) by assumption. set (nx := sqrt (dot xh xh)).
    assert (Hn0 : 0 <= nx) by apply sqrt_pos.
    destruct (Rltb_spec 0 nx) as [H0|H0].
    - destruct (Rltb_spec (s * 1 / nx) 1) as [H1|H1].
      + (* shrink: delta = nx / s > 1 *)
        assert (Hd : Rmax (nx / (s * 1)) 1 = nx / (s * 1)).
        { apply Rmax_left. apply (Rmult_le_reg_r (s * 1 / nx)); [apply Rdiv_lt_0_compat; lra|].
          replace (nx / (s * 1) * (s * 1 / nx)) with 1 by (field; lra). lra. }
        rewrite Hd, (vlin_zero_r d) by assumption. unfold vscal. apply map_ext. intros a. numR. field. lra.
      + assert (Hd : Rmax (nx / (s * 1)) 1 = 1).
        { apply Rmax_right. apply (Rmult_le_reg_r (s * 1)); [lra|]. unfold Rdiv. rewrite Rmult_assoc, Rinv_l by lra.
          apply Rnot_lt_le in H1. apply (Rmult_le_compat_r nx) in H1; [|lra]. unfold Rdiv in H1.
          rewrite Rmult_assoc, Rinv_l in H1 by lra. lra. }
        rewrite Hd. rewrite <- (map_zero_repeat d xh Hx). apply map_ext. intros a. field.
    - assert (nx = 0) by lra. rewrite H. unfold Rdiv. rewrite Rmult_0_l, Rmax_right by lra.
      rewrite <- (map_zero_repeat d xh Hx). apply map_ext. intros a. field. }
  rewrite E in *. specialize (Ho zh Hz). unfold F_l2 in *. injection Hv as <-.
  cbn [ele] in Ho. rewrite !(vsub_zero_r d) in Ho by assumption.
  rewrite !(wnormsq_ones d) in Ho by assumption.
  rewrite (metric_scalar_dot d) in Ho by (auto using repeat_length with vlen; lra).
  rewrite (wdot_repeat d) in Ho by auto with vlen. unfold Rdiv in Ho. lra.
Qed.

(* ---------------- vector fields as matrices: d rows (components), m columns (points) ---------------- *)
Definition heads (M : list Rvec) : Rvec := map (fun r => hd 0 r) M.
Definition tails (M : list Rvec) : list Rvec := map (@tl R) M.
Definition cn (m : nat) (M : list Rvec) : Rvec :=
  fold_right (fun c acc => vmap2 (fun a b => a * a + b) c acc) (repeat 0 m) M.
Fixpoint mdot (wb : Rvec) (U V : list Rvec) : R :=
  match U, V with
  | u :: U', v :: V' => wdot wb u v + mdot wb U' V'
  | _, _ => 0
  end.
Fixpoint msub (U V : list Rvec) : list Rvec :=
  match U, V with
  | u :: U', v :: V' => vsub u v :: msub U' V'
  | _, _ => []
  end.
Definition prows (delta : Rvec) (X : list Rvec) : list Rvec := map (fun c => vsub c (vdiv c delta)) X.
Definition gval (m : nat) (wb : Rvec) (M : list Rvec) : R := sumf (vmul wb (map sqrt (cn m M))).
Definition gdelta (m : nat) (s : R) (X : list Rvec) : Rvec :=
  map (fun a => Rmax (a / (s * 1)) 1) (map sqrt (cn m X)).

Lemma rows_tails d m M : rows_ok d (S m) M -> rows_ok d m (tails M).
Proof.
  intros [Hl Hr]. split; [unfold tails; rewrite map_length; assumption|].
  unfold tails. clear Hl. induction Hr as [|r M Hr HM IH]; cbn [map]; constructor; auto.
  destruct r; cbn [length tl] in *; lia.
Qed.
Lemma heads_len d m M : rows_ok d m M -> length (heads M) = d.
Proof. intros [Hl _]. unfold heads. rewrite map_length. assumption. Qed.

Lemma cn_peel d m M : rows_ok d (S m) M -> cn (S m) M = dot (heads M) (heads M) :: cn m (tails M).
Proof.
  intros [Hl Hr]. clear Hl. induction Hr as [|r M Hr HM IH]; cbn [cn fold_right heads tails map].
  - cbn [repeat]. f_equal.
  - fold (cn (S m) M) (cn m (tails M)) (heads M). rewrite IH. destruct r as [|c0 c']; [cbn in Hr; lia|].
    cbn [vmap2 hd tl]. rewrite dot_cons. reflexivity.
Qed.

Lemma mdot_peel d m w0 wb : forall U V, rows_ok d (S m) U -> rows_ok d (S m) V ->
  mdot (w0 :: wb) U V = w0 * dot (heads U) (heads V) + mdot wb (tails U) (tails V).
Proof.
  induction d as [|d IHd]; intros [|u U] [|v V] [LU RU] [LV RV]; cbn [length] in *; try lia.
  - cbn. lra.
  - inversion RU as [|? ? Hu RU']; inversion RV as [|? ? Hv RV']; subst.
    cbn [mdot heads tails map]. fold (heads U) (heads V) (tails U) (tails V).
    rewrite (IHd U V) by (split; auto; lia).
    destruct u as [|a u]; [cbn in Hu; lia|]. destruct v as [|b v]; [cbn in Hv; lia|].
    cbn [hd tl]. rewrite wdot_cons', dot_cons. ring.
Qed.
Lemma mdot_nil_w : forall U V, mdot [] U V = 0.
Proof. induction U as [|u U IH]; intros [|v V]; cbn [mdot]; try reflexivity. rewrite IH, wdot_nil_l. ring. Qed.

Lemma msub_rows d m : forall U V, rows_ok d m U -> rows_ok d m V -> rows_ok d m (msub U V).
Proof.
  induction d as [|d IHd]; intros [|u U] [|v V] [LU RU] [LV RV]; cbn [length] in *; try lia.
  - split; [reflexivity|constructor].
  - inversion RU; inversion RV; subst. destruct (IHd U V) as [L R]; try (split; auto; lia).
    split; [cbn [msub length]; lia|]. cbn [msub]. constructor; auto with vlen.
Qed.
Lemma msub_heads d m : forall U V, rows_ok d (S m) U -> rows_ok d (S m) V ->
  heads (msub U V) = vsub (heads U) (heads V) /\ tails (msub U V) = msub (tails U) (tails V).
Proof.
  induction d as [|d IHd]; intros [|u U] [|v V] [LU RU] [LV RV]; cbn [length] in *; try lia.
  - split; reflexivity.
  - inversion RU as [|? ? Hu RU']; inversion RV as [|? ? Hv RV']; subst.
    destruct (IHd U V) as [E1 E2]; try (split; auto; lia).
    destruct u as [|a u]; [cbn in Hu; lia|]. destruct v as [|b v]; [cbn in Hv; lia|].
    cbn [msub heads tails map hd tl]. fold (heads (msub U V)) (tails (msub U V)) (heads U) (heads V) (tails U) (tails V).
    rewrite E1, E2. unfv. cbn [vmap2]. split; reflexivity.
Qed.

Lemma prows_rows d m delta X : rows_ok d m X -> length delta = m -> rows_ok d m (prows delta X).
Proof.
  intros [L R] Hd. split; [unfold prows; rewrite map_length; assumption|].
  unfold prows. clear L. induction R; cbn [map]; constructor; auto.
  apply vsub_len; [assumption|apply vdiv_len; assumption].
Qed.
Lemma prows_peel d m d0 delta X : rows_ok d (S m) X ->
  heads (prows (d0 :: delta) X) = map (fun a => a - a / d0) (heads X) /\
  tails (prows (d0 :: delta) X) = prows delta (tails X).
Proof.
  intros [L R]. clear L. induction R as [|r X Hr HX IH]; [split; reflexivity|].
  destruct IH as [E1 E2]. destruct r as [|a r]; [cbn in Hr; lia|].
  unfold prows, heads, tails in *. cbn [map]. rewrite E1, E2. unfv. cbn [vmap2 hd tl]. split; reflexivity.
Qed.

Lemma cn_len d m M : rows_ok d m M -> length (cn m M) = m.
Proof.
  intros [L R]. clear L. induction R as [|r M Hr HM IH]; cbn [cn fold_right].
  - apply repeat_length.
  - fold (cn m M). apply vmap2_len; assumption.
Qed.

(* the variational inequality for the whole field, by induction over the points *)
Theorem group_vi s d : 0 < s -> forall m (wb : Rvec) (X Z : list Rvec), allpos wb -> length wb = m ->
  rows_ok d m X -> rows_ok d m Z ->
  let P := prows (gdelta m s X) X in
  gval m wb P + / s * mdot wb (msub Z P) (msub X P) <= gval m wb Z.
Proof.
  intros Hs. induction m as [|m IHm]; intros wb X Z Pw Lw RX RZ P.
  - destruct wb; [|discriminate]. unfold gval. cbn [vmul vmap2 sumf]. rewrite mdot_nil_w. numR. lra.
  - destruct wb as [|w0 wb]; [discriminate|]. inversion Pw as [|? ? Hw0 Pw']; subst. cbn [length] in Lw.
    assert (Ld : length (gdelta (S m) s X) = S m) by (unfold gdelta; rewrite !map_length; apply (cn_len d); assumption).
    assert (RP : rows_ok d (S m) P) by (apply prows_rows; assumption).
    (* peel the first point *)
    assert (Ed : gdelta (S m) s X = Rmax (sqrt (dot (heads X) (heads X)) / (s * 1)) 1 :: gdelta m s (tails X)).
    { unfold gdelta. rewrite (cn_peel d) by assumption. reflexivity. }
    unfold P in *. rewrite Ed in *.
    destruct (prows_peel d m (Rmax (sqrt (dot (heads X) (heads X)) / (s * 1)) 1) (gdelta m s (tails X)) X RX) as [HP TP].
    set (P' := prows (Rmax (sqrt (dot (heads X) (heads X)) / (s * 1)) 1 :: gdelta m s (tails X)) X) in *.
    assert (HPb : heads P' = bst s (heads X)) by (rewrite HP; reflexivity).
    pose proof (rows_tails d m X RX) as RtX. pose proof (rows_tails d m Z RZ) as RtZ.
    specialize (IHm wb (tails X) (tails Z) Pw' ltac:(lia) RtX RtZ). cbv zeta in IHm. rewrite <- TP in IHm.
    unfold gval in *. rewrite (cn_peel d m P'), (cn_peel d m Z) by assumption.
    cbn [map]. unfv. cbn [vmap2 sumf].
    rewrite (mdot_peel d m) by (apply msub_rows; assumption).
    destruct (msub_heads d m Z P' RZ RP) as [E1 E2]. destruct (msub_heads d m X P' RX RP) as [E3 E4].
    rewrite E1, E2, E3, E4, HPb.
    pose proof (bst_vi d s (heads X) (heads Z) Hs (heads_len d _ X RX) (heads_len d _ Z RZ)) as B.
    numR.
    assert (w0 * (sqrt (dot (bst s (heads X)) (bst s (heads X))) +
                  / s * dot (vsub (heads Z) (bst s (heads X))) (vsub (heads X) (bst s (heads X))))
            <= w0 * sqrt (dot (heads Z) (heads Z))) by (apply Rmult_le_compat_l; lra).
    lra.
Qed.

(* ---------------- flat layout <-> matrix ---------------- *)
Lemma chunks_rows m : forall d (x : Rvec), length x = (d * m)%nat ->
  rows_ok d m (@chunks R m d x) /\ concat (@chunks R m d x) = x.
Proof.
  induction d as [|d IHd]; intros x Hx; cbn [chunks].
  - destruct x; [|cbn in Hx; lia]. split; [split; [reflexivity|constructor]|reflexivity].
  - destruct (IHd (skipn m x)) as [[L R] C]. { rewrite skipn_length. lia. }
    split; [split|].
    + cbn [length]. lia.
    + constructor; [rewrite firstn_length; lia|assumption].
    + cbn [concat]. rewrite C. apply firstn_skipn.
Qed.
Lemma chunks_concat m : forall d (M : list Rvec), rows_ok d m M -> @chunks R m d (concat M) = M.
Proof.
  induction d as [|d IHd]; intros [|r M] [L R]; cbn [length] in *; try lia; [reflexivity|].
  pose proof (Forall_inv R) as Hr. pose proof (Forall_inv_tail R) as R'. cbn beta in Hr. cbn [concat chunks].
  rewrite firstn_app, Hr, Nat.sub_diag, firstn_all2 by lia. cbn [firstn]. rewrite app_nil_r.
  rewrite skipn_app, Hr, Nat.sub_diag, skipn_all2 by lia. cbn [skipn app].
  f_equal. apply IHd. split; auto; lia.
Qed.
Lemma concat_len d m (M : list Rvec) : rows_ok d m M -> length (concat M) = (d * m)%nat.
Proof.
  revert M. induction d as [|d IHd]; intros [|r M] [L R]; cbn [length] in *; try lia; [reflexivity|].
  pose proof (Forall_inv R) as Hr. pose proof (Forall_inv_tail R) as R'. cbn beta in Hr.
  cbn [concat]. rewrite app_length, (IHd M) by (split; auto; lia). lia.
Qed.
Lemma vsub_concat d m : forall U V, rows_ok d m U -> rows_ok d m V ->
  vsub (concat U) (concat V) = concat (msub U V).
Proof.
  induction d as [|d IHd]; intros [|u U] [|v V] [LU RU] [LV RV]; cbn [length] in *; try lia; [reflexivity|].
  pose proof (Forall_inv RU) as Hu. pose proof (Forall_inv_tail RU) as RU'. pose proof (Forall_inv RV) as Hv. pose proof (Forall_inv_tail RV) as RV'. cbn beta in Hu, Hv.
  cbn [concat msub]. rewrite (vsub_app m) by assumption.
  f_equal. apply IHd; split; auto; lia.
Qed.
Lemma wdot_concat d m wb : length wb = m -> forall U V, rows_ok d m U -> rows_ok d m V ->
  wdot (concat (repeat wb d)) (concat U) (concat V) = mdot wb U V.
Proof.
  intros Hw. induction d as [|d IHd]; intros [|u U] [|v V] [LU RU] [LV RV]; cbn [length] in *; try lia; [reflexivity|].
  pose proof (Forall_inv RU) as Hu. pose proof (Forall_inv_tail RU) as RU'. pose proof (Forall_inv RV) as Hv. pose proof (Forall_inv_tail RV) as RV'. cbn beta in Hu, Hv.
  cbn [repeat concat mdot]. rewrite (wdot_app m) by auto.
  f_equal. apply IHd; split; auto; lia.
Qed.
Lemma prows_concat d m delta : forall X, rows_ok d m X -> length delta = m ->
  vsub (concat X) (concat (map (fun c => vdiv c delta) X)) = concat (prows delta X).
Proof.
  intros X [L R] Hd. clear L. induction R as [|r X Hr HX IH]; [reflexivity|].
  cbn [map concat prows]. rewrite (vsub_app m) by auto with vlen. f_equal. exact IH.
Qed.

(* ---------------- GroupL1Norm(X^d, exponent 2): proximal_l1_l2 ---------------- *)
Theorem groupl1_leaf_prox m d (wb x : Rvec) s : 0 < s -> (1 <= d)%nat -> allpos wb -> length wb = m ->
  length x = (d * m)%nat ->
  let w := concat (repeat wb d) in
  is_proxs (d * m) (@leaf_val R _ _ (FGroupL1 m d true) w) (metric w (repeat s (d * m))) x
           (@prox_l1_l2 R _ _ m d 1 None s x).
Proof.
  intros Hs Hd Pw Lw Hx w.
  assert (Lww : length w = (d * m)%nat).
  { unfold w. clear -Lw. induction d; cbn [repeat concat]; [reflexivity|]. rewrite app_length, IHd. lia. }
  assert (Hfw : firstn m w = wb).
  { unfold w. destruct d; [lia|]. cbn [repeat concat]. rewrite firstn_app, Lw, Nat.sub_diag, firstn_all2 by lia.
    cbn [firstn]. apply app_nil_r. }
  assert (Hval : forall M, rows_ok d m M -> @leaf_val R _ _ (FGroupL1 m d true) w (concat M) = Some (gval m wb M)).
  { intros M RM. cbn [leaf_val]. unfold pw_norm, pw_normsq. rewrite (chunks_concat m d M RM), Hfw. reflexivity. }
  destruct (chunks_rows m d x Hx) as [RX CX]. set (X := chunks m d x) in *.
  assert (Ldl : length (gdelta m s X) = m) by (unfold gdelta; rewrite !map_length; apply (cn_len d); assumption).
  assert (RP : rows_ok d m (prows (gdelta m s X) X)) by (apply prows_rows; assumption).
  assert (Ep : @prox_l1_l2 R _ _ m d 1 None s x = concat (prows (gdelta m s X) X)).
  { unfold prox_l1_l2, gsub, pw_norm, pw_normsq. fold X. fold (cn m X). numS.
    rewrite <- (prows_concat d m) by assumption. rewrite CX. f_equal. f_equal.
    apply map_ext_in. intros c _. f_equal. unfold gdelta. rewrite !map_map. apply map_ext. intros a.
    rewrite nmax_R. reflexivity. }
  rewrite Ep. split; [apply (concat_len d m); assumption|].
  exists (gval m wb (prows (gdelta m s X) X)). split; [apply Hval; assumption|].
  intros z Hz. destruct (chunks_rows m d z Hz) as [RZ CZ]. set (Z := chunks m d z) in *.
  rewrite <- CZ, Hval by assumption. cbn [ele].
  rewrite (metric_scalar_dot (d * m)) by (auto using concat_len, repeat_length with vlen; try lra;
                                        rewrite ?(vsub_concat d m) by assumption; apply (concat_len d m), msub_rows; assumption).
  rewrite <- CX at 1. rewrite !(vsub_concat d m) by assumption. unfold w.
  rewrite (wdot_concat d m wb Lw) by (apply msub_rows; assumption).
  pose proof (group_vi s d Hs m wb X Z Pw Lw RX RZ) as V. cbv zeta in V. unfold Rdiv. lra.
Qed.

