(* C07/Sorting.v -- the sort-based projections: proj_simplex (insertion sort + running averages),
   proj_l1, and the L-infinity proximal x - proj_l1(x, sigma); full optimality on uniformly weighted
   (simplex) / unweighted (l1 ball, L-infinity) spaces, all sizes. *)
From Coq Require Import ZArith QArith Reals Lra Lia List Bool Psatz.
From Verif Require Import Base.Num Base.Vec Base.VecR C07.Model C07.Convex C07.Leaves C07.LeafThms C07.Rules C07.L2 C07.Compose.
Import ListNotations.
Local Open Scope R_scope.

(* ---------------- sorting ---------------- *)
Fixpoint desc (l : Rvec) : Prop :=
  match l with [] => True | a :: l' => Forall (fun b => b <= a) l' /\ desc l' end.

Lemma insert_desc_R a (l : Rvec) :
  @insert_desc R _ a l = match l with
                         | [] => [a]
                         | b :: l' => if Rleb b a then a :: l else b :: @insert_desc R _ a l'
                         end.
Proof. destruct l; reflexivity. Qed.

Lemma insert_Forall (P : R -> Prop) a (l : Rvec) : P a -> Forall P l -> Forall P (@insert_desc R _ a l).
Proof.
  intros Ha Hl. induction Hl as [|b l Hb Hl IH]; cbn [insert_desc]; numR.
  - constructor; auto.
  - destruct (Rleb b a); repeat constructor; auto.
Qed.

Lemma insert_desc_sorted a (l : Rvec) : desc l -> desc (@insert_desc R _ a l).
Proof.
  induction l as [|b l IH]; cbn [insert_desc desc]; numR; intros H.
  - split; constructor.
  - destruct H as [Hb Hl]. destruct (Rleb_spec b a) as [Hba|Hba]; cbn [desc].
    + split; [|split; assumption]. constructor; [assumption|].
      eapply Forall_impl; [|exact Hb]. cbn. intros c Hc. lra.
    + split; [|apply IH; assumption]. apply insert_Forall; [lra|assumption].
Qed.
Lemma sort_desc_sorted (l : Rvec) : desc (@sort_desc R _ l).
Proof. induction l as [|a l IH]; cbn [sort_desc fold_right]; [exact I|]. apply insert_desc_sorted. exact IH. Qed.

Lemma insert_sum (f : R -> R) a (l : Rvec) : sumf (map f (@insert_desc R _ a l)) = f a + sumf (map f l).
Proof.
  induction l as [|b l IH]; cbn [insert_desc map sumf]; numR; [reflexivity|].
  destruct (Rleb b a); cbn [map sumf]; numR; [reflexivity|]. rewrite IH. ring.
Qed.
Lemma sort_sum (f : R -> R) (l : Rvec) : sumf (map f (@sort_desc R _ l)) = sumf (map f l).
Proof.
  induction l as [|a l IH]; cbn [sort_desc fold_right map sumf]; [reflexivity|].
  fold (@sort_desc R _ l). rewrite insert_sum, IH. numR. reflexivity.
Qed.
Lemma insert_nonnil a (l : Rvec) : @insert_desc R _ a l <> [].
Proof. destruct l as [|b l]; cbn [insert_desc]; [discriminate|]. destruct (b <=? a)%num; discriminate. Qed.
Lemma sort_nonnil (l : Rvec) : l <> [] -> @sort_desc R _ l <> [].
Proof. destruct l; [congruence|]. intros _. cbn [sort_desc fold_right]. apply insert_nonnil. Qed.

(* ---------------- the threshold found by the scan ---------------- *)
Definition gsum (tau : R) (l : Rvec) : R := sumf (map (fun a => Rmax (a - tau) 0) l).

Definition good (d tau : R) (L : Rvec) : Prop :=
  exists L1 L2, L = L1 ++ L2 /\ L1 <> [] /\ tau * INR (length L1) = sumf L1 - d /\
                Forall (fun b => tau <= b) L1 /\ Forall (fun b => b <= tau) L2.

Lemma sumf_app' (x y : Rvec) : sumf (x ++ y) = sumf x + sumf y.
Proof. apply sumf_app. Qed.

Lemma gsum_ge tau (l : Rvec) : Forall (fun b => tau <= b) l -> gsum tau l = sumf l - tau * INR (length l).
Proof.
  induction 1 as [|b l Hb Hl IH]; unfold gsum in *; cbn [map sumf length]; numR; [cbn; lra|].
  rewrite IH, S_INR, Rmax_left by lra. ring.
Qed.
Lemma gsum_le tau (l : Rvec) : Forall (fun b => b <= tau) l -> gsum tau l = 0.
Proof.
  induction 1 as [|b l Hb Hl IH]; unfold gsum in *; cbn [map sumf]; numR; [reflexivity|].
  rewrite IH, Rmax_right by lra. ring.
Qed.
Lemma good_gsum d tau L : good d tau L -> gsum tau L = d.
Proof.
  intros (L1 & L2 & -> & _ & Ht & H1 & H2). unfold gsum. rewrite map_app, sumf_app'.
  fold (gsum tau L1) (gsum tau L2). rewrite (gsum_ge _ _ H1), (gsum_le _ _ H2). lra.
Qed.

Lemma desc_app_elim (P : Rvec) a (xs : Rvec) : desc (P ++ a :: xs) -> Forall (fun b => a <= b) P.
Proof.
  induction P as [|b P IH]; cbn [app desc]; intros H; [constructor|].
  destruct H as [Hb Hd]. constructor; [|apply IH; assumption].
  rewrite Forall_forall in Hb. apply Hb. apply in_or_app. right. left. reflexivity.
Qed.

Lemma scan_ok d : 0 <= d -> forall (xs P : Rvec) (j : Z) (csum : R) (best : option R),
  desc (P ++ xs) -> IZR j = INR (length P) + 1 -> csum = sumf P ->
  ((P = [] /\ best = None) \/ (exists tau, best = Some tau /\ good d tau P)) ->
  (xs <> [] \/ P <> []) ->
  exists tau, @simplex_tau R _ d xs j csum best = Some tau /\ good d tau (P ++ xs).
Proof.
  intros Hd. induction xs as [|a xs IH]; intros P j csum best Hdesc Hj Hc Hbest Hne.
  - cbn [simplex_tau]. rewrite app_nil_r. destruct Hbest as [[-> _]|(tau & -> & G)].
    + destruct Hne; congruence.
    + exists tau. split; [reflexivity|assumption].
  - cbn [simplex_tau]. numR.
    set (csum' := csum + a). set (avg := (csum' - d) / IZR j).
    assert (Hjpos : 0 < IZR j) by (rewrite Hj; pose proof (pos_INR (length P)); lra).
    pose proof (desc_app_elim P a xs Hdesc) as HaP.
    replace (P ++ a :: xs) with ((P ++ [a]) ++ xs) in * by (rewrite <- app_assoc; reflexivity).
    apply IH; clear IH.
    + assumption.
    + rewrite app_length, plus_IZR, Hj. cbn [length]. rewrite Nat.add_1_r, S_INR. ring.
    + unfold csum'. rewrite sumf_app', Hc. cbn [sumf]. numR. ring.
    + right. destruct (Rleb_spec 0 (a - avg)) as [Hcrit|Hcrit].
      * (* new threshold: the whole processed prefix is above it *)
        exists avg. split; [reflexivity|]. exists (P ++ [a]), []. rewrite app_nil_r.
        split; [reflexivity|]. split; [destruct P; discriminate|]. split; [|split; [|constructor]].
        -- rewrite app_length. cbn [length]. rewrite Nat.add_1_r, S_INR, <- Hj.
           unfold avg, csum'. rewrite sumf_app', Hc. cbn [sumf]. numR. field. lra.
        -- apply Forall_app. split; [|constructor; [lra|constructor]].
           eapply Forall_impl; [|exact HaP]. cbn. intros b Hb. lra.
      * (* keep the previous threshold; a is below it *)
        apply Rnot_le_lt in Hcrit.
        destruct Hbest as [[-> ->]|(tau & -> & (L1 & L2 & EP & N1 & Ht & H1 & H2))].
        -- (* first element always qualifies: a - (a - d)/1 = d >= 0 *)
           exfalso. cbn [length] in Hj. cbn [INR] in Hj. unfold avg, csum' in Hcrit. rewrite Hc in Hcrit.
           cbn [sumf] in Hcrit. numR. rewrite Hj in Hcrit.
           replace (a - (0 + a - d) / (0 + 1)) with d in Hcrit by (field). lra.
        -- exists tau. split; [reflexivity|]. exists L1, (L2 ++ [a]).
           split; [rewrite EP, app_assoc; reflexivity|]. split; [assumption|]. split; [assumption|]. split; [assumption|].
           apply Forall_app. split; [assumption|]. constructor; [|constructor].
           destruct L2 as [|b L2].
           ++ (* a directly follows L1: a < (|L1| tau + a)/(|L1|+1)  ==>  a < tau *)
              rewrite app_nil_r in EP. subst P.
              unfold avg, csum' in Hcrit. rewrite Hc, Hj in Hcrit.
              assert (Hn : 0 < INR (length L1)).
              { destruct L1; [congruence|]. cbn [length]. rewrite S_INR. pose proof (pos_INR (length L1)). lra. }
              set (N := INR (length L1)) in *.
              assert (Hs : sumf L1 = tau * N + d) by lra. rewrite Hs in Hcrit.
              set (Y := (tau * N + d + a - d) / (N + 1)) in *.
              assert (HY : Y * (N + 1) = tau * N + d + a - d) by (unfold Y; field; lra).
              assert (a * (N + 1) < tau * N + d + a - d) by nra.
              nra.
           ++ (* a is below an element that is already below tau *)
              subst P. rewrite Forall_forall in HaP. specialize (HaP b ltac:(apply in_or_app; right; left; reflexivity)).
              inversion H2; subst. lra.
    + right. destruct P; discriminate.
Qed.

Definition pos_part (tau : R) (x : Rvec) : Rvec := map (fun a => Rmax (a - tau) 0) x.

Theorem proj_simplex_spec d (x : Rvec) : 0 <= d -> x <> [] ->
  exists tau, @proj_simplex R _ d x = Ok (pos_part tau x) /\ gsum tau x = d.
Proof.
  intros Hd Hx.
  destruct (scan_ok d Hd (@sort_desc R _ x) [] 1%Z 0 None) as (tau & Et & G).
  - cbn [app]. apply sort_desc_sorted.
  - cbn. lra.
  - reflexivity.
  - left. split; reflexivity.
  - left. apply sort_nonnil. assumption.
  - exists tau. split.
    + unfold proj_simplex. numR. rewrite Et. f_equal. unfold pos_part. apply map_ext. intros a. rewrite nmax_R. reflexivity.
    + cbn [app] in G. apply good_gsum in G. unfold gsum in *. rewrite sort_sum in G. exact G.
Qed.

Lemma pos_part_len tau (x : Rvec) : length (pos_part tau x) = length x.
Proof. apply map_length. Qed.
Lemma pos_part_nonneg tau (x : Rvec) : forallb (Rleb 0) (pos_part tau x) = true.
Proof.
  induction x as [|a x IH]; cbn [pos_part map forallb]; [reflexivity|]. fold (pos_part tau x). rewrite IH.
  destruct (Rleb_spec 0 (Rmax (a - tau) 0)) as [|N]; [reflexivity|]. exfalso. apply N. apply Rmax_r.
Qed.

(* the KKT inequality behind the projection *)
Lemma simplex_vi tau n : forall x z : Rvec, length x = n -> length z = n -> Forall (fun b => 0 <= b) z ->
  dot (vsub z (pos_part tau x)) (vsub x (pos_part tau x)) <= tau * (sumf z - sumf (pos_part tau x)).
Proof.
  induction n as [|n IHn]; intros [|a x] [|b z] Hx Hz Pz; cbn [length] in *; try lia.
  - cbv. lra.
  - inversion Pz as [|? ? Hb Pz']; subst. specialize (IHn x z ltac:(lia) ltac:(lia) Pz').
    unfold pos_part in *. cbn [map]. unfv. cbn [vmap2]. rewrite dot_cons. cbn [sumf]. numR.
    assert (T : (b - Rmax (a - tau) 0) * (a - Rmax (a - tau) 0) <= tau * (b - Rmax (a - tau) 0)).
    { unfold Rmax. destruct (Rle_dec (a - tau) 0); nra. }
    lra.
Qed.

Lemma forallb_Forall_nonneg (z : Rvec) : forallb (Rleb 0) z = true -> Forall (fun b => 0 <= b) z.
Proof.
  induction z as [|b z IH]; cbn [forallb]; intros H; constructor.
  - destruct (Rleb_spec 0 b); [assumption|discriminate].
  - apply IH. destruct (Rleb 0 b); [assumption|discriminate].
Qed.

Theorem simplex_leaf_prox n d k (w x : Rvec) : 0 <= d -> 0 < k -> length x = n -> (1 <= n)%nat ->
  exists p, @proj_simplex R _ d x = Ok p /\
            is_proxs n (@leaf_val R _ _ (FSimplex d) w) (repeat k n) x p.
Proof.
  intros Hd Hk Hx Hn.
  assert (Hne : x <> []) by (destruct x; [cbn in Hx; lia|discriminate]).
  destruct (proj_simplex_spec d x Hd Hne) as (tau & Ep & G).
  exists (pos_part tau x). split; [assumption|].
  assert (Lp : length (pos_part tau x) = n) by (rewrite pos_part_len; assumption).
  assert (Sp : sumf (pos_part tau x) = d) by exact G.
  split; [assumption|]. exists 0. split.
  - cbn [leaf_val]. numR. rewrite Sp, pos_part_nonneg.
    destruct (Reqb_spec d d); [reflexivity|congruence].
  - intros z Hz. cbn [leaf_val]. numR.
    destruct (Reqb_spec (sumf z) d) as [Ez|]; cbn [andb ind]; [|exact I].
    destruct (forallb (Rleb 0) z) eqn:Ef; cbn [ele]; [|exact I]. numR.
    rewrite (wdot_repeat n) by auto with vlen.
    pose proof (simplex_vi tau n x z Hx Hz (forallb_Forall_nonneg z Ef)) as V.
    rewrite Ez, Sp in V. replace (tau * (d - d)) with 0 in V by ring. unfold ind. numR. nra.
Qed.

Definition sgn (a : R) : R := @nsign R _ a.
Lemma sgn_cases a : (0 < a /\ sgn a = 1 /\ Rabs a = a) \/ (a < 0 /\ sgn a = -1 /\ Rabs a = - a) \/ (a = 0 /\ sgn a = 0 /\ Rabs a = 0).
Proof.
  unfold sgn, nsign. numR. destruct (Rltb_spec 0 a) as [P|P].
  - left. repeat split; auto. apply Rabs_right; lra.
  - destruct (Rltb_spec a 0) as [Q|Q].
    + right; left. repeat split; auto. apply Rabs_left; lra.
    + right; right. assert (a = 0) by lra. subst. rewrite Rabs_R0. auto.
Qed.

(* per-entry facts of  p = max(|a| - tau, 0) * sign a  *)
Lemma l1_entry tau a z : 0 <= tau ->
  let pi := Rmax (Rabs a - tau) 0 in let p := pi * sgn a in
  Rabs p = pi /\ (z - p) * (a - p) <= tau * (Rabs z - pi) /\
  Rabs (a - p) <= tau /\ p * (a - p) = tau * pi.
Proof.
  intros Ht pi p. unfold p, pi.
  pose proof (Rabs_pos z) as Hz. pose proof (Rle_abs z) as Hz1. pose proof (Rle_abs (- z)) as Hz2. rewrite Rabs_Ropp in Hz2.
  destruct (sgn_cases a) as [(P & -> & E)|[(P & -> & E)|(P & -> & E)]]; rewrite E; unfold Rmax;
    destruct (Rle_dec _ 0) as [L|L].
  - rewrite Rmult_0_l, Rabs_R0. repeat split; try lra; try nra. rewrite Rminus_0_r, Rabs_right; lra.
  - rewrite Rmult_1_r. repeat split; try nra. + apply Rabs_right; lra. + replace (a - (a - tau)) with tau by ring. rewrite Rabs_right; lra.
  - rewrite Rmult_0_l, Rabs_R0. repeat split; try lra; try nra. rewrite Rminus_0_r, Rabs_left; lra.
  - repeat split; try nra. + replace ((- a - tau) * -1) with (a + tau) by ring. rewrite Rabs_left; lra.
    + replace (a - (- a - tau) * -1) with (- tau) by ring. rewrite Rabs_Ropp, Rabs_right; lra.
  - rewrite Rmult_0_l, Rabs_R0. subst a. repeat split; try lra; try nra. rewrite Rminus_0_r, Rabs_R0. lra.
  - exfalso. lra.
Qed.

Definition l1p (tau : R) (x : Rvec) : Rvec := vmul (pos_part tau (map Rabs x)) (map sgn x).
Definition norm1 (x : Rvec) : R := sumf (map Rabs x).

Lemma l1p_len tau (x : Rvec) : length (l1p tau x) = length x.
Proof. unfold l1p. apply vmap2_len; [rewrite pos_part_len|]; apply map_length. Qed.

Lemma l1p_facts tau n : 0 <= tau -> forall x z : Rvec, length x = n -> length z = n ->
  norm1 (l1p tau x) = gsum tau (map Rabs x) /\
  dot (vsub z (l1p tau x)) (vsub x (l1p tau x)) <= tau * (norm1 z - gsum tau (map Rabs x)) /\
  @vmaxabs R _ (vsub x (l1p tau x)) <= tau /\
  dot (l1p tau x) (vsub x (l1p tau x)) = tau * gsum tau (map Rabs x).
Proof.
  intros Ht. induction n as [|n IHn]; intros [|a x] [|b z] Hx Hz; cbn [length] in *; try lia.
  - cbv -[Rle Rmult]. repeat split; lra.
  - destruct (IHn x z ltac:(lia) ltac:(lia)) as (I1 & I2 & I3 & I4).
    destruct (l1_entry tau a b Ht) as (E1 & E2 & E3 & E4).
    unfold l1p, norm1, gsum, pos_part in *. cbn [map]. unfv. cbn [vmap2 map sumf]. rewrite !dot_cons.
    cbn [vmaxabs fold_right]. fold (@vmaxabs R _ (vmap2 nsub x (vmap2 nmul (map (fun a0 => Rmax (a0 - tau) 0) (map Rabs x)) (map sgn x)))).
    rewrite nmax_R. numR.
    repeat split.
    + rewrite E1, I1. reflexivity.
    + lra.
    + apply Rmax_lub; assumption.
    + rewrite E4, I4. ring.
Qed.

Lemma gsum_lower tau (l : Rvec) : sumf l - tau * INR (length l) <= gsum tau l.
Proof.
  induction l as [|a l IH]; unfold gsum in *; cbn [map sumf length]; numR; [cbn; lra|].
  rewrite S_INR. pose proof (Rmax_l (a - tau) 0). lra.
Qed.

(* proj_l1: outside the ball the result is l1p tau x with a threshold tau >= 0 whose positive parts sum to r *)
Theorem proj_l1_spec r (x : Rvec) : 0 <= r -> x <> [] ->
  (norm1 x <= r /\ @proj_l1 R _ r x = Ok x) \/
  (r < norm1 x /\ exists tau, 0 <= tau /\ gsum tau (map Rabs x) = r /\ @proj_l1 R _ r x = Ok (l1p tau x)).
Proof.
  intros Hr Hx. unfold proj_l1. numR. fold (norm1 x).
  destruct (Rleb_spec (norm1 x) r) as [H|H]; [left; split; [assumption|reflexivity]|].
  right. apply Rnot_le_lt in H. split; [assumption|].
  assert (Hne : map Rabs x <> []) by (destruct x; [congruence|discriminate]).
  destruct (proj_simplex_spec r (map Rabs x) Hr Hne) as (tau & Ep & G).
  exists tau. assert (Ht : 0 <= tau).
  { destruct (Rle_dec 0 tau) as [|N]; [assumption|]. exfalso. apply Rnot_le_lt in N.
    pose proof (gsum_lower tau (map Rabs x)) as L. fold (norm1 x) in L.
    pose proof (pos_INR (length (map Rabs x))). nra. }
  split; [assumption|]. split; [assumption|].
  rewrite Ep. cbn [rmap]. unfold l1p, sgn. reflexivity.
Qed.

Lemma wsum1_ones n : forall z : Rvec, length z = n -> @wsum1 R _ (repeat 1 n) z = norm1 z.
Proof.
  induction n as [|n IHn]; intros [|a z] Hz; cbn [length] in *; try lia; [reflexivity|].
  unfold wsum1, norm1 in *. cbn [repeat map]. unfv. cbn [vmap2 sumf]. rewrite IHn by lia. numR. ring.
Qed.
Lemma dot_zero_l n : forall x : Rvec, length x = n -> dot (repeat 0 n) x = 0.
Proof. intros. rewrite dot_comm. apply dot_zero_r; assumption. Qed.
Lemma vmaxabs_zero n : @vmaxabs R _ (repeat 0 n) = 0.
Proof.
  induction n as [|n IHn]; cbn [repeat vmaxabs fold_right]; [reflexivity|].
  fold (@vmaxabs R _ (repeat 0 n)). rewrite nmax_R, IHn. numR. rewrite Rabs_R0. apply Rmax_left; lra.
Qed.

(* Hoelder:  <z, q> <= ||q||_1 ||z||_inf *)
Lemma holder n : forall z q : Rvec, length z = n -> length q = n -> dot z q <= norm1 q * @vmaxabs R _ z.
Proof.
  induction n as [|n IHn]; intros [|b z] [|c q] Hz Hq; cbn [length] in *; try lia.
  - cbv. lra.
  - specialize (IHn z q ltac:(lia) ltac:(lia)). rewrite dot_cons. unfold norm1 in *. cbn [map sumf].
    cbn [vmaxabs fold_right]. fold (@vmaxabs R _ z). rewrite nmax_R. numR.
    pose proof (vmaxabs_nonneg z) as M0. set (M := vmaxabs z) in *.
    pose proof (Rmax_l (Rabs b) M). pose proof (Rmax_r (Rabs b) M).
    assert (0 <= sumf (map Rabs q)).
    { clear. induction q; cbn [map sumf]; numR; [lra|]. pose proof (Rabs_pos a). lra. }
    assert (b * c <= Rabs c * Rabs b).
    { rewrite <- Rabs_mult. rewrite Rmult_comm. apply Rle_abs. }
    pose proof (Rabs_pos c). pose proof (Rabs_pos b). nra.
Qed.

(* ---------------- IndicatorLpUnitBall(1) on an unweighted space ---------------- *)
Theorem ball1_leaf_prox n k (x : Rvec) : 0 < k -> length x = n -> (1 <= n)%nat ->
  exists p, @leaf_prox R _ _ FBall1 (repeat 1 n) (SScal 1) x = Ok p /\
            is_proxs n (@leaf_val R _ _ FBall1 (repeat 1 n)) (repeat k n) x p.
Proof.
  intros Hk Hx Hn. assert (Hne : x <> []) by (destruct x; [cbn in Hx; lia|discriminate]).
  cbn [leaf_prox]. numR.
  assert (Hval : forall z, length z = n -> @leaf_val R _ _ FBall1 (repeat 1 n) z = if Rleb (norm1 z) 1 then Some 0 else None).
  { intros z Hz. cbn [leaf_val]. rewrite (wsum1_ones n) by assumption. reflexivity. }
  destruct (proj_l1_spec 1 x ltac:(lra) Hne) as [[Hin E]|[Hout (tau & Ht & G & E)]]; rewrite E; eexists; (split; [reflexivity|]).
  - split; [assumption|]. exists 0. split.
    + rewrite Hval by assumption. destruct (Rleb_spec (norm1 x) 1); [reflexivity|contradiction].
    + intros z Hz. rewrite Hval by assumption. destruct (Rleb (norm1 z) 1); cbn [ele]; [|exact I].
      rewrite (vsub_self n) by assumption. rewrite (wdot_zero_vec_r n) by auto with vlen. lra.
  - pose proof (l1p_len tau x) as Lp. rewrite Hx in Lp.
    split; [assumption|]. exists 0. split.
    + rewrite Hval by assumption. destruct (l1p_facts tau n Ht x x Hx Hx) as (N1 & _). rewrite N1, G.
      destruct (Rleb_spec 1 1); [reflexivity|lra].
    + intros z Hz. rewrite Hval by assumption. destruct (Rleb_spec (norm1 z) 1) as [Hz1|]; cbn [ele]; [|exact I].
      destruct (l1p_facts tau n Ht x z Hx Hz) as (_ & V & _). rewrite G in V.
      rewrite (wdot_repeat n) by auto with vlen.
      assert (tau * (norm1 z - 1) <= 0) by nra.
      set (D := dot (vsub z (l1p tau x)) (vsub x (l1p tau x))) in *. assert (D <= 0) by lra. nra.
Qed.

(* ---------------- LpNorm(inf) on an unweighted space:  x - proj_l1(x, sigma) ---------------- *)
Theorem linf_leaf_prox n sigma (x : Rvec) : 0 < sigma -> length x = n -> (1 <= n)%nat ->
  exists p, @leaf_prox R _ _ FLInf (repeat 1 n) (SScal sigma) x = Ok p /\
            is_proxs n (@leaf_val R _ _ FLInf (repeat 1 n)) (repeat (/ sigma) n) x p.
Proof.
  intros Hs Hx Hn. assert (Hne : x <> []) by (destruct x; [cbn in Hx; lia|discriminate]).
  cbn [leaf_prox needs_scalar]. unfold prox_linf.
  assert (Hi : 0 < / sigma) by (apply Rinv_0_lt_compat; assumption).
  destruct (proj_l1_spec sigma x ltac:(lra) Hne) as [[Hin E]|[Hout (tau & Ht & G & E)]]; rewrite E; cbn [rmap];
    eexists; (split; [reflexivity|]).
  - rewrite (vsub_self n) by assumption.
    split; [apply repeat_length|]. exists 0. split; [cbn [leaf_val]; rewrite vmaxabs_zero; reflexivity|].
    intros z Hz. cbn [leaf_val ele]. rewrite !(vsub_zero_r n) by assumption.
    rewrite (wdot_repeat n) by assumption. pose proof (holder n z x Hz Hx) as Hh.
    pose proof (vmaxabs_nonneg z).
    assert (/ sigma * dot z x <= / sigma * (sigma * vmaxabs z)) by (apply Rmult_le_compat_l; nra).
    replace (/ sigma * (sigma * vmaxabs z)) with (vmaxabs z) in H0 by (field; lra). lra.
  - pose proof (l1p_len tau x) as Lq. rewrite Hx in Lq. set (q := l1p tau x) in *.
    set (p := vsub x q). assert (Lp : length p = n) by (unfold p; auto with vlen).
    destruct (l1p_facts tau n Ht x x Hx Hx) as (N1 & _ & M & D). fold q in N1, M, D. fold p in M, D. rewrite G in *.
    split; [assumption|]. exists (vmaxabs p). split; [reflexivity|].
    intros z Hz. cbn [leaf_val ele]. unfold p at 3. rewrite (vsub_vsub_self n) by assumption.
    rewrite (wdot_repeat n) by auto with vlen.
    rewrite (dot_vsub_l n) by assumption. rewrite (dot_comm p q), D.
    pose proof (holder n z q Hz Lq) as Hh. rewrite N1 in Hh.
    assert (/ sigma * (dot z q - tau * sigma) <= / sigma * (sigma * vmaxabs z - tau * sigma)) by (apply Rmult_le_compat_l; lra).
    replace (/ sigma * (sigma * vmaxabs z - tau * sigma)) with (vmaxabs z - tau) in H by (field; lra). lra.
Qed.

