(* C07/KL.v -- Kullback-Leibler: the closed form of proximal_convex_conj_kl is the proximal point of the
   conjugate  - lam g ln(1 - t/lam), and KullbackLeibler.proximal (= proximal_convex_conj of it) is the proximal
   point of  t - g + g ln(g/t)  (weighted space, all sizes, prior g > 0). *)
From Coq Require Import ZArith QArith Reals Lra Lia List Bool Psatz.
From Verif Require Import Base.Num Base.Vec Base.VecR C07.Model C07.Convex C07.Leaves C07.LeafThms C07.Rules.
Import ListNotations.
Local Open Scope R_scope.

Lemma ln_le_sub u : 0 < u -> ln u <= u - 1.
Proof.
  intros Hu. destruct (Req_dec (ln u) 0) as [E|N].
  - assert (u = 1) by (rewrite <- (exp_ln u Hu), E, exp_0; reflexivity). subst. rewrite ln_1. lra.
  - pose proof (exp_ineq1 (ln u) N) as H. rewrite exp_ln in H by assumption. lra.
Qed.
(* - ln is convex:  ln a <= ln b + (a - b)/b *)
Lemma ln_tangent a b : 0 < a -> 0 < b -> ln a <= ln b + (a - b) / b.
Proof.
  intros Ha Hb. assert (Hab : 0 < a / b) by (apply Rdiv_lt_0_compat; assumption).
  pose proof (ln_le_sub (a / b) Hab) as H. unfold Rdiv in H at 1. rewrite ln_mult in H by (auto using Rinv_0_lt_compat).
  rewrite ln_Rinv in H by assumption. replace ((a - b) / b) with (a / b - 1) by (field; lra). lra.
Qed.

(* ---------------- convex conjugate of lam * KL(. ; g):  - lam g ln(1 - t/lam) for t < lam ---------------- *)
Definition phi_klcc (lam g : R) : R -> option R :=
  fun t => if Rltb t lam then Some (- lam * g * ln (1 - t / lam)) else None.
Definition klcc1 (lam g s x : R) : R := (x - sqrt ((x - lam) * (x - lam) + 4 * lam * s * g) + lam) / 2.

Lemma klcc1_facts lam g s x : 0 < lam -> 0 < g -> 0 < s ->
  klcc1 lam g s x < lam /\ (x - klcc1 lam g s x) * (lam - klcc1 lam g s x) = s * lam * g.
Proof.
  intros Hl Hg Hs. unfold klcc1.
  set (D := (x - lam) * (x - lam) + 4 * lam * s * g).
  assert (Hpos : 0 < 4 * lam * s * g) by (repeat apply Rmult_lt_0_compat; lra).
  assert (HD : 0 <= D) by (unfold D; pose proof (Rle_0_sqr (x - lam)) as Q; unfold Rsqr in Q; lra).
  set (r := sqrt D). assert (Hr2 : r * r = D) by (apply sqrt_sqrt; assumption).
  assert (Hr0 : 0 <= r) by apply sqrt_pos.
  assert (Hr : Rabs (x - lam) < r).
  { destruct (Rlt_dec (Rabs (x - lam)) r) as [|N]; [assumption|]. exfalso. apply Rnot_lt_le in N.
    assert (r * r <= Rabs (x - lam) * Rabs (x - lam)) by nra.
    assert (Rabs (x - lam) * Rabs (x - lam) = (x - lam) * (x - lam)).
    { unfold Rabs. destruct (Rcase_abs (x - lam)); ring. }
    unfold D in *. nra. }
  assert (Ha : x - lam <= Rabs (x - lam)) by apply Rle_abs.
  assert (Hb : - (x - lam) <= Rabs (x - lam)) by (rewrite <- Rabs_Ropp; apply Rle_abs).
  split; [lra|].
  replace ((x - (x - r + lam) / 2) * (lam - (x - r + lam) / 2)) with ((r * r - (x - lam) * (x - lam)) / 4) by field.
  rewrite Hr2. unfold D. field.
Qed.

Lemma klcc_sub lam g s x : 0 < lam -> 0 < g -> 0 < s ->
  sub1 (phi_klcc lam g) s x (klcc1 lam g s x).
Proof.
  intros Hl Hg Hs. destruct (klcc1_facts lam g s x Hl Hg Hs) as [Hp Hq]. set (p := klcc1 lam g s x) in *.
  exists (- lam * g * ln (1 - p / lam)). split.
  - unfold phi_klcc. destruct (Rltb_spec p lam); [reflexivity|contradiction].
  - intros t. unfold phi_klcc. destruct (Rltb_spec t lam) as [Ht|]; cbn [ele]; [|exact I].
    assert (Ha : 0 < 1 - t / lam) by (apply (Rmult_lt_reg_r lam); [assumption|]; unfold Rdiv; rewrite Rmult_0_l, Rmult_minus_distr_r, Rmult_assoc, Rinv_l by lra; lra).
    assert (Hb : 0 < 1 - p / lam) by (apply (Rmult_lt_reg_r lam); [assumption|]; unfold Rdiv; rewrite Rmult_0_l, Rmult_minus_distr_r, Rmult_assoc, Rinv_l by lra; lra).
    pose proof (ln_tangent _ _ Ha Hb) as T.
    assert (E : (x - p) / s * (t - p) = - lam * g * ((1 - t / lam - (1 - p / lam)) / (1 - p / lam))).
    { replace (x - p) with (s * lam * g / (lam - p)) by (rewrite <- Hq; field; lra). field. repeat split; lra. }
    rewrite E. assert (0 < lam * g) by nra. nra.
Qed.

Definition F_klcc (lam : R) (g w : Rvec) : Rvec -> option R := sepsum (map (phi_klcc lam) g) w.

Theorem klcc_factory_prox lam n : forall (g w x : Rvec) s, 0 < lam -> 0 < s -> allpos g ->
  length g = n -> length w = n -> length x = n -> allpos w ->
  is_proxs n (F_klcc lam g w) (metric w (repeat s n)) x (@prox_cc_kl R _ _ lam (Some g) s x).
Proof.
  intros g w x s Hl Hs Pg Hg Hw Hx Pw. unfold F_klcc. rewrite <- Hw.
  replace (repeat s (length w)) with (repeat s n) by (rewrite Hw; reflexivity).
  apply sep_proxs. revert g w x Pg Hg Hw Hx Pw. induction n as [|n IHn]; intros [|g0 g] [|w0 w] [|a x] Pg Hg Hw Hx Pw; cbn [length] in *; try lia.
  - constructor.
  - inv_allpos. unfold prox_cc_kl in *. cbn [repeat map vmap2]. constructor; try assumption.
    + numS. pose proof (klcc_sub lam g0 s a Hl ltac:(assumption) Hs) as Q. unfold klcc1 in Q.
      replace ((a - lam) * (a - lam) + 4 * lam * s * g0) with ((a - lam) * (a - lam) + 4 * lam * s * g0) in Q by reflexivity.
      exact Q.
    + apply IHn; auto; lia.
Qed.

(* ---------------- KullbackLeibler(prior g):  sum w (t - g + g ln(g/t)),  t > 0;
   its proximal is proximal_convex_conj(proximal_convex_conj_kl(g = prior)) ---------------- *)
Definition phi_kl (g : R) : R -> option R :=
  fun t => if Rltb 0 t then Some (t - g + g * ln (g / t)) else None.
Definition kl1 (g s x : R) : R := x - s * klcc1 1 g (1 / s) (1 / s * x).

Lemma kl_sub g s x : 0 < g -> 0 < s -> sub1 (phi_kl g) s x (kl1 g s x).
Proof.
  intros Hg Hs. assert (Hi : 0 < 1 / s) by (apply Rdiv_lt_0_compat; lra).
  destruct (klcc1_facts 1 g (1 / s) (1 / s * x) ltac:(lra) Hg Hi) as [Hq1 Hq2].
  unfold kl1. set (q := klcc1 1 g (1 / s) (1 / s * x)) in *. set (p := x - s * q).
  assert (Hpq : p * (1 - q) = g).
  { unfold p. replace ((x - s * q) * (1 - q)) with (s * ((1 / s * x - q) * (1 - q))) by (field; lra).
    rewrite Hq2. field. lra. }
  assert (Hp : 0 < p).
  { destruct (Rlt_dec 0 p) as [|N]; [assumption|]. exfalso. apply Rnot_lt_le in N. assert (0 < 1 - q) by lra. nra. }
  exists (p - g + g * ln (g / p)). split.
  - unfold phi_kl. destruct (Rltb_spec 0 p); [reflexivity|contradiction].
  - intros t. unfold phi_kl. destruct (Rltb_spec 0 t) as [Ht|]; cbn [ele]; [|exact I].
    pose proof (ln_tangent t p Ht Hp) as T.
    unfold Rdiv at 1 3. rewrite !ln_mult by (auto using Rinv_0_lt_compat). rewrite !ln_Rinv by assumption.
    replace ((x - p) / s) with q by (unfold p; field; lra).
    assert (Eq : q = 1 - g / p) by (rewrite <- Hpq; field; lra).
    rewrite Eq.
    assert (g * ((t - p) / p) = g / p * (t - p)) by (field; lra).
    assert (g * ln t <= g * (ln p + (t - p) / p)) by (apply Rmult_le_compat_l; lra).
    lra.
Qed.

Definition F_kl (g w : Rvec) : Rvec -> option R := sepsum (map phi_kl g) w.

Theorem kl_binding_prox n : forall (g w x : Rvec) s, 0 < s -> allpos g ->
  length g = n -> length w = n -> length x = n -> allpos w ->
  exists p, prox_convex_conj (T:=R) (fun s' y => needs_scalar s' (fun sg => Ok (@prox_cc_kl R _ _ 1 (Some g) sg y)))
              (SScal s) x = Ok p /\
            is_proxs n (F_kl g w) (metric w (repeat s n)) x p.
Proof.
  intros g w x s Hs Pg Hg Hw Hx Pw. eexists. split; [cbn [prox_convex_conj needs_scalar rmap]; reflexivity|].
  unfold F_kl. rewrite <- Hw. replace (repeat s (length w)) with (repeat s n) by (rewrite Hw; reflexivity).
  apply sep_proxs. numR.
  revert g w x Pg Hg Hw Hx Pw. induction n as [|n IHn]; intros [|g0 g] [|w0 w] [|a x] Pg Hg Hw Hx Pw; cbn [length] in *; try lia.
  - constructor.
  - inv_allpos. unfold prox_cc_kl in *. unfv. cbn [repeat map vmap2]. constructor; try assumption.
    + numS. pose proof (kl_sub g0 s a ltac:(assumption) Hs) as Q. unfold kl1, klcc1 in Q.
      replace (4 * 1 * (1 / s) * g0) with (4 * 1 * (1 / s) * g0) in Q by reflexivity. exact Q.
    + apply IHn; auto; lia.
Qed.

