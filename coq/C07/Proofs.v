(* C07/Proofs.v -- lemmas about the proximal model at R. *)
From Coq Require Import ZArith QArith Reals Lra Lia List Bool.
From Verif Require Import Base.Num Base.Vec Base.VecR C07.Model.
Import ListNotations.
Local Open Scope R_scope.
