(* C07/Proofs.v -- the functional-tree theorem: for every well-formed tree of the model,
   fprox returns THE proximal point of fval (all trees, all sizes, all admissible steps). *)
From Coq Require Import ZArith QArith Reals Lra Lia List Bool Psatz.
From Verif Require Import Base.Num Base.Vec Base.VecR C07.Model C07.Convex C07.Leaves C07.LeafThms C07.Rules C07.L2 C07.Compose C07.Sorting C07.Group.
Import ListNotations.
Local Open Scope R_scope.

Notation fexprR := (@fexpr R).
Notation sigR := (@sig R).
Notation leafR := (@leaf R).

(* ---- which leaves are covered by the tree theorem, and which steps they accept ---- *)
Definition uniform (w : Rvec) (c : R) : Prop := w = repeat c (length w).
Definition leaf_ok (k : leafR) (w : Rvec) : Prop :=
  let n := length w in
  match k with
  | FL1 | FL2 | FL2Sq | FConst _ | FIndZero _ | FBallInf | FBall2 => True
  | FBox lo hi => bound_ok n lo /\ bound_ok n hi
  | FHuber gamma => 0 <= gamma
  | FGroupL1 _ _ false | FGroupBall _ _ false => True     (* pointwise exponent 1 / inf: same code path as L1 / max-norm ball *)
  | FGroupL1 m d true | FGroupBall m d true =>
      (1 <= d)%nat /\ exists wb, allpos wb /\ length wb = m /\ w = concat (repeat wb d)
  | FSimplex d => 0 <= d /\ (1 <= n)%nat /\ exists c, uniform w c       (* sort-based: uniformly weighted space *)
  | FBall1 | FLInf => (1 <= n)%nat /\ uniform w 1                       (* sort-based: unweighted space *)
  end.
Definition leaf_vec_ok (k : leafR) : Prop :=
  match k with FL1 | FL2Sq | FConst _ | FBox _ _ | FIndZero _ | FGroupL1 _ _ false => True | _ => False end.
Definition leaf_sig_ok (k : leafR) (n : nat) (s : sigR) : Prop :=
  match s with
  | SScal sg => 0 < sg
  | SVec v => leaf_vec_ok k /\ length v = n /\ allpos v
  | SPair _ _ => False
  end.

Fixpoint wf (e : fexprR) : Prop :=
  match e with
  | Leaf k w => allpos w /\ leaf_ok k w
  | LScal s e' => 0 < s /\ wf e'
  | RScal s e' => s <> 0 /\ wf e'
  | SSum _ e' => wf e'
  | Transl t e' => length t = fdim e' /\ wf e'
  | QPert a u _ e' => 0 <= a /\ match u with Some u => length u = fdim e' | None => True end /\ wf e'
  | Sep e1 e2 => wf e1 /\ wf e2
  end.

Fixpoint sig_ok (e : fexprR) (s : sigR) {struct e} : Prop :=
  match e with
  | Leaf k w => leaf_sig_ok k (length w) s
  | LScal c e' => sig_ok e' (sig_scale c s)
  | RScal c e' => sig_ok e' (sig_scale (c * c) s)
  | SSum _ e' | Transl _ e' => sig_ok e' s
  | QPert _ _ _ _ => match s with SScal sg => 0 < sg | _ => False end
  | Sep e1 e2 =>
      match s with
      | SScal sg => 0 < sg
      | SVec v => length v = (fdim e1 + fdim e2)%nat /\
                  sig_ok e1 (SVec (firstn (fdim e1) v)) /\ sig_ok e2 (SVec (skipn (fdim e1) v))
      | SPair a b => sig_ok e1 a /\ sig_ok e2 b
      end
  end.

(* ---- bookkeeping ---- *)
Lemma map_repeat {A B} (f : A -> B) a n : map f (repeat a n) = repeat (f a) n.
Proof. induction n; cbn; congruence. Qed.

Lemma sig_flat_scale (c : R) : forall (e : fexprR) (s : sigR),
  sig_flat e (sig_scale c s) = map (fun a => a * c) (sig_flat e s).
Proof.
  induction e; intros sg; cbn [sig_flat]; auto.
  - destruct sg; cbn [sig_scale sigv map]; [rewrite map_repeat|..]; numR; reflexivity.
  - destruct sg as [sg|v|a b]; cbn [sig_scale].
    + change (SScal (sg * c)%num) with (sig_scale c (SScal sg)). rewrite IHe1, IHe2, map_app. reflexivity.
    + numR. reflexivity.
    + rewrite IHe1, IHe2, map_app. reflexivity.
Qed.
Lemma sig_flat_scal (e : fexprR) sg : sig_flat e (SScal sg) = repeat sg (fdim e).
Proof.
  induction e; cbn [sig_flat]; auto.
  unfold fdim in *; cbn [fweights]. rewrite IHe1, IHe2, app_length, repeat_app. reflexivity.
Qed.
Lemma sig_flat_vec (e : fexprR) v : sig_flat e (SVec v) = v.
Proof. induction e; cbn [sig_flat]; auto. Qed.

Lemma metric_scale n : forall c (w sv : Rvec), c <> 0 -> length w = n -> length sv = n ->
  metric w (map (fun a => a * c) sv) = map (fun a => a * / c) (metric w sv).
Proof.
  induction n as [|n IHn]; intros c [|a w] [|b sv] Hc Hw Hs; cbn [length] in *; try lia; [reflexivity|].
  unfold metric in *; unfv. cbn [map vmap2]. f_equal; [|apply IHn; auto; lia].
  numR. unfold Rdiv.
  destruct (Req_dec b 0) as [->|Hb].
  - rewrite Rmult_0_l, Rinv_0. ring.
  - rewrite Rinv_mult. ring.
Qed.

Lemma allpos_map_scale c (v : Rvec) : 0 < c -> allpos v -> allpos (map (fun a => a * c) v).
Proof. intros Hc H; induction H; cbn; constructor; auto. nra. Qed.
Lemma allpos_repeat c n : 0 < c -> allpos (repeat c n).
Proof. intros; induction n; cbn; constructor; auto. Qed.
Lemma allpos_app (a b : Rvec) : allpos a -> allpos b -> allpos (a ++ b).
Proof. intros Ha Hb; induction Ha; cbn; auto. constructor; auto. Qed.
Lemma allpos_firstn k (v : Rvec) : allpos v -> allpos (firstn k v).
Proof.
  unfold allpos. revert k; induction v as [|a v IH]; intros [|k] H; cbn [firstn]; try constructor.
  - inversion H; assumption.
  - apply IH. inversion H; assumption.
Qed.
Lemma allpos_skipn k (v : Rvec) : allpos v -> allpos (skipn k v).
Proof.
  unfold allpos. revert k; induction v as [|a v IH]; intros [|k] H; cbn [skipn]; auto.
  apply IH. inversion H; assumption.
Qed.

Lemma fweights_allpos (e : fexprR) : wf e -> allpos (fweights e).
Proof.
  induction e; cbn [wf fweights]; intros H; try tauto.
  destruct H as [H1 H2]. apply allpos_app; auto.
Qed.

Lemma sig_ok_scal (e : fexprR) : wf e -> forall sg, 0 < sg -> sig_ok e (SScal sg).
Proof.
  induction e; cbn [wf]; intros W sg Hs; cbn [sig_ok sig_scale leaf_sig_ok]; auto.
  - destruct W as [Hc W]. apply IHe; [assumption|]. numR. nra.
  - destruct W as [Hn W]. apply IHe; [assumption|]. numR.
    assert (0 < s * s) by (destruct (Rtotal_order s 0) as [?|[?|?]]; [nra|contradiction|nra]). nra.
  - apply IHe; tauto.
Qed.

(* steps accepted by a tree denote a positive per-entry step vector of the right length *)
Lemma sig_flat_ok (e : fexprR) : wf e -> forall s, sig_ok e s ->
  length (sig_flat e s) = fdim e /\ allpos (sig_flat e s).
Proof.
  induction e; cbn [wf]; intros W sg Hs; cbn [sig_ok sig_flat] in *.
  - (* leaf *) unfold fdim; cbn [fweights]. destruct sg as [c|v|a b]; cbn [leaf_sig_ok sigv] in *.
    + split; [apply repeat_length | apply allpos_repeat; assumption].
    + tauto.
    + contradiction.
  - destruct W as [Hc W]. specialize (IHe W _ Hs). rewrite sig_flat_scale in IHe. destruct IHe as [L P].
    rewrite map_length in L. split; [exact L|].
    assert (E : sig_flat e sg = map (fun a => a * / s) (map (fun a => a * s) (sig_flat e sg))).
    { rewrite map_map. rewrite <- (map_id (sig_flat e sg)) at 1. apply map_ext. intros a. field. lra. }
    rewrite E. apply allpos_map_scale; [apply Rinv_0_lt_compat; assumption | exact P].
  - destruct W as [Hc W]. specialize (IHe W _ Hs). rewrite sig_flat_scale in IHe. destruct IHe as [L P].
    rewrite map_length in L.
    assert (Hcc : 0 < s * s) by (destruct (Rtotal_order s 0) as [?|[?|?]]; [nra|contradiction|nra]).
    assert (E : sig_flat e sg = map (fun a => a * / (s * s)) (map (fun a => a * (s * s)) (sig_flat e sg))).
    { rewrite map_map. rewrite <- (map_id (sig_flat e sg)) at 1. apply map_ext. intros a. field. lra. }
    split; [exact L|]. rewrite E. apply allpos_map_scale; [apply Rinv_0_lt_compat; assumption | exact P].
  - apply IHe; assumption.
  - apply IHe; tauto.
  - destruct sg as [c0|v|a0 b]; try contradiction. rewrite sig_flat_scal.
    split; [apply repeat_length | apply allpos_repeat; assumption].
  - destruct W as [W1 W2]. unfold fdim in *; cbn [fweights]. rewrite app_length.
    destruct sg as [c0|v|a0 b].
    + rewrite !sig_flat_scal, <- repeat_app. unfold fdim.
      split; [apply repeat_length | apply allpos_repeat; assumption].
    + destruct Hs as (L & H1 & H2). destruct (IHe1 W1 _ H1) as [_ P1]. destruct (IHe2 W2 _ H2) as [_ P2].
      rewrite sig_flat_vec in P1, P2. split; [exact L|].
      rewrite <- (firstn_skipn (length (fweights e1)) v). apply allpos_app; assumption.
    + destruct Hs as (H1 & H2). destruct (IHe1 W1 _ H1) as [L1 P1]. destruct (IHe2 W2 _ H2) as [L2 P2].
      split; [rewrite app_length; lia | apply allpos_app; assumption].
Qed.

(* ---- leaves ---- *)
Lemma sigv_ok k n s : leaf_sig_ok k n s -> length (sigv n s) = n /\ allpos (sigv n s).
Proof.
  destruct s as [sg|v|a b]; cbn [leaf_sig_ok sigv]; intros H.
  - split; [apply repeat_length | apply allpos_repeat; assumption].
  - tauto.
  - contradiction.
Qed.

Lemma leaf_prox_optimal (k : leafR) (w : Rvec) (s : sigR) (x : Rvec) :
  allpos w -> leaf_ok k w -> leaf_sig_ok k (length w) s -> length x = length w ->
  exists p, leaf_prox k w s x = Ok p /\
            is_proxs (length w) (leaf_val k w) (metric w (sigv (length w) s)) x p.
Proof.
  intros Pw Hk Hs Hx. destruct (sigv_ok _ _ _ Hs) as [Ls Ps].
  set (n := length w) in *.
  assert (Pm : allpos (metric w (sigv n s))) by (apply (metric_allpos n); auto).
  destruct k; cbv zeta in Hk; cbn [leaf_ok] in Hk; fold n in Hk; try contradiction; unfold leaf_prox; rewrite ?Hx.
  - (* L1 *) destruct s as [sg|v|a b]; [| |contradiction]; eexists; (split; [reflexivity|]);
      apply l1_leaf_prox; auto.
  - (* L2 *)
    destruct s as [sg|v|a b]; cbn [leaf_sig_ok leaf_vec_ok] in Hs; [|tauto|contradiction].
    cbn [needs_scalar]. eexists; split; [reflexivity|]. apply l2_leaf_prox; auto.
  - (* L2^2 *) destruct s as [sg|v|a b]; [| |contradiction]; eexists; (split; [reflexivity|]);
      apply l2sq_leaf_prox; auto.
  - (* L-infinity norm on an unweighted space *)
    destruct Hk as [Hn Hu]. unfold uniform in Hu. fold n in Hu.
    destruct s as [sg|v|a b]; cbn [leaf_sig_ok leaf_vec_ok] in Hs; [|tauto|contradiction].
    destruct (linf_leaf_prox n sg x Hs Hx Hn) as (p & Ep & Pp).
    exists p. rewrite Hu. split; [exact Ep|].
    cbn [sigv]. replace (metric (repeat 1 n) (repeat sg n)) with (repeat (/ sg) n); [exact Pp|].
    clear. induction n; cbn [repeat]; [reflexivity|]. unfold metric, vdiv in *. cbn [vmap2]. rewrite <- IHn. numR.
    f_equal. unfold Rdiv. ring.
  - (* constant *) eexists; split; [reflexivity|].
    apply (is_proxs_ext n (fun _ => Some c)); [reflexivity|]. apply const_leaf_prox; auto with vlen.
  - (* box *) destruct Hk as [Hlo Hhi]. eexists; split; [reflexivity|]. apply box_leaf_prox; auto.
  - (* {0} *) eexists; split; [reflexivity|]. apply indzero_leaf_prox; auto.
  - (* unit ball of the max norm *)
    destruct s as [sg|v|a b]; cbn [leaf_sig_ok leaf_vec_ok] in Hs; [|tauto|contradiction].
    cbn [needs_scalar]. eexists; split; [reflexivity|]. apply ballinf_leaf_prox; auto.
  - (* unit ball of the space norm, through the Moreau rule *)
    destruct s as [sg|v|a b]; cbn [leaf_sig_ok leaf_vec_ok] in Hs; [|tauto|contradiction].
    apply (ball2_leaf_prox n); auto.
  - (* unit ball of the 1-norm on an unweighted space *)
    destruct Hk as [Hn Hu]. unfold uniform in Hu. fold n in Hu.
    destruct s as [sg|v|a b]; cbn [leaf_sig_ok leaf_vec_ok] in Hs; [|tauto|contradiction].
    assert (Hk' : 0 < / sg) by (apply Rinv_0_lt_compat; assumption).
    destruct (ball1_leaf_prox n (/ sg) x Hk' Hx Hn) as (p & Ep & Pp).
    exists p. rewrite Hu. split; [exact Ep|].
    cbn [sigv]. replace (metric (repeat 1 n) (repeat sg n)) with (repeat (/ sg) n); [exact Pp|].
    clear. induction n; cbn [repeat]; [reflexivity|]. unfold metric, vdiv in *. cbn [vmap2]. rewrite <- IHn. numR.
    f_equal. unfold Rdiv. ring.
  - (* Huber *)
    destruct s as [sg|v|a b]; cbn [leaf_sig_ok leaf_vec_ok] in Hs; [|tauto|contradiction].
    cbn [needs_scalar]. eexists; split; [reflexivity|]. apply huber_leaf_prox; auto.
  - (* simplex on a uniformly weighted space *)
    destruct Hk as (Hd & Hn & c & Hu). unfold uniform in Hu. fold n in Hu.
    destruct s as [sg|v|a b]; cbn [leaf_sig_ok leaf_vec_ok] in Hs; [|tauto|contradiction].
    assert (Hc : 0 < c).
    { rewrite Hu in Pw. destruct n; [lia|]. cbn [repeat] in Pw. inversion Pw; assumption. }
    assert (Hk' : 0 < c / sg) by (apply Rdiv_lt_0_compat; assumption).
    destruct (simplex_leaf_prox n diam (c / sg) w x Hd Hk' Hx Hn) as (p & Ep & Pp).
    exists p. split; [exact Ep|].
    cbn [sigv]. rewrite Hu at 2. replace (metric (repeat c n) (repeat sg n)) with (repeat (c / sg) n); [exact Pp|].
    clear. induction n; cbn [repeat]; [reflexivity|]. unfold metric, vdiv in *. cbn [vmap2]. rewrite <- IHn. numR.
    reflexivity.
  - (* GroupL1Norm *)
    destruct two.
    { (* pointwise 2-norm: proximal_l1_l2 *)
      destruct Hk as (Hd1 & wb & Pwb & Lwb & Ew).
      destruct s as [sg|v|a b]; cbn [leaf_sig_ok leaf_vec_ok] in Hs; [|tauto|contradiction].
      cbn [needs_scalar]. eexists; split; [reflexivity|].
      assert (Ln : n = (d * m)%nat).
      { unfold n. rewrite Ew. clear -Lwb. induction d; cbn [repeat concat]; [reflexivity|]. rewrite app_length, IHd. lia. }
      cbn [sigv]. rewrite Ln in *. rewrite Ew. apply groupl1_leaf_prox; auto. }
    destruct s as [sg|v|a b]; [| |contradiction]; eexists; (split; [reflexivity|]);
      apply (is_proxs_ext n (@leaf_val R _ _ FL1 w)); try reflexivity; apply l1_leaf_prox; auto.
  - (* IndicatorGroupL1UnitBall *)
    destruct two.
    { (* pointwise 2-norm: proximal_convex_conj_l1_l2 *)
      destruct Hk as (Hd1 & wb & Pwb & Lwb & Ew).
      destruct s as [sg|v|a b]; cbn [leaf_sig_ok leaf_vec_ok] in Hs; [|tauto|contradiction].
      cbn [needs_scalar]. eexists; split; [reflexivity|].
      assert (Ln : n = (d * m)%nat).
      { unfold n. rewrite Ew. clear -Lwb. induction d; cbn [repeat concat]; [reflexivity|]. rewrite app_length, IHd. lia. }
      cbn [sigv]. rewrite Ln in *. rewrite Ew. apply groupball_leaf_prox; auto. }
    destruct s as [sg|v|a b]; cbn [leaf_sig_ok leaf_vec_ok] in Hs; [|tauto|contradiction].
    cbn [needs_scalar]. eexists; split; [reflexivity|].
    apply (is_proxs_ext n (@leaf_val R _ _ FBallInf w)); try reflexivity. apply ballinf_leaf_prox; auto.
Qed.

(* ---- the constant of proximal_quadratic_perturbation ---- *)
Lemma quad_const_facts sg a : 0 < sg -> 0 <= a ->
  let c := 1 / sqrt (sg * 2 * a + 1) in
  c <> 0 /\ c * c = / (2 * sg * a + 1) /\ c * (1 / c) = 1.
Proof.
  intros Hs Ha c.
  assert (HD : 0 < sg * 2 * a + 1) by nra.
  assert (Hq : 0 < sqrt (sg * 2 * a + 1)) by (apply sqrt_lt_R0; assumption).
  assert (Hqq : sqrt (sg * 2 * a + 1) * sqrt (sg * 2 * a + 1) = sg * 2 * a + 1) by (apply sqrt_sqrt; lra).
  assert (Hc : c <> 0).
  { unfold c. intro E. apply (Rmult_eq_compat_r (sqrt (sg * 2 * a + 1))) in E.
    unfold Rdiv in E. rewrite Rmult_assoc, Rinv_l in E by lra. lra. }
  split; [assumption|]. split.
  - unfold c. replace (2 * sg * a + 1) with (sg * 2 * a + 1) by ring. rewrite <- Hqq at 3.
    field. lra.
  - field. assumption.
Qed.

Lemma wdot_zero_r n : forall w z : Rvec, length w = n -> length z = n -> wdot w z (map (fun _ => 0) w) = 0.
Proof.
  induction n as [|n IHn]; intros [|a w] [|b z] Hw Hz; cbn [length] in *; try lia; [reflexivity|].
  cbn [map]. rewrite wdot_cons', IHn by lia. ring.
Qed.

Lemma metric_app n1 (w1 w2 s1 s2 : Rvec) : length w1 = n1 -> length s1 = n1 ->
  metric (w1 ++ w2) (s1 ++ s2) = metric w1 s1 ++ metric w2 s2.
Proof. intros; unfold metric; apply (vdiv_app n1); assumption. Qed.

(* ==== every well-formed functional tree: fprox returns the proximal point of fval ==== *)
Theorem fprox_proxs_all (e : fexprR) : wf e -> forall (s : sigR) (x : Rvec),
  sig_ok e s -> length x = fdim e ->
  exists p, fprox e s x = Ok p /\
            is_proxs (fdim e) (fval e) (metric (fweights e) (sig_flat e s)) x p.
Proof.
  induction e; cbn [wf]; intros W sg x Hs Hx.
  - (* leaf *) destruct W as [Pw Hk]. cbn [sig_ok] in Hs. cbn [fprox fval sig_flat fweights]. unfold fdim in *; cbn [fweights] in *.
    apply leaf_prox_optimal; assumption.
  - (* s * f *)
    destruct (sig_flat_ok (LScal s e) W sg Hs) as [Lf Pf]. cbn [sig_flat] in Lf, Pf.
    destruct W as [Hc W]. cbn [sig_ok] in Hs.
    destruct (IHe W (sig_scale s sg) x Hs Hx) as (p & Ep & Pp). exists p. split.
    + cbn [fprox]. numR. destruct (Rltb_spec s 0); [lra|]. destruct (Reqb_spec s 0); [lra|]. exact Ep.
    + cbn [fval fweights sig_flat]. change (fdim (LScal s e)) with (fdim e) in *.
      rewrite sig_flat_scale, (metric_scale (fdim e)) in Pp by (auto; lra).
      apply rule_left_scaling; auto. apply (metric_len (fdim e)); auto.
  - (* f (s .) *)
    destruct (sig_flat_ok (RScal s e) W sg Hs) as [Lf Pf]. cbn [sig_flat] in Lf, Pf.
    destruct W as [Hc W]. cbn [sig_ok] in Hs. change (fdim (RScal s e)) with (fdim e) in *.
    assert (Hcc : s * s <> 0) by (intro E; apply Hc; nra).
    destruct (IHe W (sig_scale (s * s) sg) (vscal s x) Hs ltac:(auto with vlen)) as (p & Ep & Pp).
    exists (vscal (1 / s) p). split.
    + cbn [fprox]. unfold prox_arg_scaling. numR. destruct (Reqb_spec s 0); [contradiction|].
      rewrite Ep. reflexivity.
    + cbn [fval fweights sig_flat].
      rewrite sig_flat_scale, (metric_scale (fdim e)) in Pp by auto.
      apply rule_arg_scaling; auto. apply (metric_len (fdim e)); auto.
  - (* f + c *)
    cbn [sig_ok] in Hs. destruct (IHe W sg x Hs Hx) as (p & Ep & Pp). exists p. split; [exact Ep|].
    cbn [fval fweights sig_flat]. change (fdim (SSum c e)) with (fdim e). apply is_proxs_add_const. exact Pp.
  - (* translation *)
    destruct (sig_flat_ok (Transl t e) W sg Hs) as [Lf Pf]. cbn [sig_flat] in Lf, Pf.
    destruct W as [Ht W]. cbn [sig_ok] in Hs. change (fdim (Transl t e)) with (fdim e) in *.
    destruct (IHe W sg (vsub x t) Hs ltac:(auto with vlen)) as (p & Ep & Pp).
    exists (vadd t p). split.
    + cbn [fprox]. unfold prox_translation. rewrite Ep. reflexivity.
    + cbn [fval fweights sig_flat]. apply rule_translation; auto. apply (metric_len (fdim e)); auto.
  - (* quadratic perturbation *)
    destruct W as (Ha & Hu & W). cbn [sig_ok] in Hs. destruct sg as [sg|v|a' b]; try contradiction.
    change (fdim (QPert a u c e)) with (fdim e) in *.
    set (u' := match u with Some u => u | None => map (fun _ => 0) (fweights e) end).
    assert (Lu : length u' = fdim e) by (unfold u'; destruct u; [assumption|apply map_length]).
    destruct (quad_const_facts sg a Hs Ha) as (Hc & Hcc & Hc1).
    set (cc := 1 / sqrt (sg * 2 * a + 1)) in *.
    assert (Hsc : 0 < sg * (cc * cc)).
    { rewrite Hcc. apply Rmult_lt_0_compat; [assumption|]. apply Rinv_0_lt_compat. nra. }
    pose proof (sig_ok_scal e W _ Hsc) as Hs'.
    set (y := vscal cc (vlin cc x (- (sg * cc)) u')).
    assert (Ly : length y = fdim e) by (unfold y; auto with vlen).
    destruct (IHe W (SScal (sg * (cc * cc))) y Hs' Ly) as (p & Ep & Pp).
    exists p. split.
    + cbn [fprox]. numR. destruct (Rltb_spec a 0); [lra|].
      unfold prox_quad_pert. numS. destruct (Rltb_spec a 0); [lra|].
      unfold prox_arg_scaling. numS. fold cc. destruct (Reqb_spec cc 0); [contradiction|].
      cbn [sig_scale]. numR. fold u'. fold y. rewrite Ep. cbn [rmap].
      rewrite (vscal_vscal (fdim e)), Hc1, (vscal_one (fdim e)) by (destruct Pp; assumption). reflexivity.
    + cbn [fval fweights sig_flat]. rewrite sig_flat_scal in *.
      assert (Ey : y = vscal (/ (2 * sg * a + 1)) (vsub x (vscal sg u'))).
      { unfold y. rewrite (vlin_as_sub (fdim e)) by assumption.
        rewrite (vscal_vscal (fdim e)) by auto with vlen. rewrite Hcc. reflexivity. }
      rewrite Ey, Hcc in Pp.
      pose proof (rule_quadratic_perturbation (fdim e) (fval e) (fweights e) sg a u' c x p
                    Hs Ha (fweights_allpos e W) eq_refl Lu Hx Pp) as Q.
      revert Q. apply is_proxs_ext. intros z Hz. numR. unfold winner. f_equal. f_equal.
      unfold u'. destruct u as [u|]; [reflexivity|]. rewrite (wdot_zero_r (fdim e)) by auto. reflexivity.
  - (* separable sum *)
    destruct (sig_flat_ok (Sep e1 e2) W sg Hs) as [Lf Pf].
    destruct W as [W1 W2]. cbn [sig_ok] in Hs.
    assert (Hd : fdim (Sep e1 e2) = (fdim e1 + fdim e2)%nat) by (unfold fdim; cbn [fweights]; apply app_length).
    rewrite Hd in *.
    set (x1 := firstn (fdim e1) x). set (x2 := skipn (fdim e1) x).
    assert (L1 : length x1 = fdim e1) by (unfold x1; rewrite firstn_length; lia).
    assert (L2 : length x2 = fdim e2) by (unfold x2; rewrite skipn_length; lia).
    assert (Ex : x = x1 ++ x2) by (unfold x1, x2; symmetry; apply firstn_skipn).
    assert (K : exists s1 s2, sig_ok e1 s1 /\ sig_ok e2 s2 /\
              sig_flat (Sep e1 e2) sg = sig_flat e1 s1 ++ sig_flat e2 s2 /\
              (let '(a, b) := match sg with
                     | SScal _ => (sg, sg)
                     | SVec v => (SVec (firstn (fdim e1) v), SVec (skipn (fdim e1) v))
                     | SPair a b => (a, b) end in (a, b)) = (s1, s2)).
    { destruct sg as [c|v|a b].
      - exists (SScal c), (SScal c). repeat split; auto using sig_ok_scal.
      - destruct Hs as (Lv & H1 & H2). exists (SVec (firstn (fdim e1) v)), (SVec (skipn (fdim e1) v)).
        repeat split; auto. cbn [sig_flat]. rewrite !sig_flat_vec. symmetry. apply firstn_skipn.
      - destruct Hs as (H1 & H2). exists a, b. repeat split; auto. }
    destruct K as (s1 & s2 & H1 & H2 & Ef & Es).
    destruct (IHe1 W1 s1 x1 H1 L1) as (p1 & Ep1 & Pp1).
    destruct (IHe2 W2 s2 x2 H2 L2) as (p2 & Ep2 & Pp2).
    destruct (sig_flat_ok e1 W1 s1 H1) as [Lf1 _]. destruct (sig_flat_ok e2 W2 s2 H2) as [Lf2 _].
    exists (p1 ++ p2). split.
    + cbn [fprox]. unfold prox_combine.
      destruct (match sg with
                | SScal _ => (sg, sg)
                | SVec v => (SVec (firstn (fdim e1) v), SVec (skipn (fdim e1) v))
                | SPair a b => (a, b) end) as [a b] eqn:E.
      injection Es as -> ->. fold x1. fold x2. rewrite Ep1. cbn [rbind]. rewrite Ep2. reflexivity.
    + cbn [fval fweights]. rewrite Ef, (metric_app (fdim e1)) by auto. rewrite Ex at 1.
      apply rule_separable; auto; apply (metric_len _); auto.
Qed.

(* ---- the literal form of the property for a scalar step:
        f(p) finite and  f(p) + ||p-x||_w^2/(2 sigma) <= f(z) + ||z-x||_w^2/(2 sigma)  for all z ---- *)
Definition minimises_prox_objective (n : nat) (f : Rvec -> option R) (w : Rvec) (sigma : R) (x p : Rvec) : Prop :=
  length p = n /\ (exists v, f p = Some v) /\
  forall z, length z = n ->
    ele (eadd (f p) (Some (wnormsq w (vsub p x) / (2 * sigma))))
        (eadd (f z) (Some (wnormsq w (vsub z x) / (2 * sigma)))).

Lemma is_proxm_scalar n f w sigma x p : length w = n -> length x = n -> sigma <> 0 ->
  is_proxm n f (metric w (repeat sigma n)) x p -> minimises_prox_objective n f w sigma x p.
Proof.
  intros Hw Hx Hs (Hp & Hf & Ho). split; [assumption|]. split; [assumption|].
  intros z Hz. specialize (Ho z Hz). rewrite !prox_obj_R in Ho.
  rewrite !(metric_scalar n) in Ho by auto with vlen.
  destruct (f p), (f z); cbn [eadd ele] in *; numR; auto.
Qed.

(* minimality follows from the variational form *)
Theorem fprox_optimal_all (e : fexprR) : wf e -> forall (s : sigR) (x : Rvec),
  sig_ok e s -> length x = fdim e ->
  exists p, fprox e s x = Ok p /\
            is_proxm (fdim e) (fval e) (metric (fweights e) (sig_flat e s)) x p.
Proof.
  intros W s x Hs Hx. destruct (fprox_proxs_all e W s x Hs Hx) as (p & Ep & Pp).
  exists p. split; [exact Ep|]. destruct (sig_flat_ok e W s Hs) as [L P].
  apply is_proxs_proxm; auto.
  - apply (metric_len (fdim e)); auto.
  - apply (metric_allpos (fdim e)); auto. apply fweights_allpos; assumption.
Qed.

Theorem fprox_optimal_scalar (e : fexprR) (sigma : R) (x : Rvec) :
  wf e -> 0 < sigma -> length x = fdim e ->
  exists p, fprox e (SScal sigma) x = Ok p /\
            minimises_prox_objective (fdim e) (fval e) (fweights e) sigma x p.
Proof.
  intros W Hs Hx. destruct (fprox_optimal_all e W (SScal sigma) x (sig_ok_scal e W _ Hs) Hx) as (p & Ep & Pp).
  exists p. split; [exact Ep|]. rewrite sig_flat_scal in Pp.
  apply is_proxm_scalar; auto. lra.
Qed.

(* ================= consequences ================= *)
(* strict minimality: every other point is worse by at least half its squared distance to p *)
Theorem proxs_strict n f m x p : length m = n -> length x = n -> is_proxs n f m x p ->
  forall z, length z = n ->
    ele (match f p with Some vp => Some (vp + wnormsq m (vsub p x) / 2 + wnormsq m (vsub z p) / 2) | None => None end)
        (prox_obj f m x z).
Proof.
  intros Hm Hx (Hp & vp & Hv & Hs) z Hz. rewrite prox_obj_R, Hv. specialize (Hs z Hz).
  destruct (f z) as [vz|]; cbn [ele] in *; [|exact I].
  rewrite (wnormsq_three_point n m z p x) by assumption.
  assert (Hneg : wdot m (vsub z p) (vsub x p) = - wdot m (vsub z p) (vsub p x)).
  { rewrite !(wdot_vsub_r' n) by auto with vlen. lra. }
  lra.
Qed.

Theorem proxs_unique n f m x p1 p2 : length m = n -> length x = n -> allpos m ->
  is_proxs n f m x p1 -> is_proxs n f m x p2 -> p1 = p2.
Proof.
  intros Hm Hx Pm H1 H2.
  pose proof (proxs_firmly_nonexpansive n f m x x p1 p2 Hm Hx Hx H1 H2) as Q.
  destruct H1 as (L1 & _). destruct H2 as (L2 & _).
  rewrite (vsub_self n x) in Q by assumption. rewrite (wdot_zero_vec_r n) in Q by auto with vlen.
  apply (vsub_eq_zero n); auto. apply (wnormsq_zero n m); auto with vlen.
Qed.

(* the minimiser is unique: any point whose objective value is not larger than that of p IS p *)
Theorem prox_minimiser_unique n f m x p z : length m = n -> length x = n -> allpos m ->
  is_proxs n f m x p -> length z = n -> ele (prox_obj f m x z) (prox_obj f m x p) -> z = p.
Proof.
  intros Hm Hx Pm H Hz Hle. pose proof (proxs_strict n f m x p Hm Hx H z Hz) as S.
  destruct H as (Hp & vp & Hv & Hs). rewrite !prox_obj_R in *. rewrite Hv in *.
  destruct (f z) as [vz|]; cbn [ele] in *; [|contradiction].
  apply (vsub_eq_zero n); auto. apply (wnormsq_zero n m); auto with vlen.
  pose proof (wnormsq_nonneg m (vsub z p) Pm). lra.
Qed.

(* ---- trees ---- *)
Theorem fprox_firmly_nonexpansive (e : fexprR) (s : sigR) (x1 x2 p1 p2 : Rvec) :
  wf e -> sig_ok e s -> length x1 = fdim e -> length x2 = fdim e ->
  fprox e s x1 = Ok p1 -> fprox e s x2 = Ok p2 ->
  let m := metric (fweights e) (sig_flat e s) in
  wnormsq m (vsub p1 p2) <= wdot m (vsub p1 p2) (vsub x1 x2).
Proof.
  intros W Hs H1 H2 E1 E2 m.
  destruct (fprox_proxs_all e W s x1 Hs H1) as (q1 & F1 & P1).
  destruct (fprox_proxs_all e W s x2 Hs H2) as (q2 & F2 & P2).
  rewrite E1 in F1. rewrite E2 in F2. injection F1 as <-. injection F2 as <-.
  destruct (sig_flat_ok e W s Hs) as [L P].
  apply (proxs_firmly_nonexpansive (fdim e) (fval e)); auto. apply (metric_len (fdim e)); auto.
Qed.

Theorem fprox_firmly_nonexpansive_scalar (e : fexprR) (sigma : R) (x1 x2 p1 p2 : Rvec) :
  wf e -> 0 < sigma -> length x1 = fdim e -> length x2 = fdim e ->
  fprox e (SScal sigma) x1 = Ok p1 -> fprox e (SScal sigma) x2 = Ok p2 ->
  wnormsq (fweights e) (vsub p1 p2) <= wdot (fweights e) (vsub p1 p2) (vsub x1 x2).
Proof.
  intros W Hs H1 H2 E1 E2.
  pose proof (fprox_firmly_nonexpansive e (SScal sigma) x1 x2 p1 p2 W (sig_ok_scal e W _ Hs) H1 H2 E1 E2) as Q.
  cbv zeta in Q. rewrite sig_flat_scal in Q.
  destruct (fprox_proxs_all e W _ x1 (sig_ok_scal e W _ Hs) H1) as (q1 & F1 & (L1 & _)).
  destruct (fprox_proxs_all e W _ x2 (sig_ok_scal e W _ Hs) H2) as (q2 & F2 & (L2 & _)).
  rewrite E1 in F1. rewrite E2 in F2. injection F1 as <-. injection F2 as <-.
  unfold wnormsq in *. rewrite !(metric_scalar_dot (fdim e)) in Q by (auto with vlen; lra).
  unfold Rdiv in Q. assert (Hi : 0 < / sigma) by (apply Rinv_0_lt_compat; assumption).
  apply (Rmult_le_reg_r (/ sigma)); assumption.
Qed.

(* indicator functionals: the proximal point lies in the set, and the proximal is idempotent *)
Theorem fprox_indicator (e : fexprR) (s : sigR) (c : R) (x p : Rvec) :
  wf e -> sig_ok e s -> length x = fdim e ->
  (forall z, length z = fdim e -> fval e z = None \/ fval e z = Some c) ->
  fprox e s x = Ok p ->
  fval e p = Some c /\ fprox e s p = Ok p.
Proof.
  intros W Hs Hx Hind E.
  destruct (fprox_proxs_all e W s x Hs Hx) as (q & F & P). rewrite E in F. injection F as <-.
  destruct (sig_flat_ok e W s Hs) as [L Pp].
  assert (Hm : length (metric (fweights e) (sig_flat e s)) = fdim e) by (apply (metric_len (fdim e)); auto).
  assert (Pm : allpos (metric (fweights e) (sig_flat e s))).
  { apply (metric_allpos (fdim e)); auto. apply fweights_allpos; assumption. }
  destruct P as (Lp & vp & Hv & Hsub).
  assert (Hc : vp = c) by (destruct (Hind p Lp) as [N|S]; congruence). subst vp.
  split; [assumption|].
  destruct (fprox_proxs_all e W s p Hs Lp) as (q & F & Q).
  assert (Hpp : is_proxs (fdim e) (fval e) (metric (fweights e) (sig_flat e s)) p p).
  { split; [assumption|]. exists c. split; [assumption|]. intros z Hz.
    rewrite (vsub_self (fdim e)) by assumption. rewrite (wdot_zero_vec_r (fdim e)) by auto with vlen.
    destruct (Hind z Hz) as [N|S]; rewrite ?N, ?S; cbn [ele]; [exact I | lra]. }
  rewrite F. f_equal. apply (proxs_unique (fdim e) (fval e) (metric (fweights e) (sig_flat e s)) p); auto.
Qed.

(* ---- FunctionalDefaultConvexConjugate(f).proximal = proximal_convex_conj(f.proximal) for every well-formed tree f:
        it is the proximal point of ANY functional fs that is the convex conjugate of f's value (w.r.t. the inner
        product of f's own space) ---- *)
Theorem fprox_default_convex_conj (e : fexprR) (fs : Rvec -> option R) (sigma : R) (x : Rvec) :
  wf e -> 0 < sigma -> length x = fdim e ->
  is_conj (fdim e) (fweights e) (fval e) fs ->
  exists p, prox_convex_conj (fprox e) (SScal sigma) x = Ok p /\
            is_proxs (fdim e) fs (metric (fweights e) (repeat sigma (fdim e))) x p.
Proof.
  intros W Hs Hx Hc.
  assert (Hi : 0 < 1 / sigma) by (apply Rdiv_lt_0_compat; lra).
  destruct (fprox_proxs_all e W (SScal (1 / sigma)) (vscal (1 / sigma) x) (sig_ok_scal e W _ Hi) ltac:(auto with vlen))
    as (q & Eq & Pq).
  rewrite sig_flat_scal in Pq.
  exists (vsub x (vscal sigma q)). split.
  - cbn [prox_convex_conj]. numR. rewrite Eq. reflexivity.
  - apply (rule_moreau (fdim e) (fval e)); auto. apply fweights_allpos; assumption.
Qed.

(* non-expansiveness (1-Lipschitz) from firm non-expansiveness + weighted Cauchy-Schwarz *)
Theorem fprox_nonexpansive_scalar (e : fexprR) (sigma : R) (x1 x2 p1 p2 : Rvec) :
  wf e -> 0 < sigma -> length x1 = fdim e -> length x2 = fdim e ->
  fprox e (SScal sigma) x1 = Ok p1 -> fprox e (SScal sigma) x2 = Ok p2 ->
  wnormsq (fweights e) (vsub p1 p2) <= wnormsq (fweights e) (vsub x1 x2).
Proof.
  intros W Hs H1 H2 E1 E2.
  pose proof (fprox_firmly_nonexpansive_scalar e sigma x1 x2 p1 p2 W Hs H1 H2 E1 E2) as F.
  destruct (fprox_proxs_all e W _ x1 (sig_ok_scal e W _ Hs) H1) as (q1 & F1 & (L1 & _)).
  destruct (fprox_proxs_all e W _ x2 (sig_ok_scal e W _ Hs) H2) as (q2 & F2 & (L2 & _)).
  rewrite E1 in F1. rewrite E2 in F2. injection F1 as <-. injection F2 as <-.
  pose proof (fweights_allpos e W) as Pw.
  pose proof (cs_sq (fdim e) (fweights e) (vsub p1 p2) (vsub x1 x2) Pw eq_refl ltac:(auto with vlen) ltac:(auto with vlen)) as C.
  pose proof (wnormsq_nonneg (fweights e) (vsub p1 p2) Pw) as A0.
  pose proof (wnormsq_nonneg (fweights e) (vsub x1 x2) Pw) as B0.
  set (A := wnormsq (fweights e) (vsub p1 p2)) in *. set (B := wnormsq (fweights e) (vsub x1 x2)) in *.
  set (D := wdot (fweights e) (vsub p1 p2) (vsub x1 x2)) in *.
  destruct (Rle_dec A B) as [|N]; [assumption|]. exfalso. apply Rnot_le_lt in N.
  assert (A * A <= D * D) by nra. assert (A * A <= A * B) by lra. nra.
Qed.
