(* C07/Bindings.v -- semantics of the source fragments regenerated into Gen/ProxBindings.v and the proofs that
   the hand-written model (C07/Model.v) IS what those fragments denote:
     * the class -> factory bindings of default_functionals.py  (leaf_prox_gen = leaf_prox)
     * the rule wiring of functional.py                          (wiring lemmas, used by fprox_gen = fprox)
     * the operator expressions of the rule factories of proximal_operators.py
       (translation / arg_scaling / convex_conj / quadratic_perturbation / composition / const_func)
   A change of a binding, of an argument order or of an operator expression in /repo changes the generated
   term and breaks one of these proofs (not only the correspondence). *)
From Coq Require Import ZArith QArith Reals String List Bool.
From Verif Require Import Base.Num Base.Vec C07.Model C07.BindSyntax Gen.ProxBindings.
Import ListNotations.
Local Open Scope string_scope.

Section Sem.
Context {T : Type} `{NS : NumS T}.

(* ------------------------------------------------------------------ values *)
Inductive val :=
| VNum (c : T) | VVec (v : list T) | VMat (ncols : nat) (A : list (list T)) (transposed : bool)
| VOp (f : list T -> res (list T)) | VFac (pf : @factory T) | VNone | VBad.
Definition env := string -> val.
Definition upd (e : env) (x : string) (v : val) : env := fun y => if String.eqb x y then v else e y.

Definition num_of (n : pnum) : val :=
  match n with NInt z => VNum (of_Z z) | NFrac a b => VNum (ndiv (of_Z a) (of_Z (Zpos b))) | NInf => VBad end.

(* operator algebra of odl.operator (value level) *)
Definition op_add (a b : val) : val :=
  match a, b with
  | VOp f, VOp g => VOp (fun x => rbind (f x) (fun u => rmap (fun v => vadd u v) (g x)))
  | VNum c, VNum d => VNum (nadd c d)
  | _, _ => VBad
  end.
Definition op_sub (a b : val) : val :=
  match a, b with
  | VOp f, VOp g => VOp (fun x => rbind (f x) (fun u => rmap (fun v => vsub u v) (g x)))
  | VOp f, VVec v => VOp (fun x => rmap (fun u => vsub u v) (f x))         (* operator - element *)
  | VNum c, VNum d => VNum (nsub c d)
  | _, _ => VBad
  end.
Definition op_mul (a b : val) : val :=
  match a, b with
  | VOp f, VOp g => VOp (fun x => rbind (g x) f)                              (* composition *)
  | VNum c, VOp g => VOp (fun x => rmap (vscal c) (g x))
  | VNum c, VVec v => VVec (vscal c v)
  | VNum c, VNum d => VNum (nmul c d)
  | VNum c, VMat n A t => VOp (fun x => Ok (vscal c (mvec (if t then transpose n A else A) x)))
  | VOp f, VMat n A t => VOp (fun x => f (mvec (if t then transpose n A else A) x))
  | _, _ => VBad
  end.
Definition op_div (a b : val) : val :=
  match a, b with VNum c, VNum d => VNum (ndiv c d) | _, _ => VBad end.

Fixpoint eval (fuel : nat) (e : pexp) (rho : env) {struct fuel} : val :=
  match fuel with O => VBad | S fuel =>
  let ev a := eval fuel a rho in
  match e with
  | PNum n => num_of n
  | PName x => rho x
  | PAttr "operator.adjoint" => match rho "operator" with VMat n A t => VMat n A (negb t) | _ => VBad end
  | PAttr p => rho p
  | PBin "+" a b => op_add (ev a) (ev b)
  | PBin "-" a b => op_sub (ev a) (ev b)
  | PBin "*" a b => op_mul (ev a) (ev b)
  | PBin "/" a b => op_div (ev a) (ev b)
  | PCall "ConstantOperator" [a] => match ev a with VVec v => VOp (fun _ => Ok v) | _ => VBad end
  | PCall "IdentityOperator" [_] => VOp (fun x => Ok x)
  | PCall "MultiplyOperator" (a :: _) => match ev a with VNum c => VOp (fun x => Ok (vscal c x)) | _ => VBad end
  | PCall "float" [a] => ev a
  | PCall "np.sqrt" [a] => match ev a with VNum c => VNum (nsqrt c) | _ => VBad end
  | PCall "proximal_arg_scaling" [a; b] =>
      match ev a, ev b with VFac pf, VNum c => VFac (prox_arg_scaling pf c) | _, _ => VBad end
  | PCall f [a] => (* a factory bound in the environment applied to a step *)
      match rho f, ev a with VFac pf, VNum s => VOp (pf (SScal s)) | _, _ => VBad end
  | PApp f [a] => match ev f, ev a with VFac pf, VNum s => VOp (pf (SScal s)) | _, _ => VBad end
  | _ => VBad
  end end.

(* straight-line bodies (lets, then return); conditions are resolved by the caller *)
Fixpoint exec (fuel : nat) (b : pbody) (rho : env) : env :=     (* let-only block ending in BEnd *)
  match b with
  | BLet x e k => exec fuel k (upd rho x (eval fuel e rho))
  | _ => rho
  end.
Fixpoint run (fuel : nat) (b : pbody) (rho : env) : val :=
  match b with
  | BLet x e k => run fuel k (upd rho x (eval fuel e rho))
  | BRet e => eval fuel e rho
  | BIfSeq (CIsScalar (PName x)) t e k =>
      match rho x with VNum _ => run fuel k (exec fuel t rho) | _ => run fuel k (exec fuel e rho) end
  | BIf (CIs "is not" (PName x) (PName "None")) t e =>
      match rho x with VNone => run fuel e rho | _ => run fuel t rho end
  | _ => VBad
  end.

(* the nested `def ..._factory(sigma): ...` of a rule, as a model factory (scalar steps) *)
Definition inner_def (b : pbody) : option (string * pbody) :=
  let fix go (b : pbody) :=
    match b with
    | BDef _ [s] body (BRet (PName _)) => Some (s, body)
    | BLet _ _ k => go k
    | BIfSeq _ _ _ k => go k
    | _ => None
    end in go b.
Definition as_factory (fuel : nat) (sname : string) (body : pbody) (rho : env) : @factory T :=
  fun s x => match s with
             | SScal sg => match run fuel body (upd rho sname (VNum sg)) with VOp f => f x | _ => Err EOther end
             | _ => Err EOther
             end.

End Sem.

(* =========================================================================================
   1. class -> factory bindings (default_functionals.py)
   ========================================================================================= *)
Inductive expo := X1 | X2 | XInf.
Definition expo_num (e : expo) : pnum := match e with X1 => NInt 1 | X2 => NInt 2 | XInf => NInf end.
Definition pnum_eqb (a b : pnum) : bool :=
  match a, b with NInt x, NInt y => Z.eqb x y | NInf, NInf => true | NFrac a b, NFrac c d => Z.eqb a c && Pos.eqb b d | _, _ => false end.

(* resolve the if-chain of a binding for a given exponent attribute; result: name of the factory called *)
Inductive target := TCall (f : string) (args : list pexp) | TLocal (name : string) (calls : list string) | TRaise (exc : string) | TUnknown.
Fixpoint resolve (b : pbody) (attr : string) (e : pnum) : target :=
  match b with
  | BIf (CCmp a "==" k) t f => if String.eqb a attr && pnum_eqb k e then resolve t attr e else resolve f attr e
  | BRet (PCall f args) => TCall f args
  | BLet _ _ k => resolve k attr e
  | BClass c calls (BRet (PName c')) => if String.eqb c c' then TLocal c calls else TUnknown
  | BDef f _ (BRet (PCall g _)) (BRet (PName f')) => if String.eqb f f' then TLocal f [g] else TUnknown
  | BRaise x => TRaise x
  | _ => TUnknown
  end.

Definition space_only (args : list pexp) : bool :=
  match args with [PKw "space" (PAttr "self.domain")] | [PAttr "self.domain"] => true | _ => false end.

Section Bind.
Context {T : Type} `{NS : NumS T}.

(* the model function that stands for a factory of proximal_operators.py called with default lam/g *)
Definition model_factory (t : target) (w : list T) (lo hi : @bound T) (gamma diam csum : T) (pspace : bool) (m d : nat) : option (@factory T) :=
  match t with
  | TCall "proximal_l1" a => if space_only a then
      Some (fun s x => match s with SPair _ _ => Err EType | _ => Ok (prox_l1 none_ None (sigv (length x) s) x) end) else None
  | TCall "proximal_l2" a => if space_only a then
      Some (fun s x => needs_scalar s (fun sg => Ok (prox_l2 w none_ None sg x))) else None
  | TCall "proximal_l2_squared" a => if space_only a then
      Some (fun s x => match s with SPair _ _ => Err EType | _ => Ok (prox_l2sq none_ None (sigv (length x) s) x) end) else None
  | TCall "proximal_linfty" a => if space_only a then Some (fun s x => needs_scalar s (fun sg => prox_linf sg x)) else None
  | TCall "proximal_const_func" a => if space_only a then Some (fun s x => Ok x) else None
  | TCall "proximal_box_constraint" [PAttr "self.domain"; PAttr "self.lower"; PAttr "self.upper"] =>
      Some (fun s x => Ok (prox_box lo hi x))
  | TCall "proximal_convex_conj_l1" a => if space_only a then
      Some (fun s x => needs_scalar s (fun sg => Ok (prox_cc_l1 none_ None sg x))) else None
  | TCall "proximal_convex_conj_l2" a => if space_only a then
      Some (prox_convex_conj (fun s' y => needs_scalar s' (fun sg => Ok (prox_l2 w none_ None sg y)))) else None
  | TCall "proximal_convex_conj_linfty" a => if space_only a then Some (fun s x => proj_l1 none_ x) else None
  | TCall "proximal_l1_l2" a => if space_only a then
      Some (fun s x => needs_scalar s (fun sg => Ok (prox_l1_l2 m d none_ None sg x))) else None
  | TCall "proximal_convex_conj_l1_l2" a => if space_only a then
      Some (fun s x => needs_scalar s (fun sg => Ok (prox_cc_l1_l2 m d none_ None sg x))) else None
  | TCall "proximal_huber" [PKw "space" (PAttr "self.domain"); PKw "gamma" (PAttr "self.gamma")] =>
      Some (fun s x => needs_scalar s (fun sg => Ok (if pspace then prox_huber_g m d gamma sg x else prox_huber gamma sg x)))
  | TLocal "zero_proximal" ["ZeroOperator"] => Some (fun s x => Ok (map (fun _ => nzero) x))
  | TLocal "ProximalSimplex" ["proj_simplex"] => Some (fun s x => proj_simplex diam x)
  | TLocal "ProximalSum" [] => Some (fun s x => Ok (prox_sumc csum x))
  | _ => None
  end.

(* which class / exponent attribute a model leaf stands for *)
Definition leaf_target (k : @leaf T) : target :=
  match k with
  | FL1 => resolve bind_LpNorm "self.exponent" (NInt 1)
  | FL2 => resolve bind_LpNorm "self.exponent" (NInt 2)
  | FLInf => resolve bind_LpNorm "self.exponent" NInf
  | FL2Sq => resolve bind_L2NormSquared "" NInf
  | FConst _ => resolve bind_ConstantFunctional "" NInf
  | FBox _ _ => resolve bind_IndicatorBox "" NInf
  | FIndZero _ => resolve bind_IndicatorZero "" NInf
  | FBallInf => resolve bind_IndicatorLpUnitBall "self.exponent" NInf
  | FBall2 => resolve bind_IndicatorLpUnitBall "self.exponent" (NInt 2)
  | FBall1 => resolve bind_IndicatorLpUnitBall "self.exponent" (NInt 1)
  | FHuber _ | FHuberG _ _ _ => resolve bind_Huber "" NInf
  | FSimplex _ => resolve bind_IndicatorSimplex "" NInf
  | FGroupL1 _ _ two => resolve bind_GroupL1Norm "self.pointwise_norm.exponent" (if two then NInt 2 else NInt 1)
  | FGroupBall _ _ two => resolve bind_IndicatorGroupL1UnitBall "self.pointwise_norm.exponent" (if two then NInt 2 else NInf)
  | FSumC _ => resolve bind_IndicatorSumConstraint "" NInf
  end.

Definition leaf_prox_gen (k : @leaf T) (w : list T) (s : @sig T) (x : list T) : res (list T) :=
  let '(lo, hi) := match k with FBox lo hi => (lo, hi) | _ => (BNone, BNone) end in
  let gamma := match k with FHuber g | FHuberG _ _ g => g | _ => nzero end in
  let diam := match k with FSimplex dd => dd | _ => nzero end in
  let csum := match k with FSumC c => c | _ => nzero end in
  let '(m, d) := match k with FGroupL1 m d _ | FGroupBall m d _ => (m, d) | FHuberG m d _ => (m, d) | _ => (O, O) end in
  let pspace := match k with FHuberG _ _ _ => true | _ => false end in
  match model_factory (leaf_target k) w lo hi gamma diam csum pspace m d with
  | Some pf => pf s x
  | None => Err EOther
  end.

End Bind.

(* =========================================================================================
   Theorems: the hand model is what the regenerated fragments denote
   ========================================================================================= *)
Section Thm.
Context {T : Type} `{NS : NumS T}.
Hypothesis one_is_one : @of_Z T _ 1%Z = none_.      (* holds by reflexivity at Q and at R *)

Theorem leaf_prox_gen_eq (k : @leaf T) w s x : leaf_prox_gen k w s x = leaf_prox k w s x.
Proof. destruct k as [| | | | | | | | | | | | ? ? two | ? ? two | |]; try destruct two; reflexivity. Qed.

Definition base_env : env (T := T) := fun _ => VNone.
Definition fuel := 40%nat.

Ltac interp := lazy -[nmul ndiv nadd nsub nopp of_Z none_ nzero nsqrt nltb neqb vscal vsub vadd vlin mvec transpose
                       rmap rbind prox_arg_scaling prox_translation prox_convex_conj prox_composition prox_quad_pert
                       sig_scale sig_scale_l]; cbn [rmap rbind].
Definition rule_factory (b : pbody) (rho : env) : @factory T :=
  match inner_def b with Some (sname, body) => as_factory fuel sname body rho | None => fun _ _ => Err EOther end.

Lemma rbind_ok_rmap {A B} (r : res A) (f : A -> B) : rbind r (fun a => Ok (f a)) = rmap f r.
Proof. destruct r; reflexivity. Qed.

Theorem translation_expr_eq pf y sg x :
  rule_factory rule_proximal_translation (upd (upd base_env "prox_factory" (VFac pf)) "y" (VVec y)) (SScal sg) x
  = prox_translation pf y (SScal sg) x.
Proof. interp. unfold prox_translation. destruct (pf (SScal sg) (vsub x y)); reflexivity. Qed.

Theorem convex_conj_expr_eq pf sg x :
  rule_factory rule_proximal_convex_conj (upd base_env "prox_factory" (VFac pf)) (SScal sg) x
  = prox_convex_conj pf (SScal sg) x.
Proof. interp. rewrite one_is_one.
  unfold prox_convex_conj. destruct (pf _ _); reflexivity. Qed.

(* arg_scaling: the outer guard `scaling == 0 -> proximal_const_func` and the inner expression *)
Theorem arg_scaling_guard :
  match rule_proximal_arg_scaling with
  | BIfSeq (CIsScalar (PName "scaling")) (BIf (CCmp "scaling" "==" (NInt 0)) (BRet (PCall "proximal_const_func" _)) _) _ _ => True
  | _ => False end.
Proof. exact I. Qed.
Theorem arg_scaling_expr_eq pf c sg x : neqb c nzero = false ->
  rule_factory rule_proximal_arg_scaling (upd (upd base_env "prox_factory" (VFac pf)) "scaling" (VNum c)) (SScal sg) x
  = prox_arg_scaling pf c (SScal sg) x.
Proof. intros Hc. interp. rewrite one_is_one.
  unfold prox_arg_scaling. rewrite Hc. cbn [sig_scale]. destruct (pf _ _); reflexivity. Qed.

Theorem const_func_expr_eq sg x :
  rule_factory rule_proximal_const_func base_env (SScal sg) x = Ok x.
Proof. reflexivity. Qed.

Theorem composition_expr_eq pf n A mu sg x :
  rule_factory rule_proximal_composition
     (upd (upd (upd base_env "proximal" (VFac pf)) "operator" (VMat n A false)) "mu" (VNum mu)) (SScal sg) x
  = prox_composition pf n A mu (SScal sg) x.
Proof. interp. rewrite one_is_one.
  unfold prox_composition. cbn [sig_scale_l]. destruct (pf _ _); reflexivity. Qed.

Theorem quadratic_perturbation_guard :
  match rule_proximal_quadratic_perturbation with
  | BLet "a" (PCall "float" [PName "a"]) (BIfSeq (CCmp "a" "<" (NInt 0)) (BRaise "ValueError") BEnd _) => True
  | _ => False end.
Proof. exact I. Qed.
Theorem quadratic_perturbation_expr_eq pf a u sg x : nltb a nzero = false ->
  rule_factory rule_proximal_quadratic_perturbation
     (upd (upd (upd base_env "prox_factory" (VFac pf)) "a" (VNum a)) "u" (match u with Some v => VVec v | None => VNone end))
     (SScal sg) x
  = prox_quad_pert pf a u (SScal sg) x.
Proof. intros Ha.
  destruct u as [v|]; interp; rewrite !one_is_one; unfold prox_quad_pert; rewrite Ha;
    destruct (prox_arg_scaling pf _ _ _); reflexivity. Qed.

(* ---- wiring of the derived functionals (functional.py) ---- *)
Theorem wiring_right_scalar_mult :
  wire_FunctionalRightScalarMult = BRet (PCall "proximal_arg_scaling" [PAttr "self.functional.proximal"; PAttr "self.scalar"]).
Proof. reflexivity. Qed.
Theorem wiring_translation :
  wire_FunctionalTranslation = BRet (PCall "proximal_translation" [PAttr "self.functional.proximal"; PAttr "self.translation"]).
Proof. reflexivity. Qed.
Theorem wiring_scalar_sum : wire_FunctionalScalarSum = BRet (PAttr "self.left.proximal").
Proof. reflexivity. Qed.
Theorem wiring_default_convex_conj :
  wire_FunctionalDefaultConvexConjugate = BRet (PCall "proximal_convex_conj" [PAttr "self.convex_conj.proximal"]).
Proof. reflexivity. Qed.
Theorem wiring_bregman : wire_BregmanDistance = BRet (PAttr "self.__bregman_dist.proximal").
Proof. reflexivity. Qed.
Theorem wiring_quadratic_perturb :
  wire_FunctionalQuadraticPerturb =
  BIfSeq (CCmp "self.quadratic_coeff" "<" (NInt 0)) (BRaise "TypeError") BEnd
    (BRet (PCall "proximal_quadratic_perturbation"
             [PAttr "self.functional.proximal"; PKw "a" (PAttr "self.quadratic_coeff"); PKw "u" (PAttr "self.linear_term")])).
Proof. reflexivity. Qed.
(* LeftScalarMult: negative -> ValueError, zero -> const, else inner.proximal(sigma * scalar): interpreted *)
Definition left_scalar_gen (pf : @factory T) (c : T) : @factory T :=
  match wire_FunctionalLeftScalarMult with
  | BIf (CCmp "self.scalar" "<" (NInt 0)) (BRaise "ValueError")
      (BIf (CCmp "self.scalar" "==" (NInt 0)) (BRet (PCall "proximal_const_func" [PAttr "self.domain"]))
         (BDef f ["sigma"] (BRet (PCall "self.functional.proximal" [PBin "*" (PName "sigma") (PAttr "self.scalar")]))
            (BRet (PName f')))) =>
      if String.eqb f f' then
        (if nltb c nzero then (fun _ _ => Err EValue)
         else if neqb c nzero then (fun _ x => Ok x)
         else (fun sg x => pf (sig_scale c sg) x))
      else (fun _ _ => Err EOther)
  | _ => fun _ _ => Err EOther
  end.
Theorem wiring_left_scalar_mult (e : @fexpr T) c : fprox (LScal c e) = left_scalar_gen (fprox e) c.
Proof. reflexivity. Qed.
Theorem wiring_separable_sum :
  bind_SeparableSum = BLet "proximals" (PComp (PAttr "func.proximal") "func" (PAttr "self.functionals"))
                        (BRet (PCall "combine_proximals" [PStar "proximals"])).
Proof. reflexivity. Qed.
Theorem wiring_kl :
  bind_KullbackLeibler = BRet (PCall "proximal_convex_conj" [PCall "proximal_convex_conj_kl" [PKw "space" (PAttr "self.domain"); PKw "g" (PAttr "self.prior")]])
  /\ bind_KullbackLeiblerConvexConj = BRet (PCall "proximal_convex_conj_kl" [PKw "space" (PAttr "self.domain"); PKw "g" (PAttr "self.prior")]).
Proof. split; reflexivity. Qed.
Theorem wiring_conj_l2 :
  rule_proximal_convex_conj_l2 = BLet "prox_l2" (PCall "proximal_l2" [PName "space"; PKw "lam" (PName "lam"); PKw "g" (PName "g")])
                                   (BRet (PCall "proximal_convex_conj" [PName "prox_l2"]))
  /\ rule_proximal_nonnegativity = BRet (PCall "proximal_box_constraint" [PName "space"; PKw "lower" (PNum (NInt 0))]).
Proof. split; reflexivity. Qed.
End Thm.
