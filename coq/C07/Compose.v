(* C07/Compose.v -- proximal_composition: prox of f o A when A A^T = mu I (matrices as lists of rows,
   unweighted spaces, plain transposes as used by the code). *)
From Coq Require Import ZArith QArith Reals Lra Lia List Bool Psatz.
From Verif Require Import Base.Num Base.Vec Base.VecR C07.Model C07.Convex C07.Rules.
Import ListNotations.
Local Open Scope R_scope.

(* ---------------- matrices as lists of rows ---------------- *)
Definition rows_ok (k n : nat) (A : list Rvec) : Prop := length A = k /\ Forall (fun r => length r = n) A.

Lemma dot_vadd_r n : forall x y z : Rvec, length x = n -> length y = n -> length z = n ->
  dot x (vadd y z) = dot x y + dot x z.
Proof. intros. rewrite dot_comm, dot_vadd_l by congruence. rewrite (dot_comm y), (dot_comm z). reflexivity. Qed.
Lemma dot_vscal_r c (x y : Rvec) : dot x (vscal c y) = c * dot x y.
Proof. rewrite dot_comm, dot_vscal_l, dot_comm. reflexivity. Qed.
Lemma dot_vsub_r n : forall x y z : Rvec, length x = n -> length y = n -> length z = n ->
  dot x (vsub y z) = dot x y - dot x z.
Proof.
  induction n as [|n IHn]; intros [|a x] [|b y] [|c z] Hx Hy Hz; cbn [length] in *; try lia.
  - cbv; lra.
  - unfv. cbn [vmap2]. rewrite !dot_cons, IHn by lia. numR. ring.
Qed.
Lemma dot_vsub_l n : forall x y z : Rvec, length x = n -> length y = n -> length z = n ->
  dot (vsub x y) z = dot x z - dot y z.
Proof. intros. rewrite dot_comm, (dot_vsub_r n) by assumption. rewrite (dot_comm z x), (dot_comm z y). reflexivity. Qed.

Lemma mvec_len k n A (x : Rvec) : rows_ok k n A -> length (mvec A x) = k.
Proof. intros [H _]. unfold mvec. rewrite map_length. assumption. Qed.

Lemma mvec_vadd k n A : rows_ok k n A -> forall x y : Rvec, length x = n -> length y = n ->
  mvec A (vadd x y) = vadd (mvec A x) (mvec A y).
Proof.
  intros [Hk Hr] x y Hx Hy. revert k Hk. induction Hr as [|r A Hl Hr IH]; intros k Hk; [reflexivity|].
  cbn [mvec map]. fold (mvec A (vadd x y)) (mvec A x) (mvec A y).
  rewrite (IH (length A) eq_refl), (dot_vadd_r n) by assumption. reflexivity.
Qed.
Lemma mvec_vscal A c (x : Rvec) : mvec A (vscal c x) = vscal c (mvec A x).
Proof.
  induction A as [|r A IH]; [reflexivity|]. cbn [mvec map]. fold (mvec A (vscal c x)) (mvec A x).
  rewrite IH, dot_vscal_r. reflexivity.
Qed.
Lemma mvec_vsub k n A : rows_ok k n A -> forall x y : Rvec, length x = n -> length y = n ->
  mvec A (vsub x y) = vsub (mvec A x) (mvec A y).
Proof.
  intros [Hk Hr] x y Hx Hy. revert k Hk. induction Hr as [|r A Hl Hr IH]; intros k Hk; [reflexivity|].
  cbn [mvec map]. fold (mvec A (vsub x y)) (mvec A x) (mvec A y).
  rewrite (IH (length A) eq_refl), (dot_vsub_r n) by assumption. reflexivity.
Qed.

(* transpose *)
Lemma zipcons_len n : forall (r : Rvec) (T : list Rvec), length r = n -> length T = n -> length (zipcons r T) = n.
Proof.
  induction n as [|n IHn]; intros [|a r] [|c T] Hr HT; cbn [length] in *; try lia; [reflexivity|].
  cbn [zipcons length]. f_equal. apply IHn; lia.
Qed.
Lemma transpose_len k n A : rows_ok k n A -> length (transpose n A) = n.
Proof.
  intros [Hk Hr]. clear Hk. induction Hr as [|r A Hl Hr IH]; cbn [transpose].
  - apply repeat_length.
  - apply zipcons_len; assumption.
Qed.
Lemma mvec_zipcons n : forall (r : Rvec) (T : list Rvec) b (y : Rvec), length r = n -> length T = n ->
  mvec (zipcons r T) (b :: y) = vadd (vscal b r) (mvec T y).
Proof.
  induction n as [|n IHn]; intros [|a r] [|c T] b y Hr HT; cbn [length] in *; try lia; [reflexivity|].
  cbn [zipcons mvec map]. unfold mvec in *. unfv. cbn [map vmap2]. f_equal.
  - rewrite dot_cons. numR. ring.
  - apply IHn; lia.
Qed.
Lemma mvec_repeat_nil n (y : Rvec) : mvec (repeat [] n) y = repeat 0 n.
Proof. induction n; cbn; [reflexivity|]. f_equal. exact IHn. Qed.
Lemma dot_zero_r n : forall x : Rvec, length x = n -> dot x (repeat 0 n) = 0.
Proof.
  induction n as [|n IHn]; intros [|a x] Hx; cbn [length] in *; try lia; [reflexivity|].
  cbn [repeat]. rewrite dot_cons, IHn by lia. ring.
Qed.

(* <A x, y> = <x, A^T y> *)
Lemma adjoint_identity k n A : rows_ok k n A -> forall x y : Rvec, length x = n -> length y = k ->
  dot (mvec A x) y = dot x (mvec (transpose n A) y).
Proof.
  intros [Hk Hr] x. revert k Hk. induction Hr as [|r A Hl Hr IH]; intros k Hk y Hx Hy.
  - cbn [length] in Hk. subst k. destruct y; [|discriminate]. cbn [transpose mvec map].
    fold (mvec (repeat [] n) []). rewrite mvec_repeat_nil, (dot_zero_r n) by assumption. reflexivity.
  - cbn [length] in Hk. subst k. destruct y as [|b y]; [discriminate|]. cbn [length] in Hy.
    cbn [transpose]. change (mvec (r :: A) x) with (dot r x :: mvec A x). rewrite dot_cons.
    assert (RT : rows_ok (length A) n A) by (split; auto).
    rewrite (mvec_zipcons n) by (auto using (transpose_len (length A) n A)).
    rewrite (dot_vadd_r n); auto with vlen.
    + rewrite dot_vscal_r. rewrite (IH (length A) eq_refl y Hx ltac:(lia)). rewrite (dot_comm x r). ring.
    + unfold mvec. rewrite map_length. apply (transpose_len (length A) n A RT).
Qed.

Lemma wdot_repeat n : forall c (u v : Rvec), length u = n -> length v = n -> wdot (repeat c n) u v = c * dot u v.
Proof.
  induction n as [|n IHn]; intros c [|a u] [|b v] Hu Hv; cbn [length] in *; try lia.
  - cbv; lra.
  - cbn [repeat]. rewrite wdot_cons', dot_cons, IHn by lia. ring.
Qed.

Lemma vsub_x_vadd n : forall c (x t : Rvec), length x = n -> length t = n ->
  vsub x (vadd x (vscal c t)) = vscal (- c) t.
Proof. vind n. unfv; cbn [map vmap2]; f_equal; [numR; ring | apply IHn; lia]. Qed.
Lemma vsub_neg n : forall a q : Rvec, length a = n -> length q = n -> vsub a q = vscal (-1) (vsub q a).
Proof. vind n. unfv; cbn [map vmap2]; f_equal; [numR; ring | apply IHn; lia]. Qed.

(* ---------------- proximal_composition:  x + (1/mu) A^T (prox_{f, mu sigma}(A x) - A x),  A A^T = mu I ---------------- *)
Theorem rule_composition k n (f : Rvec -> option R) (A : list Rvec) (mu sigma : R) (x q : Rvec) :
  rows_ok k n A -> 0 < mu -> 0 < sigma -> length x = n ->
  (forall u, length u = k -> mvec A (mvec (transpose n A) u) = vscal mu u) ->
  is_proxs k f (repeat (/ (mu * sigma)) k) (mvec A x) q ->
  is_proxs n (fun z => f (mvec A z)) (repeat (/ sigma) n) x
           (vadd x (vscal (1 / mu) (mvec (transpose n A) (vsub q (mvec A x))))).
Proof.
  intros RA Hmu Hs Hx HAA (Hq & vq & Hv & Ho).
  pose proof (transpose_len k n A RA) as LT.
  assert (LAx : length (mvec A x) = k) by (apply (mvec_len k n); assumption).
  set (r := vsub q (mvec A x)). assert (Lr : length r = k) by (unfold r; auto with vlen).
  set (tr := mvec (transpose n A) r).
  assert (Ltr : length tr = n) by (unfold tr, mvec; rewrite map_length; assumption).
  set (p := vadd x (vscal (1 / mu) tr)). assert (Lp : length p = n) by (unfold p; auto with vlen).
  assert (HAp : mvec A p = q).
  { unfold p. rewrite (mvec_vadd k n) by auto with vlen. rewrite mvec_vscal. unfold tr. rewrite HAA by assumption.
    rewrite (vscal_vscal k) by assumption. replace (1 / mu * mu) with 1 by (field; lra).
    rewrite (vscal_one k) by assumption. unfold r. apply (vadd_vsub_cancel k); assumption. }
  split; [assumption|]. exists vq. split; [rewrite HAp; assumption|].
  intros z Hz. specialize (Ho (mvec A z) ltac:(apply (mvec_len k n); assumption)).
  assert (LAz : length (mvec A z) = k) by (apply (mvec_len k n); assumption).
  rewrite (wdot_repeat k) in Ho by auto with vlen.
  rewrite (wdot_repeat n) by auto with vlen.
  destruct (f (mvec A z)) as [vz|]; cbn [ele] in *; [|exact I].
  (* <z - p, x - p> = (1/mu) <A z - q, A x - q> *)
  assert (E : dot (vsub z p) (vsub x p) = / mu * dot (vsub (mvec A z) q) (vsub (mvec A x) q)).
  { assert (Exp : vsub x p = vscal (- (1 / mu)) tr) by (unfold p; apply (vsub_x_vadd n); assumption).
    rewrite Exp, dot_vscal_r. unfold tr.
    rewrite <- (adjoint_identity k n A RA) by auto with vlen.
    rewrite (mvec_vsub k n) by auto. rewrite HAp.
    assert (Er : vsub (mvec A x) q = vscal (-1) r) by (unfold r; apply (vsub_neg k); assumption).
    rewrite Er, dot_vscal_r. unfold Rdiv. ring. }
  rewrite E. replace (/ (mu * sigma)) with (/ sigma * / mu) in Ho by (field; split; lra). lra.
Qed.

