(* C07/Sound.v -- "sound proximal factory" is closed under every calculus rule of the MODEL combinators
   (prox_translation, prox_arg_scaling, left scaling, prox_quad_pert, prox_convex_conj, prox_combine,
   prox_composition), for arbitrary functionals.  Hence every finite composition of the rules -- convex
   conjugation at any position included -- applied to sound leaves is sound.  Scalar steps. *)
From Coq Require Import ZArith QArith Reals Lra Lia List Bool Psatz.
From Verif Require Import Base.Num Base.Vec Base.VecR C07.Model C07.Convex C07.Leaves C07.LeafThms C07.Rules C07.L2
  C07.Compose C07.Sorting C07.Group C07.Proofs.
Import ListNotations.
Local Open Scope R_scope.

Definition sound (n : nat) (w : Rvec) (f : Rvec -> option R) (pf : @factory R) : Prop :=
  forall sigma x, 0 < sigma -> length x = n ->
    exists p, pf (SScal sigma) x = Ok p /\ is_proxs n f (metric w (repeat sigma n)) x p.

Lemma metric_repeat_scale n w sigma c : c <> 0 -> length w = n ->
  metric w (repeat (sigma * c) n) = map (fun a => a * / c) (metric w (repeat sigma n)).
Proof.
  intros Hc Hw. rewrite <- (metric_scale n c w (repeat sigma n) Hc Hw (repeat_length _ _)).
  rewrite map_repeat. reflexivity.
Qed.

(* every well-formed tree of C07/Proofs.v is a sound factory for its value *)
Theorem sound_tree (e : fexprR) : wf e -> sound (fdim e) (fweights e) (fval e) (fprox e).
Proof.
  intros W sigma x Hs Hx.
  destruct (fprox_proxs_all e W (SScal sigma) x (sig_ok_scal e W _ Hs) Hx) as (p & Ep & Pp).
  rewrite sig_flat_scal in Pp. eauto.
Qed.

Theorem sound_translation n w f pf t : length w = n -> length t = n ->
  sound n w f pf -> sound n w (fun z => f (vsub z t)) (prox_translation pf t).
Proof.
  intros Hw Ht S sigma x Hs Hx.
  destruct (S sigma (vsub x t) Hs ltac:(auto with vlen)) as (q & Eq & Pq).
  exists (vadd t q). split; [unfold prox_translation; rewrite Eq; reflexivity|].
  apply rule_translation; auto. apply (metric_len n); auto using repeat_length.
Qed.

Theorem sound_left_scaling n w f pf s : 0 < s -> length w = n ->
  sound n w f pf -> sound n w (fun z => escal s (f z)) (fun sg x => pf (sig_scale s sg) x).
Proof.
  intros Hs0 Hw S sigma x Hs Hx.
  destruct (S (sigma * s) x ltac:(nra) Hx) as (q & Eq & Pq).
  exists q. split; [cbn [sig_scale]; numR; exact Eq|].
  rewrite (metric_repeat_scale n) in Pq by (auto; lra).
  apply rule_left_scaling; auto. apply (metric_len n); auto using repeat_length.
Qed.

Theorem sound_arg_scaling n w f pf c : c <> 0 -> length w = n ->
  sound n w f pf -> sound n w (fun z => f (vscal c z)) (prox_arg_scaling pf c).
Proof.
  intros Hc Hw S sigma x Hs Hx.
  assert (Hcc : 0 < c * c) by (destruct (Rtotal_order c 0) as [?|[?|?]]; [nra|contradiction|nra]).
  destruct (S (sigma * (c * c)) (vscal c x) ltac:(nra) ltac:(auto with vlen)) as (q & Eq & Pq).
  exists (vscal (1 / c) q). split.
  - unfold prox_arg_scaling. numR. destruct (Reqb_spec c 0); [contradiction|]. cbn [sig_scale]. numR. rewrite Eq. reflexivity.
  - rewrite (metric_repeat_scale n) in Pq by (auto; lra).
    apply rule_arg_scaling; auto. apply (metric_len n); auto using repeat_length.
Qed.

Theorem sound_scalar_sum n w f pf c : sound n w f pf -> sound n w (fun z => eadd (f z) (Some c)) pf.
Proof.
  intros S sigma x Hs Hx. destruct (S sigma x Hs Hx) as (q & Eq & Pq). exists q. split; [exact Eq|].
  apply is_proxs_add_const. exact Pq.
Qed.

Theorem sound_quadratic_perturbation n w f pf a u k : 0 <= a -> allpos w -> length w = n -> length u = n ->
  sound n w f pf ->
  sound n w (fun z => eadd (f z) (Some (a * wnormsq w z + wdot w z u + k))) (prox_quad_pert pf a (Some u)).
Proof.
  intros Ha Pw Hw Hu S sigma x Hs Hx.
  destruct (quad_const_facts sigma a Hs Ha) as (Hc & Hcc & Hc1).
  set (cc := 1 / sqrt (sigma * 2 * a + 1)) in *.
  assert (Hsc : 0 < sigma * (cc * cc)).
  { rewrite Hcc. apply Rmult_lt_0_compat; [assumption|]. apply Rinv_0_lt_compat. nra. }
  set (y := vscal cc (vlin cc x (- (sigma * cc)) u)).
  assert (Ly : length y = n) by (unfold y; auto with vlen).
  destruct (S (sigma * (cc * cc)) y Hsc Ly) as (p & Ep & Pp).
  exists p. split.
  - unfold prox_quad_pert. numS. destruct (Rltb_spec a 0); [lra|].
    unfold prox_arg_scaling. numS. fold cc. destruct (Reqb_spec cc 0); [contradiction|].
    cbn [sig_scale]. numR. fold y. rewrite Ep. cbn [rmap].
    rewrite (vscal_vscal n), Hc1, (vscal_one n) by (destruct Pp; assumption). reflexivity.
  - assert (Ey : y = vscal (/ (2 * sigma * a + 1)) (vsub x (vscal sigma u))).
    { unfold y. rewrite (vlin_as_sub n) by assumption. rewrite (vscal_vscal n) by auto with vlen. rewrite Hcc. reflexivity. }
    rewrite Ey, Hcc in Pp. apply rule_quadratic_perturbation; assumption.
Qed.

(* convex conjugation at any position: fs any conjugate of f w.r.t. the inner product of the space *)
Theorem sound_convex_conj n w f fs pf : allpos w -> length w = n ->
  is_conj n w f fs -> sound n w f pf -> sound n w fs (prox_convex_conj pf).
Proof.
  intros Pw Hw Hc S sigma x Hs Hx.
  assert (Hi : 0 < 1 / sigma) by (apply Rdiv_lt_0_compat; lra).
  destruct (S (1 / sigma) (vscal (1 / sigma) x) Hi ltac:(auto with vlen)) as (q & Eq & Pq).
  exists (vsub x (vscal sigma q)). split.
  - cbn [prox_convex_conj]. numR. rewrite Eq. reflexivity.
  - apply (rule_moreau n f); auto.
Qed.

(* separable sums on the product space *)
Theorem sound_combine n1 n2 w1 w2 f1 f2 p1 p2 : length w1 = n1 -> length w2 = n2 ->
  sound n1 w1 f1 p1 -> sound n2 w2 f2 p2 ->
  sound (n1 + n2) (w1 ++ w2) (fun z => eadd (f1 (firstn n1 z)) (f2 (skipn n1 z))) (prox_combine n1 p1 p2).
Proof.
  intros H1 H2 S1 S2 sigma x Hs Hx.
  set (x1 := firstn n1 x). set (x2 := skipn n1 x).
  assert (L1 : length x1 = n1) by (unfold x1; rewrite firstn_length; lia).
  assert (L2 : length x2 = n2) by (unfold x2; rewrite skipn_length; lia).
  assert (Ex : x = x1 ++ x2) by (unfold x1, x2; symmetry; apply firstn_skipn).
  destruct (S1 sigma x1 Hs L1) as (q1 & E1 & P1). destruct (S2 sigma x2 Hs L2) as (q2 & E2 & P2).
  exists (q1 ++ q2). split.
  - unfold prox_combine. fold x1 x2. rewrite E1. cbn [rbind]. rewrite E2. reflexivity.
  - rewrite repeat_app, (metric_app n1) by auto using repeat_length. rewrite Ex at 1.
    apply rule_separable; auto; apply (metric_len _); auto using repeat_length.
Qed.

(* composition with A A^T = mu I between unweighted spaces *)
Lemma metric_ones n c : c <> 0 -> metric (repeat 1 n) (repeat c n) = repeat (/ c) n.
Proof.
  intros Hc. induction n; cbn [repeat]; [reflexivity|]. unfold metric, vdiv in *. cbn [vmap2]. rewrite IHn. numR.
  f_equal. unfold Rdiv. ring.
Qed.
Theorem sound_composition k n f pf A mu : rows_ok k n A -> 0 < mu ->
  (forall u, length u = k -> mvec A (mvec (transpose n A) u) = vscal mu u) ->
  sound k (repeat 1 k) f pf ->
  sound n (repeat 1 n) (fun z => f (mvec A z)) (prox_composition pf n A mu).
Proof.
  intros RA Hmu HAA S sigma x Hs Hx.
  destruct (S (sigma * mu) (mvec A x) ltac:(nra) ltac:(apply (mvec_len k n); assumption)) as (q & Eq & Pq).
  eexists. split.
  - unfold prox_composition. cbn [sig_scale]. numR. rewrite Eq. cbn [rmap]. reflexivity.
  - rewrite metric_ones in * by nra. replace (/ (sigma * mu)) with (/ (mu * sigma)) in Pq by (f_equal; ring).
    apply (rule_composition k n); auto.
Qed.

(* ================= proximal_convex_conj_l2(space, lam, g) ================= *)
(* conjugate of  lam ||. - g||_w :  indicator of the lam-ball of the space norm plus <., g>_w *)
Definition F_ccl2 (lam : R) (g w y : Rvec) : option R :=
  if Rleb (wnormsq w y) (lam * lam) then Some (wdot w y g) else None.

Lemma sqrt_le_of_sq a lam : 0 <= a -> 0 < lam -> a <= lam * lam -> sqrt a <= lam.
Proof.
  intros Ha Hl H. rewrite <- (sqrt_square lam) by lra. apply sqrt_le_1_alt. assumption.
Qed.

Lemma wdot_vadd_r' n (w z x y : Rvec) : length w = n -> length z = n -> length x = n -> length y = n ->
  wdot w z (vadd x y) = wdot w z x + wdot w z y.
Proof. intros. rewrite wdot_sym, (wdot_vadd_l n) by assumption. rewrite (wdot_sym w x), (wdot_sym w y). reflexivity. Qed.

Theorem l2_conj_pair lam n g w : 0 < lam -> allpos w -> length w = n -> length g = n ->
  is_conj n w (F_l2 lam g w) (F_ccl2 lam g w).
Proof.
  intros Hl Pw Hw Hg y Hy. unfold F_l2, F_ccl2.
  assert (HN : 0 <= wnormsq w y) by (apply wnormsq_nonneg; assumption).
  set (N := sqrt (wnormsq w y)). assert (HN0 : 0 <= N) by apply sqrt_pos.
  assert (HNN : N * N = wnormsq w y) by (apply sqrt_sqrt; assumption).
  assert (Hsplit : forall z, length z = n -> wdot w y z = wdot w y g + wdot w y (vsub z g)).
  { intros z Hz. rewrite (wdot_vsub_r' n) by assumption. lra. }
  split.
  - intros z v Hz [= <-]. destruct (Rleb_spec (wnormsq w y) (lam * lam)) as [H1|H1]; cbn [ele]; [|exact I].
    rewrite (Hsplit z Hz).
    pose proof (cauchy_schwarz n w y (vsub z g) Pw Hw Hy ltac:(auto with vlen)) as CS. fold N in CS.
    pose proof (sqrt_le_of_sq _ lam HN Hl H1) as S1. fold N in S1.
    pose proof (sqrt_pos (wnormsq w (vsub z g))) as S2. nra.
  - intros M HM.
    assert (M0 : wdot w y g <= M).
    { specialize (HM g _ Hg eq_refl). rewrite (vsub_self n), (wnormsq_zero_vec n), sqrt_0 in HM by assumption. lra. }
    destruct (Rleb_spec (wnormsq w y) (lam * lam)) as [H1|H1]; cbn [ele]; [assumption|].
    apply Rnot_le_lt in H1.
    assert (HN1 : lam < N).
    { destruct (Rlt_dec lam N) as [|C]; [assumption|]. exfalso. apply Rnot_lt_le in C. nra. }
    set (t := (M - wdot w y g + 1) / (N * (N - lam))).
    assert (Ht : 0 < t) by (unfold t; apply Rdiv_lt_0_compat; nra).
    specialize (HM (vadd g (vscal t y)) _ ltac:(auto with vlen) eq_refl).
    rewrite (vsub_vadd_cancel n) in HM by auto with vlen.
    rewrite (wdot_vadd_r' n), (wdot_vscal_r' n) in HM by auto with vlen.
    rewrite (sqrt_wnormsq_vscal n) in HM by (auto; lra).
    fold (wnormsq w y) in HM. fold N in HM. rewrite <- HNN in HM.
    assert (t * (N * N) - lam * (t * N) = M - wdot w y g + 1) by (unfold t; field; split; lra).
    lra.
Qed.

(* proximal_convex_conj_l2(space, lam, g) = proximal_convex_conj(proximal_l2(space, lam, g)) is a sound factory of
   that conjugate *)
Theorem ccl2_factory_sound lam n g w : 0 < lam -> allpos w -> length w = n -> length g = n ->
  sound n w (F_ccl2 lam g w)
        (prox_convex_conj (fun s x => needs_scalar s (fun sg => Ok (@prox_l2 R _ _ w lam (Some g) sg x)))).
Proof.
  intros Hl Pw Hw Hg. apply (sound_convex_conj n w (F_l2 lam g w)); auto.
  - apply l2_conj_pair; assumption.
  - intros sigma x Hs Hx. eexists. split; [cbn [needs_scalar]; reflexivity|]. apply l2_factory_prox; auto.
Qed.

(* ================= proximal_l1_l2(space, lam, g) through translation and left scaling ================= *)
Lemma vsub_as_translated n : forall x g c : Rvec, length x = n -> length g = n -> length c = n ->
  vsub x c = vadd g (vsub (vsub x g) c).
Proof. vind n. unfv; cbn [vmap2]; f_equal; [numR; ring | apply IHn; lia]. Qed.

(* proximal_l1_l2(space, lam, g)(sigma)(x) = g + prox_{GroupL1Norm, sigma*lam}(x - g) *)
Lemma prox_l1_l2_as_rules m d lam g s x : length x = (d * m)%nat -> length g = (d * m)%nat ->
  @prox_l1_l2 R _ _ m d lam (Some g) s x = vadd g (@prox_l1_l2 R _ _ m d 1 None (s * lam) (vsub x g)).
Proof.
  intros Hx Hg. unfold prox_l1_l2, gsub. numS.
  set (diff := vsub x g). assert (Ld : length diff = (d * m)%nat) by (unfold diff; auto with vlen).
  destruct (chunks_rows m d diff Ld) as [RD CD].
  assert (E : map (fun a => nmax (a / (s * lam)) 1) (pw_norm m d diff)
            = map (fun a => nmax (a / (s * lam * 1)) 1) (pw_norm m d diff)).
  { apply map_ext. intros a. numR. replace (s * lam * 1) with (s * lam) by ring. reflexivity. }
  rewrite <- E. set (den := map (fun a => nmax (a / (s * lam)) 1) (pw_norm m d diff)).
  assert (Lden : length den = m).
  { unfold den, pw_norm, pw_normsq. rewrite !map_length. apply (cn_len d). assumption. }
  apply (vsub_as_translated (d * m)); auto.
  apply (concat_len d m). apply (crows_rows d m den _ RD Lden).
Qed.

Theorem l1_l2_factory_sound m d lam (g wb : Rvec) : 0 < lam -> (1 <= d)%nat -> allpos wb -> length wb = m ->
  length g = (d * m)%nat ->
  let w := concat (repeat wb d) in
  sound (d * m) w (fun z => escal lam (@leaf_val R _ _ (FGroupL1 m d true) w (vsub z g)))
        (fun s x => needs_scalar s (fun sg => Ok (@prox_l1_l2 R _ _ m d lam (Some g) sg x))).
Proof.
  intros Hl Hd Pw Lw Hg w.
  assert (Lww : length w = (d * m)%nat).
  { unfold w. clear -Lw. induction d; cbn [repeat concat]; [reflexivity|]. rewrite app_length, IHd. lia. }
  assert (S0 : sound (d * m) w (@leaf_val R _ _ (FGroupL1 m d true) w)
                 (fun s x => needs_scalar s (fun sg => Ok (@prox_l1_l2 R _ _ m d 1 None sg x)))).
  { intros sigma x Hs Hx. eexists. split; [cbn [needs_scalar]; reflexivity|]. apply groupl1_leaf_prox; auto. }
  pose proof (sound_translation (d * m) w _ _ g Lww Hg (sound_left_scaling (d * m) w _ _ lam Hl Lww S0)) as S1.
  intros sigma x Hs Hx. destruct (S1 sigma x Hs Hx) as (p & Ep & Pp).
  exists p. split; [|exact Pp].
  cbn [needs_scalar]. rewrite (prox_l1_l2_as_rules m d lam g sigma x Hx Hg).
  unfold prox_translation in Ep. cbn [sig_scale needs_scalar rmap] in Ep. numR. exact Ep.
Qed.
