(* C07/Leaves.v -- one-dimensional optimality lemmas and their lift to the
   separable leaf functionals / factories of the model (at R). *)
From Coq Require Import ZArith QArith Reals Lra Lia List Bool Psatz.
From Verif Require Import Base.Num Base.Vec Base.VecR C07.Model C07.Convex.
Import ListNotations.
Local Open Scope R_scope.

Lemma opt1_of_subgrad phi sigma x p vp :
  0 < sigma -> phi p = Some vp ->
  (forall t, ele (Some (vp + (x - p) / sigma * (t - p))) (phi t)) ->
  opt1 phi sigma x p.
Proof.
  intros Hs Hp Hsub. split; [eexists; eassumption|].
  intros t. rewrite Hp. specialize (Hsub t). destruct (phi t) as [vt|]; cbn [eadd ele] in *; [|exact I].
  numR.
  assert (Hr : 0 < / sigma) by (apply Rinv_0_lt_compat; assumption).
  set (r := / sigma) in *.
  replace ((p - x) * (p - x) / (2 * sigma)) with ((p - x) * (p - x) * r / 2) by (unfold r; field; lra).
  replace ((t - x) * (t - x) / (2 * sigma)) with ((t - x) * (t - x) * r / 2) by (unfold r; field; lra).
  unfold Rdiv in Hsub. fold r in Hsub.
  pose proof (Rmult_le_pos _ _ (Rle_0_sqr (t - p)) (Rlt_le _ _ Hr)) as Hsq. unfold Rsqr in Hsq.
  nra.
Qed.

Lemma opt1_of_sub1 phi sigma x p : 0 < sigma -> sub1 phi sigma x p -> opt1 phi sigma x p.
Proof. intros Hs (vp & Hv & H). eapply opt1_of_subgrad; eauto. Qed.

(* soft threshold *)
Definition soft1 (lam g s x : R) : R := x - (x - g) / Rmax (Rabs (x - g) / (s * lam)) 1.

Lemma soft1_opt lam g s x : 0 < lam -> 0 < s ->
  sub1 (fun t => Some (lam * Rabs (t - g))) s x (soft1 lam g s x).
Proof.
  intros Hl Hs. set (d := x - g).
  assert (Hsl : 0 < s * lam) by nra.
  destruct (Rle_dec (Rabs d) (s * lam)) as [Hc|Hc].
  - (* small: p = g *)
    assert (Hp : soft1 lam g s x = g).
    { unfold soft1. fold d. rewrite Rmax_right.
      - unfold d; field.
      - apply (Rmult_le_reg_r (s * lam)); [assumption|]. unfold Rdiv. rewrite Rmult_assoc, Rinv_l by lra. lra. }
    rewrite Hp. exists 0. split.
    + f_equal. rewrite Rminus_diag_eq by reflexivity. rewrite Rabs_R0. ring.
    + intros t. cbn [ele].
      replace ((x - g) / s * (t - g)) with (d * (t - g) * / s) by (unfold d; field; lra).
      assert (Hr : 0 < / s) by (apply Rinv_0_lt_compat; assumption).
      assert (d * (t - g) <= s * lam * Rabs (t - g)).
      { pose proof (Rabs_pos (t - g)). unfold Rabs in *. destruct (Rcase_abs d), (Rcase_abs (t - g)); nra. }
      assert (d * (t - g) * / s <= lam * Rabs (t - g)).
      { apply (Rmult_le_reg_r s); [assumption|]. rewrite Rmult_assoc, Rinv_l by lra. nra. }
      lra.
  - (* large *)
    apply Rnot_le_lt in Hc.
    assert (Hd : 0 < Rabs d) by lra.
    assert (Hp : soft1 lam g s x = x - s * lam * (d / Rabs d)).
    { unfold soft1. fold d. rewrite Rmax_left.
      - field. split; lra.
      - apply (Rmult_le_reg_r (s * lam)); [assumption|]. unfold Rdiv. rewrite Rmult_assoc, Rinv_l by lra. lra. }
    rewrite Hp.
    assert (Hsg : (d / Rabs d = 1 /\ 0 < d /\ Rabs d = d) \/ (d / Rabs d = -1 /\ d < 0 /\ Rabs d = - d)).
    { unfold Rabs in *. destruct (Rcase_abs d); [right|left]; repeat split; try lra; field; lra. }
    exists (lam * (Rabs d - s * lam)). split.
    + f_equal. f_equal. destruct Hsg as [(E & H & A)|(E & H & A)]; rewrite E; rewrite A in *.
      * rewrite Rabs_right; unfold d in *; lra.
      * rewrite Rabs_left; unfold d in *; lra.
    + intros t. cbn [ele].
      replace ((x - (x - s * lam * (d / Rabs d))) / s) with (lam * (d / Rabs d)) by (field; lra).
      destruct Hsg as [(E & H & A)|(E & H & A)]; rewrite E; rewrite A in *.
      * unfold Rabs; destruct (Rcase_abs (t - g)); unfold d in *; nra.
      * unfold Rabs; destruct (Rcase_abs (t - g)); unfold d in *; nra.
Qed.

Lemma opt1_ext phi psi s x p : (forall t, psi t = phi t) -> opt1 phi s x p -> opt1 psi s x p.
Proof. intros E [F O]. split; [rewrite E; exact F|]. intros t. rewrite !E. apply O. Qed.
Notation sub1_ext' := sub1_ext.

Lemma opt1_quadratic a b c s x p : 0 < s -> 0 <= a -> x - p = s * (2 * a * p + b) ->
  sub1 (fun t => Some (a * t * t + b * t + c)) s x p.
Proof.
  intros Hs Ha Hp. exists (a * p * p + b * p + c). split; [reflexivity|].
  intros t. cbn [ele]. rewrite Hp. replace (s * (2 * a * p + b) / s) with (2 * a * p + b) by (field; lra).
  pose proof (Rmult_le_pos _ _ Ha (Rle_0_sqr (t - p))) as Hsq. unfold Rsqr in Hsq. nra.
Qed.

(* L2 squared: lam (t - g)^2 *)
Lemma l2sq_opt lam g s x : 0 < lam -> 0 < s ->
  sub1 (fun t => Some (lam * ((t - g) * (t - g)))) s x ((x + s * (2 * lam * g)) / (1 + 2 * s * lam)).
Proof.
  intros Hl Hs. assert (0 < s * lam) by nra.
  apply (sub1_ext (fun t => Some (lam * t * t + (- 2 * lam * g) * t + lam * g * g))).
  { intros t. f_equal. ring. }
  apply opt1_quadratic; try lra. field. lra.
Qed.
Lemma l2sq0_opt lam s x : 0 < lam -> 0 < s ->
  sub1 (fun t => Some (lam * (t * t))) s x (x / (1 + 2 * s * lam)).
Proof.
  intros Hl Hs. assert (0 < s * lam) by nra.
  apply (sub1_ext (fun t => Some (lam * t * t + 0 * t + 0))).
  { intros t. f_equal. ring. }
  apply opt1_quadratic; try lra. field. lra.
Qed.

(* conjugate of lam ||. - g||^2 :  t^2/(4 lam) + t g *)
Lemma ccl2sq_opt lam g s x : 0 < lam -> 0 < s ->
  sub1 (fun t => Some (t * t / (4 * lam) + t * g)) s x ((x - s * g) / (1 + / 2 / lam * s)).
Proof.
  intros Hl Hs.
  assert (Hil : 0 < / lam) by (apply Rinv_0_lt_compat; assumption).
  assert (0 < / lam * s) by nra.
  apply (sub1_ext (fun t => Some (/ (4 * lam) * t * t + g * t + 0))).
  { intros t. f_equal. field. lra. }
  apply opt1_quadratic; try lra.
  - rewrite Rinv_mult by lra. lra.
  - field. split; [lra|]. intro E. assert (2 * lam + s = 0) by lra. lra.
Qed.
Lemma ccl2sq0_opt lam s x : 0 < lam -> 0 < s ->
  sub1 (fun t => Some (t * t / (4 * lam))) s x (x / (1 + / 2 / lam * s)).
Proof.
  intros Hl Hs.
  assert (Hil : 0 < / lam) by (apply Rinv_0_lt_compat; assumption).
  assert (0 < / lam * s) by nra.
  apply (sub1_ext (fun t => Some (/ (4 * lam) * t * t + 0 * t + 0))).
  { intros t. f_equal. field. lra. }
  apply opt1_quadratic; try lra.
  - rewrite Rinv_mult by lra. lra.
  - field. split; [lra|]. intro E. assert (2 * lam + s = 0) by lra. lra.
Qed.

(* projections: phi = indicator (+ finite part), decided by a boolean; variational inequality *)
Lemma sub1_proj (S : R -> bool) (lin : R -> R) s x p : 0 < s ->
  S p = true ->
  (forall t, S t = true -> lin p + (x - p) / s * (t - p) <= lin t) ->
  sub1 (fun t => if S t then Some (lin t) else None) s x p.
Proof.
  intros Hs Hp Hn. exists (lin p). split; [rewrite Hp; reflexivity|].
  intros t. destruct (S t) eqn:E; cbn [ele]; [|exact I]. apply Hn; assumption.
Qed.

Lemma vi_div s a : 0 < s -> a <= 0 -> a / s <= 0.
Proof. intros Hs Ha. unfold Rdiv. assert (0 < / s) by (apply Rinv_0_lt_compat; assumption). nra. Qed.

Ltac case_ifs := repeat match goal with
  | |- context [Rle_dec ?a ?b] =>
      lazymatch a with context [Rle_dec _ _] => fail | _ =>
      lazymatch b with context [Rle_dec _ _] => fail | _ => destruct (Rle_dec a b) end end
  | H : context [Rle_dec ?a ?b] |- _ =>
      lazymatch a with context [Rle_dec _ _] => fail | _ =>
      lazymatch b with context [Rle_dec _ _] => fail | _ => destruct (Rle_dec a b) end end
  end.

Lemma sq_mono a b : (0 <= a <= b \/ b <= a <= 0) -> a * a <= b * b.
Proof. intros [[H1 H2]|[H1 H2]]; nra. Qed.

(* box *)
Definition clamp1 (lo hi : option R) (t : R) : R :=
  let y := match lo with Some l => Rmax t l | None => t end in
  match hi with Some h => Rmin y h | None => y end.

Lemma clamp1_opt lo hi s x : 0 < s ->
  sub1 (fun t => if Reqb (clamp1 lo hi t) t then Some 0 else None) s x (clamp1 lo hi x).
Proof.
  intros Hs. apply (sub1_proj (fun t => Reqb (clamp1 lo hi t) t) (fun _ => 0)); [assumption| |].
  - destruct (Reqb_spec (clamp1 lo hi (clamp1 lo hi x)) (clamp1 lo hi x)) as [|N]; [reflexivity|].
    exfalso; apply N. unfold clamp1. destruct lo as [l|], hi as [h|]; unfold Rmax, Rmin; case_ifs; lra.
  - intros t Ht. destruct (Reqb_spec (clamp1 lo hi t) t) as [E|]; [|discriminate].
    assert ((x - clamp1 lo hi x) * (t - clamp1 lo hi x) <= 0).
    { unfold clamp1 in *. destruct lo as [l|], hi as [h|]; unfold Rmax, Rmin in *; case_ifs; nra. }
    pose proof (vi_div s _ Hs H) as Q. unfold Rdiv in *. lra.
Qed.

(* {0} *)
Lemma zero_opt s x : 0 < s -> sub1 (fun t => if Reqb t 0 then Some 0 else None) s x 0.
Proof.
  intros Hs. apply (sub1_proj (fun t => Reqb t 0) (fun _ => 0)); [assumption| |].
  - destruct (Reqb_spec 0 0); [reflexivity|lra].
  - intros t Ht. destruct (Reqb_spec t 0); [subst; lra|discriminate].
Qed.

(* constant *)
Lemma const_opt s x : 0 < s -> sub1 (fun t => Some 0) s x x.
Proof.
  intros Hs. exists 0. split; [reflexivity|].
  intros t. cbn [ele]. replace (x - x) with 0 by ring. unfold Rdiv; lra.
Qed.

(* conjugate of lam |. - g|: indicator of [-lam, lam] plus t g;  p = clip (x - s g) *)
Definition ccl1_1 (lam d : R) : R := d / (Rmax (Rabs d) lam / lam).
Lemma ccl1_1_cases lam d : 0 < lam ->
  (Rabs d <= lam /\ ccl1_1 lam d = d) \/ (lam < d /\ ccl1_1 lam d = lam) \/ (d < - lam /\ ccl1_1 lam d = - lam).
Proof.
  intros Hl. unfold ccl1_1, Rmax. destruct (Rle_dec (Rabs d) lam) as [H|H].
  - left. split; [assumption|]. field. lra.
  - apply Rnot_le_lt in H. right. unfold Rabs in *. destruct (Rcase_abs d); [right|left]; split; try lra; field; lra.
Qed.
Lemma ccl1_opt lam g s x : 0 < lam -> 0 < s ->
  sub1 (fun t => if Rleb (Rabs t) lam then Some (t * g) else None) s x (ccl1_1 lam (x - s * g)).
Proof.
  intros Hl Hs. set (d := x - s * g). set (p := ccl1_1 lam d).
  assert (Hp : Rabs p <= lam /\ forall t, Rabs t <= lam -> (d - p) * (t - p) <= 0).
  { assert (Habs : forall t, Rabs t <= lam -> - lam <= t <= lam).
    { intros t Ht. unfold Rabs in Ht. destruct (Rcase_abs t); lra. }
    destruct (ccl1_1_cases lam d Hl) as [[H E]|[[H E]|[H E]]]; unfold p; rewrite E; split.
    - assumption.
    - intros t Ht. replace (d - d) with 0 by ring. lra.
    - rewrite Rabs_right; lra.
    - intros t Ht. apply Habs in Ht. nra.
    - rewrite Rabs_left; lra.
    - intros t Ht. apply Habs in Ht. nra. }
  destruct Hp as [Hp1 Hp2].
  apply (sub1_proj (fun t => Rleb (Rabs t) lam) (fun t => t * g)); [assumption| |].
  - destruct (Rleb_spec (Rabs p) lam); [reflexivity|contradiction].
  - intros t Ht. destruct (Rleb_spec (Rabs t) lam) as [Ht'|]; [|discriminate].
    specialize (Hp2 t Ht').
    pose proof (vi_div s _ Hs Hp2) as Q.
    replace ((x - p) / s * (t - p)) with ((d - p) * (t - p) / s + g * (t - p)) by (unfold d; field; lra).
    lra.
Qed.

Definition hub (gamma t : R) : R := @huber1 R _ gamma t.

Lemma hub_cases gamma t : 0 <= gamma ->
  (0 < gamma /\ gamma <= Rabs t /\ hub gamma t = Rabs t - gamma / 2) \/
  (0 < gamma /\ Rabs t < gamma /\ hub gamma t = t * t * (1 / (2 * gamma))) \/
  (gamma = 0 /\ hub gamma t = Rabs t).
Proof.
  intros Hg. unfold hub, huber1. numR.
  destruct (Rltb_spec 0 gamma) as [H|H].
  - destruct (Rleb_spec gamma (Rabs t)) as [H'|H'].
    + left. auto.
    + right; left. split; [assumption|]. split; [lra|reflexivity].
  - right; right. split; [lra|reflexivity].
Qed.

Lemma abs_cases t : (0 <= t /\ Rabs t = t) \/ (t < 0 /\ Rabs t = - t).
Proof. unfold Rabs. destruct (Rcase_abs t); [right|left]; lra. Qed.

(* Fenchel-type lower bound: hub t >= u t - gamma u^2/2 for |u| <= 1 *)
Lemma hub_lower gamma t u : 0 <= gamma -> -1 <= u <= 1 -> u * t - gamma * u * u / 2 <= hub gamma t.
Proof.
  intros Hg Hu. destruct (hub_cases gamma t Hg) as [(G & A & E)|[(G & A & E)|(G & E)]]; rewrite E.
  - destruct (abs_cases t) as [[S Et]|[S Et]]; rewrite Et in *.
    + assert (0 <= t - gamma * (1 + u) / 2) by nra.
      assert (0 <= (1 - u) * (t - gamma * (1 + u) / 2)) by (apply Rmult_le_pos; lra). lra.
    + assert (0 <= - t - gamma * (1 - u) / 2) by nra.
      assert (0 <= (1 + u) * (- t - gamma * (1 - u) / 2)) by (apply Rmult_le_pos; lra). lra.
  - assert (Hk : 2 * gamma * (1 / (2 * gamma)) = 1) by (field; lra).
    set (k := 1 / (2 * gamma)) in *.
    assert (Hkp : 0 < k) by (unfold k; apply Rdiv_lt_0_compat; lra).
    pose proof (Rmult_le_pos _ _ (Rlt_le _ _ Hkp) (Rle_0_sqr (t - gamma * u))) as Hs. unfold Rsqr in Hs.
    replace (k * ((t - gamma * u) * (t - gamma * u)))
      with (t * t * k - (2 * gamma * k) * (u * t) + (2 * gamma * k) * (gamma * u * u / 2)) in Hs by field.
    rewrite Hk in Hs. lra.
  - subst gamma. destruct (abs_cases t) as [[S Et]|[S Et]]; rewrite Et; nra.
Qed.

(* equality cases *)
Lemma hub_eq_small gamma u : 0 <= gamma -> -1 <= u <= 1 ->
  hub gamma (gamma * u) = u * (gamma * u) - gamma * u * u / 2.
Proof.
  intros Hg Hu. destruct (hub_cases gamma (gamma * u) Hg) as [(G & A & E)|[(G & A & E)|(G & E)]]; rewrite E.
  - destruct (abs_cases (gamma * u)) as [[S Et]|[S Et]]; rewrite Et in *.
    + assert (u = 1) by nra. subst u. lra.
    + assert (u = -1) by nra. subst u. lra.
  - field. lra.
  - subst gamma. rewrite Rmult_0_l, Rabs_R0. lra.
Qed.
Lemma hub_eq_large gamma p u : 0 <= gamma -> gamma <= Rabs p ->
  (u = 1 /\ 0 <= p \/ u = -1 /\ p <= 0) ->
  hub gamma p = u * p - gamma * u * u / 2.
Proof.
  intros Hg Hp Hu. destruct (hub_cases gamma p Hg) as [(G & A & E)|[(G & A & E)|(G & E)]]; rewrite E.
  - destruct Hu as [[-> S]|[-> S]].
    + rewrite Rabs_right by lra. lra.
    + rewrite Rabs_left1 by lra. lra.
  - lra.
  - subst gamma. destruct Hu as [[-> S]|[-> S]].
    + rewrite Rabs_right by lra. lra.
    + rewrite Rabs_left1 by lra. lra.
Qed.

Definition huber_p (gamma s x : R) : R :=
  if Rleb (Rabs x) (gamma + s) then gamma / (gamma + s) * x else x - s * @nsign R _ x.

Lemma huber_opt gamma s x : 0 <= gamma -> 0 < s ->
  sub1 (fun t => Some (hub gamma t)) s x (huber_p gamma s x).
Proof.
  intros Hg Hs. unfold huber_p.
  destruct (Rleb_spec (Rabs x) (gamma + s)) as [H|H].
  - set (u := x / (gamma + s)).
    assert (Hu : -1 <= u <= 1).
    { unfold u. destruct (abs_cases x) as [[S E]|[S E]]; rewrite E in H; split.
      - apply Rle_trans with 0; [lra|]. apply Rmult_le_pos; [lra|]. apply Rlt_le, Rinv_0_lt_compat; lra.
      - apply (Rmult_le_reg_r (gamma + s)); [lra|]. unfold Rdiv. rewrite Rmult_assoc, Rinv_l by lra. lra.
      - apply (Rmult_le_reg_r (gamma + s)); [lra|]. unfold Rdiv. rewrite Rmult_assoc, Rinv_l by lra. lra.
      - apply Rle_trans with 0; [|lra]. apply (Rmult_le_reg_r (gamma + s)); [lra|].
        unfold Rdiv. rewrite Rmult_assoc, Rinv_l by lra. lra. }
    assert (Hp : gamma / (gamma + s) * x = gamma * u) by (unfold u; field; lra).
    rewrite Hp.
    exists (u * (gamma * u) - gamma * u * u / 2). split.
    + f_equal. apply hub_eq_small; assumption.
    + intros t. cbn [ele].
      replace ((x - gamma * u) / s) with u by (unfold u; field; lra).
      pose proof (hub_lower gamma t u Hg Hu). lra.
  - apply Rnot_le_lt in H.
    assert (Hsg : (@nsign R _ x = 1 /\ 0 < x) \/ (@nsign R _ x = -1 /\ x < 0)).
    { unfold nsign. numR. destruct (Rltb_spec 0 x) as [P|P]; [left; split; [reflexivity|assumption]|].
      destruct (Rltb_spec x 0) as [Q|Q]; [right; split; [reflexivity|assumption]|].
      exfalso. assert (x = 0) by lra. subst x. rewrite Rabs_R0 in H. lra. }
    set (u := @nsign R _ x) in *.
    assert (Hu : -1 <= u <= 1) by (destruct Hsg as [[-> _]|[-> _]]; lra).
    assert (Hlarge : gamma <= Rabs (x - s * u) /\ (u = 1 /\ 0 <= x - s * u \/ u = -1 /\ x - s * u <= 0)).
    { destruct Hsg as [[E P]|[E P]]; rewrite E.
      - rewrite (Rabs_right x) in H by lra. rewrite Rabs_right by lra. split; [lra|]. left; split; lra.
      - rewrite (Rabs_left x) in H by lra. rewrite Rabs_left by lra. split; [lra|]. right; split; lra. }
    destruct Hlarge as [HL HS].
    exists (u * (x - s * u) - gamma * u * u / 2). split.
    + f_equal. apply hub_eq_large; assumption.
    + intros t. cbn [ele].
      replace ((x - (x - s * u)) / s) with u by (field; lra).
      pose proof (hub_lower gamma t u Hg Hu). lra.
Qed.

