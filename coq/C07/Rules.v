(* C07/Rules.v -- the calculus rules of proximal_operators.py preserve "is the proximal point"
   (abstract functional f on a weighted list space, metric = weights / step). *)
From Coq Require Import ZArith QArith Reals Lra Lia List Bool Psatz.
From Verif Require Import Base.Num Base.Vec Base.VecR C07.Model C07.Convex.
Import ListNotations.
Local Open Scope R_scope.

(* ---------------- translation:  y + prox_f(x - y) ---------------- *)
Theorem rule_translation n f m t x q :
  length m = n -> length t = n -> length x = n ->
  is_proxm n f m (vsub x t) q ->
  is_proxm n (fun z => f (vsub z t)) m x (vadd t q).
Proof.
  intros Hm Ht Hx (Hq & Hf & Ho). split; [auto with vlen|]. split.
  - rewrite (vsub_vadd_cancel n) by assumption. assumption.
  - intros z Hz. specialize (Ho (vsub z t) ltac:(auto with vlen)).
    rewrite !prox_obj_R in *.
    rewrite (vsub_vadd_cancel n) by assumption.
    rewrite (vsub_vsub_cancel n) in Ho by assumption.
    rewrite (vsub_vadd_l n) by assumption. exact Ho.
Qed.

(* ---------------- positive left scaling:  prox_{s f, sigma} = prox_{f, sigma s} ---------------- *)
Theorem rule_left_scaling n f m s x q :
  0 < s -> length m = n -> length x = n ->
  is_proxm n f (map (fun a => a * / s) m) x q ->
  is_proxm n (fun z => escal s (f z)) m x q.
Proof.
  intros Hs Hm Hx (Hq & (v & Hv) & Ho). split; [assumption|]. split.
  - rewrite Hv. eexists; reflexivity.
  - intros z Hz. specialize (Ho z Hz). rewrite !prox_obj_R in *. rewrite Hv in *. cbn [escal].
    rewrite !(wnormsq_metric_scale n) in Ho by auto with vlen.
    destruct (f z) as [vz|]; cbn [escal ele] in *; [|exact I]. numR.
    assert (Hi : 0 < / s) by (apply Rinv_0_lt_compat; assumption).
    set (A := wnormsq m (vsub q x)) in *. set (B := wnormsq m (vsub z x)) in *.
    assert (s * (v + / s * A / 2) <= s * (vz + / s * B / 2)) by (apply Rmult_le_compat_l; lra).
    replace (s * (v + / s * A / 2)) with (s * v + A / 2) in H by (field; lra).
    replace (s * (vz + / s * B / 2)) with (s * vz + B / 2) in H by (field; lra). exact H.
Qed.

(* ---------------- argument scaling:  (1/c) prox_{f, sigma c^2}(c x) ---------------- *)
Lemma vsub_vscal_inv n : forall c (q x : Rvec), c <> 0 -> length q = n -> length x = n ->
  vsub (vscal (1 / c) q) x = vscal (1 / c) (vsub q (vscal c x)).
Proof.
  induction n as [|n IHn]; intros c [|a q] [|b x] Hc Hq Hx; cbn [length] in *; try lia; [reflexivity|].
  unfv. cbn [map vmap2]. f_equal; [numR; field; assumption | apply IHn; auto; lia].
Qed.

Theorem rule_arg_scaling n f m c x q :
  c <> 0 -> length m = n -> length x = n ->
  is_proxm n f (map (fun a => a * / (c * c)) m) (vscal c x) q ->
  is_proxm n (fun z => f (vscal c z)) m x (vscal (1 / c) q).
Proof.
  intros Hc Hm Hx (Hq & (v & Hv) & Ho).
  assert (Hcc : c * (1 / c) = 1) by (field; assumption).
  assert (Hqq : vscal c (vscal (1 / c) q) = q).
  { rewrite (vscal_vscal n), Hcc by assumption. apply (vscal_one n); assumption. }
  split; [auto with vlen|]. split.
  - rewrite Hqq, Hv. eexists; reflexivity.
  - intros z Hz. specialize (Ho (vscal c z) ltac:(auto with vlen)).
    rewrite !prox_obj_R in *. rewrite Hqq. rewrite Hv in *.
    rewrite !(wnormsq_metric_scale n) in Ho by auto with vlen.
    rewrite (vsub_vscal n) in Ho by assumption.
    rewrite (wnormsq_vscal n) in Ho by auto with vlen.
    rewrite (vsub_vscal_inv n) by assumption.
    rewrite (wnormsq_vscal n) by auto with vlen.
    destruct (f (vscal c z)) as [vz|]; cbn [ele] in *; [|exact I].
    set (A := wnormsq m (vsub q (vscal c x))) in *. set (B := wnormsq m (vsub z x)) in *.
    replace (/ (c * c) * (c * c * B)) with B in Ho by (field; assumption).
    replace (1 / c * (1 / c) * A) with (/ (c * c) * A) by (field; assumption). exact Ho.
Qed.

(* ---------------- separable sum on the product space ---------------- *)
Theorem rule_separable n1 n2 f1 f2 m1 m2 x1 x2 p1 p2 :
  length m1 = n1 -> length x1 = n1 -> length m2 = n2 -> length x2 = n2 ->
  is_proxm n1 f1 m1 x1 p1 -> is_proxm n2 f2 m2 x2 p2 ->
  is_proxm (n1 + n2) (fun z => eadd (f1 (firstn n1 z)) (f2 (skipn n1 z))) (m1 ++ m2) (x1 ++ x2) (p1 ++ p2).
Proof.
  intros Hm1 Hx1 Hm2 Hx2 (Hp1 & (v1 & Hv1) & Ho1) (Hp2 & (v2 & Hv2) & Ho2).
  assert (Hfp : firstn n1 (p1 ++ p2) = p1).
  { rewrite <- Hp1. rewrite firstn_app, Nat.sub_diag, firstn_all. cbn. apply app_nil_r. }
  assert (Hsp : skipn n1 (p1 ++ p2) = p2).
  { rewrite <- Hp1. rewrite skipn_app, Nat.sub_diag, skipn_all. reflexivity. }
  split; [rewrite app_length; lia|]. split.
  - rewrite Hfp, Hsp, Hv1, Hv2. eexists; reflexivity.
  - intros z Hz. rewrite !prox_obj_R. rewrite Hfp, Hsp, Hv1, Hv2. cbn [eadd].
    remember (firstn n1 z) as z1 eqn:E1. remember (skipn n1 z) as z2 eqn:E2.
    assert (Hz1 : length z1 = n1) by (subst z1; rewrite firstn_length; lia).
    assert (Hz2 : length z2 = n2) by (subst z2; rewrite skipn_length; lia).
    assert (Ez : z = z1 ++ z2) by (subst z1 z2; symmetry; apply firstn_skipn).
    clear E1 E2.
    specialize (Ho1 z1 Hz1). specialize (Ho2 z2 Hz2). rewrite !prox_obj_R in Ho1, Ho2. rewrite Hv1 in Ho1. rewrite Hv2 in Ho2.
    rewrite Ez. rewrite !(vsub_app n1) by assumption.
    unfold wnormsq in *. rewrite !(wdot_app n1) by auto with vlen.
    destruct (f1 z1) as [a1|], (f2 z2) as [a2|]; cbn [eadd ele] in *; try exact I. numR. lra.
Qed.

Lemma wdot_vscal_r n c (w z x : Rvec) : length w = n -> length z = n -> length x = n ->
  wdot w z (vscal c x) = c * wdot w z x.
Proof. intros. rewrite wdot_sym, (wdot_vscal_l n), wdot_sym by assumption. reflexivity. Qed.
Lemma wdot_vsub_r n (w z x y : Rvec) : length w = n -> length z = n -> length x = n -> length y = n ->
  wdot w z (vsub x y) = wdot w z x - wdot w z y.
Proof. intros. rewrite wdot_sym, (wdot_vsub_l n) by assumption. rewrite (wdot_sym w x), (wdot_sym w y). reflexivity. Qed.

(* ---------------- quadratic perturbation  f + a||.||_w^2 + <., u>_w + k, scalar step ---------------- *)
Theorem rule_quadratic_perturbation n f w sigma a u k x q :
  0 < sigma -> 0 <= a -> length w = n -> length u = n -> length x = n ->
  is_proxm n f (metric w (repeat (sigma * / (2 * sigma * a + 1)) n))
           (vscal (/ (2 * sigma * a + 1)) (vsub x (vscal sigma u))) q ->
  is_proxm n (fun z => eadd (f z) (Some (a * wnormsq w z + wdot w z u + k)))
           (metric w (repeat sigma n)) x q.
Proof.
  intros Hs Ha Hw Hu Hx (Hq & (v & Hv) & Ho).
  set (c2 := / (2 * sigma * a + 1)) in *.
  assert (Hd : 0 < 2 * sigma * a + 1) by nra.
  assert (Hc2 : 0 < c2) by (apply Rinv_0_lt_compat; assumption).
  assert (Hc2d : c2 * (2 * sigma * a + 1) = 1) by (unfold c2; field; lra).
  set (x' := vscal c2 (vsub x (vscal sigma u))) in *.
  assert (Hx' : length x' = n) by (unfold x'; auto with vlen).
  split; [assumption|]. split; [rewrite Hv; eexists; reflexivity|].
  intros z Hz. specialize (Ho z Hz). rewrite !prox_obj_R in *. rewrite Hv in *.
  rewrite !(metric_scalar n) in * by (auto with vlen; nra).
  destruct (f z) as [vz|]; cbn [eadd ele] in *; [|exact I]. numR.
  rewrite (wnormsq_mid n w q x'), (wnormsq_mid n w z x') in Ho by assumption.
  rewrite (wnormsq_mid n w q x), (wnormsq_mid n w z x) by assumption.
  unfold x' in Ho at 1 3.
  rewrite !(wdot_vscal_r n), !(wdot_vsub_r n), !(wdot_vscal_r n) in Ho by auto with vlen.
  set (Qq := wnormsq w q) in *. set (Zz := wnormsq w z) in *. set (Xx := wnormsq w x) in *.
  set (X' := wnormsq w x') in *.
  set (Qx := wdot w q x) in *. set (Qu := wdot w q u) in *. set (Zx := wdot w z x) in *. set (Zu := wdot w z u) in *.
  assert (E : forall N L U, (N - 2 * (c2 * (L - sigma * U)) + X') / (2 * (sigma * c2))
                 = a * N + U + (N - 2 * L) / (2 * sigma) + X' / (2 * (sigma * c2))).
  { intros N L U. unfold c2. field. split; lra. }
  rewrite !E in Ho. unfold Rdiv in *. lra.
Qed.

