(* C07/Rules.v -- the calculus rules of proximal_operators.py preserve "p is the proximal point"
   in its variational form is_proxs (abstract functional f on a weighted list space,
   metric = weights / step).  No convexity assumption anywhere. *)
From Coq Require Import ZArith QArith Reals Lra Lia List Bool Psatz.
From Verif Require Import Base.Num Base.Vec Base.VecR C07.Model C07.Convex.
Import ListNotations.
Local Open Scope R_scope.

Lemma vsub_vadd_r n : forall z t q : Rvec, length z = n -> length t = n -> length q = n ->
  vsub z (vadd t q) = vsub (vsub z t) q.
Proof. vind n. unfv; cbn [vmap2]; f_equal; [numR; ring | apply IHn; lia]. Qed.
Lemma vsub_vadd_same n : forall x t q : Rvec, length x = n -> length t = n -> length q = n ->
  vsub x (vadd t q) = vsub (vsub x t) q.
Proof. apply vsub_vadd_r. Qed.

(* ---------------- translation:  y + prox_f(x - y) ---------------- *)
Theorem rule_translation n f m t x q :
  length m = n -> length t = n -> length x = n ->
  is_proxs n f m (vsub x t) q ->
  is_proxs n (fun z => f (vsub z t)) m x (vadd t q).
Proof.
  intros Hm Ht Hx (Hq & vq & Hv & Ho). split; [auto with vlen|]. exists vq. split.
  - rewrite (vsub_vadd_cancel n) by assumption. assumption.
  - intros z Hz. specialize (Ho (vsub z t) ltac:(auto with vlen)).
    rewrite !(vsub_vadd_r n) by assumption. exact Ho.
Qed.

(* ---------------- positive left scaling:  prox_{s f, sigma} = prox_{f, sigma s} ---------------- *)
Theorem rule_left_scaling n f m s x q :
  0 < s -> length m = n -> length x = n ->
  is_proxs n f (map (fun a => a * / s) m) x q ->
  is_proxs n (fun z => escal s (f z)) m x q.
Proof.
  intros Hs Hm Hx (Hq & v & Hv & Ho). split; [assumption|]. exists (s * v). split.
  - rewrite Hv. reflexivity.
  - intros z Hz. specialize (Ho z Hz).
    rewrite (wdot_metric_scale n) in Ho by auto with vlen.
    destruct (f z) as [vz|]; cbn [escal ele] in *; [|exact I]. numR.
    set (A := wdot m (vsub z q) (vsub x q)) in *.
    assert (s * (v + / s * A) <= s * vz) by (apply Rmult_le_compat_l; lra).
    replace (s * (v + / s * A)) with (s * v + A) in H by (field; lra). exact H.
Qed.

(* ---------------- argument scaling:  (1/c) prox_{f, sigma c^2}(c x) ---------------- *)
Lemma vsub_vscal_inv n : forall c (q x : Rvec), c <> 0 -> length q = n -> length x = n ->
  vsub (vscal c x) q = vscal c (vsub x (vscal (1 / c) q)).
Proof.
  induction n as [|n IHn]; intros c [|a q] [|b x] Hc Hq Hx; cbn [length] in *; try lia; [reflexivity|].
  unfv. cbn [map vmap2]. f_equal; [numR; field; assumption | apply IHn; auto; lia].
Qed.

Theorem rule_arg_scaling n f m c x q :
  c <> 0 -> length m = n -> length x = n ->
  is_proxs n f (map (fun a => a * / (c * c)) m) (vscal c x) q ->
  is_proxs n (fun z => f (vscal c z)) m x (vscal (1 / c) q).
Proof.
  intros Hc Hm Hx (Hq & v & Hv & Ho).
  assert (Hcc : c * (1 / c) = 1) by (field; assumption).
  assert (Hqq : vscal c (vscal (1 / c) q) = q).
  { rewrite (vscal_vscal n), Hcc by assumption. apply (vscal_one n); assumption. }
  split; [auto with vlen|]. exists v. split.
  - rewrite Hqq. assumption.
  - intros z Hz. specialize (Ho (vscal c z) ltac:(auto with vlen)).
    rewrite (wdot_metric_scale n) in Ho by auto with vlen.
    rewrite !(vsub_vscal_inv n) in Ho by assumption.
    rewrite (wdot_vscal_l n), (wdot_vscal_r' n) in Ho by auto with vlen.
    destruct (f (vscal c z)) as [vz|]; cbn [ele] in *; [|exact I].
    set (A := wdot m (vsub z (vscal (1 / c) q)) (vsub x (vscal (1 / c) q))) in *.
    replace (/ (c * c) * (c * (c * A))) with A in Ho by (field; assumption). exact Ho.
Qed.

(* ---------------- separable sum on the product space ---------------- *)
Theorem rule_separable n1 n2 f1 f2 m1 m2 x1 x2 p1 p2 :
  length m1 = n1 -> length x1 = n1 -> length m2 = n2 -> length x2 = n2 ->
  is_proxs n1 f1 m1 x1 p1 -> is_proxs n2 f2 m2 x2 p2 ->
  is_proxs (n1 + n2) (fun z => eadd (f1 (firstn n1 z)) (f2 (skipn n1 z))) (m1 ++ m2) (x1 ++ x2) (p1 ++ p2).
Proof.
  intros Hm1 Hx1 Hm2 Hx2 (Hp1 & v1 & Hv1 & Ho1) (Hp2 & v2 & Hv2 & Ho2).
  assert (Hfp : firstn n1 (p1 ++ p2) = p1).
  { rewrite <- Hp1. rewrite firstn_app, Nat.sub_diag, firstn_all. cbn. apply app_nil_r. }
  assert (Hsp : skipn n1 (p1 ++ p2) = p2).
  { rewrite <- Hp1. rewrite skipn_app, Nat.sub_diag, skipn_all. reflexivity. }
  split; [rewrite app_length; lia|]. exists (v1 + v2). split.
  - rewrite Hfp, Hsp, Hv1, Hv2. reflexivity.
  - intros z Hz.
    remember (firstn n1 z) as z1 eqn:E1. remember (skipn n1 z) as z2 eqn:E2.
    assert (Hz1 : length z1 = n1) by (subst z1; rewrite firstn_length; lia).
    assert (Hz2 : length z2 = n2) by (subst z2; rewrite skipn_length; lia).
    assert (Ez : z = z1 ++ z2) by (subst z1 z2; symmetry; apply firstn_skipn).
    clear E1 E2.
    specialize (Ho1 z1 Hz1). specialize (Ho2 z2 Hz2).
    rewrite Ez. rewrite !(vsub_app n1) by assumption.
    rewrite (wdot_app n1) by auto with vlen.
    destruct (f1 z1) as [a1|], (f2 z2) as [a2|]; cbn [eadd ele] in *; try exact I. numR. lra.
Qed.

(* ---------------- quadratic perturbation  f + a||.||_w^2 + <., u>_w + k, scalar step ---------------- *)
Lemma metric_scalar_dot n : forall (w u v : Rvec) sigma, length w = n -> length u = n -> length v = n -> sigma <> 0 ->
  wdot (metric w (repeat sigma n)) u v = wdot w u v / sigma.
Proof.
  induction n as [|n IHn]; intros [|a w] [|b u] [|c v] sigma Hw Hu Hv Hs; cbn [length] in *; try lia.
  - cbv. lra.
  - unfold metric in *; unfv; cbn [repeat vmap2]. rewrite !wdot_cons'.
    rewrite (IHn w u v sigma) by (auto; lia). numR. field. assumption.
Qed.

Theorem rule_quadratic_perturbation n f w sigma a u k x q :
  0 < sigma -> 0 <= a -> allpos w -> length w = n -> length u = n -> length x = n ->
  is_proxs n f (metric w (repeat (sigma * / (2 * sigma * a + 1)) n))
           (vscal (/ (2 * sigma * a + 1)) (vsub x (vscal sigma u))) q ->
  is_proxs n (fun z => eadd (f z) (Some (a * wnormsq w z + wdot w z u + k)))
           (metric w (repeat sigma n)) x q.
Proof.
  intros Hs Ha Pw Hw Hu Hx (Hq & v & Hv & Ho).
  set (c2 := / (2 * sigma * a + 1)) in *.
  assert (Hd : 0 < 2 * sigma * a + 1) by nra.
  assert (Hc2 : 0 < c2) by (apply Rinv_0_lt_compat; assumption).
  set (x' := vscal c2 (vsub x (vscal sigma u))) in *.
  assert (Hx' : length x' = n) by (unfold x'; auto with vlen).
  split; [assumption|]. exists (v + (a * wnormsq w q + wdot w q u + k)). split; [rewrite Hv; reflexivity|].
  intros z Hz. specialize (Ho z Hz).
  rewrite (metric_scalar_dot n) in * by (auto with vlen; nra).
  destruct (f z) as [vz|]; cbn [eadd ele] in *; [|exact I]. numR.
  (* expand every inner product over the atoms <z,z>, <z,q>, <q,q>, <z,x>, <q,x>, <z,u>, <q,u> *)
  rewrite (wdot_vsub_l n), !(wdot_vsub_r' n) in Ho by auto with vlen.
  unfold x' in Ho.
  rewrite !(wdot_vscal_r' n), !(wdot_vsub_r' n), !(wdot_vscal_r' n) in Ho by auto with vlen.
  rewrite (wdot_vsub_l n), !(wdot_vsub_r' n) by auto with vlen.
  assert (Hsq : 0 <= wnormsq w z - 2 * wdot w z q + wnormsq w q).
  { rewrite <- (wnormsq_mid n) by assumption. apply wnormsq_nonneg; assumption. }
  unfold wnormsq in *.
  set (Zz := wdot w z z) in *. set (Qq := wdot w q q) in *. set (Zq := wdot w z q) in *.
  set (Zx := wdot w z x) in *. set (Qx := wdot w q x) in *. set (Zu := wdot w z u) in *. set (Qu := wdot w q u) in *.
  assert (E : (c2 * (Zx - sigma * Zu) - Zq - (c2 * (Qx - sigma * Qu) - Qq)) / (sigma * c2)
              = (Zx - Zq - (Qx - Qq)) / sigma - (Zu - Qu) - 2 * a * (Zq - Qq)).
  { unfold c2. field. split; lra. }
  rewrite E in Ho.
  assert (0 <= a * (Zz - 2 * Zq + Qq)) by (apply Rmult_le_pos; assumption).
  lra.
Qed.
