(* Base/Num.v -- one numeric carrier class, executed at Q, proved at R.
   No proofs about models live here; only the class, its instances and the
   unfolding tactic used by every Proofs.v. *)
From Coq Require Import ZArith QArith Qabs Reals List Bool.
Import ListNotations.

Class Num (T : Type) := {
  nzero : T; none_ : T;
  nadd : T -> T -> T; nsub : T -> T -> T; nmul : T -> T -> T; ndiv : T -> T -> T;
  nopp : T -> T; nabs : T -> T;
  nltb : T -> T -> bool; nleb : T -> T -> bool; neqb : T -> T -> bool;
  of_Z : Z -> T }.

Declare Scope num_scope.
Delimit Scope num_scope with num.
Infix "+" := nadd : num_scope.
Infix "-" := nsub : num_scope.
Infix "*" := nmul : num_scope.
Infix "/" := ndiv : num_scope.
Notation "- x" := (nopp x) : num_scope.
Infix "<?" := nltb : num_scope.
Infix "<=?" := nleb : num_scope.
Infix "=?" := neqb : num_scope.

(* ---- executable instance: exact rationals, kept reduced ---- *)
Definition Qdiv' (a b : Q) : Q := Qred (Qdiv a b).
Global Instance Num_Q : Num Q := {|
  nzero := 0%Q; none_ := 1%Q;
  nadd := fun a b => Qred (Qplus a b); nsub := fun a b => Qred (Qminus a b);
  nmul := fun a b => Qred (Qmult a b); ndiv := Qdiv';
  nopp := Qopp; nabs := Qabs;
  nltb := fun a b => negb (Qle_bool b a); nleb := Qle_bool; neqb := Qeq_bool;
  of_Z := inject_Z |}.

(* ---- proof instance: classical reals ---- *)
Definition Rltb (a b : R) : bool := if Rlt_dec a b then true else false.
Definition Rleb (a b : R) : bool := if Rle_dec a b then true else false.
Definition Reqb (a b : R) : bool := if Req_EM_T a b then true else false.
Global Instance Num_R : Num R := {|
  nzero := 0%R; none_ := 1%R;
  nadd := Rplus; nsub := Rminus; nmul := Rmult; ndiv := Rdiv;
  nopp := Ropp; nabs := Rabs;
  nltb := Rltb; nleb := Rleb; neqb := Reqb;
  of_Z := IZR |}.

Lemma Rltb_spec a b : reflect (a < b)%R (Rltb a b).
Proof. unfold Rltb; destruct (Rlt_dec a b); constructor; assumption. Qed.
Lemma Rleb_spec a b : reflect (a <= b)%R (Rleb a b).
Proof. unfold Rleb; destruct (Rle_dec a b); constructor; assumption. Qed.
Lemma Reqb_spec a b : reflect (a = b) (Reqb a b).
Proof. unfold Reqb; destruct (Req_EM_T a b); constructor; assumption. Qed.

(* unfold the class projections at the R instance *)
Ltac numR :=
  cbn [nzero none_ nadd nsub nmul ndiv nopp nabs nltb nleb neqb of_Z Num_R] in *.

(* half, two etc. as carrier constants *)
Definition ntwo {T} `{Num T} : T := of_Z 2.
Definition nhalf {T} `{Num T} : T := ndiv (of_Z 1) (of_Z 2).
Definition nmax {T} `{Num T} (a b : T) : T := if nleb a b then b else a.
Definition nmin {T} `{Num T} (a b : T) : T := if nleb a b then a else b.
Definition nsign {T} `{Num T} (a : T) : T :=
  if nltb nzero a then none_ else if nltb a nzero then nopp none_ else nzero.

Lemma nmax_R a b : @nmax R _ a b = Rmax a b.
Proof. unfold nmax, Rmax; numR; unfold Rleb; destruct (Rle_dec a b); reflexivity. Qed.
Lemma nmin_R a b : @nmin R _ a b = Rmin a b.
Proof. unfold nmin, Rmin; numR; unfold Rleb; destruct (Rle_dec a b); reflexivity. Qed.

(* rational constants of the source embedded in any carrier *)
Definition of_Q {T} `{Num T} (c : Q) : T := ndiv (of_Z (Qnum c)) (of_Z (Zpos (Qden c))).
