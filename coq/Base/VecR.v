(* Base/VecR.v -- lemmas about Base.Vec at the R instance. *)
From Coq Require Import ZArith Reals Lra List Bool.
From Verif Require Import Base.Num Base.Vec.
Import ListNotations.
Local Open Scope R_scope.

Notation Rvec := (list R).

Lemma sumf_app (x y : Rvec) : sumf (x ++ y) = sumf x + sumf y.
Proof. induction x as [|a x IH]; cbn [sumf app]; numR; [lra | rewrite IH; lra]. Qed.

Lemma vmap2_length (f : R -> R -> R) (x y : Rvec) :
  length x = length y -> length (vmap2 f x y) = length x.
Proof.
  revert y; induction x as [|a x IH]; intros [|b y] Hl; cbn in *; try congruence.
  f_equal; apply IH; congruence.
Qed.

Lemma dot_nil_l (y : Rvec) : dot [] y = 0.
Proof. reflexivity. Qed.
Lemma dot_cons a b (x y : Rvec) : dot (a :: x) (b :: y) = a * b + dot x y.
Proof. reflexivity. Qed.

Lemma dot_comm (x y : Rvec) : dot x y = dot y x.
Proof.
  revert y; induction x as [|a x IH]; intros [|b y]; try reflexivity.
  rewrite !dot_cons, IH; lra.
Qed.

Lemma dot_vadd_l (x x' y : Rvec) : length x = length x' -> length x = length y ->
  dot (vadd x x') y = dot x y + dot x' y.
Proof.
  revert x' y; induction x as [|a x IH]; intros [|a' x'] [|b y] H1 H2; cbn in H1, H2; try congruence.
  - cbn; numR; lra.
  - unfold vadd in *; cbn [vmap2]; rewrite !dot_cons, IH by congruence; numR; lra.
Qed.

Lemma dot_vscal_l c (x y : Rvec) : dot (vscal c x) y = c * dot x y.
Proof.
  revert y; induction x as [|a x IH]; intros [|b y]; unfold vscal in *; cbn [map];
    rewrite ?dot_nil_l, ?dot_cons; try (cbn; numR; lra).
  rewrite IH; numR; lra.
Qed.

Lemma dot_self_nonneg (x : Rvec) : 0 <= dot x x.
Proof. induction x as [|a x IH]; [cbn; numR; lra | rewrite dot_cons; nra]. Qed.

Lemma dot_self_zero (x : Rvec) : dot x x = 0 -> Forall (fun a => a = 0) x.
Proof.
  induction x as [|a x IH]; intros Hd; constructor; rewrite dot_cons in Hd;
    pose proof (dot_self_nonneg x); [nra | apply IH; nra].
Qed.

(* weighted dot *)
Lemma wdot_cons w a b (ws x y : Rvec) :
  wdot (w :: ws) (a :: x) (b :: y) = w * (a * b) + wdot ws x y.
Proof. reflexivity. Qed.
Lemma wdot_comm (w x y : Rvec) : wdot w x y = wdot w y x.
Proof.
  revert x y; induction w as [|c w IH]; intros [|a x] [|b y]; try reflexivity.
  rewrite !wdot_cons, IH; lra.
Qed.
