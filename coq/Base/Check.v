(* Base/Check.v -- the comparison machinery of correspondence shards.
   A shard lists cases (inputs + the implementation's outputs as exact
   rationals); [failing_indices] returns the indices whose check is false. *)
From Coq Require Import ZArith QArith Qabs List Bool.
Import ListNotations.

Definition Qclose (atol rtol impl model : Q) : bool :=
  Qle_bool (Qabs (impl - model)) (atol + rtol * Qabs model).

Fixpoint all2 {A B} (f : A -> B -> bool) (l : list A) (m : list B) : bool :=
  match l, m with
  | [], [] => true
  | a :: l', b :: m' => f a b && all2 f l' m'
  | _, _ => false
  end.

Definition Qsclose (atol rtol : Q) := all2 (Qclose atol rtol).
Definition Qssclose (atol rtol : Q) := all2 (Qsclose atol rtol).

Definition opt_close (atol rtol : Q) (a b : option Q) : bool :=
  match a, b with
  | Some x, Some y => Qclose atol rtol x y
  | None, None => true
  | _, _ => false
  end.

Fixpoint failing_from {A} (chk : A -> bool) (n : nat) (l : list A) : list nat :=
  match l with
  | [] => []
  | a :: l' => if chk a then failing_from chk (S n) l' else n :: failing_from chk (S n) l'
  end.
Definition failing_indices {A} (chk : A -> bool) (l : list A) : list nat :=
  failing_from chk 0 l.

Definition Zeqs := all2 Z.eqb.
Definition beq (a b : bool) := Bool.eqb a b.
