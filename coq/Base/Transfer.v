(* Base/Transfer.v -- the link between the two instances of the carrier class:
   Q2R is a homomorphism from the executed instance (Num_Q, reduced rationals)
   to the proved instance (Num_R).  With these lemmas a model's run at Q is
   shown to be the rational restriction of the object the theorems are about
   (done per model; see C13/Transfer.v). *)
From Coq Require Import ZArith QArith Qabs Qreals Reals Lra List Bool.
From Verif Require Import Base.Num.
Import ListNotations.

Lemma Q2R_red (a : Q) : Q2R (Qred a) = Q2R a.
Proof. apply Qeq_eqR, Qred_correct. Qed.

Lemma Q2R_nadd (a b : Q) : Q2R (nadd a b) = nadd (Q2R a) (Q2R b).
Proof. cbn [nadd Num_Q Num_R]. rewrite Q2R_red. apply Q2R_plus. Qed.
Lemma Q2R_nsub (a b : Q) : Q2R (nsub a b) = nsub (Q2R a) (Q2R b).
Proof. cbn [nsub Num_Q Num_R]. rewrite Q2R_red. apply Q2R_minus. Qed.
Lemma Q2R_nmul (a b : Q) : Q2R (nmul a b) = nmul (Q2R a) (Q2R b).
Proof. cbn [nmul Num_Q Num_R]. rewrite Q2R_red. apply Q2R_mult. Qed.
Lemma Q2R_nopp (a : Q) : Q2R (nopp a) = nopp (Q2R a).
Proof. cbn [nopp Num_Q Num_R]. apply Q2R_opp. Qed.
Lemma Q2R_ndiv (a b : Q) : ~ (b == 0)%Q -> Q2R (ndiv a b) = ndiv (Q2R a) (Q2R b).
Proof. intros Hb. cbn [ndiv Num_Q Num_R]. unfold Qdiv'. rewrite Q2R_red. apply Q2R_div, Hb. Qed.
Lemma Q2R_nzero : Q2R nzero = nzero.
Proof. cbn [nzero Num_Q Num_R]. unfold Q2R; cbn. lra. Qed.
Lemma Q2R_none : Q2R none_ = none_.
Proof. cbn [none_ Num_Q Num_R]. unfold Q2R; cbn. lra. Qed.
Lemma Q2R_of_Z (z : Z) : Q2R (of_Z z) = of_Z z.
Proof. cbn [of_Z Num_Q Num_R]. unfold Q2R, inject_Z; cbn [Qnum Qden]. field. Qed.

Lemma Q2R_0 : Q2R 0 = 0%R.
Proof. unfold Q2R; cbn. lra. Qed.

Lemma Q2R_nabs (a : Q) : Q2R (nabs a) = nabs (Q2R a).
Proof.
  cbn [nabs Num_Q Num_R]. apply Qabs_case; intros Ha; apply Qle_Rle in Ha; rewrite Q2R_0 in Ha.
  - rewrite Rabs_pos_eq; [reflexivity | assumption].
  - rewrite Q2R_opp. rewrite Rabs_left1; [reflexivity | assumption].
Qed.

(* comparisons *)
Lemma Q2R_nleb (a b : Q) : nleb a b = nleb (Q2R a) (Q2R b).
Proof.
  cbn [nleb Num_Q Num_R]. unfold Rleb. destruct (Rle_dec (Q2R a) (Q2R b)) as [H|H].
  - apply Qle_bool_iff, Rle_Qle, H.
  - destruct (Qle_bool a b) eqn:E; [|reflexivity]. exfalso; apply H, Qle_Rle, Qle_bool_iff, E.
Qed.
Lemma Q2R_nltb (a b : Q) : nltb a b = nltb (Q2R a) (Q2R b).
Proof.
  cbn [nltb Num_Q Num_R]. unfold Rltb. destruct (Rlt_dec (Q2R a) (Q2R b)) as [H|H].
  - destruct (Qle_bool b a) eqn:E; [|reflexivity].
    exfalso. apply Qle_bool_iff, Qle_Rle in E. lra.
  - destruct (Qle_bool b a) eqn:E; [reflexivity|]. exfalso; apply H.
    apply Qlt_Rlt. apply Qnot_le_lt. intros Hle. apply Qle_bool_iff in Hle. congruence.
Qed.
Lemma Q2R_neqb (a b : Q) : neqb a b = neqb (Q2R a) (Q2R b).
Proof.
  cbn [neqb Num_Q Num_R]. unfold Reqb. destruct (Req_EM_T (Q2R a) (Q2R b)) as [H|H].
  - apply Qeq_bool_iff, eqR_Qeq, H.
  - destruct (Qeq_bool a b) eqn:E; [|reflexivity]. exfalso; apply H, Qeq_eqR, Qeq_bool_iff, E.
Qed.

Lemma Q2R_of_Q (c : Q) : Q2R (of_Q c) = of_Q c.
Proof.
  unfold of_Q. rewrite Q2R_ndiv, !Q2R_of_Z; [reflexivity|].
  cbn [of_Z Num_Q]. intros H. unfold Qeq, inject_Z in H; cbn in H. discriminate H.
Qed.

Lemma Q2R_nth (l : list Q) (i : nat) : Q2R (nth i l nzero) = nth i (map Q2R l) nzero.
Proof.
  transitivity (nth i (map Q2R l) (Q2R nzero)); [symmetry; apply map_nth | rewrite Q2R_nzero; reflexivity].
Qed.
