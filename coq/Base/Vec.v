(* Base/Vec.v -- vectors as lists over a Num carrier (definitions only). *)
From Coq Require Import ZArith List Bool.
From Verif Require Import Base.Num.
Import ListNotations.
Local Open Scope num_scope.

Section Vec.
Context {T : Type} `{Num T}.

Fixpoint vmap2 (f : T -> T -> T) (x y : list T) : list T :=
  match x, y with
  | a :: x', b :: y' => f a b :: vmap2 f x' y'
  | _, _ => []
  end.
Definition vadd := vmap2 nadd.
Definition vsub := vmap2 nsub.
Definition vmul := vmap2 nmul.
Definition vdiv := vmap2 ndiv.
Definition vscal (a : T) (x : list T) : list T := map (nmul a) x.
Definition vopp (x : list T) : list T := map nopp x.
Definition vlin (a : T) (x : list T) (b : T) (y : list T) : list T :=
  vmap2 (fun u v => a * u + b * v) x y.
Definition vconst (n : nat) (c : T) : list T := repeat c n.
Fixpoint sumf (l : list T) : T :=
  match l with [] => nzero | a :: l' => a + sumf l' end.
Definition dot (x y : list T) : T := sumf (vmul x y).
Definition wdot (w x y : list T) : T := sumf (vmul w (vmul x y)).
Definition cdot (c : T) (x y : list T) : T := c * dot x y.
Definition normsq (x : list T) : T := dot x x.
Definition vmaxabs (x : list T) : T := fold_right (fun a m => nmax (nabs a) m) nzero x.
Definition sum1 (x : list T) : T := sumf (map nabs x).
Definition nthd (l : list T) (i : nat) : T := nth i l nzero.
(* matrix (list of rows) times vector, and transpose *)
Definition mvec (m : list (list T)) (x : list T) : list T := map (fun r => dot r x) m.
Fixpoint zipcons (r : list T) (cols : list (list T)) : list (list T) :=
  match r, cols with
  | a :: r', c :: cols' => (a :: c) :: zipcons r' cols'
  | _, _ => []
  end.
Fixpoint transpose (ncols : nat) (m : list (list T)) : list (list T) :=
  match m with
  | [] => repeat [] ncols
  | r :: m' => zipcons r (transpose ncols m')
  end.
End Vec.
