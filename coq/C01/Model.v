(* C01/Model.v -- executable model of ODL vector arithmetic (definitions only;
   proofs are in C01/Proofs*.v).  Polymorphic over the carrier class, so the
   same terms are executed at Q, Q*Q (complex), option Q (poisoned) and proved
   at any carrier that satisfies the field laws.

   Part 1  store of buffers addressed by object identity
   Part 2  interpreter of the syntax regenerated from _lincomb_impl (Gen/Lincomb.v)
   Part 3  NumpyTensorSpace._lincomb / _multiply / _divide
   (nested product spaces and the public wrappers: C01/ModelSpace.v) *)
From Coq Require Import ZArith List Bool.
From Verif Require Import Base.Num Base.Vec C01.Syntax Gen.Lincomb Gen.SpaceOps.
Import ListNotations.
Local Open Scope num_scope.

Section Model.
Context {T : Type} `{Num T}.

(* ---------- Part 1: the store.  A buffer id is the identity of a tensor
   object (`x1 is x2`  <->  equal ids); its contents are listed in logical
   (index) order. *)
Definition store := nat -> list T.
Definition upd (s : store) (i : nat) (v : list T) : store :=
  fun j => if Nat.eqb j i then v else s j.

Inductive outcome := Ok (s : store) | OutOfFuel | ShapeErr | CastErr.
Definition bind (m : outcome) (k : store -> outcome) : outcome :=
  match m with Ok s => k s | e => e end.

(* ---------- Part 2: interpreter *)
Record env := { e_a : T; e_b : T; e_x1 : nat; e_x2 : nat; e_out : nat }.

Definition opnd (e : env) (o : operand) : nat :=
  match o with X1 => e_x1 e | X2 => e_x2 e | OUT => e_out e end.

Fixpoint sval (e : env) (c : sc) : T :=
  match c with
  | SA => e_a e | SB => e_b e
  | SAdd p q => sval e p + sval e q
  | SNeg p => - sval e p
  | SK k => of_Z k
  end.

Fixpoint cval (e : env) (c : cond) : bool :=
  match c with
  | CIs p q => Nat.eqb (opnd e p) (opnd e q)
  | CEq s t => neqb (sval e s) (sval e t)
  | CNe s t => negb (neqb (sval e s) (sval e t))
  | CAnd c d => cval e c && cval e d
  | COr c d => cval e c || cval e d
  | CNot c => negb (cval e c)
  end.

(* -- bodies of the fallback_* functions: NumPy augmented assignments, executed
   statement by statement on the store, so that aliased parameters behave as
   they do in NumPy (each statement reads the current contents). *)
Definition aug_fn (o : aug) : T -> T -> T :=
  match o with AugAdd => nadd | AugSub => nsub | AugMul => nmul | AugDiv => ndiv end.
Definition pid (p1 p2 : nat) (v : pvar) : nat := match v with P1 => p1 | P2 => p2 end.
Definition pcval (c : pcond) (k : T) : bool :=
  match c with PScalNe z => negb (neqb k (of_Z z)) | PScalEq z => neqb k (of_Z z) end.

Fixpoint run_p (p1 p2 : nat) (k : T) (st : pstmt) (s : store) : store :=
  match st with
  | PAug o t (PArr v) => upd s (pid p1 p2 t) (vmap2 (aug_fn o) (s (pid p1 p2 t)) (s (pid p1 p2 v)))
  | PAug o t PScal => upd s (pid p1 p2 t) (map (fun u => aug_fn o u k) (s (pid p1 p2 t)))
  | PAssign t v => upd s (pid p1 p2 t) (s (pid p1 p2 v))
  | PIf c body =>
      if pcval c k
      then (fix seq (l : list pstmt) (s : store) : store :=
              match l with [] => s | x :: l' => seq l' (run_p p1 p2 k x s) end) body s
      else s
  end.
Fixpoint run_ps (p1 p2 : nat) (k : T) (l : list pstmt) (s : store) : store :=
  match l with [] => s | x :: l' => run_ps p1 p2 k l' (run_p p1 p2 k x s) end.

(* -- BLAS level 1 with its textbook semantics (trusted external):
   axpy: y := k*x + y;  scal: x := k*x;  copy: y := x *)
Definition blas_axpy (k : T) (x y : list T) : list T := vmap2 (fun u v => k * u + v) x y.
Definition blas_scal (k : T) (x : list T) : list T := map (fun u => k * u) x.

(* -- the three primitives as bound in each regime (calling convention:
   axpy(x, y, n, a)   scal(a, x, n)   copy(x, y, n)).
   In the BLAS regime the primitives work on  out.data.ravel(order): a VIEW of out
   iff out is contiguous in that order ([bi_view]); the BLAS routines update their
   argument in place iff moreover the dtype is one BLAS handles ([bi_call]),
   otherwise they work on a converted copy and the update is lost. *)
Record blasinfo := { bi_view : bool; bi_call : bool; bi_full : bool; bi_n : nat }.
(* the BLAS routines receive the vector length n = `size`: they process the first n entries of the
   raveled arrays; [bi_full]: n is the number of entries *)
Definition take_first {A} (n : nat) (new old : list A) : list A := firstn n new ++ skipn n old.
Definition blas_write {A} (bi : blasinfo) (new old : list A) : list A :=
  if bi_full bi then new else take_first (bi_n bi) new old.

Definition do_scal (r : regime) (bi : blasinfo) (k : T) (t : nat) (s : store) : store :=
  match r with
  | Blas => if bi_call bi then upd s t (blas_write bi (blas_scal k (s t)) (s t)) else s
  | _ => run_ps t t k fallback_scal s
  end.
Definition do_axpy (r : regime) (bi : blasinfo) (k : T) (src tgt : nat) (s : store) : store :=
  match r with
  | Blas => if bi_call bi then upd s tgt (blas_write bi (blas_axpy k (s src) (s tgt)) (s tgt)) else s
  | _ => run_ps src tgt k fallback_axpy s
  end.
Definition do_copy (r : regime) (bi : blasinfo) (src tgt : nat) (s : store) : store :=
  match r with
  | Blas => if bi_call bi then upd s tgt (blas_write bi (s src) (s tgt)) else s
  | _ => run_ps src tgt nzero fallback_copy s
  end.
Definition do_fill (r : regime) (bi : blasinfo) (z : Z) (t : nat) (s : store) : store :=
  match r with
  | Blas => if bi_view bi then upd s t (map (fun _ => of_Z z) (s t)) else s
  | _ => upd s t (map (fun _ => of_Z z) (s t))
  end.

(* -- one statement of the tree; [rc] is what a recursive call of
   _lincomb_impl does *)
Fixpoint exec (rc : env -> store -> outcome) (r : regime) (bi : blasinfo) (e : env) (st : stmt) (s : store) : outcome :=
  match st with
  | Scal c t => Ok (do_scal r bi (sval e c) (opnd e t) s)
  | Axpy src t c => Ok (do_axpy r bi (sval e c) (opnd e src) (opnd e t) s)
  | Copy src t => Ok (do_copy r bi (opnd e src) (opnd e t) s)
  | Fill t z => Ok (do_fill r bi z (opnd e t) s)
  | Recurse a x1 b x2 o =>
      rc {| e_a := sval e a; e_b := sval e b; e_x1 := opnd e x1; e_x2 := opnd e x2; e_out := opnd e o |} s
  | If c t f =>
      let seq := fix seq (l : list stmt) (s : store) : outcome :=
        match l with [] => Ok s | x :: l' => bind (exec rc r bi e x s) (seq l') end in
      if cval e c then seq t s else seq f s
  end.
Fixpoint exec_list (rc : env -> store -> outcome) (r : regime) (bi : blasinfo) (e : env) (l : list stmt) (s : store) : outcome :=
  match l with [] => Ok s | x :: l' => bind (exec rc r bi e x s) (exec_list rc r bi e l') end.

(* -- the direct regime:  out.data[:] = <vexpr>, evaluated completely before
   the assignment, scalars broadcast *)
Inductive val := VScal (c : T) | VVec (l : list T).
Definition vbin (f : T -> T -> T) (p q : val) : val :=
  match p, q with
  | VScal a, VScal b => VScal (f a b)
  | VScal a, VVec l => VVec (map (fun v => f a v) l)
  | VVec l, VScal b => VVec (map (fun u => f u b) l)
  | VVec l, VVec m => VVec (vmap2 f l m)
  end.
Fixpoint veval (e : env) (s : store) (x : vexpr) : val :=
  match x with
  | VV o => VVec (s (opnd e o))
  | VS c => VScal (sval e c)
  | VAdd p q => vbin nadd (veval e s p) (veval e s q)
  | VSub p q => vbin nsub (veval e s p) (veval e s q)
  | VMul p q => vbin nmul (veval e s p) (veval e s q)
  | VDiv p q => vbin ndiv (veval e s p) (veval e s q)
  end.
Fixpoint deval (e : env) (s : store) (d : dstmt) : val :=
  match d with
  | DAssign x => veval e s x
  | DIf c t f => if cval e c then deval e s t else deval e s f
  end.
(* does the direct body test its scalars at all? (false for the single assignment
   out.data[:] = a * x1.data + b * x2.data) *)
Definition is_guarded (d : dstmt) : bool := match d with DAssign _ => false | DIf _ _ _ => true end.
(* arr[:] = v ; [cast] is the conversion to the array's dtype (identity for
   floating dtypes, truncation towards zero for integer dtypes) *)
Definition assign_all (cast : T -> T) (old : list T) (v : val) : list T :=
  match v with VVec l => map cast l | VScal c => map (fun _ => cast c) old end.

(* -- _lincomb_impl.  The regime is decided once per call from size, dtype and
   layout; the recursive call re-enters with the same arrays, hence the same
   regime.  Two levels of fuel suffice (proved: never [OutOfFuel]). *)
Fixpoint lincomb_fuel (fuel : nat) (cast : T -> T) (r : regime) (bi : blasinfo) (e : env) (s : store) : outcome :=
  match fuel with
  | O => OutOfFuel
  | S f =>
      match r with
      | Direct => Ok (upd s (e_out e) (assign_all cast (s (e_out e)) (deval e s direct_body)))
      | _ => exec_list (lincomb_fuel f cast r bi) r bi e alias_tree s
      end
  end.

(* ---------- Part 3: NumpyTensorSpace._lincomb/_multiply/_divide.
   [fl] = is_floating_dtype(dtype); [bdt] = type code and byte order of the dtype;
   [flags] = (c_contiguous, f_contiguous) of x1.data, x2.data, out.data.
   All arrays of one tensor space have the same dtype. *)
Definition blas_info (bdt : dtinfo) (flags : list (bool * bool)) (size total : Z) : blasinfo :=
  let fo := nth 2 flags (false, false) in
  let view := match blas_ravel_order (snd fo) with OrdF => snd fo | OrdC => fst fo end in
  {| bi_view := view; bi_call := view && native_blas bdt; bi_full := Z.eqb size total; bi_n := Z.to_nat size |}.

(* [total] is x1.size, the number of entries; `size` is computed from it (or from len(x1)) as the
   regenerated [size_expr] says; it selects the regime and is the vector length handed to BLAS *)
Definition lincomb_impl_sz (cast : T -> T) (fl : bool) (bdt : dtinfo) (flags : list (bool * bool)) (total : Z)
           (a : T) (x1 : nat) (b : T) (x2 : nat) (out : nat) (s : store) : outcome :=
  let size := size_of size_expr total (dt_len0 bdt) in
  lincomb_fuel 2 cast (regime_of size fl (blas_applicable true bdt total flags)) (blas_info bdt flags size total)
    {| e_a := a; e_b := b; e_x1 := x1; e_x2 := x2; e_out := out |} s.
Definition lincomb_impl (cast : T -> T) (fl : bool) (bdt : dtinfo) (flags : list (bool * bool))
           (a : T) (x1 : nat) (b : T) (x2 : nat) (out : nat) (s : store) : outcome :=
  lincomb_impl_sz cast fl bdt flags (Z.of_nat (length (s x1))) a x1 b x2 out s.

(* NumpyTensorSpace._lincomb: the regenerated call of _lincomb_impl (which argument goes where) *)
Definition pick3 {A} (o : operand) (v1 v2 vo : A) : A := match o with X1 => v1 | X2 => v2 | OUT => vo end.
Definition sval2 (a b : T) (c : sc) : T :=
  sval {| e_a := a; e_b := b; e_x1 := O; e_x2 := O; e_out := O |} c.
Definition tensor_lincomb (cast : T -> T) (fl : bool) (bdt : dtinfo) (flg : nat -> bool * bool)
           (a : T) (x1 : nat) (b : T) (x2 : nat) (out : nat) (s : store) : outcome :=
  let '(pa, p1, pb, p2, po) := tensor_lincomb_call in
  let i1 := pick3 p1 x1 x2 out in let i2 := pick3 p2 x1 x2 out in let io := pick3 po x1 x2 out in
  lincomb_impl cast fl bdt [flg i1; flg i2; flg io] (sval2 a b pa) i1 (sval2 a b pb) i2 io s.

(* NumpyTensorSpace._multiply / _divide: the regenerated single ufunc call
   np.<ufunc>(A.data, B.data, out=C.data) -- every entry of C is written *)
Definition uf_fn (u : ufunc) : T -> T -> T :=
  match u with UMul => nmul | UDiv => ndiv | UAdd => nadd | USub => nsub end.
Definition ufunc_impl (c : ufunc * operand * operand * operand) (x1 x2 out : nat) (s : store) : outcome :=
  let '(u, pa, pb, po) := c in
  Ok (upd s (pick3 po x1 x2 out) (vmap2 (uf_fn u) (s (pick3 pa x1 x2 out)) (s (pick3 pb x1 x2 out)))).
Definition multiply_impl (x1 x2 out : nat) (s : store) : outcome := ufunc_impl tensor_multiply_call x1 x2 out s.
Definition divide_impl (x1 x2 out : nat) (s : store) : outcome := ufunc_impl tensor_divide_call x1 x2 out s.

(* the entry-wise result, computed independently of any store *)
Definition lincomb_spec (a : T) (u : list T) (b : T) (v : list T) : list T := vlin a u b v.

End Model.

Arguments store T : clear implicits.
Arguments outcome T : clear implicits.
Arguments env T : clear implicits.
Arguments val T : clear implicits.
