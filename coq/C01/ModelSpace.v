(* C01/ModelSpace.v -- nested product spaces, discretized spaces and the
   public arithmetic of odl/set/space.py (definitions only).

   * an element of a tensor space or of a DiscretizedSpace (which delegates to
     its coefficient tensor: x.tensor) is a [Leaf] carrying the identity of the
     tensor object;
   * an element of a ProductSpace is a [Node] of parts, arbitrarily nested;
   * ProductSpace._lincomb/_multiply/_divide zip the parts and recurse
     (odl/space/pspace.py), here [ps_map3];
   * LinearSpace.lincomb / multiply / divide and the LinearSpaceElement
     operators are the [w_*] programs below: each names the temporaries the
     code allocates (space.element() -> arbitrary contents; one() -> ones). *)
From Coq Require Import ZArith List Bool.
From Verif Require Import Base.Num Base.Vec C01.Syntax Gen.Lincomb Gen.SpaceOps C01.Model.
Import ListNotations.
Local Open Scope num_scope.

Inductive elem := Leaf (i : nat) | Node (ps : elems)
with elems := ENil | ECons (e : elem) (es : elems).
(* [SLeaf fl]: a tensor / discretized space whose dtype is floating (fl) or not *)
Inductive space := SLeaf (fl : bool) | SNode (sps : spaces)
with spaces := SNil | SCons (sp : space) (sps : spaces).

(* the tensor object of a leaf element *)
Definition leaf_id (e : elem) : nat := match e with Leaf i => i | Node _ => 0%nat end.

Section Space.
Context {T : Type} `{Num T}.
(* memory layout (c_contiguous, f_contiguous) and "dtype in _BLAS_DTYPES" of each
   tensor object; arbitrary *)
Variable flg : nat -> bool * bool.
Variable bdtf : nat -> dtinfo.
(* conversion to a non-floating dtype (truncation); floating dtypes store unchanged *)
Variable icast : T -> T.

Definition leafop := bool -> nat -> nat -> nat -> store T -> outcome T.

(* for space, xp, yp, outp in zip(self.spaces, x.parts, y.parts, out.parts): space._op(xp, yp, outp) *)
Fixpoint ps_map3 (op : leafop) (sp : space) (x1 x2 out : elem) (s : store T) : outcome T :=
  match sp, x1, x2, out with
  | SLeaf fl, Leaf i1, Leaf i2, Leaf io => op fl i1 i2 io s
  | SNode sps, Node p1, Node p2, Node po => ps_map3s op sps p1 p2 po s
  | _, _, _, _ => ShapeErr
  end
with ps_map3s (op : leafop) (sps : spaces) (p1 p2 po : elems) (s : store T) : outcome T :=
  match sps, p1, p2, po with
  | SNil, ENil, ENil, ENil => Ok s
  | SCons sp sps', ECons x p1', ECons y p2', ECons o po' =>
      bind (ps_map3 op sp x y o s) (ps_map3s op sps' p1' p2' po')
  | _, _, _, _ => ShapeErr
  end.

(* the same with the REGENERATED component call of ProductSpace._lincomb/_multiply/_divide:
   [pm] says which of (x parts, y parts, out parts) the component call receives as its
   first, second and output element *)
Fixpoint ps_map3p (pm : operand * operand * operand) (op : leafop) (sp : space) (x1 x2 out : elem)
         (s : store T) : outcome T :=
  match sp, x1, x2, out with
  | SLeaf fl, Leaf i1, Leaf i2, Leaf io => op fl i1 i2 io s
  | SNode sps, Node p1, Node p2, Node po => ps_map3ps pm op sps p1 p2 po s
  | _, _, _, _ => ShapeErr
  end
with ps_map3ps (pm : operand * operand * operand) (op : leafop) (sps : spaces) (p1 p2 po : elems)
               (s : store T) : outcome T :=
  match sps, p1, p2, po with
  | SNil, ENil, ENil, ENil => Ok s
  | SCons sp sps', ECons x p1', ECons y p2', ECons o po' =>
      let '(q1, q2, qo) := pm in
      bind (ps_map3p pm op sp (pick3 q1 x y o) (pick3 q2 x y o) (pick3 qo x y o) s)
           (ps_map3ps pm op sps' p1' p2' po')
  | _, _, _, _ => ShapeErr
  end.

Definition elems3 (c : sc * operand * sc * operand * operand) : operand * operand * operand :=
  let '(_, p1, _, p2, po) := c in (p1, p2, po).

(* a leaf: DiscretizedSpace._lincomb delegates to its tensor space (regenerated call), which
   calls _lincomb_impl (regenerated call); a plain tensor space is the second step alone.
   The translator requires the scalars of the delegation to be (a, b) in this order. *)
Definition lincomb_leaf (a b : T) : leafop := fun fl i1 i2 io =>
  let '(d1, d2, do) := elems3 discr_lincomb_call in
  let j1 := pick3 d1 i1 i2 io in let j2 := pick3 d2 i1 i2 io in let jo := pick3 do i1 i2 io in
  tensor_lincomb (if fl then (fun u => u) else icast) fl (bdtf jo) flg a j1 b j2 jo.
Definition multiply_leaf : leafop := fun _ i1 i2 io =>
  let '(d1, d2, do) := discr_multiply_call in
  multiply_impl (pick3 d1 i1 i2 io) (pick3 d2 i1 i2 io) (pick3 do i1 i2 io).
(* np.divide into an integer array raises (true division yields floats) *)
Definition divide_leaf : leafop := fun fl i1 i2 io s =>
  let '(d1, d2, do) := discr_divide_call in
  if fl then divide_impl (pick3 d1 i1 i2 io) (pick3 d2 i1 i2 io) (pick3 do i1 i2 io) s else CastErr.

(* space._lincomb(a, x1, b, x2, out), space._multiply(x1, x2, out), space._divide(x1, x2, out) *)
Definition ps_lincomb (sp : space) (a : T) (x1 : elem) (b : T) (x2 : elem) (out : elem) :=
  ps_map3p (elems3 pspace_lincomb_call) (lincomb_leaf a b) sp x1 x2 out.
Definition ps_multiply (sp : space) (x1 x2 out : elem) := ps_map3p pspace_multiply_call multiply_leaf sp x1 x2 out.
Definition ps_divide (sp : space) (x1 x2 out : elem) := ps_map3p pspace_divide_call divide_leaf sp x1 x2 out.

(* one() / zero(): np.ones / np.zeros in fresh arrays -- every leaf of the fresh
   element [e] is filled with the constant *)
Fixpoint fill_elem (c : T) (e : elem) (s : store T) : store T :=
  match e with
  | Leaf i => upd s i (map (fun _ => c) (s i))
  | Node ps => fill_elems c ps s
  end
with fill_elems (c : T) (ps : elems) (s : store T) : store T :=
  match ps with ENil => s | ECons e es => fill_elems c es (fill_elem c e s) end.

Definition seq (m k : store T -> outcome T) : store T -> outcome T := fun s => bind (m s) k.
Definition with_one (tmp : elem) (k : store T -> outcome T) : store T -> outcome T :=
  fun s => k (fill_elem (of_Z 1) tmp s).

(* ---- LinearSpace.lincomb(a, x1[, b, x2], out), multiply, divide: the REGENERATED calls of
   self._lincomb / _multiply / _divide (which scalars and elements reach them) ---- *)
Definition w_lincomb1 sp (a : T) (x1 out : elem) :=
  let '(pa, p1, pb, p2, po) := space_lincomb1_call in
  ps_lincomb sp (sval2 a nzero pa) (pick3 p1 x1 x1 out) (sval2 a nzero pb) (pick3 p2 x1 x1 out) (pick3 po x1 x1 out).
Definition w_lincomb2 sp (a : T) (x1 : elem) (b : T) (x2 out : elem) :=
  let '(pa, p1, pb, p2, po) := space_lincomb2_call in
  ps_lincomb sp (sval2 a b pa) (pick3 p1 x1 x2 out) (sval2 a b pb) (pick3 p2 x1 x2 out) (pick3 po x1 x2 out).
Definition w_multiply sp (x1 x2 out : elem) :=
  let '(p1, p2, po) := space_multiply_call in
  ps_multiply sp (pick3 p1 x1 x2 out) (pick3 p2 x1 x2 out) (pick3 po x1 x2 out).
Definition w_divide sp (x1 x2 out : elem) :=
  let '(p1, p2, po) := space_divide_call in
  ps_divide sp (pick3 p1 x1 x2 out) (pick3 p2 x1 x2 out) (pick3 po x1 x2 out).

(* ---- LinearSpaceElement: interpreter of the REGENERATED operator programs ---- *)
Definition eref_el (r : eref) (self other tmp : elem) : elem :=
  match r with ESelf => self | EOther => other | ETmp => tmp end.
Definition sref_val (r : sref) (c : T) : T :=
  match r with SConst k => of_Z k | SOther => c | SNegOther => - c | SInvOther => of_Z 1 / c end.
Definition run_call sp (st : wstmt) (self other : elem) (c : T) (tmp : elem) : store T -> outcome T :=
  let el := fun r => eref_el r self other tmp in
  match st with
  | WLin1 a x o => w_lincomb1 sp (sref_val a c) (el x) (el o)
  | WLin2 a x b y o => w_lincomb2 sp (sref_val a c) (el x) (sref_val b c) (el y) (el o)
  | WMul x y o => w_multiply sp (el x) (el y) (el o)
  | WDiv x y o => w_divide sp (el x) (el y) (el o)
  | WNewTmp | WOneTmp => fun s => Ok s
  end.
Fixpoint run_w sp (l : list wstmt) (self other : elem) (c : T) (tmp : elem) : store T -> outcome T :=
  match l with
  | [] => fun s => Ok s
  | WNewTmp :: l' => run_w sp l' self other c tmp          (* arbitrary contents: nothing to do *)
  | WOneTmp :: l' => with_one tmp (run_w sp l' self other c tmp)
  | st :: l' =>
      match l' with
      | [] => run_call sp st self other c tmp
      | _ => seq (run_call sp st self other c tmp) (run_w sp l' self other c tmp)
      end
  end.

Definition w_assign sp self other := run_w sp prog_assign self other nzero self.
Definition w_copy sp self tmp := w_assign sp tmp self.   (* copy(): result = element(); result.assign(self) (pinned) *)
Definition w_set_zero sp self := run_w sp prog_set_zero self self nzero self.
(* LinearSpace.zero(): tmp = element(); lincomb(0, tmp, 0, tmp, tmp) *)
Definition w_zero_generic sp tmp := w_set_zero sp tmp.

Definition w_iadd sp self other := run_w sp prog_iadd_elem self other nzero self.
Definition w_add sp self other tmp := run_w sp prog_add_elem self other nzero tmp.
Definition w_iadd_scalar sp self c tmp := run_w sp prog_iadd_scal self self c tmp.
Definition w_add_scalar sp self c tmp := run_w sp prog_add_scal self self c tmp.

Definition w_isub sp self other := run_w sp prog_isub_elem self other nzero self.
Definition w_sub sp self other tmp := run_w sp prog_sub_elem self other nzero tmp.
Definition w_isub_scalar sp self c tmp := run_w sp prog_isub_scal self self c tmp.
Definition w_sub_scalar sp self c tmp := run_w sp prog_sub_scal self self c tmp.
Definition w_rsub sp self other tmp := run_w sp prog_rsub_elem self other nzero tmp.
Definition w_rsub_scalar sp self c tmp := run_w sp prog_rsub_scal self self c tmp.

Definition w_imul_scalar sp self c := run_w sp prog_imul_scal self self c self.
Definition w_mul_scalar sp self c tmp := run_w sp prog_mul_scal self self c tmp.
Definition w_imul sp self other := run_w sp prog_imul_elem self other nzero self.
Definition w_mul sp self other tmp := run_w sp prog_mul_elem self other nzero tmp.

Definition w_itruediv_scalar sp self c := run_w sp prog_itruediv_scal self self c self.
Definition w_truediv_scalar sp self c tmp := run_w sp prog_truediv_scal self self c tmp.
Definition w_itruediv sp self other := run_w sp prog_itruediv_elem self other nzero self.
Definition w_truediv sp self other tmp := run_w sp prog_truediv_elem self other nzero tmp.
Definition w_rtruediv sp self other tmp := run_w sp prog_rtruediv_elem self other nzero tmp.
Definition w_rtruediv_scalar sp self c tmp := run_w sp prog_rtruediv_scal self self c tmp.

(* an operator called with plain DATA (ndarray, nested list/tuple) as the other operand:
   other = self.space.element(data) -- [wrapped] is that element -- and then the REGENERATED
   re-dispatch: the element branch of the dunder named by [redispatch] *)
Definition w_data sp (o : opname) (self wrapped tmp : elem) :=
  run_w sp (prog_elem (redispatch o)) self wrapped nzero tmp.
(* the same operator called with an element of the space *)
Definition w_elem sp (o : opname) (self other tmp : elem) :=
  run_w sp (prog_elem o) self other nzero tmp.

(* __neg__ is `-1 * self`, __pos__ is `self.copy()` (pinned) *)
Definition w_neg sp self tmp := w_mul_scalar sp self (of_Z (-1)) tmp.
Definition w_pos sp self tmp := w_copy sp self tmp.

(* NumpyTensor.copy / DiscretizedSpaceElement.copy: data.copy() *)
Definition w_copy_leaf (self tmp : nat) : store T -> outcome T := fun s => Ok (upd s tmp (s self)).

(* ---- __ipow__ (integer p >= 0), odl/set/space.py ----
   p == 0: assign(one());  p == 1: nothing;  p even: self *= self; self **= p // 2;
   p odd: tmp = self.copy(); for _ in range(p - 2): tmp *= self;  self *= tmp
   [copy_fn] is the element type's copy (generic assign, or data.copy() for tensors) *)
Fixpoint iter_m (n : nat) (m : store T -> outcome T) : store T -> outcome T :=
  match n with O => fun s => Ok s | S n' => seq m (iter_m n' m) end.
Fixpoint w_ipow (fuel : nat) (copy_fn : elem -> elem -> store T -> outcome T)
         (sp : space) (self : elem) (p : nat) (tmp one_tmp : elem) : store T -> outcome T :=
  match fuel with
  | O => fun _ => OutOfFuel
  | S f =>
      if Nat.eqb p 0 then with_one one_tmp (w_assign sp self one_tmp)
      else if Nat.eqb p 1 then fun s => Ok s
      else if Nat.even p then seq (w_imul sp self self) (w_ipow f copy_fn sp self (Nat.div2 p) tmp one_tmp)
      else seq (copy_fn self tmp) (seq (iter_m (p - 2) (w_imul sp tmp self)) (w_imul sp self tmp))
  end.

(* ---- power-space broadcasting (_broadcast_arithmetic): for xi in self: xi.<op>(other) ---- *)
Fixpoint bcast1 (f : elem -> store T -> outcome T) (ps : elems) : store T -> outcome T :=
  match ps with ENil => fun s => Ok s | ECons e es => seq (f e) (bcast1 f es) end.
Fixpoint bcast2 (f : elem -> elem -> store T -> outcome T) (ps tmps : elems) : store T -> outcome T :=
  match ps, tmps with
  | ENil, ENil => fun s => Ok s
  | ECons e es, ECons t ts => seq (f e t) (bcast2 f es ts)
  | _, _ => fun _ => ShapeErr
  end.

(* ---- reading results ---- *)
Fixpoint flat (e : elem) : list nat :=
  match e with Leaf i => [i] | Node ps => flats ps end
with flats (ps : elems) : list nat :=
  match ps with ENil => [] | ECons e es => flat e ++ flats es end.
Definition read (s : store T) (e : elem) : list (list T) := map s (flat e).

End Space.
