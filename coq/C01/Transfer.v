(* C01/Transfer.v -- the model of _lincomb_impl executed at Q by the correspondence
   shards is the rational restriction of the model the theorems are about (R):
   Q2R commutes with the interpreter of the REGENERATED syntax (tests take the same
   branches, every division is by a scalar that was tested nonzero). *)
From Coq Require Import ZArith QArith Qreals Reals Lra Lia List Bool.
From Verif Require Import Base.Num Base.Vec Base.Transfer C01.Syntax Gen.Lincomb C01.Model.
Import ListNotations.

Notation QR := (map Q2R).

(* stores / environments / outcomes related by Q2R *)
Definition sim (sq : store Q) (sr : store R) : Prop := forall j, sr j = QR (sq j).
Definition envR (e : env Q) : env R :=
  {| e_a := Q2R (e_a e); e_b := Q2R (e_b e); e_x1 := e_x1 e; e_x2 := e_x2 e; e_out := e_out e |}.
Definition osim (oq : outcome Q) (or : outcome R) : Prop :=
  match oq, or with
  | Ok sq, Ok sr => sim sq sr
  | OutOfFuel, OutOfFuel | ShapeErr, ShapeErr | CastErr, CastErr => True
  | _, _ => False
  end.

Lemma sim_upd sq sr i vq vr : sim sq sr -> vr = QR vq -> sim (upd sq i vq) (upd sr i vr).
Proof. intros Hs Hv j. unfold upd. destruct (Nat.eqb j i); [exact Hv | apply Hs]. Qed.

Lemma QR_vmap2 (f : Q -> Q -> Q) (g : R -> R -> R) (x y : list Q) :
  (forall a b, In a x -> In b y -> Q2R (f a b) = g (Q2R a) (Q2R b)) ->
  QR (vmap2 f x y) = vmap2 g (QR x) (QR y).
Proof.
  revert y; induction x as [|a x IH]; intros [|b y] H; cbn [vmap2 map]; try reflexivity.
  f_equal; [apply H; left; reflexivity | apply IH; intros; apply H; right; assumption].
Qed.
Lemma QR_map (f : Q -> Q) (g : R -> R) (x : list Q) :
  (forall a, Q2R (f a) = g (Q2R a)) -> QR (map f x) = map g (QR x).
Proof. intros H. rewrite !map_map. apply map_ext. exact H. Qed.

Lemma sval_transfer (e : env Q) (c : sc) : Q2R (sval e c) = sval (envR e) c.
Proof.
  induction c as [| | p IHp q IHq | p IHp | k]; cbn [sval envR e_a e_b].
  - reflexivity.
  - reflexivity.
  - rewrite Q2R_nadd, IHp, IHq. reflexivity.
  - rewrite Q2R_nopp, IHp. reflexivity.
  - apply Q2R_of_Z.
Qed.
Lemma cval_transfer (e : env Q) (c : cond) : cval e c = cval (envR e) c.
Proof.
  induction c as [p q | s t | s t | c IHc d IHd | c IHc d IHd | c IHc]; cbn [cval].
  - destruct p, q; reflexivity.
  - rewrite Q2R_neqb, !sval_transfer. reflexivity.
  - rewrite Q2R_neqb, !sval_transfer. reflexivity.
  - rewrite IHc, IHd. reflexivity.
  - rewrite IHc, IHd. reflexivity.
  - rewrite IHc. reflexivity.
Qed.

Lemma neqb_zero_nz (k : Q) (z : Z) : z = 0%Z -> neqb k (of_Z z) = false -> ~ (k == 0)%Q.
Proof.
  intros -> H E. cbn [neqb of_Z Num_Q] in H.
  assert (Qeq_bool k (inject_Z 0) = true) by (apply Qeq_bool_iff; exact E). congruence.
Qed.

(* ---- fallback bodies: divisions only by the scalar, under a guard `scalar != 0` ---- *)
Fixpoint pok (guarded : bool) (st : pstmt) : bool :=
  match st with
  | PAug AugDiv _ PScal => guarded
  | PAug AugDiv _ (PArr _) => false
  | PAug _ _ _ => true
  | PAssign _ _ => true
  | PIf (PScalNe z) body => forallb (pok (Z.eqb z 0 || guarded)) body
  | PIf (PScalEq _) body => forallb (pok guarded) body
  end.

Lemma aug_transfer (o : aug) (a b : Q) : (o = AugDiv -> ~ (b == 0)%Q) ->
  Q2R (aug_fn o a b) = aug_fn o (Q2R a) (Q2R b).
Proof.
  intros Hd. destruct o; cbn [aug_fn].
  - apply Q2R_nadd. - apply Q2R_nsub. - apply Q2R_nmul. - apply Q2R_ndiv. auto.
Qed.

Lemma pcval_transfer (c : pcond) (k : Q) : pcval c k = pcval c (Q2R k).
Proof. destruct c; cbn [pcval]; rewrite Q2R_neqb, Q2R_of_Z; reflexivity. Qed.

Lemma run_p_transfer (p1 p2 : nat) (k : Q) :
  forall (st : pstmt) (g : bool) (sq : store Q) (sr : store R),
  pok g st = true -> (g = true -> ~ (k == 0)%Q) -> sim sq sr ->
  sim (run_p p1 p2 k st sq) (run_p p1 p2 (Q2R k) st sr).
Proof.
  fix IH 1. intros st g sq sr Hok Hg Hs. destruct st as [o t a | t v | c body].
  - destruct a as [v|]; cbn [run_p].
    + apply sim_upd; [exact Hs|]. rewrite !Hs. symmetry. apply QR_vmap2. intros a b _ _.
      apply aug_transfer. intros ->. cbn in Hok. discriminate.
    + apply sim_upd; [exact Hs|]. rewrite !Hs. symmetry. apply QR_map. intros a.
      apply aug_transfer. intros ->. cbn in Hok. auto.
  - cbn [run_p]. apply sim_upd; [exact Hs | apply Hs].
  - cbn [run_p]. rewrite <- pcval_transfer. destruct (pcval c k) eqn:Ec; [|exact Hs].
    assert (Hbody : forall g', (g' = true -> ~ (k == 0)%Q) -> forallb (pok g') body = true ->
              forall sq sr, sim sq sr ->
              sim ((fix seq (l : list pstmt) (s : store Q) : store Q :=
                      match l with [] => s | x :: l' => seq l' (run_p p1 p2 k x s) end) body sq)
                  ((fix seq (l : list pstmt) (s : store R) : store R :=
                      match l with [] => s | x :: l' => seq l' (run_p p1 p2 (Q2R k) x s) end) body sr)).
    { clear Hok. intros g' Hg'. induction body as [|x body IHb]; intros Hall sq' sr' Hs'; [exact Hs'|].
      cbn [forallb] in Hall. apply andb_prop in Hall as [Hx Hall].
      apply IHb; [exact Hall|]. apply (IH x g'); assumption. }
    destruct c as [z|z]; cbn [pok] in Hok.
    + apply (Hbody (Z.eqb z 0 || g)%bool); [|exact Hok|exact Hs].
      intros Hor. apply orb_prop in Hor as [Hz|Hgt]; [|auto].
      apply Z.eqb_eq in Hz. cbn [pcval] in Ec. apply negb_true_iff in Ec. eapply neqb_zero_nz; eauto.
    + apply (Hbody g); assumption.
Qed.

Lemma run_ps_transfer (p1 p2 : nat) (k : Q) (l : list pstmt) (sq : store Q) (sr : store R) :
  forallb (pok false) l = true -> sim sq sr ->
  sim (run_ps p1 p2 k l sq) (run_ps p1 p2 (Q2R k) l sr).
Proof.
  revert sq sr; induction l as [|x l IH]; intros sq sr Hok Hs; [exact Hs|].
  cbn [forallb] in Hok. apply andb_prop in Hok as [Hx Hl]. cbn [run_ps].
  apply IH; [exact Hl|]. apply (run_p_transfer p1 p2 k x false); [exact Hx | discriminate | exact Hs].
Qed.

(* the regenerated fallback bodies satisfy the side condition *)
Lemma fallback_bodies_ok :
  forallb (pok false) fallback_axpy = true /\ forallb (pok false) fallback_scal = true
  /\ forallb (pok false) fallback_copy = true.
Proof. repeat split; reflexivity. Qed.

(* ---- primitives ---- *)
Lemma QR_blas_write bi (new old : list Q) : QR (blas_write bi new old) = blas_write bi (QR new) (QR old).
Proof.
  unfold blas_write, take_first. destruct (bi_full bi); [reflexivity|].
  rewrite map_app, firstn_map, skipn_map. reflexivity.
Qed.
Lemma do_scal_transfer r bi k t sq sr : sim sq sr -> sim (do_scal r bi k t sq) (do_scal r bi (Q2R k) t sr).
Proof.
  intros Hs. destruct fallback_bodies_ok as (_ & H2 & _).
  destruct r; cbn [do_scal]; try (apply run_ps_transfer; assumption).
  destruct (bi_call bi); [|exact Hs]. apply sim_upd; [exact Hs|]. rewrite Hs. unfold blas_scal.
  symmetry. rewrite QR_blas_write. f_equal. apply QR_map. intros a. apply Q2R_nmul.
Qed.
Lemma do_axpy_transfer r bi k src tgt sq sr :
  sim sq sr -> sim (do_axpy r bi k src tgt sq) (do_axpy r bi (Q2R k) src tgt sr).
Proof.
  intros Hs. destruct fallback_bodies_ok as (H1 & _ & _).
  destruct r; cbn [do_axpy]; try (apply run_ps_transfer; assumption).
  destruct (bi_call bi); [|exact Hs]. apply sim_upd; [exact Hs|]. rewrite !Hs. unfold blas_axpy.
  symmetry. rewrite QR_blas_write. f_equal. apply QR_vmap2. intros a b _ _. rewrite Q2R_nadd, Q2R_nmul. reflexivity.
Qed.
Lemma do_copy_transfer r bi src tgt sq sr :
  sim sq sr -> sim (do_copy r bi src tgt sq) (do_copy r bi src tgt sr).
Proof.
  intros Hs. destruct fallback_bodies_ok as (_ & _ & H3).
  destruct r; cbn [do_copy].
  - rewrite <- Q2R_nzero. apply run_ps_transfer; assumption.
  - rewrite <- Q2R_nzero. apply run_ps_transfer; assumption.
  - destruct (bi_call bi); [|exact Hs]. apply sim_upd; [exact Hs | rewrite !Hs; symmetry; apply QR_blas_write].
Qed.
Lemma do_fill_transfer r bi z t sq sr : sim sq sr -> sim (do_fill r bi z t sq) (do_fill r bi z t sr).
Proof.
  intros Hs.
  assert (E : forall l : list Q, map (fun _ : R => of_Z z) (QR l) = QR (map (fun _ : Q => of_Z z) l)).
  { intros l. rewrite !map_map. apply map_ext. intros _. symmetry. apply Q2R_of_Z. }
  destruct r; cbn [do_fill]; try (apply sim_upd; [exact Hs | rewrite Hs; apply E]).
  destruct (bi_view bi); [|exact Hs]. apply sim_upd; [exact Hs | rewrite Hs; apply E].
Qed.

(* ---- the tree: structural induction on the (nested) statement syntax ---- *)
Definition rc_sim (rq : env Q -> store Q -> outcome Q) (rr : env R -> store R -> outcome R) : Prop :=
  forall e sq sr, sim sq sr -> osim (rq e sq) (rr (envR e) sr).

Lemma osim_bind oq or kq kr :
  osim oq or -> (forall sq sr, sim sq sr -> osim (kq sq) (kr sr)) -> osim (bind oq kq) (bind or kr).
Proof. destruct oq, or; cbn; try tauto; auto. Qed.

Lemma exec_transfer rq rr r bi : rc_sim rq rr ->
  forall (st : stmt) (e : env Q) (sq : store Q) (sr : store R), sim sq sr ->
  osim (exec rq r bi e st sq) (exec rr r bi (envR e) st sr).
Proof.
  intros Hrc. fix IH 1. intros st e sq sr Hs. destruct st as [c t | src t c | src t | t z | a x1 b x2 o | c t f].
  - cbn [exec osim]. rewrite <- sval_transfer. apply do_scal_transfer, Hs.
  - cbn [exec osim]. rewrite <- sval_transfer. apply do_axpy_transfer, Hs.
  - cbn [exec osim]. apply do_copy_transfer, Hs.
  - cbn [exec osim]. apply do_fill_transfer, Hs.
  - cbn [exec]. rewrite <- !sval_transfer.
    apply (Hrc {| e_a := sval e a; e_b := sval e b; e_x1 := opnd e x1; e_x2 := opnd e x2; e_out := opnd e o |}).
    exact Hs.
  - cbn [exec]. rewrite <- cval_transfer.
    assert (Hseq : forall l sq sr, sim sq sr ->
      osim ((fix seq (l : list stmt) (s : store Q) : outcome Q :=
               match l with [] => Ok s | x :: l' => bind (exec rq r bi e x s) (seq l') end) l sq)
           ((fix seq (l : list stmt) (s : store R) : outcome R :=
               match l with [] => Ok s | x :: l' => bind (exec rr r bi (envR e) x s) (seq l') end) l sr)).
    { induction l as [|x l IHl]; intros sq' sr' Hs'; [exact Hs'|].
      apply osim_bind; [apply IH; exact Hs' | exact IHl]. }
    destruct (cval e c); apply Hseq; exact Hs.
Qed.

Lemma exec_list_transfer rq rr r bi : rc_sim rq rr ->
  forall (l : list stmt) (e : env Q) (sq : store Q) (sr : store R), sim sq sr ->
  osim (exec_list rq r bi e l sq) (exec_list rr r bi (envR e) l sr).
Proof.
  intros Hrc l e. induction l as [|x l IH]; intros sq sr Hs; [exact Hs|].
  cbn [exec_list]. apply osim_bind; [apply exec_transfer; assumption | exact IH].
Qed.

(* ---- the direct body: no division ---- *)
Fixpoint vok (x : vexpr) : bool :=
  match x with VV _ | VS _ => true | VAdd p q | VSub p q | VMul p q => vok p && vok q | VDiv _ _ => false end.
Fixpoint dok (d : dstmt) : bool :=
  match d with DAssign x => vok x | DIf _ t f => dok t && dok f end.

Definition vsim (vq : val Q) (vr : val R) : Prop :=
  match vq, vr with
  | VScal a, VScal b => b = Q2R a
  | VVec l, VVec m => m = QR l
  | _, _ => False
  end.

Lemma vbin_transfer (f : Q -> Q -> Q) (g : R -> R -> R) vq1 vr1 vq2 vr2 :
  (forall a b, Q2R (f a b) = g (Q2R a) (Q2R b)) -> vsim vq1 vr1 -> vsim vq2 vr2 ->
  vsim (vbin f vq1 vq2) (vbin g vr1 vr2).
Proof.
  intros H. destruct vq1, vr1, vq2, vr2; cbn; try tauto; intros -> ->.
  - symmetry. apply H.
  - symmetry. apply QR_map. intros a. apply H.
  - symmetry. apply QR_map. intros a. apply H.
  - symmetry. apply QR_vmap2. intros; apply H.
Qed.

Lemma veval_transfer (e : env Q) sq sr (x : vexpr) : sim sq sr -> vok x = true ->
  vsim (veval e sq x) (veval (envR e) sr x).
Proof.
  intros Hs. induction x as [o | c | p IHp q IHq | p IHp q IHq | p IHp q IHq | p IHp q IHq];
    cbn [veval vok]; intros Hok.
  - cbn. destruct o; apply Hs.
  - cbn. symmetry. apply sval_transfer.
  - apply andb_prop in Hok as [H1 H2]. apply vbin_transfer; auto using Q2R_nadd.
  - apply andb_prop in Hok as [H1 H2]. apply vbin_transfer; auto using Q2R_nsub.
  - apply andb_prop in Hok as [H1 H2]. apply vbin_transfer; auto using Q2R_nmul.
  - discriminate.
Qed.

Lemma deval_transfer (e : env Q) sq sr (d : dstmt) : sim sq sr -> dok d = true ->
  vsim (deval e sq d) (deval (envR e) sr d).
Proof.
  intros Hs. induction d as [x | c t IHt f IHf]; cbn [deval dok]; intros Hok.
  - apply veval_transfer; assumption.
  - apply andb_prop in Hok as [H1 H2]. rewrite <- cval_transfer. destruct (cval e c); auto.
Qed.

Lemma direct_body_ok : dok direct_body = true.
Proof. reflexivity. Qed.

(* ---- _lincomb_impl ---- *)
Lemma lincomb_fuel_transfer (castq : Q -> Q) (castr : R -> R) (r : regime) (bi : blasinfo) :
  (forall q, Q2R (castq q) = castr (Q2R q)) ->
  forall fuel, rc_sim (lincomb_fuel fuel castq r bi) (lincomb_fuel fuel castr r bi).
Proof.
  intros Hc. induction fuel as [|f IH]; intros e sq sr Hs; [exact I|].
  cbn [lincomb_fuel]. destruct r.
  - cbn [osim]. apply sim_upd; [exact Hs|].
    pose proof (deval_transfer e sq sr direct_body Hs direct_body_ok) as Hv.
    change (e_out (envR e)) with (e_out e).
    destruct (deval e sq direct_body), (deval (envR e) sr direct_body); cbn in Hv; try contradiction;
      subst; unfold assign_all.
    + rewrite Hs, !map_map. apply map_ext. intros _. symmetry. apply Hc.
    + symmetry. apply QR_map. exact Hc.
  - apply exec_list_transfer; assumption.
  - apply exec_list_transfer; assumption.
Qed.

(* NumpyTensorSpace._lincomb at Q is the rational restriction of the same at R *)
Theorem lincomb_impl_transfer (castq : Q -> Q) (castr : R -> R) (fl : bool) (bdt : dtinfo) (flags : list (bool * bool))
        (size : Z) (a b : Q) (x1 x2 out : nat) (sq : store Q) (sr : store R) :
  (forall q, Q2R (castq q) = castr (Q2R q)) -> sim sq sr ->
  osim (lincomb_impl_sz castq fl bdt flags size a x1 b x2 out sq)
       (lincomb_impl_sz castr fl bdt flags size (Q2R a) x1 (Q2R b) x2 out sr).
Proof.
  intros Hc Hs. unfold lincomb_impl_sz.
  apply (lincomb_fuel_transfer castq castr _ _ Hc 2
           {| e_a := a; e_b := b; e_x1 := x1; e_x2 := x2; e_out := out |} sq sr Hs).
Qed.

(* ================= the space level: nested spaces and the regenerated operator programs ================= *)
From Verif Require Import Gen.SpaceOps C01.ModelSpace.

(* division is total on both sides (x / 0 = 0 at Q and at R), so Q2R commutes unconditionally *)
Lemma Q2R_ndiv_total (a b : Q) : Q2R (ndiv a b) = ndiv (Q2R a) (Q2R b).
Proof.
  destruct (Qeq_dec b 0) as [Hz | Hnz]; [|apply Q2R_ndiv; exact Hnz].
  cbn [ndiv Num_Q Num_R]. unfold Qdiv'. rewrite Q2R_red.
  assert (Eb : Q2R b = 0%R) by (rewrite (Qeq_eqR _ _ Hz); apply Q2R_0).
  rewrite Eb. unfold Rdiv. rewrite Rinv_0, Rmult_0_r.
  rewrite <- Q2R_0. apply Qeq_eqR. unfold Qdiv. rewrite Hz. unfold Qinv. cbn. ring.
Qed.

Lemma uf_transfer (u : ufunc) (a b : Q) : Q2R (uf_fn u a b) = uf_fn u (Q2R a) (Q2R b).
Proof. destruct u; cbn [uf_fn]; auto using Q2R_nmul, Q2R_ndiv_total, Q2R_nadd, Q2R_nsub. Qed.

Lemma ufunc_impl_transfer c x1 x2 out sq sr : sim sq sr ->
  osim (ufunc_impl c x1 x2 out sq) (ufunc_impl c x1 x2 out sr).
Proof.
  intros Hs. destruct c as [[[u pa] pb] po]. cbn [ufunc_impl osim].
  apply sim_upd; [exact Hs|]. rewrite !Hs. symmetry. apply QR_vmap2. intros; apply uf_transfer.
Qed.

Lemma sim_length sq sr i : sim sq sr -> length (sr i) = length (sq i).
Proof. intros Hs. rewrite Hs. apply map_length. Qed.

Scheme elem_mut_tr := Induction for elem Sort Prop
  with elems_mut_tr := Induction for elems Sort Prop.

Section SpaceTransfer.
Variable flg : nat -> bool * bool.
Variable bdtf : nat -> dtinfo.
Variables (icq : Q -> Q) (icr : R -> R).
Hypothesis Hic : forall q, Q2R (icq q) = icr (Q2R q).

Definition leaf_sim (oq : @leafop Q) (or : @leafop R) : Prop :=
  forall fl i1 i2 io sq sr, sim sq sr -> osim (oq fl i1 i2 io sq) (or fl i1 i2 io sr).

Lemma sval2_transfer (a b : Q) (c : sc) : Q2R (sval2 a b c) = sval2 (Q2R a) (Q2R b) c.
Proof. unfold sval2. rewrite sval_transfer. reflexivity. Qed.

Lemma lincomb_leaf_transfer (a b : Q) :
  leaf_sim (lincomb_leaf flg bdtf icq a b) (lincomb_leaf flg bdtf icr (Q2R a) (Q2R b)).
Proof.
  intros fl i1 i2 io sq sr Hs. unfold lincomb_leaf, tensor_lincomb.
  destruct (elems3 discr_lincomb_call) as [[d1 d2] do].
  destruct tensor_lincomb_call as [[[[pa p1] pb] p2] po].
  unfold lincomb_impl. rewrite (sim_length sq sr _ Hs), <- !sval2_transfer.
  apply lincomb_impl_transfer; [|exact Hs]. destruct fl; [reflexivity | exact Hic].
Qed.
Lemma multiply_leaf_transfer : leaf_sim (@multiply_leaf Q _) (@multiply_leaf R _).
Proof.
  intros fl i1 i2 io sq sr Hs. unfold multiply_leaf. destruct discr_multiply_call as [[d1 d2] do].
  apply ufunc_impl_transfer, Hs.
Qed.
Lemma divide_leaf_transfer : leaf_sim (@divide_leaf Q _) (@divide_leaf R _).
Proof.
  intros fl i1 i2 io sq sr Hs. unfold divide_leaf. destruct discr_divide_call as [[d1 d2] do].
  destruct fl; [apply ufunc_impl_transfer, Hs | exact I].
Qed.

Scheme space_mut2 := Induction for space Sort Prop
  with spaces_mut2 := Induction for spaces Sort Prop.

Lemma ps_map3p_transfer pm (oq : @leafop Q) (or : @leafop R) : leaf_sim oq or ->
  forall sp x1 x2 out sq sr, sim sq sr ->
  osim (ps_map3p pm oq sp x1 x2 out sq) (ps_map3p pm or sp x1 x2 out sr).
Proof.
  intros Hop sp.
  apply (space_mut2
    (fun sp => forall x1 x2 out sq sr, sim sq sr ->
       osim (ps_map3p pm oq sp x1 x2 out sq) (ps_map3p pm or sp x1 x2 out sr))
    (fun sps => forall p1 p2 po sq sr, sim sq sr ->
       osim (ps_map3ps pm oq sps p1 p2 po sq) (ps_map3ps pm or sps p1 p2 po sr))).
  - intros fl x1 x2 out sq sr Hs. destruct x1, x2, out; cbn [ps_map3p]; try exact I. apply Hop, Hs.
  - intros sps IH x1 x2 out sq sr Hs. destruct x1, x2, out; cbn [ps_map3p]; try exact I. apply IH, Hs.
  - intros p1 p2 po sq sr Hs. destruct p1, p2, po; cbn [ps_map3ps]; try exact I. exact Hs.
  - intros sp' IHsp sps IHsps p1 p2 po sq sr Hs.
    destruct p1 as [|x p1], p2 as [|y p2], po as [|o po]; try exact I.
    destruct pm as [[q1 q2] qo].
    change (osim (bind (ps_map3p (q1, q2, qo) oq sp' (pick3 q1 x y o) (pick3 q2 x y o) (pick3 qo x y o) sq)
                       (ps_map3ps (q1, q2, qo) oq sps p1 p2 po))
                 (bind (ps_map3p (q1, q2, qo) or sp' (pick3 q1 x y o) (pick3 q2 x y o) (pick3 qo x y o) sr)
                       (ps_map3ps (q1, q2, qo) or sps p1 p2 po))).
    apply osim_bind; [apply IHsp, Hs | intros; apply IHsps; assumption].
Qed.

Lemma fill_elem_transfer (c : Q) : forall (e : elem) sq sr, sim sq sr ->
  sim (fill_elem c e sq) (fill_elem (Q2R c) e sr).
Proof.
  apply (elem_mut_tr
    (fun e => forall sq sr, sim sq sr -> sim (fill_elem c e sq) (fill_elem (Q2R c) e sr))
    (fun es => forall sq sr, sim sq sr -> sim (fill_elems c es sq) (fill_elems (Q2R c) es sr))).
  - intros i sq sr Hs. cbn [fill_elem]. apply sim_upd; [exact Hs|]. rewrite Hs, !map_map. reflexivity.
  - intros es IH sq sr Hs. cbn [fill_elem]. apply IH, Hs.
  - intros sq sr Hs. exact Hs.
  - intros e IHe es IHes sq sr Hs. cbn [fill_elems]. apply IHes, IHe, Hs.
Qed.

Lemma ps_lincomb_transfer sp (a b : Q) x1 x2 out sq sr : sim sq sr ->
  osim (ps_lincomb flg bdtf icq sp a x1 b x2 out sq) (ps_lincomb flg bdtf icr sp (Q2R a) x1 (Q2R b) x2 out sr).
Proof. intros Hs. unfold ps_lincomb. apply ps_map3p_transfer; [apply lincomb_leaf_transfer | exact Hs]. Qed.
Lemma ps_multiply_transfer sp x1 x2 out sq sr : sim sq sr ->
  osim (@ps_multiply Q _ sp x1 x2 out sq) (@ps_multiply R _ sp x1 x2 out sr).
Proof. intros Hs. unfold ps_multiply. apply ps_map3p_transfer; [apply multiply_leaf_transfer | exact Hs]. Qed.
Lemma ps_divide_transfer sp x1 x2 out sq sr : sim sq sr ->
  osim (@ps_divide Q _ sp x1 x2 out sq) (@ps_divide R _ sp x1 x2 out sr).
Proof. intros Hs. unfold ps_divide. apply ps_map3p_transfer; [apply divide_leaf_transfer | exact Hs]. Qed.

Lemma sref_transfer (r : sref) (c : Q) : Q2R (sref_val r c) = sref_val r (Q2R c).
Proof.
  destruct r; cbn [sref_val].
  - apply Q2R_of_Z. - reflexivity. - apply Q2R_nopp.
  - rewrite Q2R_ndiv_total, Q2R_of_Z. reflexivity.
Qed.

Lemma run_call_transfer sp (st : wstmt) self other (c : Q) tmp sq sr : sim sq sr ->
  osim (run_call flg bdtf icq sp st self other c tmp sq) (run_call flg bdtf icr sp st self other (Q2R c) tmp sr).
Proof.
  intros Hs. destruct st; cbn [run_call]; try exact Hs.
  - unfold w_lincomb1. destruct space_lincomb1_call as [[[[pa p1] pb] p2] po].
    rewrite <- !sref_transfer. rewrite <- Q2R_nzero at 1 2. rewrite <- !sval2_transfer.
    apply ps_lincomb_transfer, Hs.
  - unfold w_lincomb2. destruct space_lincomb2_call as [[[[pa p1] pb] p2] po].
    rewrite <- !sref_transfer, <- !sval2_transfer. apply ps_lincomb_transfer, Hs.
  - unfold w_multiply. destruct space_multiply_call as [[p1 p2] po]. apply ps_multiply_transfer, Hs.
  - unfold w_divide. destruct space_divide_call as [[p1 p2] po]. apply ps_divide_transfer, Hs.
Qed.

(* every regenerated operator program: the run at Q is the rational restriction of the run at R *)
Theorem run_w_transfer sp (l : list wstmt) self other (c : Q) tmp : forall sq sr, sim sq sr ->
  osim (run_w flg bdtf icq sp l self other c tmp sq) (run_w flg bdtf icr sp l self other (Q2R c) tmp sr).
Proof.
  induction l as [|st l IH]; intros sq sr Hs; [exact Hs|].
  destruct st; cbn [run_w].
  - apply IH, Hs.
  - unfold with_one. apply IH. rewrite <- (Q2R_of_Z 1). apply fill_elem_transfer, Hs.
  - destruct l; [apply run_call_transfer, Hs | unfold seq; apply osim_bind; [apply run_call_transfer, Hs | exact IH]].
  - destruct l; [apply run_call_transfer, Hs | unfold seq; apply osim_bind; [apply run_call_transfer, Hs | exact IH]].
  - destruct l; [apply run_call_transfer, Hs | unfold seq; apply osim_bind; [apply run_call_transfer, Hs | exact IH]].
  - destruct l; [apply run_call_transfer, Hs | unfold seq; apply osim_bind; [apply run_call_transfer, Hs | exact IH]].
Qed.
End SpaceTransfer.
