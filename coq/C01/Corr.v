(* C01/Corr.v -- correspondence checkers (executed by the shards at the
   carriers Q, Q*Q, option Q, option (Q*Q)). *)
From Coq Require Import ZArith QArith Qround List Bool.
From Verif Require Import Base.Num Base.Vec Base.Check C01.Syntax Gen.Lincomb C01.Carriers C01.Model.
Import ListNotations.

(* ---- comparison at each carrier ---- *)
Definition clQ (tol : Q) (impl model : Q) : bool := Qclose tol tol impl model.
Definition clC (tol : Q) (impl model : Q * Q) : bool :=
  clQ tol (fst impl) (fst model) && clQ tol (snd impl) (snd model).
Definition clO {A} (cl : A -> A -> bool) (impl model : option A) : bool :=
  match impl, model with
  | Some x, Some y => cl x y
  | None, None => true
  | _, _ => false
  end.

(* conversion to an integer dtype: truncation towards zero *)
Definition Qtrunc_cast (q : Q) : Q :=
  inject_Z (if Qle_bool 0 q then Qfloor q else Qceiling q).

(* ---- large arrays from a closed form known to both sides ----
   entry i = ((m * i + c) mod p) - h   for i = 0 .. n-1 *)
Fixpoint gen_from (n : nat) (i m c p h : Z) : list Q :=
  match n with O => [] | S n' => inject_Z ((m * i + c) mod p - h) :: gen_from n' (i + 1) m c p h end.
Definition gen (n m c p h : Z) : list Q := gen_from (Z.to_nat n) 0 m c p h.
(* expected output given as one period *)
Fixpoint cyc_from {A} (n : nat) (pat cur : list A) : list A :=
  match n with
  | O => []
  | S n' => match cur with
            | a :: cur' => a :: cyc_from n' pat cur'
            | [] => match pat with a :: cur' => a :: cyc_from n' pat cur' | [] => [] end
            end
  end.
Definition cyc {A} (n : Z) (pat : list A) : list A := cyc_from (Z.to_nat n) pat pat.

(* ---- tensor-level lincomb ---- *)
Record caseL (T : Type) := mkL {
  l_fl : bool;                         (* is_floating_dtype(dtype) *)
  l_bdt : bool;                        (* dtype in _BLAS_DTYPES *)
  l_flags : list (bool * bool);        (* (c_contiguous, f_contiguous) of x1, x2, out *)
  l_ids : nat * nat * nat;             (* identities of x1, x2, out among the buffers 0,1,2 *)
  l_a : T; l_b : T;
  l_bufs : list (list T);              (* initial contents of buffers 0,1,2 *)
  l_res : list (list T)                (* contents of buffers 0,1,2 after the call (implementation) *)
}.
Arguments mkL {T}.
Arguments l_fl {T}. Arguments l_bdt {T}. Arguments l_flags {T}. Arguments l_ids {T}.
Arguments l_a {T}. Arguments l_b {T}. Arguments l_bufs {T}. Arguments l_res {T}.

Definition store_of {T} (bufs : list (list T)) : store T := fun j => nth j bufs [].
Definition dump {T} (s : store T) : list (list T) := [s 0%nat; s 1%nat; s 2%nat].

Definition checkL {T} `{Num T} (cl : T -> T -> bool) (cast : T -> T) (k : caseL T) : bool :=
  let s0 := store_of (l_bufs k) in
  let '(i1, i2, io) := l_ids k in
  let bo := blas_applicable (l_bdt k) (Z.of_nat (length (s0 i1))) (l_flags k) in
  match lincomb_impl cast (l_fl k) bo (l_a k) i1 (l_b k) i2 io s0 with
  | Ok s1 => all2 (all2 cl) (l_res k) (dump s1)
  | _ => false
  end.

Definition idQ (q : Q) : Q := q.
Definition checkL_real (tol : Q) := checkL (clQ tol) idQ.
Definition checkL_int := checkL (clQ 0) Qtrunc_cast.
Definition checkL_cx (tol : Q) := checkL (clC tol) (fun z : Q * Q => z).
Definition checkL_nan (tol : Q) := checkL (clO (clQ tol)) (fun z : option Q => z).
Definition checkL_cxnan (tol : Q) := checkL (clO (clC tol)) (fun z : option (Q * Q) => z).

(* which regime the model selects (reported in the evidence by the harness) *)
Definition regime_tag (fl bdt : bool) (size : Z) (flags : list (bool * bool)) : nat :=
  match regime_of size fl (blas_applicable bdt size flags) with Direct => 0 | Fallback => 1 | Blas => 2 end%nat.
