(* C01/Corr.v -- correspondence checkers (executed by the shards at the
   carriers Q, Q*Q, option Q, option (Q*Q)). *)
From Coq Require Import ZArith QArith Qround List Bool.
From Verif Require Import Base.Num Base.Vec Base.Check C01.Syntax Gen.Lincomb C01.Carriers C01.Model.
Import ListNotations.

(* ---- comparison at each carrier ---- *)
Definition clQ (tol : Q) (impl model : Q) : bool := Qclose tol tol impl model.
Definition clC (tol : Q) (impl model : Q * Q) : bool :=
  clQ tol (fst impl) (fst model) && clQ tol (snd impl) (snd model).
Definition clO {A} (cl : A -> A -> bool) (impl model : option A) : bool :=
  match impl, model with
  | Some x, Some y => cl x y
  | None, None => true
  | _, _ => false
  end.

(* conversion to an integer dtype: truncation towards zero *)
Definition Qtrunc_cast (q : Q) : Q :=
  inject_Z (if Qle_bool 0 q then Qfloor q else Qceiling q).

(* ---- large arrays from a closed form known to both sides ----
   entry i = ((m * i + c) mod p) - h   for i = 0 .. n-1 *)
Fixpoint gen_from (n : nat) (i m c p h : Z) : list Q :=
  match n with O => [] | S n' => inject_Z ((m * i + c) mod p - h) :: gen_from n' (i + 1) m c p h end.
Definition gen (n m c p h : Z) : list Q := gen_from (Z.to_nat n) 0 m c p h.
(* expected output given as one period *)
Fixpoint cyc_from {A} (n : nat) (pat cur : list A) : list A :=
  match n with
  | O => []
  | S n' => match cur with
            | a :: cur' => a :: cyc_from n' pat cur'
            | [] => match pat with a :: cur' => a :: cyc_from n' pat cur' | [] => [] end
            end
  end.
Definition cyc {A} (n : Z) (pat : list A) : list A := cyc_from (Z.to_nat n) pat pat.

(* ---- tensor-level lincomb ---- *)
Record caseL (T : Type) := mkL {
  l_fl : bool;                         (* is_floating_dtype(dtype) *)
  l_bdt : dtinfo;                      (* type code and byte order of the dtype *)
  l_flags : list (bool * bool);        (* (c_contiguous, f_contiguous) of x1, x2, out *)
  l_ids : nat * nat * nat;             (* identities of x1, x2, out among the buffers 0,1,2 *)
  l_size : Z;                          (* 0: the buffers are the whole arrays; n > 0: x1.size = n and the
                                          buffers hold one period of periodic arrays (large sizes) *)
  l_a : T; l_b : T;
  l_bufs : list (list T);              (* initial contents of buffers 0,1,2 *)
  l_res : list (list T)                (* contents of buffers 0,1,2 after the call (implementation) *)
}.
Arguments mkL {T}.
Arguments l_fl {T}. Arguments l_bdt {T}. Arguments l_flags {T}. Arguments l_ids {T}.
Arguments l_size {T}. Arguments l_a {T}. Arguments l_b {T}. Arguments l_bufs {T}. Arguments l_res {T}.

Definition store_of {T} (bufs : list (list T)) : store T := fun j => nth j bufs [].
Definition dump {T} (s : store T) : list (list T) := [s 0%nat; s 1%nat; s 2%nat].

Definition checkL {T} `{Num T} (cl : T -> T -> bool) (cast : T -> T) (k : caseL T) : bool :=
  let s0 := store_of (l_bufs k) in
  let '(i1, i2, io) := l_ids k in
  match (if (l_size k =? 0)%Z then lincomb_impl cast (l_fl k) (l_bdt k) (l_flags k) (l_a k) i1 (l_b k) i2 io s0
         else lincomb_impl_sz cast (l_fl k) (l_bdt k) (l_flags k) (l_size k) (l_a k) i1 (l_b k) i2 io s0) with
  | Ok s1 => all2 (all2 cl) (l_res k) (dump s1)
  | _ => false
  end.

Definition idQ (q : Q) : Q := q.
Definition checkL_real (tol : Q) := checkL (clQ tol) idQ.
Definition checkL_int := checkL (clQ 0) Qtrunc_cast.
Definition checkL_cx (tol : Q) := checkL (clC tol) (fun z : Q * Q => z).
Definition checkL_nan (tol : Q) := checkL (clO (clQ tol)) (fun z : option Q => z).
Definition checkL_cxnan (tol : Q) := checkL (clO (clC tol)) (fun z : option (Q * Q) => z).

(* which regime the model selects (reported in the evidence by the harness) *)
Definition regime_tag (fl : bool) (bdt : dtinfo) (size : Z) (flags : list (bool * bool)) : nat :=
  match regime_of size fl (blas_applicable true bdt size flags) with Direct => 0 | Fallback => 1 | Blas => 2 end%nat.

(* ---- space-level arithmetic (nested product spaces, discretized spaces, operators) ---- *)
From Verif Require Import C01.ModelSpace.

Inductive bkind := BAdd | BSub | BMul | BDiv | BRAdd | BRSub | BRMul | BRDiv.

Inductive wop (T : Type) :=
| WLincomb1 (a : T) (x1 out : elem)
| WLincomb2 (a : T) (x1 : elem) (b : T) (x2 out : elem)
| WMultiply (x1 x2 out : elem) | WDivide (x1 x2 out : elem)
| WAssign (self other : elem) | WCopy (self tmp : elem) | WSetZero (self : elem)
| WIAdd (self other : elem) | WAdd (self other tmp : elem)
| WIAddS (self : elem) (c : T) (tmp : elem) | WAddS (self : elem) (c : T) (tmp : elem)
| WISub (self other : elem) | WSub (self other tmp : elem)
| WISubS (self : elem) (c : T) (tmp : elem) | WSubS (self : elem) (c : T) (tmp : elem)
| WRSub (self other tmp : elem) | WRSubS (self : elem) (c : T) (tmp : elem)
| WIMulS (self : elem) (c : T) | WMulS (self : elem) (c : T) (tmp : elem)
| WIMul (self other : elem) | WMul (self other tmp : elem)
| WITrueDivS (self : elem) (c : T) | WTrueDivS (self : elem) (c : T) (tmp : elem)
| WITrueDiv (self other : elem) | WTrueDiv (self other tmp : elem)
| WRTrueDiv (self other tmp : elem) | WRTrueDivS (self : elem) (c : T) (tmp : elem)
| WNeg (self tmp : elem) | WPos (self tmp : elem)
| WCopyLeaf (self tmp : nat)
| WIPow (generic_copy : bool) (self : elem) (p : nat) (tmp one_tmp : elem)
| WIPowNeg (generic_copy : bool) (self : elem) (p : nat) (tmp one_tmp one2 : elem)   (* x **= -p *)
| WPow (generic_copy : bool) (self : elem) (p : nat) (res tmp one_tmp : elem)   (* x ** p: tmp = self.copy(); tmp.__ipow__(p) *)
| WData (o : opname) (self wrapped tmp : elem)    (* operator with an ndarray / nested list operand *)
| WBcast (inplace : bool) (k : bkind) (sp0 : space) (parts : elems) (other : elem) (tmps : elems).
Arguments WLincomb1 {T}. Arguments WLincomb2 {T}. Arguments WMultiply {T}. Arguments WDivide {T}.
Arguments WAssign {T}. Arguments WCopy {T}. Arguments WSetZero {T}.
Arguments WIAdd {T}. Arguments WAdd {T}. Arguments WIAddS {T}. Arguments WAddS {T}.
Arguments WISub {T}. Arguments WSub {T}. Arguments WISubS {T}. Arguments WSubS {T}.
Arguments WRSub {T}. Arguments WRSubS {T}. Arguments WIMulS {T}. Arguments WMulS {T}.
Arguments WIMul {T}. Arguments WMul {T}. Arguments WITrueDivS {T}. Arguments WTrueDivS {T}.
Arguments WITrueDiv {T}. Arguments WTrueDiv {T}. Arguments WRTrueDiv {T}. Arguments WRTrueDivS {T}.
Arguments WNeg {T}. Arguments WPos {T}. Arguments WCopyLeaf {T}. Arguments WIPow {T}. Arguments WIPowNeg {T}. Arguments WPow {T}. Arguments WData {T}. Arguments WBcast {T}.

Record caseW (T : Type) := mkW {
  w_sp : space;
  w_bdt : list dtinfo;               (* per buffer id: type code and byte order of the dtype *)
  w_flags : list (bool * bool);      (* per buffer id: (c_contiguous, f_contiguous) *)
  w_op : wop T;
  w_bufs : list (list T);            (* initial contents, by id (temporaries: arbitrary, right length) *)
  w_cmp : list nat;                  (* ids whose final contents are compared *)
  w_res : list (list T);             (* final contents by id (implementation) *)
  w_err : nat                        (* 0 = returned, 1 = raised a casting error *)
}.
Arguments mkW {T}.
Arguments w_sp {T}. Arguments w_bdt {T}. Arguments w_flags {T}. Arguments w_op {T}.
Arguments w_bufs {T}. Arguments w_cmp {T}. Arguments w_res {T}. Arguments w_err {T}.

Section RunW.
Context {T : Type} `{Num T}.
Variable flg : nat -> bool * bool.
Variable bdtf : nat -> dtinfo.
Variable icast : T -> T.

Definition run_b (inplace : bool) (k : bkind) (sp0 : space) (other : elem) (x t : elem) : store T -> outcome T :=
  if inplace then
    match k with
    | BAdd | BRAdd => w_iadd flg bdtf icast sp0 x other
    | BSub | BRSub => w_isub flg bdtf icast sp0 x other
    | BMul | BRMul => w_imul flg bdtf icast sp0 x other
    | BDiv | BRDiv => w_itruediv flg bdtf icast sp0 x other
    end
  else
    match k with
    | BAdd | BRAdd => w_add flg bdtf icast sp0 x other t
    | BSub => w_sub flg bdtf icast sp0 x other t
    | BRSub => w_rsub flg bdtf icast sp0 x other t
    | BMul | BRMul => w_mul flg bdtf icast sp0 x other t
    | BDiv => w_truediv flg bdtf icast sp0 x other t
    | BRDiv => w_rtruediv flg bdtf icast sp0 x other t
    end.

Definition run_wop (sp : space) (o : wop T) : store T -> outcome T :=
  match o with
  | WLincomb1 a x1 out => w_lincomb1 flg bdtf icast sp a x1 out
  | WLincomb2 a x1 b x2 out => w_lincomb2 flg bdtf icast sp a x1 b x2 out
  | WMultiply x1 x2 out => w_multiply sp x1 x2 out
  | WDivide x1 x2 out => w_divide sp x1 x2 out
  | WAssign self other => w_assign flg bdtf icast sp self other
  | WCopy self tmp => w_copy flg bdtf icast sp self tmp
  | WSetZero self => w_set_zero flg bdtf icast sp self
  | WIAdd self other => w_iadd flg bdtf icast sp self other
  | WAdd self other tmp => w_add flg bdtf icast sp self other tmp
  | WIAddS self c tmp => w_iadd_scalar flg bdtf icast sp self c tmp
  | WAddS self c tmp => w_add_scalar flg bdtf icast sp self c tmp
  | WISub self other => w_isub flg bdtf icast sp self other
  | WSub self other tmp => w_sub flg bdtf icast sp self other tmp
  | WISubS self c tmp => w_isub_scalar flg bdtf icast sp self c tmp
  | WSubS self c tmp => w_sub_scalar flg bdtf icast sp self c tmp
  | WRSub self other tmp => w_rsub flg bdtf icast sp self other tmp
  | WRSubS self c tmp => w_rsub_scalar flg bdtf icast sp self c tmp
  | WIMulS self c => w_imul_scalar flg bdtf icast sp self c
  | WMulS self c tmp => w_mul_scalar flg bdtf icast sp self c tmp
  | WIMul self other => w_imul flg bdtf icast sp self other
  | WMul self other tmp => w_mul flg bdtf icast sp self other tmp
  | WITrueDivS self c => w_itruediv_scalar flg bdtf icast sp self c
  | WTrueDivS self c tmp => w_truediv_scalar flg bdtf icast sp self c tmp
  | WITrueDiv self other => w_itruediv flg bdtf icast sp self other
  | WTrueDiv self other tmp => w_truediv flg bdtf icast sp self other tmp
  | WRTrueDiv self other tmp => w_rtruediv flg bdtf icast sp self other tmp
  | WRTrueDivS self c tmp => w_rtruediv_scalar flg bdtf icast sp self c tmp
  | WNeg self tmp => w_neg flg bdtf icast sp self tmp
  | WPos self tmp => w_pos flg bdtf icast sp self tmp
  | WCopyLeaf self tmp => w_copy_leaf self tmp
  | WIPow g self p tmp one_tmp =>
      w_ipow flg bdtf icast (S p)
        (if g then w_copy flg bdtf icast sp else fun x t => w_copy_leaf (leaf_id x) (leaf_id t))
        sp self p tmp one_tmp
  | WIPowNeg g self p tmp one_tmp one2 =>
      (* self **= -p  is  self **= p; self.space.divide(self.space.one(), self, out=self) *)
      seq (w_ipow flg bdtf icast (S p)
             (if g then w_copy flg bdtf icast sp else fun x t => w_copy_leaf (leaf_id x) (leaf_id t))
             sp self p tmp one_tmp)
          (with_one one2 (w_divide sp one2 self self))
  | WPow g self p res tmp one_tmp =>
      let cp := if g then w_copy flg bdtf icast sp else fun x t => w_copy_leaf (leaf_id x) (leaf_id t) in
      seq (cp self res) (w_ipow flg bdtf icast (S p) cp sp res p tmp one_tmp)
  | WData o self wrapped tmp => w_data flg bdtf icast sp o self wrapped tmp
  | WBcast inplace k sp0 parts other tmps =>
      if inplace then bcast1 (fun x => run_b true k sp0 other x x) parts
      else bcast2 (run_b false k sp0 other) parts tmps
  end.
End RunW.

Definition checkW {T} `{Num T} (cl : T -> T -> bool) (icast : T -> T) (k : caseW T) : bool :=
  let s0 := store_of (w_bufs k) in
  let flg := fun i => nth i (w_flags k) (false, false) in
  let bdtf := fun i => nth i (w_bdt k) (mkdt 0 false 0) in
  match run_wop flg bdtf icast (w_sp k) (w_op k) s0, w_err k with
  | Ok s1, O => forallb (fun i => all2 cl (nth i (w_res k) []) (s1 i)) (w_cmp k)
  | CastErr, S O => true
  | _, _ => false
  end.

Definition checkW_real (tol : Q) := checkW (clQ tol) Qtrunc_cast.
Definition checkW_cx (tol : Q) := checkW (clC tol) (fun z : Q * Q => z).
Definition checkW_nan (tol : Q) := checkW (clO (clQ tol)) (fun z : option Q => z).
Definition checkW_cxnan (tol : Q) := checkW (clO (clC tol)) (fun z : option (Q * Q) => z).
