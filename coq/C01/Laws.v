(* C01/Laws.v -- the field laws a carrier must satisfy for the exact-arithmetic
   theorems, and the two instances used: the reals and the complex numbers
   over the reals.  (The rationals used for execution satisfy them up to Qeq.) *)
From Coq Require Import ZArith Reals Lra Field Ring List Bool.
From Verif Require Import Base.Num C01.Carriers.
Local Open Scope num_scope.

Definition ninv {T} `{Num T} (x : T) : T := none_ / x.

Class NumField (T : Type) `{Num T} := {
  nf_field : field_theory nzero none_ nadd nmul nsub nopp ndiv ninv (@eq T);
  nf_eqb : forall a b : T, neqb a b = true <-> a = b;
  nf_of0 : of_Z 0 = nzero;
  nf_of1 : of_Z 1 = none_;
  nf_ofm1 : of_Z (-1) = nopp none_ }.

Lemma neqb_false {T} `{NumField T} (a b : T) : neqb a b = false <-> a <> b.
Proof.
  split; intros E.
  - intros Hab. apply nf_eqb in Hab. congruence.
  - destruct (neqb a b) eqn:E'; [apply nf_eqb in E'; contradiction | reflexivity].
Qed.

(* ---- the reals ---- *)
Lemma R_field_theory : field_theory 0%R 1%R Rplus Rmult Rminus Ropp Rdiv (fun x => (1 / x)%R) (@eq R).
Proof.
  constructor.
  - exact RTheory.
  - exact R1_neq_R0.
  - intros p q. unfold Rdiv. ring.
  - intros p Hp. field. exact Hp.
Qed.

Global Instance NumField_R : NumField R.
Proof.
  constructor.
  - exact R_field_theory.
  - intros a b. cbn. unfold Reqb. destruct (Req_EM_T a b); split; congruence.
  - reflexivity.
  - reflexivity.
  - cbn. ring.
Qed.

(* ---- complex numbers over the reals ---- *)
Local Open Scope R_scope.
Lemma cx_eq (a b c d : R) : a = c -> b = d -> (a, b) = (c, d).
Proof. congruence. Qed.

Lemma sumsq_nonzero (c d : R) : (c, d) <> (0, 0) -> c * c + d * d <> 0.
Proof.
  intros Hne Hz. apply Hne.
  assert (Hc : c = 0) by nra. assert (Hd : d = 0) by nra. subst. reflexivity.
Qed.

Lemma C_field_theory :
  field_theory (@nzero (R * R) _) none_ nadd nmul nsub nopp ndiv ninv (@eq (R * R)).
Proof.
  constructor.
  - constructor; repeat intros [? ?]; cbn; unfold cx_mul; cbn; apply cx_eq; ring.
  - cbn. intros E. injection E. intros. lra.
  - intros [a b] [c d]. unfold ninv. cbn. unfold cx_mul, cx_div. cbn.
    destruct (Req_EM_T (c * c + d * d) 0) as [Hz | Hz].
    + (* division by zero is totalised consistently: x / 0 = x * (1 / 0) *)
      rewrite Hz. unfold Rdiv. rewrite Rinv_0. apply cx_eq; ring.
    + apply cx_eq; field; exact Hz.
  - intros [c d] Hp. unfold ninv. cbn. unfold cx_mul, cx_div. cbn.
    pose proof (sumsq_nonzero c d Hp) as Hz. apply cx_eq; field; exact Hz.
Qed.

Global Instance NumField_C : NumField (R * R).
Proof.
  constructor.
  - exact C_field_theory.
  - intros [a b] [c d]. cbn. unfold Reqb.
    destruct (Req_EM_T a c), (Req_EM_T b d); cbn; split; intros E; try congruence;
      injection E; intros; congruence.
  - reflexivity.
  - reflexivity.
  - cbn. apply cx_eq; ring.
Qed.
