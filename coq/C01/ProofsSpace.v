(* C01/ProofsSpace.v -- arbitrarily nested product spaces: the component-wise
   recursion of ProductSpace._lincomb/_multiply/_divide is the sequential
   execution of the leaf operation over the leaves in traversal order
   (mutual induction on the space), and that sequence computes the entry-wise
   result at every leaf under positional aliasing (induction on the sequence). *)
From Coq Require Import ZArith Lia List Bool.
From Verif Require Import Base.Num Base.Vec C01.Syntax Gen.Lincomb Gen.SpaceOps C01.Carriers C01.Model C01.Laws
  C01.Proofs C01.ModelSpace.
Import ListNotations.
Local Open Scope num_scope.

Scheme space_mut := Induction for space Sort Prop
  with spaces_mut := Induction for spaces Sort Prop.

(* a leaf position: (floating?, id of x1's leaf, id of x2's leaf, id of out's leaf) *)
Definition quad := (bool * nat * nat * nat)%type.
Definition q_fl (q : quad) : bool := let '(f, _, _, _) := q in f.
Definition q_x1 (q : quad) : nat := let '(_, i, _, _) := q in i.
Definition q_x2 (q : quad) : nat := let '(_, _, i, _) := q in i.
Definition q_out (q : quad) : nat := let '(_, _, _, i) := q in i.

(* the element has the shape of the space (what `x in space` guarantees) *)
Fixpoint conf (sp : space) (e : elem) : Prop :=
  match sp, e with
  | SLeaf _, Leaf _ => True
  | SNode sps, Node es => confs sps es
  | _, _ => False
  end
with confs (sps : spaces) (es : elems) : Prop :=
  match sps, es with
  | SNil, ENil => True
  | SCons sp sps', ECons e es' => conf sp e /\ confs sps' es'
  | _, _ => False
  end.

Fixpoint quads (sp : space) (x1 x2 out : elem) : list quad :=
  match sp, x1, x2, out with
  | SLeaf fl, Leaf i1, Leaf i2, Leaf io => [(fl, i1, i2, io)]
  | SNode sps, Node p1, Node p2, Node po => quadss sps p1 p2 po
  | _, _, _, _ => []
  end
with quadss (sps : spaces) (p1 p2 po : elems) : list quad :=
  match sps, p1, p2, po with
  | SCons sp sps', ECons x p1', ECons y p2', ECons o po' => quads sp x y o ++ quadss sps' p1' p2' po'
  | _, _, _, _ => []
  end.

(* positional aliasing: the output leaf of a position differs from every operand
   leaf and every output leaf of the LATER positions.  (Equal leaves at the SAME
   position -- out is x1, shared components -- are allowed.) *)
Fixpoint wf (l : list quad) : Prop :=
  match l with
  | [] => True
  | q :: l' => (forall q', In q' l' -> q_x1 q' <> q_out q /\ q_x2 q' <> q_out q /\ q_out q' <> q_out q) /\ wf l'
  end.

Section Seq.
Context {T : Type} `{Num T}.

Fixpoint seq_ops (op : leafop) (l : list quad) (s : store T) : outcome T :=
  match l with
  | [] => Ok s
  | (fl, i1, i2, io) :: l' => bind (op fl i1 i2 io s) (seq_ops op l')
  end.

Lemma seq_ops_app (op : leafop) (l l' : list quad) (s : store T) :
  seq_ops op (l ++ l') s = bind (seq_ops op l s) (seq_ops op l').
Proof.
  revert s; induction l as [|[[[fl i1] i2] io] l IH]; intros s; cbn [app seq_ops bind].
  - reflexivity.
  - destruct (op fl i1 i2 io s); cbn [bind]; auto.
Qed.

(* nested recursion = flat sequence (mutual induction on the space) *)
Lemma ps_map3_flat (op : leafop) :
  forall (sp : space) (x1 x2 out : elem) (s : store T),
  conf sp x1 -> conf sp x2 -> conf sp out ->
  ps_map3 op sp x1 x2 out s = seq_ops op (quads sp x1 x2 out) s.
Proof.
  intros sp.
  apply (space_mut
    (fun sp => forall x1 x2 out s, conf sp x1 -> conf sp x2 -> conf sp out ->
       ps_map3 op sp x1 x2 out s = seq_ops op (quads sp x1 x2 out) s)
    (fun sps => forall p1 p2 po s, confs sps p1 -> confs sps p2 -> confs sps po ->
       ps_map3s op sps p1 p2 po s = seq_ops op (quadss sps p1 p2 po) s)).
  - intros fl [i1|?] [i2|?] [io|?] s C1 C2 Co; cbn in *; try contradiction.
    destruct (op fl i1 i2 io s); reflexivity.
  - intros sps IH [?|p1] [?|p2] [?|po] s C1 C2 Co; cbn in *; try contradiction.
    apply IH; assumption.
  - intros [|? ?] [|? ?] [|? ?] s C1 C2 Co; cbn in *; try contradiction. reflexivity.
  - intros sp' IHsp sps IHsps [|x p1] [|y p2] [|o po] s C1 C2 Co; cbn in C1, C2, Co; try contradiction.
    destruct C1 as [C1 C1'], C2 as [C2 C2'], Co as [Co Co'].
    cbn [ps_map3s quadss]. rewrite seq_ops_app, IHsp by assumption.
    destruct (seq_ops op (quads sp' x y o) s); cbn [bind]; auto.
Qed.

(* what a leaf operation must satisfy: it returns, writes F(x1, x2) computed from
   the contents BEFORE the call into out, and changes nothing else *)
Definition leaf_ok (op : leafop) (F : bool -> list T -> list T -> list T) (P : bool -> Prop) : Prop :=
  forall fl i1 i2 io (s : store T), P fl ->
  length (s i1) = length (s i2) -> length (s io) = length (s i1) ->
  exists s', op fl i1 i2 io s = Ok s' /\ s' io = F fl (s i1) (s i2) /\ forall j, j <> io -> s' j = s j.

Definition lens_ok (s : store T) (l : list quad) : Prop :=
  forall q, In q l -> length (s (q_x1 q)) = length (s (q_x2 q)) /\ length (s (q_out q)) = length (s (q_x1 q)).

Theorem seq_ops_correct (op : leafop) F P : leaf_ok op F P ->
  forall (l : list quad) (s : store T),
  (forall q, In q l -> P (q_fl q)) -> wf l -> lens_ok s l ->
  exists s', seq_ops op l s = Ok s'
    /\ (forall q, In q l -> s' (q_out q) = F (q_fl q) (s (q_x1 q)) (s (q_x2 q)))
    /\ (forall j, ~ In j (map q_out l) -> s' j = s j).
Proof.
  intros Hop l. induction l as [|q l IH]; intros s HP Hwf Hlen.
  - exists s. cbn. split; [reflexivity | split; [intros q Hq; contradiction | auto]].
  - destruct q as [[[fl i1] i2] io]. cbn [wf] in Hwf. destruct Hwf as [Hlater Hwf].
    destruct (Hlen (fl, i1, i2, io) (or_introl eq_refl)) as [L12 Lo]. cbn in L12, Lo.
    destruct (Hop fl i1 i2 io s (HP _ (or_introl eq_refl)) L12 Lo) as (s1 & E1 & Ho1 & Hf1).
    assert (Hsame : forall q', In q' l ->
              s1 (q_x1 q') = s (q_x1 q') /\ s1 (q_x2 q') = s (q_x2 q') /\ s1 (q_out q') = s (q_out q')).
    { intros q' Hin. destruct (Hlater q' Hin) as (A & B & D). cbn in A, B, D.
      repeat split; apply Hf1; assumption. }
    assert (Hlen1 : lens_ok s1 l).
    { intros q' Hin. destruct (Hsame q' Hin) as (A & B & D). rewrite A, B, D.
      apply Hlen. right. exact Hin. }
    destruct (IH s1 (fun q' Hin => HP q' (or_intror Hin)) Hwf Hlen1) as (s' & E & Hres & Hfr).
    exists s'. cbn [seq_ops]. rewrite E1. cbn [bind]. split; [exact E|]. split.
    + intros q' [Heq | Hin].
      * subst q'. cbn [q_out q_fl q_x1 q_x2]. rewrite Hfr; [exact Ho1|].
        intros Hin. apply in_map_iff in Hin. destruct Hin as (q' & Eq & Hin).
        destruct (Hlater q' Hin) as (_ & _ & D). cbn in D. congruence.
      * rewrite (Hres q' Hin). destruct (Hsame q' Hin) as (A & B & _). rewrite A, B. reflexivity.
    + intros j Hj. cbn [map q_out] in Hj.
      assert (Hj1 : j <> io) by (intros Ej; apply Hj; left; auto).
      assert (Hj2 : ~ In j (map q_out l)) by (intros Hin; apply Hj; right; exact Hin).
      rewrite (Hfr j Hj2). apply Hf1. exact Hj1.
Qed.
End Seq.

(* ---------- the regenerated call conventions (Gen/SpaceOps.v) ----------
   These facts are about the CURRENT source: each delegation passes its arguments through in
   the order (a, x1, b, x2, out) / (x1, x2, out), and the two tensor ufunc calls write
   multiply / divide of (x1, x2) into out.  A source change that permutes or drops an
   argument, changes the ufunc or adds a keyword (e.g. where=) breaks them or the translator. *)
Lemma calls_are_identity :
  tensor_lincomb_call = (SA, X1, SB, X2, OUT) /\ pspace_lincomb_call = (SA, X1, SB, X2, OUT)
  /\ discr_lincomb_call = (SA, X1, SB, X2, OUT)
  /\ tensor_multiply_call = (UMul, X1, X2, OUT) /\ tensor_divide_call = (UDiv, X1, X2, OUT)
  /\ pspace_multiply_call = (X1, X2, OUT) /\ pspace_divide_call = (X1, X2, OUT)
  /\ discr_multiply_call = (X1, X2, OUT) /\ discr_divide_call = (X1, X2, OUT)
  /\ space_lincomb1_call = (SA, X1, SK 0, X1, OUT) /\ space_lincomb2_call = (SA, X1, SB, X2, OUT)
  /\ space_multiply_call = (X1, X2, OUT) /\ space_divide_call = (X1, X2, OUT).
Proof. repeat split; reflexivity. Qed.

(* the array-like fallback of every operator re-dispatches to the SAME operator *)
Lemma redispatch_id (o : opname) : redispatch o = o.
Proof. destruct o; reflexivity. Qed.

Section Bridge.
Context {T : Type} `{Num T}.

Lemma w_data_is_w_elem (flg : nat -> bool * bool) (bdtf : nat -> dtinfo) (icast : T -> T)
      (sp : space) (o : opname) (self wrapped tmp : elem) :
  w_data flg bdtf icast sp o self wrapped tmp = w_elem flg bdtf icast sp o self wrapped tmp.
Proof. unfold w_data, w_elem. rewrite redispatch_id. reflexivity. Qed.


Lemma ps_map3p_id (op : leafop) :
  forall (sp : space) (x1 x2 out : elem) (s : store T),
  ps_map3p (X1, X2, OUT) op sp x1 x2 out s = ps_map3 op sp x1 x2 out s.
Proof.
  intros sp.
  apply (space_mut
    (fun sp => forall x1 x2 out s, ps_map3p (X1, X2, OUT) op sp x1 x2 out s = ps_map3 op sp x1 x2 out s)
    (fun sps => forall p1 p2 po s, ps_map3ps (X1, X2, OUT) op sps p1 p2 po s = ps_map3s op sps p1 p2 po s)).
  - intros fl x1 x2 out s. reflexivity.
  - intros sps IH x1 x2 out s. destruct x1 as [?|p1], x2 as [?|p2], out as [?|po]; try reflexivity.
    cbn [ps_map3p ps_map3]. apply IH.
  - intros p1 p2 po s. reflexivity.
  - intros sp' IHsp sps IHsps p1 p2 po s.
    destruct p1 as [|x p1], p2 as [|y p2], po as [|o po]; try reflexivity.
    change (ps_map3ps (X1, X2, OUT) op (SCons sp' sps) (ECons x p1) (ECons y p2) (ECons o po) s)
      with (bind (ps_map3p (X1, X2, OUT) op sp' x y o s) (ps_map3ps (X1, X2, OUT) op sps p1 p2 po)).
    change (ps_map3s op (SCons sp' sps) (ECons x p1) (ECons y p2) (ECons o po) s)
      with (bind (ps_map3 op sp' x y o s) (ps_map3s op sps p1 p2 po)).
    rewrite IHsp. destruct (ps_map3 op sp' x y o s) as [s1 | | |]; cbn [bind]; [apply IHsps | reflexivity ..].
Qed.

(* np.multiply / np.divide write EVERY entry of out from the operands: whatever out held before
   (any carrier, in particular the poisoned one: garbage may be None everywhere) *)
Lemma multiply_old_out (x1 x2 out : nat) (s : store T) (garbage : list T) :
  out <> x1 -> out <> x2 ->
  exists s', multiply_impl x1 x2 out (upd s out garbage) = Ok s'
    /\ s' out = vmul (s x1) (s x2) /\ forall j, j <> out -> s' j = s j.
Proof.
  intros H1 H2. unfold multiply_impl, ufunc_impl. cbn [tensor_multiply_call pick3 uf_fn].
  eexists. split; [reflexivity|]. split.
  - rewrite upd_same, !upd_other by congruence. reflexivity.
  - intros j Hj. rewrite !upd_other by exact Hj. reflexivity.
Qed.
Lemma divide_old_out (x1 x2 out : nat) (s : store T) (garbage : list T) :
  out <> x1 -> out <> x2 ->
  exists s', divide_impl x1 x2 out (upd s out garbage) = Ok s'
    /\ s' out = vdiv (s x1) (s x2) /\ forall j, j <> out -> s' j = s j.
Proof.
  intros H1 H2. unfold divide_impl, ufunc_impl. cbn [tensor_divide_call pick3 uf_fn].
  eexists. split; [reflexivity|]. split.
  - rewrite upd_same, !upd_other by congruence. reflexivity.
  - intros j Hj. rewrite !upd_other by exact Hj. reflexivity.
Qed.
End Bridge.

(* ---------- the three space operations ---------- *)
Section Ops.
Context {T : Type} {N : Num T} {F : NumField T}.
Variable flg : nat -> bool * bool.
Variable bdtf : nat -> dtinfo.
Variable icast : T -> T.

Definition cast_of (fl : bool) : T -> T := if fl then (fun u => u) else icast.

Lemma lincomb_leaf_ok (a b : T) :
  leaf_ok (lincomb_leaf flg bdtf icast a b) (fun fl u v => map (cast_of fl) (vlin a u b v)) (fun _ => True).
Proof.
  intros fl i1 i2 io s _ L12 Lo. unfold lincomb_leaf, tensor_lincomb, cast_of. cbn [elems3 discr_lincomb_call tensor_lincomb_call pick3 sval2 sval e_a e_b]. destruct fl.
  - destruct (lincomb_impl_correct true (bdtf io) (flg i1) (flg i2) (flg io) a b i1 i2 io s L12 Lo) as (s' & E & Ho & Hf).
    exists s'. rewrite map_id. auto.
  - apply lincomb_impl_nonfloating; assumption.
Qed.

Lemma multiply_leaf_ok : leaf_ok (@multiply_leaf T N) (fun _ u v => vmul u v) (fun _ => True).
Proof.
  intros fl i1 i2 io s _ _ _. unfold multiply_leaf, multiply_impl, ufunc_impl. cbn [discr_multiply_call tensor_multiply_call pick3 uf_fn]. eexists. split; [reflexivity|].
  split; [apply upd_same | intros j Hj; apply upd_other; exact Hj].
Qed.

Lemma divide_leaf_ok : leaf_ok (@divide_leaf T N) (fun _ u v => vdiv u v) (fun fl => fl = true).
Proof.
  intros fl i1 i2 io s Hfl _ _. subst fl. unfold divide_leaf, divide_impl, ufunc_impl. cbn [discr_divide_call tensor_divide_call pick3 uf_fn]. eexists. split; [reflexivity|].
  split; [apply upd_same | intros j Hj; apply upd_other; exact Hj].
Qed.

Theorem ps_lincomb_correct (sp : space) (a b : T) (x1 x2 out : elem) (s : store T) :
  conf sp x1 -> conf sp x2 -> conf sp out ->
  wf (quads sp x1 x2 out) -> lens_ok s (quads sp x1 x2 out) ->
  exists s', ps_lincomb flg bdtf icast sp a x1 b x2 out s = Ok s'
    /\ (forall q, In q (quads sp x1 x2 out) ->
          s' (q_out q) = map (cast_of (q_fl q)) (vlin a (s (q_x1 q)) b (s (q_x2 q))))
    /\ (forall j, ~ In j (map q_out (quads sp x1 x2 out)) -> s' j = s j).
Proof.
  intros C1 C2 Co Hwf Hlen. unfold ps_lincomb. cbn [elems3 pspace_lincomb_call]. rewrite ps_map3p_id, ps_map3_flat by assumption.
  apply (seq_ops_correct _ _ _ (lincomb_leaf_ok a b)); auto.
Qed.

Theorem ps_multiply_correct (sp : space) (x1 x2 out : elem) (s : store T) :
  conf sp x1 -> conf sp x2 -> conf sp out ->
  wf (quads sp x1 x2 out) -> lens_ok s (quads sp x1 x2 out) ->
  exists s', ps_multiply sp x1 x2 out s = Ok s'
    /\ (forall q, In q (quads sp x1 x2 out) -> s' (q_out q) = vmul (s (q_x1 q)) (s (q_x2 q)))
    /\ (forall j, ~ In j (map q_out (quads sp x1 x2 out)) -> s' j = s j).
Proof.
  intros C1 C2 Co Hwf Hlen. unfold ps_multiply, pspace_multiply_call. rewrite ps_map3p_id, ps_map3_flat by assumption.
  apply (seq_ops_correct _ _ _ multiply_leaf_ok); auto.
Qed.

Theorem ps_divide_correct (sp : space) (x1 x2 out : elem) (s : store T) :
  conf sp x1 -> conf sp x2 -> conf sp out ->
  (forall q, In q (quads sp x1 x2 out) -> q_fl q = true) ->
  wf (quads sp x1 x2 out) -> lens_ok s (quads sp x1 x2 out) ->
  exists s', ps_divide sp x1 x2 out s = Ok s'
    /\ (forall q, In q (quads sp x1 x2 out) -> s' (q_out q) = vdiv (s (q_x1 q)) (s (q_x2 q)))
    /\ (forall j, ~ In j (map q_out (quads sp x1 x2 out)) -> s' j = s j).
Proof.
  intros C1 C2 Co Hfl Hwf Hlen. unfold ps_divide, pspace_divide_call. rewrite ps_map3p_id, ps_map3_flat by assumption.
  apply (seq_ops_correct _ _ _ divide_leaf_ok); auto.
Qed.
End Ops.

(* ---------- when does the positional-aliasing condition hold? ---------- *)
(* (1) the output is a fresh element: its leaves are pairwise distinct and none of them
       is an operand leaf  (x + y, x * y, a * x, x.copy(), ... : out = space.element()) *)
Lemma wf_fresh (l : list quad) :
  NoDup (map q_out l) ->
  (forall q q', In q l -> In q' l -> q_x1 q' <> q_out q /\ q_x2 q' <> q_out q) ->
  wf l.
Proof.
  induction l as [|q l IH]; intros Hnd Hdis; cbn [wf]; [exact I|].
  cbn [map] in Hnd. inversion Hnd as [|? ? Hnotin Hnd']. subst. split.
  - intros q' Hin. destruct (Hdis q q' (or_introl eq_refl) (or_intror Hin)) as [A B].
    repeat split; try assumption. intros E. apply Hnotin. rewrite <- E. apply in_map. exact Hin.
  - apply IH; [exact Hnd' | intros a b Ha Hb; apply Hdis; right; assumption].
Qed.

(* (2) in place, out is x1 at every position (x += y, x -= y, x *= y, x.lincomb(..)):
       the leaves of x are pairwise distinct and a leaf of y that is also a leaf of x
       sits at the same position (y is x, or y shares components with x) *)
Lemma wf_inplace (l : list quad) :
  NoDup (map q_out l) ->
  (forall q, In q l -> q_x1 q = q_out q) ->
  (forall q q', In q l -> In q' l -> q_x2 q' = q_out q -> q_out q' = q_out q) ->
  wf l.
Proof.
  induction l as [|q l IH]; intros Hnd H1 H2; cbn [wf]; [exact I|].
  cbn [map] in Hnd. inversion Hnd as [|? ? Hnotin Hnd']. subst. split.
  - intros q' Hin.
    assert (Hne : q_out q' <> q_out q).
    { intros E. apply Hnotin. rewrite <- E. apply in_map. exact Hin. }
    repeat split; try assumption.
    + rewrite (H1 q' (or_intror Hin)). exact Hne.
    + intros E. apply Hne. apply (H2 q q' (or_introl eq_refl) (or_intror Hin) E).
  - apply IH; [exact Hnd' | intros a Ha; apply H1; right; exact Ha
              | intros a b Ha Hb; apply H2; right; assumption].
Qed.

(* ---------- the leaf positions of conforming elements are their leaves, in order ---------- *)
Lemma quads_flat :
  forall (sp : space) (x1 x2 out : elem), conf sp x1 -> conf sp x2 -> conf sp out ->
  map q_x1 (quads sp x1 x2 out) = flat x1 /\ map q_x2 (quads sp x1 x2 out) = flat x2
  /\ map q_out (quads sp x1 x2 out) = flat out.
Proof.
  intros sp.
  apply (space_mut
    (fun sp => forall x1 x2 out, conf sp x1 -> conf sp x2 -> conf sp out ->
       map q_x1 (quads sp x1 x2 out) = flat x1 /\ map q_x2 (quads sp x1 x2 out) = flat x2
       /\ map q_out (quads sp x1 x2 out) = flat out)
    (fun sps => forall p1 p2 po, confs sps p1 -> confs sps p2 -> confs sps po ->
       map q_x1 (quadss sps p1 p2 po) = flats p1 /\ map q_x2 (quadss sps p1 p2 po) = flats p2
       /\ map q_out (quadss sps p1 p2 po) = flats po)).
  - intros fl [i1|?] [i2|?] [io|?] C1 C2 Co; cbn in *; try contradiction. auto.
  - intros sps IH [?|p1] [?|p2] [?|po] C1 C2 Co; cbn in *; try contradiction. apply IH; assumption.
  - intros [|? ?] [|? ?] [|? ?] C1 C2 Co; cbn in *; try contradiction. auto.
  - intros sp' IHsp sps IHsps [|x p1] [|y p2] [|o po] C1 C2 Co; cbn in C1, C2, Co; try contradiction.
    destruct C1 as [C1 C1'], C2 as [C2 C2'], Co as [Co Co'].
    cbn [quadss flats]. rewrite !map_app.
    destruct (IHsp x y o C1 C2 Co) as (A1 & A2 & A3).
    destruct (IHsps p1 p2 po C1' C2' Co') as (B1 & B2 & B3).
    rewrite A1, A2, A3, B1, B2, B3. auto.
Qed.

(* out-of-place operations: a fresh output element (pairwise distinct leaves, none of them a
   leaf of an operand) satisfies the aliasing condition *)
Lemma wf_fresh_elem (sp : space) (x1 x2 out : elem) :
  conf sp x1 -> conf sp x2 -> conf sp out ->
  NoDup (flat out) ->
  (forall i, In i (flat out) -> ~ In i (flat x1) /\ ~ In i (flat x2)) ->
  wf (quads sp x1 x2 out).
Proof.
  intros C1 C2 Co Hnd Hdis.
  destruct (quads_flat sp x1 x2 out C1 C2 Co) as (A1 & A2 & A3).
  apply wf_fresh.
  - rewrite A3. exact Hnd.
  - intros q q' Hq Hq'.
    assert (Ho : In (q_out q) (flat out)) by (rewrite <- A3; apply in_map; exact Hq).
    destruct (Hdis _ Ho) as [N1 N2]. split; intros E.
    + apply N1. rewrite <- E, <- A1. apply in_map. exact Hq'.
    + apply N2. rewrite <- E, <- A2. apply in_map. exact Hq'.
Qed.

(* ---------- x + y on an arbitrarily nested space (fresh output element t) ---------- *)
Section NestedAdd.
Context {T : Type} {N : Num T} {F : NumField T}.
Add Field Tfield3 : nf_field.
Variable flg : nat -> bool * bool.
Variable bdtf : nat -> dtinfo.
Variable icast : T -> T.

Lemma vlin_one_one (u v : list T) : vlin (of_Z 1) u (of_Z 1) v = vadd u v.
Proof.
  apply nth_error_ext; intro k. unfold vlin, vadd. rewrite !nth_error_vmap2.
  destruct (nth_error u k), (nth_error v k); try reflexivity. f_equal. rewrite nf_of1. ring.
Qed.

Theorem nested_add_correct (sp : space) (x y t : elem) (s : store T) :
  conf sp x -> conf sp y -> conf sp t ->
  NoDup (flat t) -> (forall i, In i (flat t) -> ~ In i (flat x) /\ ~ In i (flat y)) ->
  lens_ok s (quads sp x y t) ->
  exists s', w_add flg bdtf icast sp x y t s = Ok s'
    /\ (forall q, In q (quads sp x y t) -> q_fl q = true ->
          s' (q_out q) = vadd (s (q_x1 q)) (s (q_x2 q)))
    /\ (forall j, ~ In j (flat t) -> s' j = s j).
Proof.
  intros Cx Cy Ct Hnd Hdis Hlen.
  pose proof (wf_fresh_elem sp x y t Cx Cy Ct Hnd Hdis) as Hwf.
  destruct (ps_lincomb_correct flg bdtf icast sp (of_Z 1) (of_Z 1) x y t s Cx Cy Ct Hwf Hlen)
    as (s' & E & Hres & Hfr).
  exists s'. split; [exact E|]. split.
  - intros q Hq Hfl. rewrite (Hres q Hq), Hfl. cbn [cast_of]. rewrite map_id. apply vlin_one_one.
  - intros j Hj. apply Hfr. destruct (quads_flat sp x y t Cx Cy Ct) as (_ & _ & A3). rewrite A3. exact Hj.
Qed.
End NestedAdd.

(* ---------- x += y on an arbitrarily nested space ---------- *)
Lemma map_eq_pointwise {A B} (f g : A -> B) (l : list A) :
  map f l = map g l -> forall a, In a l -> f a = g a.
Proof.
  induction l as [|b l IH]; intros E a Ha; [contradiction|].
  cbn in E. injection E. intros E' Eb. destruct Ha as [<- | Ha]; [exact Eb | apply IH; assumption].
Qed.

Section NestedIAdd.
Context {T : Type} {N : Num T} {F : NumField T}.
Variable flg : nat -> bool * bool.
Variable bdtf : nat -> dtinfo.
Variable icast : T -> T.

Theorem nested_iadd_correct (sp : space) (x y : elem) (s : store T) :
  conf sp x -> conf sp y ->
  NoDup (flat x) ->
  (* a leaf of y that is also a leaf of x sits at the same position (y is x, shared components) *)
  (forall q q', In q (quads sp x y x) -> In q' (quads sp x y x) -> q_x2 q' = q_out q -> q_out q' = q_out q) ->
  lens_ok s (quads sp x y x) ->
  exists s', w_iadd flg bdtf icast sp x y s = Ok s'
    /\ (forall q, In q (quads sp x y x) -> q_fl q = true ->
          s' (q_out q) = vadd (s (q_x1 q)) (s (q_x2 q)))
    /\ (forall j, ~ In j (flat x) -> s' j = s j).
Proof.
  intros Cx Cy Hnd Hpos Hlen.
  destruct (quads_flat sp x y x Cx Cy Cx) as (A1 & A2 & A3).
  assert (Hwf : wf (quads sp x y x)).
  { apply wf_inplace.
    - rewrite A3. exact Hnd.
    - intros q Hq. apply (map_eq_pointwise q_x1 q_out (quads sp x y x)); [congruence | exact Hq].
    - exact Hpos. }
  destruct (ps_lincomb_correct flg bdtf icast sp (of_Z 1) (of_Z 1) x y x s Cx Cy Cx Hwf Hlen)
    as (s' & E & Hres & Hfr).
  exists s'. split; [exact E|]. split.
  - intros q Hq Hfl. rewrite (Hres q Hq), Hfl. cbn [cast_of]. rewrite map_id. apply vlin_one_one.
  - intros j Hj. apply Hfr. rewrite A3. exact Hj.
Qed.
End NestedIAdd.
