(* C01/Props.v -- property theorems only; each is closed by [exact] of a lemma
   from C01/Proofs*.v and followed by Print Assumptions.

   The model [lincomb_impl] (C01/Model.v) is the interpreter of the decision
   tree, the fallback bodies, the direct expression, the thresholds and the
   regime rule REGENERATED from odl/space/npy_tensors.py:_lincomb_impl into
   Gen/Lincomb.v on every run.  A store maps object identities to array
   contents; `x1 is x2` is equality of identities. *)
From Coq Require Import ZArith Reals List Bool.
From Verif Require Import Base.Num Base.Vec C01.Syntax Gen.Lincomb C01.Carriers C01.Model C01.Laws C01.Proofs.
Import ListNotations.

(* T1  out = a*x1 + b*x2 entry-wise, for EVERY carrier satisfying the field laws
   (reals: float dtypes; complex numbers: complex dtypes), every size (hence every
   regime: direct / fallback / BLAS), both flags, all scalars a b (so 0, 1, -1,
   a+b = 0 and generic ones), every store, and ALL identities i1 i2 io -- the five
   aliasing patterns are the instances i1=i2, io=i1, io=i2.  The result is computed
   from the INITIAL contents of x1 and x2; every buffer other than out is unchanged;
   the recursion of _lincomb_impl terminates (never OutOfFuel). *)
Theorem lincomb_correct :
  forall (T : Type) (N : Num T) (F : NumField T)
         (floating blas_ok : bool) (a b : T) (i1 i2 io : nat) (s : store T),
  length (s i1) = length (s i2) -> length (s io) = length (s i1) ->
  exists s', lincomb_impl (fun u => u) floating blas_ok a i1 b i2 io s = Ok s'
          /\ s' io = vlin a (s i1) b (s i2)
          /\ forall j, j <> io -> s' j = s j.
Proof. exact @lincomb_impl_correct. Qed.
Print Assumptions lincomb_correct.

(* the hypotheses are satisfiable: the reals and the complex numbers are instances *)
Example field_instances : NumField R * NumField (R * R).
Proof. exact (NumField_R, NumField_C). Qed.

(* T1  non-floating (integer) dtypes: at every size the direct expression is used; the
   stored result is the conversion [cast] of a*x1 + b*x2 -- no algebraic law is needed,
   so this holds at every carrier and for every conversion. *)
Theorem lincomb_nonfloating_correct :
  forall (T : Type) (N : Num T) (cast : T -> T)
         (blas_ok : bool) (a b : T) (i1 i2 io : nat) (s : store T),
  length (s i1) = length (s i2) ->
  exists s', lincomb_impl cast false blas_ok a i1 b i2 io s = Ok s'
          /\ s' io = map cast (vlin a (s i1) b (s i2))
          /\ forall j, j <> io -> s' j = s j.
Proof. exact @lincomb_impl_nonfloating. Qed.
Print Assumptions lincomb_nonfloating_correct.
