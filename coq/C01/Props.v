(* C01/Props.v -- property theorems only; each is closed by [exact] of a lemma
   from C01/Proofs*.v and followed by Print Assumptions.

   The model [lincomb_impl] (C01/Model.v) is the interpreter of the decision
   tree, the fallback bodies, the direct expression, the thresholds and the
   regime rule REGENERATED from odl/space/npy_tensors.py:_lincomb_impl into
   Gen/Lincomb.v on every run.  A store maps object identities to array
   contents; `x1 is x2` is equality of identities. *)
From Coq Require Import ZArith Reals List Bool Lia.
From Verif Require Import Base.Num Base.Vec C01.Syntax Gen.Lincomb C01.Carriers C01.Model C01.Laws C01.Proofs C01.ProofsPoison.
Import ListNotations.

(* T1  out = a*x1 + b*x2 entry-wise, for EVERY carrier satisfying the field laws
   (reals: float dtypes; complex numbers: complex dtypes), every size (hence every
   regime: direct / fallback / BLAS), both flags, all scalars a b (so 0, 1, -1,
   a+b = 0 and generic ones), every store, and ALL identities i1 i2 io -- the five
   aliasing patterns are the instances i1=i2, io=i1, io=i2.  The result is computed
   from the INITIAL contents of x1 and x2; every buffer other than out is unchanged;
   the recursion of _lincomb_impl terminates (never OutOfFuel).
   [lincomb_impl] chooses the regime with the regenerated dispatch (regime_of) and the
   regenerated _blas_is_applicable; in the BLAS branch the model loses every update that
   BLAS would make on a copy (out not contiguous in the ravel order, or a dtype BLAS
   converts), so this theorem also says: the dispatch never sends such a call to BLAS
   (lemma blas_regime_sound, below as T1b). *)
Theorem lincomb_correct :
  forall (T : Type) (N : Num T) (F : NumField T)
         (floating : bool) (blas_dtype : dtinfo) (f1 f2 fo : bool * bool)     (* dtype class; layout flags of x1, x2, out *)
         (a b : T) (i1 i2 io : nat) (s : store T),
  length (s i1) = length (s i2) -> length (s io) = length (s i1) ->
  exists s', lincomb_impl (fun u => u) floating blas_dtype [f1; f2; fo] a i1 b i2 io s = Ok s'
          /\ s' io = vlin a (s i1) b (s i2)
          /\ forall j, j <> io -> s' j = s j.
Proof. exact @lincomb_impl_correct. Qed.
Print Assumptions lincomb_correct.

(* the size only selects the regime: the conclusion holds for every value of x1.size
   (used by the correspondence of >= 50000-entry arrays, which evaluates the model with the
   true size on one period of periodic arrays) *)
Theorem lincomb_correct_any_size :
  forall (T : Type) (N : Num T) (F : NumField T)
         (floating : bool) (blas_dtype : dtinfo) (f1 f2 fo : bool * bool) (size : Z)
         (a b : T) (i1 i2 io : nat) (s : store T),
  length (s i1) = length (s i2) -> length (s io) = length (s i1) ->
  exists s', lincomb_impl_sz (fun u => u) floating blas_dtype [f1; f2; fo] size a i1 b i2 io s = Ok s'
          /\ s' io = vlin a (s i1) b (s i2)
          /\ forall j, j <> io -> s' j = s j.
Proof. exact @lincomb_impl_sz_correct. Qed.
Print Assumptions lincomb_correct_any_size.

(* T1a  the dtype premise, discharged by the regenerated _blas_is_applicable: BLAS-applicable implies a
   dtype BLAS updates in place -- NATIVE byte order and type code f, d, F or D (the table _BLAS_DTYPES).
   A test on the type code alone (dtype.char in 'fdFD') is translated but does not prove this. *)
Theorem blas_applicable_implies_native_blas_dtype :
  forall (d : dtinfo) (size : Z) (flags : list (bool * bool)),
  blas_applicable true d size flags = true -> native_blas d = true.
Proof. exact blas_applicable_native. Qed.

(* T1a'  `size` -- used by the dispatch AND handed to axpy/scal/copy as the vector length n -- is the
   number of entries of the arrays, whatever their shape (regenerated statement `size = native(x1.size)`;
   `len(x1)` would be the length of axis 0 only, and BLAS would leave the rest of out untouched). *)
Theorem blas_vector_length_is_number_of_entries :
  forall total len0 : Z, size_of size_expr total len0 = total.
Proof. exact vector_length_is_size. Qed.

(* T1b  the regenerated dispatch + _blas_is_applicable + ravel-order rule: whenever the BLAS
   branch is chosen, out.data.ravel(order) is a view of out and the dtype is a BLAS dtype,
   i.e. the in-place BLAS calls really update out. *)
Theorem blas_branch_updates_in_place :
  forall (total : Z) (floating : bool) (blas_dtype : dtinfo) (f1 f2 fo : bool * bool),
  let size := size_of size_expr total (dt_len0 blas_dtype) in
  regime_of size floating (blas_applicable true blas_dtype total [f1; f2; fo]) = Blas ->
  bi_view (@blas_info blas_dtype [f1; f2; fo] size total) = true
  /\ bi_call (@blas_info blas_dtype [f1; f2; fo] size total) = true
  /\ bi_full (@blas_info blas_dtype [f1; f2; fo] size total) = true.
Proof. exact blas_regime_sound. Qed.
Print Assumptions blas_branch_updates_in_place.
Example blas_branch_is_reachable :
  regime_of 50000 true (blas_applicable true (mkdt 100 true 50000) 50000 [(true, false); (true, false); (true, false)]) = Blas
  /\ regime_of 50000 true (blas_applicable true (mkdt 100 true 50000) 50000 [(true, false); (true, false); (false, false)]) = Fallback
  /\ regime_of 49999 true (blas_applicable true (mkdt 100 true 50000) 49999 [(true, true); (true, true); (true, true)]) = Fallback
  /\ regime_of 99 true (blas_applicable true (mkdt 100 true 50000) 99 [(true, true); (true, true); (true, true)]) = Direct
  /\ regime_of 50000 true (blas_applicable true (mkdt 101 true 50000) 50000 [(true, true); (true, true); (true, true)]) = Fallback   (* float16 *)
  /\ regime_of 50000 true (blas_applicable true (mkdt 100 false 50000) 50000 [(true, true); (true, true); (true, true)]) = Fallback. (* '>f8' *)
Proof. vm_compute. repeat split. Qed.

(* the hypotheses are satisfiable: the reals and the complex numbers are instances *)
Example field_instances : NumField R * NumField (R * R).
Proof. exact (NumField_R, NumField_C). Qed.

(* T1  non-floating (integer) dtypes: at every size the direct body is used; the stored
   result is the conversion [cast] to the dtype (truncation) of a*x1 + b*x2 computed in the
   field (integers embed) -- exact whenever a*x1 + b*x2 is representable. *)
Theorem lincomb_nonfloating_correct :
  forall (T : Type) (N : Num T) (F : NumField T) (cast : T -> T)
         (blas_dtype : dtinfo) (flags : list (bool * bool)) (a b : T) (i1 i2 io : nat) (s : store T),
  length (s i1) = length (s i2) -> length (s io) = length (s i1) ->
  exists s', lincomb_impl cast false blas_dtype flags a i1 b i2 io s = Ok s'
          /\ s' io = map cast (vlin a (s i1) b (s i2))
          /\ forall j, j <> io -> s' j = s j.
Proof. exact @lincomb_impl_nonfloating. Qed.
Print Assumptions lincomb_nonfloating_correct.

(* T1  "the previous contents of the output never influence the result", at the POISONED
   carrier [option T] (None = NaN / uninitialised memory; every operation, including
   multiplication by zero, is strict in None).  If the two operands hold numbers
   (s i1 = map Some x1, s i2 = map Some x2), then in every regime, for all scalars and all
   identities, the output holds numbers and equals the entry-wise result -- NOTHING is
   assumed about the old contents of [out] (they may be None everywhere) unless [out] is
   itself one of the operands.  All other buffers are unchanged. *)
Theorem lincomb_ignores_old_out :
  forall (T : Type) (N : Num T) (F : NumField T)
         (r : regime) (bi : blasinfo) (a b : T) (i1 i2 io : nat) (s : store (option T)) (x1 x2 : list T),
  bi_ok r bi ->                         (* BLAS branch only when it updates in place: T1b *)
  s i1 = map Some x1 -> s i2 = map Some x2 ->
  length x1 = length x2 -> length (s io) = length x1 ->
  exists s', lincomb_fuel 2 (fun u => u) r bi
               {| e_a := Some a; e_b := Some b; e_x1 := i1; e_x2 := i2; e_out := io |} s = Ok s'
          /\ s' io = map Some (vlin a x1 b x2)
          /\ forall j, j <> io -> s' j = s j.
Proof. exact @lincomb_poison_ok. Qed.
Print Assumptions lincomb_ignores_old_out.

(* the same for NumpyTensorSpace._lincomb as a whole (regime chosen by the regenerated dispatch):
   e.g. x + y, a * x, x.copy() never depend on what space.element() left in the fresh output *)
Theorem lincomb_impl_ignores_old_out :
  forall (T : Type) (N : Num T) (F : NumField T)
         (floating : bool) (blas_dtype : dtinfo) (f1 f2 fo : bool * bool) (a b : T) (i1 i2 io : nat)
         (s : store (option T)) (x1 x2 : list T),
  s i1 = map Some x1 -> s i2 = map Some x2 ->
  length x1 = length x2 -> length (s io) = length x1 ->
  exists s', lincomb_impl (fun u => u) floating blas_dtype [f1; f2; fo] (Some a) i1 (Some b) i2 io s = Ok s'
          /\ s' io = map Some (vlin a x1 b x2)
          /\ forall j, j <> io -> s' j = s j.
Proof. exact @lincomb_impl_poison. Qed.
Print Assumptions lincomb_impl_ignores_old_out.

(* set_zero() is lincomb(0, y, 0, y, out=y).  FULL STATEMENT (refuted below):
     forall r i s,  exists s', lincomb_fuel 2 id r bi {0, 0, i, i, i} s = Ok s'
                               /\ s' i = map (fun _ => Some 0) (s i)
   i.e. y.set_zero() yields zeros whatever y held.  It holds from THRESHOLD_SMALL entries
   on (floating dtypes), where the tree writes out[:] = 0 ... *)
Theorem set_zero_partial :
  forall (T : Type) (N : Num T) (F : NumField T) (r : regime) (bi : blasinfo) (i : nat) (s : store (option T)),
  r <> Direct -> bi_ok r bi ->
  exists s', lincomb_fuel 2 (fun u => u) r bi
               {| e_a := of_Z 0; e_b := of_Z 0; e_x1 := i; e_x2 := i; e_out := i |} s = Ok s'
          /\ s' i = map (fun _ => Some nzero) (s i)
          /\ forall j, j <> i -> s' j = s j.
Proof. exact @set_zero_nondirect. Qed.
Print Assumptions set_zero_partial.

(* ... and is FALSE in the direct regime (fewer than THRESHOLD_SMALL entries, or a non-floating
   dtype) as long as the direct body is the single unguarded assignment
   out.data[:] = a*x1.data + b*x2.data  (is_guarded direct_body = false: the source BEFORE the
   fix d3867d7; vacuous for the current source, kept as a statement about the old variant):
   0*y + 0*y is evaluated and NaN / inf in y survive set_zero().
   Finding C01/set_zero-nan-survives-direct (fixed). *)
Theorem set_zero_direct_refuted :
  forall (T : Type) (N : Num T) (bi : blasinfo),
  is_guarded direct_body = false ->
  exists (i : nat) (s : store (option T)) (s' : store (option T)),
    lincomb_fuel 2 (fun u => u) Direct bi
      {| e_a := of_Z 0; e_b := of_Z 0; e_x1 := i; e_x2 := i; e_out := i |} s = Ok s'
    /\ s' i <> map (fun _ => Some nzero) (s i).
Proof. exact @set_zero_direct_counterexample. Qed.
(* which variant the regenerated source is: *)
Example direct_body_variant : is_guarded direct_body = false \/ is_guarded direct_body = true.
Proof. vm_compute. first [left; reflexivity | right; reflexivity]. Qed.
(* the direct body of the current source tests its scalars (fix d3867d7): the full statement
   holds in the direct regime too -- this is the LIVE theorem *)
Theorem set_zero_direct_repaired :
  forall (T : Type) (N : Num T) (F : NumField T) (bi : blasinfo) (i : nat) (s : store (option T)),
  is_guarded direct_body = true ->
  exists s', lincomb_fuel 2 (fun u => u) Direct bi
               {| e_a := of_Z 0; e_b := of_Z 0; e_x1 := i; e_x2 := i; e_out := i |} s = Ok s'
          /\ s' i = map (fun _ => Some nzero) (s i)
          /\ forall j, j <> i -> s' j = s j.
Proof. exact @set_zero_direct_guarded. Qed.
Print Assumptions set_zero_direct_refuted.

(* ---------------------------------------------------------------------------
   Arbitrarily nested product spaces (and discretized spaces, whose elements
   delegate to their coefficient tensor = a leaf).  [ps_lincomb] is the
   component-wise recursion of ProductSpace._lincomb; [quads sp x1 x2 out] lists
   the leaf positions (floating?, leaf of x1, leaf of x2, leaf of out) in
   traversal order; [conf] = "has the shape of the space" (what `x in space`
   checks); [wf] = positional aliasing: a leaf of [out] may coincide with operand
   leaves only at its own position (out is x1, out is x2, shared components),
   never with a leaf of a later position.
   T1 (induction on the nested space + induction on the leaf sequence): at EVERY
   leaf the output holds a*x1 + b*x2 of the INITIAL operand leaves (converted to
   the leaf dtype for non-floating leaves); nothing but the leaves of out changes. *)
From Verif Require Import Gen.SpaceOps C01.ModelSpace C01.ProofsSpace.

(* The wrapper layers, REGENERATED by translate/space_ops.py into Gen/SpaceOps.v:
   NumpyTensorSpace._lincomb/_multiply/_divide, ProductSpace._lincomb/_multiply/_divide,
   DiscretizedSpace._lincomb/_multiply/_divide, LinearSpace.lincomb/multiply/divide and the
   LinearSpaceElement operators (as programs).  Facts about the CURRENT source on which the
   theorems below depend: every layer passes (a, x1, b, x2, out) / (x1, x2, out) through
   unchanged (lincomb(a, x1) reaches _lincomb as (a, x1, 0, x1, out)); the scalars are not
   converted on the way (any other statement in LinearSpace.lincomb fails the translator); the
   tensor ufunc calls are np.multiply / np.divide of (x1, x2) with out= and no other keyword. *)
Theorem wrapper_layers_pass_arguments_through :
  tensor_lincomb_call = (SA, X1, SB, X2, OUT) /\ pspace_lincomb_call = (SA, X1, SB, X2, OUT)
  /\ discr_lincomb_call = (SA, X1, SB, X2, OUT)
  /\ tensor_multiply_call = (UMul, X1, X2, OUT) /\ tensor_divide_call = (UDiv, X1, X2, OUT)
  /\ pspace_multiply_call = (X1, X2, OUT) /\ pspace_divide_call = (X1, X2, OUT)
  /\ discr_multiply_call = (X1, X2, OUT) /\ discr_divide_call = (X1, X2, OUT)
  /\ space_lincomb1_call = (SA, X1, SK 0, X1, OUT) /\ space_lincomb2_call = (SA, X1, SB, X2, OUT)
  /\ space_multiply_call = (X1, X2, OUT) /\ space_divide_call = (X1, X2, OUT).
Proof. exact calls_are_identity. Qed.

(* operators called with plain DATA (ndarray, nested list / tuple) as the other operand: the code
   wraps it, other = self.space.element(data), and re-dispatches; the dunder it re-dispatches to is
   regenerated ([redispatch]).  For the current source it is the same operator, hence the program
   run with a data operand IS the program run with the wrapped element (so every op_* theorem and
   the nested theorems apply to data operands as well). *)
Theorem data_operand_redispatches_to_same_operator : forall o : opname, redispatch o = o.
Proof. exact redispatch_id. Qed.
Theorem data_operand_program_is_element_program :
  forall (T : Type) (N : Num T) (flg : nat -> bool * bool) (bdtf : nat -> dtinfo) (icast : T -> T)
         (sp : space) (o : opname) (self wrapped tmp : elem),
  w_data flg bdtf icast sp o self wrapped tmp = w_elem flg bdtf icast sp o self wrapped tmp.
Proof. exact @w_data_is_w_elem. Qed.

(* multiply / divide write every entry of out from the operands, whatever out held before --
   at ANY carrier, in particular the poisoned one (old contents None everywhere) *)
Theorem multiply_ignores_old_out :
  forall (T : Type) (N : Num T) (x1 x2 out : nat) (s : store T) (garbage : list T),
  out <> x1 -> out <> x2 ->
  exists s', multiply_impl x1 x2 out (upd s out garbage) = Ok s'
    /\ s' out = vmul (s x1) (s x2) /\ forall j, j <> out -> s' j = s j.
Proof. exact @multiply_old_out. Qed.
Theorem divide_ignores_old_out :
  forall (T : Type) (N : Num T) (x1 x2 out : nat) (s : store T) (garbage : list T),
  out <> x1 -> out <> x2 ->
  exists s', divide_impl x1 x2 out (upd s out garbage) = Ok s'
    /\ s' out = vdiv (s x1) (s x2) /\ forall j, j <> out -> s' j = s j.
Proof. exact @divide_old_out. Qed.

Theorem pspace_lincomb_correct :
  forall (T : Type) (N : Num T) (F : NumField T)
         (flg : nat -> bool * bool) (bdtf : nat -> dtinfo) (icast : T -> T)
         (sp : space) (a b : T) (x1 x2 out : elem) (s : store T),
  conf sp x1 -> conf sp x2 -> conf sp out ->
  wf (quads sp x1 x2 out) -> lens_ok s (quads sp x1 x2 out) ->
  exists s', ps_lincomb flg bdtf icast sp a x1 b x2 out s = Ok s'
    /\ (forall q, In q (quads sp x1 x2 out) ->
          s' (q_out q) = map (cast_of icast (q_fl q)) (vlin a (s (q_x1 q)) b (s (q_x2 q))))
    /\ (forall j, ~ In j (map q_out (quads sp x1 x2 out)) -> s' j = s j).
Proof. exact @ps_lincomb_correct. Qed.
Print Assumptions pspace_lincomb_correct.

(* element-wise product and quotient (space.multiply / space.divide, hence x*y, x/y,
   x *= y, x /= y and the multiplications inside x**n), same quantifiers *)
Theorem pspace_multiply_correct :
  forall (T : Type) (N : Num T) (sp : space) (x1 x2 out : elem) (s : store T),
  conf sp x1 -> conf sp x2 -> conf sp out ->
  wf (quads sp x1 x2 out) -> lens_ok s (quads sp x1 x2 out) ->
  exists s', ps_multiply sp x1 x2 out s = Ok s'
    /\ (forall q, In q (quads sp x1 x2 out) -> s' (q_out q) = vmul (s (q_x1 q)) (s (q_x2 q)))
    /\ (forall j, ~ In j (map q_out (quads sp x1 x2 out)) -> s' j = s j).
Proof. exact @ps_multiply_correct. Qed.
Print Assumptions pspace_multiply_correct.

Theorem pspace_divide_correct :
  forall (T : Type) (N : Num T) (sp : space) (x1 x2 out : elem) (s : store T),
  conf sp x1 -> conf sp x2 -> conf sp out ->
  (forall q, In q (quads sp x1 x2 out) -> q_fl q = true) ->       (* floating leaves: integer true division raises *)
  wf (quads sp x1 x2 out) -> lens_ok s (quads sp x1 x2 out) ->
  exists s', ps_divide sp x1 x2 out s = Ok s'
    /\ (forall q, In q (quads sp x1 x2 out) -> s' (q_out q) = vdiv (s (q_x1 q)) (s (q_x2 q)))
    /\ (forall j, ~ In j (map q_out (quads sp x1 x2 out)) -> s' j = s j).
Proof. exact @ps_divide_correct. Qed.
Print Assumptions pspace_divide_correct.

(* the aliasing hypothesis holds (1) for a fresh output element and (2) in place *)
Theorem wf_fresh_output :
  forall l : list quad,
  NoDup (map q_out l) ->
  (forall q q', In q l -> In q' l -> q_x1 q' <> q_out q /\ q_x2 q' <> q_out q) ->
  wf l.
Proof. exact wf_fresh. Qed.
Theorem wf_in_place :
  forall l : list quad,
  NoDup (map q_out l) ->
  (forall q, In q l -> q_x1 q = q_out q) ->
  (forall q q', In q l -> In q' l -> q_x2 q' = q_out q -> q_out q' = q_out q) ->
  wf l.
Proof. exact wf_inplace. Qed.

(* non-vacuity on a nested space  X x (Y x Z):  x += y, x += x, and z = x + y *)
Example nested_hypotheses_hold :
  let sp := SNode (SCons (SLeaf true) (SCons (SNode (SCons (SLeaf true) (SCons (SLeaf false) SNil))) SNil)) in
  let e := fun i j k => Node (ECons (Leaf i) (ECons (Node (ECons (Leaf j) (ECons (Leaf k) ENil))) ENil)) in
  let x := e 0 1 2 in let y := e 3 4 5 in let z := e 6 7 8 in
  (conf sp x /\ conf sp y /\ conf sp z) /\
  wf (quads sp x y x) /\ wf (quads sp x x x) /\ wf (quads sp x y z) /\ wf (quads sp x x z).
Proof.
  cbn [conf confs quads quadss wf app].
  repeat match goal with
  | |- _ /\ _ => split
  | |- True => exact I
  | |- forall _, _ => intros
  end;
  repeat match goal with
  | H : In _ _ |- _ => cbn in H
  | H : _ \/ _ |- _ => destruct H as [H | H]; [subst |]
  | H : False |- _ => contradiction
  end; cbn; lia.
Qed.

(* ---------------------------------------------------------------------------
   T1  the public operators of LinearSpaceElement on a tensor / discretized space
   (floating dtype): each program (w_add := run_w prog_add_elem ..., the programs prog_* being
   REGENERATED from odl/set/space.py into Gen/SpaceOps.v and interpreted by C01/ModelSpace.v) returns, its output
   holds the entry-wise specification, and every other buffer -- in particular the
   operand that is not the output -- is unchanged.  [yields m s out spec] :=
   exists s', m s = Ok s' /\ s' out = spec /\ forall j <> out, s' j = s j.
   x and y may be the same object everywhere (x + x, x -= x, ...); the fresh
   output t of the out-of-place forms holds arbitrary values before. *)
From Verif Require Import C01.ProofsWrap.
Section Operators.
Context (T : Type) (N : Num T) (F : NumField T)
        (flg : nat -> bool * bool) (bdtf : nat -> dtinfo) (icast : T -> T).
Notation sp := (SLeaf true).
Local Open Scope num_scope.

Theorem op_add : forall (x y t : nat) (s : store T),
  length (s x) = length (s y) -> length (s t) = length (s x) ->
  yields (w_add flg bdtf icast sp (Leaf x) (Leaf y) (Leaf t)) s t (vadd (s x) (s y)).
Proof. exact (add_spec flg bdtf icast). Qed.
Theorem op_sub : forall (x y t : nat) (s : store T),
  length (s x) = length (s y) -> length (s t) = length (s x) ->
  yields (w_sub flg bdtf icast sp (Leaf x) (Leaf y) (Leaf t)) s t (vsub (s x) (s y)).
Proof. exact (sub_spec flg bdtf icast). Qed.
Theorem op_iadd : forall (x y : nat) (s : store T),
  length (s x) = length (s y) ->
  yields (w_iadd flg bdtf icast sp (Leaf x) (Leaf y)) s x (vadd (s x) (s y)).
Proof. exact (iadd_spec flg bdtf icast). Qed.
Theorem op_isub : forall (x y : nat) (s : store T),
  length (s x) = length (s y) ->
  yields (w_isub flg bdtf icast sp (Leaf x) (Leaf y)) s x (vsub (s x) (s y)).
Proof. exact (isub_spec flg bdtf icast). Qed.
Theorem op_mul_scalar : forall (c : T) (x t : nat) (s : store T),
  length (s t) = length (s x) ->
  yields (w_mul_scalar flg bdtf icast sp (Leaf x) c (Leaf t)) s t (map (fun e => c * e) (s x)).
Proof. exact (mul_scalar_spec flg bdtf icast). Qed.
Theorem op_imul_scalar : forall (c : T) (x : nat) (s : store T),
  yields (w_imul_scalar flg bdtf icast sp (Leaf x) c) s x (map (fun e => c * e) (s x)).
Proof. exact (imul_scalar_spec flg bdtf icast). Qed.
Theorem op_truediv_scalar : forall (c : T) (x t : nat) (s : store T),
  c <> nzero -> length (s t) = length (s x) ->
  yields (w_truediv_scalar flg bdtf icast sp (Leaf x) c (Leaf t)) s t (map (fun e => e / c) (s x)).
Proof. exact (truediv_scalar_spec flg bdtf icast). Qed.
Theorem op_neg : forall (x t : nat) (s : store T),
  length (s t) = length (s x) ->
  yields (w_neg flg bdtf icast sp (Leaf x) (Leaf t)) s t (vopp (s x)).
Proof. exact (neg_spec flg bdtf icast). Qed.
Theorem op_assign : forall (x y : nat) (s : store T),
  length (s x) = length (s y) ->
  yields (w_assign flg bdtf icast sp (Leaf x) (Leaf y)) s x (s y).
Proof. exact (assign_spec flg bdtf icast). Qed.
Theorem op_copy : forall (x t : nat) (s : store T),
  length (s t) = length (s x) ->
  yields (w_copy flg bdtf icast sp (Leaf x) (Leaf t)) s t (s x).
Proof. exact (copy_spec flg bdtf icast). Qed.
(* scalar broadcasting:  x + c  goes through  tmp = one(); lincomb(1, x, c, tmp, out=tmp) *)
Theorem op_add_scalar : forall (c : T) (x t : nat) (s : store T),
  t <> x -> length (s t) = length (s x) ->
  yields (w_add_scalar flg bdtf icast sp (Leaf x) c (Leaf t)) s t (map (fun e => e + c) (s x)).
Proof. exact (add_scalar_spec flg bdtf icast). Qed.
(* c - x:  tmp = one(); lincomb(c, tmp, out=tmp); lincomb(1, tmp, -1, x, out=tmp) *)
Theorem op_rsub_scalar : forall (c : T) (x t : nat) (s : store T),
  t <> x -> length (s t) = length (s x) ->
  yields (w_rsub_scalar flg bdtf icast sp (Leaf x) c (Leaf t)) s t (map (fun e => c - e) (s x)).
Proof. exact (rsub_scalar_spec flg bdtf icast). Qed.
Theorem op_mul : forall (x y t : nat) (s : store T),
  yields (w_mul flg bdtf icast sp (Leaf x) (Leaf y) (Leaf t)) s t (vmul (s y) (s x)).
Proof. exact (mul_spec flg bdtf icast). Qed.
Theorem op_truediv : forall (x y t : nat) (s : store T),
  yields (w_truediv flg bdtf icast sp (Leaf x) (Leaf y) (Leaf t)) s t (vdiv (s x) (s y)).
Proof. exact (truediv_spec flg bdtf icast). Qed.
Theorem op_rsub : forall (x y t : nat) (s : store T),
  length (s y) = length (s x) -> length (s t) = length (s y) ->
  yields (w_rsub flg bdtf icast sp (Leaf x) (Leaf y) (Leaf t)) s t (vsub (s y) (s x)).
Proof. exact (rsub_spec flg bdtf icast). Qed.
Theorem op_sub_scalar : forall (c : T) (x t : nat) (s : store T),
  t <> x -> length (s t) = length (s x) ->
  yields (w_sub_scalar flg bdtf icast sp (Leaf x) c (Leaf t)) s t (map (fun e => e - c) (s x)).
Proof. exact (sub_scalar_spec flg bdtf icast). Qed.
(* x += c : lincomb(1, x, c, one(), out=x); t is the temporary returned by one() *)
Theorem op_iadd_scalar : forall (c : T) (x t : nat) (s : store T),
  t <> x -> length (s t) = length (s x) ->
  exists s', w_iadd_scalar flg bdtf icast sp (Leaf x) c (Leaf t) s = Ok s'
    /\ s' x = map (fun e => e + c) (s x)
    /\ forall j, j <> x -> j <> t -> s' j = s j.
Proof. exact (iadd_scalar_spec flg bdtf icast). Qed.
Theorem op_isub_scalar : forall (c : T) (x t : nat) (s : store T),
  t <> x -> length (s t) = length (s x) ->
  exists s', w_isub_scalar flg bdtf icast sp (Leaf x) c (Leaf t) s = Ok s'
    /\ s' x = map (fun e => e - c) (s x)
    /\ forall j, j <> x -> j <> t -> s' j = s j.
Proof. exact (isub_scalar_spec flg bdtf icast). Qed.
Theorem op_itruediv_scalar : forall (c : T) (x : nat) (s : store T),
  c <> nzero ->
  yields (w_itruediv_scalar flg bdtf icast sp (Leaf x) c) s x (map (fun e => e / c) (s x)).
Proof. exact (itruediv_scalar_spec flg bdtf icast). Qed.
(* c / x:  tmp = one(); lincomb(c, tmp, out=tmp); divide(tmp, x, out=tmp) *)
Theorem op_rtruediv_scalar : forall (c : T) (x t : nat) (s : store T),
  t <> x -> length (s t) = length (s x) ->
  yields (w_rtruediv_scalar flg bdtf icast sp (Leaf x) c (Leaf t)) s t (map (fun e => c / e) (s x)).
Proof. exact (rtruediv_scalar_spec flg bdtf icast). Qed.
Theorem op_set_zero : forall (x : nat) (s : store T),
  yields (w_set_zero flg bdtf icast sp (Leaf x)) s x (map (fun _ => nzero) (s x)).
Proof. exact (set_zero_spec flg bdtf icast). Qed.
Theorem op_imul : forall (x y : nat) (s : store T),
  yields (w_imul flg bdtf icast sp (Leaf x) (Leaf y)) s x (vmul (s y) (s x)).
Proof. exact (imul_spec flg bdtf icast). Qed.
Theorem op_itruediv : forall (x y : nat) (s : store T),
  yields (w_itruediv flg bdtf icast sp (Leaf x) (Leaf y)) s x (vdiv (s x) (s y)).
Proof. exact (itruediv_spec flg bdtf icast). Qed.
Theorem op_rtruediv : forall (x y t : nat) (s : store T),
  yields (w_rtruediv flg bdtf icast sp (Leaf x) (Leaf y) (Leaf t)) s t (vdiv (s y) (s x)).
Proof. exact (rtruediv_spec flg bdtf icast). Qed.
End Operators.
Print Assumptions op_rsub_scalar.
Print Assumptions op_add_scalar.

(* T2  x **= p  for every non-negative integer p (LinearSpaceElement.__ipow__ on a tensor /
   discretized space: p = 0 assigns one(); p even squares and recurses on p // 2; p odd
   multiplies a copy p - 2 times and finishes with one product): the entries are the p-th
   powers of the initial entries, whatever the temporaries held; nothing but x and the two
   temporaries changes.  By induction on the recursion depth and on the loop. *)
Theorem op_ipow :
  forall (T : Type) (N : Num T) (F : NumField T)
         (flg : nat -> bool * bool) (bdtf : nat -> dtinfo) (icast : T -> T)
         (fuel p : nat) (x t o : nat) (s : store T),
  (p < fuel)%nat -> t <> x -> o <> x -> length (s o) = length (s x) ->
  exists s', w_ipow flg bdtf icast fuel (fun a b => w_copy_leaf (leaf_id a) (leaf_id b))
                    (SLeaf true) (Leaf x) p (Leaf t) (Leaf o) s = Ok s'
    /\ s' x = vpow (s x) p
    /\ forall j, j <> x -> j <> t -> j <> o -> s' j = s j.
Proof. exact @ipow_spec. Qed.
Print Assumptions op_ipow.

(* the leaf positions are the leaves in traversal order, and a FRESH output element (what
   x + y, a * x, x.copy(), ... allocate) satisfies the aliasing hypothesis of the nested theorems *)
Theorem fresh_output_is_wf :
  forall (sp : space) (x1 x2 out : elem),
  conf sp x1 -> conf sp x2 -> conf sp out ->
  NoDup (flat out) ->
  (forall i, In i (flat out) -> ~ In i (flat x1) /\ ~ In i (flat x2)) ->
  wf (quads sp x1 x2 out).
Proof. exact wf_fresh_elem. Qed.

(* x + y on an ARBITRARILY NESTED product space (floating leaves), fresh result element t whose
   leaves hold arbitrary values: every leaf of the result is the entry-wise sum of the
   corresponding leaves of x and y (x and y may be the same element or share components);
   nothing but the leaves of t changes -- in particular x and y. *)
Theorem nested_add :
  forall (T : Type) (N : Num T) (F : NumField T)
         (flg : nat -> bool * bool) (bdtf : nat -> dtinfo) (icast : T -> T)
         (sp : space) (x y t : elem) (s : store T),
  conf sp x -> conf sp y -> conf sp t ->
  NoDup (flat t) -> (forall i, In i (flat t) -> ~ In i (flat x) /\ ~ In i (flat y)) ->
  lens_ok s (quads sp x y t) ->
  exists s', w_add flg bdtf icast sp x y t s = Ok s'
    /\ (forall q, In q (quads sp x y t) -> q_fl q = true ->
          s' (q_out q) = vadd (s (q_x1 q)) (s (q_x2 q)))
    /\ (forall j, ~ In j (flat t) -> s' j = s j).
Proof. exact @nested_add_correct. Qed.
Print Assumptions nested_add.

(* x += y on an arbitrarily nested product space: the leaves of x are pairwise distinct and a
   leaf of y that is also a leaf of x sits at the same position (y is x, or y shares components
   with x): every leaf of x becomes the entry-wise sum of the INITIAL leaves; nothing else changes. *)
Theorem nested_iadd :
  forall (T : Type) (N : Num T) (F : NumField T)
         (flg : nat -> bool * bool) (bdtf : nat -> dtinfo) (icast : T -> T)
         (sp : space) (x y : elem) (s : store T),
  conf sp x -> conf sp y -> NoDup (flat x) ->
  (forall q q', In q (quads sp x y x) -> In q' (quads sp x y x) -> q_x2 q' = q_out q -> q_out q' = q_out q) ->
  lens_ok s (quads sp x y x) ->
  exists s', w_iadd flg bdtf icast sp x y s = Ok s'
    /\ (forall q, In q (quads sp x y x) -> q_fl q = true ->
          s' (q_out q) = vadd (s (q_x1 q)) (s (q_x2 q)))
    /\ (forall j, ~ In j (flat x) -> s' j = s j).
Proof. exact @nested_iadd_correct. Qed.
Print Assumptions nested_iadd.

(* TRANSFER  the model of NumpyTensorSpace._lincomb executed at Q by the correspondence shards
   is the rational restriction of the model the theorems above speak about (the instance R):
   Q2R commutes with the interpreter of the regenerated syntax -- every test takes the same
   branch, every division is by a scalar tested nonzero (checked on the regenerated fallback
   bodies and direct body).  [sim sq sr] := forall j, sr j = map Q2R (sq j); [osim] relates the
   outcomes (same constructor, related stores). *)
From Coq Require Import QArith Qreals.
From Verif Require Import C01.Transfer.
Theorem lincomb_executed_model_is_rational_restriction :
  forall (castq : Q -> Q) (castr : R -> R) (floating : bool) (blas_dtype : dtinfo) (flags : list (bool * bool))
         (size : Z) (a b : Q) (x1 x2 out : nat) (sq : store Q) (sr : store R),
  (forall q, Q2R (castq q) = castr (Q2R q)) -> sim sq sr ->
  osim (lincomb_impl_sz castq floating blas_dtype flags size a x1 b x2 out sq)
       (lincomb_impl_sz castr floating blas_dtype flags size (Q2R a) x1 (Q2R b) x2 out sr).
Proof. exact lincomb_impl_transfer. Qed.
Print Assumptions lincomb_executed_model_is_rational_restriction.

(* the same for the space level: arbitrarily nested product spaces and EVERY regenerated operator
   program (x + y, x -= c, c / x, ...; [l] ranges over all programs) -- division is total on both
   sides, so no side condition *)
Theorem operator_programs_executed_model_is_rational_restriction :
  forall (flg : nat -> bool * bool) (bdtf : nat -> dtinfo) (icq : Q -> Q) (icr : R -> R),
  (forall q, Q2R (icq q) = icr (Q2R q)) ->
  forall (sp : space) (l : list wstmt) (self other : elem) (c : Q) (tmp : elem) (sq : store Q) (sr : store R),
  sim sq sr ->
  osim (run_w flg bdtf icq sp l self other c tmp sq) (run_w flg bdtf icr sp l self other (Q2R c) tmp sr).
Proof. exact run_w_transfer. Qed.
