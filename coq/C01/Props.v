(* C01/Props.v -- placeholder, theorems follow *)
From Coq Require Import List.
