(* C01/ProofsPoison.v -- the same regenerated tree executed at the poisoned
   carrier [option T] (None = NaN / uninitialised memory, strict in every
   operation): if the operands hold numbers, the result holds numbers and is the
   entry-wise result, WHATEVER the output buffer held before (when it is not
   itself an operand) -- except where the model says otherwise (Refuted.v). *)
From Coq Require Import ZArith Lia List Bool Field Ring.
From Verif Require Import Base.Num Base.Vec C01.Syntax Gen.Lincomb C01.Carriers C01.Model C01.Laws C01.Proofs.
Import ListNotations.
Local Open Scope num_scope.

Section Poison.
Context {T : Type} {N : Num T} {F : NumField T}.
Add Field Tfield : nf_field.

(* ---------- the poisoned carrier: option T, None = NaN / uninitialised ---------- *)
Definition post_opt (a : T) (x1 : list T) (b : T) (x2 : list T) (io : nat)
           (s : store (option T)) (o : outcome (option T)) : Prop :=
  match o with
  | Ok s' => s' io = map Some (vlin a x1 b x2) /\ forall j, j <> io -> s' j = s j
  | _ => False
  end.

Ltac opt_ops := cbn [neqb nadd nsub nmul ndiv nopp of_Z nzero none_ Num_opt olift2 odiv otest2 option_map].
(* divisions by the scalar occur only under the guard `a != 0` *)
Ltac nonzero_divisors :=
  repeat match goal with
  | |- context [neqb ?k (of_Z 0)] =>
      let E := fresh "Ez" in
      destruct (neqb k (of_Z 0)) eqn:E;
      [ apply nf_eqb in E; rewrite ?nf_of0 in E; exfalso; congruence | ]
  end.
Ltac same_operand :=
  try match goal with
  | H1 : ?s ?i = map Some ?x1, H2 : ?s ?i = map Some ?x2 |- _ =>
      let E := fresh in assert (E : x1 = x2) by (apply map_Some_inj; congruence); subst x2
  end.
Ltac pointwise_opt H1 H2 L12 Lo :=
  let k := fresh "k" in let u := fresh "u" in let v := fresh "v" in let w := fresh "w" in
  let E1 := fresh "E1" in let E2 := fresh "E2" in let E3 := fresh "E3" in
  rewrite ?H1, ?H2;
  apply nth_error_ext; intro k; unfold vlin, blas_scal, blas_axpy;
  repeat (rewrite nth_error_vmap2 || rewrite nth_error_map);
  match type of L12 with length ?x = length ?y =>
  match type of Lo with length ?z = _ =>
    destruct (nth3 x y z k L12 Lo) as [(u & v & w & E1 & E2 & E3) | (E1 & E2 & E3)]
  end end;
  rewrite ?E1, ?E2, ?E3; opt_ops; nonzero_divisors; opt_ops; try reflexivity; do 2 f_equal.
Ltac finish_opt H1 H2 L12 Lo :=
  norm_hyps;
  first
  [ solve [exfalso; match goal with H : ~ (_ /\ _) |- _ => apply H; split; [reflexivity | assumption] end]
  | same_operand;
    split; [ reads; pointwise_opt H1 H2 L12 Lo; subst_scalars; rewrite ?nf_of0;
             try (field; auto); try zero_is_one
           | intros j Hj; reads; reflexivity ] ].

Lemma tree_no_rec_opt (rc : env (option T) -> store (option T) -> outcome (option T)) (r : regime)
      (bi : blasinfo) (a b : T) (i1 i2 io : nat) (s : store (option T)) (x1 x2 : list T) :
  r <> Direct -> bi_ok r bi -> ~ (i1 = i2 /\ b <> nzero) ->
  s i1 = map Some x1 -> s i2 = map Some x2 ->
  length x1 = length x2 -> length (s io) = length x1 ->
  post_opt a x1 b x2 io s
    (exec_list rc r bi {| e_a := Some a; e_b := Some b; e_x1 := i1; e_x2 := i2; e_out := io |} alias_tree s).
Proof.
  intros Hr Hbi Hnr H1 H2 L12 Lo.
  unfold post_opt, alias_tree.
  cbn [exec_list exec bind cval opnd sval e_a e_b e_x1 e_x2 e_out].
  opt_ops.
  destruct r; [congruence| |].
  - split_ids.
    all: repeat split_if.
    all: unfold_prims; opt_ops.
    all: use_eqs.
    all: finish_opt H1 H2 L12 Lo.
  - destruct bi as [bv bc bf bn]. destruct (Hbi eq_refl) as (Hv & Hc & Hf). cbn in Hv, Hc, Hf. subst bv bc bf.
    split_ids.
    all: repeat split_if.
    all: unfold_prims; opt_ops.
    all: use_eqs.
    all: finish_opt H1 H2 L12 Lo.
Qed.

Lemma tree_rec_opt (rc : env (option T) -> store (option T) -> outcome (option T)) (r : regime)
      (bi : blasinfo) (a b : T) (i1 io : nat) (s : store (option T)) :
  b <> nzero ->
  exec_list rc r bi {| e_a := Some a; e_b := Some b; e_x1 := i1; e_x2 := i1; e_out := io |} alias_tree s =
  bind (rc {| e_a := Some (a + b); e_b := Some (of_Z 0); e_x1 := i1; e_x2 := i1; e_out := io |} s)
       (fun s0 => Ok s0).
Proof.
  intros Hb. unfold alias_tree.
  cbn [exec_list exec bind cval opnd sval e_a e_b e_x1 e_x2 e_out]. opt_ops.
  rewrite Nat.eqb_refl.
  assert (E : neqb b (of_Z 0) = false) by (apply neqb_false; rewrite nf_of0; exact Hb).
  rewrite E. cbn [andb negb].
  destruct (rc _ s); reflexivity.
Qed.

Ltac direct_pointwise_opt H1 H2 L12 Lo :=
  let k := fresh "k" in let u := fresh "u" in let v := fresh "v" in let w := fresh "w" in
  let E1 := fresh "E1" in let E2 := fresh "E2" in let E3 := fresh "E3" in
  rewrite ?H1, ?H2;
  apply nth_error_ext; intro k; unfold vlin;
  repeat (rewrite nth_error_vmap2 || rewrite nth_error_map);
  match type of L12 with length ?x = length ?y =>
  match type of Lo with length ?z = _ =>
    destruct (nth3 x y z k L12 Lo) as [(u & v & w & E1 & E2 & E3) | (E1 & E2 & E3)]
  end end;
  rewrite ?E1, ?E2, ?E3; opt_ops; try reflexivity; do 2 f_equal.

Lemma direct_opt (fuel : nat) (bi : blasinfo) (a b : T) (i1 i2 io : nat) (s : store (option T)) (x1 x2 : list T) :
  s i1 = map Some x1 -> s i2 = map Some x2 -> length x1 = length x2 -> length (s io) = length x1 ->
  post_opt a x1 b x2 io s
    (lincomb_fuel (S fuel) (fun u => u) Direct bi
       {| e_a := Some a; e_b := Some b; e_x1 := i1; e_x2 := i2; e_out := io |} s).
Proof.
  intros H1 H2 L12 Lo. unfold post_opt.
  cbn [lincomb_fuel]. unfold direct_body.
  cbn [deval cval sval opnd e_a e_b e_x1 e_x2 e_out]. opt_ops.
  repeat split_if.
  all: cbn [veval vbin opnd sval e_a e_b e_x1 e_x2 e_out]; unfold assign_all.
  all: norm_hyps.
  all: split; [ rewrite upd_same, ?map_id; direct_pointwise_opt H1 H2 L12 Lo; subst_scalars; rewrite ?nf_of0;
                try ring; try zero_is_one
              | intros j Hj; rewrite upd_other by assumption; reflexivity ].
Qed.

Theorem lincomb_fuel_poison (r : regime) (bi : blasinfo) (a b : T) (i1 i2 io : nat) (s : store (option T)) (x1 x2 : list T) :
  bi_ok r bi ->
  s i1 = map Some x1 -> s i2 = map Some x2 ->
  length x1 = length x2 -> length (s io) = length x1 ->
  post_opt a x1 b x2 io s
    (lincomb_fuel 2 (fun u => u) r bi {| e_a := Some a; e_b := Some b; e_x1 := i1; e_x2 := i2; e_out := io |} s).
Proof.
  intros Hbi H1 H2 L12 Lo.
  assert (Hz : ~ (i1 = i1 /\ of_Z 0 <> @nzero T _)) by (intros [_ Hz]; apply Hz; apply nf_of0).
  destruct r.
  - apply direct_opt; assumption.
  - destruct (Nat.eq_dec i1 i2) as [E12 | N12];
      [destruct (neqb b nzero) eqn:Eb; [apply nf_eqb in Eb | apply neqb_false in Eb] |].
    + change (post_opt a x1 b x2 io s (exec_list (lincomb_fuel 1 (fun u => u) Fallback bi) Fallback bi
              {| e_a := Some a; e_b := Some b; e_x1 := i1; e_x2 := i2; e_out := io |} alias_tree s)).
      apply tree_no_rec_opt; try assumption; [congruence | tauto].
    + subst i2. assert (x1 = x2) by (apply map_Some_inj; congruence). subst x2.
      change (post_opt a x1 b x1 io s (exec_list (lincomb_fuel 1 (fun u => u) Fallback bi) Fallback bi
              {| e_a := Some a; e_b := Some b; e_x1 := i1; e_x2 := i1; e_out := io |} alias_tree s)).
      rewrite tree_rec_opt by exact Eb.
      change (lincomb_fuel 1 (fun u => u) Fallback bi ?e s)
        with (exec_list (lincomb_fuel 0 (fun u : option T => u) Fallback bi) Fallback bi e alias_tree s).
      pose proof (tree_no_rec_opt (lincomb_fuel 0 (fun u => u) Fallback bi) Fallback bi (a + b) (of_Z 0) i1 i1 io s x1 x1) as P.
      destruct (exec_list _ Fallback bi _ alias_tree s) as [s' | | |]; cbn [bind post_opt] in *.
      * rewrite vlin_merge in P. apply P; try assumption; congruence.
      * apply P; try assumption; congruence.
      * apply P; try assumption; congruence.
      * apply P; try assumption; congruence.
    + change (post_opt a x1 b x2 io s (exec_list (lincomb_fuel 1 (fun u => u) Fallback bi) Fallback bi
              {| e_a := Some a; e_b := Some b; e_x1 := i1; e_x2 := i2; e_out := io |} alias_tree s)).
      apply tree_no_rec_opt; try assumption; [congruence | tauto].
  - destruct (Nat.eq_dec i1 i2) as [E12 | N12];
      [destruct (neqb b nzero) eqn:Eb; [apply nf_eqb in Eb | apply neqb_false in Eb] |].
    + change (post_opt a x1 b x2 io s (exec_list (lincomb_fuel 1 (fun u => u) Blas bi) Blas bi
              {| e_a := Some a; e_b := Some b; e_x1 := i1; e_x2 := i2; e_out := io |} alias_tree s)).
      apply tree_no_rec_opt; try assumption; [congruence | tauto].
    + subst i2. assert (x1 = x2) by (apply map_Some_inj; congruence). subst x2.
      change (post_opt a x1 b x1 io s (exec_list (lincomb_fuel 1 (fun u => u) Blas bi) Blas bi
              {| e_a := Some a; e_b := Some b; e_x1 := i1; e_x2 := i1; e_out := io |} alias_tree s)).
      rewrite tree_rec_opt by exact Eb.
      change (lincomb_fuel 1 (fun u => u) Blas bi ?e s)
        with (exec_list (lincomb_fuel 0 (fun u : option T => u) Blas bi) Blas bi e alias_tree s).
      pose proof (tree_no_rec_opt (lincomb_fuel 0 (fun u => u) Blas bi) Blas bi (a + b) (of_Z 0) i1 i1 io s x1 x1) as P.
      destruct (exec_list _ Blas bi _ alias_tree s) as [s' | | |]; cbn [bind post_opt] in *.
      * rewrite vlin_merge in P. apply P; try assumption; congruence.
      * apply P; try assumption; congruence.
      * apply P; try assumption; congruence.
      * apply P; try assumption; congruence.
    + change (post_opt a x1 b x2 io s (exec_list (lincomb_fuel 1 (fun u => u) Blas bi) Blas bi
              {| e_a := Some a; e_b := Some b; e_x1 := i1; e_x2 := i2; e_out := io |} alias_tree s)).
      apply tree_no_rec_opt; try assumption; [congruence | tauto].
Qed.

(* ---- set_zero():  lincomb(0, y, 0, y, out=y)  on a buffer that holds garbage ---- *)
Lemma neqb_refl (x : T) : neqb x x = true.
Proof. apply nf_eqb. reflexivity. Qed.

(* from THRESHOLD_SMALL entries on (floating dtype) the all-aliased branch writes zeros *)
Lemma set_zero_nondirect (r : regime) (bi : blasinfo) (i : nat) (s : store (option T)) :
  r <> Direct -> bi_ok r bi ->
  exists s', lincomb_fuel 2 (fun u => u) r bi
               {| e_a := of_Z 0; e_b := of_Z 0; e_x1 := i; e_x2 := i; e_out := i |} s = Ok s'
          /\ s' i = map (fun _ => Some nzero) (s i)
          /\ forall j, j <> i -> s' j = s j.
Proof.
  intros Hr Hbi.
  assert (E0 : neqb (@of_Z T _ 0) (of_Z 0) = true) by apply neqb_refl.
  assert (E1 : neqb (@of_Z T _ 0 + of_Z 0) (of_Z 0) = true).
  { apply nf_eqb. rewrite nf_of0. ring. }
  destruct r; [congruence| |].
  - cbn [lincomb_fuel]. unfold alias_tree.
    cbn [exec_list exec bind cval opnd sval e_a e_b e_x1 e_x2 e_out]. opt_ops.
    rewrite Nat.eqb_refl, E0, E1. cbn [andb negb bind].
    eexists. split; [reflexivity|]. cbn [do_fill]. split.
    + rewrite upd_same. opt_ops. rewrite nf_of0. reflexivity.
    + intros j Hj. rewrite upd_other by assumption. reflexivity.
  - destruct bi as [bv bc bf bn]. destruct (Hbi eq_refl) as (Hv & Hc & Hf). cbn in Hv, Hc, Hf. subst bv bc bf.
    cbn [lincomb_fuel]. unfold alias_tree.
    cbn [exec_list exec bind cval opnd sval e_a e_b e_x1 e_x2 e_out]. opt_ops.
    rewrite Nat.eqb_refl, E0, E1. cbn [andb negb bind].
    eexists. split; [reflexivity|]. cbn [do_fill bi_view]. split.
    + rewrite upd_same. opt_ops. rewrite nf_of0. reflexivity.
    + intros j Hj. rewrite upd_other by assumption. reflexivity.
Qed.

(* below THRESHOLD_SMALL entries (or for a non-floating dtype) the direct body runs.  If it is the
   single unguarded assignment, 0*y + 0*y is evaluated and garbage survives ... *)
Lemma set_zero_direct_poison (bi : blasinfo) (i : nat) (s : store (option T)) :
  is_guarded direct_body = false ->
  s i = [None] ->
  exists s', lincomb_fuel 2 (fun u => u) Direct bi
               {| e_a := of_Z 0; e_b := of_Z 0; e_x1 := i; e_x2 := i; e_out := i |} s = Ok s'
          /\ s' i = [None].
Proof.
  intros Hg Hs. vm_compute in Hg.
  first
  [ discriminate Hg
  | cbn [lincomb_fuel]; unfold direct_body;
    cbn [deval veval vbin opnd sval e_a e_b e_x1 e_x2 e_out]; unfold assign_all;
    eexists; split; [reflexivity|]; rewrite upd_same, Hs; reflexivity ].
Qed.

(* ... if it tests its scalars (the proposed repair), set_zero() writes zeros whatever y held *)
Lemma set_zero_direct_guarded (bi : blasinfo) (i : nat) (s : store (option T)) :
  is_guarded direct_body = true ->
  exists s', lincomb_fuel 2 (fun u => u) Direct bi
               {| e_a := of_Z 0; e_b := of_Z 0; e_x1 := i; e_x2 := i; e_out := i |} s = Ok s'
          /\ s' i = map (fun _ => Some nzero) (s i)
          /\ forall j, j <> i -> s' j = s j.
Proof.
  intros Hg. vm_compute in Hg.
  pose proof (@nf_of0 T N F) as HF0.        (* keep the dependency on the field laws in both variants *)
  first
  [ discriminate Hg
  | assert (E0 : neqb (@of_Z T _ 0) (of_Z 0) = true) by apply neqb_refl;
    cbn [lincomb_fuel]; unfold direct_body;
    cbn [deval cval sval opnd e_a e_b e_x1 e_x2 e_out]; opt_ops;
    rewrite ?E0; cbn [andb orb negb];
    cbn [veval vbin opnd sval e_a e_b e_x1 e_x2 e_out]; unfold assign_all;
    eexists; split; [reflexivity|]; split;
    [ rewrite upd_same; opt_ops; rewrite ?nf_of0; reflexivity
    | intros j Hj; rewrite upd_other by assumption; reflexivity ] ].
Qed.

Lemma lincomb_poison_ok (r : regime) (bi : blasinfo) (a b : T) (i1 i2 io : nat) (s : store (option T)) (x1 x2 : list T) :
  bi_ok r bi ->
  s i1 = map Some x1 -> s i2 = map Some x2 ->
  length x1 = length x2 -> length (s io) = length x1 ->
  exists s', lincomb_fuel 2 (fun u => u) r bi
               {| e_a := Some a; e_b := Some b; e_x1 := i1; e_x2 := i2; e_out := io |} s = Ok s'
          /\ s' io = map Some (vlin a x1 b x2)
          /\ forall j, j <> io -> s' j = s j.
Proof.
  intros Hbi H1 H2 L12 Lo.
  pose proof (lincomb_fuel_poison r bi a b i1 i2 io s x1 x2 Hbi H1 H2 L12 Lo) as P.
  unfold post_opt in P. destruct (lincomb_fuel _ _ _ _ _ s) as [s' | | |]; [eauto | contradiction | contradiction | contradiction].
Qed.

(* the same at the level of NumpyTensorSpace._lincomb: regime chosen by the regenerated dispatch *)
Lemma lincomb_impl_poison (fl : bool) (bdt : dtinfo) (f1 f2 fo : bool * bool) (a b : T) (i1 i2 io : nat)
      (s : store (option T)) (x1 x2 : list T) :
  s i1 = map Some x1 -> s i2 = map Some x2 ->
  length x1 = length x2 -> length (s io) = length x1 ->
  exists s', lincomb_impl (fun u => u) fl bdt [f1; f2; fo] (Some a) i1 (Some b) i2 io s = Ok s'
          /\ s' io = map Some (vlin a x1 b x2)
          /\ forall j, j <> io -> s' j = s j.
Proof.
  intros H1 H2 L12 Lo. unfold lincomb_impl, lincomb_impl_sz.
  apply lincomb_poison_ok; try assumption.
  intros Er. apply (blas_regime_sound (Z.of_nat (length (s i1))) fl bdt f1 f2 fo). exact Er.
Qed.

Lemma set_zero_direct_counterexample (bi : blasinfo) :
  is_guarded direct_body = false ->
  exists (i : nat) (s : store (option T)) (s' : store (option T)),
    lincomb_fuel 2 (fun u => u) Direct bi
      {| e_a := of_Z 0; e_b := of_Z 0; e_x1 := i; e_x2 := i; e_out := i |} s = Ok s'
    /\ s' i <> map (fun _ => Some nzero) (s i).
Proof.
  intros Hg. exists 0%nat, (fun _ => [None]).
  destruct (set_zero_direct_poison bi 0%nat (fun _ => [None]) Hg eq_refl) as (s' & E & Hs).
  exists s'. split; [exact E | rewrite Hs; cbn; discriminate].
Qed.

End Poison.
