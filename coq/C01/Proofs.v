(* C01/Proofs.v -- lemmas about the model of _lincomb_impl, over any carrier
   satisfying the field laws (C01/Laws.v): real and complex dtypes at once. *)
From Coq Require Import ZArith Lia List Bool Field Ring.
From Verif Require Import Base.Num Base.Vec C01.Syntax Gen.Lincomb C01.Carriers C01.Model C01.Laws.
Import ListNotations.
Local Open Scope num_scope.

(* ---------- lists, entry-wise ---------- *)
Section Lists.
Context {A : Type}.

Lemma nth_error_ext (l l' : list A) : (forall k, nth_error l k = nth_error l' k) -> l = l'.
Proof.
  revert l'; induction l as [|a l IH]; intros [|b l'] Hk.
  - reflexivity.
  - specialize (Hk 0%nat); discriminate.
  - specialize (Hk 0%nat); discriminate.
  - f_equal.
    + specialize (Hk 0%nat). cbn in Hk. congruence.
    + apply IH. intros k. exact (Hk (S k)).
Qed.

Lemma nth_error_vmap2 {T} `{Num T} (f : T -> T -> T) (x y : list T) (k : nat) :
  nth_error (vmap2 f x y) k =
  match nth_error x k, nth_error y k with Some u, Some v => Some (f u v) | _, _ => None end.
Proof.
  revert y k; induction x as [|a x IH]; intros [|b y] [|k]; cbn; try reflexivity.
  - destruct (nth_error x k); reflexivity.
  - apply IH.
Qed.

Lemma nth_error_len {B} (l : list A) (l' : list B) (k : nat) :
  length l = length l' -> nth_error l k = None -> nth_error l' k = None.
Proof. intros Hl Hn. apply nth_error_None in Hn. apply nth_error_None. lia. Qed.

Lemma nth_error_both {B} (l : list A) (l' : list B) (k : nat) : length l = length l' ->
  (exists u v, nth_error l k = Some u /\ nth_error l' k = Some v) \/
  (nth_error l k = None /\ nth_error l' k = None).
Proof.
  intros Hl. destruct (nth_error l k) as [u|] eqn:E1.
  - destruct (nth_error l' k) as [v|] eqn:E2.
    + left. eauto.
    + apply nth_error_None in E2. assert (E1' : nth_error l k <> None) by congruence.
      apply nth_error_Some in E1'. lia.
  - right. split; [reflexivity | eapply nth_error_len; eauto].
Qed.
End Lists.

Lemma vmap2_length {T} `{Num T} (f : T -> T -> T) (x y : list T) :
  length x = length y -> length (vmap2 f x y) = length x.
Proof.
  revert y; induction x as [|a x IH]; intros [|b y] Hl; cbn in *; try congruence.
  f_equal; apply IH; congruence.
Qed.

(* ---------- the store ---------- *)
Section Store.
Context {T : Type} `{Num T}.
Lemma upd_same (s : store T) i v : upd s i v i = v.
Proof. unfold upd. rewrite Nat.eqb_refl. reflexivity. Qed.
Lemma upd_other (s : store T) i v j : j <> i -> upd s i v j = s j.
Proof. intros Hn. unfold upd. apply Nat.eqb_neq in Hn. rewrite Hn. reflexivity. Qed.
End Store.

Lemma nth3 {A B C} (x : list A) (y : list B) (z : list C) k : length x = length y -> length z = length x ->
  (exists u v w, nth_error x k = Some u /\ nth_error y k = Some v /\ nth_error z k = Some w) \/
  (nth_error x k = None /\ nth_error y k = None /\ nth_error z k = None).
Proof.
  intros L1 L2.
  destruct (nth_error_both x y k L1) as [(u & v & E1 & E2) | (E1 & E2)];
  destruct (nth_error_both z x k L2) as [(w & u' & E3 & E4) | (E3 & E4)]; try congruence.
  - left. exists u, v, w. auto.
  - right. auto.
Qed.

Lemma map_Some_inj {A} (x y : list A) : map Some x = map Some y -> x = y.
Proof.
  revert y; induction x as [|a x IH]; intros [|b y] E; cbn in E; try congruence.
  injection E. intros E' Eab. f_equal; [exact Eab | apply IH; exact E'].
Qed.

(* ---------- symbolic execution of the regenerated tree ---------- *)
(* split on object identities, then on the scalar tests that guard the
   outermost remaining [if]; dead branches disappear by computation *)
Ltac split_ids :=
  repeat match goal with
  | |- context [Nat.eqb ?i ?j] => destruct (Nat.eqb_spec i j); [subst|]; try congruence
  end.
Ltac split_if :=
  match goal with
  | |- context [if ?c then _ else _] =>
      lazymatch c with
      | context [neqb ?x ?y] => destruct (neqb x y) eqn:?
      end
  end; cbn [andb orb negb bind].
Ltac use_eqs :=
  repeat match goal with H : neqb ?x ?y = _ |- context [neqb ?x ?y] => rewrite H end; cbn [andb orb negb].
Ltac norm_hyps :=
  repeat match goal with
  | H : neqb _ _ = true |- _ => apply nf_eqb in H
  | H : neqb _ _ = false |- _ => apply neqb_false in H
  end;
  rewrite ?nf_of0, ?nf_of1 in *.
Ltac reads := repeat (rewrite upd_same || rewrite upd_other by congruence).
Ltac unfold_prims :=
  cbn [do_scal do_axpy do_copy do_fill run_ps run_p fallback_scal fallback_axpy fallback_copy pid aug_fn pcval
       blas_axpy blas_scal bi_view bi_call]; unfold blas_write; cbn [bi_full].

(* the outcome is Ok, [out] holds the entry-wise result (converted by [cast]) of
   the INITIAL operands, every other buffer is unchanged *)
Definition post {T} `{Num T} (cast : T -> T) (a : T) (i1 : nat) (b : T) (i2 : nat) (io : nat)
           (s : store T) (o : outcome T) : Prop :=
  match o with
  | Ok s' => s' io = map cast (vlin a (s i1) b (s i2)) /\ forall j, j <> io -> s' j = s j
  | _ => False
  end.

(* ---------- scalar reasoning after the case split ---------- *)
Ltac subst_scalars :=
  repeat match goal with
  | H : ?x = nzero |- _ => is_var x; subst x
  | H : ?x = none_ |- _ => is_var x; subst x
  | H : ?x + nzero = nzero |- _ =>
      let E := fresh in assert (E : x = nzero) by (rewrite <- H; ring); clear H
  | H : nzero + ?x = nzero |- _ =>
      let E := fresh in assert (E : x = nzero) by (rewrite <- H; ring); clear H
  | H : ?x + ?y = nzero |- _ => is_var y;
      let E := fresh in assert (E : y = - x) by (transitivity ((x + y) - x); [ring | rewrite H; ring]);
      clear H; subst y
  end.
Ltac zero_is_one :=
  solve [exfalso; subst_scalars;
         match goal with
         | H : nzero = none_ |- _ => apply (F_1_neq_0 nf_field); symmetry; exact H
         | H : none_ = nzero |- _ => apply (F_1_neq_0 nf_field); exact H
         end].
Ltac pointwise L12 Lo :=
  let k := fresh "k" in let u := fresh "u" in let v := fresh "v" in let w := fresh "w" in
  let E1 := fresh "E1" in let E2 := fresh "E2" in let E3 := fresh "E3" in
  apply nth_error_ext; intro k; unfold vlin, blas_scal, blas_axpy;
  repeat (rewrite nth_error_vmap2 || rewrite nth_error_map);
  match type of L12 with length ?x = length ?y =>
  match type of Lo with length ?z = _ =>
    destruct (nth3 x y z k L12 Lo) as [(u & v & w & E1 & E2 & E3) | (E1 & E2 & E3)]
  end end;
  rewrite ?E1, ?E2, ?E3; cbn [option_map]; try reflexivity; f_equal.
Ltac finish L12 Lo :=
  norm_hyps;
  first
  [ solve [exfalso; match goal with H : ~ (_ /\ _) |- _ => apply H; split; [reflexivity | assumption] end]
  | split; [ reads; rewrite map_id; pointwise L12 Lo; subst_scalars; rewrite ?nf_of0;
             try (field; auto); try zero_is_one
           | intros j Hj; reads; reflexivity ] ].

(* ---------- fallback and BLAS regimes over a field ---------- *)
Section Field.
Context {T : Type} {N : Num T} {F : NumField T}.
Add Field Tfield : nf_field.

Let idc : T -> T := fun u => u.

(* every leaf of the tree that does not re-enter _lincomb_impl *)
(* ---------- the direct regime (any conversion [cast] to the array dtype) ----------
   The proof script covers the single assignment  out.data[:] = a*x1.data + b*x2.data
   as well as an if/elif/else over the scalars with one assignment per branch. *)
Ltac direct_pointwise L12 Lo :=
  let k := fresh "k" in let u := fresh "u" in let v := fresh "v" in let w := fresh "w" in
  let E1 := fresh "E1" in let E2 := fresh "E2" in let E3 := fresh "E3" in
  apply nth_error_ext; intro k; unfold vlin;
  repeat (rewrite nth_error_vmap2 || rewrite nth_error_map);
  match type of L12 with length ?x = length ?y =>
  match type of Lo with length ?z = _ =>
    destruct (nth3 x y z k L12 Lo) as [(u & v & w & E1 & E2 & E3) | (E1 & E2 & E3)]
  end end;
  rewrite ?E1, ?E2, ?E3; cbn [option_map]; try reflexivity; do 2 f_equal.

Lemma direct_exact (cast : T -> T) (fuel : nat) (bi : blasinfo) a b (i1 i2 io : nat) (s : store T) :
  length (s i1) = length (s i2) -> length (s io) = length (s i1) ->
  post cast a i1 b i2 io s
    (lincomb_fuel (S fuel) cast Direct bi {| e_a := a; e_b := b; e_x1 := i1; e_x2 := i2; e_out := io |} s).
Proof.
  intros L12 Lo. unfold post.
  cbn [lincomb_fuel]. unfold direct_body.
  cbn [deval cval sval opnd e_a e_b e_x1 e_x2 e_out].
  repeat split_if.
  all: cbn [veval vbin opnd sval e_a e_b e_x1 e_x2 e_out]; unfold assign_all.
  all: norm_hyps.
  all: split; [ rewrite upd_same; direct_pointwise L12 Lo; subst_scalars; rewrite ?nf_of0; try ring; try zero_is_one
              | intros j Hj; rewrite upd_other by assumption; reflexivity ].
Qed.

Definition bi_ok (r : regime) (bi : blasinfo) : Prop :=
  r = Blas -> bi_view bi = true /\ bi_call bi = true /\ bi_full bi = true.

Lemma tree_no_rec (rc : env T -> store T -> outcome T) (r : regime) (bi : blasinfo) a b (i1 i2 io : nat) (s : store T) :
  r <> Direct -> bi_ok r bi -> ~ (i1 = i2 /\ b <> nzero) ->
  length (s i1) = length (s i2) -> length (s io) = length (s i1) ->
  post idc a i1 b i2 io s
    (exec_list rc r bi {| e_a := a; e_b := b; e_x1 := i1; e_x2 := i2; e_out := io |} alias_tree s).
Proof.
  intros Hr Hbi Hnr L12 Lo.
  unfold post, alias_tree, idc.
  cbn [exec_list exec bind cval opnd sval e_a e_b e_x1 e_x2 e_out].
  destruct r; [congruence| |].
  - split_ids.
    all: repeat split_if.
    all: unfold_prims.
    all: use_eqs.
    all: finish L12 Lo.
  - destruct bi as [bv bc bf bn]. destruct (Hbi eq_refl) as (Hv & Hc & Hf). cbn in Hv, Hc, Hf. subst bv bc bf.
    split_ids.
    all: repeat split_if.
    all: unfold_prims.
    all: use_eqs.
    all: finish L12 Lo.
Qed.

(* the leaf that re-enters: x1 is x2 and b != 0 *)
Lemma tree_rec (rc : env T -> store T -> outcome T) (r : regime) (bi : blasinfo) a b (i1 io : nat) (s : store T) :
  b <> nzero ->
  exec_list rc r bi {| e_a := a; e_b := b; e_x1 := i1; e_x2 := i1; e_out := io |} alias_tree s =
  bind (rc {| e_a := a + b; e_b := of_Z 0; e_x1 := i1; e_x2 := i1; e_out := io |} s) (fun s0 => Ok s0).
Proof.
  intros Hb. unfold alias_tree.
  cbn [exec_list exec bind cval opnd sval e_a e_b e_x1 e_x2 e_out].
  rewrite Nat.eqb_refl.
  assert (E : neqb b (of_Z 0) = false) by (apply neqb_false; rewrite nf_of0; exact Hb).
  rewrite E. cbn [andb negb].
  destruct (rc _ s); reflexivity.
Qed.

Lemma vlin_merge (a b : T) (x : list T) : vlin (a + b) x (of_Z 0) x = vlin a x b x.
Proof.
  apply nth_error_ext; intro k. unfold vlin. rewrite !nth_error_vmap2.
  destruct (nth_error x k); [f_equal; rewrite nf_of0; ring | reflexivity].
Qed.

Theorem lincomb_fuel_correct (r : regime) (bi : blasinfo) a b (i1 i2 io : nat) (s : store T) :
  bi_ok r bi ->
  length (s i1) = length (s i2) -> length (s io) = length (s i1) ->
  post idc a i1 b i2 io s
    (lincomb_fuel 2 idc r bi {| e_a := a; e_b := b; e_x1 := i1; e_x2 := i2; e_out := io |} s).
Proof.
  intros Hbi L12 Lo.
  destruct r.
  - apply direct_exact; assumption.
  - destruct (Nat.eq_dec i1 i2) as [E12 | N12];
      [destruct (neqb b nzero) eqn:Eb; [apply nf_eqb in Eb | apply neqb_false in Eb] |].
    + change (post idc a i1 b i2 io s (exec_list (lincomb_fuel 1 idc Fallback bi) Fallback bi
              {| e_a := a; e_b := b; e_x1 := i1; e_x2 := i2; e_out := io |} alias_tree s)).
      apply tree_no_rec; try assumption; [congruence | tauto].
    + subst i2.
      change (post idc a i1 b i1 io s (exec_list (lincomb_fuel 1 idc Fallback bi) Fallback bi
              {| e_a := a; e_b := b; e_x1 := i1; e_x2 := i1; e_out := io |} alias_tree s)).
      rewrite tree_rec by exact Eb.
      change (lincomb_fuel 1 idc Fallback bi ?e s) with (exec_list (lincomb_fuel 0 idc Fallback bi) Fallback bi e alias_tree s).
      pose proof (tree_no_rec (lincomb_fuel 0 idc Fallback bi) Fallback bi (a + b) (of_Z 0) i1 i1 io s) as P.
      destruct (exec_list _ Fallback bi _ alias_tree s) as [s' | | |]; cbn [bind post] in *.
      * rewrite vlin_merge in P. apply P; try assumption; [congruence |].
        intros [_ Hz]. apply Hz. apply nf_of0.
      * apply P; try assumption; [congruence | intros [_ Hz]; apply Hz; apply nf_of0].
      * apply P; try assumption; [congruence | intros [_ Hz]; apply Hz; apply nf_of0].
      * apply P; try assumption; [congruence | intros [_ Hz]; apply Hz; apply nf_of0].
    + change (post idc a i1 b i2 io s (exec_list (lincomb_fuel 1 idc Fallback bi) Fallback bi
              {| e_a := a; e_b := b; e_x1 := i1; e_x2 := i2; e_out := io |} alias_tree s)).
      apply tree_no_rec; try assumption; [congruence | tauto].
  - destruct (Nat.eq_dec i1 i2) as [E12 | N12];
      [destruct (neqb b nzero) eqn:Eb; [apply nf_eqb in Eb | apply neqb_false in Eb] |].
    + change (post idc a i1 b i2 io s (exec_list (lincomb_fuel 1 idc Blas bi) Blas bi
              {| e_a := a; e_b := b; e_x1 := i1; e_x2 := i2; e_out := io |} alias_tree s)).
      apply tree_no_rec; try assumption; [congruence | tauto].
    + subst i2.
      change (post idc a i1 b i1 io s (exec_list (lincomb_fuel 1 idc Blas bi) Blas bi
              {| e_a := a; e_b := b; e_x1 := i1; e_x2 := i1; e_out := io |} alias_tree s)).
      rewrite tree_rec by exact Eb.
      change (lincomb_fuel 1 idc Blas bi ?e s) with (exec_list (lincomb_fuel 0 idc Blas bi) Blas bi e alias_tree s).
      pose proof (tree_no_rec (lincomb_fuel 0 idc Blas bi) Blas bi (a + b) (of_Z 0) i1 i1 io s) as P.
      destruct (exec_list _ Blas bi _ alias_tree s) as [s' | | |]; cbn [bind post] in *.
      * rewrite vlin_merge in P. apply P; try assumption; [congruence |].
        intros [_ Hz]. apply Hz. apply nf_of0.
      * apply P; try assumption; [congruence | intros [_ Hz]; apply Hz; apply nf_of0].
      * apply P; try assumption; [congruence | intros [_ Hz]; apply Hz; apply nf_of0].
      * apply P; try assumption; [congruence | intros [_ Hz]; apply Hz; apply nf_of0].
    + change (post idc a i1 b i2 io s (exec_list (lincomb_fuel 1 idc Blas bi) Blas bi
              {| e_a := a; e_b := b; e_x1 := i1; e_x2 := i2; e_out := io |} alias_tree s)).
      apply tree_no_rec; try assumption; [congruence | tauto].
Qed.

End Field.

(* ---------- the statements used by Props.v ---------- *)
Lemma post_ok {T} `{Num T} cast a i1 b i2 io (s : store T) o :
  post cast a i1 b i2 io s o ->
  exists s', o = Ok s' /\ s' io = map cast (vlin a (s i1) b (s i2)) /\ forall j, j <> io -> s' j = s j.
Proof. destruct o as [s' | | |]; cbn; [eauto | tauto | tauto | tauto]. Qed.

(* the regenerated dispatch sends a call to the BLAS branch only if BLAS updates out in place:
   depends on regime_of, blas_applicable (_blas_is_applicable) and blas_ravel_order *)
(* the dtype test of the regenerated _blas_is_applicable: applicable only for a dtype BLAS updates in
   place (native byte order AND one of the four type codes).  A test that looks at the type code only
   (dtype.char in 'fdFD') does not discharge this. *)
Lemma blas_applicable_native (d : dtinfo) (size : Z) (flags : list (bool * bool)) :
  blas_applicable true d size flags = true -> native_blas d = true.
Proof.
  unfold blas_applicable. destruct d as [c n l0]. unfold native_blas, dt_char_in. cbn [dt_native dt_char negb].
  repeat match goal with |- context [existsb ?f ?l] => destruct (existsb f l) end;
  destruct n; cbn [andb negb orb];
  repeat match goal with |- context [if ?b then _ else _] => destruct b end;
  intros E; try discriminate E; reflexivity.
Qed.

(* the vector length handed to BLAS (and used by the dispatch) is the number of entries: a fact about the
   regenerated `size = ...` statement (len(x1) would be the length of axis 0 only) *)
Lemma vector_length_is_size (total len0 : Z) : size_of size_expr total len0 = total.
Proof. reflexivity. Qed.

Lemma blas_regime_sound (total : Z) (fl : bool) (bdt : dtinfo) (f1 f2 fo : bool * bool) :
  let size := size_of size_expr total (dt_len0 bdt) in
  regime_of size fl (blas_applicable true bdt total [f1; f2; fo]) = Blas ->
  bi_view (@blas_info bdt [f1; f2; fo] size total) = true /\ bi_call (@blas_info bdt [f1; f2; fo] size total) = true
  /\ bi_full (@blas_info bdt [f1; f2; fo] size total) = true.
Proof.
  intros size Hr. unfold size in *. rewrite vector_length_is_size in *.
  assert (Ha : blas_applicable true bdt total [f1; f2; fo] = true).
  { revert Hr. unfold regime_of. destruct (blas_applicable true bdt total [f1; f2; fo]); [reflexivity|].
    repeat match goal with
    | |- context [Z.ltb ?x ?y] => destruct (Z.ltb x y)
    | |- context [Z.leb ?x ?y] => destruct (Z.leb x y)
    | |- context [Z.gtb ?x ?y] => destruct (Z.gtb x y)
    | |- context [Z.geb ?x ?y] => destruct (Z.geb x y)
    end; destruct fl; cbn; intros E; discriminate E. }
  pose proof (blas_applicable_native bdt total _ Ha) as Hn.
  revert Ha. unfold blas_applicable, blas_info, blas_ravel_order. rewrite Hn.
  destruct f1 as [c1 g1], f2 as [c2 g2], fo as [co go].
  cbn [nth forallb existsb fst snd bi_view bi_call bi_full negb]. rewrite Z.eqb_refl.
  repeat match goal with
  | |- context [Z.gtb ?x ?y] => destruct (Z.gtb x y)
  | |- context [Z.ltb ?x ?y] => destruct (Z.ltb x y)
  end;
  destruct c1, g1, c2, g2, co, go; cbn; intros E; try discriminate E; auto.
Qed.

Lemma lincomb_impl_correct {T} {N : Num T} {F : NumField T}
      (fl : bool) (bdt : dtinfo) (f1 f2 fo : bool * bool) (a b : T) (i1 i2 io : nat) (s : store T) :
  length (s i1) = length (s i2) -> length (s io) = length (s i1) ->
  exists s', lincomb_impl (fun u => u) fl bdt [f1; f2; fo] a i1 b i2 io s = Ok s'
          /\ s' io = vlin a (s i1) b (s i2)
          /\ forall j, j <> io -> s' j = s j.
Proof.
  intros L12 Lo. unfold lincomb_impl, lincomb_impl_sz.
  cbv zeta. set (r := regime_of _ fl _). set (bi := blas_info bdt [f1; f2; fo] _ _).
  assert (Hbi : bi_ok r bi).
  { intros Er. apply (blas_regime_sound (Z.of_nat (length (s i1))) fl bdt f1 f2 fo). exact Er. }
  destruct (post_ok _ _ _ _ _ _ _ _
              (lincomb_fuel_correct r bi a b i1 i2 io s Hbi L12 Lo))
    as (s' & E & Hout & Hfr).
  exists s'. rewrite map_id in Hout. auto.
Qed.

(* integer (or any non-floating) dtype: only the direct regime is used, at every size; the stored
   result is the conversion [cast] of a*x1 + b*x2 (integers embed in the field) *)
Lemma lincomb_impl_nonfloating {T} {N : Num T} {F : NumField T} (cast : T -> T) (bdt : dtinfo)
      (flags : list (bool * bool)) (a b : T) (i1 i2 io : nat) (s : store T) :
  length (s i1) = length (s i2) -> length (s io) = length (s i1) ->
  exists s', lincomb_impl cast false bdt flags a i1 b i2 io s = Ok s'
          /\ s' io = map cast (vlin a (s i1) b (s i2))
          /\ forall j, j <> io -> s' j = s j.
Proof.
  intros L12 Lo. unfold lincomb_impl, lincomb_impl_sz.
  cbv zeta.
  assert (E : forall sz bo, regime_of sz false bo = Direct).
  { intros sz bo. unfold regime_of. cbn [negb]. rewrite orb_true_r. reflexivity. }
  rewrite E. apply post_ok. apply direct_exact; assumption.
Qed.

(* the size argument only selects the regime: the same conclusion for EVERY size value *)
Lemma lincomb_impl_sz_correct {T} {N : Num T} {F : NumField T}
      (fl : bool) (bdt : dtinfo) (f1 f2 fo : bool * bool) (size : Z) (a b : T) (i1 i2 io : nat) (s : store T) :
  length (s i1) = length (s i2) -> length (s io) = length (s i1) ->
  exists s', lincomb_impl_sz (fun u => u) fl bdt [f1; f2; fo] size a i1 b i2 io s = Ok s'
          /\ s' io = vlin a (s i1) b (s i2)
          /\ forall j, j <> io -> s' j = s j.
Proof.
  intros L12 Lo. unfold lincomb_impl_sz.
  cbv zeta. set (r := regime_of _ fl _). set (bi := blas_info bdt [f1; f2; fo] _ _).
  assert (Hbi : bi_ok r bi).
  { intros Er. apply (blas_regime_sound size fl bdt f1 f2 fo). exact Er. }
  destruct (post_ok _ _ _ _ _ _ _ _
              (lincomb_fuel_correct r bi a b i1 i2 io s Hbi L12 Lo))
    as (s' & E & Hout & Hfr).
  exists s'. rewrite map_id in Hout. auto.
Qed.
