(* C01/Carriers.v -- two further instances of the carrier class (definitions only).

   * [Num_opt]: the POISONED carrier [option T].  [None] stands for a non-finite value
     (NaN, +-inf) or uninitialised memory; every arithmetic operation is strict in [None]
     (including multiplication by zero) and every comparison with [None] is
     false.  Used to state and to execute "the previous contents of [out]
     never influence the result".
   * [Num_cx]: complex numbers over any carrier, as pairs (re, im).  Executed
     at Q*Q (Gaussian rationals), proved at R*R. *)
From Coq Require Import ZArith List Bool.
From Verif Require Import Base.Num.
Local Open Scope num_scope.

Definition olift2 {A B C} (f : A -> B -> C) (a : option A) (b : option B) : option C :=
  match a, b with Some x, Some y => Some (f x y) | _, _ => None end.
Definition otest2 {A B} (f : A -> B -> bool) (a : option A) (b : option B) : bool :=
  match a, b with Some x, Some y => f x y | _, _ => false end.

(* division by an exact zero gives inf or NaN: non-finite, hence [None] *)
Definition odiv {T : Type} `{Num T} (a b : option T) : option T :=
  match a, b with
  | Some x, Some y => if neqb y (of_Z 0) then None else Some (x / y)
  | _, _ => None
  end.

Global Instance Num_opt {T : Type} `{Num T} : Num (option T) := {|
  nzero := Some nzero; none_ := Some none_;
  nadd := olift2 nadd; nsub := olift2 nsub; nmul := olift2 nmul; ndiv := odiv;
  nopp := option_map nopp; nabs := option_map nabs;
  nltb := otest2 nltb; nleb := otest2 nleb; neqb := otest2 neqb;
  of_Z := fun z => Some (of_Z z) |}.

Definition cx_mul {T : Type} `{Num T} (p q : T * T) : T * T :=
  let '(a, b) := p in let '(c, d) := q in (a * c - b * d, a * d + b * c).
Definition cx_div {T : Type} `{Num T} (p q : T * T) : T * T :=
  let '(a, b) := p in let '(c, d) := q in
  let m := c * c + d * d in ((a * c + b * d) / m, (b * c - a * d) / m).

Global Instance Num_cx {T : Type} `{Num T} : Num (T * T) := {|
  nzero := (nzero, nzero); none_ := (none_, nzero);
  nadd := fun p q => (fst p + fst q, snd p + snd q);
  nsub := fun p q => (fst p - fst q, snd p - snd q);
  nmul := cx_mul; ndiv := cx_div;
  nopp := fun p => (- fst p, - snd p);
  nabs := fun p => (fst p * fst p + snd p * snd p, nzero);      (* squared modulus; not used by C01 *)
  nltb := fun _ _ => false; nleb := fun _ _ => false;           (* complex numbers are unordered *)
  neqb := fun p q => neqb (fst p) (fst q) && neqb (snd p) (snd q);
  of_Z := fun z => (of_Z z, nzero) |}.
