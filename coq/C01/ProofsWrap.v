(* C01/ProofsWrap.v -- the public operators of odl/set/space.py on a tensor or
   discretized space (a floating leaf): each program of C01/ModelSpace.v equals
   its entry-wise specification, and the operands that are not the output are
   left unchanged.  Corollaries of lincomb_impl_correct. *)
From Coq Require Import ZArith Lia List Bool Field Ring.
From Verif Require Import Base.Num Base.Vec C01.Syntax Gen.Lincomb Gen.SpaceOps C01.Carriers C01.Model C01.Laws
  C01.Proofs C01.ModelSpace.

(* expose the space-level calls of a regenerated operator program *)
Ltac open_prog :=
  cbn [run_w run_call eref_el sref_val];
  unfold with_one, seq, w_lincomb1, w_lincomb2, w_multiply, w_divide;
  cbn [space_lincomb1_call space_lincomb2_call space_multiply_call space_divide_call pick3 sval2 sval e_a e_b].
Import ListNotations.
Local Open Scope num_scope.

Section Wrap.
Context {T : Type} {N : Num T} {F : NumField T}.
Add Field Tfield : nf_field.
Variable flg : nat -> bool * bool.
Variable bdtf : nat -> dtinfo.
Variable icast : T -> T.

Notation sp := (SLeaf true).

(* result of a program: returns, [out] holds [spec], everything else is as before *)
Definition yields (m : store T -> outcome T) (s : store T) (out : nat) (spec : list T) : Prop :=
  exists s', m s = Ok s' /\ s' out = spec /\ forall j, j <> out -> s' j = s j.

Lemma lin_leaf (a b : T) (x y o : nat) (s : store T) :
  length (s x) = length (s y) -> length (s o) = length (s x) ->
  yields (ps_lincomb flg bdtf icast sp a (Leaf x) b (Leaf y) (Leaf o)) s o (vlin a (s x) b (s y)).
Proof.
  intros L1 L2. unfold yields, ps_lincomb. cbn [ps_map3]. unfold lincomb_leaf.
  apply lincomb_impl_correct; assumption.
Qed.

Ltac entrywise :=
  apply nth_error_ext; intro k; unfold vlin, vadd, vsub, vmul, vdiv, vopp, vscal;
  repeat (rewrite nth_error_vmap2 || rewrite nth_error_map).

Lemma vlin_same (a b : T) (u : list T) : vlin a u b u = map (fun e => (a + b) * e) u.
Proof. entrywise. destruct (nth_error u k); cbn; [f_equal; ring | reflexivity]. Qed.

(* ---- x + y, x - y (fresh output t) and their in-place forms ---- *)
Theorem add_spec (x y t : nat) (s : store T) :
  length (s x) = length (s y) -> length (s t) = length (s x) ->
  yields (w_add flg bdtf icast sp (Leaf x) (Leaf y) (Leaf t)) s t (vadd (s x) (s y)).
Proof.
  intros L1 L2. destruct (lin_leaf (of_Z 1) (of_Z 1) x y t s L1 L2) as (s' & E & Ho & Hf).
  exists s'. split; [exact E|]. split; [|exact Hf]. rewrite Ho. entrywise.
  destruct (nth_error (s x) k), (nth_error (s y) k); cbn; try reflexivity. f_equal. rewrite nf_of1. ring.
Qed.

Theorem sub_spec (x y t : nat) (s : store T) :
  length (s x) = length (s y) -> length (s t) = length (s x) ->
  yields (w_sub flg bdtf icast sp (Leaf x) (Leaf y) (Leaf t)) s t (vsub (s x) (s y)).
Proof.
  intros L1 L2. destruct (lin_leaf (of_Z 1) (of_Z (-1)) x y t s L1 L2) as (s' & E & Ho & Hf).
  exists s'. split; [exact E|]. split; [|exact Hf]. rewrite Ho. entrywise.
  destruct (nth_error (s x) k), (nth_error (s y) k); cbn; try reflexivity. f_equal.
  rewrite nf_of1, nf_ofm1. ring.
Qed.

Theorem iadd_spec (x y : nat) (s : store T) :
  length (s x) = length (s y) ->
  yields (w_iadd flg bdtf icast sp (Leaf x) (Leaf y)) s x (vadd (s x) (s y)).
Proof.
  intros L1. destruct (lin_leaf (of_Z 1) (of_Z 1) x y x s L1 eq_refl) as (s' & E & Ho & Hf).
  exists s'. split; [exact E|]. split; [|exact Hf]. rewrite Ho. entrywise.
  destruct (nth_error (s x) k), (nth_error (s y) k); cbn; try reflexivity. f_equal. rewrite nf_of1. ring.
Qed.

Theorem isub_spec (x y : nat) (s : store T) :
  length (s x) = length (s y) ->
  yields (w_isub flg bdtf icast sp (Leaf x) (Leaf y)) s x (vsub (s x) (s y)).
Proof.
  intros L1. destruct (lin_leaf (of_Z 1) (of_Z (-1)) x y x s L1 eq_refl) as (s' & E & Ho & Hf).
  exists s'. split; [exact E|]. split; [|exact Hf]. rewrite Ho. entrywise.
  destruct (nth_error (s x) k), (nth_error (s y) k); cbn; try reflexivity. f_equal.
  rewrite nf_of1, nf_ofm1. ring.
Qed.

(* ---- a * x, x *= a, x / a, -x, copy / assign ---- *)
Theorem mul_scalar_spec (c : T) (x t : nat) (s : store T) :
  length (s t) = length (s x) ->
  yields (w_mul_scalar flg bdtf icast sp (Leaf x) c (Leaf t)) s t (map (fun e => c * e) (s x)).
Proof.
  intros L2. destruct (lin_leaf c (of_Z 0) x x t s eq_refl L2) as (s' & E & Ho & Hf).
  exists s'. split; [exact E|]. split; [|exact Hf]. rewrite Ho, vlin_same.
  apply map_ext. intros e. rewrite nf_of0. ring.
Qed.

Theorem imul_scalar_spec (c : T) (x : nat) (s : store T) :
  yields (w_imul_scalar flg bdtf icast sp (Leaf x) c) s x (map (fun e => c * e) (s x)).
Proof.
  destruct (lin_leaf c (of_Z 0) x x x s eq_refl eq_refl) as (s' & E & Ho & Hf).
  exists s'. split; [exact E|]. split; [|exact Hf]. rewrite Ho, vlin_same.
  apply map_ext. intros e. rewrite nf_of0. ring.
Qed.

Theorem truediv_scalar_spec (c : T) (x t : nat) (s : store T) :
  c <> nzero -> length (s t) = length (s x) ->
  yields (w_truediv_scalar flg bdtf icast sp (Leaf x) c (Leaf t)) s t (map (fun e => e / c) (s x)).
Proof.
  intros Hc L2. destruct (lin_leaf (of_Z 1 / c) (of_Z 0) x x t s eq_refl L2) as (s' & E & Ho & Hf).
  exists s'. split; [exact E|]. split; [|exact Hf]. rewrite Ho, vlin_same.
  apply map_ext. intros e. rewrite nf_of0, nf_of1. field. exact Hc.
Qed.

Theorem neg_spec (x t : nat) (s : store T) :
  length (s t) = length (s x) ->
  yields (w_neg flg bdtf icast sp (Leaf x) (Leaf t)) s t (vopp (s x)).
Proof.
  intros L2. destruct (mul_scalar_spec (of_Z (-1)) x t s L2) as (s' & E & Ho & Hf).
  exists s'. split; [exact E|]. split; [|exact Hf]. rewrite Ho. unfold vopp.
  apply map_ext. intros e. rewrite nf_ofm1. ring.
Qed.

Theorem assign_spec (x y : nat) (s : store T) :
  length (s x) = length (s y) ->
  yields (w_assign flg bdtf icast sp (Leaf x) (Leaf y)) s x (s y).
Proof.
  intros L1. destruct (lin_leaf (of_Z 1) (of_Z 0) y y x s eq_refl L1) as (s' & E & Ho & Hf).
  exists s'. split; [exact E|]. split; [|exact Hf]. rewrite Ho, vlin_same.
  rewrite <- (map_id (s y)) at 2. apply map_ext. intros e. rewrite nf_of0, nf_of1. ring.
Qed.

Theorem copy_spec (x t : nat) (s : store T) :
  length (s t) = length (s x) ->
  yields (w_copy flg bdtf icast sp (Leaf x) (Leaf t)) s t (s x).
Proof. intros L. apply assign_spec. exact L. Qed.

(* ---- scalar broadcasting through one():  x + c  is  tmp = one(); lincomb(1, x, c, tmp, out=tmp) ---- *)
Theorem add_scalar_spec (c : T) (x t : nat) (s : store T) :
  t <> x -> length (s t) = length (s x) ->
  yields (w_add_scalar flg bdtf icast sp (Leaf x) c (Leaf t)) s t (map (fun e => e + c) (s x)).
Proof.
  intros Htx L2. unfold w_add_scalar, with_one. cbn [fill_elem].
  set (s1 := upd s t (map (fun _ => of_Z 1) (s t))).
  assert (E1 : s1 x = s x) by (unfold s1; apply upd_other; congruence).
  assert (E2 : s1 t = map (fun _ => of_Z 1) (s t)) by (unfold s1; apply upd_same).
  assert (L1' : length (s1 x) = length (s1 t)) by (rewrite E1, E2, map_length; congruence).
  destruct (lin_leaf (of_Z 1) c x t t s1 L1' (eq_sym L1')) as (s' & E & Ho & Hf).
  exists s'. split; [exact E|]. split.
  - rewrite Ho, E1, E2. entrywise.
    destruct (nth_error_both (s x) (s t) k (eq_sym L2)) as [(u & v & Eu & Ev) | (Eu & Ev)]; rewrite ?Eu, ?Ev; cbn;
      [f_equal; rewrite nf_of1; ring | reflexivity].
  - intros j Hj. rewrite (Hf j Hj). unfold s1. apply upd_other. exact Hj.
Qed.

(* c - x  is  tmp = one(); lincomb(c, tmp, out=tmp); lincomb(1, tmp, -1, x, out=tmp) *)
Theorem rsub_scalar_spec (c : T) (x t : nat) (s : store T) :
  t <> x -> length (s t) = length (s x) ->
  yields (w_rsub_scalar flg bdtf icast sp (Leaf x) c (Leaf t)) s t (map (fun e => c - e) (s x)).
Proof.
  intros Htx L2. unfold yields, w_rsub_scalar, prog_rsub_scal. open_prog. cbn [fill_elem]. cbv beta.
  set (s1 := upd s t (map (fun _ => of_Z 1) (s t))).
  assert (E1 : s1 x = s x) by (unfold s1; apply upd_other; congruence).
  assert (E2 : s1 t = map (fun _ => of_Z 1) (s t)) by (unfold s1; apply upd_same).
  destruct (lin_leaf c (of_Z 0) t t t s1 eq_refl eq_refl) as (s2 & Ea & Ho2 & Hf2).
  fold s1. rewrite Ea. cbn [bind].
  assert (E3 : s2 x = s x) by (rewrite Hf2 by congruence; exact E1).
  assert (L3 : length (s2 t) = length (s2 x)).
  { rewrite Ho2, E3, E2. unfold vlin. rewrite vmap2_length by reflexivity. rewrite map_length. exact L2. }
  destruct (lin_leaf (of_Z 1) (of_Z (-1)) t x t s2 L3 eq_refl) as (s' & E & Ho & Hf).
  exists s'. split; [exact E|]. split.
  - rewrite Ho, Ho2, E3, E2. entrywise.
    destruct (nth_error_both (s x) (s t) k (eq_sym L2)) as [(u & v & Eu & Ev) | (Eu & Ev)]; rewrite ?Eu, ?Ev; cbn;
      [f_equal; rewrite nf_of0, nf_of1, nf_ofm1; ring | reflexivity].
  - intros j Hj. rewrite (Hf j Hj), (Hf2 j Hj). unfold s1. apply upd_other. exact Hj.
Qed.

(* ---- element-wise product and quotient ---- *)
Theorem mul_spec (x y t : nat) (s : store T) :
  yields (w_mul flg bdtf icast sp (Leaf x) (Leaf y) (Leaf t)) s t (vmul (s y) (s x)).
Proof.
  unfold yields, w_mul, ps_multiply. cbn [ps_map3]. unfold multiply_leaf, multiply_impl.
  eexists. split; [reflexivity|]. split; [apply upd_same | intros j Hj; apply upd_other; exact Hj].
Qed.
Theorem truediv_spec (x y t : nat) (s : store T) :
  yields (w_truediv flg bdtf icast sp (Leaf x) (Leaf y) (Leaf t)) s t (vdiv (s x) (s y)).
Proof.
  unfold yields, w_truediv, ps_divide. cbn [ps_map3]. unfold divide_leaf, divide_impl.
  eexists. split; [reflexivity|]. split; [apply upd_same | intros j Hj; apply upd_other; exact Hj].
Qed.

(* ---- more operators ---- *)
Theorem rsub_spec (x y t : nat) (s : store T) :        (* y - x, computed into the fresh t *)
  length (s y) = length (s x) -> length (s t) = length (s y) ->
  yields (w_rsub flg bdtf icast sp (Leaf x) (Leaf y) (Leaf t)) s t (vsub (s y) (s x)).
Proof.
  intros L1 L2. destruct (lin_leaf (of_Z 1) (of_Z (-1)) y x t s L1 L2) as (s' & E & Ho & Hf).
  exists s'. split; [exact E|]. split; [|exact Hf]. rewrite Ho. entrywise.
  destruct (nth_error (s y) k), (nth_error (s x) k); cbn; try reflexivity. f_equal.
  rewrite nf_of1, nf_ofm1. ring.
Qed.

Theorem sub_scalar_spec (c : T) (x t : nat) (s : store T) :
  t <> x -> length (s t) = length (s x) ->
  yields (w_sub_scalar flg bdtf icast sp (Leaf x) c (Leaf t)) s t (map (fun e => e - c) (s x)).
Proof.
  intros Htx L2. destruct (add_scalar_spec (- c) x t s Htx L2) as (s' & E & Ho & Hf).
  exists s'. split; [exact E|]. split; [|exact Hf]. rewrite Ho. apply map_ext. intros e. ring.
Qed.

(* x += c : lincomb(1, x, c, one(), out=x) with a temporary t = one() *)
Theorem iadd_scalar_spec (c : T) (x t : nat) (s : store T) :
  t <> x -> length (s t) = length (s x) ->
  exists s', w_iadd_scalar flg bdtf icast sp (Leaf x) c (Leaf t) s = Ok s'
    /\ s' x = map (fun e => e + c) (s x)
    /\ forall j, j <> x -> j <> t -> s' j = s j.
Proof.
  intros Htx L2. unfold w_iadd_scalar, with_one. cbn [fill_elem].
  set (s1 := upd s t (map (fun _ => of_Z 1) (s t))).
  assert (E1 : s1 x = s x) by (unfold s1; apply upd_other; congruence).
  assert (E2 : s1 t = map (fun _ => of_Z 1) (s t)) by (unfold s1; apply upd_same).
  assert (L1' : length (s1 x) = length (s1 t)) by (rewrite E1, E2, map_length; congruence).
  destruct (lin_leaf (of_Z 1) c x t x s1 L1' eq_refl) as (s' & E & Ho & Hf).
  exists s'. split; [exact E|]. split.
  - rewrite Ho, E1, E2. entrywise.
    destruct (nth_error_both (s x) (s t) k (eq_sym L2)) as [(u & v & Eu & Ev) | (Eu & Ev)]; rewrite ?Eu, ?Ev; cbn;
      [f_equal; rewrite nf_of1; ring | reflexivity].
  - intros j Hjx Hjt. rewrite (Hf j Hjx). unfold s1. apply upd_other. exact Hjt.
Qed.

Theorem isub_scalar_spec (c : T) (x t : nat) (s : store T) :
  t <> x -> length (s t) = length (s x) ->
  exists s', w_isub_scalar flg bdtf icast sp (Leaf x) c (Leaf t) s = Ok s'
    /\ s' x = map (fun e => e - c) (s x)
    /\ forall j, j <> x -> j <> t -> s' j = s j.
Proof.
  intros Htx L2. destruct (iadd_scalar_spec (- c) x t s Htx L2) as (s' & E & Ho & Hf).
  exists s'. split; [exact E|]. split; [|exact Hf]. rewrite Ho. apply map_ext. intros e. ring.
Qed.

Theorem itruediv_scalar_spec (c : T) (x : nat) (s : store T) :
  c <> nzero ->
  yields (w_itruediv_scalar flg bdtf icast sp (Leaf x) c) s x (map (fun e => e / c) (s x)).
Proof.
  intros Hc. destruct (lin_leaf (of_Z 1 / c) (of_Z 0) x x x s eq_refl eq_refl) as (s' & E & Ho & Hf).
  exists s'. split; [exact E|]. split; [|exact Hf]. rewrite Ho, vlin_same.
  apply map_ext. intros e. rewrite nf_of0, nf_of1. field. exact Hc.
Qed.

(* c / x:  tmp = one(); lincomb(c, tmp, out=tmp); divide(tmp, x, out=tmp) *)
Theorem rtruediv_scalar_spec (c : T) (x t : nat) (s : store T) :
  t <> x -> length (s t) = length (s x) ->
  yields (w_rtruediv_scalar flg bdtf icast sp (Leaf x) c (Leaf t)) s t (map (fun e => c / e) (s x)).
Proof.
  intros Htx L2. unfold yields, w_rtruediv_scalar, prog_rtruediv_scal. open_prog. cbn [fill_elem]. cbv beta.
  set (s1 := upd s t (map (fun _ => of_Z 1) (s t))).
  assert (E1 : s1 x = s x) by (unfold s1; apply upd_other; congruence).
  assert (E2 : s1 t = map (fun _ => of_Z 1) (s t)) by (unfold s1; apply upd_same).
  destruct (lin_leaf c (of_Z 0) t t t s1 eq_refl eq_refl) as (s2 & Ea & Ho2 & Hf2).
  fold s1. rewrite Ea. cbn [bind].
  assert (E3 : s2 x = s x) by (rewrite Hf2 by congruence; exact E1).
  unfold ps_divide. cbn [ps_map3p pspace_divide_call]. unfold divide_leaf, divide_impl, ufunc_impl.
  cbn [discr_divide_call tensor_divide_call pick3 uf_fn].
  eexists. split; [reflexivity|]. split.
  - rewrite upd_same, Ho2, E3, E2. entrywise.
    destruct (nth_error_both (s x) (s t) k (eq_sym L2)) as [(u & v & Eu & Ev) | (Eu & Ev)]; rewrite ?Eu, ?Ev; cbn;
      [f_equal; f_equal; rewrite nf_of0, nf_of1; ring | reflexivity].
  - intros j Hj. rewrite upd_other by exact Hj. rewrite (Hf2 j Hj). unfold s1. apply upd_other. exact Hj.
Qed.

Theorem set_zero_spec (x : nat) (s : store T) :
  yields (w_set_zero flg bdtf icast sp (Leaf x)) s x (map (fun _ => nzero) (s x)).
Proof.
  destruct (lin_leaf (of_Z 0) (of_Z 0) x x x s eq_refl eq_refl) as (s' & E & Ho & Hf).
  exists s'. split; [exact E|]. split; [|exact Hf]. rewrite Ho, vlin_same.
  apply map_ext. intros e. rewrite nf_of0. ring.
Qed.

Theorem imul_spec (x y : nat) (s : store T) :
  yields (w_imul flg bdtf icast sp (Leaf x) (Leaf y)) s x (vmul (s y) (s x)).
Proof.
  unfold yields, w_imul, ps_multiply. cbn [ps_map3]. unfold multiply_leaf, multiply_impl.
  eexists. split; [reflexivity|]. split; [apply upd_same | intros j Hj; apply upd_other; exact Hj].
Qed.
Theorem itruediv_spec (x y : nat) (s : store T) :
  yields (w_itruediv flg bdtf icast sp (Leaf x) (Leaf y)) s x (vdiv (s x) (s y)).
Proof.
  unfold yields, w_itruediv, ps_divide. cbn [ps_map3]. unfold divide_leaf, divide_impl.
  eexists. split; [reflexivity|]. split; [apply upd_same | intros j Hj; apply upd_other; exact Hj].
Qed.
Theorem rtruediv_spec (x y t : nat) (s : store T) :
  yields (w_rtruediv flg bdtf icast sp (Leaf x) (Leaf y) (Leaf t)) s t (vdiv (s y) (s x)).
Proof.
  unfold yields, w_rtruediv, ps_divide. cbn [ps_map3]. unfold divide_leaf, divide_impl.
  eexists. split; [reflexivity|]. split; [apply upd_same | intros j Hj; apply upd_other; exact Hj].
Qed.
End Wrap.

(* ---------- x **= p  (LinearSpaceElement.__ipow__, non-negative integer p) ---------- *)
Section Pow.
Context {T : Type} {N : Num T} {F : NumField T}.
Add Field Tfield2 : nf_field.
Variable flg : nat -> bool * bool.
Variable bdtf : nat -> dtinfo.
Variable icast : T -> T.
Notation sp := (SLeaf true).

Fixpoint npow (e : T) (p : nat) : T := match p with O => none_ | S p' => e * npow e p' end.
Definition vpow (l : list T) (p : nat) : list T := map (fun e => npow e p) l.

Lemma npow_add (e : T) (p q : nat) : npow e (p + q) = npow e p * npow e q.
Proof. induction p as [|p IH]; cbn [npow plus]; [ring | rewrite IH; ring]. Qed.
Lemma npow_sq (e : T) (k : nat) : npow (e * e) k = npow e (k + k).
Proof.
  induction k as [|k IH]; cbn [npow plus]; [reflexivity|].
  rewrite IH. replace (k + S k)%nat with (S (k + k)) by lia. cbn [npow]. ring.
Qed.

Ltac entrywise2 :=
  apply nth_error_ext; intro k; unfold vpow, vmul;
  repeat (rewrite nth_error_vmap2 || rewrite nth_error_map).

(* the three multiplications used by __ipow__ *)
Lemma imul_run (a b : nat) (s : store T) :
  w_imul flg bdtf icast sp (Leaf a) (Leaf b) s = Ok (upd s a (vmul (s b) (s a))).
Proof. reflexivity. Qed.

Lemma vmul_same_map (g h : T -> T) (l : list T) :
  vmul (map g l) (map h l) = map (fun e => g e * h e) l.
Proof.
  entrywise2. destruct (nth_error l k); reflexivity.
Qed.

(* tmp *= self, k times, starting from tmp = self^m *)
Lemma iter_tmul (k m : nat) (x t : nat) (s : store T) : t <> x ->
  s t = vpow (s x) m ->
  exists s', iter_m k (w_imul flg bdtf icast sp (Leaf t) (Leaf x)) s = Ok s'
    /\ s' t = vpow (s x) (m + k)
    /\ forall j, j <> t -> s' j = s j.
Proof.
  intros Htx. revert m s. induction k as [|k IH]; intros m s Ht.
  - exists s. cbn [iter_m]. split; [reflexivity|]. split; [|auto].
    rewrite Nat.add_0_r. exact Ht.
  - cbn [iter_m]. unfold seq. rewrite imul_run. cbn [bind].
    set (s1 := upd s t (vmul (s x) (s t))).
    assert (E1 : s1 x = s x) by (unfold s1; apply upd_other; congruence).
    assert (E2 : s1 t = vpow (s1 x) (S m)).
    { unfold s1 at 1. rewrite upd_same, E1, Ht. unfold vpow.
      rewrite <- (map_id (s x)) at 1. rewrite vmul_same_map. apply map_ext. intros e. reflexivity. }
    destruct (IH (S m) s1 E2) as (s' & E & Hres & Hf).
    exists s'. split; [exact E|]. split.
    + rewrite Hres, E1. f_equal. lia.
    + intros j Hj. rewrite (Hf j Hj). unfold s1. apply upd_other. exact Hj.
Qed.

Lemma even_double (p : nat) : Nat.even p = true -> (Nat.div2 p + Nat.div2 p = p)%nat.
Proof.
  intros He. apply Nat.even_spec in He. destruct He as [q Hq]. subst p.
  rewrite Nat.div2_double. lia.
Qed.

Theorem ipow_spec (fuel p : nat) (x t o : nat) (s : store T) :
  (p < fuel)%nat -> t <> x -> o <> x -> length (s o) = length (s x) ->
  exists s', w_ipow flg bdtf icast fuel (fun a b => w_copy_leaf (leaf_id a) (leaf_id b)) sp (Leaf x) p (Leaf t) (Leaf o) s = Ok s'
    /\ s' x = vpow (s x) p
    /\ forall j, j <> x -> j <> t -> j <> o -> s' j = s j.
Proof.
  revert p s. induction fuel as [|f IH]; intros p s Hp Htx Hox Lo; [lia|].
  cbn [w_ipow].
  destruct (Nat.eqb p 0) eqn:E0.
  - apply Nat.eqb_eq in E0. subst p. unfold with_one. cbn [fill_elem].
    set (s1 := upd s o (map (fun _ => of_Z 1) (s o))).
    assert (L1 : length (s1 x) = length (s1 o)).
    { unfold s1. rewrite upd_same, upd_other by congruence. rewrite map_length. congruence. }
    destruct (assign_spec flg bdtf icast x o s1 L1) as (s' & E & Ho & Hf).
    exists s'. split; [exact E|]. split.
    + rewrite Ho. unfold s1. rewrite upd_same. unfold vpow. cbn [npow].
      apply nth_error_ext; intro k. rewrite !nth_error_map.
      destruct (nth_error_both (s o) (s x) k Lo) as [(u & v & Eu & Ev) | (Eu & Ev)]; rewrite Eu, Ev; cbn;
        [f_equal; apply nf_of1 | reflexivity].
    + intros j Hjx Hjt Hjo. rewrite (Hf j Hjx). unfold s1. apply upd_other. exact Hjo.
  - destruct (Nat.eqb p 1) eqn:E1.
    + apply Nat.eqb_eq in E1. subst p. exists s. split; [reflexivity|]. split; [|auto].
      unfold vpow. cbn [npow]. rewrite <- (map_id (s x)) at 1. apply map_ext. intros e. ring.
    + apply Nat.eqb_neq in E0. apply Nat.eqb_neq in E1.
      destruct (Nat.even p) eqn:Ev.
      * unfold seq. rewrite imul_run. cbn [bind].
        set (s1 := upd s x (vmul (s x) (s x))).
        pose proof (even_double p Ev) as Hd.
        assert (Lx : length (s1 x) = length (s x)).
        { unfold s1. rewrite upd_same. unfold vmul. apply vmap2_length. reflexivity. }
        assert (Lo1 : length (s1 o) = length (s1 x)).
        { rewrite Lx. unfold s1. rewrite upd_other by congruence. exact Lo. }
        destruct (IH (Nat.div2 p) s1 ltac:(lia) Htx Hox Lo1) as (s' & E & Hres & Hf).
        exists s'. split; [exact E|]. split.
        -- rewrite Hres. unfold s1. rewrite upd_same. unfold vpow.
           rewrite <- (map_id (s x)) at 1 2. rewrite vmul_same_map, map_map.
           apply map_ext. intros e. rewrite npow_sq, Hd. reflexivity.
        -- intros j Hjx Hjt Hjo. rewrite (Hf j Hjx Hjt Hjo). unfold s1. apply upd_other. exact Hjx.
      * unfold seq, w_copy_leaf. cbn [leaf_id bind].
        set (s1 := upd s t (s x)).
        assert (E1x : s1 x = s x) by (unfold s1; apply upd_other; congruence).
        assert (E1t : s1 t = vpow (s1 x) 1).
        { unfold s1 at 1. rewrite upd_same, E1x. unfold vpow. cbn [npow].
          rewrite <- (map_id (s x)) at 1. apply map_ext. intros e. ring. }
        destruct (iter_tmul (p - 2) 1 x t s1 Htx E1t) as (s2 & E2 & Ht2 & Hf2).
        rewrite E2. cbn [bind]. rewrite imul_run.
        exists (upd s2 x (vmul (s2 t) (s2 x))). split; [reflexivity|]. split.
        -- rewrite upd_same, Ht2, (Hf2 x) by congruence. rewrite E1x. unfold vpow.
           rewrite <- (map_id (s x)) at 2. rewrite vmul_same_map. apply map_ext. intros e.
           replace p with (S (1 + (p - 2))) at 2 by lia. cbn [npow]. ring.
        -- intros j Hjx Hjt Hjo. rewrite upd_other by exact Hjx. rewrite (Hf2 j Hjt).
           unfold s1. apply upd_other. exact Hjt.
Qed.
End Pow.
