(* C01/ProofsWrap.v -- the public operators of odl/set/space.py on a tensor or
   discretized space (a floating leaf): each program of C01/ModelSpace.v equals
   its entry-wise specification, and the operands that are not the output are
   left unchanged.  Corollaries of lincomb_impl_correct. *)
From Coq Require Import ZArith Lia List Bool Field Ring.
From Verif Require Import Base.Num Base.Vec C01.Syntax Gen.Lincomb C01.Carriers C01.Model C01.Laws
  C01.Proofs C01.ModelSpace.
Import ListNotations.
Local Open Scope num_scope.

Section Wrap.
Context {T : Type} {N : Num T} {F : NumField T}.
Add Field Tfield : nf_field.
Variable flg : nat -> bool * bool.
Variable bdtf : nat -> bool.
Variable icast : T -> T.

Notation sp := (SLeaf true).

(* result of a program: returns, [out] holds [spec], everything else is as before *)
Definition yields (m : store T -> outcome T) (s : store T) (out : nat) (spec : list T) : Prop :=
  exists s', m s = Ok s' /\ s' out = spec /\ forall j, j <> out -> s' j = s j.

Lemma lin_leaf (a b : T) (x y o : nat) (s : store T) :
  length (s x) = length (s y) -> length (s o) = length (s x) ->
  yields (ps_lincomb flg bdtf icast sp a (Leaf x) b (Leaf y) (Leaf o)) s o (vlin a (s x) b (s y)).
Proof.
  intros L1 L2. unfold yields, ps_lincomb. cbn [ps_map3]. unfold lincomb_leaf.
  apply lincomb_impl_correct; assumption.
Qed.

Ltac entrywise :=
  apply nth_error_ext; intro k; unfold vlin, vadd, vsub, vmul, vdiv, vopp, vscal;
  repeat (rewrite nth_error_vmap2 || rewrite nth_error_map).

Lemma vlin_same (a b : T) (u : list T) : vlin a u b u = map (fun e => (a + b) * e) u.
Proof. entrywise. destruct (nth_error u k); cbn; [f_equal; ring | reflexivity]. Qed.

(* ---- x + y, x - y (fresh output t) and their in-place forms ---- *)
Theorem add_spec (x y t : nat) (s : store T) :
  length (s x) = length (s y) -> length (s t) = length (s x) ->
  yields (w_add flg bdtf icast sp (Leaf x) (Leaf y) (Leaf t)) s t (vadd (s x) (s y)).
Proof.
  intros L1 L2. destruct (lin_leaf (of_Z 1) (of_Z 1) x y t s L1 L2) as (s' & E & Ho & Hf).
  exists s'. split; [exact E|]. split; [|exact Hf]. rewrite Ho. entrywise.
  destruct (nth_error (s x) k), (nth_error (s y) k); cbn; try reflexivity. f_equal. rewrite nf_of1. ring.
Qed.

Theorem sub_spec (x y t : nat) (s : store T) :
  length (s x) = length (s y) -> length (s t) = length (s x) ->
  yields (w_sub flg bdtf icast sp (Leaf x) (Leaf y) (Leaf t)) s t (vsub (s x) (s y)).
Proof.
  intros L1 L2. destruct (lin_leaf (of_Z 1) (of_Z (-1)) x y t s L1 L2) as (s' & E & Ho & Hf).
  exists s'. split; [exact E|]. split; [|exact Hf]. rewrite Ho. entrywise.
  destruct (nth_error (s x) k), (nth_error (s y) k); cbn; try reflexivity. f_equal.
  rewrite nf_of1, nf_ofm1. ring.
Qed.

Theorem iadd_spec (x y : nat) (s : store T) :
  length (s x) = length (s y) ->
  yields (w_iadd flg bdtf icast sp (Leaf x) (Leaf y)) s x (vadd (s x) (s y)).
Proof.
  intros L1. destruct (lin_leaf (of_Z 1) (of_Z 1) x y x s L1 eq_refl) as (s' & E & Ho & Hf).
  exists s'. split; [exact E|]. split; [|exact Hf]. rewrite Ho. entrywise.
  destruct (nth_error (s x) k), (nth_error (s y) k); cbn; try reflexivity. f_equal. rewrite nf_of1. ring.
Qed.

Theorem isub_spec (x y : nat) (s : store T) :
  length (s x) = length (s y) ->
  yields (w_isub flg bdtf icast sp (Leaf x) (Leaf y)) s x (vsub (s x) (s y)).
Proof.
  intros L1. destruct (lin_leaf (of_Z 1) (of_Z (-1)) x y x s L1 eq_refl) as (s' & E & Ho & Hf).
  exists s'. split; [exact E|]. split; [|exact Hf]. rewrite Ho. entrywise.
  destruct (nth_error (s x) k), (nth_error (s y) k); cbn; try reflexivity. f_equal.
  rewrite nf_of1, nf_ofm1. ring.
Qed.

(* ---- a * x, x *= a, x / a, -x, copy / assign ---- *)
Theorem mul_scalar_spec (c : T) (x t : nat) (s : store T) :
  length (s t) = length (s x) ->
  yields (w_mul_scalar flg bdtf icast sp (Leaf x) c (Leaf t)) s t (map (fun e => c * e) (s x)).
Proof.
  intros L2. destruct (lin_leaf c (of_Z 0) x x t s eq_refl L2) as (s' & E & Ho & Hf).
  exists s'. split; [exact E|]. split; [|exact Hf]. rewrite Ho, vlin_same.
  apply map_ext. intros e. rewrite nf_of0. ring.
Qed.

Theorem imul_scalar_spec (c : T) (x : nat) (s : store T) :
  yields (w_imul_scalar flg bdtf icast sp (Leaf x) c) s x (map (fun e => c * e) (s x)).
Proof.
  destruct (lin_leaf c (of_Z 0) x x x s eq_refl eq_refl) as (s' & E & Ho & Hf).
  exists s'. split; [exact E|]. split; [|exact Hf]. rewrite Ho, vlin_same.
  apply map_ext. intros e. rewrite nf_of0. ring.
Qed.

Theorem truediv_scalar_spec (c : T) (x t : nat) (s : store T) :
  c <> nzero -> length (s t) = length (s x) ->
  yields (w_truediv_scalar flg bdtf icast sp (Leaf x) c (Leaf t)) s t (map (fun e => e / c) (s x)).
Proof.
  intros Hc L2. destruct (lin_leaf (of_Z 1 / c) (of_Z 0) x x t s eq_refl L2) as (s' & E & Ho & Hf).
  exists s'. split; [exact E|]. split; [|exact Hf]. rewrite Ho, vlin_same.
  apply map_ext. intros e. rewrite nf_of0, nf_of1. field. exact Hc.
Qed.

Theorem neg_spec (x t : nat) (s : store T) :
  length (s t) = length (s x) ->
  yields (w_neg flg bdtf icast sp (Leaf x) (Leaf t)) s t (vopp (s x)).
Proof.
  intros L2. destruct (mul_scalar_spec (of_Z (-1)) x t s L2) as (s' & E & Ho & Hf).
  exists s'. split; [exact E|]. split; [|exact Hf]. rewrite Ho. unfold vopp.
  apply map_ext. intros e. rewrite nf_ofm1. ring.
Qed.

Theorem assign_spec (x y : nat) (s : store T) :
  length (s x) = length (s y) ->
  yields (w_assign flg bdtf icast sp (Leaf x) (Leaf y)) s x (s y).
Proof.
  intros L1. destruct (lin_leaf (of_Z 1) (of_Z 0) y y x s eq_refl L1) as (s' & E & Ho & Hf).
  exists s'. split; [exact E|]. split; [|exact Hf]. rewrite Ho, vlin_same.
  rewrite <- (map_id (s y)) at 2. apply map_ext. intros e. rewrite nf_of0, nf_of1. ring.
Qed.

Theorem copy_spec (x t : nat) (s : store T) :
  length (s t) = length (s x) ->
  yields (w_copy flg bdtf icast sp (Leaf x) (Leaf t)) s t (s x).
Proof. intros L. apply assign_spec. exact L. Qed.

(* ---- scalar broadcasting through one():  x + c  is  tmp = one(); lincomb(1, x, c, tmp, out=tmp) ---- *)
Theorem add_scalar_spec (c : T) (x t : nat) (s : store T) :
  t <> x -> length (s t) = length (s x) ->
  yields (w_add_scalar flg bdtf icast sp (Leaf x) c (Leaf t)) s t (map (fun e => e + c) (s x)).
Proof.
  intros Htx L2. unfold w_add_scalar, with_one. cbn [fill_elem].
  set (s1 := upd s t (map (fun _ => of_Z 1) (s t))).
  assert (E1 : s1 x = s x) by (unfold s1; apply upd_other; congruence).
  assert (E2 : s1 t = map (fun _ => of_Z 1) (s t)) by (unfold s1; apply upd_same).
  assert (L1' : length (s1 x) = length (s1 t)) by (rewrite E1, E2, map_length; congruence).
  destruct (lin_leaf (of_Z 1) c x t t s1 L1' (eq_sym L1')) as (s' & E & Ho & Hf).
  exists s'. split; [exact E|]. split.
  - rewrite Ho, E1, E2. entrywise.
    destruct (nth_error_both (s x) (s t) k (eq_sym L2)) as [(u & v & Eu & Ev) | (Eu & Ev)]; rewrite ?Eu, ?Ev; cbn;
      [f_equal; rewrite nf_of1; ring | reflexivity].
  - intros j Hj. rewrite (Hf j Hj). unfold s1. apply upd_other. exact Hj.
Qed.

(* c - x  is  tmp = one(); lincomb(c, tmp, out=tmp); lincomb(1, tmp, -1, x, out=tmp) *)
Theorem rsub_scalar_spec (c : T) (x t : nat) (s : store T) :
  t <> x -> length (s t) = length (s x) ->
  yields (w_rsub_scalar flg bdtf icast sp (Leaf x) c (Leaf t)) s t (map (fun e => c - e) (s x)).
Proof.
  intros Htx L2. unfold yields, w_rsub_scalar, with_one, seq, w_lincomb1. cbn [fill_elem]. cbv beta.
  set (s1 := upd s t (map (fun _ => of_Z 1) (s t))).
  assert (E1 : s1 x = s x) by (unfold s1; apply upd_other; congruence).
  assert (E2 : s1 t = map (fun _ => of_Z 1) (s t)) by (unfold s1; apply upd_same).
  destruct (lin_leaf c (of_Z 0) t t t s1 eq_refl eq_refl) as (s2 & Ea & Ho2 & Hf2).
  fold s1. rewrite Ea. cbn [bind].
  assert (E3 : s2 x = s x) by (rewrite Hf2 by congruence; exact E1).
  assert (L3 : length (s2 t) = length (s2 x)).
  { rewrite Ho2, E3, E2. unfold vlin. rewrite vmap2_length by reflexivity. rewrite map_length. exact L2. }
  destruct (lin_leaf (of_Z 1) (of_Z (-1)) t x t s2 L3 eq_refl) as (s' & E & Ho & Hf).
  exists s'. split; [exact E|]. split.
  - rewrite Ho, Ho2, E3, E2. entrywise.
    destruct (nth_error_both (s x) (s t) k (eq_sym L2)) as [(u & v & Eu & Ev) | (Eu & Ev)]; rewrite ?Eu, ?Ev; cbn;
      [f_equal; rewrite nf_of0, nf_of1, nf_ofm1; ring | reflexivity].
  - intros j Hj. rewrite (Hf j Hj), (Hf2 j Hj). unfold s1. apply upd_other. exact Hj.
Qed.

(* ---- element-wise product and quotient ---- *)
Theorem mul_spec (x y t : nat) (s : store T) :
  yields (w_mul sp (Leaf x) (Leaf y) (Leaf t)) s t (vmul (s y) (s x)).
Proof.
  unfold yields, w_mul, ps_multiply. cbn [ps_map3]. unfold multiply_leaf, multiply_impl.
  eexists. split; [reflexivity|]. split; [apply upd_same | intros j Hj; apply upd_other; exact Hj].
Qed.
Theorem truediv_spec (x y t : nat) (s : store T) :
  yields (w_truediv sp (Leaf x) (Leaf y) (Leaf t)) s t (vdiv (s x) (s y)).
Proof.
  unfold yields, w_truediv, ps_divide. cbn [ps_map3]. unfold divide_leaf, divide_impl.
  eexists. split; [reflexivity|]. split; [apply upd_same | intros j Hj; apply upd_other; exact Hj].
Qed.
End Wrap.
