(* C01/Syntax.v -- the syntax the translator of
   odl/space/npy_tensors.py:_lincomb_impl emits into Gen/Lincomb.v
   (hand-written, fixed).  Everything here is plain data. *)
From Coq Require Import ZArith List.
Import ListNotations.

(* the three array operands of _lincomb_impl *)
Inductive operand := X1 | X2 | OUT.

(* scalar expressions over the two coefficients:  a, b, a + b, -a, literals *)
Inductive sc := SA | SB | SAdd (p q : sc) | SNeg (p : sc) | SK (k : Z).

(* tests of the alias-and-scalar decision tree *)
Inductive cond :=
| CIs (p q : operand)              (* p is q  -- object identity *)
| CEq (s t : sc)                   (* s == t *)
| CNe (s t : sc)                   (* s != t *)
| CAnd (c d : cond)
| COr (c d : cond)
| CNot (c : cond).

(* statements of the tree; the leaves are calls of the three primitives that
   were bound (fallback_* or BLAS) before the tree is entered *)
Inductive stmt :=
| Scal (s : sc) (tgt : operand)                    (* scal(s, tgt_arr, size) *)
| Axpy (src tgt : operand) (s : sc)                (* axpy(src_arr, tgt_arr, size, s) *)
| Copy (src tgt : operand)                         (* copy(src_arr, tgt_arr, size) *)
| Fill (tgt : operand) (k : Z)                     (* tgt_arr[:] = k *)
| Recurse (a : sc) (x1 : operand) (b : sc) (x2 : operand) (out : operand)
                                                   (* _lincomb_impl(a, x1, b, x2, out) *)
| If (c : cond) (t e : list stmt).

(* element-wise right-hand side of the direct regime:  a * x1.data + b * x2.data *)
Inductive vexpr :=
| VV (o : operand) | VS (s : sc)
| VAdd (p q : vexpr) | VSub (p q : vexpr) | VMul (p q : vexpr) | VDiv (p q : vexpr).

(* body of the direct regime:  out.data[:] = <vexpr>, possibly under if/elif/else on the scalars *)
Inductive dstmt := DAssign (e : vexpr) | DIf (c : cond) (t f : dstmt).

(* bodies of the nested fallback_* functions: augmented assignments on the
   function's array parameters (P1 = first array parameter, P2 = second) with
   either an array parameter or the scalar parameter on the right *)
Inductive pvar := P1 | P2.
Inductive parg := PArr (v : pvar) | PScal.
Inductive aug := AugAdd | AugSub | AugMul | AugDiv.
Inductive pcond := PScalNe (k : Z) | PScalEq (k : Z).
Inductive pstmt :=
| PAug (o : aug) (t : pvar) (s : parg)             (* t o= s *)
| PAssign (t s : pvar)                             (* t[...] = s[...] *)
| PIf (c : pcond) (body : list pstmt).

(* ---- the wrapper layers (translate/space_ops.py -> Gen/SpaceOps.v) ---- *)
Inductive ufunc := UMul | UDiv | UAdd | USub.
(* programs of the LinearSpaceElement operators over space.element(), one(), space.lincomb/multiply/divide *)
Inductive eref := ESelf | EOther | ETmp.
Inductive sref := SConst (k : Z) | SOther | SNegOther | SInvOther.      (* k, other, -other, 1.0 / other *)
Inductive wstmt :=
| WNewTmp                                              (* tmp = self.space.element() *)
| WOneTmp                                              (* tmp = one() *)
| WLin1 (a : sref) (x o : eref)                        (* self.space.lincomb(a, x, out=o) *)
| WLin2 (a : sref) (x : eref) (b : sref) (y o : eref)  (* self.space.lincomb(a, x, b, y, out=o) *)
| WMul (x y o : eref)                                  (* self.space.multiply(x, y, out=o) *)
| WDiv (x y o : eref).                                 (* self.space.divide(x, y, out=o) *)

(* the binary operator overloads of LinearSpaceElement *)
Inductive opname := OAdd | OIAdd | OSub | OISub | ORSub | OMul | OIMul | OTrueDiv | OITrueDiv | ORTrueDiv.

(* what the dispatch can see of an array besides its contiguity: the type code dtype.char (as its
   character code), whether the byte order is native, and len() *)
Record dtinfo := mkdt { dt_char : Z; dt_native : bool; dt_len0 : Z }.   (* dt_len0: len(x) = length of axis 0 *)
(* how _lincomb_impl computes `size`: the number of entries x1.size, or len(x1) = the length of axis 0 *)
Inductive sizex := SzTotal | SzAxis0.
Definition size_of (e : sizex) (total len0 : Z) : Z := match e with SzTotal => total | SzAxis0 => len0 end.
Definition dt_char_in (d : dtinfo) (codes : list Z) : bool := existsb (Z.eqb (dt_char d)) codes.
(* the dtypes BLAS level 1 updates in place without conversion: NATIVE float32 'f' (102), float64 'd' (100),
   complex64 'F' (70), complex128 'D' (68) -- exactly the table _BLAS_DTYPES (pinned by the translator) *)
Definition native_blas (d : dtinfo) : bool := dt_native d && dt_char_in d [102; 100; 70; 68]%Z.

Inductive regime := Direct | Fallback | Blas.
Inductive order := OrdC | OrdF.
