(* C09/Pointwise.v -- the coordinate-wise leaves L1Norm and Huber on weighted
   list spaces: Frechet gradient (L1 away from zero entries, Huber everywhere)
   and the Huber constant 1/gamma. *)
From Coq Require Import Reals Lra Psatz List Bool Arith Lia.
From Verif Require Import Base.Num Base.Vec Base.VecR C09.Model C09.IPS C09.Proofs C09.Lists.
Import ListNotations.
Local Open Scope R_scope.

Definition Hv (g a : R) : R := @huber_val R _ g a.
Definition Hg (g a : R) : R := @huber_grad R _ g a.

(* case descriptions without divisions: 2 g H = a^2, g H' = a in the middle zone *)
Lemma Hv_cases g a : 0 < g ->
  (- g < a < g /\ 2 * g * Hv g a = a * a) \/ (g <= a /\ Hv g a = a - g / 2) \/ (a <= - g /\ Hv g a = - a - g / 2).
Proof.
  intro Hgp. unfold Hv, huber_val; numR. destruct (Rltb_spec (Rabs a) g) as [Hl|Hl].
  - left. split; [apply Rabs_def2 in Hl; lra|]. field. lra.
  - right. unfold Rabs in *. destruct (Rcase_abs a); [right|left]; split; lra.
Qed.
Lemma Hg_cases g a : 0 < g ->
  (- g < a < g /\ g * Hg g a = a) \/ (g <= a /\ Hg g a = 1) \/ (a <= - g /\ Hg g a = -1).
Proof.
  intro Hgp. unfold Hg, huber_grad; numR. destruct (Rltb_spec (Rabs a) g) as [Hl|Hl].
  - left. split; [apply Rabs_def2 in Hl; lra|]. field. lra.
  - right. unfold Rabs in *. destruct (Rcase_abs a); [right|left]; (split; [lra|field; lra]).
Qed.

Lemma Hg_lipschitz g a b : 0 < g -> g * Rabs (Hg g a - Hg g b) <= Rabs (a - b).
Proof.
  intro Hgp.
  destruct (Hg_cases g a Hgp) as [[Ha Ea]|[[Ha Ea]|[Ha Ea]]];
  destruct (Hg_cases g b Hgp) as [[Hb Eb]|[[Hb Eb]|[Hb Eb]]];
  set (p := Hg g a) in *; set (q := Hg g b) in *;
  unfold Rabs; repeat destruct Rcase_abs; nra.
Qed.

(* second-order remainder: 0 <= H(a+t) - H(a) - H'(a) t <= t^2 / (2 g) *)
Lemma Hv_remainder2 g a t : 0 < g ->
  0 <= 2 * g * (Hv g (a + t) - Hv g a - Hg g a * t) <= t * t.
Proof.
  intro Hgp.
  destruct (Hv_cases g a Hgp) as [[Ha Ea]|[[Ha Ea]|[Ha Ea]]];
  destruct (Hg_cases g a Hgp) as [[Ha' Ga]|[[Ha' Ga]|[Ha' Ga]]]; try lra;
  destruct (Hv_cases g (a + t) Hgp) as [[Hb Eb]|[[Hb Eb]|[Hb Eb]]];
  set (p := Hv g a) in *; set (q := Hv g (a + t)) in *; set (r := Hg g a) in *;
  replace (2 * g * (q - p - r * t)) with (2 * g * q - 2 * g * p - 2 * (g * r) * t) by ring;
  try rewrite Ea; try rewrite Eb; try rewrite Ga.
  all: split.
  all: try nra.
Qed.

(* ---- L1: scalar fact ---- *)
Definition sgn (a : R) : R := @nsign R _ a.
Lemma sgn_cases a : (0 < a /\ sgn a = 1) \/ (a < 0 /\ sgn a = -1) \/ (a = 0 /\ sgn a = 0).
Proof.
  unfold sgn, nsign; numR. destruct (Rltb_spec 0 a); [left; split; [assumption|reflexivity]|].
  destruct (Rltb_spec a 0); [right; left; split; [assumption|lra]|]. right; right. split; lra.
Qed.
Lemma abs_exact a t : Rabs t < Rabs a -> Rabs (a + t) - Rabs a - sgn a * t = 0.
Proof.
  intro Ht. destruct (sgn_cases a) as [[Ha ->]|[[Ha ->]|[Ha ->]]]; unfold Rabs in *;
    repeat destruct Rcase_abs; lra.
Qed.

(* ---- wdot against the all-ones vector ---- *)
Lemma wdot_ones_cons c w a u :
  wdot (c :: w) (a :: u) (vconst (length (c :: w)) 1) = c * a + wdot w u (vconst (length w) 1).
Proof. unfold vconst. cbn [length repeat]. rewrite wdot_cons. numR. ring. Qed.

(* ---- list lifts ---- *)
Lemma l1_list_exact (w x h : list R) :
  length x = length w -> length h = length w -> Forall2 (fun a t => Rabs t < Rabs a) x h ->
  wdot w (map Rabs (vadd x h)) (vconst (length w) 1) - wdot w (map Rabs x) (vconst (length w) 1)
  - wdot w (map (@nsign R Num_R) x) h = 0.
Proof.
  unfold vadd. revert x h; induction w as [|c w IH]; intros x h Hx Hh Hf.
  - rewrite !wdot_nil_l. lra.
  - destruct x as [|a x], h as [|t h]; cbn in Hx, Hh; try discriminate.
    inversion Hf as [|? ? ? ? Hat Hf']; subst.
    cbn [vmap2 map]. rewrite !wdot_ones_cons, wdot_cons.
    specialize (IH x h ltac:(congruence) ltac:(congruence) Hf').
    pose proof (abs_exact a t Hat) as Hae. unfold sgn in Hae. numR. nra.
Qed.

Lemma small_dir (w x : list R) : Forall (fun a => 0 < a) w -> length x = length w ->
  Forall (fun a => a <> 0) x ->
  exists delta, 0 < delta /\ forall h, length h = length w -> wdot w h h < delta * delta ->
    Forall2 (fun a t => Rabs t < Rabs a) x h.
Proof.
  intro Hw. revert x; induction Hw as [|c w Hc Hw IH]; intros x Hx Hnz.
  - exists 1. split; [lra|]. intros h Hh _. destruct x, h; try discriminate. constructor.
  - destruct x as [|a x]; [discriminate|]. inversion Hnz as [|? ? Ha Hnz']; subst.
    destruct (IH x ltac:(cbn in Hx; congruence) Hnz') as [d' [Hd' Hb']].
    assert (Hpa : 0 < Rabs a) by (apply Rabs_pos_lt; assumption).
    set (d1 := Rabs a * c / (1 + c)).
    assert (Hd1 : 0 < d1) by (unfold d1; apply Rdiv_lt_0_compat; nra).
    assert (Hd1sq : d1 * d1 <= c * (a * a)).
    { unfold d1. replace (Rabs a * c / (1 + c) * (Rabs a * c / (1 + c)))
        with ((Rabs a * Rabs a) * (c * c / ((1 + c) * (1 + c)))) by (field; lra).
      replace (Rabs a * Rabs a) with (a * a) by (unfold Rabs; destruct Rcase_abs; ring).
      assert (c * c / ((1 + c) * (1 + c)) <= c).
      { apply Rmult_le_reg_r with ((1 + c) * (1 + c)); [nra|].
        unfold Rdiv. rewrite Rmult_assoc, Rinv_l by nra. nra. }
      assert (0 <= a * a) by nra. nra. }
    exists (Rmin d1 d'). split; [apply Rmin_pos; assumption|].
    intros h Hh Hsm. destruct h as [|t h]; [discriminate|].
    rewrite wdot_cons in Hsm.
    pose proof (Rmin_l d1 d'). pose proof (Rmin_r d1 d').
    pose proof (wdot_self_nonneg w h Hw) as Hrest.
    assert (Hmm : Rmin d1 d' * Rmin d1 d' <= d1 * d1) by (assert (0 < Rmin d1 d') by (apply Rmin_pos; assumption); nra).
    assert (Hmm' : Rmin d1 d' * Rmin d1 d' <= d' * d') by (assert (0 < Rmin d1 d') by (apply Rmin_pos; assumption); nra).
    constructor.
    + assert (t * t < a * a) by nra.
      unfold Rabs; repeat destruct Rcase_abs; nra.
    + apply Hb'; [cbn in Hh; congruence|]. assert (0 <= c * (t * t)) by nra. lra.
Qed.

Lemma huber_list_remainder (g : R) (w x h : list R) : 0 < g -> Forall (fun a => 0 < a) w ->
  length x = length w -> length h = length w ->
  0 <= 2 * g * (wdot w (map (Hv g) (vadd x h)) (vconst (length w) 1)
                - wdot w (map (Hv g) x) (vconst (length w) 1) - wdot w (map (Hg g) x) h)
    <= wdot w h h.
Proof.
  intros Hgp Hw. unfold vadd. revert x h; induction Hw as [|c w Hc Hw IH]; intros x h Hx Hh.
  - rewrite !wdot_nil_l. lra.
  - destruct x as [|a x], h as [|t h]; cbn in Hx, Hh; try discriminate.
    cbn [vmap2 map]. rewrite !wdot_ones_cons, !wdot_cons.
    specialize (IH x h ltac:(congruence) ltac:(congruence)).
    pose proof (Hv_remainder2 g a t Hgp) as Hr. numR.
    set (A := wdot w (map (Hv g) (vmap2 Rplus x h)) (vconst (length w) 1)) in *.
    set (B := wdot w (map (Hv g) x) (vconst (length w) 1)) in *.
    set (D := wdot w (map (Hg g) x) h) in *.
    set (r := Hv g (a + t) - Hv g a - Hg g a * t) in *.
    replace (2 * g * (c * Hv g (a + t) + A - (c * Hv g a + B) - (c * (Hg g a * t) + D)))
      with (c * (2 * g * r) + 2 * g * (A - B - D)) by (unfold r; ring).
    nra.
Qed.

Lemma huber_list_lipschitz (g : R) (w x y : list R) : 0 < g -> Forall (fun a => 0 < a) w ->
  length x = length w -> length y = length w ->
  g * g * wdot w (vadd (map (Hg g) x) (vscal (-1) (map (Hg g) y))) (vadd (map (Hg g) x) (vscal (-1) (map (Hg g) y)))
  <= wdot w (vadd x (vscal (-1) y)) (vadd x (vscal (-1) y)).
Proof.
  intros Hgp Hw. unfold vadd, vscal. revert x y; induction Hw as [|c w Hc Hw IH]; intros x y Hx Hy.
  - rewrite !wdot_nil_l. lra.
  - destruct x as [|a x], y as [|b y]; cbn in Hx, Hy; try discriminate.
    cbn [vmap2 map]. rewrite !wdot_cons.
    specialize (IH x y ltac:(congruence) ltac:(congruence)).
    pose proof (Hg_lipschitz g a b Hgp) as Hl. numR.
    set (p := Hg g a) in *. set (q := Hg g b) in *.
    assert (Hsq : g * g * ((p + -1 * q) * (p + -1 * q)) <= (a + -1 * b) * (a + -1 * b)).
    { replace (p + -1 * q) with (p - q) by ring. replace (a + -1 * b) with (a - b) by ring.
      assert (0 <= g * Rabs (p - q)) by (pose proof (Rabs_pos (p - q)); nra).
      assert (g * Rabs (p - q) * (g * Rabs (p - q)) <= Rabs (a - b) * Rabs (a - b)) by nra.
      replace (Rabs (a - b) * Rabs (a - b)) with ((a - b) * (a - b)) in * by (unfold Rabs; destruct Rcase_abs; ring).
      replace (g * Rabs (p - q) * (g * Rabs (p - q))) with (g * g * ((p - q) * (p - q))) in *
        by (unfold Rabs; destruct Rcase_abs; ring).
      assumption. }
    nra.
Qed.

(* ---- the leaves on the sigma carrier ---- *)
Section SigmaLeaves.
Variable n : nat.
Variable w : Vn n.
Hypothesis wpos : Forall (fun a => 0 < a) (vl w).

Definition lift_leaf (l : Leaf (wspace sqrt (vl w)))
           (Hlen : forall x : list R, length x = n -> length (lf_grad l x) = n) : Leaf (lspace n w) :=
  @mkLeaf R (lspace n w)
    (fun x : Vn n => lf_val l (vl x))
    (fun x : Vn n => exist _ (lf_grad l (vl x)) (Hlen (vl x) (vl_length x)))
    (lf_lip l) (lf_linear l).

Lemma l1_len (x : list R) : length x = n -> length (lf_grad (leaf_l1 sqrt (vl w)) x) = n.
Proof. intro Hx. cbn. rewrite map_length. exact Hx. Qed.
Lemma huber_len g (x : list R) : length x = n -> length (lf_grad (leaf_huber sqrt (vl w) g) x) = n.
Proof. intro Hx. cbn. rewrite map_length. exact Hx. Qed.

Definition sleaf_l1 : Leaf (lspace n w) := lift_leaf (leaf_l1 sqrt (vl w)) l1_len.
Definition sleaf_huber (g : R) : Leaf (lspace n w) := lift_leaf (leaf_huber sqrt (vl w) g) (huber_len g).

Lemma norm_sq_lspace (h : Vn n) : norm (lspace n w) h * norm (lspace n w) h = wdot (vl w) (vl h) (vl h).
Proof. apply (norm_sqr _ (lspace_laws n w wpos)). Qed.

(* L1Norm is Frechet differentiable with gradient sign(x) wherever no entry of x vanishes *)
Lemma sleaf_l1_sound (x : Vn n) : Forall (fun a => a <> 0) (vl x) -> leaf_sound sleaf_l1 x.
Proof.
  intro Hnz. unfold leaf_sound, is_grad. intros eps He.
  destruct (small_dir (vl w) (vl x) wpos ltac:(rewrite !vl_length; reflexivity) Hnz) as [d [Hd Hb]].
  exists d. split; [assumption|]. intros h Hh.
  pose proof (norm_nonneg (lspace n w) h) as Hn0.
  assert (Hsm : wdot (vl w) (vl h) (vl h) < d * d) by (rewrite <- norm_sq_lspace; nra).
  specialize (Hb (vl h) ltac:(rewrite !vl_length; reflexivity) Hsm).
  pose proof (l1_list_exact (vl w) (vl x) (vl h) ltac:(rewrite !vl_length; reflexivity)
                ltac:(rewrite !vl_length; reflexivity) Hb) as E.
  cbn [sleaf_l1 lift_leaf lf_val lf_grad leaf_l1 lspace sadd sinner ladd vl proj1_sig] in *.
  unfold ones. numR.
  rewrite E, Rabs_R0. nra.
Qed.

(* Huber is Frechet differentiable everywhere *)
Lemma sleaf_huber_sound (g : R) (x : Vn n) : 0 < g -> leaf_sound (sleaf_huber g) x.
Proof.
  intro Hgp. unfold leaf_sound, is_grad. intros eps He.
  exists (2 * g * eps). split; [nra|]. intros h Hh.
  pose proof (norm_nonneg (lspace n w) h) as Hn0.
  pose proof (huber_list_remainder g (vl w) (vl x) (vl h) Hgp wpos
                ltac:(rewrite !vl_length; reflexivity) ltac:(rewrite !vl_length; reflexivity)) as Hr.
  rewrite <- norm_sq_lspace in Hr.
  cbn [sleaf_huber lift_leaf lf_val lf_grad leaf_huber lspace sadd sinner ladd vl proj1_sig] in *.
  unfold ones.
  change (map (@huber_val R Num_R g)) with (map (Hv g)). change (map (@huber_grad R Num_R g)) with (map (Hg g)).
  numR.
  set (rem := wdot (vl w) (map (Hv g) (vadd (vl x) (vl h))) (vconst (length (vl w)) 1)
              - wdot (vl w) (map (Hv g) (vl x)) (vconst (length (vl w)) 1)
              - wdot (vl w) (map (Hg g) (vl x)) (vl h)) in *.
  assert (Hrem0 : 0 <= rem) by nra.
  rewrite Rabs_pos_eq by assumption.
  set (k := norm (lspace n w) h) in *.
  assert (2 * g * rem <= 2 * g * (eps * k)) by nra.
  nra.
Qed.

(* and its grad_lipschitz = 1/gamma is a valid bound *)
Lemma sleaf_huber_lip (g : R) : 0 < g ->
  forall c, lf_lip (sleaf_huber g) = LFin c -> lip_bound (lspace n w) (lf_grad (sleaf_huber g)) c.
Proof.
  intros Hgp c Hc. cbn in Hc; numR. injection Hc as <-.
  intros x y. pose proof (lspace_laws n w wpos) as L.
  pose proof (huber_list_lipschitz g (vl w) (vl x) (vl y) Hgp wpos
                ltac:(rewrite !vl_length; reflexivity) ltac:(rewrite !vl_length; reflexivity)) as Hl.
  set (G := ssub (lf_grad (sleaf_huber g) x) (lf_grad (sleaf_huber g) y)).
  set (D := @ssub R _ (lspace n w) x y).
  assert (EG : wdot (vl w) (vl G) (vl G) =
               wdot (vl w) (vadd (map (Hg g) (vl x)) (vscal (-1) (map (Hg g) (vl y))))
                           (vadd (map (Hg g) (vl x)) (vscal (-1) (map (Hg g) (vl y))))).
  { unfold G, ssub. cbn. numR. replace (- (1)) with (-1) by lra. reflexivity. }
  assert (ED : wdot (vl w) (vl D) (vl D) =
               wdot (vl w) (vadd (vl x) (vscal (-1) (vl y))) (vadd (vl x) (vscal (-1) (vl y)))).
  { unfold D, ssub. cbn. numR. replace (- (1)) with (-1) by lra. reflexivity. }
  rewrite <- EG, <- ED, <- !norm_sq_lspace in Hl.
  pose proof (norm_nonneg (lspace n w) G). pose proof (norm_nonneg (lspace n w) D).
  apply Rmult_le_reg_l with g; [assumption|].
  replace (g * (1 / g * norm (lspace n w) D)) with (norm (lspace n w) D) by (field; lra).
  apply le_of_sqr; [assumption|]. nra.
Qed.
End SigmaLeaves.
