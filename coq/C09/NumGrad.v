(* C09/NumGrad.v -- what NumericalGradient (derivatives.py) computes on a
   weighted space: for L2NormSquared the central difference is EXACTLY
   w_i * (grad f(x))_i, i.e. the plain partial derivative, not the gradient in
   the space's inner product (open finding numericalgradient-weighted-space). *)
From Coq Require Import Reals Lra Psatz List Bool Arith Lia.
From Verif Require Import Base.Num Base.Vec Base.VecR C09.Model C09.IPS C09.Proofs C09.Lists.
Import ListNotations.
Local Open Scope R_scope.

Lemma vsub_zero_r (x : list R) : vsub x (vconst (length x) 0) = x.
Proof. unfold vsub, vconst. induction x as [|a x IH]; cbn [length repeat vmap2]; [reflexivity|]. rewrite IH. numR. f_equal. ring. Qed.

Lemma wdot_step_add (n : nat) : forall (w x : list R) (i : nat) (s : R),
  length w = n -> length x = n -> (i < n)%nat ->
  wdot w (vadd x (unit_step n i s)) (vadd x (unit_step n i s))
  = wdot w x x + 2 * s * (nth i w 0 * nth i x 0) + s * s * nth i w 0.
Proof.
  induction n as [|n IH]; intros w x i s Hw Hx Hi; [lia|].
  destruct w as [|c w], x as [|a x]; cbn in Hw, Hx; try discriminate.
  destruct i as [|i]; cbn [unit_step nth]; unfold vadd; cbn [vmap2]; rewrite !wdot_cons.
  - change (vmap2 nadd x (vconst n nzero)) with (vadd x (vconst n 0)).
    assert (E : vadd x (vconst n 0) = x) by (replace n with (length x) by congruence; apply vadd_zero_r).
    rewrite E. numR. ring.
  - change (vmap2 nadd x (unit_step n i s)) with (vadd x (unit_step n i s)).
    rewrite (IH w x i s) by (try congruence; lia). numR. ring.
Qed.
Lemma wdot_step_sub (n : nat) : forall (w x : list R) (i : nat) (s : R),
  length w = n -> length x = n -> (i < n)%nat ->
  wdot w (vsub x (unit_step n i s)) (vsub x (unit_step n i s))
  = wdot w x x - 2 * s * (nth i w 0 * nth i x 0) + s * s * nth i w 0.
Proof.
  induction n as [|n IH]; intros w x i s Hw Hx Hi; [lia|].
  destruct w as [|c w], x as [|a x]; cbn in Hw, Hx; try discriminate.
  destruct i as [|i]; cbn [unit_step nth]; unfold vsub; cbn [vmap2]; rewrite !wdot_cons.
  - change (vmap2 nsub x (vconst n nzero)) with (vsub x (vconst n 0)).
    assert (E : vsub x (vconst n 0) = x) by (replace n with (length x) by congruence; apply vsub_zero_r).
    rewrite E. numR. ring.
  - change (vmap2 nsub x (unit_step n i s)) with (vsub x (unit_step n i s)).
    rewrite (IH w x i s) by (try congruence; lia). numR. ring.
Qed.

Lemma nth_vscal (a : R) (x : list R) (i : nat) : nth i (vscal a x) 0 = a * nth i x 0.
Proof.
  unfold vscal. revert i; induction x as [|b x IH]; intros [|i]; cbn [map nth]; numR; try lra. apply IH.
Qed.

(* central differences of L2NormSquared: entry i is w_i * (2 x_i), exactly, for every step *)
Lemma numgrad_central_l2sq (w x : list R) (h : R) (i : nat) :
  length x = length w -> (i < length w)%nat -> h <> 0 ->
  nth i (numgrad sqrt w (FLeaf (leaf_l2sq (wspace sqrt w))) NGCentral h x) 0
  = nth i w 0 * nth i (gradient (FLeaf (leaf_l2sq (wspace sqrt w))) x) 0.
Proof.
  intros Hx Hi Hh. unfold numgrad.
  set (F := fun i0 : nat => _).
  rewrite (nth_indep _ 0 (F 0%nat)) by (rewrite map_length, seq_length; exact Hi).
  rewrite map_nth, seq_nth by assumption. cbn [plus]. unfold F.
  cbn [value gradient leaf_l2sq lf_val lf_grad wspace sinner sscal]. numR.
  rewrite (wdot_step_add (length w)), (wdot_step_sub (length w)) by (try reflexivity; assumption).
  rewrite nth_vscal. field. assumption.
Qed.

(* FULL STATEMENT (the property for NumericalGradient): on every weighted list space
     numgrad ... NGCentral h x = gradient ... x      (for the quadratic L2NormSquared, exactly)
   is FALSE of the faithful model as soon as a weight differs from 1: *)
Lemma numgrad_weighted_refuted :
  exists (w x : list R) (h : R), Forall (fun a => 0 < a) w /\ length x = length w /\ h <> 0 /\
    numgrad sqrt w (FLeaf (leaf_l2sq (wspace sqrt w))) NGCentral h x
    <> gradient (FLeaf (leaf_l2sq (wspace sqrt w))) x.
Proof.
  exists [2], [1], 1. repeat split; try (constructor; [lra|constructor]); try lra.
  intro E. apply (f_equal (fun l => nth 0 l 0)) in E.
  rewrite numgrad_central_l2sq in E by (cbn; try lia; lra).
  cbn in E. numR. lra.
Qed.

(* partial: with unit weights (rn(n) without weighting) it is the gradient, entry by entry *)
Lemma numgrad_unweighted_partial (w x : list R) (h : R) (i : nat) :
  Forall (fun a => a = 1) w -> length x = length w -> (i < length w)%nat -> h <> 0 ->
  nth i (numgrad sqrt w (FLeaf (leaf_l2sq (wspace sqrt w))) NGCentral h x) 0
  = nth i (gradient (FLeaf (leaf_l2sq (wspace sqrt w))) x) 0.
Proof.
  intros Hw Hx Hi Hh. rewrite numgrad_central_l2sq by assumption.
  assert (E : nth i w 0 = 1).
  { rewrite Forall_forall in Hw. apply Hw. apply nth_In. exact Hi. }
  rewrite E. ring.
Qed.

(* the repaired variant (entries divided by the weights) IS the gradient, for all positive weights *)
Lemma nth_vdiv (a b : list R) (i : nat) : (i < length a)%nat -> (i < length b)%nat ->
  nth i (vdiv a b) 0 = nth i a 0 / nth i b 0.
Proof.
  unfold vdiv. revert b i; induction a as [|p a IH]; intros [|q b] [|i] Ha Hb; cbn in Ha, Hb; try lia;
    cbn [vmap2 nth]; numR; [reflexivity|]. apply IH; lia.
Qed.
Lemma numgrad_length (w : list R) (e : Rexpr (wspace sqrt w)) m h x : length (numgrad sqrt w e m h x) = length w.
Proof. unfold numgrad. rewrite map_length, seq_length. reflexivity. Qed.
Lemma numgrad_repaired (w x : list R) (h : R) (i : nat) :
  Forall (fun a => 0 < a) w -> length x = length w -> (i < length w)%nat -> h <> 0 ->
  nth i (numgrad_v sqrt true w (FLeaf (leaf_l2sq (wspace sqrt w))) NGCentral h x) 0
  = nth i (gradient (FLeaf (leaf_l2sq (wspace sqrt w))) x) 0.
Proof.
  intros Hw Hx Hi Hh. unfold numgrad_v.
  rewrite nth_vdiv by (try rewrite numgrad_length; assumption).
  rewrite numgrad_central_l2sq by assumption.
  assert (Hp : 0 < nth i w 0) by (rewrite Forall_forall in Hw; apply Hw, nth_In, Hi).
  field. lra.
Qed.
