(* C09/Moreau.v -- MoreauEnvelope: if p = f.proximal(sigma) really returns the
   minimiser of f(y) + |x-y|^2/(2 sigma) and is non-expansive (true of every
   proximal operator of a convex f; C07's subject), then the gradient the code
   builds, (x - p(x))/sigma, is the Frechet gradient of the envelope. *)
From Coq Require Import Reals Lra Psatz List Bool.
From Verif Require Import Base.Num C09.Model C09.IPS C09.Proofs.
Local Open Scope R_scope.

Section Moreau.
Variable S : RSpace.
Hypothesis L : SpaceLaws S.
Variable F : car S -> R.
Variable p : car S -> car S.
Variable sigma : R.
Hypothesis sigma_pos : 0 < sigma.
Hypothesis p_min : forall x y,
  F (p x) + / (2 * sigma) * sinner S (ssub x (p x)) (ssub x (p x))
  <= F y + / (2 * sigma) * sinner S (ssub x y) (ssub x y).
Hypothesis p_nonexp : forall x y, norm S (ssub (p x) (p y)) <= norm S (ssub x y).

Let env (x : car S) : R := F (p x) + / (2 * sigma) * sinner S (ssub x (p x)) (ssub x (p x)).

(* |x + h - q|^2 = |x - q|^2 + 2 <x - q, h> + |h|^2 *)
Lemma shift_sq (x h q : car S) :
  sinner S (ssub (sadd S x h) q) (ssub (sadd S x h) q)
  = sinner S (ssub x q) (ssub x q) + 2 * sinner S (ssub x q) h + sinner S h h.
Proof.
  rewrite (add_sub_swap S L), (inner_add_l S L), !(inner_add_r S L), (inner_sym S L h (ssub x q)). ring.
Qed.

Lemma moreau_remainder (x h : car S) :
  Rabs (env (sadd S x h) - env x - sinner S (sscal S (/ sigma) (ssub x (p x))) h)
  <= / (2 * sigma) * (norm S h * norm S h).
Proof.
  set (q := p (sadd S x h)).
  assert (Hk : 0 < / (2 * sigma)) by (apply Rinv_0_lt_compat; lra).
  assert (Hi2 : / sigma = 2 * / (2 * sigma)) by (field; lra).
  rewrite (inner_scal_l S L), (norm_sqr S L), Hi2.
  pose proof (p_min (sadd S x h) (p x)) as Hup. fold q in Hup.
  rewrite (shift_sq x h (p x)), (shift_sq x h q) in Hup.
  pose proof (p_min x q) as Hlo.
  assert (Esplit : sinner S (ssub x q) h = sinner S (ssub x (p x)) h + sinner S (ssub (p x) q) h).
  { rewrite <- (inner_add_l S L). f_equal. apply (sub_split S L). }
  pose proof (cauchy_schwarz S L (ssub (p x) q) h) as Hcs.
  pose proof (p_nonexp x (sadd S x h)) as Hne. fold q in Hne.
  assert (Ehh : norm S (ssub x (sadd S x h)) = norm S h).
  { rewrite (norm_sub_sym S L), (add_cancel_mid S L). reflexivity. }
  rewrite Ehh in Hne.
  pose proof (norm_nonneg S h) as Hnh. pose proof (norm_nonneg S (ssub (p x) q)) as Hnq.
  pose proof (norm_sqr S L h) as Hsq.
  assert (Hpq : Rabs (sinner S (ssub (p x) q) h) <= sinner S h h) by (rewrite <- Hsq; nra).
  unfold env. fold q. rewrite (shift_sq x h q), Esplit.
  rewrite Esplit in Hup.
  set (A := sinner S (ssub x (p x)) (ssub x (p x))) in *.
  set (B := sinner S (ssub x q) (ssub x q)) in *.
  set (c := sinner S (ssub x (p x)) h) in *.
  set (e := sinner S (ssub (p x) q) h) in *.
  set (hh := sinner S h h) in *.
  set (k := / (2 * sigma)) in *.
  assert (He : - hh <= e <= hh) by (unfold Rabs in Hpq; destruct (Rcase_abs e); lra).
  assert (Hke1 : k * e <= k * hh) by (apply Rmult_le_compat_l; lra).
  assert (Hke2 : k * (- hh) <= k * e) by (apply Rmult_le_compat_l; lra).
  apply Rabs_le. split; lra.
Qed.

(* the leaf built by Model.leaf_moreau is sound everywhere *)
Lemma leaf_moreau_sound (x : car S) : leaf_sound (leaf_moreau S F p sigma) x.
Proof.
  unfold leaf_sound, is_grad. intros eps He.
  exists (2 * sigma * eps). split; [nra|]. intros h Hh.
  assert (Eg : lf_grad (leaf_moreau S F p sigma) x = sscal S (/ sigma) (ssub x (p x))).
  { cbn [leaf_moreau lf_grad]; numR. rewrite (ssub_def S x (p x)), (scal_add_r S L), !(scal_scal S L).
    f_equal; f_equal; field; lra. }
  assert (Ev : forall y, lf_val (leaf_moreau S F p sigma) y = env y).
  { intro y. cbn [leaf_moreau lf_val]; numR. unfold env. f_equal. f_equal. field. lra. }
  rewrite Eg, !Ev.
  eapply Rle_trans; [apply moreau_remainder|].
  pose proof (norm_nonneg S h) as Hn.
  assert (Hk : 0 < / (2 * sigma)) by (apply Rinv_0_lt_compat; lra).
  assert (/ (2 * sigma) * norm S h <= eps).
  { apply Rmult_le_reg_l with (2 * sigma); [lra|].
    rewrite <- Rmult_assoc, Rinv_r by lra. lra. }
  nra.
Qed.
End Moreau.

(* Non-vacuity / instance: f = L2NormSquared, prox_sigma(x) = x / (1 + 2 sigma)
   (proximal_l2_squared) satisfies both premises in every space. *)
Section MoreauL2sq.
Variable S : RSpace.
Hypothesis L : SpaceLaws S.
Variable sigma : R.
Hypothesis sigma_pos : 0 < sigma.

Definition p_l2sq (x : car S) : car S := sscal S (/ (1 + 2 * sigma)) x.

Lemma inner_sub_sub (a b : car S) :
  sinner S (ssub a b) (ssub a b) = sinner S a a - 2 * sinner S a b + sinner S b b.
Proof. rewrite (inner_sub_l S L), !(inner_sub_r S L), (inner_sym S L b a). ring. Qed.

Lemma p_l2sq_min (x y : car S) :
  sinner S (p_l2sq x) (p_l2sq x) + / (2 * sigma) * sinner S (ssub x (p_l2sq x)) (ssub x (p_l2sq x))
  <= sinner S y y + / (2 * sigma) * sinner S (ssub x y) (ssub x y).
Proof.
  unfold p_l2sq. set (c := / (1 + 2 * sigma)). set (k := / (2 * sigma)).
  pose proof (inner_nonneg S L (ssub y (sscal S c x))) as Hpos.
  rewrite inner_sub_sub in Hpos. rewrite !inner_sub_sub.
  rewrite !(inner_scal_l S L), !(inner_scal_r S L) in *.
  set (xx := sinner S x x) in *. set (yy := sinner S y y) in *. set (xy := sinner S x y) in *.
  rewrite (inner_sym S L y x) in Hpos. fold xy in Hpos.
  assert (Hk : 0 < k) by (apply Rinv_0_lt_compat; lra).
  assert (E : yy + k * (xx - 2 * xy + yy) - (c * (c * xx) + k * (xx - 2 * (c * xx) + c * (c * xx)))
              = (1 + k) * (yy - 2 * (c * xy) + c * (c * xx))).
  { unfold c, k. field. split; lra. }
  assert (0 <= (1 + k) * (yy - 2 * (c * xy) + c * (c * xx))) by (apply Rmult_le_pos; lra).
  lra.
Qed.

Lemma p_l2sq_nonexp (x y : car S) : norm S (ssub (p_l2sq x) (p_l2sq y)) <= norm S (ssub x y).
Proof.
  unfold p_l2sq. rewrite (scal_sub S L), (norm_scal S L).
  assert (Hc : 0 < / (1 + 2 * sigma) <= 1).
  { split; [apply Rinv_0_lt_compat; lra|]. rewrite <- Rinv_1 at 2. apply Rinv_le_contravar; lra. }
  rewrite Rabs_pos_eq by lra. pose proof (norm_nonneg S (ssub x y)). nra.
Qed.

(* MoreauEnvelope(L2NormSquared, sigma).gradient is the gradient of the envelope, everywhere *)
Lemma moreau_l2sq_sound (x : car S) :
  leaf_sound (leaf_moreau S (fun y => sinner S y y) p_l2sq sigma) x.
Proof. apply (leaf_moreau_sound S L _ _ sigma sigma_pos p_l2sq_min p_l2sq_nonexp). Qed.
End MoreauL2sq.
