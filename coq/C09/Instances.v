(* C09/Instances.v -- spaces satisfying [SpaceLaws] (so that no theorem of
   Props.v is vacuous). *)
From Coq Require Import Reals Lra Psatz List Bool.
From Verif Require Import Base.Num C09.Model C09.IPS C09.Proofs.
Local Open Scope R_scope.

(* the one-dimensional space rn(1, weighting=w) *)
Definition R1 (w : R) : RSpace :=
  {| car := R; sadd := Rplus; sscal := Rmult; szero := 0;
     sinner := fun x y => w * x * y; snorm := fun x => sqrt (w * x * x); smul := Rmult |}.

Lemma R1_laws (w : R) : 0 < w -> SpaceLaws (R1 w).
Proof.
  intro Hw. constructor; cbn; intros; try ring.
  - nra.
  - exists (/ w). split; [apply Rlt_le, Rinv_0_lt_compat; assumption|].
    intros x y. replace (/ w * (w * x * x) * (w * y * y)) with (w * (x * y) * (x * y)) by (field; lra). lra.
Qed.

(* The former refutation witness (finding quadraticperturb-linear-flag-constant,
   repaired in /repo aef4c15): it is no longer flagged linear. *)
Definition qp_witness : Rexpr (R1 1) :=
  FQuadPert (FLeaf (leaf_const (R1 1) 0)) 0 None 1.
Lemma qp_witness_not_linear : is_linear qp_witness = false.
Proof.
  cbn; numR. destruct (Reqb_spec 0 0) as [_|Hn]; [|exfalso; apply Hn; reflexivity].
  destruct (Reqb_spec 1 0) as [E|_]; [lra|reflexivity].
Qed.

(* a tree using every constructor that is smooth at every point of R1 w *)
Definition demo_tree (w : R) : Rexpr (R1 w) :=
  let S := R1 w in
  let q := FLeaf (leaf_l2sq S) in
  FSum (FLeftScal 3 (FRightScal q 2))
   (FSum (FRightVec q 5)
    (FSum (FTrans q 1)
     (FSum (FComp q (op_shift (op_square S) 7))
      (FSum (FQuadPert q 2 (Some 4) 1)
       (FSum (FProd q (FLeaf (leaf_lin S 2 1)))
        (FSum (FQuot q (FSum q (FLeaf (leaf_const S 1))))
              (FBregman q 1 2))))))).

Lemma demo_tree_ok (w : R) : 0 < w ->
  spaces_ok (demo_tree w) /\ (forall x, smooth_at (demo_tree w) x) /\ lip_leaves_ok (demo_tree w).
Proof.
  intro Hw. pose proof (R1_laws w Hw) as L.
  split; [|split].
  - cbn. tauto.
  - intro x. cbn [demo_tree smooth_at].
    repeat split; try apply (leaf_l2sq_sound _ L); try apply (leaf_lin_sound _ L);
      try apply (leaf_const_sound _ L).
    + apply (op_shift_sound _ _ L), (op_square_sound _ L).
    + cbn; numR. nra.
  - cbn [demo_tree lip_leaves_ok].
    repeat split; try apply (leaf_l2sq_lip _ L); try apply (leaf_const_lip _ L);
      cbn; intros; discriminate.
Qed.
