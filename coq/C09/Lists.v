(* C09/Lists.v -- the spaces the correspondence executes ARE instances of
   [SpaceLaws]: lists of a fixed length n with one positive weight per entry
   (rn with no/constant/array weighting, uniform_discr, flattened power and
   product spaces).  The carrier is {l : list R | length l = n}; every
   operation is, by definition, the operation of [wspace sqrt w] (the term the
   shards run at Q) applied to the underlying lists. *)
From Coq Require Import Reals Lra Psatz List Bool Arith Lia Eqdep_dec.
From Verif Require Import Base.Num Base.Vec Base.VecR C09.Model C09.IPS C09.Proofs.
Import ListNotations.
Local Open Scope R_scope.

Definition Vn (n : nat) : Type := { l : list R | length l = n }.
Definition vl {n} (x : Vn n) : list R := proj1_sig x.

Lemma Vn_eq {n} (a b : Vn n) : vl a = vl b -> a = b.
Proof.
  destruct a as [a Ha], b as [b Hb]; cbn. intro E. subst b. f_equal.
  apply UIP_dec. apply Nat.eq_dec.
Qed.
Lemma vl_length {n} (x : Vn n) : length (vl x) = n.
Proof. exact (proj2_sig x). Qed.

(* ---- length bookkeeping ---- *)
Lemma vmap2_len (f : R -> R -> R) (x y : list R) n :
  length x = n -> length y = n -> length (vmap2 f x y) = n.
Proof. intros Hx Hy. rewrite vmap2_length; congruence. Qed.
Lemma vscal_len (a : R) (x : list R) n : length x = n -> length (vscal a x) = n.
Proof. intro Hx. unfold vscal. rewrite map_length. exact Hx. Qed.
Lemma vconst_len (n : nat) (c : R) : length (vconst n c) = n.
Proof. apply repeat_length. Qed.

Section ListSpace.
Variable n : nat.
Variable w : Vn n.
Hypothesis wpos : Forall (fun a => 0 < a) (vl w).

Definition ladd (x y : Vn n) : Vn n :=
  exist _ (vadd (vl x) (vl y)) (vmap2_len _ _ _ n (vl_length x) (vl_length y)).
Definition lscal (a : R) (x : Vn n) : Vn n :=
  exist _ (vscal a (vl x)) (vscal_len a _ n (vl_length x)).
Definition lzero : Vn n := exist _ (vconst n 0) (vconst_len n 0).
Definition lmul (x y : Vn n) : Vn n :=
  exist _ (vmul (vl x) (vl y)) (vmap2_len _ _ _ n (vl_length x) (vl_length y)).

(* the weighted list space over the sigma carrier *)
Definition lspace : RSpace :=
  {| car := Vn n; sadd := ladd; sscal := lscal; szero := lzero;
     sinner := fun x y => wdot (vl w) (vl x) (vl y);
     snorm := fun x => sqrt (wdot (vl w) (vl x) (vl x));
     smul := lmul |}.

(* every operation is literally the [wspace sqrt (vl w)] operation on the
   underlying lists (the term executed by the shards, at R) *)
Lemma lspace_is_wspace :
  (forall x y, vl (sadd lspace x y) = sadd (wspace sqrt (vl w)) (vl x) (vl y)) /\
  (forall a x, vl (sscal lspace a x) = sscal (wspace sqrt (vl w)) a (vl x)) /\
  (forall x y, vl (smul lspace x y) = smul (wspace sqrt (vl w)) (vl x) (vl y)) /\
  (forall x y, sinner lspace x y = sinner (wspace sqrt (vl w)) (vl x) (vl y)) /\
  (forall x, snorm lspace x = snorm (wspace sqrt (vl w)) (vl x)) /\
  vl (szero lspace) = szero (wspace sqrt (vl w)).
Proof.
  repeat split; try reflexivity. cbn. rewrite (vl_length w). reflexivity.
Qed.
End ListSpace.

(* ---- list identities, by simultaneous induction ---- *)
Ltac list_ind3 :=
  let go := (intros; cbn in *; try discriminate; try reflexivity) in
  go.

Lemma vmap2_comm (f : R -> R -> R) (Hf : forall a b, f a b = f b a) (x y : list R) :
  vmap2 f x y = vmap2 f y x.
Proof. revert y; induction x as [|a x IH]; intros [|b y]; cbn [vmap2]; try reflexivity. rewrite Hf, IH. reflexivity. Qed.

Lemma vadd_assoc (x y z : list R) : vadd (vadd x y) z = vadd x (vadd y z).
Proof.
  unfold vadd. revert y z; induction x as [|a x IH]; intros [|b y] [|c z]; cbn [vmap2]; try reflexivity.
  rewrite IH. numR. f_equal. ring.
Qed.
Lemma vadd_zero_r (x : list R) : vadd x (vconst (length x) 0) = x.
Proof. unfold vadd, vconst. induction x as [|a x IH]; cbn [length repeat vmap2]; [reflexivity|]. rewrite IH. numR. f_equal. ring. Qed.
Lemma vscal_one (x : list R) : vscal 1 x = x.
Proof. unfold vscal. induction x as [|a x IH]; cbn [map]; [reflexivity|]. rewrite IH. numR. f_equal. ring. Qed.
Lemma vscal_zero (x : list R) : vscal 0 x = vconst (length x) 0.
Proof. unfold vscal, vconst. induction x as [|a x IH]; cbn [length repeat map]; [reflexivity|]. rewrite IH. numR. f_equal. ring. Qed.
Lemma vscal_vscal (a b : R) (x : list R) : vscal a (vscal b x) = vscal (a * b) x.
Proof. unfold vscal. rewrite map_map. apply map_ext. intro c. numR. ring. Qed.
Lemma vscal_vadd (a : R) (x y : list R) : vscal a (vadd x y) = vadd (vscal a x) (vscal a y).
Proof.
  unfold vadd, vscal. revert y; induction x as [|b x IH]; intros [|c y]; cbn [vmap2 map]; try reflexivity.
  rewrite IH. numR. f_equal. ring.
Qed.
Lemma vscal_plus (a b : R) (x : list R) : vscal (a + b) x = vadd (vscal a x) (vscal b x).
Proof.
  unfold vadd, vscal. induction x as [|c x IH]; cbn [vmap2 map]; [reflexivity|]. rewrite IH. numR. f_equal. ring.
Qed.
Lemma vmul_vadd (v x y : list R) : length x = length y -> vmul v (vadd x y) = vadd (vmul v x) (vmul v y).
Proof.
  unfold vadd, vmul. revert x y; induction v as [|a v IH]; intros [|b x] [|c y] Hl; cbn [vmap2]; cbn in Hl;
    try reflexivity; try discriminate.
  rewrite IH by congruence. numR. f_equal. ring.
Qed.
Lemma vmul_vscal (v : list R) (a : R) (x : list R) : vmul v (vscal a x) = vscal a (vmul v x).
Proof.
  unfold vmul, vscal. revert x; induction v as [|b v IH]; intros [|c x]; cbn [vmap2 map]; try reflexivity.
  rewrite IH. numR. f_equal. ring.
Qed.

Lemma wdot_nil_l (x y : list R) : wdot [] x y = 0.
Proof. reflexivity. Qed.
Lemma wdot_nil_m (w y : list R) : wdot w [] y = 0.
Proof. destruct w; reflexivity. Qed.
Lemma wdot_nil_r (w x : list R) : wdot w x [] = 0.
Proof. destruct w, x; reflexivity. Qed.

Lemma wdot_vadd_l (w x y z : list R) : length x = length y ->
  wdot w (vadd x y) z = wdot w x z + wdot w y z.
Proof.
  unfold vadd. revert x y z; induction w as [|c w IH]; intros x y z Hl.
  - rewrite !wdot_nil_l. lra.
  - destruct x as [|a x], y as [|b y]; cbn in Hl; try discriminate.
    + cbn [vmap2]. rewrite !wdot_nil_m. lra.
    + destruct z as [|d z]; [rewrite !wdot_nil_r; lra|].
      cbn [vmap2]. rewrite !wdot_cons, IH by congruence. numR. ring.
Qed.
Lemma wdot_vscal_l (w : list R) (a : R) (x y : list R) :
  wdot w (vscal a x) y = a * wdot w x y.
Proof.
  unfold vscal. revert x y; induction w as [|c w IH]; intros x y.
  - rewrite !wdot_nil_l. lra.
  - destruct x as [|b x]; [cbn [map]; rewrite !wdot_nil_m; lra|].
    destruct y as [|d y]; [rewrite !wdot_nil_r; lra|].
    cbn [map]. rewrite !wdot_cons, IH. numR. ring.
Qed.
Lemma wdot_self_nonneg (w x : list R) : Forall (fun a => 0 < a) w -> 0 <= wdot w x x.
Proof.
  intro Hw. revert x; induction Hw as [|c w Hc Hw IH]; intros x.
  - rewrite wdot_nil_l. lra.
  - destruct x as [|a x]; [rewrite wdot_nil_m; lra|].
    rewrite wdot_cons. specialize (IH x). nra.
Qed.
Lemma wdot_vmul_adj (w v x y : list R) : length x = length y ->
  wdot w (vmul v x) y = wdot w x (vmul v y).
Proof.
  unfold vmul. revert v x y; induction w as [|c w IH]; intros v x y Hl.
  - rewrite !wdot_nil_l. reflexivity.
  - destruct x as [|a x], y as [|d y]; cbn in Hl; try discriminate.
    + destruct v; cbn [vmap2]; rewrite ?wdot_nil_m, ?wdot_nil_r; reflexivity.
    + destruct v as [|b v]; [cbn [vmap2]; rewrite wdot_nil_m, wdot_nil_r; reflexivity|].
      cbn [vmap2]. rewrite !wdot_cons, IH by congruence. numR. ring.
Qed.

(* sum of reciprocal weights: the constant of the multiplication bound *)
Fixpoint rsum (w : list R) : R := match w with [] => 0 | a :: w' => / a + rsum w' end.
Lemma rsum_nonneg (w : list R) : Forall (fun a => 0 < a) w -> 0 <= rsum w.
Proof. induction 1 as [|a w Ha _ IH]; cbn; [lra|]. pose proof (Rinv_0_lt_compat a Ha). lra. Qed.

Lemma wdot_vmul_bound (w x y : list R) : Forall (fun a => 0 < a) w ->
  wdot w (vmul x y) (vmul x y) <= rsum w * wdot w x x * wdot w y y.
Proof.
  unfold vmul. intro Hw. revert x y; induction Hw as [|c w Hc Hw IH]; intros x y.
  - rewrite !wdot_nil_l. cbn. lra.
  - destruct x as [|a x]; [cbn [vmap2]; rewrite !wdot_nil_m; lra|].
    destruct y as [|b y]; [cbn [vmap2]; rewrite !wdot_nil_m; lra|].
    cbn [vmap2]. rewrite !wdot_cons. cbn [rsum]. numR.
    specialize (IH x y).
    pose proof (wdot_self_nonneg w x Hw) as HX. pose proof (wdot_self_nonneg w y Hw) as HY.
    pose proof (rsum_nonneg w Hw) as HC. pose proof (Rinv_0_lt_compat c Hc) as Hi.
    set (X := wdot w x x) in *. set (Y := wdot w y y) in *. set (Cw := rsum w) in *.
    set (Z := wdot w (vmap2 nmul x y) (vmap2 nmul x y)) in *.
    assert (E : (/ c + Cw) * (c * (a * a) + X) * (c * (b * b) + Y)
                = c * (a * b * (a * b)) + Cw * X * Y
                  + (/ c * (c * (a * a)) * Y + / c * X * (c * (b * b)) + / c * X * Y
                     + Cw * (c * (a * a)) * (c * (b * b)) + Cw * (c * (a * a)) * Y + Cw * X * (c * (b * b)))).
    { field. lra. }
    rewrite E.
    assert (0 <= a * a) by nra. assert (0 <= b * b) by nra.
    assert (0 <= c * (a * a)) by nra. assert (0 <= c * (b * b)) by nra.
    assert (0 <= / c * (c * (a * a)) * Y) by (apply Rmult_le_pos; [apply Rmult_le_pos|]; lra).
    assert (0 <= / c * X * (c * (b * b))) by (apply Rmult_le_pos; [apply Rmult_le_pos|]; lra).
    assert (0 <= / c * X * Y) by (apply Rmult_le_pos; [apply Rmult_le_pos|]; lra).
    assert (0 <= Cw * (c * (a * a)) * (c * (b * b))) by (apply Rmult_le_pos; [apply Rmult_le_pos|]; lra).
    assert (0 <= Cw * (c * (a * a)) * Y) by (apply Rmult_le_pos; [apply Rmult_le_pos|]; lra).
    assert (0 <= Cw * X * (c * (b * b))) by (apply Rmult_le_pos; [apply Rmult_le_pos|]; lra).
    lra.
Qed.

(* ---- the laws ---- *)
Theorem lspace_laws (n : nat) (w : Vn n) :
  Forall (fun a => 0 < a) (vl w) -> SpaceLaws (lspace n w).
Proof.
  intro Hw. constructor; cbn [lspace car sadd sscal szero sinner snorm smul].
  - intros x y. apply Vn_eq; cbn. apply vmap2_comm. intros; numR; ring.
  - intros x y z. apply Vn_eq; cbn. apply vadd_assoc.
  - intros x. apply Vn_eq; cbn. rewrite <- (vl_length x) at 2. apply vadd_zero_r.
  - intros x. apply Vn_eq; cbn. apply vscal_one.
  - intros x. apply Vn_eq; cbn. rewrite vscal_zero, (vl_length x). reflexivity.
  - intros a b x. apply Vn_eq; cbn. apply vscal_vscal.
  - intros a x y. apply Vn_eq; cbn. apply vscal_vadd.
  - intros a b x. apply Vn_eq; cbn. apply vscal_plus.
  - intros x y. apply wdot_comm.
  - intros x y z. apply wdot_vadd_l. rewrite !vl_length. reflexivity.
  - intros a x y. apply wdot_vscal_l.
  - intros x. apply wdot_self_nonneg, Hw.
  - intros x. reflexivity.
  - intros x y. apply Vn_eq; cbn. apply vmap2_comm. intros; numR; ring.
  - intros v x y. apply Vn_eq; cbn. apply vmul_vadd. rewrite !vl_length. reflexivity.
  - intros v a x. apply Vn_eq; cbn. apply vmul_vscal.
  - intros v x y. cbn. apply wdot_vmul_adj. rewrite !vl_length. reflexivity.
  - exists (rsum (vl w)). split; [apply rsum_nonneg, Hw|].
    intros x y. cbn. apply wdot_vmul_bound, Hw.
Qed.
