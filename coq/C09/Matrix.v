(* C09/Matrix.v -- MatrixOperator between unweighted list spaces is a sound
   operator for FunctionalComp: linear, bounded, and op_dadj (the plain
   transpose, as the code computes it) is its adjoint. *)
From Coq Require Import Reals Lra Psatz List Bool Arith Lia.
From Verif Require Import Base.Num Base.Vec Base.VecR C09.Model C09.IPS C09.Proofs C09.Lists.
Import ListNotations.
Local Open Scope R_scope.

Definition rows_ok (n1 : nat) (m : list (list R)) : Prop := Forall (fun r => length r = n1) m.

Lemma mvec_length (m : list (list R)) (x : list R) : length (mvec m x) = length m.
Proof. unfold mvec. apply map_length. Qed.

Lemma zipcons_length (r : list R) (T : list (list R)) :
  length r = length T -> length (zipcons r T) = length r.
Proof.
  revert T; induction r as [|a r IH]; intros [|c T] Hl; cbn in *; try discriminate; try reflexivity.
  f_equal. apply IH. congruence.
Qed.
Lemma transpose_length (n1 : nat) (m : list (list R)) : rows_ok n1 m -> length (transpose n1 m) = n1.
Proof.
  induction 1 as [|r m Hr Hm IH]; cbn [transpose].
  - apply repeat_length.
  - rewrite zipcons_length; congruence.
Qed.

Lemma dot_nil_r (x : list R) : dot x [] = 0.
Proof. destruct x; reflexivity. Qed.
Lemma dot_zeros (x : list R) (k : nat) : dot x (repeat 0 k) = 0.
Proof.
  revert k; induction x as [|a x IH]; intros [|k]; cbn [repeat]; rewrite ?dot_nil_l, ?dot_nil_r; try reflexivity.
  rewrite dot_cons, IH. lra.
Qed.
Lemma mvec_nil_rows (k : nat) (y : list R) : mvec (repeat [] k) y = repeat 0 k.
Proof. unfold mvec. induction k as [|k IH]; cbn [repeat map]; [reflexivity|]. rewrite IH. reflexivity. Qed.

Lemma mvec_zipcons (r : list R) (T : list (list R)) (b : R) (y : list R) :
  length r = length T -> mvec (zipcons r T) (b :: y) = vadd (vscal b r) (mvec T y).
Proof.
  unfold mvec, vadd, vscal.
  revert T; induction r as [|a r IH]; intros [|c T] Hl; cbn in Hl; try discriminate; cbn [zipcons map vmap2].
  - reflexivity.
  - rewrite IH by congruence. rewrite dot_cons. numR. f_equal. ring.
Qed.

Lemma dot_vadd_r (x y y' : list R) : length y = length y' -> length x = length y ->
  dot x (vadd y y') = dot x y + dot x y'.
Proof. intros H1 H2. rewrite dot_comm, dot_vadd_l by congruence. rewrite !(dot_comm x). reflexivity. Qed.
Lemma dot_vscal_r (c : R) (x y : list R) : dot x (vscal c y) = c * dot x y.
Proof. rewrite dot_comm, dot_vscal_l, dot_comm. reflexivity. Qed.

(* <M x, y> = <x, M^T y> *)
Lemma mvec_transpose_adjoint (n1 : nat) (m : list (list R)) (x y : list R) :
  rows_ok n1 m -> length x = n1 -> length y = length m ->
  dot (mvec m x) y = dot x (mvec (transpose n1 m) y).
Proof.
  intros Hm Hx. revert y; induction Hm as [|r m Hr Hm IH]; intros y Hy.
  - cbn [transpose]. rewrite mvec_nil_rows, dot_zeros. reflexivity.
  - destruct y as [|b y]; [discriminate|]. cbn in Hy.
    cbn [transpose]. rewrite mvec_zipcons by (rewrite transpose_length by assumption; congruence).
    unfold mvec at 1. cbn [map]. rewrite dot_cons. fold (mvec m x).
    rewrite dot_vadd_r.
    + rewrite dot_vscal_r, IH by congruence. rewrite (dot_comm r x). ring.
    + unfold vscal. rewrite map_length, mvec_length, transpose_length by assumption. congruence.
    + unfold vscal. rewrite map_length. congruence.
Qed.

Lemma mvec_vadd (n1 : nat) (m : list (list R)) (x y : list R) :
  rows_ok n1 m -> length x = n1 -> length y = n1 -> mvec m (vadd x y) = vadd (mvec m x) (mvec m y).
Proof.
  intros Hm Hx Hy. unfold mvec, vadd. induction Hm as [|r m Hr Hm IH]; cbn [map vmap2]; [reflexivity|].
  rewrite IH. f_equal. numR. apply dot_vadd_r; congruence.
Qed.
Lemma mvec_vscal (m : list (list R)) (a : R) (x : list R) : mvec m (vscal a x) = vscal a (mvec m x).
Proof.
  unfold mvec, vscal at 2. rewrite map_map. apply map_ext. intro r. numR. apply dot_vscal_r.
Qed.

(* wdot with unit weights is dot *)
Lemma wdot_ones (x y : list R) (k : nat) : length x = k -> length y = k -> wdot (repeat 1 k) x y = dot x y.
Proof.
  revert x y; induction k as [|k IH]; intros [|a x] [|b y] Hx Hy; cbn in Hx, Hy; try discriminate; try reflexivity.
  cbn [repeat]. rewrite wdot_cons, dot_cons, IH by congruence. lra.
Qed.

(* Frobenius bound: |M h|^2 <= (sum_i |r_i|^2) |h|^2 *)
Fixpoint frob (m : list (list R)) : R := match m with [] => 0 | r :: m' => dot r r + frob m' end.
Lemma frob_nonneg m : 0 <= frob m.
Proof. induction m as [|r m IH]; cbn; [lra|]. pose proof (dot_self_nonneg r). lra. Qed.

Lemma dot_cs (x y : list R) : length x = length y -> dot x y * dot x y <= dot x x * dot y y.
Proof.
  revert y; induction x as [|a x IH]; intros [|b y] Hl; cbn in Hl; try discriminate.
  - rewrite !dot_nil_l. lra.
  - rewrite !dot_cons. specialize (IH y ltac:(congruence)).
    pose proof (dot_self_nonneg x) as Hx. pose proof (dot_self_nonneg y) as Hy.
    set (p := dot x y) in *. set (X := dot x x) in *. set (Y := dot y y) in *.
    (* (ab + p)^2 <= (a^2 + X)(b^2 + Y)  <=  2 a b p <= a^2 Y + b^2 X  given p^2 <= X Y *)
    assert (H2 : 2 * (a * b) * p <= a * a * Y + b * b * X).
    { destruct (Rle_lt_dec 0 ((a * b) * p)) as [Hpos|Hneg]; [|nra].
      assert ((2 * (a * b) * p) * (2 * (a * b) * p) <= (a * a * Y + b * b * X) * (a * a * Y + b * b * X)).
      { assert (0 <= a * a) by nra. assert (0 <= b * b) by nra.
        assert (H4 : 4 * (a * a) * (b * b) * (p * p) <= 4 * (a * a) * (b * b) * (X * Y)).
        { apply Rmult_le_compat_l; [nra|assumption]. }
        assert (E1 : (2 * (a * b) * p) * (2 * (a * b) * p) = 4 * (a * a) * (b * b) * (p * p)) by ring.
        assert (E2 : (a * a * Y + b * b * X) * (a * a * Y + b * b * X)
                     = 4 * (a * a) * (b * b) * (X * Y) + (a * a * Y - b * b * X) * (a * a * Y - b * b * X)) by ring.
        pose proof (Rle_0_sqr (a * a * Y - b * b * X)) as Hs. unfold Rsqr in Hs. lra. }
      assert (0 <= a * a * Y + b * b * X) by nra.
      apply le_of_sqr; assumption. }
    nra.
Qed.

Lemma mvec_bound (n1 : nat) (m : list (list R)) (h : list R) : rows_ok n1 m -> length h = n1 ->
  dot (mvec m h) (mvec m h) <= frob m * dot h h.
Proof.
  intros Hm Hh. unfold mvec. induction Hm as [|r m Hr Hm IH]; cbn [map frob].
  - rewrite dot_nil_l. lra.
  - rewrite dot_cons. pose proof (dot_cs r h ltac:(congruence)). nra.
Qed.

(* ---- the operator on the sigma carrier (unit weights) ---- *)
Definition ones_n (k : nat) : Vn k := exist _ (repeat 1 k) (repeat_length 1 k).
Lemma ones_pos k : Forall (fun a => 0 < a) (vl (ones_n k)).
Proof. cbn. induction k; cbn; constructor; [lra|assumption]. Qed.
Definition E (k : nat) : RSpace := lspace k (ones_n k).       (* rn(k) *)

Section MatOp.
Variables n1 n2 : nat.
Variable m : list (list R).
Hypothesis Hrows : rows_ok n1 m.
Hypothesis Hn2 : length m = n2.

Lemma app_len (x : Vn n1) : length (mvec m (vl x)) = n2.
Proof. rewrite mvec_length. exact Hn2. Qed.
Lemma adj_len (y : Vn n2) : length (mvec (transpose n1 m) (vl y)) = n1.
Proof. rewrite mvec_length. apply transpose_length, Hrows. Qed.

(* op_matrix of Model.v on the sigma carrier: same list functions *)
Definition sop_matrix : Oper (E n1) (E n2) :=
  @mkOper R (E n1) (E n2)
    (fun x : Vn n1 => exist _ (mvec m (vl x)) (app_len x))
    (fun (_ : Vn n1) (y : Vn n2) => exist _ (mvec (transpose n1 m) (vl y)) (adj_len y))
    true.

Lemma sop_matrix_is_op_matrix (x : Vn n1) (y : Vn n2) :
  vl (op_app sop_matrix x) = op_app (op_matrix sqrt (repeat 1 n1) (repeat 1 n2) m) (vl x) /\
  vl (op_dadj sop_matrix x y) = op_dadj (op_matrix sqrt (repeat 1 n1) (repeat 1 n2) m) (vl x) (vl y).
Proof. split; cbn; [reflexivity|]. rewrite repeat_length. reflexivity. Qed.

Lemma sop_matrix_sound (x : Vn n1) : op_sound sop_matrix x.
Proof.
  pose proof (lspace_laws n1 (ones_n n1) (ones_pos n1)) as L1.
  pose proof (lspace_laws n2 (ones_n n2) (ones_pos n2)) as L2.
  exists (op_app sop_matrix). split; [split; [|split]|].
  - (* bounded *)
    exists (sqrt (frob m)). split; [apply sqrt_pos|]. intro h.
    pose proof (norm_nonneg (E n1) h). pose proof (sqrt_pos (frob m)).
    apply le_of_sqr; [apply Rmult_le_pos; assumption|].
    set (Mh := op_app sop_matrix h).
    pose proof (norm_sqr (E n2) L2 Mh) as E2.
    pose proof (norm_sqr (E n1) L1 h) as E1.
    assert (E2' : sinner (E n2) Mh Mh = dot (mvec m (vl h)) (mvec m (vl h))).
    { cbn. apply wdot_ones; rewrite mvec_length; exact Hn2. }
    assert (E1' : sinner (E n1) h h = dot (vl h) (vl h)).
    { cbn. apply wdot_ones; apply vl_length. }
    rewrite E2' in E2. rewrite E1' in E1.
    pose proof (mvec_bound n1 m (vl h) Hrows (vl_length h)) as Hb.
    pose proof (sqrt_sqrt (frob m) (frob_nonneg m)) as Hss.
    set (a := norm (E n2) Mh) in *. set (b := norm (E n1) h) in *. set (s := sqrt (frob m)) in *.
    replace (s * b * (s * b)) with ((s * s) * (b * b)) by ring.
    rewrite Hss, E1, E2. exact Hb.
  - (* exactly linear: zero remainder *)
    intros eps He. exists 1. split; [lra|]. intros h _.
    assert (Elin : op_app sop_matrix (sadd (E n1) x h) = sadd (E n2) (op_app sop_matrix x) (op_app sop_matrix h)).
    { apply Vn_eq. cbn. apply (mvec_vadd n1); [assumption|apply vl_length|apply vl_length]. }
    unfold E in *. rewrite Elin, (add_cancel_mid _ L2), (sub_self _ L2), (norm_zero _ L2).
    pose proof (norm_nonneg (lspace n1 (ones_n n1)) h). nra.
  - split.
    + intros u v. apply Vn_eq. cbn. apply (mvec_vadd n1); [assumption|apply vl_length|apply vl_length].
    + intros a u. apply Vn_eq. cbn. apply mvec_vscal.
  - (* adjoint = transpose *)
    intros h y. cbn [E lspace sinner sop_matrix op_app op_dadj vl proj1_sig ones_n].
    rewrite !wdot_ones; try apply vl_length; try (rewrite mvec_length; try exact Hn2; try (apply transpose_length, Hrows)).
    apply (mvec_transpose_adjoint n1); [assumption|apply vl_length|rewrite Hn2; apply vl_length].
Qed.
End MatOp.
