(* C09/Model.v -- executable model of odl/solvers/functional/functional.py
   (values, gradients, grad_lipschitz propagation, is_linear flags, arithmetic
   overloads) and of the closed-form leaves of default_functionals.py.

   Definitions only.  Everything is polymorphic over the carrier [Num T] AND
   over the space (a record of operations), so that the very same terms are
   executed on weighted lists over Q by the correspondence shards and proved
   over an abstract real inner-product space in C09/Proofs.v. *)
From Coq Require Import ZArith QArith List Bool.
From Verif Require Import Base.Num Base.Vec.
Import ListNotations.
Local Open Scope num_scope.

Section Generic.
Context {T : Type} `{Num T}.

(* A space = the operations the functional code uses on its domain:
   lincomb pieces, inner, norm, pointwise multiply.  (LinearSpace API.) *)
Record Space := mkSpace {
  car : Type;
  sadd : car -> car -> car;
  sscal : T -> car -> car;
  szero : car;
  sinner : car -> car -> T;
  snorm : car -> T;
  smul : car -> car -> car }.

Definition ssub {S : Space} (x y : car S) : car S := sadd S x (sscal S (- none_) y).

(* grad_lipschitz is a Python float: nan, +inf or a finite number *)
Inductive lip := LNan | LInf | LFin (c : T).

Definition lip_add (a b : lip) : lip :=
  match a, b with
  | LNan, _ | _, LNan => LNan
  | LInf, _ | _, LInf => LInf
  | LFin x, LFin y => LFin (x + y)
  end.
(* a * L for a finite float a >= 0 (0 * inf = nan) *)
Definition lip_scale (a : T) (l : lip) : lip :=
  match l with
  | LNan => LNan
  | LInf => if a =? nzero then LNan else LInf
  | LFin c => LFin (a * c)
  end.

(* A leaf functional: value, gradient, grad_lipschitz, is_linear *)
Record Leaf (S : Space) := mkLeaf {
  lf_val : car S -> T;
  lf_grad : car S -> car S;
  lf_lip : lip;
  lf_linear : bool }.
(* An operator S1 -> S2 as used by FunctionalComp: op(x) and
   op.derivative(x).adjoint(y) *)
Record Oper (S1 S2 : Space) := mkOper {
  op_app : car S1 -> car S2;
  op_dadj : car S1 -> car S2 -> car S1;
  op_linear : bool }.
Arguments lf_val {S}. Arguments lf_grad {S}. Arguments lf_lip {S}. Arguments lf_linear {S}.
Arguments op_app {S1 S2}. Arguments op_dadj {S1 S2}. Arguments op_linear {S1 S2}.

(* One constructor per derived class of functional.py, fields as stored. *)
Inductive fexpr : Space -> Type :=
| FLeaf {S} (l : Leaf S) : fexpr S
| FLeftScal {S} (s : T) (f : fexpr S) : fexpr S              (* FunctionalLeftScalarMult: s * f *)
| FRightScal {S} (f : fexpr S) (s : T) : fexpr S             (* FunctionalRightScalarMult: x -> f(s x) *)
| FRightVec {S} (f : fexpr S) (v : car S) : fexpr S          (* FunctionalRightVectorMult: x -> f(v x) *)
| FSum {S} (f g : fexpr S) : fexpr S                         (* FunctionalSum / FunctionalScalarSum *)
| FTrans {S} (f : fexpr S) (t : car S) : fexpr S             (* FunctionalTranslation: x -> f(x - t) *)
| FComp {S1 S2} (f : fexpr S2) (A : Oper S1 S2) : fexpr S1   (* FunctionalComp: x -> f(A x) *)
| FQuadPert {S} (f : fexpr S) (a : T) (u : option (car S)) (c : T) : fexpr S
| FProd {S} (f g : fexpr S) : fexpr S                        (* FunctionalProduct *)
| FQuot {S} (f g : fexpr S) : fexpr S                        (* FunctionalQuotient *)
| FBregman {S} (f : fexpr S) (p s : car S) : fexpr S.        (* BregmanDistance *)

Definition lin_term {S : Space} (u : option (car S)) : car S :=
  match u with Some v => v | None => szero S end.

(* f(x):  the _call of each class *)
Fixpoint value {S} (e : fexpr S) : car S -> T :=
  match e in fexpr S return car S -> T with
  | FLeaf l => fun x => lf_val l x
  | @FLeftScal X s f => fun x => s * value f x
  | @FRightScal X f s => fun x => value f (sscal X s x)
  | @FRightVec X f v => fun x => value f (smul X v x)
  | FSum f g => fun x => value f x + value g x
  | FTrans f t => fun x => value f (ssub x t)
  | FComp f A => fun x => value f (op_app A x)
  | @FQuadPert X f a u c => fun x =>
      value f x + a * sinner X x x + sinner X x (lin_term u) + c
  | FProd f g => fun x => value f x * value g x
  | FQuot f g => fun x => value f x / value g x
  | @FBregman X f p s => fun x =>
      (* FunctionalQuadraticPerturb(f, linear_term=-s, constant=-f(p) + <s,p>) *)
      value f x + nzero * sinner X x x + sinner X x (sscal X (- none_) s)
        + (- value f p + sinner X s p)
  end.

(* f.gradient(x) *)
Fixpoint gradient {S} (e : fexpr S) : car S -> car S :=
  match e in fexpr S return car S -> car S with
  | FLeaf l => fun x => lf_grad l x
  | @FLeftScal X s f => fun x => sscal X s (gradient f x)
  | @FRightScal X f s => fun x => sscal X s (gradient f (sscal X s x))
  | @FRightVec X f v => fun x => smul X v (gradient f (smul X v x))
  | @FSum X f g => fun x => sadd X (gradient f x) (gradient g x)
  | FTrans f t => fun x => gradient f (ssub x t)
  | FComp f A => fun x => op_dadj A x (gradient f (op_app A x))
  | @FQuadPert X f a u c => fun x =>
      sadd X (sadd X (gradient f x) (sscal X (of_Z 2 * a) x)) (lin_term u)
  | @FProd X f g => fun x =>
      sadd X (sscal X (value g x) (gradient f x)) (sscal X (value f x) (gradient g x))
  | @FQuot X f g => fun x =>
      sadd X (sscal X (none_ / value g x) (gradient f x))
             (sscal X (- value f x / (value g x * value g x)) (gradient g x))
  | @FBregman X f p s => fun x => sadd X (gradient f x) (sscal X (- none_) s)
  end.

(* f.derivative(x)(d) = f.gradient(x).T (d) *)
Definition derivative {S} (e : fexpr S) (x d : car S) : T := sinner S d (gradient e x).

(* f.grad_lipschitz as computed by the constructors *)
Fixpoint lipschitz {S} (e : fexpr S) : lip :=
  match e with
  | FLeaf l => lf_lip l
  | FLeftScal s f => lip_scale (nabs s) (lipschitz f)
  | FRightScal f s => lip_scale (nabs s * nabs s) (lipschitz f)
  | FRightVec _ _ => LNan
  | FSum f g => lip_add (lipschitz f) (lipschitz g)
  | FTrans f _ => lipschitz f
  | FComp _ _ => LNan
  | @FQuadPert X f a u c =>
      lip_add (match u with
               | None => lipschitz f
               | Some v => lip_add (lipschitz f) (LFin (snorm X v))
               end) (LFin (of_Z 2 * nabs a))
  | FProd _ _ => LNan
  | FQuot _ _ => LNan
  | @FBregman X f p s => lip_add (lipschitz f) (LFin (snorm X s))
  end.

(* class of the top-level object (compared with type(f) by the correspondence) *)
Inductive kind := KLeaf | KLeftScal | KRightScal | KRightVec | KSum | KTrans | KComp
                | KQuadPert | KProd | KQuot | KBregman.
Definition kind_of {S} (e : fexpr S) : kind :=
  match e with
  | FLeaf _ => KLeaf | FLeftScal _ _ => KLeftScal | FRightScal _ _ => KRightScal
  | FRightVec _ _ => KRightVec | FSum _ _ => KSum | FTrans _ _ => KTrans | FComp _ _ => KComp
  | FQuadPert _ _ _ _ => KQuadPert | FProd _ _ => KProd | FQuot _ _ => KQuot
  | FBregman _ _ _ => KBregman
  end.

(* Operator.is_linear as set by each constructor (current /repo: RightVectorMult
   keeps the flag of its functional, QuadraticPerturb is linear only when both the
   quadratic coefficient and the constant vanish) *)
Fixpoint is_linear {S} (e : fexpr S) : bool :=
  match e with
  | FLeaf l => lf_linear l
  | FLeftScal _ f => is_linear f
  | FRightScal f _ => is_linear f
  | FRightVec f _ => is_linear f
  | FSum f g => is_linear f && is_linear g
  | FTrans _ _ => false
  | FComp f A => is_linear f && op_linear A
  | FQuadPert f a _ c => is_linear f && (a =? nzero) && (c =? nzero)
  | FProd _ _ | FQuot _ _ | FBregman _ _ _ => false
  end.

(* ---- leaves that need only the space operations ---- *)
Definition leaf_const (S : Space) (c : T) : Leaf S :=          (* ConstantFunctional / ZeroFunctional *)
  {| lf_val := fun _ => c; lf_grad := fun _ => szero S; lf_lip := LFin nzero;
     lf_linear := c =? nzero |}.
Definition leaf_l2sq (S : Space) : Leaf S :=                    (* L2NormSquared *)
  {| lf_val := fun x => sinner S x x; lf_grad := fun x => sscal S (of_Z 2) x;
     lf_lip := LFin (of_Z 2); lf_linear := false |}.
Definition leaf_l2 (S : Space) : Leaf S :=                      (* L2Norm *)
  {| lf_val := fun x => snorm S x;
     lf_grad := fun x => if snorm S x =? nzero then szero S else sscal S (none_ / snorm S x) x;
     lf_lip := LNan; lf_linear := false |}.
Definition leaf_lin (S : Space) (b : car S) (c : T) : Leaf S := (* QuadraticForm(vector=b, constant=c) *)
  {| lf_val := fun x => sinner S b x + c; lf_grad := fun _ => b; lf_lip := LNan;
     lf_linear := c =? nzero |}.
(* QuadraticForm(operator=A[, vector=b], constant=c) with a linear A given by
   x -> A x and y -> A^* y; [selfadj] is the outcome of `opadjoint == operator` *)
Definition leaf_quad (S : Space) (A Aadj : car S -> car S) (selfadj : bool)
           (b : option (car S)) (c : T) : Leaf S :=
  {| lf_val := fun x =>
       match b with
       | None => sinner S x (A x) + c
       | Some v => sinner S x (sadd S (A x) v) + c
       end;
     lf_grad := fun x =>
       let g := if selfadj then sscal S (of_Z 2) (A x) else sadd S (A x) (Aadj x) in
       match b with None => g | Some v => sadd S g v end;
     lf_lip := LNan; lf_linear := false |}.

(* MoreauEnvelope(f, sigma): the code implements only the gradient
   ScalingOperator(1/sigma) - (1/sigma) * f.proximal(sigma); the value (no _call in
   the code) is the envelope min_y f(y) + |x-y|^2/(2 sigma) attained at the prox *)
Definition leaf_moreau (S : Space) (fval : car S -> T) (prox : car S -> car S) (sigma : T) : Leaf S :=
  {| lf_val := fun x => fval (prox x)
                 + (none_ / (of_Z 2 * sigma)) * sinner S (ssub x (prox x)) (ssub x (prox x));
     lf_grad := fun x => sadd S (sscal S (none_ / sigma) x)
                                (sscal S (- none_) (sscal S (none_ / sigma) (prox x)));
     lf_lip := LNan; lf_linear := false |}.

(* ---- operators for FunctionalComp ---- *)
Definition op_id (S : Space) : Oper S S :=
  {| op_app := fun x => x; op_dadj := fun _ y => y; op_linear := true |}.
Definition op_scal (S : Space) (s : T) : Oper S S :=             (* ScalingOperator *)
  {| op_app := fun x => sscal S s x; op_dadj := fun _ y => sscal S s y; op_linear := true |}.
Definition op_mult (S : Space) (v : car S) : Oper S S :=         (* MultiplyOperator *)
  {| op_app := fun x => smul S v x; op_dadj := fun _ y => smul S v y; op_linear := true |}.
Definition op_shift {S1 S2} (A : Oper S1 S2) (t : car S2) : Oper S1 S2 :=   (* A - t : OperatorVectorSum *)
  {| op_app := fun x => ssub (op_app A x) t; op_dadj := op_dadj A; op_linear := false |}.
Definition op_comp {S1 S2 S3} (A : Oper S2 S3) (B : Oper S1 S2) : Oper S1 S3 := (* OperatorComp *)
  {| op_app := fun x => op_app A (op_app B x);
     op_dadj := fun x y => op_dadj B x (op_dadj A (op_app B x) y);
     op_linear := op_linear A && op_linear B |}.
Definition op_square (S : Space) : Oper S S :=                   (* PowerOperator(space, 2) *)
  {| op_app := fun x => smul S x x; op_dadj := fun x y => smul S (sscal S (of_Z 2) x) y;
     op_linear := false |}.

(* ---- product of two spaces (ProductSpace(S1, S2), default weighting) and
   SeparableSum(f1, f2) = f1 o P1 + f2 o P2 with the component projections:
   value sum_i f_i(x_i), gradient (grad f1(x1), grad f2(x2)) ---- *)
Definition sprod (sqrtf : T -> T) (S1 S2 : Space) : Space :=
  {| car := (car S1 * car S2)%type;
     sadd := fun x y => (sadd S1 (fst x) (fst y), sadd S2 (snd x) (snd y));
     sscal := fun a x => (sscal S1 a (fst x), sscal S2 a (snd x));
     szero := (szero S1, szero S2);
     sinner := fun x y => sinner S1 (fst x) (fst y) + sinner S2 (snd x) (snd y);
     snorm := fun x => sqrtf (sinner S1 (fst x) (fst x) + sinner S2 (snd x) (snd x));
     smul := fun x y => (smul S1 (fst x) (fst y), smul S2 (snd x) (snd y)) |}.
Definition op_fst (sqrtf : T -> T) (S1 S2 : Space) : Oper (sprod sqrtf S1 S2) S1 :=
  @mkOper (sprod sqrtf S1 S2) S1 (fun x => fst x) (fun _ y => (y, szero S2)) true.
Definition op_snd (sqrtf : T -> T) (S1 S2 : Space) : Oper (sprod sqrtf S1 S2) S2 :=
  @mkOper (sprod sqrtf S1 S2) S2 (fun x => snd x) (fun _ y => (szero S1, y)) true.
Definition f_sepsum (sqrtf : T -> T) {S1 S2} (f1 : fexpr S1) (f2 : fexpr S2)
  : fexpr (sprod sqrtf S1 S2) :=
  FSum (FComp f1 (op_fst sqrtf S1 S2)) (FComp f2 (op_snd sqrtf S1 S2)).

(* ---- the arithmetic overloads of class Functional ---- *)
(* f.translated(t): nested translations are merged in __init__ *)
Definition mk_translated {S} (e : fexpr S) : car S -> fexpr S :=
  match e in fexpr S return car S -> fexpr S with
  | @FTrans X g t0 => fun t => FTrans g (sadd X t0 t)
  | e' => fun t => FTrans e' t
  end.
(* f * s  (Functional.__mul__ with a scalar) *)
Definition f_mul_scalar {S} (e : fexpr S) (s : T) : fexpr S :=
  if s =? nzero then FLeaf (leaf_const S (value e (szero S)))
  else if is_linear e then FLeftScal s e else FRightScal e s.
(* s * f  (Functional.__rmul__) *)
Definition f_rmul_scalar {S} (s : T) (e : fexpr S) : fexpr S :=
  if s =? nzero then FLeaf (leaf_const S nzero) else FLeftScal s e.
(* f + c, f + g, f - g, -f, f / s *)
Definition f_add_scalar {S} (e : fexpr S) (c : T) : fexpr S := FSum e (FLeaf (leaf_const S c)).
Definition f_sub {S} (e g : fexpr S) : fexpr S := FSum e (f_rmul_scalar (- none_) g).
Definition f_neg {S} (e : fexpr S) : fexpr S := f_rmul_scalar (- none_) e.
Definition f_div_scalar {S} (e : fexpr S) (s : T) : fexpr S :=
  f_mul_scalar e (none_ / s).

End Generic.

Arguments lf_val {T S}. Arguments lf_grad {T S}. Arguments lf_lip {T S}. Arguments lf_linear {T S}.
Arguments op_app {T S1 S2}. Arguments op_dadj {T S1 S2}. Arguments op_linear {T S1 S2}.


(* ------------------------------------------------------------------------
   Concrete spaces: weighted lists.  Every ODL space used by the harness
   (rn with no/constant/array weighting, uniform_discr, power and product
   spaces) is, after flattening, a list with one positive weight per entry:
   <x,y> = sum_i w_i x_i y_i   (the harness measures w_i = <e_i,e_i> and checks
   that the Gram matrix is diagonal). *)
Section Lists.
Context {T : Type} `{Num T}.
Variable sqrtf : T -> T.    (* sqrt at R; a 1e-12-accurate rational root at Q *)

Definition wspace (w : list T) : Space :=
  {| car := list T; sadd := vadd; sscal := vscal; szero := vconst (length w) nzero;
     sinner := wdot w; snorm := fun x => sqrtf (wdot w x x); smul := vmul |}.

Definition ones (w : list T) : list T := vconst (length w) none_.

(* L1Norm: x.ufuncs.absolute().inner(one);  gradient x.ufuncs.sign() *)
Definition leaf_l1 (w : list T) : Leaf (wspace w) :=
  @mkLeaf _ (wspace w)
    (fun x : list T => wdot w (map nabs x) (ones w))
    (fun x : list T => map nsign x)
    LNan false.

(* Huber(space, gamma), gamma > 0, on a tensor space *)
Definition huber_val (g a : T) : T :=
  if nabs a <? g then a * a * (none_ / (of_Z 2 * g)) else nabs a - g / of_Z 2.
Definition huber_grad (g a : T) : T :=
  if nabs a <? g then a * (none_ / g) else a / nabs a.
Definition leaf_huber (w : list T) (g : T) : Leaf (wspace w) :=
  @mkLeaf _ (wspace w)
    (fun x : list T => wdot w (map (huber_val g) x) (ones w))
    (fun x : list T => map (huber_grad g) x)
    (LFin (none_ / g)) false.

(* MatrixOperator between list spaces: adjoint as the code computes it =
   plain transpose *)
Definition op_matrix (w1 w2 : list T) (m : list (list T)) : Oper (wspace w1) (wspace w2) :=
  @mkOper _ (wspace w1) (wspace w2)
    (fun x : list T => mvec m x)
    (fun (_ : list T) (y : list T) => mvec (transpose (length w1) m) y)
    true.
End Lists.
