(* C09/GenTie.v -- the hand-written [lipschitz] and [is_linear] of C09/Model.v ARE the
   formulas regenerated from the current source (Gen/FunctionalLip.v, produced by
   translate/functional_lipschitz.py from the grad_lipschitz= / linear= arguments of every
   __init__): a changed formula in /repo breaks these proofs. *)
From Coq Require Import ZArith QArith Reals Lra List Bool.
From Verif Require Import Base.Num C09.Model Gen.FunctionalLip.

Section Tie.
Context {T : Type} `{Num T}.

(* derived classes: by computation, for every carrier *)
Lemma tie_lipschitz {S : Space} (e : fexpr S) :
  lipschitz e =
  match e with
  | FLeaf l => lf_lip l
  | FLeftScal s f => gen_lip_LeftScalarMult s (lipschitz f)
  | FRightScal f s => gen_lip_RightScalarMult s (lipschitz f)
  | FRightVec _ _ => gen_lip_RightVectorMult
  | FSum f g => gen_lip_Sum (lipschitz f) (lipschitz g)
  | FTrans f _ => gen_lip_Translation (lipschitz f)
  | FComp _ _ => gen_lip_Comp
  | @FQuadPert _ X f a u _ =>
      gen_lip_QuadraticPerturb (lipschitz f) (match u with Some v => Some (snorm X v) | None => None end) a
  | FProd _ _ => gen_lip_Product
  | FQuot _ _ => gen_lip_Quotient
  | @FBregman _ X f _ s => gen_lip_BregmanDistance (lipschitz f) (snorm X s)
  end.
Proof. destruct e; try reflexivity. destruct u; reflexivity. Qed.

Lemma tie_is_linear {S : Space} (e : fexpr S) :
  is_linear e =
  match e with
  | FLeaf l => lf_linear l
  | FLeftScal _ f => gen_lin_LeftScalarMult (is_linear f)
  | FRightScal f _ => gen_lin_RightScalarMult (is_linear f)
  | FRightVec f _ => gen_lin_RightVectorMult (is_linear f)
  | FSum f g => gen_lin_Sum (is_linear f) (is_linear g)
  | FTrans _ _ => gen_lin_Translation
  | FComp f A => gen_lin_Comp (is_linear f) (op_linear A)
  | FQuadPert f a _ c => gen_lin_QuadraticPerturb (is_linear f) a c
  | FProd _ _ => gen_lin_Product
  | FQuot _ _ => gen_lin_Quotient
  | FBregman _ _ _ => gen_lin_BregmanDistance
  end.
Proof. destruct e; reflexivity. Qed.

(* leaves whose constants are syntactically the generated ones *)
Lemma tie_l2sq (S : Space) :
  lf_lip (leaf_l2sq S) = gen_lip_L2NormSquared /\ lf_linear (leaf_l2sq S) = gen_lin_L2NormSquared.
Proof. split; reflexivity. Qed.
Lemma tie_const_linear (S : Space) c : lf_linear (leaf_const S c) = gen_lin_ConstantFunctional c.
Proof. reflexivity. Qed.
Lemma tie_l2 (S : Space) : lf_lip (leaf_l2 S) = gen_lip_LpNorm /\ lf_linear (leaf_l2 S) = gen_lin_LpNorm.
Proof. split; reflexivity. Qed.
Lemma tie_lin (S : Space) b c :
  lf_lip (leaf_lin S b c) = gen_lip_QuadraticForm /\ lf_linear (leaf_lin S b c) = gen_lin_QuadraticForm true c.
Proof. split; reflexivity. Qed.
Lemma tie_quad (S : Space) A A' sa b c :
  lf_lip (leaf_quad S A A' sa b c) = gen_lip_QuadraticForm
  /\ lf_linear (leaf_quad S A A' sa b c) = gen_lin_QuadraticForm false c.
Proof. split; reflexivity. Qed.
End Tie.

(* leaves whose constants are numerically the generated ones (both instances) *)
Lemma tie_const_lip_R (S : @Space R) c : lf_lip (leaf_const S c) = gen_lip_ConstantFunctional.
Proof. reflexivity. Qed.
Lemma tie_const_lip_Q (S : @Space Q) c : lf_lip (leaf_const S c) = gen_lip_ConstantFunctional.
Proof. reflexivity. Qed.
Lemma tie_huber_R (w : list R) (g : R) : (0 < g)%R ->
  lf_lip (leaf_huber sqrt w g) = gen_lip_Huber g /\ lf_linear (leaf_huber sqrt w g) = gen_lin_Huber.
Proof.
  intro Hg. split; [|reflexivity]. unfold gen_lip_Huber. cbn [leaf_huber lf_lip]. numR.
  destruct (Rltb_spec 0 g); [reflexivity|lra].
Qed.
Lemma tie_huber_Q (sQ : Q -> Q) (w : list Q) (g : Q) : (0 < g)%Q ->
  lf_lip (leaf_huber sQ w g) = gen_lip_Huber g.
Proof.
  intro Hg. unfold gen_lip_Huber. cbn [leaf_huber lf_lip nltb nzero Num_Q].
  destruct (Qle_bool g 0) eqn:E; [|reflexivity].
  apply Qle_bool_iff in E. exfalso. apply (Qlt_irrefl 0). eapply Qlt_le_trans; eassumption.
Qed.

Lemma gen_leaf_constants (S : @Space R) (w : list R) (g c : R) : (0 < g)%R ->
  lf_lip (leaf_l2sq S) = gen_lip_L2NormSquared
  /\ lf_lip (leaf_const S c) = gen_lip_ConstantFunctional
  /\ lf_linear (leaf_const S c) = gen_lin_ConstantFunctional c
  /\ lf_lip (leaf_huber sqrt w g) = gen_lip_Huber g
  /\ lf_lip (leaf_l2 S) = gen_lip_LpNorm.
Proof.
  intro Hg. repeat split; try reflexivity. apply (tie_huber_R w g Hg).
Qed.
