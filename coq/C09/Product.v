(* C09/Product.v -- the product of two spaces satisfying the laws satisfies
   them, the component projections are sound operators, hence
   SeparableSum(f1, f2) (modelled as f1 o P1 + f2 o P2) inherits a correct
   gradient for all trees f1, f2. *)
From Coq Require Import Reals Lra Psatz List Bool.
From Verif Require Import Base.Num C09.Model C09.IPS C09.Proofs.
Local Open Scope R_scope.

Section Prod.
Variables S1 S2 : RSpace.
Hypothesis L1 : SpaceLaws S1.
Hypothesis L2 : SpaceLaws S2.
Notation P := (sprod sqrt S1 S2).

Lemma sprod_laws : SpaceLaws P.
Proof.
  constructor; cbn [sprod car sadd sscal szero sinner snorm smul fst snd]; numR.
  - intros x y. f_equal; [apply (add_comm S1 L1)|apply (add_comm S2 L2)].
  - intros x y z. f_equal; [apply (add_assoc S1 L1)|apply (add_assoc S2 L2)].
  - intros [x1 x2]. cbn. f_equal; [apply (add_0_r S1 L1)|apply (add_0_r S2 L2)].
  - intros [x1 x2]. cbn. f_equal; [apply (scal_1 S1 L1)|apply (scal_1 S2 L2)].
  - intros x. f_equal; [apply (scal_0 S1 L1)|apply (scal_0 S2 L2)].
  - intros a b x. f_equal; [apply (scal_scal S1 L1)|apply (scal_scal S2 L2)].
  - intros a x y. f_equal; [apply (scal_add_r S1 L1)|apply (scal_add_r S2 L2)].
  - intros a b x. f_equal; [apply (scal_add_l S1 L1)|apply (scal_add_l S2 L2)].
  - intros x y. rewrite (inner_sym S1 L1), (inner_sym S2 L2). reflexivity.
  - intros x y z. rewrite (inner_add_l S1 L1), (inner_add_l S2 L2). ring.
  - intros a x y. rewrite (inner_scal_l S1 L1), (inner_scal_l S2 L2). ring.
  - intros x. pose proof (inner_nonneg S1 L1 (fst x)). pose proof (inner_nonneg S2 L2 (snd x)). lra.
  - intros x. reflexivity.
  - intros x y. f_equal; [apply (mul_comm S1 L1)|apply (mul_comm S2 L2)].
  - intros v x y. f_equal; [apply (mul_add_r S1 L1)|apply (mul_add_r S2 L2)].
  - intros v a x. f_equal; [apply (mul_scal_r S1 L1)|apply (mul_scal_r S2 L2)].
  - intros v x y. rewrite (mul_adj S1 L1), (mul_adj S2 L2). reflexivity.
  - destruct (mul_bound S1 L1) as [C1 [HC1 Hb1]]. destruct (mul_bound S2 L2) as [C2 [HC2 Hb2]].
    exists (C1 + C2). split; [lra|]. intros x y.
    specialize (Hb1 (fst x) (fst y)). specialize (Hb2 (snd x) (snd y)).
    pose proof (inner_nonneg S1 L1 (fst x)) as A1. pose proof (inner_nonneg S2 L2 (snd x)) as A2.
    pose proof (inner_nonneg S1 L1 (fst y)) as B1. pose proof (inner_nonneg S2 L2 (snd y)) as B2.
    set (a1 := sinner S1 (fst x) (fst x)) in *. set (a2 := sinner S2 (snd x) (snd x)) in *.
    set (b1 := sinner S1 (fst y) (fst y)) in *. set (b2 := sinner S2 (snd y) (snd y)) in *.
    assert (0 <= C1 * a1 * b2) by (apply Rmult_le_pos; [apply Rmult_le_pos|]; assumption).
    assert (0 <= C1 * a2 * b1) by (apply Rmult_le_pos; [apply Rmult_le_pos|]; assumption).
    assert (0 <= C1 * a2 * b2) by (apply Rmult_le_pos; [apply Rmult_le_pos|]; assumption).
    assert (0 <= C2 * a1 * b1) by (apply Rmult_le_pos; [apply Rmult_le_pos|]; assumption).
    assert (0 <= C2 * a1 * b2) by (apply Rmult_le_pos; [apply Rmult_le_pos|]; assumption).
    assert (0 <= C2 * a2 * b1) by (apply Rmult_le_pos; [apply Rmult_le_pos|]; assumption).
    replace ((C1 + C2) * (a1 + a2) * (b1 + b2))
      with (C1 * a1 * b1 + C2 * a2 * b2 + (C1 * a1 * b2 + C1 * a2 * b1 + C1 * a2 * b2
            + C2 * a1 * b1 + C2 * a1 * b2 + C2 * a2 * b1)) by ring.
    lra.
Qed.

Lemma norm_fst_le (h : car P) : norm S1 (fst h) <= norm P h.
Proof.
  apply le_of_sqr; [apply norm_nonneg|].
  rewrite (norm_sqr S1 L1), (norm_sqr P sprod_laws). cbn.
  pose proof (inner_nonneg S2 L2 (snd h)). numR. lra.
Qed.
Lemma norm_snd_le (h : car P) : norm S2 (snd h) <= norm P h.
Proof.
  apply le_of_sqr; [apply norm_nonneg|].
  rewrite (norm_sqr S2 L2), (norm_sqr P sprod_laws). cbn.
  pose proof (inner_nonneg S1 L1 (fst h)). numR. lra.
Qed.

Lemma op_fst_sound (x : car P) : op_sound (op_fst sqrt S1 S2) x.
Proof.
  exists (fun h : car P => fst h). split; [split; [|split]|].
  - exists 1. split; [lra|]. intro h. pose proof (norm_fst_le h). lra.
  - intros eps He. exists 1. split; [lra|]. intros h _. cbn [op_fst op_app sprod sadd fst].
    rewrite (add_cancel_mid S1 L1), (sub_self S1 L1), (norm_zero S1 L1).
    pose proof (norm_nonneg P h). nra.
  - split; intros; reflexivity.
  - intros h y. cbn. rewrite (inner_zero_r S2 L2). numR. lra.
Qed.
Lemma op_snd_sound (x : car P) : op_sound (op_snd sqrt S1 S2) x.
Proof.
  exists (fun h : car P => snd h). split; [split; [|split]|].
  - exists 1. split; [lra|]. intro h. pose proof (norm_snd_le h). lra.
  - intros eps He. exists 1. split; [lra|]. intros h _. cbn [op_snd op_app sprod sadd snd].
    rewrite (add_cancel_mid S2 L2), (sub_self S2 L2), (norm_zero S2 L2).
    pose proof (norm_nonneg P h). nra.
  - split; intros; reflexivity.
  - intros h y. cbn. rewrite (inner_zero_r S1 L1). numR. lra.
Qed.

(* SeparableSum(f1, f2): value f1(x1) + f2(x2), gradient (grad f1(x1), grad f2(x2)) up to + 0,
   and it is the Frechet gradient in the product inner product *)
Lemma sepsum_sound (f1 : Rexpr S1) (f2 : Rexpr S2) (x : car P) :
  spaces_ok f1 -> spaces_ok f2 -> smooth_at f1 (fst x) -> smooth_at f2 (snd x) ->
  value (f_sepsum sqrt f1 f2) x = value f1 (fst x) + value f2 (snd x)
  /\ gradient (f_sepsum sqrt f1 f2) x
     = (sadd S1 (gradient f1 (fst x)) (szero S1), sadd S2 (szero S2) (gradient f2 (snd x)))
  /\ is_grad P (value (f_sepsum sqrt f1 f2)) x (gradient (f_sepsum sqrt f1 f2) x).
Proof.
  intros Hs1 Hs2 Hx1 Hx2. split; [reflexivity|]. split; [reflexivity|].
  apply grad_sound_all.
  - cbn. repeat split; try assumption; apply sprod_laws.
  - cbn [f_sepsum smooth_at]. repeat split; try assumption; [apply op_fst_sound|apply op_snd_sound].
Qed.
End Prod.
