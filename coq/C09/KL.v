(* C09/KL.v -- separable leaves sum_i w_i phi(g_i, x_i) on weighted lists with a
   locally quadratic first-order remainder are Frechet differentiable with
   gradient (phi'(g_i, x_i))_i; instances: the four Kullback-Leibler
   functionals of default_functionals.py (these use ln/exp, so they exist at R
   only: they are tied to the code by probes, not by the Q correspondence). *)
From Coq Require Import Reals Lra Psatz List Bool Arith Lia.
From Verif Require Import Base.Num Base.Vec Base.VecR C09.Model C09.IPS C09.Proofs C09.Lists C09.Pointwise.
Import ListNotations.
Local Open Scope R_scope.

(* ---- scalar inequalities ---- *)
Lemma ln_1p_le (u : R) : -1 < u -> ln (1 + u) <= u.
Proof.
  intro Hu. rewrite <- (ln_exp u) at 2. pose proof (exp_ineq1_le u).
  destruct (Req_dec (1 + u) (exp u)) as [E|E]; [rewrite E; lra|].
  apply Rlt_le, ln_increasing; lra.
Qed.
Lemma ln_1p_ge (u : R) : -1 < u -> u / (1 + u) <= ln (1 + u).
Proof.
  intro Hu. assert (Hp : 0 < 1 + u) by lra.
  pose proof (ln_1p_le (- u / (1 + u))) as H.
  assert (Hv : -1 < - u / (1 + u)).
  { apply Rmult_lt_reg_r with (1 + u); [assumption|]. unfold Rdiv. rewrite Rmult_assoc, Rinv_l by lra. lra. }
  specialize (H Hv).
  replace (1 + - u / (1 + u)) with (/ (1 + u)) in H by (field; lra).
  rewrite ln_Rinv in H by assumption.
  replace (u / (1 + u)) with (- (- u / (1 + u))) by (field; lra). lra.
Qed.

(* |ln(a+t) - ln a - t/a| <= 2 t^2 / a^2 for |t| <= a/2; more precisely
   - 2 t^2/a^2 <= ln(a+t) - ln a - t/a <= 0 *)
Lemma ln_remainder (a t : R) : 0 < a -> Rabs t <= a / 2 ->
  - (2 * (t * t) / (a * a)) <= ln (a + t) - ln a - t / a <= 0.
Proof.
  intros Ha Ht. apply Rabs_le_inv in Ht || (unfold Rabs in Ht; destruct (Rcase_abs t)).
  all: set (u := t / a).
  all: assert (Hu : - / 2 <= u <= / 2)
    by (unfold u; split; apply Rmult_le_reg_r with a; try assumption;
        unfold Rdiv; rewrite Rmult_assoc, Rinv_l by lra; lra).
  all: assert (Eln : ln (a + t) - ln a = ln (1 + u))
    by (replace (a + t) with (a * (1 + u)) by (unfold u; field; lra);
        rewrite ln_mult by lra; ring).
  all: rewrite Eln; fold u.
  all: pose proof (ln_1p_le u ltac:(lra)) as Hle; pose proof (ln_1p_ge u ltac:(lra)) as Hge.
  all: assert (Hq : u - 2 * (u * u) <= u / (1 + u))
    by (apply Rmult_le_reg_r with (1 + u); [lra|];
        unfold Rdiv; rewrite Rmult_assoc, Rinv_l by lra; nra).
  all: replace (2 * (t * t) / (a * a)) with (2 * (u * u)) by (unfold u; field; lra).
  all: lra.
Qed.

Lemma exp_remainder (t : R) : Rabs t <= / 2 -> 0 <= exp t - 1 - t <= 2 * (t * t).
Proof.
  intro Ht. assert (Hb : - / 2 <= t <= / 2) by (unfold Rabs in Ht; destruct (Rcase_abs t); lra).
  pose proof (exp_ineq1_le t). pose proof (exp_ineq1_le (- t)) as Hm.
  split; [lra|].
  (* exp t <= 1/(1-t) *)
  assert (He : exp t * (1 - t) <= 1).
  { rewrite exp_Ropp in Hm. pose proof (exp_pos t) as Hp.
    apply Rmult_le_reg_l with (/ exp t); [apply Rinv_0_lt_compat; assumption|].
    rewrite <- Rmult_assoc, Rinv_l by lra. lra. }
  pose proof (exp_pos t). nra.
Qed.

(* ---- the generic separable lemma ---- *)
Section Separable.
Variable phi dphi : R -> R -> R.            (* phi g a, d/da phi g a *)
Variable dom : R -> R -> Prop.              (* admissible (g, a) *)
Hypothesis local_quadratic : forall g a, dom g a ->
  exists r K, 0 < r /\ 0 <= K /\ forall t, Rabs t <= r ->
    Rabs (phi g (a + t) - phi g a - dphi g a * t) <= K * (t * t).

Definition sep_val (w g x : list R) : R := wdot w (vmap2 phi g x) (vconst (length w) 1).
Definition sep_grad (g x : list R) : list R := vmap2 dphi g x.

Lemma sep_list_remainder (w g x : list R) : Forall (fun a => 0 < a) w ->
  length g = length w -> length x = length w -> Forall2 dom g x ->
  exists delta K, 0 < delta /\ 0 <= K /\ forall h, length h = length w -> wdot w h h < delta * delta ->
    Rabs (sep_val w g (vadd x h) - sep_val w g x - wdot w (sep_grad g x) h) <= K * wdot w h h.
Proof.
  unfold sep_val, sep_grad, vadd.
  intro Hw. revert g x; induction Hw as [|c w Hc Hw IH]; intros g x Hg Hx Hd.
  - exists 1, 0. repeat split; try lra. intros h _ _. rewrite !wdot_nil_l, Rabs_pos_eq; lra.
  - destruct g as [|g0 g], x as [|a x]; cbn in Hg, Hx; try discriminate.
    inversion Hd as [|? ? ? ? Hd0 Hd']; subst.
    destruct (IH g x ltac:(congruence) ltac:(congruence) Hd') as [d' [K' [Hd'pos [HK' Hb']]]].
    destruct (local_quadratic g0 a Hd0) as [r [K0 [Hr [HK0 Hq]]]].
    set (d1 := r * c / (1 + c)).
    assert (Hd1 : 0 < d1) by (unfold d1; apply Rdiv_lt_0_compat; nra).
    assert (Hd1sq : d1 * d1 <= c * (r * r)).
    { unfold d1. replace (r * c / (1 + c) * (r * c / (1 + c))) with ((r * r) * (c * c / ((1 + c) * (1 + c)))) by (field; lra).
      assert (c * c / ((1 + c) * (1 + c)) <= c).
      { apply Rmult_le_reg_r with ((1 + c) * (1 + c)); [nra|]. unfold Rdiv. rewrite Rmult_assoc, Rinv_l by nra. nra. }
      assert (0 <= r * r) by nra. nra. }
    exists (Rmin d1 d'), (K0 + K'). repeat split; [apply Rmin_pos; assumption|lra|].
    intros h Hh Hsm. destruct h as [|t h]; [discriminate|].
    cbn [vmap2]. rewrite !wdot_ones_cons, !wdot_cons. rewrite wdot_cons in Hsm.
    pose proof (Rmin_l d1 d'). pose proof (Rmin_r d1 d').
    pose proof (wdot_self_nonneg w h Hw) as Hrest.
    assert (Hmpos : 0 < Rmin d1 d') by (apply Rmin_pos; assumption).
    assert (Hmm : Rmin d1 d' * Rmin d1 d' <= d1 * d1) by nra.
    assert (Hmm' : Rmin d1 d' * Rmin d1 d' <= d' * d') by nra.
    assert (Htt : 0 <= c * (t * t)) by nra.
    assert (Ht : Rabs t <= r).
    { assert (t * t <= r * r) by nra. apply Rabs_le. split; nra. }
    specialize (Hq t Ht).
    specialize (Hb' h ltac:(cbn in Hh; congruence) ltac:(lra)).
    numR.
    set (A := wdot w (vmap2 phi g (vmap2 Rplus x h)) (vconst (length w) 1)) in *.
    set (B := wdot w (vmap2 phi g x) (vconst (length w) 1)) in *.
    set (D := wdot w (vmap2 dphi g x) h) in *.
    set (r0 := phi g0 (a + t) - phi g0 a - dphi g0 a * t) in *.
    replace (c * phi g0 (a + t) + A - (c * phi g0 a + B) - (c * (dphi g0 a * t) + D))
      with (c * r0 + (A - B - D)) by (unfold r0; ring).
    eapply Rle_trans; [apply Rabs_triang|].
    rewrite Rabs_mult, (Rabs_pos_eq c) by lra.
    assert (c * Rabs r0 <= c * (K0 * (t * t))) by (apply Rmult_le_compat_l; lra).
    assert (0 <= K' * (c * (t * t))) by (apply Rmult_le_pos; lra).
    assert (0 <= K0 * wdot w h h) by (apply Rmult_le_pos; lra).
    nra.
Qed.
End Separable.

(* ---- the leaf on the sigma carrier ---- *)
Section SepLeaf.
Variable n : nat.
Variable w : Vn n.
Hypothesis wpos : Forall (fun a => 0 < a) (vl w).
Variable phi dphi : R -> R -> R.
Variable dom : R -> R -> Prop.
Hypothesis local_quadratic : forall g a, dom g a ->
  exists r K, 0 < r /\ 0 <= K /\ forall t, Rabs t <= r ->
    Rabs (phi g (a + t) - phi g a - dphi g a * t) <= K * (t * t).
Variable g : Vn n.

Lemma sep_grad_len (x : Vn n) : length (sep_grad dphi (vl g) (vl x)) = n.
Proof. unfold sep_grad. rewrite vmap2_length; rewrite !vl_length; reflexivity. Qed.

Definition sleaf_sep : Leaf (lspace n w) :=
  @mkLeaf R (lspace n w)
    (fun x : Vn n => sep_val phi (vl w) (vl g) (vl x))
    (fun x : Vn n => exist _ (sep_grad dphi (vl g) (vl x)) (sep_grad_len x))
    LNan false.

Lemma sleaf_sep_sound (x : Vn n) : Forall2 dom (vl g) (vl x) -> leaf_sound sleaf_sep x.
Proof.
  intro Hd. unfold leaf_sound, is_grad. intros eps He.
  destruct (sep_list_remainder phi dphi dom local_quadratic (vl w) (vl g) (vl x) wpos
              ltac:(rewrite !vl_length; reflexivity) ltac:(rewrite !vl_length; reflexivity) Hd)
    as [d [K [Hd0 [HK Hb]]]].
  exists (Rmin d (eps / (K + 1))). split; [apply Rmin_pos; [assumption|apply Rdiv_lt_0_compat; lra]|].
  intros h Hh. pose proof (Rmin_l d (eps / (K + 1))). pose proof (Rmin_r d (eps / (K + 1))).
  pose proof (norm_nonneg (lspace n w) h) as Hn0.
  pose proof (norm_sq_lspace n w wpos h) as Hsq.
  assert (Hsm : wdot (vl w) (vl h) (vl h) < d * d) by (rewrite <- Hsq; nra).
  specialize (Hb (vl h) ltac:(rewrite !vl_length; reflexivity) Hsm).
  cbn [sleaf_sep lf_val lf_grad lspace sadd sinner ladd vl proj1_sig] in *.
  eapply Rle_trans; [exact Hb|]. rewrite <- Hsq.
  assert (K * norm (lspace n w) h <= eps).
  { assert (K * norm (lspace n w) h <= K * (eps / (K + 1))) by (apply Rmult_le_compat_l; lra).
    assert (K * (eps / (K + 1)) <= eps).
    { replace (K * (eps / (K + 1))) with (eps * (K / (K + 1))) by (field; lra).
      assert (K / (K + 1) <= 1).
      { apply Rmult_le_reg_r with (K + 1); [lra|]. unfold Rdiv. rewrite Rmult_assoc, Rinv_l by lra. lra. }
      nra. }
    lra. }
  nra.
Qed.
End SepLeaf.

(* ---- the Kullback-Leibler family (prior g; `prior=None` is g = 1) ---- *)
(* KullbackLeibler: sum x - g + g ln(g/x);  gradient 1 - g/x;  x > 0, g > 0 *)
Definition kl_phi (g a : R) : R := a - g + g * ln (g / a).
Definition kl_dphi (g a : R) : R := - g / a + 1.
Definition kl_dom (g a : R) : Prop := 0 < g /\ 0 < a.
Lemma kl_local : forall g a, kl_dom g a ->
  exists r K, 0 < r /\ 0 <= K /\ forall t, Rabs t <= r ->
    Rabs (kl_phi g (a + t) - kl_phi g a - kl_dphi g a * t) <= K * (t * t).
Proof.
  intros g a [Hg Ha]. exists (a / 2), (g * (2 / (a * a))). repeat split; [lra| |].
  { apply Rmult_le_pos; [lra|]. apply Rlt_le, Rdiv_lt_0_compat; nra. }
  intros t Ht. pose proof (ln_remainder a t Ha Ht) as Hr.
  assert (Hat : 0 < a + t) by (unfold Rabs in Ht; destruct (Rcase_abs t); lra).
  unfold kl_phi, kl_dphi. unfold Rdiv at 1 2. rewrite !ln_mult, !ln_Rinv; try lra; try (apply Rinv_0_lt_compat; lra).
  replace (a + t - g + g * (ln g + - ln (a + t)) - (a - g + g * (ln g + - ln a)) - (- g / a + 1) * t)
    with (- g * (ln (a + t) - ln a - t / a)) by (field; lra).
  rewrite Rabs_mult, Rabs_Ropp, (Rabs_pos_eq g) by lra.
  replace (g * (2 / (a * a)) * (t * t)) with (g * (2 * (t * t) / (a * a))) by (field; lra).
  apply Rmult_le_compat_l; [lra|]. apply Rabs_le. lra.
Qed.

(* KullbackLeiblerCrossEntropy: sum g - x + x ln(x/g); gradient ln(x/g); x > 0, g > 0 *)
Definition klce_phi (g a : R) : R := g - a + a * ln (a / g).
Definition klce_dphi (g a : R) : R := ln (a / g).
Lemma klce_local : forall g a, kl_dom g a ->
  exists r K, 0 < r /\ 0 <= K /\ forall t, Rabs t <= r ->
    Rabs (klce_phi g (a + t) - klce_phi g a - klce_dphi g a * t) <= K * (t * t).
Proof.
  intros g a [Hg Ha]. exists (a / 2), (2 / a + 4 / a). repeat split; [lra| |].
  { assert (0 < / a) by (apply Rinv_0_lt_compat; lra). unfold Rdiv. lra. }
  intros t Ht. pose proof (ln_remainder a t Ha Ht) as Hr.
  assert (Hb : - (a / 2) <= t <= a / 2) by (unfold Rabs in Ht; destruct (Rcase_abs t); lra).
  assert (Hat : 0 < a + t) by lra.
  unfold klce_phi, klce_dphi. unfold Rdiv at 1 2 3. rewrite !ln_mult, !ln_Rinv; try lra; try (apply Rinv_0_lt_compat; lra).
  set (q := ln (a + t) - ln a - t / a) in *.
  replace (g - (a + t) + (a + t) * (ln (a + t) + - ln g) - (g - a + a * (ln a + - ln g)) - (ln a + - ln g) * t)
    with ((a + t) * q + t * t / a) by (unfold q; field; lra).
  assert (Hia : 0 < / a) by (apply Rinv_0_lt_compat; lra).
  assert (Htt : 0 <= t * t) by nra.
  assert (Hq1 : Rabs q <= 2 * (t * t) / (a * a)) by (apply Rabs_le; lra).
  eapply Rle_trans; [apply Rabs_triang|].
  rewrite Rabs_mult, (Rabs_pos_eq (a + t)) by lra.
  rewrite (Rabs_pos_eq (t * t / a)) by (unfold Rdiv; apply Rmult_le_pos; lra).
  assert ((a + t) * Rabs q <= (2 * a) * (2 * (t * t) / (a * a))).
  { apply Rmult_le_compat; try lra. apply Rabs_pos. }
  replace (2 * a * (2 * (t * t) / (a * a))) with (4 / a * (t * t)) in * by (field; lra).
  replace ((2 / a + 4 / a) * (t * t)) with (2 / a * (t * t) + 4 / a * (t * t)) by ring.
  assert (t * t / a <= 2 / a * (t * t)).
  { unfold Rdiv. assert (0 <= t * t * / a) by (apply Rmult_le_pos; lra). lra. }
  lra.
Qed.

(* KullbackLeiblerCrossEntropyConvexConj: sum g (exp x - 1); gradient g exp x *)
Definition klcecc_phi (g a : R) : R := g * (exp a - 1).
Definition klcecc_dphi (g a : R) : R := g * exp a.
Lemma klcecc_local : forall g a, 0 <= g ->
  exists r K, 0 < r /\ 0 <= K /\ forall t, Rabs t <= r ->
    Rabs (klcecc_phi g (a + t) - klcecc_phi g a - klcecc_dphi g a * t) <= K * (t * t).
Proof.
  intros g a Hg. exists (/ 2), (g * exp a * 2). pose proof (exp_pos a) as Hp.
  repeat split; [lra| |].
  { apply Rmult_le_pos; [apply Rmult_le_pos|]; lra. }
  intros t Ht. pose proof (exp_remainder t Ht) as Hr.
  unfold klcecc_phi, klcecc_dphi. rewrite exp_plus.
  replace (g * (exp a * exp t - 1) - g * (exp a - 1) - g * exp a * t)
    with (g * exp a * (exp t - 1 - t)) by ring.
  rewrite Rabs_pos_eq.
  - replace (g * exp a * 2 * (t * t)) with (g * exp a * (2 * (t * t))) by ring.
    apply Rmult_le_compat_l; [apply Rmult_le_pos; lra|lra].
  - apply Rmult_le_pos; [apply Rmult_le_pos; lra|lra].
Qed.

(* KullbackLeiblerConvexConj: sum - g ln(1 - x); gradient g / (1 - x); x < 1, g >= 0 *)
Definition klcc_phi (g a : R) : R := - (g * ln (1 - a)).
Definition klcc_dphi (g a : R) : R := g / (1 - a).
Definition klcc_dom (g a : R) : Prop := 0 <= g /\ a < 1.
Lemma klcc_local : forall g a, klcc_dom g a ->
  exists r K, 0 < r /\ 0 <= K /\ forall t, Rabs t <= r ->
    Rabs (klcc_phi g (a + t) - klcc_phi g a - klcc_dphi g a * t) <= K * (t * t).
Proof.
  intros g a [Hg Ha]. set (b := 1 - a). assert (Hb : 0 < b) by (unfold b; lra).
  exists (b / 2), (g * (2 / (b * b))). repeat split; [lra| |].
  { apply Rmult_le_pos; [lra|]. apply Rlt_le, Rdiv_lt_0_compat; nra. }
  intros t Ht. assert (Ht' : Rabs (- t) <= b / 2) by (rewrite Rabs_Ropp; exact Ht).
  pose proof (ln_remainder b (- t) Hb Ht') as Hr.
  unfold klcc_phi, klcc_dphi. replace (1 - (a + t)) with (b + - t) by (unfold b; ring). fold b.
  replace (- (g * ln (b + - t)) - - (g * ln b) - g / b * t)
    with (- g * (ln (b + - t) - ln b - - t / b)) by (field; lra).
  rewrite Rabs_mult, Rabs_Ropp, (Rabs_pos_eq g) by lra.
  replace (g * (2 / (b * b)) * (t * t)) with (g * (2 * (- t * - t) / (b * b))) by (field; lra).
  apply Rmult_le_compat_l; [lra|]. apply Rabs_le. lra.
Qed.

(* ---- packaged: the four leaves on weighted lists ---- *)
Section KLLeaves.
Variable n : nat.
Variable w : Vn n.
Hypothesis wpos : Forall (fun a => 0 < a) (vl w).
Variable g : Vn n.

Lemma kl_sound (x : Vn n) : Forall2 kl_dom (vl g) (vl x) ->
  leaf_sound (sleaf_sep n w kl_phi kl_dphi g) x.
Proof. apply (sleaf_sep_sound n w wpos kl_phi kl_dphi kl_dom kl_local g). Qed.
Lemma klcc_sound (x : Vn n) : Forall2 klcc_dom (vl g) (vl x) ->
  leaf_sound (sleaf_sep n w klcc_phi klcc_dphi g) x.
Proof. apply (sleaf_sep_sound n w wpos klcc_phi klcc_dphi klcc_dom klcc_local g). Qed.
Lemma klce_sound (x : Vn n) : Forall2 kl_dom (vl g) (vl x) ->
  leaf_sound (sleaf_sep n w klce_phi klce_dphi g) x.
Proof. apply (sleaf_sep_sound n w wpos klce_phi klce_dphi kl_dom klce_local g). Qed.
Lemma klcecc_sound (x : Vn n) : Forall2 (fun g0 _ => 0 <= g0) (vl g) (vl x) ->
  leaf_sound (sleaf_sep n w klcecc_phi klcecc_dphi g) x.
Proof.
  apply (sleaf_sep_sound n w wpos klcecc_phi klcecc_dphi (fun g0 _ => 0 <= g0)).
  intros g0 a Hg0. apply klcecc_local. exact Hg0.
Qed.
End KLLeaves.
