(* C09/IPS.v -- real (semi-)inner-product spaces over the [Space] record of
   C09/Model.v at the carrier R: laws, norm, Cauchy-Schwarz, triangle
   inequality, little-o / big-O calculus and the Frechet gradient.
   Everything is inside Sections: the laws are explicit premises of every
   exported lemma ([SpaceLaws S]); instances are given in C09/Instances.v. *)
From Coq Require Import Reals Lra Lia Psatz List Bool.
From Verif Require Import Base.Num C09.Model.
Local Open Scope R_scope.

Notation RSpace := (@Space R).

(* The laws of a real vector space with a positive semi-definite symmetric
   bilinear form, its norm, and a bounded pointwise multiplication that is
   self-adjoint w.r.t. the form (true of every diagonally weighted space). *)
Record SpaceLaws (S : RSpace) : Prop := mkLaws {
  add_comm : forall x y, sadd S x y = sadd S y x;
  add_assoc : forall x y z, sadd S (sadd S x y) z = sadd S x (sadd S y z);
  add_0_r : forall x, sadd S x (szero S) = x;
  scal_1 : forall x, sscal S 1 x = x;
  scal_0 : forall x, sscal S 0 x = szero S;
  scal_scal : forall a b x, sscal S a (sscal S b x) = sscal S (a * b) x;
  scal_add_r : forall a x y, sscal S a (sadd S x y) = sadd S (sscal S a x) (sscal S a y);
  scal_add_l : forall a b x, sscal S (a + b) x = sadd S (sscal S a x) (sscal S b x);
  inner_sym : forall x y, sinner S x y = sinner S y x;
  inner_add_l : forall x y z, sinner S (sadd S x y) z = sinner S x z + sinner S y z;
  inner_scal_l : forall a x y, sinner S (sscal S a x) y = a * sinner S x y;
  inner_nonneg : forall x, 0 <= sinner S x x;
  norm_def : forall x, snorm S x = sqrt (sinner S x x);
  mul_comm : forall x y, smul S x y = smul S y x;
  mul_add_r : forall v x y, smul S v (sadd S x y) = sadd S (smul S v x) (smul S v y);
  mul_scal_r : forall v a x, smul S v (sscal S a x) = sscal S a (smul S v x);
  mul_adj : forall v x y, sinner S (smul S v x) y = sinner S x (smul S v y);
  mul_bound : exists C, 0 <= C /\
     forall x y, sinner S (smul S x y) (smul S x y) <= C * sinner S x x * sinner S y y }.

Section Space.
Variable S : RSpace.
Hypothesis L : SpaceLaws S.

Notation V := (car S).
Notation "x +v y" := (sadd S x y) (at level 50, left associativity).
Notation "a *v x" := (sscal S a x) (at level 40, left associativity).
Notation "x -v y" := (@ssub R _ S x y) (at level 50, left associativity).
Notation "<< x , y >>" := (sinner S x y).
Notation "0v" := (szero S).

Definition norm (x : V) : R := sqrt (<< x , x >>).

(* ---- vector-space bookkeeping ---- *)
Lemma ssub_def (x y : V) : x -v y = x +v (-1) *v y.
Proof. unfold ssub; numR. replace (- (1)) with (-1) by lra. reflexivity. Qed.
Lemma add_0_l (x : V) : 0v +v x = x.
Proof. rewrite (add_comm S L); apply (add_0_r S L). Qed.
Lemma add_opp (x : V) : x +v (-1) *v x = 0v.
Proof.
  rewrite <- (scal_1 S L x) at 1. rewrite <- (scal_add_l S L).
  replace (1 + -1) with 0 by lra. apply (scal_0 S L).
Qed.
Lemma sub_self (x : V) : x -v x = 0v.
Proof. rewrite ssub_def. apply add_opp. Qed.
Lemma add_sub_cancel (a b : V) : b +v (a -v b) = a.
Proof.
  rewrite ssub_def, (add_comm S L a), <- (add_assoc S L), add_opp. apply add_0_l.
Qed.
Lemma add_sub_swap (x h t : V) : (x +v h) -v t = (x -v t) +v h.
Proof.
  rewrite !ssub_def, !(add_assoc S L). f_equal. apply (add_comm S L).
Qed.
Lemma scal_zero_r (a : R) : a *v 0v = 0v.
Proof. rewrite <- (scal_0 S L 0v), (scal_scal S L). replace (a * 0) with 0 by lra. reflexivity. Qed.
Lemma add_cancel_mid (x h : V) : (x +v h) -v x = h.
Proof.
  rewrite ssub_def, (add_comm S L x h), (add_assoc S L), add_opp. apply (add_0_r S L).
Qed.

Lemma add_shuffle (a b c d : V) : (a +v b) +v (c +v d) = (a +v c) +v (b +v d).
Proof.
  rewrite !(add_assoc S L). f_equal. rewrite <- !(add_assoc S L). f_equal. apply (add_comm S L).
Qed.
Lemma sub_add_distr (a b a' b' : V) : (a +v b) -v (a' +v b') = (a -v a') +v (b -v b').
Proof. rewrite !ssub_def, (scal_add_r S L). apply add_shuffle. Qed.
Lemma scal_sub (s : R) (a b : V) : s *v a -v s *v b = s *v (a -v b).
Proof.
  rewrite !ssub_def, (scal_add_r S L), !(scal_scal S L). do 2 f_equal. ring.
Qed.
Lemma sub_0_r (a : V) : a -v 0v = a.
Proof. rewrite ssub_def, scal_zero_r. apply (add_0_r S L). Qed.
Lemma sub_add_cancel_r (a b u : V) : (a +v u) -v (b +v u) = a -v b.
Proof. rewrite sub_add_distr, sub_self. apply (add_0_r S L). Qed.
Lemma sub_sub_cancel (x y t : V) : (x -v t) -v (y -v t) = x -v y.
Proof.
  rewrite (ssub_def x t), (ssub_def y t). apply sub_add_cancel_r.
Qed.
Lemma sub_split (p q r : V) : p -v q = (p -v r) +v (r -v q).
Proof.
  rewrite !ssub_def, (add_assoc S L p), <- (add_assoc S L ((-1) *v r) r),
    (add_comm S L ((-1) *v r) r), add_opp, add_0_l. reflexivity.
Qed.
Lemma sub_add_sub (x t0 t : V) : x -v (t0 +v t) = (x -v t) -v t0.
Proof.
  rewrite !ssub_def, (scal_add_r S L), (add_assoc S L). f_equal. apply (add_comm S L).
Qed.

(* ---- the bilinear form ---- *)
Lemma inner_add_r (x y z : V) : << x , y +v z >> = << x , y >> + << x , z >>.
Proof. rewrite (inner_sym S L), (inner_add_l S L), !(inner_sym S L x). reflexivity. Qed.
Lemma inner_scal_r (a : R) (x y : V) : << x , a *v y >> = a * << x , y >>.
Proof. rewrite (inner_sym S L), (inner_scal_l S L), (inner_sym S L). reflexivity. Qed.
Lemma inner_zero_l (y : V) : << 0v , y >> = 0.
Proof. rewrite <- (scal_0 S L y), (inner_scal_l S L). lra. Qed.
Lemma inner_zero_r (y : V) : << y , 0v >> = 0.
Proof. rewrite (inner_sym S L). apply inner_zero_l. Qed.
Lemma inner_sub_l (x y z : V) : << x -v y , z >> = << x , z >> - << y , z >>.
Proof. rewrite ssub_def, (inner_add_l S L), (inner_scal_l S L). lra. Qed.
Lemma inner_sub_r (x y z : V) : << z , x -v y >> = << z , x >> - << z , y >>.
Proof. rewrite (inner_sym S L), inner_sub_l, !(inner_sym S L z). reflexivity. Qed.

Lemma norm_nonneg (x : V) : 0 <= norm x.
Proof. apply sqrt_pos. Qed.
Lemma norm_sqr (x : V) : norm x * norm x = << x , x >>.
Proof. apply sqrt_sqrt, (inner_nonneg S L). Qed.
Lemma snorm_norm (x : V) : snorm S x = norm x.
Proof. apply (norm_def S L). Qed.
Lemma norm_zero : norm 0v = 0.
Proof. unfold norm. rewrite inner_zero_l. apply sqrt_0. Qed.

Lemma le_of_sqr (a b : R) : 0 <= b -> a * a <= b * b -> a <= b.
Proof. intros Hb Hab. destruct (Rle_lt_dec a b) as [|Hlt]; [assumption|]. nra. Qed.

Lemma cauchy_schwarz_sqr (x y : V) : << x , y >> * << x , y >> <= << x , x >> * << y , y >>.
Proof.
  pose proof (inner_nonneg S L x) as Hx. pose proof (inner_nonneg S L y) as Hy.
  assert (Hq : forall t, 0 <= << x , x >> + 2 * t * << x , y >> + t * t * << y , y >>).
  { intro t. pose proof (inner_nonneg S L (x +v t *v y)) as Hn.
    rewrite (inner_add_l S L), !inner_add_r, !(inner_scal_l S L), !inner_scal_r in Hn.
    rewrite (inner_sym S L y x) in Hn. lra. }
  destruct (Req_dec (<< y , y >>) 0) as [Hy0 | Hy0].
  - rewrite Hy0. destruct (Req_dec (<< x , y >>) 0) as [Hxy | Hxy]; [rewrite Hxy; lra|].
    exfalso. specialize (Hq (- (<< x , x >> + 1) / (2 * << x , y >>))).
    rewrite Hy0 in Hq.
    replace (2 * (- (<< x, x >> + 1) / (2 * << x, y >>)) * << x, y >>) with (- (<< x , x >> + 1)) in Hq
      by (field; assumption).
    lra.
  - assert (Hpos : 0 < << y , y >>) by lra.
    specialize (Hq (- << x , y >> / << y , y >>)).
    replace (<< x, x >> + 2 * (- << x, y >> / << y, y >>) * << x, y >> +
             - << x, y >> / << y, y >> * (- << x, y >> / << y, y >>) * << y, y >>)
      with (<< x , x >> - << x , y >> * << x , y >> / << y , y >>) in Hq by (field; assumption).
    assert (Hm : 0 <= (<< x , x >> - << x , y >> * << x , y >> / << y , y >>) * << y , y >>)
      by (apply Rmult_le_pos; lra).
    replace ((<< x , x >> - << x , y >> * << x , y >> / << y , y >>) * << y , y >>)
      with (<< x , x >> * << y , y >> - << x , y >> * << x , y >>) in Hm by (field; assumption).
    lra.
Qed.

Lemma cauchy_schwarz (x y : V) : Rabs (<< x , y >>) <= norm x * norm y.
Proof.
  apply le_of_sqr.
  - apply Rmult_le_pos; apply norm_nonneg.
  - replace (Rabs << x , y >> * Rabs << x , y >>) with (<< x , y >> * << x , y >>)
      by (rewrite <- Rabs_mult; symmetry; apply Rabs_pos_eq; nra).
    pose proof (cauchy_schwarz_sqr x y). pose proof (norm_sqr x). pose proof (norm_sqr y). nra.
Qed.

Lemma norm_triangle (x y : V) : norm (x +v y) <= norm x + norm y.
Proof.
  pose proof (norm_nonneg x). pose proof (norm_nonneg y).
  apply le_of_sqr; [lra|].
  rewrite norm_sqr, (inner_add_l S L), !inner_add_r, (inner_sym S L y x).
  pose proof (cauchy_schwarz x y) as Hcs. pose proof (Rle_abs (<< x , y >>)).
  pose proof (norm_sqr x). pose proof (norm_sqr y). nra.
Qed.

Lemma norm_scal (a : R) (x : V) : norm (a *v x) = Rabs a * norm x.
Proof.
  unfold norm. rewrite (inner_scal_l S L), inner_scal_r.
  replace (a * (a * << x , x >>)) with (Rsqr a * << x , x >>) by (unfold Rsqr; ring).
  rewrite sqrt_mult; [| apply Rle_0_sqr | apply (inner_nonneg S L)].
  rewrite sqrt_Rsqr_abs. reflexivity.
Qed.
Lemma norm_opp (x : V) : norm ((-1) *v x) = norm x.
Proof. rewrite norm_scal. replace (Rabs (-1)) with 1 by (rewrite Rabs_left; lra). lra. Qed.
Lemma norm_sub_triangle (x y : V) : norm (x -v y) <= norm x + norm y.
Proof. rewrite ssub_def. pose proof (norm_triangle x ((-1) *v y)). rewrite norm_opp in *. lra. Qed.
Lemma norm_sub_sym (x y : V) : norm (x -v y) = norm (y -v x).
Proof.
  assert (E : x -v y = (-1) *v (y -v x)).
  { rewrite !ssub_def, (scal_add_r S L), (scal_scal S L).
    replace (-1 * -1) with 1 by lra. rewrite (scal_1 S L). apply (add_comm S L). }
  rewrite E. apply norm_opp.
Qed.

Lemma norm_mul (x y : V) : exists C, 0 <= C /\ forall x y, norm (smul S x y) <= C * norm x * norm y.
Proof.
  destruct (mul_bound S L) as [C [HC Hb]].
  exists (sqrt C). split; [apply sqrt_pos|]. intros a b.
  pose proof (norm_nonneg a). pose proof (norm_nonneg b). pose proof (sqrt_pos C).
  apply le_of_sqr.
  - apply Rmult_le_pos; [apply Rmult_le_pos|]; assumption.
  - rewrite norm_sqr. specialize (Hb a b).
    pose proof (norm_sqr a). pose proof (norm_sqr b). pose proof (sqrt_sqrt C HC). nra.
Qed.

(* ---- little-o / big-O / locally bounded, for remainders h |-> r(h) ---- *)
Definition is_o (r : V -> R) : Prop :=
  forall eps, 0 < eps -> exists delta, 0 < delta /\
    forall h, norm h < delta -> Rabs (r h) <= eps * norm h.
Definition is_O (r : V -> R) : Prop :=
  exists C delta, 0 <= C /\ 0 < delta /\ forall h, norm h < delta -> Rabs (r h) <= C * norm h.
Definition is_bdd (r : V -> R) : Prop :=
  exists C delta, 0 <= C /\ 0 < delta /\ forall h, norm h < delta -> Rabs (r h) <= C.

Lemma is_o_ext (r r' : V -> R) : (forall h, r h = r' h) -> is_o r -> is_o r'.
Proof. intros E Hr eps He. destruct (Hr eps He) as [d [Hd Hb]]. exists d. split; [assumption|].
  intros h Hh. rewrite <- E. auto. Qed.
Lemma is_o_zero : is_o (fun _ => 0).
Proof. intros eps He. exists 1. split; [lra|]. intros h _. rewrite Rabs_R0.
  pose proof (norm_nonneg h). nra. Qed.
Lemma is_o_add (r1 r2 : V -> R) : is_o r1 -> is_o r2 -> is_o (fun h => r1 h + r2 h).
Proof.
  intros H1 H2 eps He.
  destruct (H1 (eps / 2)) as [d1 [Hd1 Hb1]]; [lra|].
  destruct (H2 (eps / 2)) as [d2 [Hd2 Hb2]]; [lra|].
  exists (Rmin d1 d2). split; [apply Rmin_pos; assumption|].
  intros h Hh. pose proof (Rmin_l d1 d2). pose proof (Rmin_r d1 d2).
  specialize (Hb1 h ltac:(lra)). specialize (Hb2 h ltac:(lra)).
  pose proof (Rabs_triang (r1 h) (r2 h)). lra.
Qed.
Lemma is_o_scal (c : R) (r : V -> R) : is_o r -> is_o (fun h => c * r h).
Proof.
  intros Hr eps He.
  destruct (Hr (eps / (Rabs c + 1))) as [d [Hd Hb]].
  { apply Rdiv_lt_0_compat; [assumption|]. pose proof (Rabs_pos c). lra. }
  exists d. split; [assumption|]. intros h Hh. specialize (Hb h Hh).
  rewrite Rabs_mult. pose proof (Rabs_pos c). pose proof (norm_nonneg h). pose proof (Rabs_pos (r h)).
  assert (Hc : Rabs c * Rabs (r h) <= Rabs c * (eps / (Rabs c + 1) * norm h))
    by (apply Rmult_le_compat_l; assumption).
  assert (Hfrac : Rabs c * (eps / (Rabs c + 1)) <= eps).
  { replace (Rabs c * (eps / (Rabs c + 1))) with (eps * (Rabs c / (Rabs c + 1))) by (field; lra).
    assert (Rabs c / (Rabs c + 1) <= 1).
    { apply Rmult_le_reg_r with (Rabs c + 1); [lra|]. unfold Rdiv. rewrite Rmult_assoc, Rinv_l by lra. lra. }
    nra. }
  nra.
Qed.
Lemma is_o_opp (r : V -> R) : is_o r -> is_o (fun h => - r h).
Proof. intro Hr. apply is_o_ext with (fun h => (-1) * r h); [intro; ring|]. apply is_o_scal, Hr. Qed.
Lemma is_o_sub (r1 r2 : V -> R) : is_o r1 -> is_o r2 -> is_o (fun h => r1 h - r2 h).
Proof. intros H1 H2. apply is_o_ext with (fun h => r1 h + - r2 h); [intro; ring|].
  apply is_o_add; [assumption|apply is_o_opp; assumption]. Qed.

Lemma is_o_O (r : V -> R) : is_o r -> is_O r.
Proof. intro Hr. destruct (Hr 1 Rlt_0_1) as [d [Hd Hb]]. exists 1, d. repeat split; [lra|assumption|].
  intros h Hh. specialize (Hb h Hh). lra. Qed.
Lemma is_O_inner (g : V) : is_O (fun h => << g , h >>).
Proof. exists (norm g), 1. repeat split; [apply norm_nonneg|lra|]. intros h _. apply cauchy_schwarz. Qed.
Lemma is_O_add (r1 r2 : V -> R) : is_O r1 -> is_O r2 -> is_O (fun h => r1 h + r2 h).
Proof.
  intros [C1 [d1 [HC1 [Hd1 Hb1]]]] [C2 [d2 [HC2 [Hd2 Hb2]]]].
  exists (C1 + C2), (Rmin d1 d2). repeat split; [lra|apply Rmin_pos; assumption|].
  intros h Hh. pose proof (Rmin_l d1 d2). pose proof (Rmin_r d1 d2).
  specialize (Hb1 h ltac:(lra)). specialize (Hb2 h ltac:(lra)).
  pose proof (Rabs_triang (r1 h) (r2 h)). lra.
Qed.
Lemma is_O_ext (r r' : V -> R) : (forall h, r h = r' h) -> is_O r -> is_O r'.
Proof. intros E [C [d [HC [Hd Hb]]]]. exists C, d. repeat split; try assumption.
  intros h Hh. rewrite <- E. auto. Qed.
Lemma is_O_bdd (r : V -> R) : is_O r -> is_bdd r.
Proof.
  intros [C [d [HC [Hd Hb]]]]. exists C, (Rmin d 1). repeat split; [assumption|apply Rmin_pos; lra|].
  intros h Hh. pose proof (Rmin_l d 1). pose proof (Rmin_r d 1).
  specialize (Hb h ltac:(lra)). pose proof (norm_nonneg h). nra.
Qed.
Lemma is_bdd_const (c : R) : is_bdd (fun _ => c).
Proof. exists (Rabs c), 1. repeat split; [apply Rabs_pos|lra|]. intros; lra. Qed.
Lemma is_bdd_add (r1 r2 : V -> R) : is_bdd r1 -> is_bdd r2 -> is_bdd (fun h => r1 h + r2 h).
Proof.
  intros [C1 [d1 [HC1 [Hd1 Hb1]]]] [C2 [d2 [HC2 [Hd2 Hb2]]]].
  exists (C1 + C2), (Rmin d1 d2). repeat split; [lra|apply Rmin_pos; assumption|].
  intros h Hh. pose proof (Rmin_l d1 d2). pose proof (Rmin_r d1 d2).
  specialize (Hb1 h ltac:(lra)). specialize (Hb2 h ltac:(lra)).
  pose proof (Rabs_triang (r1 h) (r2 h)). lra.
Qed.
Lemma is_o_mul_bdd (r b : V -> R) : is_o r -> is_bdd b -> is_o (fun h => r h * b h).
Proof.
  intros Hr [C [d [HC [Hd Hb]]]] eps He.
  destruct (Hr (eps / (C + 1))) as [d1 [Hd1 Hb1]]; [apply Rdiv_lt_0_compat; lra|].
  exists (Rmin d d1). split; [apply Rmin_pos; assumption|].
  intros h Hh. pose proof (Rmin_l d d1). pose proof (Rmin_r d d1).
  specialize (Hb h ltac:(lra)). specialize (Hb1 h ltac:(lra)).
  rewrite Rabs_mult. pose proof (Rabs_pos (r h)). pose proof (Rabs_pos (b h)). pose proof (norm_nonneg h).
  assert (Hm1 : Rabs (r h) * Rabs (b h) <= (eps / (C + 1) * norm h) * C).
  { apply Rmult_le_compat; assumption. }
  assert (Hm2 : eps / (C + 1) * C <= eps).
  { replace (eps / (C + 1) * C) with (eps * (C / (C + 1))) by (field; lra).
    assert (C / (C + 1) <= 1).
    { apply Rmult_le_reg_r with (C + 1); [lra|]. unfold Rdiv. rewrite Rmult_assoc, Rinv_l by lra. lra. }
    nra. }
  nra.
Qed.
Lemma is_O_mul_O (r1 r2 : V -> R) : is_O r1 -> is_O r2 -> is_o (fun h => r1 h * r2 h).
Proof.
  intros [C1 [d1 [HC1 [Hd1 Hb1]]]] [C2 [d2 [HC2 [Hd2 Hb2]]]] eps He.
  exists (Rmin (Rmin d1 d2) (eps / (C1 * C2 + 1))). split.
  { apply Rmin_pos; [apply Rmin_pos; assumption|]. apply Rdiv_lt_0_compat; nra. }
  intros h Hh.
  pose proof (Rmin_l (Rmin d1 d2) (eps / (C1 * C2 + 1))).
  pose proof (Rmin_r (Rmin d1 d2) (eps / (C1 * C2 + 1))).
  pose proof (Rmin_l d1 d2). pose proof (Rmin_r d1 d2).
  specialize (Hb1 h ltac:(lra)). specialize (Hb2 h ltac:(lra)).
  rewrite Rabs_mult. pose proof (Rabs_pos (r1 h)). pose proof (Rabs_pos (r2 h)). pose proof (norm_nonneg h).
  assert (Hm1 : Rabs (r1 h) * Rabs (r2 h) <= (C1 * norm h) * (C2 * norm h))
    by (apply Rmult_le_compat; assumption).
  assert (Hn : norm h <= eps / (C1 * C2 + 1)) by lra.
  assert (Hm2 : C1 * C2 * norm h <= eps).
  { assert (C1 * C2 * norm h <= C1 * C2 * (eps / (C1 * C2 + 1))) by (apply Rmult_le_compat_l; nra).
    assert (C1 * C2 * (eps / (C1 * C2 + 1)) <= eps).
    { replace (C1 * C2 * (eps / (C1 * C2 + 1))) with (eps * (C1 * C2 / (C1 * C2 + 1))) by (field; nra).
      assert (C1 * C2 / (C1 * C2 + 1) <= 1).
      { apply Rmult_le_reg_r with (C1 * C2 + 1); [nra|]. unfold Rdiv. rewrite Rmult_assoc, Rinv_l by nra. nra. }
      nra. }
    lra. }
  nra.
Qed.

(* ---- the Frechet gradient of f at x w.r.t. the space's own form ---- *)
Definition is_grad (f : V -> R) (x g : V) : Prop :=
  is_o (fun h => f (x +v h) - f x - << g , h >>).

(* increments are O(|h|) *)
Lemma is_grad_incr_O (f : V -> R) (x g : V) : is_grad f x g -> is_O (fun h => f (x +v h) - f x).
Proof.
  intro Hg. apply is_O_ext with (fun h => (f (x +v h) - f x - << g , h >>) + << g , h >>); [intro; ring|].
  apply is_O_add; [apply is_o_O, Hg | apply is_O_inner].
Qed.

Lemma is_grad_ext (f f' : V -> R) (x g : V) : (forall y, f y = f' y) -> is_grad f x g -> is_grad f' x g.
Proof. intros E H. unfold is_grad in *. eapply is_o_ext; [|exact H]. intro h. cbn. rewrite !E. reflexivity. Qed.

Lemma is_grad_const (c : R) (x : V) : is_grad (fun _ => c) x 0v.
Proof. unfold is_grad. apply is_o_ext with (fun _ => 0); [|apply is_o_zero].
  intro h. rewrite inner_zero_l. ring. Qed.

Lemma is_grad_linear (b : V) (c : R) (x : V) : is_grad (fun y => << b , y >> + c) x b.
Proof. unfold is_grad. apply is_o_ext with (fun _ => 0); [|apply is_o_zero].
  intro h. rewrite inner_add_r. ring. Qed.

Lemma is_grad_add (f1 f2 : V -> R) (x g1 g2 : V) :
  is_grad f1 x g1 -> is_grad f2 x g2 -> is_grad (fun y => f1 y + f2 y) x (g1 +v g2).
Proof.
  intros H1 H2. unfold is_grad in *.
  eapply is_o_ext; [|exact (is_o_add _ _ H1 H2)]. intro h. cbn. rewrite (inner_add_l S L). ring.
Qed.

Lemma is_grad_scal (c : R) (f : V -> R) (x g : V) :
  is_grad f x g -> is_grad (fun y => c * f y) x (c *v g).
Proof.
  intros H1. unfold is_grad in *.
  eapply is_o_ext; [|exact (is_o_scal c _ H1)]. intro h. cbn. rewrite (inner_scal_l S L). ring.
Qed.

Lemma is_grad_l2sq (x : V) : is_grad (fun y => << y , y >>) x (2 *v x).
Proof.
  unfold is_grad.
  apply is_o_ext with (fun h => << h , h >>).
  { intro h. rewrite (inner_add_l S L), !inner_add_r, (inner_scal_l S L), (inner_sym S L h x). ring. }
  apply is_o_ext with (fun h => << h , h >> * 1); [intro; ring|].
  intros eps He. exists eps. split; [assumption|]. intros h Hh.
  rewrite Rmult_1_r, <- norm_sqr. pose proof (norm_nonneg h).
  rewrite Rabs_pos_eq by nra. nra.
Qed.

Lemma is_grad_mul (f1 f2 : V -> R) (x g1 g2 : V) :
  is_grad f1 x g1 -> is_grad f2 x g2 ->
  is_grad (fun y => f1 y * f2 y) x (f2 x *v g1 +v f1 x *v g2).
Proof.
  intros H1 H2. unfold is_grad.
  apply is_o_ext with (fun h =>
     (f2 x * (f1 (x +v h) - f1 x - << g1 , h >>) + f1 x * (f2 (x +v h) - f2 x - << g2 , h >>))
     + (f1 (x +v h) - f1 x) * (f2 (x +v h) - f2 x)).
  { intro h. rewrite (inner_add_l S L), !(inner_scal_l S L). ring. }
  apply is_o_add; [apply is_o_add; apply is_o_scal; assumption|].
  apply is_O_mul_O; eapply is_grad_incr_O; eassumption.
Qed.

(* reciprocal *)
Lemma is_grad_inv (f : V -> R) (x g : V) :
  f x <> 0 -> is_grad f x g -> is_grad (fun y => / f y) x ((- / (f x * f x)) *v g).
Proof.
  intros Hx Hg. unfold is_grad.
  pose proof (is_grad_incr_O f x g Hg) as HO.
  (* near x, |f(x+h)| >= |f x| / 2 *)
  assert (Hfar : exists d, 0 < d /\ forall h, norm h < d -> Rabs (f x) / 2 <= Rabs (f (x +v h))).
  { destruct HO as [C [d [HC [Hd Hb]]]].
    exists (Rmin d (Rabs (f x) / (2 * (C + 1)))). split.
    { apply Rmin_pos; [assumption|]. apply Rdiv_lt_0_compat; [apply Rabs_pos_lt; assumption|lra]. }
    intros h Hh. pose proof (Rmin_l d (Rabs (f x) / (2 * (C + 1)))).
    pose proof (Rmin_r d (Rabs (f x) / (2 * (C + 1)))).
    specialize (Hb h ltac:(lra)).
    assert (Hn : C * norm h <= Rabs (f x) / 2).
    { pose proof (norm_nonneg h). pose proof (Rabs_pos (f x)).
      assert (C * norm h <= C * (Rabs (f x) / (2 * (C + 1)))) by (apply Rmult_le_compat_l; lra).
      assert (C * (Rabs (f x) / (2 * (C + 1))) <= Rabs (f x) / 2).
      { replace (C * (Rabs (f x) / (2 * (C + 1)))) with (Rabs (f x) / 2 * (C / (C + 1))) by (field; lra).
        assert (C / (C + 1) <= 1).
        { apply Rmult_le_reg_r with (C + 1); [lra|]. unfold Rdiv. rewrite Rmult_assoc, Rinv_l by lra. lra. }
        nra. }
      lra. }
    pose proof (Rabs_triang_inv (f x) (f x - f (x +v h))) as Ht.
    replace (f x - (f x - f (x +v h))) with (f (x +v h)) in Ht by ring.
    rewrite (Rabs_minus_sym (f x)) in Ht. lra. }
  destruct Hfar as [d0 [Hd0 Hfar]].
  (* 1/f(x+h) is locally bounded *)
  assert (Hbdd : is_bdd (fun h => / (f x * f x * f (x +v h)))).
  { exists (2 / (Rabs (f x) * Rabs (f x) * Rabs (f x))), d0.
    assert (Hax : 0 < Rabs (f x)) by (apply Rabs_pos_lt; assumption).
    repeat split; [|assumption|].
    { apply Rlt_le, Rdiv_lt_0_compat; [lra|]. apply Rmult_lt_0_compat; [apply Rmult_lt_0_compat|]; assumption. }
    intros h Hh. specialize (Hfar h Hh).
    assert (Hne : f (x +v h) <> 0) by (intro E; rewrite E, Rabs_R0 in Hfar; lra).
    rewrite Rabs_inv.
    rewrite !Rabs_mult.
    assert (Hp : 0 < Rabs (f x) * Rabs (f x) * Rabs (f (x +v h))).
    { apply Rmult_lt_0_compat; [apply Rmult_lt_0_compat; assumption|lra]. }
    apply Rmult_le_reg_r with (Rabs (f x) * Rabs (f x) * Rabs (f (x +v h))); [assumption|].
    rewrite Rinv_l by lra.
    replace (2 / (Rabs (f x) * Rabs (f x) * Rabs (f x)) * (Rabs (f x) * Rabs (f x) * Rabs (f (x +v h))))
      with (2 * Rabs (f (x +v h)) / Rabs (f x)) by (field; lra).
    apply Rmult_le_reg_r with (Rabs (f x)); [assumption|].
    unfold Rdiv. rewrite Rmult_assoc, Rinv_l by lra. lra. }
  (* the algebraic identity, valid where f(x+h) <> 0, i.e. for small h *)
  intros eps He.
  assert (Ho : is_o (fun h => (f (x +v h) - f x) * (f (x +v h) - f x) * / (f x * f x * f (x +v h))
                              - / (f x * f x) * (f (x +v h) - f x - << g , h >>))).
  { apply is_o_sub; [apply is_o_mul_bdd; [apply is_O_mul_O; assumption|assumption]|].
    apply is_o_scal. exact Hg. }
  destruct (Ho eps He) as [d1 [Hd1 Hb1]].
  exists (Rmin d0 d1). split; [apply Rmin_pos; assumption|].
  intros h Hh. pose proof (Rmin_l d0 d1). pose proof (Rmin_r d0 d1).
  specialize (Hb1 h ltac:(lra)). specialize (Hfar h ltac:(lra)).
  assert (Hax : 0 < Rabs (f x)) by (apply Rabs_pos_lt; assumption).
  assert (Hne : f (x +v h) <> 0) by (intro E; rewrite E, Rabs_R0 in Hfar; lra).
  replace (/ f (x +v h) - / f x - << - / (f x * f x) *v g , h >>)
    with ((f (x +v h) - f x) * (f (x +v h) - f x) * / (f x * f x * f (x +v h))
          - / (f x * f x) * (f (x +v h) - f x - << g , h >>)).
  { exact Hb1. }
  rewrite (inner_scal_l S L). field. split; assumption.
Qed.

Lemma is_grad_div (f1 f2 : V -> R) (x g1 g2 : V) :
  f2 x <> 0 -> is_grad f1 x g1 -> is_grad f2 x g2 ->
  is_grad (fun y => f1 y / f2 y) x ((1 / f2 x) *v g1 +v (- f1 x / (f2 x * f2 x)) *v g2).
Proof.
  intros Hx H1 H2.
  pose proof (is_grad_mul f1 (fun y => / f2 y) x g1 _ H1 (is_grad_inv f2 x g2 Hx H2)) as Hm.
  cbn in Hm. unfold Rdiv.
  replace (1 * / f2 x) with (/ f2 x) by ring.
  replace ((- f1 x * / (f2 x * f2 x)) *v g2) with (f1 x *v ((- / (f2 x * f2 x)) *v g2)).
  { exact Hm. }
  rewrite (scal_scal S L). f_equal. field. assumption.
Qed.

(* The directional (Gateaux) derivative in the sense of std Reals *)
Lemma is_grad_directional (f : V -> R) (x g d : V) :
  is_grad f x g -> derivable_pt_lim (fun t => f (x +v t *v d)) 0 (<< g , d >>).
Proof.
  intros Hg eps He.
  destruct (Hg (eps / (norm d + 1))) as [dl [Hdl Hb]].
  { apply Rdiv_lt_0_compat; [assumption|]. pose proof (norm_nonneg d). lra. }
  pose proof (norm_nonneg d) as Hnd.
  assert (Hpos : 0 < dl / (norm d + 1)) by (apply Rdiv_lt_0_compat; lra).
  exists (mkposreal _ Hpos). intros t Ht Hsmall. cbn in Hsmall.
  rewrite Rplus_0_l, (scal_0 S L), (add_0_r S L).
  assert (Hnt : norm (t *v d) < dl).
  { rewrite norm_scal.
    assert (Rabs t * norm d <= Rabs t * (norm d + 1)) by (pose proof (Rabs_pos t); nra).
    assert (Rabs t * (norm d + 1) < dl).
    { apply Rmult_lt_reg_r with (/ (norm d + 1)); [apply Rinv_0_lt_compat; lra|].
      rewrite Rmult_assoc, Rinv_r by lra. unfold Rdiv in Hsmall. lra. }
    lra. }
  specialize (Hb (t *v d) Hnt). rewrite inner_scal_r, norm_scal in Hb.
  replace ((f (x +v t *v d) - f x) / t - << g , d >>)
    with ((f (x +v t *v d) - f x - t * << g , d >>) / t) by (field; assumption).
  unfold Rdiv at 1. rewrite Rabs_mult, Rabs_inv.
  assert (Hat : 0 < Rabs t) by (apply Rabs_pos_lt; assumption).
  apply Rmult_lt_reg_r with (Rabs t); [assumption|].
  rewrite Rmult_assoc, Rinv_l by lra. rewrite Rmult_1_r.
  assert (Hfr : eps / (norm d + 1) * norm d < eps \/ (norm d = 0)).
  { destruct (Req_dec (norm d) 0) as [E|E]; [right; assumption|left].
    replace (eps / (norm d + 1) * norm d) with (eps * (norm d / (norm d + 1))) by (field; lra).
    assert (norm d / (norm d + 1) < 1).
    { apply Rmult_lt_reg_r with (norm d + 1); [lra|]. unfold Rdiv. rewrite Rmult_assoc, Rinv_l by lra. lra. }
    nra. }
  destruct Hfr as [Hfr | E].
  - nra.
  - rewrite E in Hb. nra.
Qed.

End Space.

Arguments norm S x : clear implicits.
Arguments is_grad S f x g : clear implicits.
Arguments is_o S r : clear implicits.

(* ------------------------------------------------------------------------
   Operators between two spaces: Frechet derivative, adjoint, chain rule *)
Section TwoSpaces.
Variables S1 S2 : RSpace.
Hypothesis L1 : SpaceLaws S1.
Hypothesis L2 : SpaceLaws S2.

(* D is the (bounded linear) Frechet derivative of A at x *)
Definition is_linmap (D : car S1 -> car S2) : Prop :=
  (forall u v, D (sadd S1 u v) = sadd S2 (D u) (D v)) /\
  (forall a u, D (sscal S1 a u) = sscal S2 a (D u)).
Definition is_deriv (A : car S1 -> car S2) (x : car S1) (D : car S1 -> car S2) : Prop :=
  (exists C, 0 <= C /\ forall h, norm S2 (D h) <= C * norm S1 h) /\
  (forall eps, 0 < eps -> exists delta, 0 < delta /\
    forall h, norm S1 h < delta ->
      norm S2 (@ssub R _ S2 (@ssub R _ S2 (A (sadd S1 x h)) (A x)) (D h)) <= eps * norm S1 h) /\
  is_linmap D.

(* chain rule: gradient of f o A at x is adjoint(D) (grad f (A x)) *)
Lemma is_grad_comp (f : car S2 -> R) (A : car S1 -> car S2) (x : car S1)
      (D : car S1 -> car S2) (g : car S2) (Dadj_g : car S1) :
  is_deriv A x D ->
  (forall h, sinner S2 (D h) g = sinner S1 h Dadj_g) ->
  is_grad S2 f (A x) g ->
  is_grad S1 (fun y => f (A y)) x Dadj_g.
Proof.
  intros [[C [HC HDb]] [HA _]] Hadj Hg eps He.
  pose proof (norm_nonneg S2 g) as Hng.
  set (e2 := Rmin 1 (eps / (2 * (norm S2 g + 1)))).
  assert (He2 : 0 < e2).
  { apply Rmin_pos; [lra|]. apply Rdiv_lt_0_compat; lra. }
  set (e1 := eps / (2 * (C + 2))).
  assert (He1 : 0 < e1) by (apply Rdiv_lt_0_compat; lra).
  destruct (HA e2 He2) as [dA [HdA HbA]].
  destruct (Hg e1 He1) as [dg [Hdg Hbg]].
  exists (Rmin dA (dg / (C + 2))). split.
  { apply Rmin_pos; [assumption|apply Rdiv_lt_0_compat; lra]. }
  intros h Hh.
  pose proof (Rmin_l dA (dg / (C + 2))). pose proof (Rmin_r dA (dg / (C + 2))).
  pose proof (norm_nonneg S1 h) as Hnh.
  set (k := @ssub R _ S2 (A (sadd S1 x h)) (A x)).
  specialize (HbA h ltac:(lra)). fold k in HbA.
  specialize (HDb h).
  (* |k| <= (e2 + C) |h| *)
  assert (Hk : norm S2 k <= (e2 + C) * norm S1 h).
  { assert (E : k = sadd S2 (@ssub R _ S2 k (D h)) (D h)).
    { rewrite (add_comm S2 L2). symmetry. apply (add_sub_cancel S2 L2). }
    rewrite E. pose proof (norm_triangle S2 L2 (@ssub R _ S2 k (D h)) (D h)). lra. }
  assert (Hk2 : norm S2 k < dg).
  { assert (e2 <= 1) by apply Rmin_l.
    assert ((e2 + C) * norm S1 h <= (C + 2) * norm S1 h) by nra.
    assert ((C + 2) * norm S1 h < dg).
    { apply Rmult_lt_reg_r with (/ (C + 2)); [apply Rinv_0_lt_compat; lra|].
      replace ((C + 2) * norm S1 h * / (C + 2)) with (norm S1 h) by (field; lra).
      unfold Rdiv in *. lra. }
    lra. }
  specialize (Hbg k Hk2).
  assert (EA : sadd S2 (A x) k = A (sadd S1 x h)) by apply (add_sub_cancel S2 L2).
  rewrite EA in Hbg.
  (* <g,k> - <Dadj g, h> = <g, k - D h> *)
  assert (Ein : sinner S2 g k - sinner S1 Dadj_g h = sinner S2 g (@ssub R _ S2 k (D h))).
  { rewrite (inner_sub_r S2 L2), (inner_sym S1 L1 Dadj_g h), <- Hadj, (inner_sym S2 L2 (D h) g). ring. }
  pose proof (cauchy_schwarz S2 L2 g (@ssub R _ S2 k (D h))) as Hcs.
  replace (f (A (sadd S1 x h)) - f (A x) - sinner S1 Dadj_g h)
    with ((f (A (sadd S1 x h)) - f (A x) - sinner S2 g k) + (sinner S2 g k - sinner S1 Dadj_g h)) by ring.
  rewrite Ein.
  eapply Rle_trans; [apply Rabs_triang|].
  assert (T1 : Rabs (f (A (sadd S1 x h)) - f (A x) - sinner S2 g k) <= eps / 2 * norm S1 h).
  { assert (e1 * norm S2 k <= e1 * ((C + 2) * norm S1 h)).
    { apply Rmult_le_compat_l; [lra|]. assert (e2 <= 1) by apply Rmin_l. nra. }
    assert (e1 * (C + 2) = eps / 2) by (unfold e1; field; lra).
    nra. }
  assert (T2 : Rabs (sinner S2 g (@ssub R _ S2 k (D h))) <= eps / 2 * norm S1 h).
  { assert (norm S2 g * norm S2 (@ssub R _ S2 k (D h)) <= norm S2 g * (e2 * norm S1 h))
      by (apply Rmult_le_compat_l; assumption).
    assert (norm S2 g * e2 <= eps / 2).
    { assert (e2 <= eps / (2 * (norm S2 g + 1))) by apply Rmin_r.
      assert (norm S2 g * e2 <= norm S2 g * (eps / (2 * (norm S2 g + 1)))) by (apply Rmult_le_compat_l; lra).
      assert (norm S2 g * (eps / (2 * (norm S2 g + 1))) <= eps / 2).
      { replace (norm S2 g * (eps / (2 * (norm S2 g + 1)))) with (eps / 2 * (norm S2 g / (norm S2 g + 1)))
          by (field; lra).
        assert (norm S2 g / (norm S2 g + 1) <= 1).
        { apply Rmult_le_reg_r with (norm S2 g + 1); [lra|]. unfold Rdiv. rewrite Rmult_assoc, Rinv_l by lra. lra. }
        nra. }
      lra. }
    nra. }
  lra.
Qed.

End TwoSpaces.

(* composition of differentiable operators *)
Section ThreeSpaces.
Variables S1 S2 S3 : RSpace.
Hypothesis L1 : SpaceLaws S1.
Hypothesis L2 : SpaceLaws S2.
Hypothesis L3 : SpaceLaws S3.

Lemma is_deriv_comp (A : car S1 -> car S2) (B : car S2 -> car S3) (x : car S1)
      (DA : car S1 -> car S2) (DB : car S2 -> car S3) :
  is_deriv S1 S2 A x DA -> is_deriv S2 S3 B (A x) DB ->
  is_deriv S1 S3 (fun y => B (A y)) x (fun h => DB (DA h)).
Proof.
  intros [[CA [HCA HbA]] [HA [HaddA HscA]]] [[CB [HCB HbB]] [HB [HaddB HscB]]].
  split; [|split].
  - exists (CB * CA). split; [apply Rmult_le_pos; assumption|]. intro h.
    specialize (HbB (DA h)). specialize (HbA h).
    assert (CB * norm S2 (DA h) <= CB * (CA * norm S1 h)) by (apply Rmult_le_compat_l; assumption). lra.
  - intros eps He.
    set (e2 := Rmin 1 (eps / (2 * (CB + 1)))).
    assert (He2 : 0 < e2) by (apply Rmin_pos; [lra|apply Rdiv_lt_0_compat; lra]).
    set (e1 := eps / (2 * (CA + 2))).
    assert (He1 : 0 < e1) by (apply Rdiv_lt_0_compat; lra).
    destruct (HA e2 He2) as [dA [HdA HrA]].
    destruct (HB e1 He1) as [dB [HdB HrB]].
    exists (Rmin dA (dB / (CA + 2))). split.
    { apply Rmin_pos; [assumption|apply Rdiv_lt_0_compat; lra]. }
    intros h Hh.
    pose proof (Rmin_l dA (dB / (CA + 2))). pose proof (Rmin_r dA (dB / (CA + 2))).
    pose proof (norm_nonneg S1 h) as Hnh.
    set (k := @ssub R _ S2 (A (sadd S1 x h)) (A x)).
    specialize (HrA h ltac:(lra)). fold k in HrA. specialize (HbA h).
    assert (Hk : norm S2 k <= (e2 + CA) * norm S1 h).
    { assert (E : k = sadd S2 (@ssub R _ S2 k (DA h)) (DA h)).
      { rewrite (add_comm S2 L2). symmetry. apply (add_sub_cancel S2 L2). }
      rewrite E. pose proof (norm_triangle S2 L2 (@ssub R _ S2 k (DA h)) (DA h)). lra. }
    assert (He21 : e2 <= 1) by apply Rmin_l.
    assert (Hk2 : norm S2 k < dB).
    { assert ((e2 + CA) * norm S1 h <= (CA + 2) * norm S1 h) by nra.
      assert ((CA + 2) * norm S1 h < dB).
      { apply Rmult_lt_reg_r with (/ (CA + 2)); [apply Rinv_0_lt_compat; lra|].
        replace ((CA + 2) * norm S1 h * / (CA + 2)) with (norm S1 h) by (field; lra).
        unfold Rdiv in *. lra. }
      lra. }
    specialize (HrB k Hk2).
    assert (EA : sadd S2 (A x) k = A (sadd S1 x h)) by apply (add_sub_cancel S2 L2).
    rewrite EA in HrB.
    (* B(A(x+h)) - B(A x) - DB(DA h) = [B(..) - B(A x) - DB k] + DB (k - DA h) *)
    set (u := @ssub R _ S3 (@ssub R _ S3 (B (A (sadd S1 x h))) (B (A x))) (DB k)) in *.
    assert (Esplit : @ssub R _ S3 (@ssub R _ S3 (B (A (sadd S1 x h))) (B (A x))) (DB (DA h))
                     = sadd S3 u (DB (@ssub R _ S2 k (DA h)))).
    { unfold u. rewrite (ssub_def S2 k (DA h)), HaddB, HscB, <- (ssub_def S3).
      apply (sub_split S3 L3). }
    rewrite Esplit.
    eapply Rle_trans; [apply (norm_triangle S3 L3)|].
    specialize (HbB (@ssub R _ S2 k (DA h))).
    assert (T1 : norm S3 u <= eps / 2 * norm S1 h).
    { assert (e1 * norm S2 k <= e1 * ((CA + 2) * norm S1 h)) by (apply Rmult_le_compat_l; nra).
      assert (e1 * (CA + 2) = eps / 2) by (unfold e1; field; lra). nra. }
    assert (T2 : norm S3 (DB (@ssub R _ S2 k (DA h))) <= eps / 2 * norm S1 h).
    { assert (CB * norm S2 (@ssub R _ S2 k (DA h)) <= CB * (e2 * norm S1 h)) by (apply Rmult_le_compat_l; assumption).
      assert (CB * e2 <= eps / 2).
      { assert (e2 <= eps / (2 * (CB + 1))) by apply Rmin_r.
        assert (CB * e2 <= CB * (eps / (2 * (CB + 1)))) by (apply Rmult_le_compat_l; lra).
        assert (CB * (eps / (2 * (CB + 1))) <= eps / 2).
        { replace (CB * (eps / (2 * (CB + 1)))) with (eps / 2 * (CB / (CB + 1))) by (field; lra).
          assert (CB / (CB + 1) <= 1).
          { apply Rmult_le_reg_r with (CB + 1); [lra|]. unfold Rdiv. rewrite Rmult_assoc, Rinv_l by lra. lra. }
          nra. }
        lra. }
      nra. }
    lra.
  - split.
    + intros a b. rewrite HaddA, HaddB. reflexivity.
    + intros a b. rewrite HscA, HscB. reflexivity.
Qed.
End ThreeSpaces.
