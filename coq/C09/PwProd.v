(* C09/PwProd.v -- OperatorPointwiseProduct(A, B): x -> A(x) * B(x) is a sound operator for
   FunctionalComp wherever A and B are (product rule for operators; the adjoint of
   B(x) * A'(x) + A(x) * B'(x) is y -> A'(x)^*(B(x) y) + B'(x)^*(A(x) y)). *)
From Coq Require Import Reals Lra Psatz List Bool.
From Verif Require Import Base.Num C09.Model C09.IPS C09.Proofs.
Local Open Scope R_scope.

Section PwProd.
Variables S1 S2 : RSpace.
Hypothesis L1 : SpaceLaws S1.
Hypothesis L2 : SpaceLaws S2.
Notation "x +2 y" := (sadd S2 x y) (at level 50, left associativity).
Notation "x -2 y" := (@ssub R _ S2 x y) (at level 50, left associativity).
Notation "x ** y" := (smul S2 x y) (at level 40, left associativity).

Lemma mul_add_l (x y v : car S2) : (x +2 y) ** v = x ** v +2 y ** v.
Proof. rewrite (mul_comm S2 L2), (mul_add_r S2 L2), !(mul_comm S2 L2 v). reflexivity. Qed.

(* the algebraic decomposition of the remainder *)
Lemma pw_decomp (P Q kA kB dA dB : car S2) :
  ((P +2 kA) ** (Q +2 kB) -2 P ** Q) -2 (Q ** dA +2 P ** dB)
  = (P ** (kB -2 dB) +2 Q ** (kA -2 dA)) +2 kA ** kB.
Proof.
  set (u := kA -2 dA). set (v := kB -2 dB).
  assert (EkA : kA = dA +2 u) by (unfold u; symmetry; apply (add_sub_cancel S2 L2)).
  assert (EkB : kB = dB +2 v) by (unfold v; symmetry; apply (add_sub_cancel S2 L2)).
  (* expand the product *)
  assert (E1 : (P +2 kA) ** (Q +2 kB) = P ** Q +2 ((P ** kB +2 Q ** kA) +2 kA ** kB)).
  { rewrite (mul_add_r S2 L2), !mul_add_l, (mul_comm S2 L2 kA Q).
    rewrite !(add_assoc S2 L2). f_equal.
    rewrite <- !(add_assoc S2 L2). f_equal. apply (add_comm S2 L2). }
  rewrite E1, (add_cancel_mid S2 L2).
  assert (E2 : (P ** kB +2 Q ** kA) +2 kA ** kB
               = (Q ** dA +2 P ** dB) +2 ((P ** v +2 Q ** u) +2 kA ** kB)).
  { rewrite EkB at 1. rewrite EkA at 1. rewrite !(mul_add_r S2 L2).
    rewrite <- (add_assoc S2 L2 (Q ** dA +2 P ** dB)). f_equal.
    rewrite (add_shuffle S2 L2 (P ** dB) (P ** v) (Q ** dA) (Q ** u)).
    f_equal. apply (add_comm S2 L2). }
  rewrite E2, (add_cancel_mid S2 L2). reflexivity.
Qed.

Lemma is_deriv_pwprod (A B : car S1 -> car S2) (x : car S1) (DA DB : car S1 -> car S2) :
  is_deriv S1 S2 A x DA -> is_deriv S1 S2 B x DB ->
  is_deriv S1 S2 (fun y => A y ** B y) x (fun h => B x ** DA h +2 A x ** DB h).
Proof.
  intros [[CA [HCA HbA]] [HA [HaddA HscA]]] [[CB [HCB HbB]] [HB [HaddB HscB]]].
  destruct (norm_mul S2 L2 (A x) (A x)) as [C [HC Hm]].
  set (P := A x). set (Q := B x).
  pose proof (norm_nonneg S2 P) as HP. pose proof (norm_nonneg S2 Q) as HQ.
  split; [|split].
  - (* bounded *)
    exists (C * norm S2 Q * CA + C * norm S2 P * CB). split.
    { apply Rplus_le_le_0_compat; apply Rmult_le_pos; try assumption; apply Rmult_le_pos; assumption. }
    intro h. eapply Rle_trans; [apply (norm_triangle S2 L2)|].
    pose proof (Hm Q (DA h)) as H1. pose proof (Hm P (DB h)) as H2.
    specialize (HbA h). specialize (HbB h). pose proof (norm_nonneg S1 h).
    assert (C * norm S2 Q * norm S2 (DA h) <= C * norm S2 Q * (CA * norm S1 h))
      by (apply Rmult_le_compat_l; [apply Rmult_le_pos; assumption|assumption]).
    assert (C * norm S2 P * norm S2 (DB h) <= C * norm S2 P * (CB * norm S1 h))
      by (apply Rmult_le_compat_l; [apply Rmult_le_pos; assumption|assumption]).
    lra.
  - (* remainder *)
    intros eps He.
    set (M := C * norm S2 P + C * norm S2 Q + C * (1 + CA) * (1 + CB) + 1).
    assert (HM : 1 <= M).
    { unfold M. assert (0 <= C * norm S2 P) by (apply Rmult_le_pos; assumption).
      assert (0 <= C * norm S2 Q) by (apply Rmult_le_pos; assumption).
      assert (0 <= C * (1 + CA) * (1 + CB)) by (apply Rmult_le_pos; [apply Rmult_le_pos|]; lra). lra. }
    set (e := Rmin 1 (eps / M)).
    assert (He0 : 0 < e) by (apply Rmin_pos; [lra|apply Rdiv_lt_0_compat; lra]).
    destruct (HA e He0) as [dA' [HdA HrA]]. destruct (HB e He0) as [dB' [HdB HrB]].
    exists (Rmin (Rmin dA' dB') e). split; [apply Rmin_pos; [apply Rmin_pos; assumption|assumption]|].
    intros h Hh.
    pose proof (Rmin_l (Rmin dA' dB') e). pose proof (Rmin_r (Rmin dA' dB') e).
    pose proof (Rmin_l dA' dB'). pose proof (Rmin_r dA' dB').
    pose proof (norm_nonneg S1 h) as Hnh.
    specialize (HrA h ltac:(lra)). specialize (HrB h ltac:(lra)).
    specialize (HbA h). specialize (HbB h).
    change (A x) with P in HrA. change (B x) with Q in HrB.
    set (kA := A (sadd S1 x h) -2 P) in *. set (kB := B (sadd S1 x h) -2 Q) in *.
    assert (EA : A (sadd S1 x h) = P +2 kA) by (unfold kA; symmetry; apply (add_sub_cancel S2 L2)).
    assert (EB : B (sadd S1 x h) = Q +2 kB) by (unfold kB; symmetry; apply (add_sub_cancel S2 L2)).
    cbv beta. rewrite EA, EB. fold P Q. rewrite pw_decomp.
    (* bounds on the pieces *)
    assert (He1 : e <= 1) by apply Rmin_l.
    assert (Heh : e * norm S1 h <= 1 * norm S1 h) by (apply Rmult_le_compat_r; lra).
    assert (HkA : norm S2 kA <= (1 + CA) * norm S1 h).
    { assert (E : kA = (kA -2 DA h) +2 DA h) by (rewrite (add_comm S2 L2); symmetry; apply (add_sub_cancel S2 L2)).
      rewrite E. pose proof (norm_triangle S2 L2 (kA -2 DA h) (DA h)). lra. }
    assert (HkB : norm S2 kB <= (1 + CB) * norm S1 h).
    { assert (E : kB = (kB -2 DB h) +2 DB h) by (rewrite (add_comm S2 L2); symmetry; apply (add_sub_cancel S2 L2)).
      rewrite E. pose proof (norm_triangle S2 L2 (kB -2 DB h) (DB h)). lra. }
    eapply Rle_trans; [apply (norm_triangle S2 L2)|].
    eapply Rle_trans; [apply Rplus_le_compat_r, (norm_triangle S2 L2)|].
    pose proof (Hm P (kB -2 DB h)) as T1. pose proof (Hm Q (kA -2 DA h)) as T2. pose proof (Hm kA kB) as T3.
    pose proof (norm_nonneg S2 kA) as HnA. pose proof (norm_nonneg S2 kB) as HnB.
    assert (T1' : C * norm S2 P * norm S2 (kB -2 DB h) <= C * norm S2 P * (e * norm S1 h))
      by (apply Rmult_le_compat_l; [apply Rmult_le_pos; assumption|assumption]).
    assert (T2' : C * norm S2 Q * norm S2 (kA -2 DA h) <= C * norm S2 Q * (e * norm S1 h))
      by (apply Rmult_le_compat_l; [apply Rmult_le_pos; assumption|assumption]).
    assert (T3' : C * norm S2 kA * norm S2 kB <= C * ((1 + CA) * norm S1 h) * ((1 + CB) * norm S1 h)).
    { assert (Hab : norm S2 kA * norm S2 kB <= ((1 + CA) * norm S1 h) * ((1 + CB) * norm S1 h))
        by (apply Rmult_le_compat; assumption).
      replace (C * norm S2 kA * norm S2 kB) with (C * (norm S2 kA * norm S2 kB)) by ring.
      replace (C * ((1 + CA) * norm S1 h) * ((1 + CB) * norm S1 h))
        with (C * (((1 + CA) * norm S1 h) * ((1 + CB) * norm S1 h))) by ring.
      apply Rmult_le_compat_l; assumption. }
    assert (Hhe : norm S1 h <= e) by lra.
    assert (T3'' : C * ((1 + CA) * norm S1 h) * ((1 + CB) * norm S1 h) <= C * (1 + CA) * (1 + CB) * e * norm S1 h).
    { replace (C * ((1 + CA) * norm S1 h) * ((1 + CB) * norm S1 h))
        with (C * (1 + CA) * (1 + CB) * norm S1 h * norm S1 h) by ring.
      assert (0 <= C * (1 + CA) * (1 + CB)) by (apply Rmult_le_pos; [apply Rmult_le_pos|]; lra).
      assert (C * (1 + CA) * (1 + CB) * norm S1 h <= C * (1 + CA) * (1 + CB) * e) by (apply Rmult_le_compat_l; assumption).
      nra. }
    assert (HeM : e * M <= eps).
    { assert (e <= eps / M) by apply Rmin_r.
      assert (e * M <= eps / M * M) by (apply Rmult_le_compat_r; lra).
      replace (eps / M * M) with eps in * by (field; lra). assumption. }
    assert (Hsum : (C * norm S2 P * e + C * norm S2 Q * e + C * (1 + CA) * (1 + CB) * e) * norm S1 h <= eps * norm S1 h).
    { apply Rmult_le_compat_r; [assumption|]. unfold M in HeM. nra. }
    nra.
  - (* linear *)
    split.
    + intros u v. rewrite HaddA, HaddB, !(mul_add_r S2 L2). apply (add_shuffle S2 L2).
    + intros a u. rewrite HscA, HscB, !(mul_scal_r S2 L2), (scal_add_r S2 L2). reflexivity.
Qed.

Lemma op_pwprod_sound (A B : Oper S1 S2) (x : car S1) :
  op_sound A x -> op_sound B x -> op_sound (op_pwprod A B) x.
Proof.
  intros [DA [HDA HadjA]] [DB [HDB HadjB]].
  exists (fun h => op_app B x ** DA h +2 op_app A x ** DB h). split.
  - apply is_deriv_pwprod; assumption.
  - intros h y. cbn [op_pwprod op_dadj]. rewrite (inner_add_l S2 L2), !(mul_adj S2 L2).
    rewrite HadjA, HadjB, (inner_add_r S1 L1). reflexivity.
Qed.
End PwProd.
