(* C09/Transfer.v -- the functional model executed at Q by the correspondence
   shards is the rational restriction of the model the theorems are about.
   For every pair of related trees (same shape, scalars related by Q2R, vectors
   by map Q2R, leaves/operators related pointwise) over the weighted list
   spaces [wspace sQ w] (executed) and [wspace sqrt (map Q2R w)] (proved):
       Q2R (value eQ x)      = value eR (map Q2R x)
       map Q2R (gradient eQ x) = gradient eR (map Q2R x)
       Q2R (derivative eQ x d) = derivative eR (map Q2R x) (map Q2R d)
       is_linear eQ = is_linear eR
   provided no division by zero occurs at Q (quotient divisors non-zero at x).
   Square roots do not occur in value/gradient/derivative of these trees (only in
   grad_lipschitz of QuadraticPerturb/Bregman and in the L2Norm leaf, which are
   outside this theorem). *)
From Coq Require Import ZArith QArith Qabs Qreals Reals Lra Lia List Bool.
From Verif Require Import Base.Num Base.Vec Base.Transfer C09.Model.
Import ListNotations.

Notation QR := (map Q2R).

(* ---- list operations commute with Q2R ---- *)
Lemma QR_vmap2 (f : Q -> Q -> Q) (g : R -> R -> R) :
  (forall a b, Q2R (f a b) = g (Q2R a) (Q2R b)) ->
  forall x y, QR (vmap2 f x y) = vmap2 g (QR x) (QR y).
Proof.
  intros Hfg. induction x as [|a x IH]; intros [|b y]; cbn [vmap2 map]; try reflexivity.
  rewrite Hfg, IH. reflexivity.
Qed.
Lemma QR_vadd x y : QR (vadd x y) = vadd (QR x) (QR y).
Proof. apply QR_vmap2, Q2R_nadd. Qed.
Lemma QR_vmul x y : QR (vmul x y) = vmul (QR x) (QR y).
Proof. apply QR_vmap2, Q2R_nmul. Qed.
Lemma QR_map (f : Q -> Q) (g : R -> R) : (forall a, Q2R (f a) = g (Q2R a)) ->
  forall x, QR (map f x) = map g (QR x).
Proof. intros Hfg x. rewrite !map_map. apply map_ext. exact Hfg. Qed.
Lemma QR_vscal a x : QR (vscal a x) = vscal (Q2R a) (QR x).
Proof. unfold vscal. apply QR_map. intro b. apply Q2R_nmul. Qed.
Lemma QR_vconst n c : QR (vconst n c) = vconst n (Q2R c).
Proof. unfold vconst. induction n; cbn [repeat map]; [reflexivity|]. rewrite IHn. reflexivity. Qed.
Lemma Q2R_sumf l : Q2R (sumf l) = sumf (QR l).
Proof.
  induction l as [|a l IH]; cbn [sumf map]; [apply Q2R_nzero|]. rewrite Q2R_nadd, IH. reflexivity.
Qed.
Lemma Q2R_wdot w x y : Q2R (wdot w x y) = wdot (QR w) (QR x) (QR y).
Proof. unfold wdot. rewrite Q2R_sumf, !QR_vmul. reflexivity. Qed.
Lemma Q2R_nsign a : Q2R (nsign a) = nsign (Q2R a).
Proof.
  unfold nsign. rewrite <- !Q2R_nzero, <- !Q2R_nltb.
  destruct (nltb nzero a); [apply Q2R_none|]. destruct (nltb a nzero).
  - rewrite Q2R_nopp, Q2R_none. reflexivity.
  - reflexivity.
Qed.
Lemma Q2R_m1 : Q2R (- none_)%num = (- none_)%num.
Proof. rewrite Q2R_nopp, Q2R_none. reflexivity. Qed.

Section Transfer.
Variable sQ : Q -> Q.         (* the rational root used at Q; irrelevant here *)
Notation SQ w := (@wspace Q _ sQ w).
Notation SR w := (@wspace R _ sqrt (QR w)).

Lemma QR_ssub w (x y : list Q) :
  QR (@ssub Q _ (SQ w) x y) = @ssub R _ (SR w) (QR x) (QR y).
Proof. unfold ssub. cbn [wspace sadd sscal]. rewrite QR_vadd, QR_vscal, Q2R_m1. reflexivity. Qed.
Lemma QR_szero w : QR (szero (SQ w)) = szero (SR w).
Proof. cbn [wspace szero]. rewrite QR_vconst, map_length, Q2R_nzero. reflexivity. Qed.

(* related leaves / operators: the R object restricted to rational points is the Q object *)
Record leaf_rel w (lQ : Leaf (SQ w)) (lR : Leaf (SR w)) : Prop := {
  lr_val : forall x : list Q, Q2R (lf_val lQ x) = lf_val lR (QR x);
  lr_grad : forall x : list Q, QR (lf_grad lQ x) = lf_grad lR (QR x);
  lr_lin : lf_linear lQ = lf_linear lR }.
Record op_rel w1 w2 (AQ : Oper (SQ w1) (SQ w2)) (AR : Oper (SR w1) (SR w2)) : Prop := {
  or_app : forall x : list Q, QR (op_app AQ x) = op_app AR (QR x);
  or_dadj : forall x y : list Q, QR (op_dadj AQ x y) = op_dadj AR (QR x) (QR y);
  or_lin : op_linear AQ = op_linear AR }.

Definition opt_rel (u : option (list Q)) (v : option (list R)) : Prop :=
  match u, v with Some a, Some b => b = QR a | None, None => True | _, _ => False end.

(* same shape, related parameters *)
Inductive trel : forall w, fexpr (SQ w) -> fexpr (SR w) -> Prop :=
| TLeaf w lQ lR : leaf_rel w lQ lR -> trel w (FLeaf lQ) (FLeaf lR)
| TLeftScal w s f fR : trel w f fR -> trel w (FLeftScal s f) (FLeftScal (Q2R s) fR)
| TRightScal w s f fR : trel w f fR -> trel w (FRightScal f s) (FRightScal fR (Q2R s))
| TRightVec w (v : list Q) f fR : trel w f fR ->
    trel w (FRightVec (S:=SQ w) f v) (FRightVec (S:=SR w) fR (QR v))
| TSum w f fR g gR : trel w f fR -> trel w g gR -> trel w (FSum f g) (FSum fR gR)
| TTrans w (t : list Q) f fR : trel w f fR ->
    trel w (FTrans (S:=SQ w) f t) (FTrans (S:=SR w) fR (QR t))
| TComp w1 w2 f fR A AR : trel w2 f fR -> op_rel w1 w2 A AR -> trel w1 (FComp f A) (FComp fR AR)
| TQuadPert w f fR a (u : option (list Q)) (v : option (list R)) c : trel w f fR -> opt_rel u v ->
    trel w (FQuadPert (S:=SQ w) f a u c) (FQuadPert (S:=SR w) fR (Q2R a) v (Q2R c))
| TProd w f fR g gR : trel w f fR -> trel w g gR -> trel w (FProd f g) (FProd fR gR)
| TQuot w f fR g gR : trel w f fR -> trel w g gR -> trel w (FQuot f g) (FQuot fR gR)
| TBregman w (p s : list Q) f fR : trel w f fR ->
    trel w (FBregman (S:=SQ w) f p s) (FBregman (S:=SR w) fR (QR p) (QR s)).

(* no division by zero at Q: quotient divisors are non-zero at the points they are evaluated at *)
Fixpoint divs_ok {S} (e : @fexpr Q S) : car S -> Prop :=
  match e in fexpr S return car S -> Prop with
  | FLeaf _ => fun _ => True
  | FLeftScal _ f => fun x => divs_ok f x
  | @FRightScal _ X f s => fun x => divs_ok f (sscal X s x)
  | @FRightVec _ X f v => fun x => divs_ok f (smul X v x)
  | FSum f g => fun x => divs_ok f x /\ divs_ok g x
  | FTrans f t => fun x => divs_ok f (ssub x t)
  | FComp f A => fun x => divs_ok f (op_app A x)
  | FQuadPert f _ _ _ => fun x => divs_ok f x
  | FProd f g => fun x => divs_ok f x /\ divs_ok g x
  | FQuot f g => fun x => divs_ok f x /\ divs_ok g x /\ ~ (value g x == 0)%Q
  | FBregman f p _ => fun x => divs_ok f x /\ divs_ok f p
  end.

Lemma lin_term_rel w (u : option (list Q)) (v : option (list R)) : opt_rel u v ->
  QR (lin_term (S:=SQ w) u) = lin_term (S:=SR w) v.
Proof.
  destruct u as [a|], v as [b|]; cbn [opt_rel lin_term]; try tauto.
  - intros ->. reflexivity.
  - intros _. apply QR_szero.
Qed.

Lemma Qmul_nz (a b : Q) : ~ (a == 0)%Q -> ~ (b == 0)%Q -> ~ (nmul a b == 0)%Q.
Proof.
  intros Ha Hb H. cbn [nmul Num_Q] in H. rewrite Qred_correct in H.
  apply Qmult_integral in H. tauto.
Qed.

Theorem value_transfer : forall w eQ eR, trel w eQ eR ->
  forall x : list Q, divs_ok eQ x -> Q2R (value eQ x) = value eR (QR x).
Proof.
  intros w eQ eR H. induction H as
    [w lQ lR Hl | w s f fR _ IH | w s f fR _ IH | w v f fR _ IH | w f fR g gR _ IHf _ IHg
    | w t f fR _ IH | w1 w2 f fR A AR _ IH HA | w f fR a u v c _ IH Hu | w f fR g gR _ IHf _ IHg
    | w f fR g gR _ IHf _ IHg | w p s f fR _ IH]; intros x Hd; cbn [value divs_ok] in *.
  - apply (lr_val _ _ _ Hl).
  - rewrite Q2R_nmul, IH by assumption. reflexivity.
  - rewrite IH by assumption. cbn [wspace sscal]. rewrite QR_vscal. reflexivity.
  - rewrite IH by assumption. cbn [wspace smul]. rewrite QR_vmul. reflexivity.
  - destruct Hd. rewrite Q2R_nadd, IHf, IHg by assumption. reflexivity.
  - rewrite IH by assumption. rewrite QR_ssub. reflexivity.
  - rewrite IH by assumption. rewrite (or_app _ _ _ _ HA). reflexivity.
  - rewrite !Q2R_nadd, Q2R_nmul, IH by assumption. cbn [wspace sinner].
    rewrite !Q2R_wdot, (lin_term_rel w u v Hu). reflexivity.
  - destruct Hd. rewrite Q2R_nmul, IHf, IHg by assumption. reflexivity.
  - destruct Hd as [Hf [Hg Hnz]]. rewrite Q2R_ndiv, IHf, IHg by assumption. reflexivity.
  - destruct Hd as [Hx Hp]. rewrite !Q2R_nadd, Q2R_nmul, Q2R_nopp, !IH by assumption. cbn [wspace sinner sscal].
    rewrite !Q2R_wdot, QR_vscal, Q2R_m1, Q2R_nzero. reflexivity.
Qed.

Theorem gradient_transfer : forall w eQ eR, trel w eQ eR ->
  forall x : list Q, divs_ok eQ x -> QR (gradient eQ x) = gradient eR (QR x).
Proof.
  intros w eQ eR H. induction H as
    [w lQ lR Hl | w s f fR _ IH | w s f fR _ IH | w v f fR _ IH | w f fR g gR Hf IHf Hg IHg
    | w t f fR _ IH | w1 w2 f fR A AR _ IH HA | w f fR a u v c _ IH Hu | w f fR g gR Hf IHf Hg IHg
    | w f fR g gR Hf IHf Hg IHg | w p s f fR _ IH]; intros x Hd; cbn [gradient divs_ok] in *.
  - apply (lr_grad _ _ _ Hl).
  - cbn [wspace sscal]. rewrite QR_vscal, IH by assumption. reflexivity.
  - cbn [wspace sscal]. rewrite QR_vscal, IH by assumption. cbn [wspace sscal]. rewrite QR_vscal. reflexivity.
  - cbn [wspace smul]. rewrite QR_vmul, IH by assumption. cbn [wspace smul]. rewrite QR_vmul. reflexivity.
  - destruct Hd. cbn [wspace sadd]. rewrite QR_vadd, IHf, IHg by assumption. reflexivity.
  - rewrite IH by assumption. rewrite QR_ssub. reflexivity.
  - rewrite (or_dadj _ _ _ _ HA), IH by assumption. rewrite (or_app _ _ _ _ HA). reflexivity.
  - cbn [wspace sadd sscal]. rewrite !QR_vadd, QR_vscal, IH, Q2R_nmul, Q2R_of_Z by assumption.
    rewrite (lin_term_rel w u v Hu). reflexivity.
  - destruct Hd as [Hdf Hdg]. cbn [wspace sadd sscal]. rewrite QR_vadd, !QR_vscal, IHf, IHg by assumption.
    rewrite (value_transfer _ _ _ Hf x Hdf), (value_transfer _ _ _ Hg x Hdg). reflexivity.
  - destruct Hd as [Hdf [Hdg Hnz]]. cbn [wspace sadd sscal]. rewrite QR_vadd, !QR_vscal, IHf, IHg by assumption.
    rewrite !Q2R_ndiv by (try assumption; apply Qmul_nz; assumption).
    rewrite Q2R_nopp, Q2R_nmul, Q2R_none.
    rewrite (value_transfer _ _ _ Hf x Hdf), (value_transfer _ _ _ Hg x Hdg). reflexivity.
  - destruct Hd as [Hx Hp]. cbn [wspace sadd sscal]. rewrite QR_vadd, QR_vscal, IH, Q2R_m1 by assumption. reflexivity.
Qed.

Theorem derivative_transfer : forall w eQ eR, trel w eQ eR ->
  forall x d : list Q, divs_ok eQ x ->
  Q2R (derivative eQ x d) = derivative eR (QR x) (QR d).
Proof.
  intros w eQ eR H x d Hd. unfold derivative. cbn [wspace sinner].
  rewrite Q2R_wdot, (gradient_transfer _ _ _ H x Hd). reflexivity.
Qed.

Theorem is_linear_transfer : forall w eQ eR, trel w eQ eR -> is_linear eQ = is_linear eR.
Proof.
  intros w eQ eR H. induction H as
    [w lQ lR Hl | w s f fR _ IH | w s f fR _ IH | w v f fR _ IH | w f fR g gR _ IHf _ IHg
    | w t f fR _ IH | w1 w2 f fR A AR _ IH HA | w f fR a u v c _ IH Hu | w f fR g gR _ IHf _ IHg
    | w f fR g gR _ IHf _ IHg | w p s f fR _ IH]; cbn [is_linear]; try reflexivity; try assumption.
  - apply (lr_lin _ _ _ Hl).
  - rewrite IHf, IHg. reflexivity.
  - rewrite IH, (or_lin _ _ _ _ HA). reflexivity.
  - rewrite IH, <- !Q2R_nzero, <- !Q2R_neqb. reflexivity.
Qed.

(* ---- the concrete leaves and operators are related to themselves ---- *)
Lemma leaf_const_rel w c : leaf_rel w (leaf_const (SQ w) c) (leaf_const (SR w) (Q2R c)).
Proof.
  constructor; cbn [leaf_const lf_val lf_grad lf_linear].
  - reflexivity.
  - intro x. apply QR_szero.
  - rewrite <- Q2R_nzero, <- Q2R_neqb. reflexivity.
Qed.
Lemma leaf_l2sq_rel w : leaf_rel w (leaf_l2sq (SQ w)) (leaf_l2sq (SR w)).
Proof.
  constructor; cbn [leaf_l2sq lf_val lf_grad lf_linear wspace sinner sscal]; intros.
  - apply Q2R_wdot.
  - rewrite QR_vscal, Q2R_of_Z. reflexivity.
  - reflexivity.
Qed.
Lemma leaf_lin_rel w (b : list Q) c : leaf_rel w (leaf_lin (SQ w) b c) (leaf_lin (SR w) (QR b) (Q2R c)).
Proof.
  constructor; cbn [leaf_lin lf_val lf_grad lf_linear wspace sinner]; intros.
  - rewrite Q2R_nadd, Q2R_wdot. reflexivity.
  - reflexivity.
  - rewrite <- Q2R_nzero, <- Q2R_neqb. reflexivity.
Qed.
Lemma leaf_l1_rel w : leaf_rel w (leaf_l1 sQ w) (leaf_l1 sqrt (QR w)).
Proof.
  constructor; cbn [leaf_l1 lf_val lf_grad lf_linear]; intros.
  - rewrite Q2R_wdot. unfold ones. rewrite QR_vconst, map_length, Q2R_none.
    rewrite (QR_map nabs nabs Q2R_nabs). reflexivity.
  - apply QR_map. exact Q2R_nsign.
  - reflexivity.
Qed.
Lemma huber_val_transfer g a : ~ (g == 0)%Q -> Q2R (huber_val g a) = huber_val (Q2R g) (Q2R a).
Proof.
  intro Hg. unfold huber_val. rewrite <- Q2R_nabs, <- Q2R_nltb. destruct (nltb (nabs a) g).
  - rewrite !Q2R_nmul, Q2R_ndiv, Q2R_none, Q2R_nmul, Q2R_of_Z; [reflexivity|].
    apply Qmul_nz; [|assumption]. cbn. discriminate.
  - rewrite Q2R_nsub, Q2R_nabs, Q2R_ndiv, Q2R_of_Z; [reflexivity|]. cbn. discriminate.
Qed.
Lemma huber_grad_transfer g a : (0 < g)%Q -> Q2R (huber_grad g a) = huber_grad (Q2R g) (Q2R a).
Proof.
  intro Hg. assert (Hgz : ~ (g == 0)%Q) by (intro E; rewrite E in Hg; apply (Qlt_irrefl 0 Hg)).
  unfold huber_grad. rewrite <- Q2R_nabs, <- Q2R_nltb. destruct (nltb (nabs a) g) eqn:E.
  - rewrite Q2R_nmul, Q2R_ndiv, Q2R_none by assumption. reflexivity.
  - rewrite Q2R_ndiv, Q2R_nabs; [reflexivity|].
    intro Ha. cbn [nltb nabs Num_Q] in E. apply negb_false_iff, Qle_bool_iff in E.
    rewrite Ha in E. apply (Qlt_irrefl 0). eapply Qlt_le_trans; eassumption.
Qed.
Lemma leaf_huber_rel w g : (0 < g)%Q -> leaf_rel w (leaf_huber sQ w g) (leaf_huber sqrt (QR w) (Q2R g)).
Proof.
  intro Hg. assert (Hgz : ~ (g == 0)%Q) by (intro E; rewrite E in Hg; apply (Qlt_irrefl 0 Hg)).
  constructor; cbn [leaf_huber lf_val lf_grad lf_linear]; intros.
  - rewrite Q2R_wdot. unfold ones. rewrite QR_vconst, map_length, Q2R_none.
    rewrite (QR_map (huber_val g) (huber_val (Q2R g))); [reflexivity|]. intro a. apply huber_val_transfer, Hgz.
  - apply QR_map. intro a. apply huber_grad_transfer, Hg.
  - reflexivity.
Qed.

Lemma op_id_rel w : op_rel w w (op_id (SQ w)) (op_id (SR w)).
Proof. constructor; reflexivity. Qed.
Lemma op_scal_rel w s : op_rel w w (op_scal (SQ w) s) (op_scal (SR w) (Q2R s)).
Proof. constructor; cbn [op_scal op_app op_dadj op_linear wspace sscal]; intros; try apply QR_vscal; reflexivity. Qed.
Lemma op_mult_rel w (v : list Q) : op_rel w w (op_mult (SQ w) v) (op_mult (SR w) (QR v)).
Proof. constructor; cbn [op_mult op_app op_dadj op_linear wspace smul]; intros; try apply QR_vmul; reflexivity. Qed.
Lemma op_square_rel w : op_rel w w (op_square (SQ w)) (op_square (SR w)).
Proof.
  constructor; cbn [op_square op_app op_dadj op_linear wspace smul sscal]; intros.
  - apply QR_vmul.
  - rewrite QR_vmul, QR_vscal, Q2R_of_Z. reflexivity.
  - reflexivity.
Qed.
Lemma op_shift_rel w1 w2 A AR (t : list Q) : op_rel w1 w2 A AR ->
  op_rel w1 w2 (op_shift (S1:=SQ w1) (S2:=SQ w2) A t) (op_shift (S1:=SR w1) (S2:=SR w2) AR (QR t)).
Proof.
  intro H. constructor; cbn [op_shift op_app op_dadj op_linear]; intros.
  - rewrite QR_ssub, (or_app _ _ _ _ H). reflexivity.
  - apply (or_dadj _ _ _ _ H).
  - reflexivity.
Qed.
Lemma op_comp_rel w1 w2 w3 A AR B BR : op_rel w2 w3 A AR -> op_rel w1 w2 B BR ->
  op_rel w1 w3 (op_comp A B) (op_comp AR BR).
Proof.
  intros HA HB. constructor; cbn [op_comp op_app op_dadj op_linear]; intros.
  - rewrite (or_app _ _ _ _ HA), (or_app _ _ _ _ HB). reflexivity.
  - rewrite (or_dadj _ _ _ _ HB), (or_dadj _ _ _ _ HA), (or_app _ _ _ _ HB). reflexivity.
  - rewrite (or_lin _ _ _ _ HA), (or_lin _ _ _ _ HB). reflexivity.
Qed.
Lemma op_pwprod_rel w1 w2 A AR B BR : op_rel w1 w2 A AR -> op_rel w1 w2 B BR ->
  op_rel w1 w2 (op_pwprod A B) (op_pwprod AR BR).
Proof.
  intros HA HB. constructor; cbn [op_pwprod op_app op_dadj op_linear wspace sadd smul]; intros.
  - rewrite QR_vmul, (or_app _ _ _ _ HA), (or_app _ _ _ _ HB). reflexivity.
  - rewrite QR_vadd, (or_dadj _ _ _ _ HA), (or_dadj _ _ _ _ HB), !QR_vmul,
      (or_app _ _ _ _ HA), (or_app _ _ _ _ HB). reflexivity.
  - reflexivity.
Qed.
End Transfer.

(* packaged for Props.v *)
Lemma model_transfer_all (sQ : Q -> Q) : forall w eQ eR, trel sQ w eQ eR ->
  forall x d : list Q, divs_ok eQ x ->
  Q2R (value eQ x) = value eR (QR x)
  /\ QR (gradient eQ x) = gradient eR (QR x)
  /\ Q2R (derivative eQ x d) = derivative eR (QR x) (QR d)
  /\ is_linear eQ = is_linear eR.
Proof.
  intros w eQ eR H x d Hd. repeat split.
  - apply (value_transfer sQ _ _ _ H x Hd).
  - apply (gradient_transfer sQ _ _ _ H x Hd).
  - apply (derivative_transfer sQ _ _ _ H x d Hd).
  - apply (is_linear_transfer sQ _ _ _ H).
Qed.
