(* C09/Corr.v -- correspondence checker, executed at Q by the shards.
   A case = a weighted list space, a functional expression tree over it (built
   either from the raw class constructors or through the arithmetic overloads),
   a point x, a direction d and what the implementation returned:
   f(x), f.gradient(x), f.derivative(x)(d), f.grad_lipschitz, f.is_linear and
   the class of the top-level object. *)
From Coq Require Import ZArith QArith Qabs List Bool.
From Verif Require Import Base.Num Base.Vec Base.Check C09.Model.
Import ListNotations.

(* rational square root, relative error < 1e-12 (exact on perfect squares) *)
Definition Qsqrt (q : Q) : Q :=
  let n := Qnum q in let d := Zpos (Qden q) in
  if (n <=? 0)%Z then 0
  else Qred (Qmake (Z.sqrt (n * d * 10 ^ 24)) (Pos.mul (Qden q) (10 ^ 12))).

Definition WS (w : list Q) : Space := wspace Qsqrt w.
Definition fx (w : list Q) := fexpr (WS w).

(* list-typed aliases of the constructors, so that shard terms elaborate
   without unfolding [car (WS w)] *)
Definition Xleaf w (l : Leaf (WS w)) : fx w := FLeaf l.
Definition Xlscal w (s : Q) (f : fx w) : fx w := FLeftScal s f.
Definition Xrscal w (f : fx w) (s : Q) : fx w := FRightScal f s.
Definition Xrvec w (f : fx w) (v : list Q) : fx w := FRightVec (S:=WS w) f v.
Definition Xsum w (f g : fx w) : fx w := FSum f g.
Definition Xtrans w (f : fx w) (t : list Q) : fx w := FTrans (S:=WS w) f t.
Definition Xcomp w1 w2 (f : fx w2) (A : Oper (WS w1) (WS w2)) : fx w1 := FComp f A.
Definition Xqp w (f : fx w) (a : Q) (u : option (list Q)) (c : Q) : fx w := FQuadPert (S:=WS w) f a u c.
Definition Xprod w (f g : fx w) : fx w := FProd f g.
Definition Xquot w (f g : fx w) : fx w := FQuot f g.
Definition Xbreg w (f : fx w) (p s : list Q) : fx w := FBregman (S:=WS w) f p s.
(* overloads *)
Definition Xtranslated w (f : fx w) (t : list Q) : fx w := mk_translated (S:=WS w) f t.
Definition Xmul w (f : fx w) (s : Q) : fx w := f_mul_scalar f s.
Definition Xrmul w (s : Q) (f : fx w) : fx w := f_rmul_scalar s f.
Definition Xadds w (f : fx w) (c : Q) : fx w := f_add_scalar f c.
Definition Xsub w (f g : fx w) : fx w := f_sub f g.
Definition Xneg w (f : fx w) : fx w := f_neg f.
Definition Xdiv w (f : fx w) (s : Q) : fx w := f_div_scalar f s.
(* leaves *)
Definition Lconst w (c : Q) : Leaf (WS w) := leaf_const (WS w) c.
Definition Ll2sq w : Leaf (WS w) := leaf_l2sq (WS w).
Definition Ll2 w : Leaf (WS w) := leaf_l2 (WS w).
Definition Ll1 w : Leaf (WS w) := leaf_l1 Qsqrt w.
Definition Lhuber w (g : Q) : Leaf (WS w) := leaf_huber Qsqrt w g.
Definition Llin w (b : list Q) (c : Q) : Leaf (WS w) := leaf_lin (WS w) b c.
(* QuadraticForm with ScalingOperator / MultiplyOperator / MatrixOperator *)
Definition Lquad_scal w (s : Q) (b : option (list Q)) (c : Q) : Leaf (WS w) :=
  leaf_quad (WS w) (vscal s) (vscal s) true b c.
Definition Lquad_mult w (v : list Q) (b : option (list Q)) (c : Q) : Leaf (WS w) :=
  leaf_quad (WS w) (vmul v) (vmul v) false b c.
Definition Lquad_mat w (m : list (list Q)) (b : option (list Q)) (c : Q) : Leaf (WS w) :=
  leaf_quad (WS w) (mvec m) (mvec (transpose (length w) m)) false b c.
(* simple_functional(space, fcall = (a/2)<x,x>, grad = a x, grad_lip = a, ...): a user-defined leaf
   (its gradient callable may return its argument itself when a = 1) *)
Definition Lscaledsq w (a : Q) : Leaf (WS w) :=
  @mkLeaf Q (WS w) (fun x : list Q => ((a / 2) * wdot w x x)%num) (fun x : list Q => vscal a x) (LFin a) false.
(* simple_functional(space, fcall = <x,b>, grad = lambda x: b (the stored vector itself), linear=True) *)
Definition Lsimple_lin w (b : list Q) : Leaf (WS w) :=
  @mkLeaf Q (WS w) (fun x : list Q => wdot w x b) (fun _ : list Q => b) LNan true.
(* QuadraticForm(ScalingOperator(s), vector=b, constant=c).convex_conj as the code builds it:
   QuadraticForm(0.25 * op.inverse, vector = -0.25 (opinv^*(b) + opinv(b)), constant = 0.25 <b, opinv b> - c) *)
Definition Lquadconj_scal w (s : Q) (b : option (list Q)) (c : Q) : Leaf (WS w) :=
  let k := ((1 # 4) * (1 / s))%num in
  match b with
  | None => leaf_quad (WS w) (vscal k) (vscal k) false None (- c)%num
  | Some v => leaf_quad (WS w) (vscal k) (vscal k) false
                (Some (vscal (- (1 # 4))%num (vadd (vscal (1 / s)%num v) (vscal (1 / s)%num v))))
                ((1 # 4) * wdot w v (vscal (1 / s)%num v) - c)%num
  end.
(* f.grad_lipschitz = c  (the property setter) on a leaf *)
Definition Lsetlip w (l : Leaf (WS w)) (c : @lip Q) : Leaf (WS w) :=
  @mkLeaf Q (WS w) (lf_val l) (lf_grad l) c (lf_linear l).
(* operators *)
Definition Oid w : Oper (WS w) (WS w) := op_id (WS w).
Definition Oscal w (s : Q) : Oper (WS w) (WS w) := op_scal (WS w) s.
Definition Omult w (v : list Q) : Oper (WS w) (WS w) := op_mult (WS w) v.
Definition Osquare w : Oper (WS w) (WS w) := op_square (WS w).
Definition Omat w1 w2 (m : list (list Q)) : Oper (WS w1) (WS w2) := op_matrix Qsqrt w1 w2 m.
Definition Opw w1 w2 (A B : Oper (WS w1) (WS w2)) : Oper (WS w1) (WS w2) := op_pwprod A B.
Definition Orecip w : Oper (WS w) (WS w) := op_recip Qsqrt w.
Definition Oshift w1 w2 (A : Oper (WS w1) (WS w2)) (t : list Q) : Oper (WS w1) (WS w2) :=
  op_shift (S1:=WS w1) (S2:=WS w2) A t.
Definition Ocomp w1 w2 w3 (A : Oper (WS w2) (WS w3)) (B : Oper (WS w1) (WS w2)) : Oper (WS w1) (WS w3) :=
  op_comp A B.

Inductive ilip := INan | IInf | IFin (c : Q).

(* c_x2 ...: the SAME operator objects (G = f.gradient, D = f.derivative(x)) evaluated again:
   c_grad2 = G(x2), c_grad1b = G(x) once more afterwards, c_val2 = f(x2), c_deriv2 = D(x2) *)
Record case := mkCase {
  c_w : list Q; c_e : fx c_w;
  c_x : list Q; c_d : list Q;
  c_val : Q; c_grad : list Q; c_deriv : Q; c_lip : ilip; c_lin : bool; c_kind : kind;
  c_x2 : list Q; c_val2 : Q; c_grad2 : list Q; c_grad1b : list Q; c_deriv2 : Q }.

Definition atol : Q := 1 # 1000000000000.
Definition rtol : Q := 1 # 1000000000.

Definition kind_eqb (a b : kind) : bool :=
  match a, b with
  | KLeaf, KLeaf | KLeftScal, KLeftScal | KRightScal, KRightScal | KRightVec, KRightVec
  | KSum, KSum | KTrans, KTrans | KComp, KComp | KQuadPert, KQuadPert | KProd, KProd
  | KQuot, KQuot | KBregman, KBregman => true
  | _, _ => false
  end.

Definition lip_ok (i : ilip) (m : @lip Q) : bool :=
  match i, m with
  | INan, LNan => true
  | IInf, LInf => true
  | IFin a, LFin b => Qclose atol rtol a b
  | _, _ => false
  end.

Definition check (k : case) : bool :=
  let e := c_e k in
  let x : car (WS (c_w k)) := c_x k in
  let d : car (WS (c_w k)) := c_d k in
  Qclose atol rtol (c_val k) (value e x)
  && Qsclose atol rtol (c_grad k) (gradient e x)
  && Qclose atol rtol (c_deriv k) (derivative e x d)
  && lip_ok (c_lip k) (lipschitz e)
  && beq (c_lin k) (is_linear e)
  && kind_eqb (c_kind k) (kind_of e)
  && (let x2 : car (WS (c_w k)) := c_x2 k in
      Qclose atol rtol (c_val2 k) (value e x2)
      && Qsclose atol rtol (c_grad2 k) (gradient e x2)
      && Qsclose atol rtol (c_grad1b k) (gradient e x)
      && Qclose atol rtol (c_deriv2 k) (derivative e x x2)).

(* which of the conjuncts fail (for diagnosing a failing case by hand) *)
Definition diagnose (k : case) : list bool :=
  let e := c_e k in
  let x : car (WS (c_w k)) := c_x k in
  let d : car (WS (c_w k)) := c_d k in
  [Qclose atol rtol (c_val k) (value e x);
   Qsclose atol rtol (c_grad k) (gradient e x);
   Qclose atol rtol (c_deriv k) (derivative e x d);
   lip_ok (c_lip k) (lipschitz e);
   beq (c_lin k) (is_linear e);
   kind_eqb (c_kind k) (kind_of e);
   Qclose atol rtol (c_val2 k) (value e (c_x2 k : car (WS (c_w k))));
   Qsclose atol rtol (c_grad2 k) (gradient e (c_x2 k : car (WS (c_w k))));
   Qsclose atol rtol (c_grad1b k) (gradient e x);
   Qclose atol rtol (c_deriv2 k) (derivative e x (c_x2 k : car (WS (c_w k))))].

(* ---- SeparableSum(f1, f2) on ProductSpace(S1, S2) ---- *)
Record case2 := mkCase2 {
  k_w1 : list Q; k_w2 : list Q; k_e1 : fx k_w1; k_e2 : fx k_w2;
  k_x1 : list Q; k_x2 : list Q; k_d1 : list Q; k_d2 : list Q;
  k_val : Q; k_g1 : list Q; k_g2 : list Q; k_deriv : Q; k_lip : ilip; k_lin : bool;
  k_y1 : list Q; k_y2 : list Q; k_h1 : list Q; k_h2 : list Q (* same gradient object at a second point *) }.

Definition check2 (k : case2) : bool :=
  let P := sprod Qsqrt (WS (k_w1 k)) (WS (k_w2 k)) in
  let e : fexpr P := f_sepsum Qsqrt (k_e1 k) (k_e2 k) in
  let x : car P := (k_x1 k, k_x2 k) in
  let d : car P := (k_d1 k, k_d2 k) in
  let g := gradient e x in
  Qclose atol rtol (k_val k) (value e x)
  && Qsclose atol rtol (k_g1 k) (fst g) && Qsclose atol rtol (k_g2 k) (snd g)
  && Qclose atol rtol (k_deriv k) (derivative e x d)
  && lip_ok (k_lip k) (lipschitz e)
  && beq (k_lin k) (is_linear e)
  && (let y : car P := (k_y1 k, k_y2 k) in
      Qsclose atol rtol (k_h1 k) (fst (gradient e y)) && Qsclose atol rtol (k_h2 k) (snd (gradient e y))).

(* ---- MoreauEnvelope of L2NormSquared / L1Norm: gradient only (the code has no _call) ---- *)
Definition prox_l2sq (sigma : Q) (x : list Q) : list Q := vscal (1 / (1 + 2 * sigma))%num x.
Definition soft (sigma a : Q) : Q := (nsign a * nmax (nabs a - sigma) 0)%num.
Definition prox_l1 (sigma : Q) (x : list Q) : list Q := map (soft sigma) x.
Definition Lmoreau_l2sq w (sigma : Q) : Leaf (WS w) :=
  leaf_moreau (WS w) (fun x : list Q => wdot w x x) (prox_l2sq sigma) sigma.
Definition Lmoreau_l1 w (sigma : Q) : Leaf (WS w) :=
  leaf_moreau (WS w) (fun x : list Q => wdot w (map nabs x) (ones w)) (prox_l1 sigma) sigma.

Record case3 := mkCase3 { m_w : list Q; m_l : Leaf (WS m_w); m_x : list Q; m_d : list Q;
                          m_grad : list Q; m_deriv : Q; m_lip : ilip; m_lin : bool;
                          m_x2 : list Q; m_grad2 : list Q }.
Definition check3 (k : case3) : bool :=
  let e : fx (m_w k) := FLeaf (m_l k) in
  let x : car (WS (m_w k)) := m_x k in
  let d : car (WS (m_w k)) := m_d k in
  Qsclose atol rtol (m_grad k) (gradient e x)
  && Qclose atol rtol (m_deriv k) (derivative e x d)
  && lip_ok (m_lip k) (lipschitz e)
  && beq (m_lin k) (is_linear e)
  && Qsclose atol rtol (m_grad2 k) (gradient e (m_x2 k : car (WS (m_w k)))).

(* ---- NumericalGradient(f, method, step) on 1-d tensor spaces ---- *)
Record case4 := mkCase4 { g_riesz : bool; g_w : list Q; g_e : fx g_w; g_m : ngmethod; g_h : Q; g_x : list Q; g_out : list Q;
                          g_x2 : list Q; g_out2 : list Q }.
Definition check4 (k : case4) : bool :=
  Qsclose atol rtol (g_out k) (numgrad_v Qsqrt (g_riesz k) (g_w k) (g_e k) (g_m k) (g_h k) (g_x k))
  && Qsclose atol rtol (g_out2 k) (numgrad_v Qsqrt (g_riesz k) (g_w k) (g_e k) (g_m k) (g_h k) (g_x2 k)).
