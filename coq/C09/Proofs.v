(* C09/Proofs.v -- lemmas (placeholder, filled in below) *)
From Coq Require Import Reals List.
From Verif Require Import Base.Num C09.Model.
