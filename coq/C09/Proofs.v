(* C09/Proofs.v -- soundness of the gradient rules and of the grad_lipschitz
   propagation for ALL functional expression trees of C09/Model.v, over any
   spaces satisfying [SpaceLaws]; overload layer; closed-form leaves. *)
From Coq Require Import Reals Lra Psatz List Bool.
From Verif Require Import Base.Num C09.Model C09.IPS.
Local Open Scope R_scope.

Notation Rexpr := (@fexpr R).

(* ---------------------------------------------------------------- premises *)
(* a leaf is sound at x: its gradient is the Frechet gradient of its value *)
Definition leaf_sound {S : RSpace} (l : Leaf S) (x : car S) : Prop :=
  is_grad S (lf_val l) x (lf_grad l x).
(* an operator is sound at x: it is Frechet differentiable there and op_dadj is
   the adjoint of that derivative *)
Definition op_sound {S1 S2 : RSpace} (A : Oper S1 S2) (x : car S1) : Prop :=
  exists D, is_deriv S1 S2 (op_app A) x D /\
            forall h y, sinner S2 (D h) y = sinner S1 h (op_dadj A x y).

(* every space occurring in the tree satisfies the laws *)
Fixpoint spaces_ok {S} (e : Rexpr S) : Prop :=
  match e with
  | @FLeaf _ X _ => SpaceLaws X
  | FLeftScal _ f | FRightScal f _ | FRightVec f _ | FTrans f _ | FQuadPert f _ _ _
  | FBregman f _ _ => spaces_ok f
  | FSum f g | FProd f g | FQuot f g => spaces_ok f /\ spaces_ok g
  | @FComp _ S1 S2 f A => SpaceLaws S1 /\ spaces_ok f
  end.

Lemma spaces_ok_top {S} (e : Rexpr S) : spaces_ok e -> SpaceLaws S.
Proof. induction e; cbn; intros Hs; try tauto; auto. Qed.

(* the domain of differentiability of a tree: the points where all leaves and
   operators are sound at the arguments they receive, and divisors are non-zero *)
Fixpoint smooth_at {S} (e : Rexpr S) : car S -> Prop :=
  match e in fexpr S return car S -> Prop with
  | FLeaf l => fun x => leaf_sound l x
  | FLeftScal _ f => fun x => smooth_at f x
  | @FRightScal _ X f s => fun x => smooth_at f (sscal X s x)
  | @FRightVec _ X f v => fun x => smooth_at f (smul X v x)
  | FSum f g => fun x => smooth_at f x /\ smooth_at g x
  | FTrans f t => fun x => smooth_at f (ssub x t)
  | FComp f A => fun x => op_sound A x /\ smooth_at f (op_app A x)
  | FQuadPert f _ _ _ => fun x => smooth_at f x
  | FProd f g => fun x => smooth_at f x /\ smooth_at g x
  | FQuot f g => fun x => smooth_at f x /\ smooth_at g x /\ value g x <> 0
  | FBregman f _ _ => fun x => smooth_at f x
  end.

(* ------------------------------------------------------ affine inner maps *)
Section Affine.
Variable S : RSpace.
Hypothesis L : SpaceLaws S.

(* an exactly affine map with bounded linear part is Frechet differentiable *)
Lemma is_deriv_affine (A D : car S -> car S) (x : car S) :
  (exists C, 0 <= C /\ forall h, norm S (D h) <= C * norm S h) ->
  (forall h, A (sadd S x h) = sadd S (A x) (D h)) ->
  is_linmap S S D ->
  is_deriv S S A x D.
Proof.
  intros Hb Ha Hlin. split; [assumption|]. split; [|assumption]. intros eps He. exists 1. split; [lra|]. intros h _.
  rewrite Ha, (add_cancel_mid S L), (sub_self S L), (norm_zero S L).
  pose proof (norm_nonneg S h). nra.
Qed.

Lemma is_deriv_scal (s : R) (x : car S) : is_deriv S S (sscal S s) x (sscal S s).
Proof.
  apply is_deriv_affine.
  - exists (Rabs s). split; [apply Rabs_pos|]. intro h. rewrite (norm_scal S L). lra.
  - intro h. apply (scal_add_r S L).
  - split; [intros; apply (scal_add_r S L)|].
    intros a u. rewrite !(scal_scal S L). f_equal. ring.
Qed.
Lemma is_deriv_mult (v : car S) (x : car S) : is_deriv S S (smul S v) x (smul S v).
Proof.
  apply is_deriv_affine.
  - destruct (norm_mul S L v v) as [C [HC Hb]]. exists (C * norm S v). split.
    { apply Rmult_le_pos; [assumption|apply norm_nonneg]. }
    intro h. apply Hb.
  - intro h. apply (mul_add_r S L).
  - split; [intros; apply (mul_add_r S L)|intros; apply (mul_scal_r S L)].
Qed.
Lemma is_deriv_translate (t : car S) (x : car S) :
  is_deriv S S (fun y => @ssub R _ S y t) x (fun h => h).
Proof.
  apply is_deriv_affine.
  - exists 1. split; [lra|]. intro h. lra.
  - intro h. apply (add_sub_swap S L).
  - split; intros; reflexivity.
Qed.
Lemma is_deriv_id (x : car S) : is_deriv S S (fun y => y) x (fun h => h).
Proof.
  apply is_deriv_affine.
  - exists 1. split; [lra|]. intro h. lra.
  - intro h. reflexivity.
  - split; intros; reflexivity.
Qed.

(* x -> x*x pointwise (PowerOperator with exponent 2) *)
Lemma is_deriv_square (x : car S) :
  is_deriv S S (fun y => smul S y y) x (fun h => smul S (sscal S 2 x) h).
Proof.
  destruct (norm_mul S L x x) as [C [HC Hb]].
  split; [|split].
  - exists (C * norm S (sscal S 2 x)). split.
    { apply Rmult_le_pos; [assumption|apply norm_nonneg]. }
    intro h. apply Hb.
  - intros eps He. exists (eps / (C + 1)). split; [apply Rdiv_lt_0_compat; lra|].
    intros h Hh.
    assert (E : @ssub R _ S (@ssub R _ S (smul S (sadd S x h) (sadd S x h)) (smul S x x))
                      (smul S (sscal S 2 x) h) = smul S h h).
    { rewrite (mul_add_r S L), !(mul_comm S L (sadd S x h)), !(mul_add_r S L).
      rewrite (mul_comm S L (sscal S 2 x) h), (mul_scal_r S L), (mul_comm S L h x).
      replace 2 with (1 + 1) by lra. rewrite (scal_add_l S L), (scal_1 S L).
      set (a := smul S x x). set (b := smul S x h). set (c := smul S h h).
      rewrite (add_assoc S L a b), (add_cancel_mid S L).
      rewrite <- (add_assoc S L b b c), (add_comm S L (sadd S b b) c).
      rewrite (ssub_def S), (add_assoc S L), (add_opp S L). apply (add_0_r S L). }
    rewrite E. specialize (Hb h h). pose proof (norm_nonneg S h) as Hn.
    assert (C * norm S h <= eps).
    { assert (C * norm S h <= C * (eps / (C + 1))) by (apply Rmult_le_compat_l; lra).
      assert (C * (eps / (C + 1)) <= eps).
      { replace (C * (eps / (C + 1))) with (eps * (C / (C + 1))) by (field; lra).
        assert (C / (C + 1) <= 1).
        { apply Rmult_le_reg_r with (C + 1); [lra|]. unfold Rdiv. rewrite Rmult_assoc, Rinv_l by lra. lra. }
        nra. }
      lra. }
    nra.
  - split; [intros; apply (mul_add_r S L)|intros; apply (mul_scal_r S L)].
Qed.
End Affine.

(* -------------------------------------------------- T1: gradient rules *)
Theorem grad_sound_all : forall (S : RSpace) (e : Rexpr S),
  spaces_ok e -> forall x, smooth_at e x -> is_grad S (value e) x (gradient e x).
Proof.
  intros S e. induction e as
    [S l | S s f IH | S f IH s | S f IH v | S f IHf g IHg | S f IH t | S1 S2 f IH A
    | S f IH a u c | S f IHf g IHg | S f IHf g IHg | S f IH p s]; intros Hs x Hx;
    cbn [value gradient spaces_ok smooth_at] in *; numR.
  - (* leaf *) exact Hx.
  - (* s * f *) pose proof (spaces_ok_top _ Hs) as L. apply (is_grad_scal S L). auto.
  - (* f(s x) *)
    pose proof (spaces_ok_top _ Hs) as L.
    apply (is_grad_comp S S L L (value f) (sscal S s) x (sscal S s) (gradient f (sscal S s x))).
    + apply (is_deriv_scal S L).
    + intro h. apply (inner_scal_l S L) || (rewrite (inner_scal_l S L), (inner_scal_r S L); reflexivity).
    + auto.
  - (* f(v x) *)
    pose proof (spaces_ok_top _ Hs) as L.
    apply (is_grad_comp S S L L (value f) (smul S v) x (smul S v) (gradient f (smul S v x))).
    + apply (is_deriv_mult S L).
    + intro h. rewrite (mul_adj S L). reflexivity.
    + auto.
  - (* f + g *) destruct Hs as [Hs1 Hs2]. destruct Hx as [Hx1 Hx2].
    pose proof (spaces_ok_top _ Hs1) as L. apply (is_grad_add S L); auto.
  - (* f(x - t) *)
    pose proof (spaces_ok_top _ Hs) as L.
    apply (is_grad_comp S S L L (value f) (fun y => ssub y t) x (fun h => h) (gradient f (ssub x t))).
    + apply (is_deriv_translate S L).
    + intro h. reflexivity.
    + auto.
  - (* f(A x) *)
    destruct Hs as [L1 Hs2]. destruct Hx as [[D [HD Hadj]] Hx2].
    pose proof (spaces_ok_top _ Hs2) as L2.
    apply (is_grad_comp S1 S2 L1 L2 (value f) (op_app A) x D (gradient f (op_app A x))).
    + exact HD.
    + intro h. apply Hadj.
    + auto.
  - (* quadratic perturbation *)
    pose proof (spaces_ok_top _ Hs) as L.
    apply (is_grad_ext S) with
      (fun y => (value f y + a * sinner S y y) + (sinner S (lin_term u) y + c)).
    { intro y. rewrite (inner_sym S L y (lin_term u)). ring. }
    apply (is_grad_add S L); [apply (is_grad_add S L)|].
    + auto.
    + replace (sscal S (2 * a) x) with (sscal S a (sscal S 2 x))
        by (rewrite (scal_scal S L); f_equal; ring).
      apply (is_grad_scal S L), (is_grad_l2sq S L).
    + apply (is_grad_linear S L).
  - (* f * g *) destruct Hs as [Hs1 Hs2]. destruct Hx as [Hx1 Hx2].
    pose proof (spaces_ok_top _ Hs1) as L. apply (is_grad_mul S L); auto.
  - (* f / g *) destruct Hs as [Hs1 Hs2]. destruct Hx as [Hx1 [Hx2 Hne]].
    pose proof (spaces_ok_top _ Hs1) as L.
    apply (is_grad_div S L); auto.
  - (* Bregman *)
    pose proof (spaces_ok_top _ Hs) as L.
    apply (is_grad_ext S) with
      (fun y => value f y + (sinner S (sscal S (- (1)) s) y + (- value f p + sinner S s p))).
    { intro y. rewrite (inner_sym S L y (sscal S (- (1)) s)). ring. }
    apply (is_grad_add S L); [auto|apply (is_grad_linear S L)].
Qed.

(* inner(grad f(x), d) is the directional derivative of t |-> f(x + t d), and
   f.derivative(x)(d) is that same number *)
Corollary directional_all : forall (S : RSpace) (e : Rexpr S),
  spaces_ok e -> forall x d, smooth_at e x ->
  derivable_pt_lim (fun t => value e (sadd S x (sscal S t d))) 0 (sinner S (gradient e x) d)
  /\ derivative e x d = sinner S (gradient e x) d.
Proof.
  intros S e Hs x d Hx. pose proof (spaces_ok_top _ Hs) as L. split.
  - apply (is_grad_directional S L). apply grad_sound_all; assumption.
  - unfold derivative. apply (inner_sym S L).
Qed.

(* -------------------------------------------- T1: Lipschitz propagation *)
Definition lip_bound (S : RSpace) (G : car S -> car S) (c : R) : Prop :=
  forall x y, norm S (ssub (G x) (G y)) <= c * norm S (ssub x y).

(* premise: every leaf whose grad_lipschitz is finite has that constant as a bound *)
Fixpoint lip_leaves_ok {S} (e : Rexpr S) : Prop :=
  match e with
  | @FLeaf _ X l => forall c, lf_lip l = LFin c -> lip_bound X (lf_grad l) c
  | FLeftScal _ f | FRightScal f _ | FRightVec f _ | FTrans f _ | FQuadPert f _ _ _
  | FBregman f _ _ => lip_leaves_ok f
  | FSum f g | FProd f g | FQuot f g => lip_leaves_ok f /\ lip_leaves_ok g
  | FComp _ _ => True
  end.

Lemma lip_scale_fin (a : R) (l : @lip R) (c : R) :
  lip_scale a l = LFin c -> exists c0, l = LFin c0 /\ c = a * c0.
Proof.
  destruct l as [| |c0]; cbn; numR; try discriminate.
  - destruct (Reqb a 0); discriminate.
  - intro E. injection E as <-. eauto.
Qed.
Lemma lip_add_fin (l1 l2 : @lip R) (c : R) :
  lip_add l1 l2 = LFin c -> exists c1 c2, l1 = LFin c1 /\ l2 = LFin c2 /\ c = c1 + c2.
Proof.
  destruct l1 as [| |c1], l2 as [| |c2]; cbn; numR; try discriminate.
  intro E. injection E as <-. eauto.
Qed.

Theorem lipschitz_sound_all : forall (S : RSpace) (e : Rexpr S),
  SpaceLaws S -> lip_leaves_ok e ->
  forall c, lipschitz e = LFin c -> lip_bound S (gradient e) c.
Proof.
  intros S e. induction e as
    [S l | S s f IH | S f IH s | S f IH v | S f IHf g IHg | S f IH t | S1 S2 f IH A
    | S f IH a u c0 | S f IHf g IHg | S f IHf g IHg | S f IH p s]; intros L Hl c Hc;
    cbn [lipschitz lip_leaves_ok gradient] in *; try discriminate.
  - (* leaf *) auto.
  - (* s * f : |s| L *)
    apply lip_scale_fin in Hc. destruct Hc as [c1 [Hc1 ->]]. numR.
    intros x y. rewrite (scal_sub S L), (norm_scal S L).
    specialize (IH L Hl c1 Hc1 x y). pose proof (Rabs_pos s). nra.
  - (* f(s x) : |s|^2 L *)
    apply lip_scale_fin in Hc. destruct Hc as [c1 [Hc1 ->]]. numR.
    intros x y. rewrite (scal_sub S L), (norm_scal S L).
    specialize (IH L Hl c1 Hc1 (sscal S s x) (sscal S s y)).
    rewrite (scal_sub S L), (norm_scal S L) in IH. pose proof (Rabs_pos s). nra.
  - (* f + g *)
    apply lip_add_fin in Hc. destruct Hc as [c1 [c2 [Hc1 [Hc2 ->]]]]. destruct Hl as [Hl1 Hl2].
    intros x y. rewrite (sub_add_distr S L).
    pose proof (norm_triangle S L (ssub (gradient f x) (gradient f y)) (ssub (gradient g x) (gradient g y))).
    specialize (IHf L Hl1 c1 Hc1 x y). specialize (IHg L Hl2 c2 Hc2 x y). lra.
  - (* translation *)
    intros x y. specialize (IH L Hl c Hc (ssub x t) (ssub y t)).
    rewrite (sub_sub_cancel S L) in IH. exact IH.
  - (* quadratic perturbation: L [+ ||u||] + 2|a| *)
    apply lip_add_fin in Hc. destruct Hc as [c1 [c2 [Hc1 [Hc2 ->]]]]. injection Hc2 as <-. numR.
    assert (Hf : exists cf, lipschitz f = LFin cf /\ cf <= c1).
    { destruct u as [v|].
      - apply lip_add_fin in Hc1. destruct Hc1 as [cf [cu [Hcf [Hcu ->]]]]. injection Hcu as <-.
        exists cf. split; [assumption|]. rewrite (snorm_norm S L). pose proof (norm_nonneg S v). lra.
      - exists c1. split; [assumption|lra]. }
    destruct Hf as [cf [Hcf Hle]].
    intros x y. rewrite (sub_add_cancel_r S L), (sub_add_distr S L), (scal_sub S L).
    pose proof (norm_triangle S L (ssub (gradient f x) (gradient f y)) (sscal S (2 * a) (ssub x y))) as Ht.
    rewrite (norm_scal S L) in Ht. specialize (IH L Hl cf Hcf x y).
    rewrite Rabs_mult, (Rabs_pos_eq 2) in Ht by lra.
    pose proof (norm_nonneg S (ssub x y)). nra.
  - (* Bregman: L + ||subgrad|| *)
    apply lip_add_fin in Hc. destruct Hc as [c1 [c2 [Hc1 [Hc2 ->]]]]. injection Hc2 as <-.
    intros x y. rewrite (sub_add_cancel_r S L). specialize (IH L Hl c1 Hc1 x y).
    rewrite (snorm_norm S L). pose proof (norm_nonneg S s). pose proof (norm_nonneg S (ssub x y)). nra.
Qed.

(* ------------------------------------------ closed-form leaves, abstractly *)
Section Leaves.
Variable S : RSpace.
Hypothesis L : SpaceLaws S.

Lemma leaf_const_sound c x : leaf_sound (leaf_const S c) x.
Proof. unfold leaf_sound; cbn. apply (is_grad_const S L). Qed.
Lemma leaf_l2sq_sound x : leaf_sound (leaf_l2sq S) x.
Proof. unfold leaf_sound; cbn; numR. apply (is_grad_l2sq S L). Qed.
Lemma leaf_lin_sound b c x : leaf_sound (leaf_lin S b c) x.
Proof. unfold leaf_sound; cbn; numR. apply (is_grad_linear S L). Qed.

Lemma leaf_const_lip c : forall k, lf_lip (leaf_const S c) = LFin k -> lip_bound S (lf_grad (leaf_const S c)) k.
Proof.
  cbn; numR. intros k E. injection E as <-. intros x y. cbn.
  rewrite (sub_self S L), (norm_zero S L). lra.
Qed.
Lemma leaf_l2sq_lip : forall k, lf_lip (leaf_l2sq S) = LFin k -> lip_bound S (lf_grad (leaf_l2sq S)) k.
Proof.
  cbn; numR. intros k E. injection E as <-. intros x y. cbn; numR.
  rewrite (scal_sub S L), (norm_scal S L), (Rabs_pos_eq 2) by lra. lra.
Qed.

(* QuadraticForm(operator=A[, vector=b], constant=c) for a bounded linear A with adjoint A' *)
Lemma leaf_quad_sound (A A' : car S -> car S) (selfadj : bool) (b : option (car S)) (c : R) x :
  (forall u v, A (sadd S u v) = sadd S (A u) (A v)) ->
  (exists C, 0 <= C /\ forall h, norm S (A h) <= C * norm S h) ->
  (forall u v, sinner S (A u) v = sinner S u (A' v)) ->
  (selfadj = true -> forall u, A' u = A u) ->
  leaf_sound (leaf_quad S A A' selfadj b c) x.
Proof.
  intros Hadd [C [HC Hb]] Hadj Hself. unfold leaf_sound.
  set (g0 := sadd S (A x) (A' x)).
  assert (Hcore : is_grad S (fun y => sinner S y (A y)) x g0).
  { unfold is_grad. apply (is_o_ext S) with (fun h => sinner S h (A h)).
    { intro h. unfold g0. rewrite Hadd, !(inner_add_l S L), !(inner_add_r S L).
      rewrite (inner_sym S L x (A h)), (Hadj h x), (inner_sym S L (A x) h), (inner_sym S L (A' x) h). ring. }
    intros eps He. exists (eps / (C + 1)). split; [apply Rdiv_lt_0_compat; lra|].
    intros h Hh. pose proof (cauchy_schwarz S L h (A h)) as Hcs. specialize (Hb h).
    pose proof (norm_nonneg S h) as Hn.
    assert (C * norm S h <= eps).
    { assert (C * norm S h <= C * (eps / (C + 1))) by (apply Rmult_le_compat_l; lra).
      assert (C * (eps / (C + 1)) <= eps).
      { replace (C * (eps / (C + 1))) with (eps * (C / (C + 1))) by (field; lra).
        assert (C / (C + 1) <= 1).
        { apply Rmult_le_reg_r with (C + 1); [lra|]. unfold Rdiv. rewrite Rmult_assoc, Rinv_l by lra. lra. }
        nra. }
      lra. }
    assert (norm S h * norm S (A h) <= norm S h * (C * norm S h)) by (apply Rmult_le_compat_l; assumption).
    nra. }
  assert (Hg : (if selfadj then sscal S 2 (A x) else sadd S (A x) (A' x)) = g0).
  { unfold g0. destruct selfadj; [|reflexivity]. rewrite (Hself eq_refl).
    replace 2 with (1 + 1) by lra. rewrite (scal_add_l S L), (scal_1 S L). reflexivity. }
  cbn [leaf_quad lf_val lf_grad]; numR. rewrite Hg.
  destruct b as [v|].
  - apply (is_grad_ext S) with (fun y => sinner S y (A y) + (sinner S v y + c)).
    { intro y. rewrite (inner_add_r S L), (inner_sym S L v y). ring. }
    apply (is_grad_add S L); [exact Hcore|apply (is_grad_linear S L)].
  - replace g0 with (sadd S g0 (szero S)) by apply (add_0_r S L).
    apply (is_grad_add S L); [exact Hcore|apply (is_grad_const S L)].
Qed.

(* L2Norm away from the origin *)
Lemma leaf_l2_sound x : norm S x <> 0 -> leaf_sound (leaf_l2 S) x.
Proof.
  intro Hx. unfold leaf_sound. cbn [leaf_l2 lf_val lf_grad]; numR.
  rewrite (snorm_norm S L). destruct (Reqb_spec (norm S x) 0) as [E|_]; [contradiction|].
  pose proof (norm_nonneg S x) as Hn0. assert (Hn : 0 < norm S x) by lra.
  unfold is_grad.
  apply (is_o_ext S) with (fun h => norm S (sadd S x h) - norm S x - sinner S (sscal S (1 / norm S x) x) h).
  { intro h. rewrite !(snorm_norm S L). reflexivity. }
  intros eps He. exists (Rmin (norm S x / 2) (eps * norm S x / 4)). split.
  { apply Rmin_pos; [lra|]. apply Rdiv_lt_0_compat; nra. }
  intros h Hh.
  pose proof (Rmin_l (norm S x / 2) (eps * norm S x / 4)).
  pose proof (Rmin_r (norm S x / 2) (eps * norm S x / 4)).
  set (n := norm S x) in *. set (m := norm S (sadd S x h)). set (k := norm S h) in *.
  assert (Hk : 0 <= k) by apply norm_nonneg.
  assert (Hm0 : 0 <= m) by apply norm_nonneg.
  (* |m - n| <= k *)
  assert (Hmn1 : m <= n + k) by apply (norm_triangle S L).
  assert (Hmn2 : n <= m + k).
  { pose proof (norm_triangle S L (sadd S x h) (sscal S (-1) h)) as Ht.
    rewrite (norm_opp S L) in Ht.
    replace (sadd S (sadd S x h) (sscal S (-1) h)) with x in Ht.
    { exact Ht. }
    rewrite (add_assoc S L), (add_opp S L), (add_0_r S L). reflexivity. }
  (* m^2 - n^2 = 2<x,h> + k^2 *)
  assert (Hsq : m * m - n * n = 2 * sinner S x h + k * k).
  { unfold m, n, k. rewrite !(norm_sqr S L), (inner_add_l S L), !(inner_add_r S L), (inner_sym S L h x). ring. }
  pose proof (cauchy_schwarz S L x h) as Hcs. fold n k in Hcs.
  rewrite (inner_scal_l S L).
  assert (Hmpos : 0 < m + n) by lra.
  assert (Eq : m - n - 1 / n * sinner S x h
               = (sinner S x h * (n - m) / n + k * k) / (m + n)).
  { field_simplify_eq; [|split; lra].
    replace (sinner S x h) with ((m * m - n * n - k * k) / 2) by lra. field. }
  rewrite Eq. unfold Rdiv at 1. rewrite Rabs_mult, Rabs_inv, (Rabs_pos_eq (m + n)) by lra.
  apply Rmult_le_reg_r with (m + n); [assumption|].
  rewrite Rmult_assoc, Rinv_l by lra. rewrite Rmult_1_r.
  eapply Rle_trans; [apply Rabs_triang|].
  rewrite (Rabs_pos_eq (k * k)) by nra.
  assert (T1 : Rabs (sinner S x h * (n - m) / n) <= k * k).
  { unfold Rdiv. rewrite !Rabs_mult, Rabs_inv, (Rabs_pos_eq n) by lra.
    assert (Hd : Rabs (n - m) <= k) by (apply Rabs_le; lra).
    assert (Rabs (sinner S x h) * Rabs (n - m) <= (n * k) * k).
    { apply Rmult_le_compat; try apply Rabs_pos; assumption. }
    apply Rmult_le_reg_r with n; [assumption|].
    rewrite Rmult_assoc, Rinv_l by lra. nra. }
  assert (Hk4 : k <= eps * n / 4) by lra.
  assert (Hm2 : n / 2 <= m) by lra.
  assert (Hkk : k * k <= k * (eps * n / 4)) by (apply Rmult_le_compat_l; assumption).
  assert (Hek : 0 <= eps * k) by nra.
  assert (Hekn : 0 <= eps * k * n) by (apply Rmult_le_pos; lra).
  assert (Hmn : eps * k * (3 * n / 2) <= eps * k * (m + n)) by (apply Rmult_le_compat_l; lra).
  lra.
Qed.
End Leaves.

(* ------------------------------------------- operators used by the harness *)
Section Operators.
Variable S : RSpace.
Hypothesis L : SpaceLaws S.

Lemma op_id_sound x : op_sound (op_id S) x.
Proof. exists (fun h => h). split; [apply (is_deriv_id S L)|]. intros h y. reflexivity. Qed.
Lemma op_scal_sound s x : op_sound (op_scal S s) x.
Proof.
  exists (sscal S s). split; [apply (is_deriv_scal S L)|]. intros h y. cbn.
  rewrite (inner_scal_l S L), (inner_scal_r S L). reflexivity.
Qed.
Lemma op_mult_sound v x : op_sound (op_mult S v) x.
Proof.
  exists (smul S v). split; [apply (is_deriv_mult S L)|]. intros h y. cbn. apply (mul_adj S L).
Qed.
Lemma op_square_sound x : op_sound (op_square S) x.
Proof.
  exists (fun h => smul S (sscal S 2 x) h). split; [apply (is_deriv_square S L)|].
  intros h y. cbn; numR. apply (mul_adj S L).
Qed.
End Operators.

(* A - t is sound wherever A is *)
Lemma op_shift_sound (S1 S2 : RSpace) (L2 : SpaceLaws S2) (A : Oper S1 S2) (t : car S2) x :
  op_sound A x -> op_sound (op_shift A t) x.
Proof.
  intros [D [[Hb [HA Hlin]] Hadj]]. exists D. split; [split; [assumption|split; [|assumption]]|exact Hadj].
  intros eps He. destruct (HA eps He) as [dl [Hdl Hbd]]. exists dl. split; [assumption|].
  intros h Hh. cbn [op_shift op_app]. rewrite (sub_sub_cancel S2 L2). auto.
Qed.

(* OperatorComp: A o B is sound at x when B is sound at x and A at B x *)
Lemma op_comp_sound (S1 S2 S3 : RSpace) (L1 : SpaceLaws S1) (L2 : SpaceLaws S2) (L3 : SpaceLaws S3)
      (A : Oper S2 S3) (B : Oper S1 S2) x :
  op_sound B x -> op_sound A (op_app B x) -> op_sound (op_comp A B) x.
Proof.
  intros [DB [HDB HadjB]] [DA [HDA HadjA]].
  exists (fun h => DA (DB h)). split.
  - apply (is_deriv_comp S1 S2 S3 L2 L3 (op_app B) (op_app A) x DB DA); assumption.
  - intros h y. cbn [op_comp op_dadj]. rewrite HadjA, HadjB. reflexivity.
Qed.

(* ----------------------------------------------------- overload layer *)
Section Overloads.
Variable S : RSpace.
Hypothesis L : SpaceLaws S.

(* nested translations are merged without changing value, gradient or constant *)
Lemma mk_translated_spec (e : Rexpr S) (t x : car S) :
  value (mk_translated e t) x = value e (ssub x t)
  /\ gradient (mk_translated e t) x = gradient e (ssub x t)
  /\ lipschitz (mk_translated e t) = lipschitz e.
Proof.
  destruct e; cbn [mk_translated value gradient lipschitz]; try (repeat split; reflexivity).
  rewrite (sub_add_sub _ L). repeat split; reflexivity.
Qed.

Definition homogeneous (f : car S -> R) : Prop := forall a x, f (sscal S a x) = a * f x.

(* f * s is documented as x -> f(s x) *)
Lemma f_mul_scalar_value (e : Rexpr S) (s : R) (x : car S) :
  (is_linear e = true -> homogeneous (value e)) ->
  value (f_mul_scalar e s) x = value e (sscal S s x).
Proof.
  intro Hlin. unfold f_mul_scalar; numR.
  destruct (Reqb_spec s 0) as [->|Hs].
  - cbn. rewrite (scal_0 S L). reflexivity.
  - destruct (is_linear e) eqn:El; cbn [value]; numR; [|reflexivity].
    symmetry. apply Hlin. reflexivity.
Qed.
(* s * f *)
Lemma f_rmul_scalar_value (e : Rexpr S) (s : R) (x : car S) :
  value (f_rmul_scalar s e) x = s * value e x.
Proof.
  unfold f_rmul_scalar; numR. destruct (Reqb_spec s 0) as [->|Hs]; cbn; numR; lra.
Qed.
Lemma f_sub_value (e g : Rexpr S) (x : car S) : value (f_sub e g) x = value e x - value g x.
Proof. unfold f_sub. cbn [value]; numR. rewrite f_rmul_scalar_value. lra. Qed.
Lemma f_neg_value (e : Rexpr S) (x : car S) : value (f_neg e) x = - value e x.
Proof. unfold f_neg. rewrite f_rmul_scalar_value. numR. lra. Qed.
Lemma f_add_scalar_value (e : Rexpr S) (c : R) (x : car S) : value (f_add_scalar e c) x = value e x + c.
Proof. reflexivity. Qed.

(* BregmanDistance: f(x) - f(p) - <s, x - p> *)
Lemma bregman_value (e : Rexpr S) (p s x : car S) :
  value (FBregman e p s) x = value e x - value e p - sinner S s (ssub x p).
Proof.
  cbn [value]; numR. rewrite (inner_sub_r S L), (inner_scal_r S L), (inner_sym S L x s). lra.
Qed.
End Overloads.

(* is_linear flags: every tree flagged linear is homogeneous (given sound
   leaf/operator flags) *)
Fixpoint lin_flags_ok {S} (e : Rexpr S) : Prop :=
  match e with
  | @FLeaf _ X l => lf_linear l = true -> forall a x, lf_val l (sscal X a x) = a * lf_val l x
  | FLeftScal _ f | FRightScal f _ | FRightVec f _ | FTrans f _ | FQuadPert f _ _ _
  | FBregman f _ _ => lin_flags_ok f
  | FSum f g | FProd f g | FQuot f g => lin_flags_ok f /\ lin_flags_ok g
  | @FComp _ S1 S2 f A => lin_flags_ok f /\ SpaceLaws S2 /\
      (op_linear A = true -> forall a x, op_app A (sscal S1 a x) = sscal S2 a (op_app A x))
  end.

Lemma is_linear_homogeneous : forall (S : RSpace) (e : Rexpr S),
  SpaceLaws S -> lin_flags_ok e ->
  is_linear e = true -> forall a x, value e (sscal S a x) = a * value e x.
Proof.
  intros S e. induction e as
    [S l | S s f IH | S f IH s | S f IH v | S f IHf g IHg | S f IH t | S1 S2 f IH A
    | S f IH q u c | S f IHf g IHg | S f IHf g IHg | S f IH p s]; intros L Hf Hl a x;
    cbn [is_linear lin_flags_ok value] in *; try discriminate.
  - auto.
  - numR. rewrite (IH L Hf Hl). ring.
  - rewrite (scal_scal S L), (Rmult_comm s a), <- (scal_scal S L). apply (IH L Hf Hl).
  - rewrite (mul_scal_r S L). apply (IH L Hf Hl).
  - apply andb_true_iff in Hl. destruct Hl as [H1 H2]. destruct Hf as [Hf1 Hf2]. numR.
    rewrite (IHf L Hf1 H1), (IHg L Hf2 H2). ring.
  - apply andb_true_iff in Hl. destruct Hl as [H1 H2]. destruct Hf as [Hf1 [L2 Hop]].
    rewrite (Hop H2). apply (IH L2 Hf1 H1).
  - apply andb_true_iff in Hl. destruct Hl as [Hl Hc]. apply andb_true_iff in Hl. destruct Hl as [H1 Hq].
    numR. destruct (Reqb_spec q 0) as [->|]; [|discriminate]. destruct (Reqb_spec c 0) as [->|]; [|discriminate].
    rewrite (IH L Hf H1), !(inner_scal_l S L). ring.
Qed.

(* ---- packaged statements used verbatim by Props.v ---- *)
Lemma l2sq_sound_both (S : RSpace) : SpaceLaws S ->
  (forall x, leaf_sound (leaf_l2sq S) x) /\
  (forall k, lf_lip (leaf_l2sq S) = LFin k -> lip_bound S (lf_grad (leaf_l2sq S)) k).
Proof. intros L. split; [exact (leaf_l2sq_sound S L)|exact (leaf_l2sq_lip S L)]. Qed.
Lemma const_sound_both (S : RSpace) : SpaceLaws S -> forall c,
  (forall x, leaf_sound (leaf_const S c) x) /\
  (forall k, lf_lip (leaf_const S c) = LFin k -> lip_bound S (lf_grad (leaf_const S c)) k).
Proof. intros L c. split; [exact (leaf_const_sound S L c)|exact (leaf_const_lip S L c)]. Qed.
Lemma operators_sound_all (S : RSpace) : SpaceLaws S ->
  (forall x, op_sound (op_id S) x) /\ (forall s x, op_sound (op_scal S s) x) /\
  (forall v x, op_sound (op_mult S v) x) /\ (forall x, op_sound (op_square S) x).
Proof.
  intros L. repeat split; intros.
  - exact (op_id_sound S L x). - exact (op_scal_sound S L s x).
  - exact (op_mult_sound S L v x). - exact (op_square_sound S L x).
Qed.
Lemma f_mul_scalar_documented (S : RSpace) (e : Rexpr S) :
  SpaceLaws S -> lin_flags_ok e -> forall s x,
  value (f_mul_scalar e s) x = value e (sscal S s x).
Proof.
  intros L Hf s x. apply (f_mul_scalar_value S L).
  intro Hl. exact (is_linear_homogeneous S e L Hf Hl).
Qed.

(* QuadraticForm with the operators the harness uses: premises of leaf_quad_sound hold *)
Section QuadInstances.
Variable S : RSpace.
Hypothesis L : SpaceLaws S.

Lemma leaf_quad_scal_sound (s : R) (b : option (car S)) (c : R) x :
  leaf_sound (leaf_quad S (sscal S s) (sscal S s) true b c) x.
Proof.
  apply (leaf_quad_sound S L).
  - intros u v. apply (scal_add_r S L).
  - exists (Rabs s). split; [apply Rabs_pos|]. intro h. rewrite (norm_scal S L). lra.
  - intros u v. rewrite (inner_scal_l S L), (inner_scal_r S L). reflexivity.
  - intros _ u. reflexivity.
Qed.
Lemma leaf_quad_mult_sound (v : car S) (b : option (car S)) (c : R) x :
  leaf_sound (leaf_quad S (smul S v) (smul S v) false b c) x.
Proof.
  apply (leaf_quad_sound S L).
  - intros u u'. apply (mul_add_r S L).
  - destruct (norm_mul S L v v) as [C [HC Hb]]. exists (C * norm S v). split.
    { apply Rmult_le_pos; [assumption|apply norm_nonneg]. }
    intro h. apply Hb.
  - intros u u'. apply (mul_adj S L).
  - discriminate.
Qed.
End QuadInstances.
