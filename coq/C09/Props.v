(* C09/Props.v -- property theorems only; each is closed by [exact] of a lemma
   of C09/Proofs.v (or Instances.v / Lists.v) and followed by Print Assumptions.

   The model (C09/Model.v) is a deep embedding [fexpr] of the derived classes of
   odl/solvers/functional/functional.py with [value] = f(x), [gradient] =
   f.gradient(x), [derivative] = f.derivative(x)(d), [lipschitz] =
   f.grad_lipschitz, [is_linear]; leaves and operators are records of functions.
   It is the SAME polymorphic term that the correspondence shards execute at Q
   against the implementation.  Here it is instantiated at R over ANY space
   satisfying [SpaceLaws] (real vector space, symmetric positive semi-definite
   form = the space's own inner product, bounded self-adjoint pointwise
   multiplication): rn with any positive weighting, uniform_discr, product
   spaces are instances (Instances.v, Lists.v). *)
From Coq Require Import Reals List Bool.
From Verif Require Import Base.Num Base.Vec C09.Model C09.IPS C09.Proofs C09.Instances C09.Lists C09.Pointwise C09.Matrix C09.Product C09.Moreau C09.KL C09.Radial.
Local Open Scope R_scope.

(* T1 (gradient rules, all trees).  For every expression tree, of any depth and
   over any spaces, at every point of its domain of differentiability (all
   leaves/operators sound at the arguments they receive, quotient divisors
   non-zero) the modelled gradient is the Frechet gradient of the modelled value
   in the space's own inner product:
      f(x+h) - f(x) - <gradient e x, h> = o(|h|). *)
Theorem gradient_rules_sound : forall (S : RSpace) (e : Rexpr S),
  spaces_ok e -> forall x, smooth_at e x ->
  forall eps, 0 < eps -> exists delta, 0 < delta /\
    forall h, norm S h < delta ->
      Rabs (value e (sadd S x h) - value e x - sinner S (gradient e x) h) <= eps * norm S h.
Proof. exact grad_sound_all. Qed.
Print Assumptions gradient_rules_sound.

(* T1 (the property's first sentence).  inner(f.gradient(x), d) is the
   directional derivative of t |-> f(x + t d) at 0 (std-library
   derivable_pt_lim), and f.derivative(x)(d) is that same number. *)
Theorem directional_derivative_all : forall (S : RSpace) (e : Rexpr S),
  spaces_ok e -> forall x d, smooth_at e x ->
  derivable_pt_lim (fun t => value e (sadd S x (sscal S t d))) 0 (sinner S (gradient e x) d)
  /\ derivative e x d = sinner S (gradient e x) d.
Proof. exact directional_all. Qed.
Print Assumptions directional_derivative_all.

(* T1 (Lipschitz propagation, all trees).  Whenever the propagated
   grad_lipschitz of a tree is a finite number c, and every leaf with a finite
   constant is bounded by it, c bounds |grad f(x) - grad f(y)| / |x - y|.
   (FunctionalComp/Product/Quotient/RightVectorMult propagate nan, so nothing is
   claimed for them -- as in the code.) *)
Theorem lipschitz_propagation_sound : forall (S : RSpace) (e : Rexpr S),
  SpaceLaws S -> lip_leaves_ok e ->
  forall c, lipschitz e = LFin c ->
  forall x y, norm S (ssub (gradient e x) (gradient e y)) <= c * norm S (ssub x y).
Proof. exact lipschitz_sound_all. Qed.
Print Assumptions lipschitz_propagation_sound.

(* T1 (leaves with closed forms, any space): their premises hold. *)
Theorem l2normsquared_sound : forall (S : RSpace), SpaceLaws S ->
  (forall x, leaf_sound (leaf_l2sq S) x) /\
  (forall k, lf_lip (leaf_l2sq S) = LFin k -> lip_bound S (lf_grad (leaf_l2sq S)) k).
Proof. exact l2sq_sound_both. Qed.
Theorem constant_functional_sound : forall (S : RSpace), SpaceLaws S -> forall c,
  (forall x, leaf_sound (leaf_const S c) x) /\
  (forall k, lf_lip (leaf_const S c) = LFin k -> lip_bound S (lf_grad (leaf_const S c)) k).
Proof. exact const_sound_both. Qed.
Theorem l2norm_sound : forall (S : RSpace), SpaceLaws S ->
  forall x, norm S x <> 0 -> leaf_sound (leaf_l2 S) x.
Proof. exact leaf_l2_sound. Qed.
Theorem linear_form_sound : forall (S : RSpace), SpaceLaws S ->
  forall b c x, leaf_sound (leaf_lin S b c) x.
Proof. exact leaf_lin_sound. Qed.
(* QuadraticForm(operator=A, vector=b, constant=c): gradient (A + adjoint A) x + b,
   resp. 2 A x when the code finds `operator.adjoint == operator` *)
Theorem quadratic_form_sound : forall (S : RSpace), SpaceLaws S ->
  forall (A A' : car S -> car S) (selfadj : bool) (b : option (car S)) (c : R) x,
  (forall u v, A (sadd S u v) = sadd S (A u) (A v)) ->
  (exists C, 0 <= C /\ forall h, norm S (A h) <= C * norm S h) ->
  (forall u v, sinner S (A u) v = sinner S u (A' v)) ->
  (selfadj = true -> forall u, A' u = A u) ->
  leaf_sound (leaf_quad S A A' selfadj b c) x.
Proof. exact leaf_quad_sound. Qed.
(* its premises hold for QuadraticForm(ScalingOperator) and QuadraticForm(MultiplyOperator) *)
Theorem quadratic_form_scaling_sound : forall (S : RSpace), SpaceLaws S ->
  forall (s : R) (b : option (car S)) (c : R) x,
  leaf_sound (leaf_quad S (sscal S s) (sscal S s) true b c) x.
Proof. exact leaf_quad_scal_sound. Qed.
Theorem quadratic_form_multiply_sound : forall (S : RSpace), SpaceLaws S ->
  forall (v : car S) (b : option (car S)) (c : R) x,
  leaf_sound (leaf_quad S (smul S v) (smul S v) false b c) x.
Proof. exact leaf_quad_mult_sound. Qed.
Print Assumptions quadratic_form_sound.
Print Assumptions l2norm_sound.

(* T1 (operators used in FunctionalComp): Frechet derivative + adjoint *)
Theorem operators_sound : forall (S : RSpace), SpaceLaws S ->
  (forall x, op_sound (op_id S) x) /\ (forall s x, op_sound (op_scal S s) x) /\
  (forall v x, op_sound (op_mult S v) x) /\ (forall x, op_sound (op_square S) x).
Proof. exact operators_sound_all. Qed.
Theorem shifted_operator_sound : forall (S1 S2 : RSpace), SpaceLaws S2 ->
  forall (A : Oper S1 S2) t x, op_sound A x -> op_sound (op_shift A t) x.
Proof. exact op_shift_sound. Qed.
Print Assumptions operators_sound.

(* OperatorComp: the chain rule for operators (derivative DA(Bx) o DB(x), adjoints reversed) *)
Theorem composed_operator_sound : forall (S1 S2 S3 : RSpace),
  SpaceLaws S1 -> SpaceLaws S2 -> SpaceLaws S3 ->
  forall (A : Oper S2 S3) (B : Oper S1 S2) x,
  op_sound B x -> op_sound A (op_app B x) -> op_sound (op_comp A B) x.
Proof. exact op_comp_sound. Qed.
(* MatrixOperator rn(n1) -> rn(n2) (unit weights): linear, bounded (Frobenius),
   and the plain transpose used by the code is its adjoint; the operator on the
   sigma carrier is Model.op_matrix applied to the underlying lists. *)
Theorem matrix_operator_sound : forall (n1 n2 : nat) (m : list (list R))
  (Hrows : rows_ok n1 m) (Hn2 : length m = n2) (x : Vn n1),
  op_sound (sop_matrix n1 n2 m Hrows Hn2) x.
Proof. exact sop_matrix_sound. Qed.
Print Assumptions matrix_operator_sound.

(* T1 (documented values of the overloads). *)
Theorem translated_merges_soundly : forall (S : RSpace), SpaceLaws S ->
  forall (e : Rexpr S) t x,
  value (mk_translated e t) x = value e (ssub x t)
  /\ gradient (mk_translated e t) x = gradient e (ssub x t)
  /\ lipschitz (mk_translated e t) = lipschitz e.
Proof. exact mk_translated_spec. Qed.
Theorem scalar_left_mult_value : forall (S : RSpace) (e : Rexpr S) s x,
  value (f_rmul_scalar s e) x = s * value e x.
Proof. exact f_rmul_scalar_value. Qed.
Theorem difference_value : forall (S : RSpace) (e g : Rexpr S) x,
  value (f_sub e g) x = value e x - value g x.
Proof. exact f_sub_value. Qed.
Theorem bregman_documented_value : forall (S : RSpace), SpaceLaws S ->
  forall (e : Rexpr S) p s x,
  value (FBregman e p s) x = value e x - value e p - sinner S s (ssub x p).
Proof. exact bregman_value. Qed.

(* f * s is documented as x |-> f(s x): holds for ALL trees (Functional.__mul__
   dispatches on is_linear, and every tree flagged linear is homogeneous, given
   sound leaf/operator flags).  Until /repo aef4c15 this statement was refuted by
   FunctionalQuadraticPerturb(linear f, constant=c<>0), which kept is_linear=True
   (finding quadraticperturb-linear-flag-constant, now fixed). *)
Theorem argument_scaling_value : forall (S : RSpace) (e : Rexpr S),
  SpaceLaws S -> lin_flags_ok e -> forall s x,
  value (f_mul_scalar e s) x = value e (sscal S s x).
Proof. exact f_mul_scalar_documented. Qed.
(* the flag itself is sound for all trees *)
Theorem linear_flag_sound : forall (S : RSpace) (e : Rexpr S),
  SpaceLaws S -> lin_flags_ok e -> is_linear e = true ->
  forall a x, value e (sscal S a x) = a * value e x.
Proof. exact is_linear_homogeneous. Qed.
Print Assumptions argument_scaling_value.

(* T1 (the spaces of the correspondence are instances).  Lists of length n with
   one positive weight per entry -- rn with no/constant/array weighting,
   uniform_discr (cell volume), flattened power/product spaces -- satisfy the
   laws, and every operation of that space IS the operation of
   [wspace sqrt w] that the shards execute (at Q), applied to the underlying
   lists.  So all theorems above hold on the modelled ODL spaces. *)
Theorem weighted_lists_satisfy_laws : forall (n : nat) (w : Vn n),
  Forall (fun a => 0 < a) (vl w) -> SpaceLaws (lspace n w).
Proof. exact lspace_laws. Qed.
Print Assumptions weighted_lists_satisfy_laws.
Theorem list_space_is_the_executed_space : forall (n : nat) (w : Vn n),
  (forall x y, vl (sadd (lspace n w) x y) = sadd (wspace sqrt (vl w)) (vl x) (vl y)) /\
  (forall a x, vl (sscal (lspace n w) a x) = sscal (wspace sqrt (vl w)) a (vl x)) /\
  (forall x y, vl (smul (lspace n w) x y) = smul (wspace sqrt (vl w)) (vl x) (vl y)) /\
  (forall x y, sinner (lspace n w) x y = sinner (wspace sqrt (vl w)) (vl x) (vl y)) /\
  (forall x, snorm (lspace n w) x = snorm (wspace sqrt (vl w)) (vl x)) /\
  vl (szero (lspace n w)) = szero (wspace sqrt (vl w)).
Proof. exact lspace_is_wspace. Qed.

(* Product spaces proper: ProductSpace(S1, S2) of two spaces satisfying the laws
   satisfies them; SeparableSum(f1, f2) -- modelled as f1 o P1 + f2 o P2 with the
   component projections -- has value f1(x1) + f2(x2), gradient
   (grad f1(x1) + 0, 0 + grad f2(x2)), and that is its Frechet gradient in the
   product inner product, for all trees f1, f2. *)
Theorem product_space_satisfies_laws : forall (S1 S2 : RSpace),
  SpaceLaws S1 -> SpaceLaws S2 -> SpaceLaws (sprod sqrt S1 S2).
Proof. exact sprod_laws. Qed.
Theorem separable_sum_sound : forall (S1 S2 : RSpace), SpaceLaws S1 -> SpaceLaws S2 ->
  forall (f1 : Rexpr S1) (f2 : Rexpr S2) (x : car (sprod sqrt S1 S2)),
  spaces_ok f1 -> spaces_ok f2 -> smooth_at f1 (fst x) -> smooth_at f2 (snd x) ->
  value (f_sepsum sqrt f1 f2) x = value f1 (fst x) + value f2 (snd x)
  /\ gradient (f_sepsum sqrt f1 f2) x
     = (sadd S1 (gradient f1 (fst x)) (szero S1), sadd S2 (szero S2) (gradient f2 (snd x)))
  /\ is_grad (sprod sqrt S1 S2) (value (f_sepsum sqrt f1 f2)) x (gradient (f_sepsum sqrt f1 f2) x).
Proof. exact sepsum_sound. Qed.
Print Assumptions separable_sum_sound.

(* MoreauEnvelope(f, sigma).  The code implements only the gradient
   x/sigma - prox_{sigma f}(x)/sigma.  If the proximal p really minimises
   y |-> f(y) + |x-y|^2/(2 sigma) and is non-expansive (what C07 establishes for
   proximals of convex f), that gradient is the Frechet gradient of the envelope
   x |-> f(p x) + |x - p x|^2/(2 sigma), everywhere, in any space. *)
Theorem moreau_envelope_gradient_sound : forall (S : RSpace), SpaceLaws S ->
  forall (F : car S -> R) (p : car S -> car S) (sigma : R), 0 < sigma ->
  (forall x y, F (p x) + / (2 * sigma) * sinner S (ssub x (p x)) (ssub x (p x))
               <= F y + / (2 * sigma) * sinner S (ssub x y) (ssub x y)) ->
  (forall x y, norm S (ssub (p x) (p y)) <= norm S (ssub x y)) ->
  forall x, leaf_sound (leaf_moreau S F p sigma) x.
Proof. exact leaf_moreau_sound. Qed.
(* the premises hold for f = L2NormSquared with proximal_l2_squared: x / (1 + 2 sigma) *)
Theorem moreau_envelope_of_l2normsquared : forall (S : RSpace), SpaceLaws S ->
  forall sigma : R, 0 < sigma -> forall x,
  leaf_sound (leaf_moreau S (fun y => sinner S y y) (p_l2sq S sigma) sigma) x.
Proof. exact moreau_l2sq_sound. Qed.
Print Assumptions moreau_envelope_of_l2normsquared.

(* T1/T2 (coordinate-wise leaves on weighted lists; value and gradient are the
   functions of Model.leaf_l1 / leaf_huber applied to the underlying list).
   L1Norm: gradient sign(x) wherever no entry of x is zero.
   Huber(gamma > 0): differentiable everywhere, and grad_lipschitz = 1/gamma
   is a valid bound in the weighted norm. *)
Theorem l1norm_sound_on_lists : forall (n : nat) (w : Vn n), Forall (fun a => 0 < a) (vl w) ->
  forall x : Vn n, Forall (fun a => a <> 0) (vl x) -> leaf_sound (sleaf_l1 n w) x.
Proof. exact sleaf_l1_sound. Qed.
Theorem huber_sound_on_lists : forall (n : nat) (w : Vn n), Forall (fun a => 0 < a) (vl w) ->
  forall (g : R) (x : Vn n), 0 < g -> leaf_sound (sleaf_huber n w g) x.
Proof. exact sleaf_huber_sound. Qed.
Theorem huber_lipschitz_on_lists : forall (n : nat) (w : Vn n), Forall (fun a => 0 < a) (vl w) ->
  forall g : R, 0 < g -> forall c, lf_lip (sleaf_huber n w g) = LFin c ->
  forall x y, norm (lspace n w) (ssub (lf_grad (sleaf_huber n w g) x) (lf_grad (sleaf_huber n w g) y))
              <= c * norm (lspace n w) (ssub x y).
Proof. exact sleaf_huber_lip. Qed.
Print Assumptions huber_lipschitz_on_lists.

(* Huber on power spaces (group Huber / TV-Huber): per point the gradient is the
   radial map rho (v/gamma inside the gamma-ball, v/|v| outside) of the fibre
   vector; rho is (1/gamma)-Lipschitz in ANY inner-product space, hence
   grad_lipschitz = 1/gamma is a valid bound in the weighted direct sum over the
   points (c_j = cell weights).  (Tie to HuberGradient._call's ProductSpace
   branch: probes.) *)
Theorem radial_map_lipschitz : forall (S : RSpace), SpaceLaws S -> forall gamma : R, 0 < gamma ->
  forall x y, norm S (ssub (rho S gamma x) (rho S gamma y)) <= / gamma * norm S (ssub x y).
Proof. exact rho_lipschitz. Qed.
Theorem group_huber_gradient_lipschitz : forall (S : RSpace), SpaceLaws S ->
  forall gamma : R, 0 < gamma -> forall (c : list R) (xs ys : list (car S)),
  Forall (fun cj => 0 <= cj) c ->
  gamma * gamma * wsumsq S c (vdiff S (map (rho S gamma) xs) (map (rho S gamma) ys))
  <= wsumsq S c (vdiff S xs ys).
Proof. exact group_huber_lipschitz. Qed.
Print Assumptions group_huber_gradient_lipschitz.

(* T2 (Kullback-Leibler family on weighted lists; prior g, `prior=None` is g = 1).
   [sleaf_sep n w phi dphi g] has value sum_i w_i phi(g_i, x_i) (= <phi(g,x), one>)
   and gradient (dphi(g_i, x_i))_i.  These leaves use ln/exp and exist at R only:
   their tie to the code is by probes, not by the Q correspondence.
     KullbackLeibler                       x - g + g ln(g/x)     grad 1 - g/x      (x, g > 0)
     KullbackLeiblerConvexConj             - g ln(1 - x)         grad g/(1 - x)    (x < 1, g >= 0)
     KullbackLeiblerCrossEntropy           g - x + x ln(x/g)     grad ln(x/g)      (x, g > 0)
     KullbackLeiblerCrossEntropyConvexConj g (exp x - 1)         grad g exp x      (g >= 0) *)
Theorem kullback_leibler_sound : forall (n : nat) (w : Vn n), Forall (fun a => 0 < a) (vl w) ->
  forall g x : Vn n, Forall2 kl_dom (vl g) (vl x) -> leaf_sound (sleaf_sep n w kl_phi kl_dphi g) x.
Proof. exact kl_sound. Qed.
Theorem kullback_leibler_convex_conj_sound : forall (n : nat) (w : Vn n), Forall (fun a => 0 < a) (vl w) ->
  forall g x : Vn n, Forall2 klcc_dom (vl g) (vl x) -> leaf_sound (sleaf_sep n w klcc_phi klcc_dphi g) x.
Proof. exact klcc_sound. Qed.
Theorem kl_cross_entropy_sound : forall (n : nat) (w : Vn n), Forall (fun a => 0 < a) (vl w) ->
  forall g x : Vn n, Forall2 kl_dom (vl g) (vl x) -> leaf_sound (sleaf_sep n w klce_phi klce_dphi g) x.
Proof. exact klce_sound. Qed.
Theorem kl_cross_entropy_convex_conj_sound : forall (n : nat) (w : Vn n), Forall (fun a => 0 < a) (vl w) ->
  forall g x : Vn n, Forall2 (fun g0 _ => 0 <= g0) (vl g) (vl x) ->
  leaf_sound (sleaf_sep n w klcecc_phi klcecc_dphi g) x.
Proof. exact klcecc_sound. Qed.
Print Assumptions kl_cross_entropy_sound.

(* Non-vacuity: rn(1, weighting=w) satisfies the laws for every w > 0, and a
   tree using all eleven constructors satisfies every premise at every point. *)
Example laws_satisfiable : forall w, 0 < w -> SpaceLaws (R1 w).
Proof. exact R1_laws. Qed.
Example premises_satisfiable : forall w, 0 < w ->
  spaces_ok (demo_tree w) /\ (forall x, smooth_at (demo_tree w) x) /\ lip_leaves_ok (demo_tree w).
Proof. exact demo_tree_ok. Qed.
