(* C09/Props.v -- property theorems (placeholder) *)
From Coq Require Import Reals List.
From Verif Require Import Base.Num C09.Model C09.Proofs.
