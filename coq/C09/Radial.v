(* C09/Radial.v -- Huber on power spaces ("group Huber", the TV-Huber
   regulariser): per point j the gradient is the radial map
       rho(v) = v / gamma        if |v| <  gamma
                v / |v|          if |v| >= gamma
   of the fibre vector v = (x_kj)_k (HuberGradient._call, ProductSpace branch).
   rho = (1/gamma) * (projection onto the gamma-ball) is (1/gamma)-Lipschitz in
   ANY inner-product space, hence so is the whole gradient in the weighted
   direct sum over the points: grad_lipschitz = 1/gamma is valid there too. *)
From Coq Require Import Reals Lra Psatz List Bool.
From Verif Require Import Base.Num C09.Model C09.IPS C09.Proofs.
Import ListNotations.
Local Open Scope R_scope.

Section Radial.
Variable S : RSpace.
Hypothesis L : SpaceLaws S.
Variable gamma : R.
Hypothesis gamma_pos : 0 < gamma.

Definition rho (v : car S) : car S :=
  if Rlt_dec (norm S v) gamma then sscal S (/ gamma) v else sscal S (/ norm S v) v.

Lemma comb_sq (a b : R) (x y : car S) :
  sinner S (ssub (sscal S a x) (sscal S b y)) (ssub (sscal S a x) (sscal S b y))
  = a * a * sinner S x x - 2 * (a * b) * sinner S x y + b * b * sinner S y y.
Proof.
  rewrite (inner_sub_l S L), !(inner_sub_r S L), !(inner_scal_l S L), !(inner_scal_r S L),
    (inner_sym S L y x). ring.
Qed.
Lemma diff_sq (x y : car S) :
  sinner S (ssub x y) (ssub x y) = sinner S x x - 2 * sinner S x y + sinner S y y.
Proof. rewrite (inner_sub_l S L), !(inner_sub_r S L), (inner_sym S L y x). ring. Qed.

(* gamma^2 |rho x - rho y|^2 <= |x - y|^2 *)
Lemma rho_sq (x y : car S) :
  gamma * gamma * sinner S (ssub (rho x) (rho y)) (ssub (rho x) (rho y))
  <= sinner S (ssub x y) (ssub x y).
Proof.
  pose proof (norm_nonneg S x) as Hp0. pose proof (norm_nonneg S y) as Hq0.
  pose proof (norm_sqr S L x) as Hxx. pose proof (norm_sqr S L y) as Hyy.
  pose proof (cauchy_schwarz S L x y) as Hcs.
  set (p := norm S x) in *. set (q := norm S y) in *. set (t := sinner S x y) in *.
  assert (Ht : - (p * q) <= t <= p * q) by (unfold Rabs in Hcs; destruct (Rcase_abs t); lra).
  assert (Hig : gamma * / gamma = 1) by (field; lra).
  unfold rho. fold p q. rewrite (diff_sq x y). fold t.
  destruct (Rlt_dec p gamma) as [Hx|Hx]; destruct (Rlt_dec q gamma) as [Hy|Hy]; cbv iota;
    rewrite comb_sq; fold t; rewrite <- Hxx, <- Hyy.
  - (* both inside *)
    replace (gamma * gamma * (/ gamma * / gamma * (p * p) - 2 * (/ gamma * / gamma) * t + / gamma * / gamma * (q * q)))
      with (p * p - 2 * t + q * q) by (field; lra). lra.
  - (* x inside, y outside *)
    assert (Hq : 0 < q) by lra.
    replace (gamma * gamma * (/ gamma * / gamma * (p * p) - 2 * (/ gamma * / q) * t + / q * / q * (q * q)))
      with (p * p - 2 * (gamma / q) * t + gamma * gamma) by (field; lra).
    (* 0 <= q^2 - gamma^2 - 2 t (1 - gamma/q) *)
    assert (Hs : 0 <= 1 - gamma / q <= 1).
    { split.
      - apply Rmult_le_reg_r with q; [assumption|]. unfold Rdiv. rewrite Rmult_minus_distr_r, Rmult_assoc, Rinv_l by lra. lra.
      - assert (0 < gamma / q) by (apply Rdiv_lt_0_compat; lra). lra. }
    set (s := 1 - gamma / q) in *.
    replace (2 * (gamma / q) * t) with (2 * t - 2 * s * t) by (unfold s; ring).
    assert (Hsq : s * q = q - gamma) by (unfold s; field; lra).
    assert (Hst : s * t <= s * (gamma * q)) by (apply Rmult_le_compat_l; nra).
    assert (s * (gamma * q) = gamma * (q - gamma)) by (rewrite <- Hsq; ring).
    nra.
  - (* x outside, y inside *)
    assert (Hp : 0 < p) by lra.
    replace (gamma * gamma * (/ p * / p * (p * p) - 2 * (/ p * / gamma) * t + / gamma * / gamma * (q * q)))
      with (gamma * gamma - 2 * (gamma / p) * t + q * q) by (field; lra).
    assert (Hs : 0 <= 1 - gamma / p <= 1).
    { split.
      - apply Rmult_le_reg_r with p; [assumption|]. unfold Rdiv. rewrite Rmult_minus_distr_r, Rmult_assoc, Rinv_l by lra. lra.
      - assert (0 < gamma / p) by (apply Rdiv_lt_0_compat; lra). lra. }
    set (s := 1 - gamma / p) in *.
    replace (2 * (gamma / p) * t) with (2 * t - 2 * s * t) by (unfold s; ring).
    assert (Hsp : s * p = p - gamma) by (unfold s; field; lra).
    assert (Hst : s * t <= s * (gamma * p)) by (apply Rmult_le_compat_l; nra).
    assert (s * (gamma * p) = gamma * (p - gamma)) by (rewrite <- Hsp; ring).
    nra.
  - (* both outside *)
    assert (Hp : 0 < p) by lra. assert (Hq : 0 < q) by lra.
    replace (gamma * gamma * (/ p * / p * (p * p) - 2 * (/ p * / q) * t + / q * / q * (q * q)))
      with (gamma * gamma * (2 - 2 * t / (p * q))) by (field; lra).
    assert (Hu : 0 <= 2 - 2 * t / (p * q)).
    { assert (t / (p * q) <= 1).
      { apply Rmult_le_reg_r with (p * q); [nra|]. unfold Rdiv. rewrite Rmult_assoc, Rinv_l by nra. lra. }
      lra. }
    assert (Hgg : gamma * gamma <= p * q) by nra.
    assert (gamma * gamma * (2 - 2 * t / (p * q)) <= p * q * (2 - 2 * t / (p * q))) by (apply Rmult_le_compat_r; assumption).
    replace (p * q * (2 - 2 * t / (p * q))) with (2 * (p * q) - 2 * t) in * by (field; split; lra).
    pose proof (Rle_0_sqr (p - q)) as Hs. unfold Rsqr in Hs.
    assert (2 * (p * q) <= p * p + q * q) by lra. lra.
Qed.

Theorem rho_lipschitz (x y : car S) :
  norm S (ssub (rho x) (rho y)) <= / gamma * norm S (ssub x y).
Proof.
  pose proof (rho_sq x y) as H. rewrite <- !(norm_sqr S L) in H.
  pose proof (norm_nonneg S (ssub (rho x) (rho y))) as Ha. pose proof (norm_nonneg S (ssub x y)) as Hb.
  apply Rmult_le_reg_l with gamma; [assumption|].
  rewrite <- Rmult_assoc, Rinv_r, Rmult_1_l by lra.
  apply le_of_sqr; [assumption|]. nra.
Qed.

(* the weighted direct sum over the points j (weights c_j >= 0 = cell volumes) *)
Fixpoint wsumsq (c : list R) (vs : list (car S)) : R :=
  match c, vs with
  | cj :: c', v :: vs' => cj * sinner S v v + wsumsq c' vs'
  | _, _ => 0
  end.
Fixpoint vdiff (xs ys : list (car S)) : list (car S) :=
  match xs, ys with
  | x :: xs', y :: ys' => ssub x y :: vdiff xs' ys'
  | _, _ => []
  end.

Theorem group_huber_lipschitz (c : list R) (xs ys : list (car S)) :
  Forall (fun cj => 0 <= cj) c ->
  gamma * gamma * wsumsq c (vdiff (map rho xs) (map rho ys)) <= wsumsq c (vdiff xs ys).
Proof.
  intro Hc. revert xs ys; induction Hc as [|cj c Hcj Hc IH]; intros xs ys.
  - cbn. lra.
  - destruct xs as [|x xs], ys as [|y ys]; cbn [map vdiff wsumsq]; try lra.
    specialize (IH xs ys). pose proof (rho_sq x y).
    assert (cj * (gamma * gamma * sinner S (ssub (rho x) (rho y)) (ssub (rho x) (rho y)))
            <= cj * sinner S (ssub x y) (ssub x y)) by (apply Rmult_le_compat_l; assumption).
    lra.
Qed.
End Radial.
