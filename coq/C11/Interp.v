(* C11/Interp.v -- executable semantics of C11/Syntax.v (definitions only).

   State: an environment binding Python names to object ids, a heap of vector
   objects, and the log of callback observations.  [Bind] allocates, [Alias]
   shares, [Write] mutates the object (every name bound to it sees the new
   value).  The right-hand side of a [Write] is evaluated completely before the
   object is overwritten: this is the contract of lincomb (C01), of
   op(x, out=y) (C03) and of proximals called with out aliased to the input
   (C10).  Evaluation fails (None) on an unbound name.  A `return` inside the
   loop binds the marker name "#returned"; every later statement (and every
   later loop body) is then skipped. *)
From Coq Require Import ZArith QArith String List Bool.
From Verif Require Import Base.Num Base.Vec C11.Model C11.Syntax.
Import ListNotations.
Local Open Scope num_scope.

Local Open Scope string_scope.
Section Interp.
Context {T : Type} `{Num T}.
Notation vec := (list T).

Record interp := mk_interp {
  i_sc : string -> T;                      (* scalar parameters *)
  i_fn : string -> vec -> vec;             (* operator / proximal / gradient symbols *)
  i_fn2 : string -> vec -> vec -> vec;     (* adjoint of the derivative at a point *)
  i_zero : string -> vec;                  (* space.zero() *)
  i_junk : string -> vec }.                (* space.element() *)

Record hst := mk_hst { h_env : list (string * nat); h_heap : list vec; h_log : list vec }.

Fixpoint seval (I : interp) (e : sx) : T :=
  match e with
  | SInt z => of_Z z
  | SNum q => of_Q q
  | SPar s => i_sc I s
  | SNeg a => nopp (seval I a)
  | SAdd a b => seval I a + seval I b
  | SSub a b => seval I a - seval I b
  | SMul a b => seval I a * seval I b
  | SDiv a b => seval I a / seval I b
  end.

Fixpoint env_get (env : list (string * nat)) (x : string) : option nat :=
  match env with
  | [] => None
  | (y, i) :: env' => if String.eqb x y then Some i else env_get env' x
  end.
(* rebinding keeps the position of the name; a new name goes to the end *)
Fixpoint env_set (env : list (string * nat)) (x : string) (i : nat) : list (string * nat) :=
  match env with
  | [] => [(x, i)]
  | (y, j) :: env' => if String.eqb x y then (y, i) :: env' else (y, j) :: env_set env' x i
  end.
Definition deref (s : hst) (x : string) : option vec :=
  match env_get (h_env s) x with Some i => nth_error (h_heap s) i | None => None end.

Definition obind {A B} (a : option A) (f : A -> option B) : option B :=
  match a with Some v => f v | None => None end.

Fixpoint veval (I : interp) (s : hst) (e : vx) : option vec :=
  match e with
  | VName x => deref s x
  | VApp f a => obind (veval I s a) (fun v => Some (i_fn I f v))
  | VApp2 f p a => obind (veval I s p) (fun u => obind (veval I s a) (fun v => Some (i_fn2 I f u v)))
  | VAdd a b => obind (veval I s a) (fun u => obind (veval I s b) (fun v => Some (vadd u v)))
  | VSub a b => obind (veval I s a) (fun u => obind (veval I s b) (fun v => Some (vsub u v)))
  | VMul a b => obind (veval I s a) (fun u => obind (veval I s b) (fun v => Some (vmul u v)))
  | VDiv a b => obind (veval I s a) (fun u => obind (veval I s b) (fun v => Some (vdiv u v)))
  | VMaxc c a => obind (veval I s a) (fun v => Some (map (fun t => nmax t (seval I c)) v))
  | VScal c a => obind (veval I s a) (fun v => Some (vscal (seval I c) v))
  | VLin a x b y => obind (veval I s x) (fun u => obind (veval I s y) (fun v =>
                      Some (vlin (seval I a) u (seval I b) v)))
  | VZero sp => Some (i_zero I sp)
  | VJunk x => Some (i_junk I x)
  end.

Fixpoint heap_set (i : nat) (v : vec) (h : list vec) : option (list vec) :=
  match h, i with
  | [], _ => None
  | _ :: h', O => Some (v :: h')
  | a :: h', S i' => option_map (cons a) (heap_set i' v h')
  end.

Fixpoint exec1 (I : interp) (s : hst) (c : stmt) : option hst :=
  match c with
  | Bind x e =>
      obind (veval I s e) (fun v =>
        Some (mk_hst (env_set (h_env s) x (length (h_heap s))) (h_heap s ++ [v]) (h_log s)))
  | Alias x y =>
      obind (env_get (h_env s) y) (fun i => Some (mk_hst (env_set (h_env s) x i) (h_heap s) (h_log s)))
  | Default x c' =>
      match env_get (h_env s) x with Some _ => Some s | None => exec1 I s c' end
  | Write x e =>
      obind (veval I s e) (fun v => obind (env_get (h_env s) x) (fun i =>
        obind (heap_set i v (h_heap s)) (fun h => Some (mk_hst (h_env s) h (h_log s)))))
  | Callback x => obind (deref s x) (fun v => Some (mk_hst (h_env s) (h_heap s) (h_log s ++ [v])))
  | ReturnIfNormSqLt x tol =>
      obind (deref s x) (fun v =>
        if normsq_lt v (seval I tol)
        then Some (mk_hst (env_set (h_env s) "#returned" O) (h_heap s) (h_log s))
        else Some s)
  end.

Definition returned (s : hst) : bool :=
  match env_get (h_env s) "#returned" with Some _ => true | None => false end.
Fixpoint exec (I : interp) (cs : list stmt) (s : hst) : option hst :=
  match cs with
  | [] => Some s
  | c :: cs' => if returned s then Some s else obind (exec1 I s c) (exec I cs')
  end.

(* ---- canonical form: drop unreachable objects, number the reachable ones by
   first occurrence in the environment.  Two states with the same bindings
   up to renaming of object ids have the same canonical form. *)
Fixpoint index_of (i : nat) (l : list nat) : nat :=
  match l with [] => O | j :: l' => if Nat.eqb i j then O else S (index_of i l') end.
Fixpoint dedup (seen : list nat) (l : list nat) : list nat :=
  match l with
  | [] => []
  | i :: l' => if existsb (Nat.eqb i) seen then dedup seen l' else i :: dedup (i :: seen) l'
  end.
Definition canon (s : hst) : hst :=
  let ids := dedup [] (map snd (h_env s)) in
  mk_hst (map (fun p => (fst p, index_of (snd p) ids)) (h_env s))
         (map (fun i => nth i (h_heap s) []) ids)
         (h_log s).

Definition body_step (I : interp) (body : list stmt) (s : hst) : option hst :=
  option_map canon (exec I body s).
Fixpoint iter_opt {A} (n : nat) (f : A -> option A) (a : A) : option A :=
  match n with O => Some a | S k => obind (f a) (iter_opt k f) end.
(* counter-dependent interpretation (lam_k = lam(k)) *)
Fixpoint iterk_opt {A} (n k0 : nat) (f : nat -> A -> option A) (a : A) : option A :=
  match n with O => Some a | S k => obind (f k0 a) (iterk_opt k (S k0) f) end.

(* a whole call: preamble, then niter loop bodies *)
Definition run_prog (I : interp) (pre body : list stmt) (n : nat) (s0 : hst) : option hst :=
  obind (option_map canon (exec I pre s0)) (iter_opt n (body_step I body)).
End Interp.
