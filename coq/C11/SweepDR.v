(* C11/SweepDR.v -- douglas_rachford_pd regenerated with its preamble (Gen/SolversL.v):
   heap-level statements for every number (>= 1) of operators. *)
From Coq Require Import ZArith QArith Reals Lra Lia List Bool String.
From Verif Require Import Base.Num Base.Vec Base.VecR C11.Model C11.Syntax C11.Interp C11.SyntaxL C11.InterpL.
From Verif Require Import C11.Proofs C11.GenProofs Gen.SolversL C11.SweepProofs.
Import ListNotations.
Local Open Scope string_scope.
Local Open Scope R_scope.

Definition dr_items : list litem := douglas_rachford_pd_lbody.
Definition dr_it (k : nat) : litem := nth k dr_items (IStmt (LCallback (RVar ""))).
Definition dr_bA : list lstmt := Eval cbv in match dr_it 1 with IForFrom _ b => b | _ => [] end.
Definition dr_bP : list lstmt := Eval cbv in match dr_it 8 with IFor b => b | _ => [] end.
Definition dr_bB : list lstmt := Eval cbv in match dr_it 10 with IForFrom _ b => b | _ => [] end.
Definition dr_bV : list lstmt := Eval cbv in match dr_it 14 with IFor b => b | _ => [] end.
Definition dr_last : list lstmt := Eval cbv in match dr_it 7 with IIfLast b => b | _ => [] end.
Definition dr_s (k : nat) : lstmt := Eval cbv in match dr_it k with IStmt c => c | _ => LCallback (RVar "") end.
Lemma dr_shape :
  douglas_rachford_pd_lbody =
  [IStmt (dr_s 0); IForFrom 1 dr_bA; IStmt (dr_s 2); IStmt (dr_s 3); IStmt (dr_s 4); IStmt (dr_s 5); IStmt (dr_s 6);
   IIfLast dr_last; IFor dr_bP; IStmt (dr_s 9); IForFrom 1 dr_bB; IStmt (dr_s 11); IStmt (dr_s 12); IStmt (dr_s 13);
   IFor dr_bV].
Proof. reflexivity. Qed.


(* ---- preamble statements as state transformers with projection laws (no unfolding of nested stores) ---- *)
Section PreLaws.
Variables (I : nat -> @interp R) (rkey : nat -> nat) (nops nkeys : nat).
Definition st_list (l : string) (e : lvx) (s : @lst R) : @lst R :=
  mk_lst (l_venv s) ((l, KComp) :: l_lenv s)
    (fun o => match o with
              | OList l' j => if String.eqb l' l && Nat.ltb j nops then lveval (I j) rkey j s e else l_heap s o
              | _ => l_heap s o end) (l_next s) (l_log s).
Definition st_dict (d : string) (e : lvx) (s : @lst R) : @lst R :=
  mk_lst (l_venv s) ((d, KDict) :: l_lenv s)
    (fun o => match o with
              | ODict d' k => if String.eqb d' d && Nat.ltb k nkeys then lveval (I 0%nat) rkey 0 s e else l_heap s o
              | _ => l_heap s o end) (l_next s) (l_log s).
Definition st_bind (x : string) (v : Rvec) (s : @lst R) : @lst R :=
  mk_lst (vset (l_venv s) x (OFresh (l_next s))) (l_lenv s) (hset (l_heap s) (OFresh (l_next s)) v) (S (l_next s)) (l_log s).
Lemma pexec1_list l e s : pexec1 I rkey nops nkeys s (PList l e) = Some (st_list l e s).
Proof. reflexivity. Qed.
Lemma pexec1_dict d e s : pexec1 I rkey nops nkeys s (PDict d e) = Some (st_dict d e s).
Proof. reflexivity. Qed.
Lemma pexec1_bind_zero x sp s :
  pexec1 I rkey nops nkeys s (PStmt (LBind x (LZero sp))) = Some (st_bind x (i_zero (I 0%nat) sp) s).
Proof. reflexivity. Qed.
(* projections *)
Lemma venv_st_list l e s : l_venv (st_list l e s) = l_venv s. Proof. reflexivity. Qed.
Lemma venv_st_dict d e s : l_venv (st_dict d e s) = l_venv s. Proof. reflexivity. Qed.
Lemma venv_st_bind x v s : l_venv (st_bind x v s) = vset (l_venv s) x (OFresh (l_next s)). Proof. reflexivity. Qed.
Lemma next_st_list l e s : l_next (st_list l e s) = l_next s. Proof. reflexivity. Qed.
Lemma next_st_dict d e s : l_next (st_dict d e s) = l_next s. Proof. reflexivity. Qed.
Lemma next_st_bind x v s : l_next (st_bind x v s) = S (l_next s). Proof. reflexivity. Qed.
Lemma log_st_list l e s : l_log (st_list l e s) = l_log s. Proof. reflexivity. Qed.
Lemma log_st_dict d e s : l_log (st_dict d e s) = l_log s. Proof. reflexivity. Qed.
Lemma log_st_bind x v s : l_log (st_bind x v s) = l_log s. Proof. reflexivity. Qed.
Lemma lenv_st_list l e s : l_lenv (st_list l e s) = (l, KComp) :: l_lenv s. Proof. reflexivity. Qed.
Lemma lenv_st_dict d e s : l_lenv (st_dict d e s) = (d, KDict) :: l_lenv s. Proof. reflexivity. Qed.
Lemma lenv_st_bind x v s : l_lenv (st_bind x v s) = l_lenv s. Proof. reflexivity. Qed.
Lemma hget_st_list_same l e s j : (j < nops)%nat -> hget (l_heap (st_list l e s)) (OList l j) = lveval (I j) rkey j s e.
Proof. intros Hj. unfold hget, st_list. cbn [l_heap]. rewrite String.eqb_refl. apply Nat.ltb_lt in Hj. rewrite Hj. reflexivity. Qed.
Lemma hget_st_list_other l e s l' j : l' <> l -> hget (l_heap (st_list l e s)) (OList l' j) = hget (l_heap s) (OList l' j).
Proof. intros Hn. unfold hget, st_list. cbn [l_heap]. destruct (String.eqb_spec l' l); [contradiction | reflexivity]. Qed.
Lemma hget_st_list_caller l e s c : hget (l_heap (st_list l e s)) (OCaller c) = hget (l_heap s) (OCaller c).
Proof. reflexivity. Qed.
Lemma hget_st_list_fresh l e s k : hget (l_heap (st_list l e s)) (OFresh k) = hget (l_heap s) (OFresh k).
Proof. reflexivity. Qed.
Lemma hget_st_list_dict l e s d k : hget (l_heap (st_list l e s)) (ODict d k) = hget (l_heap s) (ODict d k).
Proof. reflexivity. Qed.
Lemma hget_st_dict_same d e s k : (k < nkeys)%nat -> hget (l_heap (st_dict d e s)) (ODict d k) = lveval (I 0%nat) rkey 0 s e.
Proof. intros Hk. unfold hget, st_dict. cbn [l_heap]. rewrite String.eqb_refl. apply Nat.ltb_lt in Hk. rewrite Hk. reflexivity. Qed.
Lemma hget_st_dict_list d e s l j : hget (l_heap (st_dict d e s)) (OList l j) = hget (l_heap s) (OList l j).
Proof. reflexivity. Qed.
Lemma hget_st_dict_caller d e s c : hget (l_heap (st_dict d e s)) (OCaller c) = hget (l_heap s) (OCaller c).
Proof. reflexivity. Qed.
Lemma hget_st_dict_fresh d e s k : hget (l_heap (st_dict d e s)) (OFresh k) = hget (l_heap s) (OFresh k).
Proof. reflexivity. Qed.
Lemma hget_st_bind_same x v s : hget (l_heap (st_bind x v s)) (OFresh (l_next s)) = Some v.
Proof. unfold st_bind. cbn [l_heap]. apply hget_hset_same. Qed.
Lemma hget_st_bind_other x v s o : o <> OFresh (l_next s) -> hget (l_heap (st_bind x v s)) o = hget (l_heap s) o.
Proof. intros Hn. unfold st_bind. cbn [l_heap]. apply hget_hset_other, Hn. Qed.
End PreLaws.

Section DRsweep.
Variables (proxf : Rvec -> Rvec) (tau : R) (lam : nat -> R) (junk : string -> Rvec) (dflt : @drop R) (xdim : nat).
Variable ops : list (@drop R).
Hypothesis no_l : forall j, (j < List.length ops)%nat -> dr_proxl (nth j ops dflt) = None.
Variable rkey : nat -> nat.
Variable nkeys : nat.
Hypothesis keys_ok : forall j, (j < List.length ops)%nat -> (rkey j < nkeys)%nat.
Definition dr_n : nat := List.length ops.
Definition dro (j : nat) : @drop R := nth j ops dflt.
Definition drI (k j : nat) : interp :=
  mk_I [("tau", tau); ("lam_k", lam k); ("sigma[i]", dr_sigma (dro j))]
       [("L[0].adjoint", dr_Ladj (dro 0)); ("L[i1].adjoint", dr_Ladj (dro j)); ("L[i3].adjoint", dr_Ladj (dro j));
        ("L[i]", dr_L (dro j)); ("f.proximal(tau)", proxf); ("g[i].convex_conj.proximal(sigma[i])", dr_proxg (dro j))]
       [] [("L[j].range", vzero (dr_m (dro j))); ("x.space", vzero xdim); ("z2[key]", [])] junk.

(* the store between statements: x, the lists v / p2 / w2 (as index -> value), the three plain temporaries *)
Definition dr_st (s : @lst R) (x : Rvec) (vs P2 W2 : nat -> Rvec) (p1 z1 w1 : Rvec) : Prop :=
  vget (l_venv s) "x" = Some (OCaller "x") /\ vget (l_venv s) "p1" = Some (OFresh 0)
  /\ vget (l_venv s) "z1" = Some (OFresh 1) /\ vget (l_venv s) "w1" = Some (OFresh 2)
  /\ lget (l_lenv s) "v" = Some KComp /\ lget (l_lenv s) "p2" = Some KComp /\ lget (l_lenv s) "w2" = Some KComp
  /\ lget (l_lenv s) "z2" = Some KDict
  /\ hget (l_heap s) (OCaller "x") = Some x
  /\ hget (l_heap s) (OFresh 0) = Some p1 /\ hget (l_heap s) (OFresh 1) = Some z1 /\ hget (l_heap s) (OFresh 2) = Some w1
  /\ (forall i, (i < dr_n)%nat -> hget (l_heap s) (OList "v" i) = Some (vs i))
  /\ (forall i, (i < dr_n)%nat -> hget (l_heap s) (OList "p2" i) = Some (P2 i))
  /\ (forall i, (i < dr_n)%nat -> hget (l_heap s) (OList "w2" i) = Some (W2 i))
  /\ (forall k, (k < nkeys)%nat -> exists t, hget (l_heap s) (ODict "z2" k) = Some t).

Ltac dr_open Hs :=
  let Hv := fresh "Hv" in let Hp := fresh "Hvp" in let Hz := fresh "Hvz" in let Hw := fresh "Hvw" in
  let L1 := fresh "Hl1" in let L2 := fresh "Hl2" in let L3 := fresh "Hl3" in let L4 := fresh "Hl4" in
  let Hx := fresh "Hx" in let H0 := fresh "Hp1" in let H1 := fresh "Hz1" in let H2 := fresh "Hw1" in
  let Hvs := fresh "Hvs" in let HP := fresh "HP2" in let HW := fresh "HW2" in let HZ := fresh "HZ2" in
  destruct Hs as (Hv & Hp & Hz & Hw & L1 & L2 & L3 & L4 & Hx & H0 & H1 & H2 & Hvs & HP & HW & HZ);
  cbn [l_venv l_lenv l_heap l_next l_log] in *.

(* ---- loop A:  for Li, vi in zip(L[1:], v[1:]): Li.adjoint(vi, out=p1); z1 += p1 ---- *)
Fixpoint acc_adj (f : nat -> Rvec) (j0 rem : nat) (a : Rvec) : Rvec :=
  match rem with O => a | S r => acc_adj f (S j0) r (vadd a (f j0)) end.
Lemma dr_loopA k : forall rem j0 s x vs P2 W2 p1 z1 w1, (j0 + rem = dr_n)%nat ->
  dr_st s x vs P2 W2 p1 z1 w1 ->
  exists s' p1', lfor (drI k) rkey dr_bA j0 rem s = Some s'
    /\ dr_st s' x vs P2 W2 p1' (acc_adj (fun i => dr_Ladj (dro i) (vs i)) j0 rem z1) w1 /\ l_log s' = l_log s.
Proof.
  induction rem as [|rem IH]; intros j0 s x vs P2 W2 p1 z1 w1 Hn Hs.
  - exists s, p1. cbn [lfor acc_adj]. auto.
  - cbn [lfor acc_adj]. destruct s as [ve le h nx log]. pose proof Hs as Hs0. dr_open Hs.
    pose proof (Hvs j0 ltac:(lia)) as Hvj.
    assert (E : exists s1, lexec (drI k j0) rkey j0 dr_bA (mk_lst ve le h nx log) = Some s1
                 /\ dr_st s1 x vs P2 W2 (dr_Ladj (dro j0) (vs j0)) (vadd z1 (dr_Ladj (dro j0) (vs j0))) w1 /\ l_log s1 = log).
    { eexists. split; [cbv [dr_bA]; unfold lexec; lsym; reflexivity|]. split; [|reflexivity].
      unfold dr_st. cbn [l_venv l_lenv l_heap]. repeat split; auto; try (lsym; reflexivity);
        try (intros i Hi; rewrite !hget_hset_other by oid_neq; auto). }
    destruct E as (s1 & E1 & Hs1 & Hlog1). rewrite E1. cbn [obind].
    destruct (IH (S j0) s1 x vs P2 W2 _ _ w1 ltac:(lia) Hs1) as (s2 & p1' & E2 & Hs2 & Hlog2).
    exists s2, p1'. split; [exact E2|]. split; [exact Hs2|]. cbn [l_log] in *. congruence.
Qed.

(* ---- loop B:  for Li, w2i in zip(L[1:], w2[1:]): Li.adjoint(w2i, out=z1); p1 += z1 ---- *)
Lemma dr_loopB k : forall rem j0 s x vs P2 W2 p1 z1 w1, (j0 + rem = dr_n)%nat ->
  dr_st s x vs P2 W2 p1 z1 w1 ->
  exists s' z1', lfor (drI k) rkey dr_bB j0 rem s = Some s'
    /\ dr_st s' x vs P2 W2 (acc_adj (fun i => dr_Ladj (dro i) (W2 i)) j0 rem p1) z1' w1 /\ l_log s' = l_log s.
Proof.
  induction rem as [|rem IH]; intros j0 s x vs P2 W2 p1 z1 w1 Hn Hs.
  - exists s, z1. cbn [lfor acc_adj]. auto.
  - cbn [lfor acc_adj]. destruct s as [ve le h nx log]. pose proof Hs as Hs0. dr_open Hs.
    pose proof (HW2 j0 ltac:(lia)) as Hwj.
    assert (E : exists s1, lexec (drI k j0) rkey j0 dr_bB (mk_lst ve le h nx log) = Some s1
                 /\ dr_st s1 x vs P2 W2 (vadd p1 (dr_Ladj (dro j0) (W2 j0))) (dr_Ladj (dro j0) (W2 j0)) w1 /\ l_log s1 = log).
    { eexists. split; [cbv [dr_bB]; unfold lexec; lsym; reflexivity|]. split; [|reflexivity].
      unfold dr_st. cbn [l_venv l_lenv l_heap]. repeat split; auto; try (lsym; reflexivity);
        try (intros i Hi; rewrite !hget_hset_other by oid_neq; auto). }
    destruct E as (s1 & E1 & Hs1 & Hlog1). rewrite E1. cbn [obind].
    destruct (IH (S j0) s1 x vs P2 W2 _ _ w1 ltac:(lia) Hs1) as (s2 & z1' & E2 & Hs2 & Hlog2).
    exists s2, z1'. split; [exact E2|]. split; [exact Hs2|]. cbn [l_log] in *. congruence.
Qed.

Definition upd1 (j : nat) (v : Rvec) (f : nat -> Rvec) : nat -> Rvec := fun i => if Nat.eqb i j then v else f i.

(* ---- loop P: p2[i] = prox_cc_g[i](sigma[i])(v[i] + sigma[i]/2 L[i] w1);  w2[i] = 2 p2[i] - v[i] ---- *)
Definition dr_Pf (vs : nat -> Rvec) (w1 : Rvec) (i : nat) : Rvec :=
  dr_proxg (dro i) (vlin 1 (vs i) (dr_sigma (dro i) / 2) (dr_L (dro i) w1)).
Definition dr_Wf (vs : nat -> Rvec) (w1 : Rvec) (i : nat) : Rvec := vlin 2 (dr_Pf vs w1 i) (- (1)) (vs i).
Lemma dr_loopP k : forall rem j0 s x vs P2 W2 p1 z1 w1, (j0 + rem = dr_n)%nat ->
  dr_st s x vs P2 W2 p1 z1 w1 ->
  exists s' P2' W2', lfor (drI k) rkey dr_bP j0 rem s = Some s'
    /\ dr_st s' x vs P2' W2' p1 z1 w1 /\ l_log s' = l_log s
    /\ (forall i, (j0 <= i)%nat -> (i < dr_n)%nat -> P2' i = dr_Pf vs w1 i /\ W2' i = dr_Wf vs w1 i)
    /\ (forall i, (i < j0)%nat -> P2' i = P2 i /\ W2' i = W2 i).
Proof.
  induction rem as [|rem IH]; intros j0 s x vs P2 W2 p1 z1 w1 Hn Hs.
  - exists s, P2, W2. cbn [lfor]. split; [reflexivity|]. split; [exact Hs|]. split; [reflexivity|]. split; intros; [lia | auto].
  - cbn [lfor]. destruct s as [ve le h nx log]. pose proof Hs as Hs0. dr_open Hs.
    pose proof (Hvs j0 ltac:(lia)) as Hvj. pose proof (HP2 j0 ltac:(lia)) as Hpj. pose proof (HW2 j0 ltac:(lia)) as Hwj.
    assert (E : exists s1, lexec (drI k j0) rkey j0 dr_bP (mk_lst ve le h nx log) = Some s1
                 /\ dr_st s1 x vs (upd1 j0 (dr_Pf vs w1 j0) P2) (upd1 j0 (dr_Wf vs w1 j0) W2) p1 z1 w1 /\ l_log s1 = log).
    { eexists. split; [cbv [dr_bP]; unfold lexec; lsym; reflexivity|]. split; [|reflexivity].
      unfold dr_st. cbn [l_venv l_lenv l_heap]. repeat split; auto; try (lsym; reflexivity);
        try (intros i Hi; unfold upd1; destruct (Nat.eqb_spec i j0) as [->|Hne];
             [lsym; reflexivity | rewrite !hget_hset_other by oid_neq; auto]);
        try (intros i Hi; rewrite !hget_hset_other by oid_neq; auto). }
    destruct E as (s1 & E1 & Hs1 & Hlog1). rewrite E1. cbn [obind].
    destruct (IH (S j0) s1 x vs _ _ p1 z1 w1 ltac:(lia) Hs1) as (s2 & P2' & W2' & E2 & Hs2 & Hlog2 & Hin & Hout).
    exists s2, P2', W2'. split; [exact E2|]. split; [exact Hs2|]. split; [cbn [l_log] in *; congruence|]. split.
    + intros i Hi Hi2. destruct (Nat.eq_dec i j0) as [->|Hne].
      * destruct (Hout j0 ltac:(lia)) as [-> ->]. unfold upd1. rewrite Nat.eqb_refl. auto.
      * apply Hin; lia.
    + intros i Hi. destruct (Hout i ltac:(lia)) as [-> ->]. unfold upd1.
      destruct (Nat.eqb_spec i j0); [lia | auto].
Qed.

(* ---- loop V: z2i = w2[i] + sigma[i]/2 L[i] p1;  v[i] += lam_k z2i;  v[i] -= lam_k p2[i] ---- *)
Definition dr_Vf (k : nat) (vs P2 W2 : nat -> Rvec) (p1 : Rvec) (i : nat) : Rvec :=
  vlin 1 (vlin 1 (vs i) (lam k) (vlin 1 (W2 i) (dr_sigma (dro i) / 2) (dr_L (dro i) p1))) (- lam k) (P2 i).
Lemma dr_loopV k : forall rem j0 s x vs P2 W2 p1 z1 w1, (j0 + rem = dr_n)%nat ->
  dr_st s x vs P2 W2 p1 z1 w1 ->
  exists s' vs', lfor (drI k) rkey dr_bV j0 rem s = Some s'
    /\ dr_st s' x vs' P2 W2 p1 z1 w1 /\ l_log s' = l_log s
    /\ (forall i, (j0 <= i)%nat -> (i < dr_n)%nat -> vs' i = dr_Vf k vs P2 W2 p1 i)
    /\ (forall i, (i < j0)%nat -> vs' i = vs i).
Proof.
  induction rem as [|rem IH]; intros j0 s x vs P2 W2 p1 z1 w1 Hn Hs.
  - exists s, vs. cbn [lfor]. split; [reflexivity|]. split; [exact Hs|]. split; [reflexivity|]. split; intros; [lia | auto].
  - cbn [lfor]. destruct s as [ve le h nx log]. pose proof Hs as Hs0. dr_open Hs.
    pose proof (Hvs j0 ltac:(lia)) as Hvj. pose proof (HP2 j0 ltac:(lia)) as Hpj. pose proof (HW2 j0 ltac:(lia)) as Hwj.
    destruct (HZ2 (rkey j0) (keys_ok j0 ltac:(unfold dr_n in *; lia))) as (t & Htj).
    assert (E : exists s1, lexec (drI k j0) rkey j0 dr_bV (mk_lst ve le h nx log) = Some s1
                 /\ dr_st s1 x (upd1 j0 (dr_Vf k vs P2 W2 p1 j0) vs) P2 W2 p1 z1 w1 /\ l_log s1 = log).
    { eexists. split; [cbv [dr_bV]; unfold lexec; lsym; reflexivity|]. split; [|reflexivity].
      unfold dr_st. cbn [l_venv l_lenv l_heap]. repeat split; auto; try (lsym; reflexivity);
        try (intros i Hi; unfold upd1; destruct (Nat.eqb_spec i j0) as [->|Hne];
             [lsym; reflexivity | rewrite !hget_hset_other by oid_neq; auto]);
        try (intros i Hi; rewrite !hget_hset_other by oid_neq; auto).
      destruct (Nat.eq_dec i (rkey j0)) as [->|Hne].
      - eexists. lsym. reflexivity.
      - destruct (HZ2 i Hi) as (t' & Ht'). exists t'. rewrite !hget_hset_other by oid_neq. exact Ht'. }
    destruct E as (s1 & E1 & Hs1 & Hlog1). rewrite E1. cbn [obind].
    destruct (IH (S j0) s1 x _ P2 W2 p1 z1 w1 ltac:(lia) Hs1) as (s2 & vs' & E2 & Hs2 & Hlog2 & Hin & Hout).
    exists s2, vs'. split; [exact E2|]. split; [exact Hs2|]. split; [cbn [l_log] in *; congruence|]. split.
    + intros i Hi Hi2. destruct (Nat.eq_dec i j0) as [->|Hne].
      * rewrite (Hout j0 ltac:(lia)). unfold upd1. rewrite Nat.eqb_refl. reflexivity.
      * rewrite (Hin i ltac:(lia) Hi2). unfold dr_Vf, upd1. destruct (Nat.eqb_spec i j0); [lia | reflexivity].
    + intros i Hi. rewrite (Hout i ltac:(lia)). unfold upd1. destruct (Nat.eqb_spec i j0); [lia | reflexivity].
Qed.

(* ---- straight-line statements: one statement writing a plain cell keeps the shape of the store ---- *)
Ltac dr_plain :=
  unfold dr_st; cbn [l_venv l_lenv l_heap]; repeat split; auto; try (lsym; reflexivity);
  try (intros i Hi; rewrite !hget_hset_other by oid_neq; auto).
Ltac dr_stmt Hs c :=
  match goal with
  | |- context [lexec1 ?I ?rk ?j ?s0 (dr_s c)] =>
      let E := fresh "E" in let s1 := fresh "s" in
      destruct s0 as [? ? ? ? ?]; dr_open Hs;
      cbv [dr_s]; lsym
  end.

(* what one iteration computes, in terms of the index functions *)
Definition dr_adj0 (f : nat -> Rvec) : Rvec :=
  acc_adj (fun i => dr_Ladj (dro i) (f i)) 1%nat (dr_n - 1)%nat (dr_Ladj (dro 0%nat) (f 0%nat)).
Definition dr_p1a (x : Rvec) (vs : nat -> Rvec) : Rvec := proxf (vlin 1 x (- tau / 2) (dr_adj0 vs)).
Definition dr_w1a (x : Rvec) (vs : nat -> Rvec) : Rvec := vlin 2 (dr_p1a x vs) (- (1)) x.
Definition dr_x1 (k : nat) (x : Rvec) (vs : nat -> Rvec) : Rvec := vlin 1 x (- lam k) (dr_p1a x vs).
Definition dr_z1b (x : Rvec) (vs : nat -> Rvec) : Rvec :=
  vlin 1 (dr_w1a x vs) (- tau / 2) (dr_adj0 (dr_Wf vs (dr_w1a x vs))).
Definition dr_x2 (k : nat) (x : Rvec) (vs : nat -> Rvec) : Rvec := vlin 1 (dr_x1 k x vs) (lam k) (dr_z1b x vs).
Definition dr_p1b (x : Rvec) (vs : nat -> Rvec) : Rvec := vlin 2 (dr_z1b x vs) (- (1)) (dr_w1a x vs).
Definition dr_vs' (k : nat) (x : Rvec) (vs : nat -> Rvec) (i : nat) : Rvec :=
  dr_Vf k vs (dr_Pf vs (dr_w1a x vs)) (dr_Wf vs (dr_w1a x vs)) (dr_p1b x vs) i.

Lemma acc_adj_ext (f g : nat -> Rvec) : forall rem j0 a,
  (forall i, (j0 <= i)%nat -> (i < j0 + rem)%nat -> f i = g i) -> acc_adj f j0 rem a = acc_adj g j0 rem a.
Proof.
  induction rem as [|rem IH]; intros j0 a H; cbn [acc_adj]; [reflexivity|].
  rewrite (H j0) by lia. apply IH. intros i H1 H2. apply H; lia.
Qed.

Hypothesis nonempty : (1 <= dr_n)%nat.

(* first half of an iteration: up to and including the callback *)
Lemma dr_half1_heap k s x vs P2 W2 p1 z1 w1 :
  dr_st s x vs P2 W2 p1 z1 w1 ->
  exists s' z1',
    litems_last (drI k) rkey dr_n false
      [IStmt (dr_s 0); IForFrom 1 dr_bA; IStmt (dr_s 2); IStmt (dr_s 3); IStmt (dr_s 4); IStmt (dr_s 5); IStmt (dr_s 6)] s
    = Some s'
    /\ dr_st s' (dr_x1 k x vs) vs P2 W2 (dr_p1a x vs) z1' (dr_w1a x vs)
    /\ l_log s' = (l_log s ++ [dr_p1a x vs])%list.
Proof.
  intros Hs. cbn [litems_last].
  (* z1 = L[0].adjoint(v[0]) *)
  destruct s as [ve le h nx log]. pose proof Hs as Hs0. dr_open Hs.
  pose proof (Hvs 0%nat ltac:(lia)) as Hv0.
  assert (E0 : exists s1, lexec1 (drI k 0) rkey 0 (mk_lst ve le h nx log) (dr_s 0) = Some s1
                /\ dr_st s1 x vs P2 W2 p1 (dr_Ladj (dro 0%nat) (vs 0%nat)) w1 /\ l_log s1 = log).
  { eexists. split; [cbv [dr_s]; lsym; reflexivity|]. split; [dr_plain | reflexivity]. }
  destruct E0 as (s1 & E0 & Hs1 & Hlog1). rewrite E0. cbn [obind]. clear E0.
  destruct (dr_loopA k (dr_n - 1)%nat 1%nat s1 x vs P2 W2 p1 _ w1 ltac:(lia) Hs1) as (s2 & p1' & E2 & Hs2 & Hlog2).
  rewrite E2. cbn [obind]. clear E2.
  fold (dr_adj0 vs) in Hs2.
  (* z1.lincomb(1, x, -tau / 2, z1); prox; w1; x; callback *)
  clear Hs0 Hv Hvp Hvz Hvw Hl1 Hl2 Hl3 Hl4 Hx Hp1 Hz1 Hw1 Hvs HP2 HW2 HZ2 Hv0 Hs1.
  destruct s2 as [ve2 le2 h2 nx2 log2]. pose proof Hs2 as Hs2'. dr_open Hs2.
  eexists. eexists. split; [cbv [dr_s]; lsym; reflexivity|]. split.
  - unfold dr_x1, dr_p1a, dr_w1a. dr_plain.
  - cbn [l_log] in *. unfold dr_p1a. congruence.
Qed.

(* second half of a non-final iteration *)
Definition dr_z1b' (vs : nat -> Rvec) (w1 : Rvec) : Rvec := vlin 1 w1 (- tau / 2) (dr_adj0 (dr_Wf vs w1)).
Definition dr_p1b' (vs : nat -> Rvec) (w1 : Rvec) : Rvec := vlin 2 (dr_z1b' vs w1) (- (1)) w1.
Lemma dr_half2_heap k s x1 vs P2 W2 p1 z1 w1 :
  dr_st s x1 vs P2 W2 p1 z1 w1 ->
  exists s' vs' P2' W2',
    litems_last (drI k) rkey dr_n false
      [IFor dr_bP; IStmt (dr_s 9); IForFrom 1 dr_bB; IStmt (dr_s 11); IStmt (dr_s 12); IStmt (dr_s 13); IFor dr_bV] s
    = Some s'
    /\ dr_st s' (vlin 1 x1 (lam k) (dr_z1b' vs w1)) vs' P2' W2' (dr_p1b' vs w1) (dr_z1b' vs w1) w1
    /\ l_log s' = l_log s
    /\ (forall i, (i < dr_n)%nat -> vs' i = dr_Vf k vs (dr_Pf vs w1) (dr_Wf vs w1) (dr_p1b' vs w1) i).
Proof.
  intros Hs. cbn [litems_last].
  destruct (dr_loopP k dr_n 0 s x1 vs P2 W2 p1 z1 w1 eq_refl Hs) as (s1 & P2' & W2' & E1 & Hs1 & Hlog1 & Hin & _).
  rewrite E1. cbn [obind]. clear E1.
  (* p1 = L[0].adjoint(w2[0]) *)
  destruct s1 as [ve le h nx log]. pose proof Hs1 as Hs1'. dr_open Hs1.
  pose proof (HW2 0%nat ltac:(lia)) as Hw0.
  assert (E2 : exists s2, lexec1 (drI k 0) rkey 0 (mk_lst ve le h nx log) (dr_s 9) = Some s2
                /\ dr_st s2 x1 vs P2' W2' (dr_Ladj (dro 0%nat) (W2' 0%nat)) z1 w1 /\ l_log s2 = log).
  { eexists. split; [cbv [dr_s]; lsym; reflexivity|]. split; [dr_plain | reflexivity]. }
  destruct E2 as (s2 & E2 & Hs2 & Hlog2). rewrite E2. cbn [obind]. clear E2.
  destruct (dr_loopB k (dr_n - 1)%nat 1%nat s2 x1 vs P2' W2' _ z1 w1 ltac:(lia) Hs2) as (s3 & z1' & E3 & Hs3 & Hlog3).
  rewrite E3. cbn [obind]. clear E3.
  assert (Eadj : acc_adj (fun i => dr_Ladj (dro i) (W2' i)) 1 (dr_n - 1) (dr_Ladj (dro 0%nat) (W2' 0%nat)) = dr_adj0 (dr_Wf vs w1)).
  { unfold dr_adj0. rewrite (proj2 (Hin 0%nat ltac:(lia) ltac:(lia))).
    apply acc_adj_ext. intros i H1 H2. rewrite (proj2 (Hin i ltac:(lia) ltac:(lia))). reflexivity. }
  rewrite Eadj in Hs3.
  clear Hs1' Hv Hvp Hvz Hvw Hl1 Hl2 Hl3 Hl4 Hx Hp1 Hz1 Hw1 Hvs HP2 HW2 HZ2 Hw0 Hs2.
  destruct s3 as [ve3 le3 h3 nx3 log3]. pose proof Hs3 as Hs3'. dr_open Hs3.
  assert (E4 : exists s4, lexec1 (drI k 0) rkey 0 (mk_lst ve3 le3 h3 nx3 log3) (dr_s 11) = Some s4
             /\ dr_st s4 x1 vs P2' W2' (dr_adj0 (dr_Wf vs w1)) (dr_z1b' vs w1) w1 /\ l_log s4 = log3).
  { eexists. split; [cbv [dr_s]; lsym; reflexivity|]. split; [unfold dr_z1b'; dr_plain | reflexivity]. }
  destruct E4 as (s4a & E4 & Hs4a & Hlog4a). rewrite E4. cbn [obind]. clear E4.
  clear Hs3' Hv Hvp Hvz Hvw Hl1 Hl2 Hl3 Hl4 Hx Hp1 Hz1 Hw1 Hvs HP2 HW2 HZ2.
  destruct s4a as [ve4 le4 h4 nx4 log4]. pose proof Hs4a as Hs4a'. dr_open Hs4a.
  assert (E5 : exists s4, lexec1 (drI k 0) rkey 0 (mk_lst ve4 le4 h4 nx4 log4) (dr_s 12) = Some s4
             /\ dr_st s4 (vlin 1 x1 (lam k) (dr_z1b' vs w1)) vs P2' W2' (dr_adj0 (dr_Wf vs w1)) (dr_z1b' vs w1) w1
             /\ l_log s4 = log4).
  { eexists. split; [cbv [dr_s]; lsym; reflexivity|]. split; [dr_plain | reflexivity]. }
  destruct E5 as (s4b & E5 & Hs4b & Hlog4b). rewrite E5. cbn [obind]. clear E5.
  clear Hs4a' Hv Hvp Hvz Hvw Hl1 Hl2 Hl3 Hl4 Hx Hp1 Hz1 Hw1 Hvs HP2 HW2 HZ2.
  destruct s4b as [ve5 le5 h5 nx5 log5]. pose proof Hs4b as Hs4b'. dr_open Hs4b.
  assert (E6 : exists s4, lexec1 (drI k 0) rkey 0 (mk_lst ve5 le5 h5 nx5 log5) (dr_s 13) = Some s4
             /\ dr_st s4 (vlin 1 x1 (lam k) (dr_z1b' vs w1)) vs P2' W2' (dr_p1b' vs w1) (dr_z1b' vs w1) w1
             /\ l_log s4 = log5).
  { eexists. split; [cbv [dr_s]; lsym; reflexivity|]. split; [unfold dr_p1b'; dr_plain | reflexivity]. }
  destruct E6 as (s4 & E6 & Hs4 & Hlog4). rewrite E6. cbn [obind]. clear E6.
  destruct (dr_loopV k dr_n 0 s4 _ vs P2' W2' _ _ w1 eq_refl Hs4) as (s5 & vs' & E5 & Hs5 & Hlog5 & Hvin & _).
  rewrite E5. cbn [obind].
  exists s5, vs', P2', W2'. split; [reflexivity|]. split; [exact Hs5|]. split; [cbn [l_log] in *; congruence|].
  intros i Hi. rewrite (Hvin i ltac:(lia) Hi). unfold dr_Vf.
  destruct (Hin i ltac:(lia) Hi) as [-> ->]. reflexivity.
Qed.

(* ---- one whole iteration of the regenerated main loop body ---- *)
Lemma dr_iter_nonlast k s x vs P2 W2 p1 z1 w1 :
  dr_st s x vs P2 W2 p1 z1 w1 ->
  exists s' vs' P2' W2' p1' z1' w1',
    litems_last (drI k) rkey dr_n false douglas_rachford_pd_lbody s = Some s'
    /\ dr_st s' (dr_x2 k x vs) vs' P2' W2' p1' z1' w1'
    /\ l_log s' = (l_log s ++ [dr_p1a x vs])%list
    /\ (forall i, (i < dr_n)%nat -> vs' i = dr_vs' k x vs i).
Proof.
  intros Hs. rewrite dr_shape.
  change [IStmt (dr_s 0); IForFrom 1 dr_bA; IStmt (dr_s 2); IStmt (dr_s 3); IStmt (dr_s 4); IStmt (dr_s 5); IStmt (dr_s 6);
          IIfLast dr_last; IFor dr_bP; IStmt (dr_s 9); IForFrom 1 dr_bB; IStmt (dr_s 11); IStmt (dr_s 12); IStmt (dr_s 13);
          IFor dr_bV]
    with ([IStmt (dr_s 0); IForFrom 1 dr_bA; IStmt (dr_s 2); IStmt (dr_s 3); IStmt (dr_s 4); IStmt (dr_s 5); IStmt (dr_s 6)]
          ++ IIfLast dr_last :: [IFor dr_bP; IStmt (dr_s 9); IForFrom 1 dr_bB; IStmt (dr_s 11); IStmt (dr_s 12); IStmt (dr_s 13);
                                 IFor dr_bV])%list.
  assert (Happ : forall l1 l2 st, litems_last (drI k) rkey dr_n false (l1 ++ IIfLast dr_last :: l2)%list st
                  = obind (litems_last (drI k) rkey dr_n false l1 st) (litems_last (drI k) rkey dr_n false l2)).
  { induction l1 as [|it l1 IH]; intros l2 st; [reflexivity|].
    destruct it; cbn [app litems_last];
      first [ reflexivity | apply IH
            | match goal with |- obind ?a _ = obind (obind ?a _) _ => destruct a; cbn [obind]; [apply IH | reflexivity] end ]. }
  rewrite Happ.
  destruct (dr_half1_heap k s x vs P2 W2 p1 z1 w1 Hs) as (s1 & z1' & E1 & Hs1 & Hlog1). rewrite E1. cbn [obind].
  destruct (dr_half2_heap k s1 _ vs P2 W2 _ z1' _ Hs1) as (s2 & vs' & P2' & W2' & E2 & Hs2 & Hlog2 & Hvs').
  rewrite E2. exists s2, vs', P2', W2'. do 3 eexists. split; [reflexivity|]. split; [exact Hs2|]. split; [congruence|].
  exact Hvs'.
Qed.
(* the last iteration: the first half, then  x.assign(p1); return *)
Lemma dr_iter_last k s x vs P2 W2 p1 z1 w1 :
  dr_st s x vs P2 W2 p1 z1 w1 ->
  exists s', litems_last (drI k) rkey dr_n true douglas_rachford_pd_lbody s = Some s'
    /\ hget (l_heap s') (OCaller "x") = Some (dr_p1a x vs)
    /\ l_log s' = (l_log s ++ [dr_p1a x vs])%list.
Proof.
  intros Hs. rewrite dr_shape.
  assert (Hpre : forall st,
    litems_last (drI k) rkey dr_n true
      [IStmt (dr_s 0); IForFrom 1 dr_bA; IStmt (dr_s 2); IStmt (dr_s 3); IStmt (dr_s 4); IStmt (dr_s 5); IStmt (dr_s 6);
       IIfLast dr_last; IFor dr_bP; IStmt (dr_s 9); IForFrom 1 dr_bB; IStmt (dr_s 11); IStmt (dr_s 12); IStmt (dr_s 13);
       IFor dr_bV] st
    = obind (litems_last (drI k) rkey dr_n false
               [IStmt (dr_s 0); IForFrom 1 dr_bA; IStmt (dr_s 2); IStmt (dr_s 3); IStmt (dr_s 4); IStmt (dr_s 5); IStmt (dr_s 6)] st)
            (lexec (drI k 0) rkey 0 dr_last)).
  { intros st. cbn [litems_last].
    repeat match goal with |- obind ?a _ = obind (obind ?a _) _ => destruct a; cbn [obind]; [|reflexivity] end.
    reflexivity. }
  rewrite Hpre.
  destruct (dr_half1_heap k s x vs P2 W2 p1 z1 w1 Hs) as (s1 & z1' & E1 & Hs1 & Hlog1). rewrite E1. cbn [obind].
  destruct s1 as [ve le h nx log]. dr_open Hs1.
  eexists. split; [cbv [dr_last]; unfold lexec; lsym; reflexivity|]. split; [lsym; reflexivity | exact Hlog1].
Qed.

(* ---- the index-function formulas are the list model of C11/Model.v ---- *)
Definition ofl (l : list Rvec) : nat -> Rvec := fun i => nth i l [].
Lemma nth_map_combine {A B} (f : A * B -> Rvec) (dA : A) (dB : B) : forall (l1 : list A) (l2 : list B) (i : nat),
  (i < List.length l1)%nat -> (i < List.length l2)%nat ->
  nth i (map f (combine l1 l2)) [] = f (nth i l1 dA, nth i l2 dB).
Proof.
  induction l1 as [|a l1 IH]; intros [|b l2] i H1 H2; cbn [List.length] in *; try lia.
  destruct i as [|i]; cbn [combine map nth]; [reflexivity | apply IH; lia].
Qed.
Lemma length_map_combine {A B C} (f : A * B -> C) (l1 : list A) (l2 : list B) :
  List.length l1 = List.length l2 -> List.length (map f (combine l1 l2)) = List.length l1.
Proof. intros E. rewrite map_length, combine_length, E. apply Nat.min_id. Qed.

Lemma acc_adj_fold (vsl : list Rvec) : List.length vsl = dr_n -> forall rem j0 a, (j0 + rem = dr_n)%nat ->
  acc_adj (fun i => dr_Ladj (dro i) (ofl vsl i)) j0 rem a
  = fold_left (fun acc ov => vadd acc (dr_Ladj (fst ov) (snd ov))) (combine (skipn j0 ops) (skipn j0 vsl)) a.
Proof.
  intros Hl. induction rem as [|rem IH]; intros j0 a Hn; cbn [acc_adj].
  - unfold dr_n in *. rewrite !skipn_all2 by lia. reflexivity.
  - rewrite (skipn_nth_cons ops dflt j0) by (unfold dr_n in *; lia).
    rewrite (skipn_nth_cons vsl [] j0) by lia. cbn [combine fold_left fst snd]. apply IH. lia.
Qed.
Lemma dr_adjsum_idx (vsl : list Rvec) : List.length vsl = dr_n -> dr_adjsum ops vsl = Some (dr_adj0 (ofl vsl)).
Proof.
  intros Hl. unfold dr_adj0. rewrite (acc_adj_fold vsl Hl) by lia.
  unfold dr_n in *. destruct ops as [|o ops'] eqn:Eo; [cbn in nonempty; lia|]. destruct vsl as [|v vsl']; [cbn in Hl; lia|].
  cbn [dr_adjsum skipn]. unfold dro, ofl. rewrite Eo. reflexivity.
Qed.

Lemma dr_half1_idx k x (vsl : list Rvec) : List.length vsl = dr_n ->
  dr_half1 proxf tau lam ops k x vsl = (dr_p1a x (ofl vsl), dr_w1a x (ofl vsl), dr_x1 k x (ofl vsl)).
Proof. intros Hl. unfold dr_half1. rewrite (dr_adjsum_idx vsl Hl). reflexivity. Qed.

Lemma dr_half2_idx k w1 x1 (vsl : list Rvec) : List.length vsl = dr_n ->
  let '(x2, vsl') := dr_half2 tau lam ops k w1 x1 vsl in
  x2 = vlin 1 x1 (lam k) (dr_z1b' (ofl vsl) w1) /\ List.length vsl' = dr_n
  /\ forall i, (i < dr_n)%nat ->
       nth i vsl' [] = dr_Vf k (ofl vsl) (dr_Pf (ofl vsl) w1) (dr_Wf (ofl vsl) w1) (dr_p1b' (ofl vsl) w1) i.
Proof.
  intros Hl. unfold dr_half2.
  set (p2s := map _ (combine ops vsl)). set (w2s := map _ (combine p2s vsl)).
  assert (Lp : List.length p2s = dr_n) by (unfold p2s; rewrite length_map_combine; unfold dr_n in *; lia).
  assert (Lw : List.length w2s = dr_n) by (unfold w2s; rewrite length_map_combine; lia).
  assert (Np : forall i, (i < dr_n)%nat -> nth i p2s [] = dr_Pf (ofl vsl) w1 i).
  { intros i Hi. unfold p2s. rewrite (nth_map_combine _ dflt []) by (unfold dr_n in *; lia). reflexivity. }
  assert (Nw : forall i, (i < dr_n)%nat -> nth i w2s [] = dr_Wf (ofl vsl) w1 i).
  { intros i Hi. unfold w2s. rewrite (nth_map_combine _ [] []) by lia. cbn [fst snd]. rewrite Np by exact Hi. reflexivity. }
  rewrite (dr_adjsum_idx w2s Lw).
  assert (Ea : dr_adj0 (ofl w2s) = dr_adj0 (dr_Wf (ofl vsl) w1)).
  { unfold dr_adj0, ofl. rewrite Nw by lia. apply acc_adj_ext. intros i H1 H2. rewrite Nw by lia. reflexivity. }
  rewrite Ea. split; [reflexivity|]. split.
  - rewrite map_length, !combine_length. unfold dr_n in *. lia.
  - intros i Hi.
    rewrite (nth_map_combine _ (dflt, [], []) []) by (rewrite ?combine_length; unfold dr_n in *; lia).
    assert (E3 : nth i (combine (combine ops w2s) p2s) (dflt, [], []) = (nth i ops dflt, nth i w2s [], nth i p2s [])).
    { rewrite combine_nth by (rewrite combine_length; unfold dr_n in *; lia).
      rewrite combine_nth by (unfold dr_n in *; lia). reflexivity. }
    rewrite E3. rewrite (no_l i ltac:(unfold dr_n in *; lia)). rewrite Nw, Np by exact Hi. reflexivity.
Qed.

Lemma dr_step_idx k x (vsl : list Rvec) : List.length vsl = dr_n ->
  dr_p1 proxf tau lam ops k (x, vsl) = dr_p1a x (ofl vsl)
  /\ let '(x2, vsl') := dr_step proxf tau lam ops k (x, vsl) in
     x2 = dr_x2 k x (ofl vsl) /\ List.length vsl' = dr_n
     /\ forall i, (i < dr_n)%nat -> nth i vsl' [] = dr_vs' k x (ofl vsl) i.
Proof.
  intros Hl. unfold dr_p1, dr_step. cbn [fst snd]. rewrite (dr_half1_idx k x vsl Hl). split; [reflexivity|].
  exact (dr_half2_idx k (dr_w1a x (ofl vsl)) (dr_x1 k x (ofl vsl)) vsl Hl).
Qed.

Lemma dr_st_ext s x vs vs2 P2 W2 p1 z1 w1 :
  dr_st s x vs P2 W2 p1 z1 w1 -> (forall i, (i < dr_n)%nat -> vs i = vs2 i) -> dr_st s x vs2 P2 W2 p1 z1 w1.
Proof.
  intros Hs E. destruct s as [ve le h nx log]. dr_open Hs. unfold dr_st. cbn [l_venv l_lenv l_heap].
  repeat split; auto. intros i Hi. rewrite <- E by exact Hi. auto.
Qed.

(* ---- the main loop: niter - 1 full iterations, then the last one returns after x.assign(p1) ---- *)
Fixpoint dr_gen_loop (n k0 : nat) (s : @lst R) : option (@lst R) :=
  match n with
  | O => Some s
  | S m => match m with
           | O => litems_last (drI k0) rkey dr_n true douglas_rachford_pd_lbody s
           | S _ => obind (litems_last (drI k0) rkey dr_n false douglas_rachford_pd_lbody s) (dr_gen_loop m (S k0))
           end
  end.
Lemma last_cons_indep (b : Rvec) (l : list Rvec) (d1 d2 : Rvec) : last (b :: l) d1 = last (b :: l) d2.
Proof. revert b; induction l as [|c l IH]; intros b; [reflexivity|]. cbn [last] in *. apply IH. Qed.
Lemma dr_gen_loop_ok : forall n k0 s x vsl P2 W2 p1 z1 w1, (1 <= n)%nat ->
  dr_st s x (ofl vsl) P2 W2 p1 z1 w1 -> List.length vsl = dr_n ->
  exists s', dr_gen_loop n k0 s = Some s'
    /\ l_log s' = (l_log s ++ dr_trace proxf tau lam ops n k0 (x, vsl))%list
    /\ hget (l_heap s') (OCaller "x") = Some (last (dr_trace proxf tau lam ops n k0 (x, vsl)) x).
Proof.
  induction n as [|n IH]; intros k0 s x vsl P2 W2 p1 z1 w1 Hn Hs Hl; [lia|].
  destruct (dr_step_idx k0 x vsl Hl) as (Ep1 & Hstep).
  destruct n as [|n].
  - cbn [dr_gen_loop dr_trace]. destruct (dr_iter_last k0 s x (ofl vsl) P2 W2 p1 z1 w1 Hs) as (s' & E & Hx & Hlog).
    exists s'. split; [exact E|]. rewrite Ep1. cbn [last]. split; [exact Hlog | exact Hx].
  - change (dr_gen_loop (S (S n)) k0 s)
      with (obind (litems_last (drI k0) rkey dr_n false douglas_rachford_pd_lbody s) (dr_gen_loop (S n) (S k0))).
    destruct (dr_iter_nonlast k0 s x (ofl vsl) P2 W2 p1 z1 w1 Hs)
      as (s1 & vs' & P2' & W2' & p1' & z1' & w1' & E1 & Hs1 & Hlog1 & Hvs').
    rewrite E1. cbn [obind].
    destruct (dr_step proxf tau lam ops k0 (x, vsl)) as [x2 vsl'] eqn:Est.
    destruct Hstep as (-> & Hl' & Hn').
    assert (Hs1' : dr_st s1 (dr_x2 k0 x (ofl vsl)) (ofl vsl') P2' W2' p1' z1' w1').
    { apply (dr_st_ext _ _ vs'); [exact Hs1|]. intros i Hi. unfold ofl. rewrite Hn', Hvs' by exact Hi. reflexivity. }
    destruct (IH (S k0) s1 _ vsl' P2' W2' p1' z1' w1' ltac:(lia) Hs1' Hl') as (s2 & E2 & Hlog2 & Hx2).
    exists s2. split; [exact E2|].
    change (dr_trace proxf tau lam ops (S (S n)) k0 (x, vsl))
      with (dr_p1 proxf tau lam ops k0 (x, vsl) :: dr_trace proxf tau lam ops (S n) (S k0) (dr_step proxf tau lam ops k0 (x, vsl))).
    rewrite Est, Ep1. split.
    + rewrite Hlog2, Hlog1, <- app_assoc. reflexivity.
    + rewrite Hx2. cbn [dr_trace]. f_equal.
      match goal with |- last (?b :: ?l) ?d2 = last (?a :: ?b :: ?l) ?d1 => change (last (a :: b :: l) d1) with (last (b :: l) d1) end.
      apply last_cons_indep.
Qed.

(* ---- preamble: v, p2, w2 are lists of NEW zero objects, z2 one new object per range class,
        p1, z1, w1 new zero objects of the domain ---- *)
Lemma dr_pre_ok x :
  exists s, pexec (drI 0) rkey dr_n nkeys douglas_rachford_pd_lpre (s_init x) = Some s
    /\ dr_st s x (ofl (snd (dr_init ops x))) (fun i => vzero (dr_m (dro i))) (fun i => vzero (dr_m (dro i)))
             (vzero xdim) (vzero xdim) (vzero xdim)
    /\ l_log s = [].
Proof.
  cbv [douglas_rachford_pd_lpre]. cbn [pexec].
  rewrite pexec1_list. cbn [obind]. rewrite pexec1_bind_zero. cbn [obind]. rewrite pexec1_list. cbn [obind].
  rewrite pexec1_bind_zero. cbn [obind]. rewrite pexec1_dict. cbn [obind]. rewrite pexec1_bind_zero. cbn [obind].
  rewrite pexec1_list. cbn [obind].
  eexists. split; [reflexivity|].
  assert (N0 : forall s e, l_next (st_list (drI 0) rkey dr_n "v" e s) = l_next s) by reflexivity.
  split.
  - unfold dr_st.
    rewrite ?venv_st_list, ?venv_st_dict, ?venv_st_bind, ?lenv_st_list, ?lenv_st_dict, ?lenv_st_bind,
            ?next_st_list, ?next_st_dict, ?next_st_bind.
    cbn [s_init l_venv l_lenv l_next].
    repeat split; try reflexivity.
    + intros i Hi. rewrite hget_st_list_other by discriminate.
      rewrite hget_st_bind_other by discriminate. rewrite hget_st_dict_list.
      rewrite hget_st_bind_other by discriminate. rewrite hget_st_list_other by discriminate.
      rewrite hget_st_bind_other by discriminate. rewrite hget_st_list_same by exact Hi.
      unfold ofl, dr_init. cbn [snd lveval].
      rewrite (nth_indep _ [] (vzero (dr_m dflt))) by (rewrite map_length; exact Hi).
      rewrite (map_nth (fun o => vzero (dr_m o))). reflexivity.
    + intros i Hi. rewrite hget_st_list_other by discriminate.
      rewrite hget_st_bind_other by discriminate. rewrite hget_st_dict_list.
      rewrite hget_st_bind_other by discriminate. rewrite hget_st_list_same by exact Hi. reflexivity.
    + intros i Hi. rewrite hget_st_list_same by exact Hi. reflexivity.
    + intros kk Hk. eexists. rewrite hget_st_list_dict. rewrite hget_st_bind_other by discriminate.
      rewrite hget_st_dict_same by exact Hk. reflexivity.
  - rewrite ?log_st_list, ?log_st_dict, ?log_st_bind. reflexivity.
Qed.

(* the whole call of the regenerated douglas_rachford_pd (>= 1 operators, no l, niter >= 1):
   the callback log is the model trace, the caller's x ends as the model's returned iterate *)
Lemma gen_dr_run niter x : (1 <= niter)%nat ->
  exists s0 s, pexec (drI 0) rkey dr_n nkeys douglas_rachford_pd_lpre (s_init x) = Some s0
    /\ dr_gen_loop niter 0 s0 = Some s
    /\ l_log s = dr_trace proxf tau lam ops niter 0 (dr_init ops x)
    /\ hget (l_heap s) (OCaller "x") = Some (dr_run proxf tau lam ops niter x).
Proof.
  intros Hn. destruct (dr_pre_ok x) as (s0 & E0 & Hs0 & Hlog0).
  destruct (dr_gen_loop_ok niter 0 s0 x (snd (dr_init ops x)) _ _ _ _ _ Hn Hs0) as (s1 & E1 & Hlog1 & Hx1).
  { unfold dr_init. cbn [snd]. now rewrite map_length. }
  exists s0, s1. split; [exact E0|]. split; [exact E1|].
  change (x, snd (dr_init ops x)) with (dr_init ops x) in *. split.
  - rewrite Hlog1, Hlog0. reflexivity.
  - rewrite Hx1. f_equal. destruct (dr_callbacks proxf tau lam ops niter x) as (_ & _ & E). symmetry. exact E.
Qed.
End DRsweep.
